/-
  C25 — finite-group representation facts, proved directly (no FDRep):

  for a finite family of linear maps `A g` closed under composition with bijective translations
  (a finite matrix group, or the opposite of one), the average `P = |G|⁻¹ Σ A g` is idempotent, its range is
  exactly the space of common fixed vectors, and dim(fixed space) = tr P = |G|⁻¹ Σ tr (A g)   (CHAR).

  Robust independence: a family whose Gram matrix is within `ε` of the identity with `m ε < 1` is linearly
  independent.  Counting: independent + contained + cardinality = dimension ⇒ spanning.
-/
import Mathlib.LinearAlgebra.Trace
import Mathlib.LinearAlgebra.Projection
import Mathlib.LinearAlgebra.Dimension.Constructions
import Mathlib.LinearAlgebra.FiniteDimensional.Lemmas
import Mathlib.Algebra.Order.BigOperators.Group.Finset
import Mathlib.Algebra.Order.Field.Basic
import Mathlib.Tactic.Linarith
import Mathlib.Tactic.Ring

namespace Onsager.C25

open Module

section Avg
variable {K V ι : Type*} [Field K] [AddCommGroup V] [Module K V] [Fintype ι]
variable (A : ι → V →ₗ[K] V)

/-- the group average -/
noncomputable def avgMap : V →ₗ[K] V := ((Fintype.card ι : K)⁻¹) • ∑ g, A g

/-- common fixed vectors -/
def fixedSpace : Submodule K V where
  carrier := {f | ∀ g, A g f = f}
  add_mem' := by
    intro a b ha hb g
    rw [map_add, ha g, hb g]
  zero_mem' := by intro g; simp
  smul_mem' := by
    intro c x hx g
    rw [map_smul, hx g]

omit [Fintype ι] in
theorem mem_fixedSpace {f : V} : f ∈ fixedSpace A ↔ ∀ g, A g f = f := Iff.rfl

variable {A}
variable {mul : ι → ι → ι}

theorem avgMap_apply (f : V) : avgMap A f = ((Fintype.card ι : K)⁻¹) • ∑ g, A g f := by
  unfold avgMap
  rw [LinearMap.smul_apply, LinearMap.sum_apply]

theorem comp_avgMap (hmul : ∀ g h, A g ∘ₗ A h = A (mul g h)) (hbij : ∀ g, Function.Bijective (mul g))
    (g : ι) : A g ∘ₗ avgMap A = avgMap A := by
  ext f
  rw [LinearMap.comp_apply, avgMap_apply, map_smul, map_sum]
  congr 1
  calc ∑ h, A g (A h f) = ∑ h, A (mul g h) f := by
        apply Finset.sum_congr rfl
        intro h _
        rw [← hmul g h, LinearMap.comp_apply]
    _ = ∑ k, A k f := Function.Bijective.sum_comp (hbij g) (fun k => A k f)

theorem avgMap_apply_of_fixed (hN : (Fintype.card ι : K) ≠ 0) {f : V} (hf : ∀ g, A g f = f) :
    avgMap A f = f := by
  rw [avgMap_apply]
  simp only [hf, Finset.sum_const, Finset.card_univ]
  rw [← Nat.cast_smul_eq_nsmul K, smul_smul, inv_mul_cancel₀ hN, one_smul]

/-- the average is idempotent -/
theorem avgMap_idem (hmul : ∀ g h, A g ∘ₗ A h = A (mul g h)) (hbij : ∀ g, Function.Bijective (mul g))
    (hN : (Fintype.card ι : K) ≠ 0) : avgMap A ∘ₗ avgMap A = avgMap A := by
  ext f
  rw [LinearMap.comp_apply]
  apply avgMap_apply_of_fixed hN
  intro g
  rw [← LinearMap.comp_apply, comp_avgMap hmul hbij g]

/-- the range of the average is exactly the fixed space -/
theorem range_avgMap (hmul : ∀ g h, A g ∘ₗ A h = A (mul g h)) (hbij : ∀ g, Function.Bijective (mul g))
    (hN : (Fintype.card ι : K) ≠ 0) : LinearMap.range (avgMap A) = fixedSpace A := by
  ext f
  constructor
  · rintro ⟨u, rfl⟩ g
    rw [← LinearMap.comp_apply, comp_avgMap hmul hbij g]
  · intro hf
    exact ⟨f, avgMap_apply_of_fixed hN hf⟩

/-- CHAR: the dimension of the fixed space is the trace of the average -/
theorem finrank_fixedSpace_eq_trace [FiniteDimensional K V]
    (hmul : ∀ g h, A g ∘ₗ A h = A (mul g h)) (hbij : ∀ g, Function.Bijective (mul g))
    (hN : (Fintype.card ι : K) ≠ 0) :
    (finrank K (fixedSpace A) : K) = LinearMap.trace K V (avgMap A) := by
  have hid : IsIdempotentElem (avgMap A) := avgMap_idem hmul hbij hN
  have hproj := LinearMap.IsIdempotentElem.isProj_range (avgMap A) hid
  rw [hproj.trace, range_avgMap hmul hbij hN]

/-- CHAR, character form: `dim (fixed space) = |G|⁻¹ Σ_g tr (A g)` -/
theorem char_formula [FiniteDimensional K V]
    (hmul : ∀ g h, A g ∘ₗ A h = A (mul g h)) (hbij : ∀ g, Function.Bijective (mul g))
    (hN : (Fintype.card ι : K) ≠ 0) :
    (finrank K (fixedSpace A) : K) = (Fintype.card ι : K)⁻¹ * ∑ g, LinearMap.trace K V (A g) := by
  rw [finrank_fixedSpace_eq_trace hmul hbij hN]
  unfold avgMap
  rw [map_smul, map_sum, smul_eq_mul]

end Avg

/-! ### robust independence and the counting argument -/

section Robust
variable {V : Type*} [AddCommGroup V] [Module ℚ V] {m : ℕ}

/-- A family whose Gram matrix (for any bilinear form `B`) is within `ε` of the identity, `m ε < 1`, is
    linearly independent (strict diagonal dominance). -/
theorem linearIndependent_of_near_orthonormal (B : V →ₗ[ℚ] V →ₗ[ℚ] ℚ) (w : Fin m → V) (ε : ℚ)
    (_hε : 0 ≤ ε) (hsmall : (m : ℚ) * ε < 1)
    (hG : ∀ i j, |B (w i) (w j) - (if i = j then 1 else 0)| ≤ ε) : LinearIndependent ℚ w := by
  rw [Fintype.linearIndependent_iff]
  intro c hc
  by_contra hne
  rw [not_forall] at hne
  obtain ⟨i0, hi0⟩ := hne
  have : Nonempty (Fin m) := ⟨i0⟩
  -- index of maximal |c|
  obtain ⟨k, hk⟩ := Finite.exists_max (fun i => |c i|)
  have hckpos : 0 < |c k| := lt_of_lt_of_le (abs_pos.mpr hi0) (hk i0)
  -- 0 = B (w k) (Σ c j w j) = Σ c j G k j
  have h0 : ∑ j, c j * B (w k) (w j) = 0 := by
    have : B (w k) (∑ j, c j • w j) = 0 := by rw [hc, map_zero]
    rw [map_sum] at this
    simpa [map_smul, smul_eq_mul] using this
  -- split G = δ + E
  have hsplit : ∑ j, c j * B (w k) (w j)
      = c k + ∑ j, c j * (B (w k) (w j) - (if k = j then 1 else 0)) := by
    have : ∀ j, c j * B (w k) (w j)
        = c j * (if k = j then 1 else 0) + c j * (B (w k) (w j) - (if k = j then 1 else 0)) := by
      intro j; ring
    rw [Finset.sum_congr rfl (fun j _ => this j), Finset.sum_add_distrib]
    congr 1
    simp [Finset.sum_ite_eq]
  have hbound : |∑ j, c j * (B (w k) (w j) - (if k = j then 1 else 0))| ≤ (m : ℚ) * (|c k| * ε) := by
    calc |∑ j, c j * (B (w k) (w j) - (if k = j then 1 else 0))|
        ≤ ∑ j, |c j * (B (w k) (w j) - (if k = j then 1 else 0))| := Finset.abs_sum_le_sum_abs _ _
      _ ≤ ∑ _j : Fin m, |c k| * ε := by
          apply Finset.sum_le_sum
          intro j _
          rw [abs_mul]
          exact mul_le_mul (hk j) (hG k j) (abs_nonneg _) (abs_nonneg _)
      _ = (m : ℚ) * (|c k| * ε) := by simp
  have hck : c k = - ∑ j, c j * (B (w k) (w j) - (if k = j then 1 else 0)) := by
    rw [hsplit] at h0; linarith
  have : |c k| ≤ (m : ℚ) * (|c k| * ε) := by
    calc |c k| = |∑ j, c j * (B (w k) (w j) - (if k = j then 1 else 0))| := by rw [hck, abs_neg]
      _ ≤ _ := hbound
  have h2 : |c k| * (1 - (m : ℚ) * ε) ≤ 0 := by nlinarith
  have h3 : 0 < |c k| * (1 - (m : ℚ) * ε) := mul_pos hckpos (by linarith)
  linarith

/-- independent + inside `E` + as many as `dim E` ⇒ the family spans `E`. -/
theorem span_eq_of_card_eq_finrank [FiniteDimensional ℚ V] (E : Submodule ℚ V) (w : Fin m → V)
    (hli : LinearIndependent ℚ w) (hmem : ∀ i, w i ∈ E) (hcard : finrank ℚ E = m) :
    Submodule.span ℚ (Set.range w) = E := by
  apply Submodule.eq_of_le_of_finrank_eq
  · rw [Submodule.span_le]
    rintro _ ⟨i, rfl⟩
    exact hmem i
  · rw [finrank_span_eq_card hli, hcard, Fintype.card_fin]

end Robust

end Onsager.C25
