/-
  C36 — value types obey equality, hashing and arithmetic laws.
  Theorems about OnsagerModel/C36.lean (PairState, ClusterSite, Cluster, GroupOp, vacancyThermoKinetics).

  discrete types      `psEq_equivalence`, `psKey_eq_iff`, `ps_hash_respects_eq`, `csEq_equivalence`,
                      `csKey_eq_iff`, `cluster_eq_refl/symm/trans/total`, `cluster_hash_respects_eq`
                      (+ `cluster_hash_needs_distinct_sites`: the hypothesis is necessary)
  `!=`                `ne_is_negation`, `ne_bare_raises`
  groupoid laws       `add_error_iff`, `xor_error_iff` (definedness = the raised errors), `add_assoc`,
                      `add_assoc_ordinary`, `add_neg_self`, `neg_add_self`, `neg_neg`, `sub_add_cancel`,
                      `xor_add_cancel`; exceptions with witnesses: `add_assoc_fails_improper`,
                      `sub_add_cancel_fails`
  symmetry            `g_add`, `g_neg`, `g_sub`, `g_xor` (every operation), `cs_g_add`
  tolerance types     `close1_refl`, `gopEq_refl`, `gop_hash_respects_eq`, `gop_exact_part_equivalence`,
                      `vtkEq_refl`; NEGATIVE: `close1_not_transitive`, `close1_not_symmetric`,
                      `gopEq_not_transitive`, `gopEq_not_symmetric`, `C36_GroupOp_full_false`,
                      `vtkEq_not_transitive`, `vtk_hash_not_respecting_eq`, `C36_vTK_full_false`
-/
import OnsagerModel.C36
import OnsagerProofs.C23
import Mathlib.Data.List.Perm.Basic
import Mathlib.Tactic.NormNum

namespace Onsager.C36
open Onsager.C23
variable {d : Nat}


theorem veq_iff (a b : IVec d) : veq a b = true ↔ a = b := by
  simp only [veq, List.all_eq_true, List.mem_finRange, true_implies, beq_iff_eq]
  exact ⟨fun h => funext h, fun h k => congrFun h k⟩

theorem veq_false_iff (a b : IVec d) : veq a b = false ↔ a ≠ b := by
  rw [ne_eq, ← veq_iff, Bool.not_eq_true]

@[ext] theorem PairState.ext' {a b : PairState d} (h1 : a.i = b.i) (h2 : a.j = b.j) (h3 : a.R = b.R)
    (h4 : a.dx = b.dx) : a = b := by
  cases a; cases b; simp_all

/-! ### equality and hash of pair states -/

theorem psEq_iff (a b : PairState d) : psEq a b = true ↔ a.i = b.i ∧ a.j = b.j ∧ a.R = b.R := by
  simp [psEq, veq_iff, and_assoc]

theorem psEq_refl (a : PairState d) : psEq a a = true := by simp [psEq_iff]
theorem psEq_symm {a b : PairState d} (h : psEq a b = true) : psEq b a = true := by
  rw [psEq_iff] at *; exact ⟨h.1.symm, h.2.1.symm, h.2.2.symm⟩
theorem psEq_trans {a b c : PairState d} (h1 : psEq a b = true) (h2 : psEq b c = true) :
    psEq a c = true := by
  rw [psEq_iff] at *; exact ⟨h1.1.trans h2.1, h1.2.1.trans h2.2.1, h1.2.2.trans h2.2.2⟩

/-- `==` of pair states is an equivalence relation -/
theorem psEq_equivalence : Equivalence (fun a b : PairState d => psEq a b = true) :=
  ⟨psEq_refl, psEq_symm, psEq_trans⟩

/-- equal pair states have equal hash keys, and conversely (the hash key is exactly the compared data) -/
theorem psKey_eq_iff (a b : PairState d) : psKey a = psKey b ↔ psEq a b = true := by
  rw [psEq_iff]
  simp only [psKey, List.cons.injEq]
  constructor
  · rintro ⟨h1, h2, h3⟩
    exact ⟨h1, h2, List.ofFn_injective h3⟩
  · rintro ⟨h1, h2, h3⟩
    exact ⟨h1, h2, by rw [h3]⟩

theorem ps_hash_respects_eq {a b : PairState d} (h : psEq a b = true) (hash : List Int → Nat) :
    hash (psKey a) = hash (psKey b) := by rw [(psKey_eq_iff a b).2 h]

/-- `!=` written as `not self.__eq__(other)` (or derived by Python) is the negation of `==`;
    the bare-name form raises on every call -/
theorem ne_is_negation (code : Nat) (h : code = 0 ∨ code = 3) (e : Bool) : neModel code e = .ok (!e) := by
  simp [neModel, h]
theorem ne_bare_raises (e : Bool) : neModel 1 e = .error "NameError" := by
  simp [neModel]

/-! ### groupoid laws -/

theorem isZero_iff (s : PairState d) : isZero s = true ↔ s.i = s.j ∧ s.R = iZero := by
  simp [isZero, veq_iff]

theorem isUZ_iff (s : PairState d) : isUZ s = true ↔ s.i = -1 ∧ s.j = -1 ∧ s.R = iZero := by
  simp only [isUZ, Bool.and_eq_true, isZero_iff, beq_iff_eq]
  constructor
  · rintro ⟨⟨h1, h2⟩, h3⟩; exact ⟨by omega, h3, h2⟩
  · rintro ⟨h1, h2, h3⟩; exact ⟨⟨by omega, h3⟩, h2⟩

/-- the second test of `__add__` (`other.iszero() and other.i == -1`) is the same predicate -/
theorem isUZ_iff' (s : PairState d) : (isZero s && s.i == -1) = isUZ s := by
  simp only [isUZ]
  cases h : isZero s
  · simp
  · have := (isZero_iff s).1 h
    simp [this.1]

theorem add_def (a b : PairState d) :
    add a b = if isUZ a then .ok b else if isUZ b then .ok a
      else if a.j ≠ b.i then .error "arithmetic-error"
      else .ok { i := a.i, j := b.j, R := iAdd a.R b.R, dx := vAdd a.dx b.dx } := by
  unfold add
  rw [isUZ_iff' b]
  simp only [isUZ, bne_iff_ne, ne_eq, ite_not]

/-- `a + b` raises exactly when neither is the universal zero and the inner indices differ -/
theorem add_error_iff (a b : PairState d) :
    (∃ e, add a b = .error e) ↔ (isUZ a = false ∧ isUZ b = false ∧ a.j ≠ b.i) := by
  rw [add_def]
  cases ha : isUZ a <;> cases hb : isUZ b <;> by_cases h : a.j = b.i <;> simp [h]

/-- `a ^ b` raises exactly when the initial indices differ -/
theorem xor_error_iff (a b : PairState d) : (∃ e, xor a b = .error e) ↔ a.i ≠ b.i := by
  unfold xor
  by_cases h : a.i = b.i <;> simp [h]

theorem iAdd_assoc (a b c : IVec d) : iAdd (iAdd a b) c = iAdd a (iAdd b c) := by
  funext k; simp [iAdd]; ring
theorem vAdd_assoc (a b c : QVec d) : vAdd (vAdd a b) c = vAdd a (vAdd b c) := by
  funext k; simp [vAdd]; ring

/-- ordinary states: no index is the sentinel −1 -/
def Proper (s : PairState d) : Prop := s.i ≠ -1 ∧ s.j ≠ -1

theorem not_UZ_of_proper {s : PairState d} (h : Proper s) : isUZ s = false := by
  cases hs : isUZ s
  · rfl
  · exact absurd ((isUZ_iff s).1 hs).1 h.1

theorem proper_mk {i j : Int} {R : IVec d} {dx : QVec d} (h1 : i ≠ -1) (h2 : j ≠ -1) :
    Proper ({ i := i, j := j, R := R, dx := dx } : PairState d) := ⟨h1, h2⟩

theorem add_of_proper {a b : PairState d} (ha : Proper a) (hb : Proper b) :
    add a b = if a.j = b.i then .ok { i := a.i, j := b.j, R := iAdd a.R b.R, dx := vAdd a.dx b.dx }
      else .error "arithmetic-error" := by
  rw [add_def, not_UZ_of_proper ha, not_UZ_of_proper hb]
  by_cases h : a.j = b.i <;> simp [h]

theorem add_proper {a b r : PairState d} (ha : Proper a) (hb : Proper b) (h : add a b = .ok r) : Proper r := by
  rw [add_of_proper ha hb] at h
  split at h
  · injection h with h; subst h; exact ⟨ha.1, hb.2⟩
  · cases h

/-- associativity for ordinary states, including definedness: both sides raise together or return the
    same state (`dx` included, in exact arithmetic). -/
theorem add_assoc {a b c : PairState d} (ha : Proper a) (hb : Proper b) (hc : Proper c) :
    (add a b).bind (fun s => add s c) = (add b c).bind (fun s => add a s) := by
  rw [add_of_proper ha hb, add_of_proper hb hc]
  by_cases h1 : a.j = b.i <;> by_cases h2 : b.j = c.i
  · rw [if_pos h1, if_pos h2]
    simp only [Except.bind]
    rw [add_of_proper (proper_mk ha.1 hb.2) hc, add_of_proper ha (proper_mk hb.1 hc.2)]
    simp [h1, h2, iAdd_assoc, vAdd_assoc]
  · rw [if_pos h1, if_neg h2]
    simp only [Except.bind]
    rw [add_of_proper (proper_mk ha.1 hb.2) hc]
    simp [h2]
  · rw [if_neg h1, if_pos h2]
    simp only [Except.bind]
    rw [add_of_proper ha (proper_mk hb.1 hc.2)]
    simp [h1]
  · rw [if_neg h1, if_neg h2]
    simp only [Except.bind]


theorem add_UZ_left {a : PairState d} (b : PairState d) (h : isUZ a = true) : add a b = .ok b := by
  rw [add_def, h]; simp

theorem add_UZ_right {a b : PairState d} (ha : isUZ a = false) (h : isUZ b = true) : add a b = .ok a := by
  rw [add_def, ha, h]; simp

theorem bind_ok_self {α ε} (x : Except ε α) : x.bind Except.ok = x := by cases x <;> rfl

/-- ordinary states and the universal zero `PairState.zero(-1)` -/
def Ordinary (s : PairState d) : Prop := Proper s ∨ isUZ s = true

/-- associativity (with definedness) for ordinary states and the universal zero in any position -/
theorem add_assoc_ordinary {a b c : PairState d} (ha : Ordinary a) (hb : Ordinary b) (hc : Ordinary c) :
    (add a b).bind (fun s => add s c) = (add b c).bind (fun s => add a s) := by
  rcases ha with ha | ha
  · rcases hb with hb | hb
    · rcases hc with hc | hc
      · exact add_assoc ha hb hc
      · rw [add_UZ_right (not_UZ_of_proper hb) hc]
        simp only [Except.bind]
        cases hab : add a b with
        | error e => rfl
        | ok s =>
          simp only [Except.bind]
          rw [add_UZ_right (not_UZ_of_proper (add_proper ha hb hab)) hc]
    · rw [add_UZ_right (not_UZ_of_proper ha) hb, add_UZ_left c hb]
      simp only [Except.bind]
  · rw [add_UZ_left b ha]
    cases hbc : add b c with
    | error e => simp [Except.bind, hbc]
    | ok s => simp [Except.bind, hbc, add_UZ_left s ha]

/-- with improper states (an index −1 on a non-zero state) associativity fails: the left side is
    defined, the right side raises -/
theorem add_assoc_fails_improper :
    let a : PairState 1 := { i := -1, j := 0, R := iZero, dx := qZero }
    let b : PairState 1 := { i := 0, j := -1, R := iZero, dx := qZero }
    let c : PairState 1 := { i := 5, j := 5, R := iZero, dx := qZero }
    (∃ r, (add a b).bind (fun s => add s c) = .ok r) ∧ (∃ e, (add b c).bind (fun s => add a s) = .error e) := by
  refine ⟨⟨_, rfl⟩, ⟨_, rfl⟩⟩

theorem iNeg_iNeg (a : IVec d) : iNeg (iNeg a) = a := by funext k; simp [iNeg]
theorem iAdd_iNeg_self (a : IVec d) : iAdd a (iNeg a) = iZero := by funext k; simp [iAdd, iNeg, iZero]
theorem vAdd_neg_self (a : QVec d) : (vAdd a fun k => - a k) = qZero := by funext k; simp [vAdd, qZero]

theorem neg_neg (a : PairState d) : neg (neg a) = a := by
  apply PairState.ext' <;> simp [neg, iNeg_iNeg]

theorem isUZ_neg (a : PairState d) : isUZ (neg a) = isUZ a := by
  rw [Bool.eq_iff_iff, isUZ_iff, isUZ_iff]
  simp only [neg]
  constructor
  · rintro ⟨h1, h2, h3⟩
    refine ⟨h2, h1, ?_⟩
    funext k; have := congrFun h3 k; simp only [iNeg, iZero] at *; omega
  · rintro ⟨h1, h2, h3⟩
    refine ⟨h2, h1, ?_⟩
    funext k; have := congrFun h3 k; simp only [iNeg, iZero] at *; omega

/-- `a + (-a)` is the zero state at `a.i`, for every state -/
theorem add_neg_self (a : PairState d) :
    ∃ r, add a (neg a) = .ok r ∧ psEq r (zero a.i) = true ∧ (isUZ a = false → r = zero a.i) := by
  cases ha : isUZ a
  · refine ⟨zero a.i, ?_, psEq_refl _, fun _ => rfl⟩
    rw [add_def, ha, isUZ_neg, ha]
    simp only [Bool.false_eq_true, if_false, neg, ne_eq, not_true_eq_false]
    congr 1
    apply PairState.ext' <;> simp [zero, iAdd_iNeg_self, vAdd_neg_self]
  · refine ⟨neg a, add_UZ_left _ ha, ?_, by simp⟩
    have := (isUZ_iff a).1 ha
    rw [psEq_iff]
    refine ⟨by simp [neg, zero, this.1, this.2.1], by simp [neg, zero, this.1], ?_⟩
    funext k; simp [neg, zero, this.2.2, iNeg, iZero]

/-- `(-a) + a` is the zero state at `a.j` -/
theorem neg_add_self (a : PairState d) :
    ∃ r, add (neg a) a = .ok r ∧ psEq r (zero a.j) = true := by
  obtain ⟨r, h1, h2, _⟩ := add_neg_self (neg a)
  rw [neg_neg] at h1
  exact ⟨r, h1, h2⟩

/-- `(a − b) + b = a` whenever `a − b` is defined, except when `a` is the universal zero and `b` is not
    (then the result is the zero state at `b.j`, see `sub_add_cancel_fails`). -/
theorem sub_add_cancel {a b r : PairState d} (H : isUZ a = false ∨ isUZ b = true ∨ b.j = -1)
    (h : sub a b = .ok r) : ∃ r', add r b = .ok r' ∧ psEq r' a = true := by
  unfold sub at h
  cases hb : isUZ b
  · cases ha : isUZ a
    · -- ordinary case
      rw [add_def, ha, isUZ_neg, hb] at h
      simp only [Bool.false_eq_true, if_false] at h
      split at h
      · cases h
      · rename_i hj
        simp only [neg, ne_eq, not_not] at hj
        injection h with h
        subst h
        cases hr : isUZ ({ i := a.i, j := (neg b).j, R := iAdd a.R (neg b).R, dx := vAdd a.dx (neg b).dx } : PairState d)
        · refine ⟨_, by rw [add_def, hr, hb]; simp [neg]; rfl, ?_⟩
          rw [psEq_iff]
          refine ⟨rfl, hj.symm, ?_⟩
          funext k; simp [iAdd, neg, iNeg]
        · refine ⟨b, add_UZ_left _ hr, ?_⟩
          have := (isUZ_iff _).1 hr
          simp only [neg] at this
          rw [psEq_iff]
          refine ⟨by omega, hj.symm, ?_⟩
          funext k; have := congrFun this.2.2 k; simp only [iAdd, iNeg, iZero] at this; omega
    · -- a universal zero, b not: needs b.j = -1
      have hbj : b.j = -1 := by
        rcases H with H | H | H
        · rw [ha] at H; cases H
        · rw [hb] at H; cases H
        · exact H
      rw [add_UZ_left _ ha] at h
      injection h with h; subst h
      have hn : isUZ (neg b) = false := by rw [isUZ_neg, hb]
      refine ⟨_, by rw [add_def, hn, hb]; simp [neg]; rfl, ?_⟩
      have := (isUZ_iff a).1 ha
      rw [psEq_iff]
      refine ⟨by simp [neg, hbj, this.1], by simp [hbj, this.2.1], ?_⟩
      funext k; simp [neg, iAdd, iNeg, this.2.2, iZero]
  · have hn : isUZ (neg b) = true := by rw [isUZ_neg, hb]
    cases ha : isUZ a
    · rw [add_UZ_right ha hn] at h
      injection h with h; subst h
      exact ⟨a, add_UZ_right ha hb, psEq_refl _⟩
    · rw [add_UZ_left _ ha] at h
      injection h with h; subst h
      refine ⟨b, add_UZ_left _ hn, ?_⟩
      have h1 := (isUZ_iff a).1 ha
      have h2 := (isUZ_iff b).1 hb
      rw [psEq_iff]
      exact ⟨by omega, by omega, by rw [h1.2.2, h2.2.2]⟩

/-- the excluded case is a genuine exception: `(0₋₁ − b) + b` is the zero state at `b.j`, not `0₋₁` -/
theorem sub_add_cancel_fails :
    let a : PairState 1 := zero (-1)
    let b : PairState 1 := { i := 0, j := 1, R := fun _ => 2, dx := qZero }
    ∃ r r', sub a b = .ok r ∧ add r b = .ok r' ∧ psEq r' a = false ∧ psEq r' (zero 1) = true := by
  refine ⟨_, _, rfl, rfl, ?_, ?_⟩ <;> decide

/-- `b + (a ^ b) = a` for all states for which `a ^ b` is defined (and `a + (b ^ a) = b` by symmetry) -/
theorem xor_add_cancel {a b r : PairState d} (h : xor a b = .ok r) :
    ∃ r', add b r = .ok r' ∧ psEq r' a = true := by
  unfold xor at h
  split at h
  · cases h
  · rename_i hi
    simp only [bne_iff_ne, ne_eq, not_not] at hi
    injection h with h; subst h
    cases hb : isUZ b
    · cases hr : isUZ ({ i := b.j, j := a.j, R := iSub a.R b.R, dx := vSub a.dx b.dx } : PairState d)
      · refine ⟨_, by rw [add_def, hb, hr]; simp; rfl, ?_⟩
        rw [psEq_iff]
        refine ⟨hi.symm, rfl, ?_⟩
        funext k; simp [iAdd, iSub]
      · refine ⟨b, add_UZ_right hb hr, ?_⟩
        have := (isUZ_iff _).1 hr
        simp only at this
        rw [psEq_iff]
        refine ⟨hi.symm, by omega, ?_⟩
        funext k; have := congrFun this.2.2 k; simp only [iSub, iZero] at this; omega
    · refine ⟨_, add_UZ_left _ hb, ?_⟩
      have := (isUZ_iff b).1 hb
      rw [psEq_iff]
      refine ⟨by simp; omega, rfl, ?_⟩
      funext k; simp [iSub, this.2.2, iZero]



theorem iMulVec_zero (A : IMat d) : iMulVec A iZero = iZero := by
  funext i; simp [iMulVec_apply, iZero]

theorem gPos_shift (cr : Crystal d) (g : GroupOp d) (R : IVec d) (c i : Nat) :
    gPos cr g R c i = (gPos cr g iZero c i).map (fun r => (iAdd (iMulVec g.rot R) r.1, r.2)) := by
  unfold gPos
  cases g.imap? c i with
  | none => rfl
  | some i' =>
    cases cr.pos? c i with
    | none => rfl
    | some u =>
      simp only
      cases cr.pos? c i' with
      | none => rfl
      | some u' =>
        simp only [Except.map, gPosCore, iMulVec_zero]
        congr 2
        funext k; simp [iAdd, iZero]

/-- `PairState.g` in terms of the site shifts `D = g_pos(g, 0, site)` -/
theorem psg_spec {cr : Crystal d} {chem : Nat} {g : GroupOp d} {s s' : PairState d}
    (h : s.g cr chem g = .ok s') :
    0 ≤ s.i ∧ 0 ≤ s.j ∧ ∃ (Di Dj : IVec d) (ci cj gi gj : Nat),
      gPos cr g iZero chem s.i.toNat = .ok (Di, ci, gi) ∧ gPos cr g iZero chem s.j.toNat = .ok (Dj, cj, gj) ∧
      s' = { i := gi, j := gj, R := iSub (iAdd (iMulVec g.rot s.R) Dj) Di, dx := gDirec g s.dx } := by
  obtain ⟨h1, h2, Ri, Rj, ci, cj, gi, gj, e1, e2, e3, e4, e5, e6⟩ := pairState_g_ok h
  rw [gPos_shift] at e2
  cases hj : gPos cr g iZero chem s.j.toNat with
  | error e => rw [hj] at e2; cases e2
  | ok r =>
    rw [hj] at e2
    simp only [Except.map] at e2
    injection e2 with e2
    obtain ⟨Dj, cj', gj'⟩ := r
    simp only [Prod.mk.injEq] at e2
    obtain ⟨q1, q2, q3⟩ := e2
    refine ⟨h1, h2, Ri, Dj, ci, cj', gi, gj', e1, rfl, ?_⟩
    apply PairState.ext'
    · exact e3
    · rw [e4, q3]
    · rw [e5, ← q1]
    · exact e6

theorem psg_of {cr : Crystal d} {chem : Nat} {g : GroupOp d} {s : PairState d}
    (hi : 0 ≤ s.i) (hj : 0 ≤ s.j) {Di Dj : IVec d} {ci cj gi gj : Nat}
    (h1 : gPos cr g iZero chem s.i.toNat = .ok (Di, ci, gi))
    (h2 : gPos cr g iZero chem s.j.toNat = .ok (Dj, cj, gj)) :
    s.g cr chem g = .ok { i := gi, j := gj, R := iSub (iAdd (iMulVec g.rot s.R) Dj) Di, dx := gDirec g s.dx } := by
  unfold PairState.g
  rw [if_neg (by omega), h1, gPos_shift, h2]
  rfl

theorem proper_of_nonneg {s : PairState d} (hi : 0 ≤ s.i) (hj : 0 ≤ s.j) : Proper s :=
  ⟨by omega, by omega⟩

/-- `g(a + b) = g(a) + g(b)` for every operation (no symmetry needed), `dx` included -/
theorem g_add {cr : Crystal d} {chem : Nat} {g : GroupOp d} {a b s ga gb : PairState d}
    (hs : add a b = .ok s) (ha : a.g cr chem g = .ok ga) (hb : b.g cr chem g = .ok gb) :
    ∃ gs, s.g cr chem g = .ok gs ∧ add ga gb = .ok gs := by
  obtain ⟨a1, a2, Dai, Daj, cai, caj, gai, gaj, p1, p2, p3⟩ := psg_spec ha
  obtain ⟨b1, b2, Dbi, Dbj, cbi, cbj, gbi, gbj, q1, q2, q3⟩ := psg_spec hb
  rw [add_of_proper (proper_of_nonneg a1 a2) (proper_of_nonneg b1 b2)] at hs
  split at hs
  · rename_i hab
    injection hs with hs
    subst hs
    rw [hab, q1] at p2
    injection p2 with p2
    simp only [Prod.mk.injEq] at p2
    obtain ⟨r1, r2, r3⟩ := p2
    subst r1; subst r3
    refine ⟨_, psg_of (s := { i := a.i, j := b.j, R := iAdd a.R b.R, dx := vAdd a.dx b.dx }) a1 b2 p1 q2, ?_⟩
    subst p3; subst q3
    rw [add_of_proper (proper_mk (by omega) (by omega)) (proper_mk (by omega) (by omega))]
    simp only [if_true]
    congr 1
    apply PairState.ext'
    · rfl
    · rfl
    · funext k; simp only [iAdd, iSub, iMulVec_iAdd]; ring
    · simp only [gDirec_add]
  · cases hs

theorem iMulVec_iNeg (A : IMat d) (x : IVec d) : iMulVec A (iNeg x) = iNeg (iMulVec A x) := by
  funext i; simp [iMulVec_apply, iNeg, Finset.sum_neg_distrib]

theorem iMulVec_iSub (A : IMat d) (x y : IVec d) : iMulVec A (iSub x y) = iSub (iMulVec A x) (iMulVec A y) := by
  funext i; simp [iMulVec_apply, iSub, mul_sub, Finset.sum_sub_distrib]

/-- `g(−a) = −g(a)` -/
theorem g_neg {cr : Crystal d} {chem : Nat} {g : GroupOp d} {a ga : PairState d}
    (ha : a.g cr chem g = .ok ga) : (neg a).g cr chem g = .ok (neg ga) := by
  obtain ⟨a1, a2, Dai, Daj, cai, caj, gai, gaj, p1, p2, p3⟩ := psg_spec ha
  rw [psg_of (s := neg a) (by simpa [neg] using a2) (by simpa [neg] using a1) (by simpa [neg] using p2)
    (by simpa [neg] using p1)]
  subst p3
  congr 1
  apply PairState.ext'
  · rfl
  · rfl
  · funext k; simp only [neg, iAdd, iSub, iNeg, iMulVec_iNeg]; ring
  · have := gDirec_smul g (-1) a.dx
    simp only [neg_one_mul] at this
    simpa [neg] using this

/-- `g(a ^ b) = g(a) ^ g(b)` -/
theorem g_xor {cr : Crystal d} {chem : Nat} {g : GroupOp d} {a b s ga gb : PairState d}
    (hs : xor a b = .ok s) (ha : a.g cr chem g = .ok ga) (hb : b.g cr chem g = .ok gb) :
    ∃ gs, s.g cr chem g = .ok gs ∧ xor ga gb = .ok gs := by
  obtain ⟨a1, a2, Dai, Daj, cai, caj, gai, gaj, p1, p2, p3⟩ := psg_spec ha
  obtain ⟨b1, b2, Dbi, Dbj, cbi, cbj, gbi, gbj, q1, q2, q3⟩ := psg_spec hb
  unfold xor at hs
  split at hs
  · cases hs
  · rename_i hab
    simp only [bne_iff_ne, ne_eq, not_not] at hab
    injection hs with hs
    subst hs
    rw [hab, q1] at p1
    injection p1 with p1
    simp only [Prod.mk.injEq] at p1
    obtain ⟨r1, r2, r3⟩ := p1
    subst r1; subst r3
    refine ⟨_, psg_of (s := { i := b.j, j := a.j, R := iSub a.R b.R, dx := vSub a.dx b.dx }) b2 a2 q2 p2, ?_⟩
    subst p3; subst q3
    unfold xor
    simp only [bne_self_eq_false, Bool.false_eq_true, if_false]
    congr 1
    apply PairState.ext'
    · rfl
    · rfl
    · funext k; simp only [iAdd, iSub, iMulVec_iSub]; ring
    · simp only [gDirec, qMulVec_vSub]

/-- `g(a − b) = g(a) − g(b)` -/
theorem g_sub {cr : Crystal d} {chem : Nat} {g : GroupOp d} {a b s ga gb : PairState d}
    (hs : sub a b = .ok s) (ha : a.g cr chem g = .ok ga) (hb : b.g cr chem g = .ok gb) :
    ∃ gs, s.g cr chem g = .ok gs ∧ sub ga gb = .ok gs :=
  g_add hs ha (g_neg hb)



/-! ### cluster sites -/

@[ext] theorem ClusterSite.ext' {a b : ClusterSite d} (h1 : a.c = b.c) (h2 : a.i = b.i) (h3 : a.R = b.R) : a = b := by
  cases a; cases b; simp_all

theorem csEq_iff (a b : ClusterSite d) : csEq a b = true ↔ a = b := by
  simp only [csEq, Bool.and_eq_true, beq_iff_eq, veq_iff]
  constructor
  · rintro ⟨⟨h1, h2⟩, h3⟩; exact ClusterSite.ext' h1 h2 h3
  · rintro rfl; exact ⟨⟨rfl, rfl⟩, rfl⟩

/-- `==` of cluster sites is an equivalence (it is structural equality of `(ci, R)`) -/
theorem csEq_equivalence : Equivalence (fun a b : ClusterSite d => csEq a b = true) := by
  refine ⟨fun a => (csEq_iff a a).2 rfl, ?_, ?_⟩
  · intro a b h; rw [csEq_iff] at *; exact h.symm
  · intro a b c h1 h2; rw [csEq_iff] at *; exact h1.trans h2

theorem csKey_eq_iff (a b : ClusterSite d) : csKey a = csKey b ↔ csEq a b = true := by
  rw [csEq_iff]
  constructor
  · intro h
    simp only [csKey, List.cons.injEq, Nat.cast_inj] at h
    exact ClusterSite.ext' h.1 h.2.1 (List.ofFn_injective h.2.2)
  · rintro rfl; rfl

theorem cs_hash_respects_eq {a b : ClusterSite d} (h : csEq a b = true) (hash : List Int → Nat) :
    hash (csKey a) = hash (csKey b) := by rw [(csKey_eq_iff a b).2 h]

theorem cs_add_sub (a : ClusterSite d) (v : IVec d) : csSub (csAdd a v) v = a := by
  apply ClusterSite.ext'
  · rfl
  · rfl
  · funext k; simp [csSub, csAdd, iAdd, iNeg]

theorem cs_neg_neg (a : ClusterSite d) : csNeg (csNeg a) = a := by
  apply ClusterSite.ext'
  · rfl
  · rfl
  · funext k; simp [csNeg, iNeg]

/-- `(site + v).g = site.g + rot·v` -/
theorem cs_g_add (cr : Crystal d) (g : GroupOp d) (s : ClusterSite d) (v : IVec d) :
    (csAdd s v).g cr g = (s.g cr g).map fun t => csAdd t (iMulVec g.rot v) := by
  rw [clusterSite_g_eq_gPos, clusterSite_g_eq_gPos]
  simp only [csAdd]
  rw [gPos_shift cr g (iAdd s.R v), gPos_shift cr g s.R]
  cases gPos cr g iZero s.c s.i with
  | error e => rfl
  | ok r =>
    simp only [Except.map]
    congr 1
    apply ClusterSite.ext'
    · rfl
    · rfl
    · funext k; simp only [iAdd, iMulVec_iAdd]; ring

/-! ### tolerance-compared types -/

theorem qabs'_nonneg (q : ℚ) : 0 ≤ qabs' q := by unfold qabs'; split <;> linarith

theorem close1_refl (atol rtol : ℚ) (ha : 0 ≤ atol) (hr : 0 ≤ rtol) (x : ℚ) : close1 atol rtol x x = true := by
  simp only [close1, sub_self, decide_eq_true_eq]
  have : qabs' 0 = 0 := by simp [qabs']
  rw [this]
  have := qabs'_nonneg x
  positivity

theorem closeList_refl (atol rtol : ℚ) (ha : 0 ≤ atol) (hr : 0 ≤ rtol) (l : List ℚ) :
    closeList atol rtol l l = true := by
  induction l with
  | nil => rfl
  | cons x t ih => simp [closeList, close1_refl atol rtol ha hr, ih]

/-- `GroupOp.__eq__` is reflexive -/
theorem gopEq_refl (atol rtol : ℚ) (ha : 0 ≤ atol) (hr : 0 ≤ rtol) (a : GroupOpVal) : gopEq atol rtol a a = true := by
  simp [gopEq, closeList_refl atol rtol ha hr]

/-- equal group operations have equal hash keys (the hash ignores the tolerance-compared fields) -/
theorem gop_hash_respects_eq (atol rtol : ℚ) {a b : GroupOpVal} (h : gopEq atol rtol a b = true)
    (hash : List Int × List (List Nat) → Nat) : hash (gopKey a) = hash (gopKey b) := by
  simp only [gopEq, Bool.and_eq_true, beq_iff_eq] at h
  simp only [gopKey, h.1.1.1, h.2]

/-- the exactly-compared part of `GroupOp.__eq__` is an equivalence relation -/
theorem gop_exact_part_equivalence : Equivalence (fun a b : GroupOpVal => gopKey a = gopKey b) :=
  ⟨fun _ => rfl, fun h => h.symm, fun h1 h2 => h1.trans h2⟩

theorem vtkEq_refl (atol rtol : ℚ) (ha : 0 ≤ atol) (hr : 0 ≤ rtol) (a : VTK) : vtkEq atol rtol a a = true := by
  simp [vtkEq, closeList_refl atol rtol ha hr]

/-- identical keys (identical bytes) are equal -/
theorem vtk_eq_of_key_eq_partial (atol rtol : ℚ) (ha : 0 ≤ atol) (hr : 0 ≤ rtol) (a b : VTK) (h : a = b) :
    vtkEq atol rtol a b = true := by subst h; exact vtkEq_refl atol rtol ha hr a

/-! numpy's defaults -/
def ATOL : ℚ := 1 / 100000000
def RTOL : ℚ := 1 / 100000

/-- `np.isclose` is not transitive: 0 ~ 0.9e-8 ~ 1.8e-8 but 0 ≁ 1.8e-8 -/
theorem close1_not_transitive :
    close1 ATOL RTOL 0 (9 / 1000000000) = true ∧ close1 ATOL RTOL (9 / 1000000000) (18 / 1000000000) = true ∧
    close1 ATOL RTOL 0 (18 / 1000000000) = false := by
  simp only [close1, qabs', ATOL, RTOL, decide_eq_true_eq, decide_eq_false_iff_not]
  norm_num

/-- 100001.00001 -/
def tB : ℚ := 100001 + 1 / 100000

/-- `np.isclose(a, b)` is not symmetric (the relative term uses `|b|` only) -/
theorem close1_not_symmetric :
    close1 ATOL RTOL 100000 tB = true ∧ close1 ATOL RTOL tB 100000 = false := by
  simp only [close1, qabs', ATOL, RTOL, tB, decide_eq_true_eq, decide_eq_false_iff_not]
  norm_num

def gopW (t : ℚ) : GroupOpVal := { rot := [1, 0, 0, 1], trans := [t, 0], cartrot := [1, 0, 0, 1], imap := [[0]] }

/-- full-strength statement for GroupOp: `==` is an equivalence relation -/
def C36_GroupOp_full : Prop := Equivalence (fun a b : GroupOpVal => gopEq ATOL RTOL a b = true)

/-- … which is false: equality of group operations is neither transitive nor symmetric -/
theorem gopEq_not_transitive :
    gopEq ATOL RTOL (gopW 0) (gopW (9 / 1000000000)) = true ∧
    gopEq ATOL RTOL (gopW (9 / 1000000000)) (gopW (18 / 1000000000)) = true ∧
    gopEq ATOL RTOL (gopW 0) (gopW (18 / 1000000000)) = false := by
  obtain ⟨h1, h2, h3⟩ := close1_not_transitive
  have h0 : close1 ATOL RTOL 0 0 = true := close1_refl _ _ (by norm_num [ATOL]) (by norm_num [RTOL]) 0
  have h10 : close1 ATOL RTOL 1 1 = true := close1_refl _ _ (by norm_num [ATOL]) (by norm_num [RTOL]) 1
  simp [gopEq, gopW, closeList, h0, h10, h1, h2, h3]

theorem gopEq_not_symmetric :
    gopEq ATOL RTOL (gopW 100000) (gopW tB) = true ∧
    gopEq ATOL RTOL (gopW tB) (gopW 100000) = false := by
  obtain ⟨h1, h2⟩ := close1_not_symmetric
  have h0 : close1 ATOL RTOL 0 0 = true := close1_refl _ _ (by norm_num [ATOL]) (by norm_num [RTOL]) 0
  have h10 : close1 ATOL RTOL 1 1 = true := close1_refl _ _ (by norm_num [ATOL]) (by norm_num [RTOL]) 1
  simp [gopEq, gopW, closeList, h0, h10, h1, h2]

theorem C36_GroupOp_full_false : ¬ C36_GroupOp_full := by
  intro h
  have := h.symm gopEq_not_symmetric.1
  rw [gopEq_not_symmetric.2] at this
  cases this

def vtkW (t : ℚ) : VTK := { pre := [1], betaene := [t], preT := [1], betaeneT := [2] }

/-- full-strength statements for vacancyThermoKinetics -/
def C36_vTK_full : Prop :=
  Equivalence (fun a b : VTK => vtkEq ATOL RTOL a b = true) ∧
  ∀ a b : VTK, vtkEq ATOL RTOL a b = true → vtkKey a = vtkKey b

theorem vtkEq_not_transitive :
    vtkEq ATOL RTOL (vtkW 0) (vtkW (9 / 1000000000)) = true ∧
    vtkEq ATOL RTOL (vtkW (9 / 1000000000)) (vtkW (18 / 1000000000)) = true ∧
    vtkEq ATOL RTOL (vtkW 0) (vtkW (18 / 1000000000)) = false := by
  obtain ⟨h1, h2, h3⟩ := close1_not_transitive
  have h10 : close1 ATOL RTOL 1 1 = true := close1_refl _ _ (by norm_num [ATOL]) (by norm_num [RTOL]) 1
  have h20 : close1 ATOL RTOL 2 2 = true := close1_refl _ _ (by norm_num [ATOL]) (by norm_num [RTOL]) 2
  simp [vtkEq, vtkW, closeList, h10, h20, h1, h2, h3]

/-- equal keys, different hashes: `==` is `allclose`, the hash is of the exact bytes -/
theorem vtk_hash_not_respecting_eq :
    vtkEq ATOL RTOL (vtkW 0) (vtkW (9 / 1000000000)) = true ∧ vtkKey (vtkW 0) ≠ vtkKey (vtkW (9 / 1000000000)) := by
  refine ⟨vtkEq_not_transitive.1, ?_⟩
  simp only [vtkKey, vtkW, List.cons_append, List.nil_append, ne_eq, List.cons.injEq, and_true, true_and]
  norm_num

theorem C36_vTK_full_false : ¬ C36_vTK_full := by
  rintro ⟨_, h⟩
  exact vtk_hash_not_respecting_eq.2 (h _ _ vtk_hash_not_respecting_eq.1)




/-! ### clusters -/

/-- what `Cluster.__init__` guarantees and `__eq__` relies on: the reference site has `R = 0`, and a
    transition-state cluster has its two transition sites -/
structure Cluster.WF (a : Cluster d) : Prop where
  first : ∃ s0 rest, a.sites = s0 :: rest ∧ s0.R = iZero
  two : a.transition = true → 2 ≤ a.sites.length

theorem csSub_self_R (s : ClusterSite d) : (csSub s s.R).R = iZero := by
  funext k; simp [csSub, csAdd, iAdd, iNeg, iZero]

theorem csSub_zero (s : ClusterSite d) (h : v = iZero) : csSub s v = s := by
  subst h
  apply ClusterSite.ext'
  · rfl
  · rfl
  · funext k; simp [csSub, csAdd, iAdd, iNeg, iZero]

/-- the constructor produces a re-centred cluster -/
theorem make_first {mark : Bool} {lis : List (ClusterSite d)} {t v ns : Bool} {a : Cluster d}
    (h : Cluster.make mark lis t v ns = .ok a) :
    (∃ s0 rest, a.sites = s0 :: rest ∧ s0.R = iZero) ∧ a.transition = t ∧ a.vacancy = v := by
  unfold Cluster.make at h
  simp only at h
  split at h
  · cases h
  · rename_i s0 rest heq
    injection h with h
    subst h
    refine ⟨⟨csSub s0 s0.R, rest.map (fun s => csSub s s0.R), ?_, csSub_self_R s0⟩, rfl, rfl⟩
    simp only [heq, List.map_cons]

theorem entriesEq_iff (x y : List Entry) : entriesEq x y = true ↔ ∀ e, e ∈ x ↔ e ∈ y := by
  simp only [entriesEq, Bool.and_eq_true, List.all_eq_true, List.contains_iff_mem]
  constructor
  · rintro ⟨h1, h2⟩ e; exact ⟨h1 e, h2 e⟩
  · intro h; exact ⟨fun e he => (h e).1 he, fun e he => (h e).2 he⟩

/-- the transition-state test of `__eq__`, as a relation between the leading two sites -/
def tsMatch (vac : Bool) (a0 a1 b0 b1 : ClusterSite d) : Bool :=
  if csEq a0 (csSub b0 b0.R) && csEq a1 (csSub b1 b0.R) then true
  else if vac then false
  else csEq a0 (csSub b1 b1.R) && csEq a1 (csSub b0 b1.R)

theorem isTransition_eq (a : Cluster d) (a0 a1 : ClusterSite d) (rest : List (ClusterSite d))
    (h : a.sites = a0 :: a1 :: rest) (b0 b1 : ClusterSite d) :
    a.isTransition b0 b1 = .ok (tsMatch a.vacancy a0 a1 b0 b1) := by
  unfold Cluster.isTransition tsMatch
  rw [h]
  simp only
  split
  · rfl
  · split <;> rfl

theorem tsMatch_iff (vac : Bool) (a0 a1 b0 b1 : ClusterSite d) (ha : a0.R = iZero) (hb : b0.R = iZero) :
    tsMatch vac a0 a1 b0 b1 = true ↔
      (a0 = b0 ∧ a1 = b1) ∨ (vac = false ∧ a0.c = b1.c ∧ a0.i = b1.i ∧ a1.c = b0.c ∧ a1.i = b0.i ∧
        a1.R = iNeg b1.R) := by
  unfold tsMatch
  rw [csSub_zero b0 hb, csSub_zero b1 hb]
  by_cases h : a0 = b0 ∧ a1 = b1
  · obtain ⟨e0, e1⟩ := h
    subst e0; subst e1
    simp [(csEq_iff a0 a0).2 rfl, (csEq_iff a1 a1).2 rfl]
  · have : (csEq a0 b0 && csEq a1 b1) = false := by
      rw [Bool.and_eq_false_iff]
      by_cases h0 : a0 = b0
      · right
        have : a1 ≠ b1 := fun h1 => h ⟨h0, h1⟩
        rw [← Bool.not_eq_true, csEq_iff]; exact this
      · left; rw [← Bool.not_eq_true, csEq_iff]; exact h0
    rw [this]
    simp only [Bool.false_eq_true, if_false, h, false_or]
    cases vac
    · simp only [if_false, Bool.and_eq_true, csEq_iff, true_and, Bool.false_eq_true]
      constructor
      · rintro ⟨e0, e1⟩
        subst e0; subst e1
        refine ⟨rfl, rfl, rfl, rfl, ?_⟩
        funext k; simp [csSub, csAdd, iAdd, iNeg, hb, iZero]
      · rintro ⟨c0, i0, c1, i1, hR⟩
        constructor
        · apply ClusterSite.ext'
          · exact c0
          · exact i0
          · rw [ha, csSub_self_R]
        · apply ClusterSite.ext'
          · exact c1
          · exact i1
          · rw [hR]; funext k; simp [csSub, csAdd, iAdd, iNeg, hb, iZero]
    · simp

theorem tsMatch_refl (vac : Bool) (a0 a1 : ClusterSite d) (ha : a0.R = iZero) : tsMatch vac a0 a1 a0 a1 = true := by
  rw [tsMatch_iff vac a0 a1 a0 a1 ha ha]; exact Or.inl ⟨rfl, rfl⟩

theorem tsMatch_symm (vac : Bool) (a0 a1 b0 b1 : ClusterSite d) (ha : a0.R = iZero) (hb : b0.R = iZero)
    (h : tsMatch vac a0 a1 b0 b1 = true) : tsMatch vac b0 b1 a0 a1 = true := by
  rw [tsMatch_iff vac _ _ _ _ ha hb] at h
  rw [tsMatch_iff vac _ _ _ _ hb ha]
  rcases h with ⟨h0, h1⟩ | ⟨hv, c0, i0, c1, i1, hR⟩
  · exact Or.inl ⟨h0.symm, h1.symm⟩
  · refine Or.inr ⟨hv, c1.symm, i1.symm, c0.symm, i0.symm, ?_⟩
    funext k; have := congrFun hR k; simp only [iNeg] at *; omega

theorem tsMatch_trans (vac : Bool) (a0 a1 b0 b1 c0 c1 : ClusterSite d)
    (ha : a0.R = iZero) (hb : b0.R = iZero) (hc : c0.R = iZero)
    (h1 : tsMatch vac a0 a1 b0 b1 = true) (h2 : tsMatch vac b0 b1 c0 c1 = true) :
    tsMatch vac a0 a1 c0 c1 = true := by
  rw [tsMatch_iff vac _ _ _ _ ha hb] at h1
  rw [tsMatch_iff vac _ _ _ _ hb hc] at h2
  rw [tsMatch_iff vac _ _ _ _ ha hc]
  rcases h1 with ⟨p0, p1⟩ | ⟨hv, pc0, pi0, pc1, pi1, pR⟩
  · subst p0; subst p1; exact h2
  · rcases h2 with ⟨q0, q1⟩ | ⟨_, qc0, qi0, qc1, qi1, qR⟩
    · subst q0; subst q1; exact Or.inr ⟨hv, pc0, pi0, pc1, pi1, pR⟩
    · left
      constructor
      · apply ClusterSite.ext' (pc0.trans qc1) (pi0.trans qi1)
        rw [ha, hc]
      · apply ClusterSite.ext' (pc1.trans qc0) (pi1.trans qi0)
        rw [pR, qR]; funext k; simp [iNeg]

/-- `Cluster.__eq__` unfolded for well-formed clusters -/
theorem Cluster.eq_ok_true_iff {a b : Cluster d} (ha : a.WF) (hb : b.WF) :
    Cluster.eq a b = .ok true ↔
      a.transition = b.transition ∧ a.vacancy = b.vacancy ∧ a.norder = b.norder ∧
      (∀ e, e ∈ a.entries ↔ e ∈ b.entries) ∧
      (a.transition = true → ∃ a0 a1 ra b0 b1 rb, a.sites = a0 :: a1 :: ra ∧ b.sites = b0 :: b1 :: rb ∧
          tsMatch a.vacancy a0 a1 b0 b1 = true) := by
  unfold Cluster.eq
  by_cases h1 : a.transition = b.transition
  swap
  · simp [h1]
  by_cases h2 : a.vacancy = b.vacancy
  swap
  · simp [h1, h2]
  by_cases h3 : a.norder = b.norder
  swap
  · simp [h1, h2, h3]
  by_cases h4 : entriesEq a.entries b.entries = true
  swap
  · have hn : ¬ ∀ e, e ∈ a.entries ↔ e ∈ b.entries := fun h => h4 ((entriesEq_iff _ _).2 h)
    have h4f : entriesEq a.entries b.entries = false := by simpa using h4
    simp only [h1, h2, h3, h4f, bne_self_eq_false, Bool.false_eq_true, if_false, Bool.not_false, if_true, true_and]
    constructor
    · intro h; cases h
    · rintro ⟨hh, _⟩; exact absurd hh hn
  have h4' := (entriesEq_iff _ _).1 h4
  simp only [h1, h2, h3, h4, bne_self_eq_false, Bool.false_eq_true, if_false, Bool.not_true, true_and]
  cases ht : b.transition
  · simp [h4']
  · simp only [if_true, true_implies]
    have la := ha.two (h1.trans ht)
    have lb := hb.two ht
    obtain ⟨a0, a1, ra, hsa⟩ : ∃ a0 a1 ra, a.sites = a0 :: a1 :: ra := by
      match h : a.sites, la with
      | a0 :: a1 :: ra, _ => exact ⟨a0, a1, ra, rfl⟩
    obtain ⟨b0, b1, rb, hsb⟩ : ∃ b0 b1 rb, b.sites = b0 :: b1 :: rb := by
      match h : b.sites, lb with
      | b0 :: b1 :: rb, _ => exact ⟨b0, b1, rb, rfl⟩
    rw [hsb]
    simp only
    rw [isTransition_eq a a0 a1 ra hsa, h2]
    constructor
    · intro h
      injection h with h
      exact ⟨h4', a0, a1, ra, b0, b1, rb, hsa, rfl, h2 ▸ h⟩
    · rintro ⟨_, a0', a1', ra', b0', b1', rb', e1, e2, e3⟩
      rw [hsa] at e1; injection e1 with e10 e1; injection e1 with e11 e1
      injection e2 with e20 e2; injection e2 with e21 e2
      subst e10; subst e11; subst e20; subst e21
      rw [e3]



/-- `a == b` evaluates to `True` -/
def ceq (a b : Cluster d) : Prop := Cluster.eq a b = .ok true

theorem WF.head_R {a : Cluster d} (ha : a.WF) {a0 : ClusterSite d} {r : List (ClusterSite d)}
    (h : a.sites = a0 :: r) : a0.R = iZero := by
  obtain ⟨s0, rest, h1, h2⟩ := ha.first
  rw [h] at h1; injection h1 with h1 _; rw [h1]; exact h2

theorem cluster_eq_refl {a : Cluster d} (ha : a.WF) : ceq a a := by
  unfold ceq
  rw [Cluster.eq_ok_true_iff ha ha]
  refine ⟨rfl, rfl, rfl, fun _ => Iff.rfl, fun ht => ?_⟩
  have la := ha.two ht
  match h : a.sites, la with
  | a0 :: a1 :: ra, _ =>
    exact ⟨a0, a1, ra, a0, a1, ra, rfl, rfl, tsMatch_refl _ _ _ (WF.head_R ha h)⟩

theorem cluster_eq_symm {a b : Cluster d} (ha : a.WF) (hb : b.WF) (h : ceq a b) : ceq b a := by
  unfold ceq at *
  rw [Cluster.eq_ok_true_iff ha hb] at h
  rw [Cluster.eq_ok_true_iff hb ha]
  obtain ⟨h1, h2, h3, h4, h5⟩ := h
  refine ⟨h1.symm, h2.symm, h3.symm, fun e => (h4 e).symm, fun ht => ?_⟩
  obtain ⟨a0, a1, ra, b0, b1, rb, sa, sb, hm⟩ := h5 (h1.trans ht)
  exact ⟨b0, b1, rb, a0, a1, ra, sb, sa,
    tsMatch_symm _ _ _ _ _ (WF.head_R ha sa) (WF.head_R hb sb) (h2 ▸ hm)⟩

theorem cluster_eq_trans {a b c : Cluster d} (ha : a.WF) (hb : b.WF) (hc : c.WF)
    (hab : ceq a b) (hbc : ceq b c) : ceq a c := by
  unfold ceq at *
  rw [Cluster.eq_ok_true_iff ha hb] at hab
  rw [Cluster.eq_ok_true_iff hb hc] at hbc
  rw [Cluster.eq_ok_true_iff ha hc]
  obtain ⟨h1, h2, h3, h4, h5⟩ := hab
  obtain ⟨k1, k2, k3, k4, k5⟩ := hbc
  refine ⟨h1.trans k1, h2.trans k2, h3.trans k3, fun e => (h4 e).trans (k4 e), fun ht => ?_⟩
  obtain ⟨a0, a1, ra, b0, b1, rb, sa, sb, hm⟩ := h5 ht
  obtain ⟨b0', b1', rb', c0, c1, rc, sb', sc, hm'⟩ := k5 (h1 ▸ ht)
  rw [sb] at sb'
  injection sb' with e0 sb'; injection sb' with e1 _
  subst e0; subst e1
  exact ⟨a0, a1, ra, c0, c1, rc, sa, sc,
    tsMatch_trans _ _ _ _ _ _ _ (WF.head_R ha sa) (WF.head_R hb sb) (WF.head_R hc sc) hm (h2 ▸ hm')⟩

/-- on well-formed clusters `==` never raises -/
theorem cluster_eq_total {a b : Cluster d} (ha : a.WF) (hb : b.WF) : ∃ r, Cluster.eq a b = .ok r := by
  unfold Cluster.eq
  split
  · exact ⟨_, rfl⟩
  split
  · exact ⟨_, rfl⟩
  split
  · exact ⟨_, rfl⟩
  split
  · exact ⟨_, rfl⟩
  split
  · rename_i h1 _ _ _ ht
    simp only [bne_iff_ne, ne_eq, not_not] at h1
    have la := ha.two ht
    have lb := hb.two (h1 ▸ ht)
    match hsb : b.sites, lb with
    | b0 :: b1 :: rb, _ =>
      match hsa : a.sites, la with
      | a0 :: a1 :: ra, _ =>
        simp only
        rw [isTransition_eq a a0 a1 ra hsa]
        exact ⟨_, rfl⟩
  · exact ⟨_, rfl⟩

theorem xor_fold_perm (hf : List Int → Nat) {x y : List Entry} (p : x.Perm y) (acc : Nat) :
    x.foldl (fun acc e => acc ^^^ hf (e.1 ++ e.2)) acc = y.foldl (fun acc e => acc ^^^ hf (e.1 ++ e.2)) acc := by
  induction p generalizing acc with
  | nil => rfl
  | cons e _ ih => simp only [List.foldl_cons]; exact ih _
  | swap e f l =>
    simp only [List.foldl_cons]
    congr 1
    rw [Nat.xor_assoc, Nat.xor_assoc, Nat.xor_comm (hf _)]
  | trans _ _ ih1 ih2 => exact (ih1 acc).trans (ih2 acc)

/-- equal clusters have equal hashes, for any hash function on the per-site keys, when no two
    sites of a cluster coincide -/
theorem cluster_hash_respects_eq {a b : Cluster d} (ha : a.WF) (hb : b.WF)
    (nda : a.entries.Nodup) (ndb : b.entries.Nodup) (h : ceq a b) (hf : List Int → Nat) :
    Cluster.hash hf a = Cluster.hash hf b := by
  unfold ceq at h
  rw [Cluster.eq_ok_true_iff ha hb] at h
  exact xor_fold_perm hf ((List.perm_ext_iff_of_nodup nda ndb).2 h.2.2.2.1) 0



/-- `Cluster.__init__` yields a well-formed cluster whenever a transition cluster is given its two
    transition sites -/
theorem make_wf {mark : Bool} {lis : List (ClusterSite d)} {t v ns : Bool} {a : Cluster d}
    (h : Cluster.make mark lis t v ns = .ok a) (h2 : t = true → 2 ≤ lis.length) : a.WF := by
  obtain ⟨hf, ht, _⟩ := make_first h
  refine ⟨hf, fun htt => ?_⟩
  rw [ht] at htt
  have hl := h2 htt
  unfold Cluster.make at h
  simp only at h
  split at h
  · cases h
  · rename_i s0 rest heq
    injection h with h
    subst h
    simp only [List.length_map]
    have : (if ns = true then lis
      else if t = true then List.take 2 lis ++ (List.drop 2 lis).mergeSort sortKeyLe
      else if v = true then List.take 1 lis ++ (List.drop 1 lis).mergeSort sortKeyLe
      else lis.mergeSort sortKeyLe).length = lis.length := by
      by_cases hns : ns = true
      · rw [if_pos hns]
      · rw [if_neg hns, if_pos htt]
        simp only [List.length_append, List.length_take, List.length_mergeSort, List.length_drop]; omega
    omega

def site1 (x : Int) : ClusterSite 1 := { c := 0, i := 0, R := fun _ => x }

/-- the distinct-sites hypothesis of `cluster_hash_respects_eq` is needed: two 5-site "clusters" with
    repeated sites, {0,0,1,2,2} and {0,1,1,1,2}, compare equal (same set of shifted positions
    {-5,0,5}) but their XOR hashes differ for a suitable per-site hash. -/
theorem cluster_hash_needs_distinct_sites :
    ((Cluster.make true [site1 0, site1 0, site1 1, site1 2, site1 2] false false true).bind fun a =>
     (Cluster.make true [site1 0, site1 1, site1 1, site1 1, site1 2] false false true).bind fun b =>
     (Cluster.eq a b).map fun r =>
       (r, Cluster.hash (fun l => if l = [0, 0, -5] then 1 else 0) a,
           Cluster.hash (fun l => if l = [0, 0, -5] then 1 else 0) b)) = .ok (true, 0, 1) := by
  decide +kernel


/-! ### non-vacuity -/
namespace Ex
open Onsager.C23.Ex

def a : PairState 2 := { i := 0, j := 1, R := fun k => if k = 0 then 2 else 3, dx := fun k => if k = 0 then 3/2 else 7/2 }
def b : PairState 2 := { i := 1, j := 1, R := fun k => if k = 0 then -1 else 4, dx := fun k => if k = 0 then -1 else 4 }

/-- ordinary states for which `+`, `-`, `^` are defined exist (hypotheses of the groupoid laws) -/
example : Proper a ∧ Proper b ∧ (∃ r, add a b = .ok r) ∧ (∃ r, sub a b = .ok r) ∧ (∃ r, xor a a = .ok r)
    ∧ (∃ e, add b a = .error e) :=
  ⟨⟨by decide, by decide⟩, ⟨by decide, by decide⟩, ⟨_, rfl⟩, ⟨_, rfl⟩, ⟨_, rfl⟩, ⟨_, rfl⟩⟩

/-- the hypotheses of `g_add`/`g_neg`/`g_xor` are satisfiable: the four-fold rotation of the 2-D
    crystal of OnsagerProofs/C23.lean acts on both states -/
example : (∃ ga, a.g cr 1 g = .ok ga) ∧ (∃ gb, b.g cr 1 g = .ok gb) :=
  ⟨⟨_, psg_of (by decide) (by decide) (gPos_eq_ok _ rfl rfl rfl) (gPos_eq_ok _ rfl rfl rfl)⟩,
   ⟨_, psg_of (by decide) (by decide) (gPos_eq_ok _ rfl rfl rfl) (gPos_eq_ok _ rfl rfl rfl)⟩⟩

/-- well-formed clusters exist (hypotheses of the cluster theorems), also transition clusters -/
example : ∃ c : Cluster 1, c.WF ∧ c.transition = true :=
  match h : Cluster.make true [site1 3, site1 4, site1 7] true false true with
  | .ok c => ⟨c, make_wf h (by decide), (make_first h).2.1⟩
  | .error _ => by simp [Cluster.make] at h
end Ex

end Onsager.C36
