/-
  C34 — theorems about the table-level model of kinetic barriers (OnsagerModel/C34.lean).

  * `barrier_half_difference`   the structure of the construction implies detailed balance:
        barrier = (KRA + TS part, symmetric under reversal) + (cluster part = half the energy
        difference of final and initial state)  ⇒  Q_fwd − Q_rev = E_final − E_initial.
  * `isZero_sound`              merging interactions by site set: all merged coefficients zero ⇒ the
        polynomial vanishes on every occupation.
  * `readout`                   the sampler's clustercount read-out of a range of interactions equals
        the polynomial read-out of the decoded tuples (when the decoding re-encodes to siteinteract).
  * `dbCheck_sound`, `structCheck_sound`, `dbCheckVac_sound`, `structCheckVac_sound`
        an accepted table satisfies detailed balance on EVERY occupation.

  `Sampler.decodeOK` is a stored field of the structure, so the theorems about a sampler carry the
  hypothesis `Sampler.WF` ("the flag is backed by the re-encoding test `decodeSpec`"); it holds by
  construction for everything `mkSampler` builds (`mkSampler_WF`), which is all the driver stores.
-/
import OnsagerModel.C34
import OnsagerProofs.C32
import Mathlib.Tactic.Ring
import Mathlib.Tactic.Linarith
import Mathlib.Tactic.LinearCombination
import Mathlib.Algebra.Order.Field.Rat

namespace Onsager.C34
open Onsager.C32

/-- The physics of `jumpnetworkevaluator`, as explicit hypotheses on the numbers involved for one
    transition at one occupation: `E0`, `E1` energies of the initial and final configuration; `Qf`
    forward barrier at the initial, `Qr` reverse barrier at the final configuration; each barrier
    splits into a cluster part `C` and a KRA + transition-state part `T`. -/
theorem barrier_half_difference (E0 E1 Qf Qr Cf Cr Tf Tr : Rat)
    (hlf : Qf = Cf + Tf) (hlr : Qr = Cr + Tr)
    (hsym : Tf = Tr)                      -- KRA and TS values symmetric under reversal
    (hhf : 2 * Cf = E1 - E0)              -- half-difference of the cluster energies through the moving atom
    (hhr : 2 * Cr = E0 - E1) :
    Qf - Qr = E1 - E0 := by
  linarith

/-! ### semantics of the polynomial operations -/

theorem energy_nil (o : Nat → Bool) : energy [] o = 0 := rfl

theorem energy_cons (p : Inter) (L : List Inter) (o : Nat → Bool) :
    energy (p :: L) o = (if onB o p.1 then p.2 else 0) + energy L o := by
  simp [energy]

theorem energy_append (A B : List Inter) (o : Nat → Bool) :
    energy (A ++ B) o = energy A o + energy B o := by
  induction A with
  | nil => simp [energy_nil]
  | cons p A ih => rw [List.cons_append, energy_cons, energy_cons, ih]; ring

theorem energy_neg (L : List Inter) (o : Nat → Bool) : energy (neg L) o = - energy L o := by
  induction L with
  | nil => simp [neg, energy_nil]
  | cons p L ih =>
    have : neg (p :: L) = (p.1, -p.2) :: neg L := rfl
    rw [this, energy_cons, energy_cons, ih]
    by_cases h : onB o p.1 = true
    · simp only [h, if_true]; ring
    · simp only [h]; simp

theorem energy_scale (c : Rat) (L : List Inter) (o : Nat → Bool) :
    energy (scale c L) o = c * energy L o := by
  induction L with
  | nil => simp [scale, energy_nil]
  | cons p L ih =>
    have : scale c (p :: L) = (p.1, c * p.2) :: scale c L := rfl
    rw [this, energy_cons, energy_cons, ih]
    by_cases h : onB o p.1 = true
    · simp only [h, if_true]; ring
    · simp only [h]; simp

theorem onB_filter_ne (o : Nat → Bool) (i : Nat) (t : List Nat) (hi : o i = true) :
    onB o (t.filter (· != i)) = onB o t := by
  unfold onB
  induction t with
  | nil => rfl
  | cons a t ih =>
    by_cases h : a = i
    · subst h; simp [hi, ih]
    · have : (a != i) = true := by simpa using h
      simp [this, ih]

theorem energy_dropSite (i : Nat) (L : List Inter) (o : Nat → Bool) (hi : o i = true) :
    energy (dropSite i L) o = energy L o := by
  induction L with
  | nil => rfl
  | cons p L ih =>
    have : dropSite i (p :: L) = (p.1.filter (· != i), p.2) :: dropSite i L := rfl
    rw [this, energy_cons, energy_cons, ih, onB_filter_ne o i p.1 hi]

theorem onB_of_mem_false (o : Nat → Bool) (j : Nat) (t : List Nat) (hj : o j = false) (hm : j ∈ t) :
    onB o t = false := by
  unfold onB
  rw [List.all_eq_false]
  exact ⟨j, hm, by simp [hj]⟩

theorem energy_killSite (j : Nat) (L : List Inter) (o : Nat → Bool) (hj : o j = false) :
    energy (killSite j L) o = energy L o := by
  induction L with
  | nil => rfl
  | cons p L ih =>
    unfold killSite at ih ⊢
    by_cases h : j ∈ p.1
    · have hc : ¬ ((!p.1.contains j) = true) := by simp [h]
      rw [List.filter_cons_of_neg (p := fun p : Inter => !p.1.contains j) hc, energy_cons, onB_of_mem_false o j p.1 hj h, ih]
      simp
    · have hc : (!p.1.contains j) = true := by simp [h]
      rw [List.filter_cons_of_pos (p := fun p : Inter => !p.1.contains j) hc, energy_cons, energy_cons, ih]

theorem onB_map (o : Nat → Bool) (f : Nat → Nat) (t : List Nat) :
    onB o (t.map f) = onB (fun n => o (f n)) t := by
  unfold onB
  rw [List.all_map]; rfl

theorem energy_swapSites (i j : Nat) (L : List Inter) (o : Nat → Bool) :
    energy (swapSites i j L) o = energy L (fun n => o (swapIdx i j n)) := by
  induction L with
  | nil => rfl
  | cons p L ih =>
    have : swapSites i j (p :: L) = (p.1.map (swapIdx i j), p.2) :: swapSites i j L := rfl
    rw [this, energy_cons, energy_cons, ih, onB_map]

theorem onB_congr (o o' : Nat → Bool) (t : List Nat) (h : ∀ n ∈ t, o n = o' n) : onB o t = onB o' t := by
  unfold onB
  induction t with
  | nil => rfl
  | cons a t ih =>
    rw [List.all_cons, List.all_cons, h a (by simp), ih (fun n hn => h n (by simp [hn]))]

/-- two occupations that agree on every site mentioned give the same value -/
theorem energy_congr (L : List Inter) (o o' : Nat → Bool) (h : ∀ p ∈ L, ∀ n ∈ p.1, o n = o' n) :
    energy L o = energy L o' := by
  induction L with
  | nil => rfl
  | cons p L ih =>
    rw [energy_cons, energy_cons, ih (fun q hq => h q (by simp [hq])), onB_congr o o' p.1 (h p (by simp))]

/-! ### merge -/

theorem mem_insertSet (x a : Nat) (l : List Nat) : x ∈ insertSet a l ↔ x = a ∨ x ∈ l := by
  induction l with
  | nil => simp [insertSet]
  | cons b l ih =>
    unfold insertSet
    by_cases h1 : a < b
    · simp [h1]
    · by_cases h2 : a = b
      · subst h2; simp
      · simp only [h1, h2, if_false, List.mem_cons, ih]
        tauto

theorem mem_canon (x : Nat) (t : List Nat) : x ∈ canon t ↔ x ∈ t := by
  unfold canon
  induction t with
  | nil => simp
  | cons a t ih => rw [List.foldr_cons, mem_insertSet, ih]; simp

theorem onB_canon (o : Nat → Bool) (t : List Nat) : onB o (canon t) = onB o t := by
  unfold onB
  rw [Bool.eq_iff_iff, List.all_eq_true, List.all_eq_true]
  exact ⟨fun h x hx => h x ((mem_canon x t).2 hx), fun h x hx => h x ((mem_canon x t).1 hx)⟩

theorem energy_addCoeff (k : List Nat) (v : Rat) (acc : List Inter) (o : Nat → Bool) :
    energy (addCoeff k v acc) o = energy acc o + if onB o k then v else 0 := by
  induction acc with
  | nil => simp [addCoeff, energy_cons, energy_nil]
  | cons p l ih =>
    unfold addCoeff
    by_cases h : k = p.1
    · rw [if_pos h, energy_cons, energy_cons, h]
      by_cases hb : onB o p.1 = true
      · simp only [hb, if_true]; ring
      · simp only [hb]; simp
    · rw [if_neg h, energy_cons, energy_cons, ih]; ring

theorem energy_merge_aux (L : List Inter) (acc : List Inter) (o : Nat → Bool) :
    energy (L.foldl (fun acc p => addCoeff (canon p.1) p.2 acc) acc) o = energy acc o + energy L o := by
  induction L generalizing acc with
  | nil => simp [energy_nil]
  | cons p L ih =>
    rw [List.foldl_cons, ih, energy_addCoeff, onB_canon, energy_cons]; ring

/-- merge soundness -/
theorem energy_merge (L : List Inter) (o : Nat → Bool) : energy (merge L) o = energy L o := by
  unfold merge
  rw [energy_merge_aux, energy_nil]; ring

theorem energy_eq_zero_of_coeffs (M : List Inter) (o : Nat → Bool) (h : ∀ p ∈ M, p.2 = 0) :
    energy M o = 0 := by
  induction M with
  | nil => rfl
  | cons p M ih =>
    rw [energy_cons, ih (fun q hq => h q (by simp [hq])), h p (by simp)]
    simp

theorem isZero_sound (L : List Inter) (h : isZero L = true) (o : Nat → Bool) : energy L o = 0 := by
  rw [← energy_merge]
  apply energy_eq_zero_of_coeffs
  unfold isZero at h
  rw [List.all_eq_true] at h
  intro p hp
  exact eq_of_beq (h p hp)

/-! ### read-out -/

theorem encode_aux (tuples : List Tuple) (s : Nat) (si0 : List (List Nat)) :
    ((tuples.zipIdx s).foldl (fun si p => appendSites si p.1 p.2) si0).length = si0.length ∧
    ∀ n, n < si0.length → ∀ m,
      (((tuples.zipIdx s).foldl (fun si p => appendSites si p.1 p.2) si0).getD n []).count m
        = (si0.getD n []).count m + if s ≤ m then (tuples.getD (m - s) []).count n else 0 := by
  induction tuples generalizing s si0 with
  | nil =>
    refine ⟨rfl, ?_⟩
    intro n _ m
    simp
  | cons t ts ih =>
    rw [List.zipIdx_cons, List.foldl_cons]
    obtain ⟨h1, h2⟩ := ih (s + 1) (appendSites si0 t s)
    rw [length_appendSites] at h1 h2
    refine ⟨h1, ?_⟩
    intro n hn m
    rw [h2 n hn m, count_appendSites _ _ _ _ _ hn]
    by_cases c1 : m < s
    · rw [if_neg (by omega), if_neg (by omega), if_neg (by omega)]
    · by_cases c2 : m = s
      · subst c2
        rw [if_pos rfl, if_neg (by omega), if_pos (Nat.le_refl _), Nat.sub_self, List.getD_cons_zero]
        omega
      · have e : m - s = (m - (s + 1)) + 1 := by omega
        rw [if_neg c2, if_pos (by omega), if_pos (by omega), e, List.getD_cons_succ]
        omega

theorem count_encode (nsites : Nat) (tuples : List Tuple) (n m : Nat) (hn : n < nsites) :
    ((encode nsites tuples).getD n []).count m = (tuples.getD m []).count n := by
  unfold encode
  have := (encode_aux tuples 0 (List.replicate nsites [])).2 n (by simpa using hn) m
  rw [this]
  simp [List.getD_eq_getElem?_getD, hn]

theorem length_encode (nsites : Nat) (tuples : List Tuple) : (encode nsites tuples).length = nsites := by
  unfold encode
  have := (encode_aux tuples 0 (List.replicate nsites [])).1
  rw [this]; simp

theorem mem_getD_of_all (tuples : List Tuple) (nsites : Nat)
    (hb : tuples.all (fun t => t.all (· < nsites)) = true) (m n : Nat) (hn : n ∈ tuples.getD m []) :
    n < nsites := by
  rw [List.all_eq_true] at hb
  by_cases hm : m < tuples.length
  · rw [List.getD_eq_getElem?_getD, List.getElem?_eq_getElem hm] at hn
    have := hb _ (List.getElem_mem hm)
    rw [List.all_eq_true] at this
    simpa using this n hn
  · rw [getD_ge _ _ _ (by omega)] at hn
    simp at hn


/-- what `decodeOK` is meant to hold (its value in `mkSampler`) -/
def Sampler.decodeSpec (T : Sampler) : Bool :=
  T.si.length == T.nsites && T.tuples.length == T.iv.length &&
  T.tuples.all (fun t => t.all (· < T.nsites)) && encode T.nsites T.tuples == T.si

/-- the `decodeOK` flag of the structure is backed by the re-encoding test -/
def Sampler.WF (T : Sampler) : Prop := T.decodeOK = true → T.decodeSpec = true

theorem mkSampler_WF (nsites : Nat) (si : List (List Nat)) (iv : List Rat) (nenergy : Nat)
    (irange : List Nat) (jumps : List (Nat × Nat)) :
    (mkSampler nsites si iv nenergy irange jumps).WF := fun h => h

theorem clustercount_zero_iff_onB (T : Sampler) (hs : T.decodeSpec = true) (occ : List Int) (m : Nat) :
    clustercount T.si occ m = 0 ↔ onB (occB occ) (T.tuples.getD m []) = true := by
  unfold Sampler.decodeSpec at hs
  simp only [Bool.and_eq_true, beq_iff_eq] at hs
  obtain ⟨⟨⟨hl, -⟩, hb⟩, he⟩ := hs
  have hcnt : ∀ n, n < T.nsites → (T.si.getD n []).count m = (T.tuples.getD m []).count n := by
    intro n hn
    rw [← he]; exact count_encode _ _ _ _ hn
  rw [clustercount_eq_zero_iff, hl]
  unfold onB occB
  rw [List.all_eq_true]
  constructor
  · intro h n hn
    have hlt := mem_getD_of_all _ _ hb m n hn
    by_contra hc
    have h0 : occ.getD n 0 = 0 := by simpa using hc
    have := h n hlt h0
    rw [hcnt n hlt] at this
    exact absurd hn (List.count_eq_zero.1 this)
  · intro h n hlt h0
    rw [hcnt n hlt]
    apply List.count_eq_zero.2
    intro hn
    have := h n hn
    rw [h0] at this
    exact absurd this (by decide)

/-- read-out: clustercount-based sums = polynomial read-out of the decoded tuples -/
theorem readout (T : Sampler) (hw : T.WF) (h : T.decodeOK = true) (occ : List Int) (lo hi : Nat) :
    samplerSum T.si T.iv occ lo hi = energy (T.inter lo hi) (occB occ) := by
  have hs := hw h
  unfold samplerSum Sampler.inter energy
  simp only [List.map_map]
  congr 1
  apply List.map_congr_left
  intro m' _
  simp only [Function.comp]
  generalize m' + lo = m
  by_cases c : onB (occB occ) (T.tuples.getD m []) = true
  · rw [if_pos ((clustercount_zero_iff_onB T hs occ m).2 c), if_pos c]
  · rw [if_neg (fun h' => c ((clustercount_zero_iff_onB T hs occ m).1 h')), if_neg c]

theorem E_eq_Epoly (T : Sampler) (hw : T.WF) (h : T.decodeOK = true) (occ : List Int) :
    T.E occ = T.Epoly occ := readout T hw h occ 0 T.nenergy

theorem Q_eq_Qpoly (T : Sampler) (hw : T.WF) (h : T.decodeOK = true) (k : Nat) (occ : List Int) :
    T.Q k occ = T.Qpoly k occ := readout T hw h occ (T.lo k) (T.hi k)


/-! ### substitution lemmas -/

theorem energy_sub (i j : Nat) (L : List Inter) (o : Nat → Bool) (hi : o i = true) (hj : o j = false) :
    energy (sub i j L) o = energy L o := by
  unfold sub
  rw [energy_dropSite i _ o hi, energy_killSite j _ o hj]

/-- a list produced by `sub i j` mentions neither `i` nor `j` -/
theorem sub_mentions (i j : Nat) (L : List Inter) : ∀ p ∈ sub i j L, ∀ n ∈ p.1, n ≠ i ∧ n ≠ j := by
  intro p hp n hn
  unfold sub dropSite killSite at hp
  rw [List.mem_map] at hp
  obtain ⟨q, hq, rfl⟩ := hp
  rw [List.mem_filter] at hq
  obtain ⟨-, hq2⟩ := hq
  simp only [List.mem_filter] at hn
  obtain ⟨hn1, hn2⟩ := hn
  refine ⟨by simpa using hn2, ?_⟩
  rintro rfl
  simp [hn1] at hq2

theorem energy_sub_congr (i j : Nat) (L : List Inter) (o o' : Nat → Bool)
    (h : ∀ n, n ≠ i → n ≠ j → o n = o' n) : energy (sub i j L) o = energy (sub i j L) o' :=
  energy_congr _ _ _ fun p hp n hn =>
    h n (sub_mentions i j L p hp n hn).1 (sub_mentions i j L p hp n hn).2

/-- the reverse substitution, read at the initial occupation, is the value at the final one -/
theorem energy_sub_rev (i j : Nat) (L : List Inter) (o o' : Nat → Bool)
    (h : ∀ n, n ≠ i → n ≠ j → o n = o' n) (hi' : o' i = false) (hj' : o' j = true) :
    energy (sub j i L) o = energy L o' := by
  rw [energy_sub_congr j i L o o' (fun n h1 h2 => h n h2 h1), energy_sub j i L o' hj' hi']

theorem energy_touch (i j : Nat) (L : List Inter) (o o' : Nat → Bool)
    (h : ∀ n, n ≠ i → n ≠ j → o n = o' n) :
    energy L o' - energy L o = energy (touch i j L) o' - energy (touch i j L) o := by
  induction L with
  | nil => rfl
  | cons p L ih =>
    unfold touch at ih ⊢
    by_cases c : (p.1.contains i || p.1.contains j) = true
    · rw [List.filter_cons_of_pos (p := fun p : Inter => p.1.contains i || p.1.contains j) c]
      simp only [energy_cons]; linarith
    · rw [List.filter_cons_of_neg (p := fun p : Inter => p.1.contains i || p.1.contains j) c,
        energy_cons, energy_cons]
      have hc : i ∉ p.1 ∧ j ∉ p.1 := by simpa using c
      have : onB o p.1 = onB o' p.1 := onB_congr _ _ _ fun n hn =>
        h n (by rintro rfl; exact hc.1 hn) (by rintro rfl; exact hc.2 hn)
      rw [this]; linarith

/-! ### occupations before and after a jump -/

theorem getD_set_self {α} (l : List α) (i : Nat) (a d : α) (h : i < l.length) :
    (l.set i a).getD i d = a := by
  simp [List.getD_eq_getElem?_getD, h]

theorem getD_set_ne {α} (l : List α) (i n : Nat) (a d : α) (h : i ≠ n) :
    (l.set i a).getD n d = l.getD n d := by
  simp [List.getD_eq_getElem?_getD, h]

theorem lt_of_getD_ne (occ : List Int) (i : Nat) (h : occ.getD i 0 ≠ 0) : i < occ.length := by
  by_contra hc
  exact h (getD_ge _ _ _ (by omega))

theorem occ_move (occ : List Int) (i j : Nat) (hne : i ≠ j) (hi : occ.getD i 0 = 1)
    (hj : occ.getD j 0 = 0) (hjl : j < occ.length) :
    occB occ i = true ∧ occB occ j = false ∧
    occB ((occ.set i 0).set j 1) i = false ∧ occB ((occ.set i 0).set j 1) j = true ∧
    ∀ n, n ≠ i → n ≠ j → occB occ n = occB ((occ.set i 0).set j 1) n := by
  have hil : i < occ.length := lt_of_getD_ne occ i (by rw [hi]; decide)
  unfold occB
  refine ⟨by rw [hi]; rfl, by rw [hj]; rfl, ?_, ?_, ?_⟩
  · rw [getD_set_ne _ _ _ _ _ (Ne.symm hne), getD_set_self _ _ _ _ hil]; rfl
  · rw [getD_set_self _ _ _ _ (by simpa using hjl)]; rfl
  · intro n h1 h2
    rw [getD_set_ne _ _ _ _ _ (Ne.symm h2), getD_set_ne _ _ _ _ _ (Ne.symm h1)]

theorem occ_swap (occ : List Int) (i j : Nat) (hne : i ≠ j) (hi : occ.getD i 0 = -1)
    (hjl : j < occ.length) :
    occB occ i = true ∧
    occB ((occ.set i (occ.getD j 0)).set j (-1)) = fun n => occB occ (swapIdx i j n) := by
  have hil : i < occ.length := lt_of_getD_ne occ i (by rw [hi]; decide)
  have h1 : occB occ i = true := by unfold occB; rw [hi]; rfl
  refine ⟨h1, ?_⟩
  funext n
  unfold swapIdx
  by_cases c1 : n = i
  · subst c1
    rw [if_pos rfl]
    unfold occB
    rw [getD_set_ne _ _ _ _ _ (Ne.symm hne), getD_set_self _ _ _ _ hil]
  · rw [if_neg c1]
    by_cases c2 : n = j
    · subst c2
      rw [if_pos rfl, h1]
      unfold occB
      rw [getD_set_self _ _ _ _ (by simpa using hjl)]; rfl
    · rw [if_neg c2]
      unfold occB
      rw [getD_set_ne _ _ _ _ _ (Ne.symm c2), getD_set_ne _ _ _ _ _ (Ne.symm c1)]

theorem Q_eq (T : Sampler) (hw : T.WF) (h : T.decodeOK = true) (k : Nat) (occ : List Int) :
    T.Q k occ = energy (T.interQ k) (occB occ) := readout T hw h occ _ _

theorem E_eq (T : Sampler) (hw : T.WF) (h : T.decodeOK = true) (occ : List Int) :
    T.E occ = energy T.interE (occB occ) := readout T hw h occ _ _

/-- exact table test, moving atom -/
theorem dbCheck_sound (T : Sampler) (hw : T.WF) (k k' : Nat) (h : dbCheck T k k' = true)
    (occ : List Int) (i j : Nat) (hij : T.jumps.getD k (0, 0) = (i, j))
    (hi : occ.getD i 0 = 1) (hj : occ.getD j 0 = 0) (hjl : j < occ.length) :
    T.Q k occ - T.Q k' ((occ.set i 0).set j 1) = T.E ((occ.set i 0).set j 1) - T.E occ := by
  unfold dbCheck at h
  rw [hij] at h
  simp only [Bool.and_eq_true, decide_eq_true_eq] at h
  obtain ⟨⟨⟨⟨hd, -⟩, hne⟩, -⟩, hz⟩ := h
  have hp : dbPoly T k k' = sub i j (touch i j T.interE ++ T.interQ k)
      ++ neg (sub j i (touch i j T.interE ++ T.interQ k')) := by
    unfold dbPoly; rw [hij]
  rw [hp] at hz
  obtain ⟨o1, o2, o3, o4, o5⟩ := occ_move occ i j hne hi hj hjl
  have hz := isZero_sound _ hz (occB occ)
  rw [energy_append, energy_neg, energy_sub i j _ _ o1 o2,
    energy_sub_rev i j _ _ _ o5 o3 o4, energy_append, energy_append] at hz
  have ht := energy_touch i j T.interE _ _ o5
  rw [Q_eq T hw hd, Q_eq T hw hd, E_eq T hw hd, E_eq T hw hd]
  linarith

/-- `linE`: the full and the cluster-only sampler have the same energy polynomial -/
theorem linE_sound (F C : Sampler) (hE : linE F C = true) (o : Nat → Bool) :
    energy F.interE o = energy C.interE o := by
  have := isZero_sound _ hE o
  rw [energy_append, energy_neg] at this
  linarith

/-- structural table test (hypotheses of `barrier_half_difference` checked on three samplers) -/
theorem structCheck_sound (F C S : Sampler) (hwF : F.WF) (hwC : C.WF) (hwS : S.WF) (k k' : Nat)
    (hE : linE F C = true) (h : structCheck F C S k k' = true)
    (occ : List Int) (i j : Nat) (hij : F.jumps.getD k (0, 0) = (i, j))
    (hi : occ.getD i 0 = 1) (hj : occ.getD j 0 = 0) (hjl : j < occ.length) :
    F.Q k occ - F.Q k' ((occ.set i 0).set j 1) = F.E ((occ.set i 0).set j 1) - F.E occ := by
  unfold structCheck at h
  rw [hij] at h
  simp only [Bool.and_eq_true, decide_eq_true_eq] at h
  obtain ⟨⟨⟨⟨⟨⟨hdF, hdC⟩, hdS⟩, -⟩, hne⟩, -⟩, hz⟩ := h
  unfold structPolys at hz
  rw [hij] at hz
  simp only [List.all_cons, List.all_nil, Bool.and_eq_true, Bool.and_true] at hz
  obtain ⟨z1, z2, z3, z4, z5⟩ := hz
  obtain ⟨o1, o2, o3, o4, o5⟩ := occ_move occ i j hne hi hj hjl
  have e1 := isZero_sound _ z1 (occB occ)
  have e2 := isZero_sound _ z2 (occB ((occ.set i 0).set j 1))
  have e3 := isZero_sound _ z3 (occB occ)
  have e4 := isZero_sound _ z4 (occB occ)
  have e5 := isZero_sound _ z5 (occB occ)
  simp only [energy_append, energy_neg, energy_scale] at e1 e2 e3 e4 e5
  rw [energy_sub i j _ _ o1 o2, energy_sub_rev i j _ _ _ o5 o3 o4] at e3
  rw [energy_sub i j _ _ o1 o2, energy_sub i j _ _ o1 o2, energy_sub_rev i j _ _ _ o5 o3 o4] at e4
  rw [energy_sub i j _ _ o1 o2, energy_sub_rev i j _ _ _ o5 o3 o4,
    energy_sub_rev i j _ _ _ o5 o3 o4] at e5
  have ht := energy_touch i j C.interE _ _ o5
  have l0 := linE_sound F C hE (occB occ)
  have l1 := linE_sound F C hE (occB ((occ.set i 0).set j 1))
  apply barrier_half_difference (F.E occ) (F.E ((occ.set i 0).set j 1)) _ _
    (C.Q k occ) (C.Q k' ((occ.set i 0).set j 1)) (S.Q k occ) (S.Q k' ((occ.set i 0).set j 1))
  all_goals
    simp only [Q_eq F hwF hdF, Q_eq C hwC hdC, Q_eq S hwS hdS, E_eq F hwF hdF]
    linarith

/-- vacancy variant, exact: T1 has the vacancy on i, T2 on j; the final occupation exchanges the
    contents of i and j -/
theorem dbCheckVac_sound (T1 T2 : Sampler) (hw1 : T1.WF) (hw2 : T2.WF) (k k' : Nat)
    (h : dbCheckVac T1 T2 k k' = true)
    (occ : List Int) (i j : Nat) (hij : T1.jumps.getD k (0, 0) = (i, j))
    (hi : occ.getD i 0 = -1) (hjl : j < occ.length) :
    T1.Q k occ - T2.Q k' ((occ.set i (occ.getD j 0)).set j (-1))
      = T2.E ((occ.set i (occ.getD j 0)).set j (-1)) - T1.E occ := by
  unfold dbCheckVac at h
  rw [hij] at h
  simp only [Bool.and_eq_true, decide_eq_true_eq] at h
  obtain ⟨⟨⟨⟨⟨hd1, hd2⟩, -⟩, hne⟩, -⟩, hz⟩ := h
  unfold dbPolyVac at hz
  rw [hij] at hz
  obtain ⟨o1, o2⟩ := occ_swap occ i j hne hi hjl
  have e := isZero_sound _ hz (occB occ)
  simp only [energy_append, energy_neg, energy_dropSite i _ _ o1, energy_swapSites, ← o2] at e
  rw [Q_eq T1 hw1 hd1, Q_eq T2 hw2 hd2, E_eq T1 hw1 hd1, E_eq T2 hw2 hd2]
  linarith

theorem structCheckVac_sound (F1 C1 S1 F2 C2 S2 : Sampler)
    (hwF1 : F1.WF) (hwC1 : C1.WF) (hwS1 : S1.WF) (hwF2 : F2.WF) (hwC2 : C2.WF) (hwS2 : S2.WF)
    (k k' : Nat)
    (hE1 : linE F1 C1 = true) (hE2 : linE F2 C2 = true)
    (h : structCheckVac F1 C1 S1 F2 C2 S2 k k' = true)
    (occ : List Int) (i j : Nat) (hij : F1.jumps.getD k (0, 0) = (i, j))
    (hi : occ.getD i 0 = -1) (hjl : j < occ.length) :
    F1.Q k occ - F2.Q k' ((occ.set i (occ.getD j 0)).set j (-1))
      = F2.E ((occ.set i (occ.getD j 0)).set j (-1)) - F1.E occ := by
  unfold structCheckVac at h
  rw [hij] at h
  simp only [Bool.and_eq_true, decide_eq_true_eq] at h
  obtain ⟨⟨⟨⟨⟨⟨⟨⟨⟨hdF1, hdC1⟩, hdS1⟩, hdF2⟩, hdC2⟩, hdS2⟩, -⟩, hne⟩, -⟩, hz⟩ := h
  unfold structPolysVac at hz
  rw [hij] at hz
  simp only [List.all_cons, List.all_nil, Bool.and_eq_true, Bool.and_true] at hz
  obtain ⟨z1, z2, -, -, z5, z6, z7⟩ := hz
  obtain ⟨o1, o2⟩ := occ_swap occ i j hne hi hjl
  have e1 := isZero_sound _ z1 (occB occ)
  have e2 := isZero_sound _ z2 (occB ((occ.set i (occ.getD j 0)).set j (-1)))
  have e5 := isZero_sound _ z5 (occB occ)
  have e6 := isZero_sound _ z6 (occB occ)
  have e7 := isZero_sound _ z7 (occB occ)
  simp only [energy_append, energy_neg, energy_scale, energy_dropSite i _ _ o1, energy_swapSites,
    ← o2] at e1 e2 e5 e6 e7
  have l1 := linE_sound F1 C1 hE1 (occB occ)
  have l2 := linE_sound F2 C2 hE2 (occB ((occ.set i (occ.getD j 0)).set j (-1)))
  apply barrier_half_difference (F1.E occ) (F2.E ((occ.set i (occ.getD j 0)).set j (-1))) _ _
    (C1.Q k occ) (C2.Q k' ((occ.set i (occ.getD j 0)).set j (-1)))
    (S1.Q k occ) (S2.Q k' ((occ.set i (occ.getD j 0)).set j (-1)))
  all_goals
    simp only [Q_eq F1 hwF1 hdF1, Q_eq C1 hwC1 hdC1, Q_eq S1 hwS1 hdS1, Q_eq F2 hwF2 hdF2,
      Q_eq C2 hwC2 hdC2, Q_eq S2 hwS2 hdS2, E_eq F1 hwF1 hdF1, E_eq F2 hwF2 hdF2]
    linarith

/-! ### specialisations to samplers built by `mkSampler` (no well-formedness hypothesis) -/

theorem dbCheck_sound_mk (nsites : Nat) (si : List (List Nat)) (iv : List Rat) (nenergy : Nat)
    (irange : List Nat) (jumps : List (Nat × Nat)) (k k' : Nat)
    (h : dbCheck (mkSampler nsites si iv nenergy irange jumps) k k' = true)
    (occ : List Int) (i j : Nat) (hij : jumps.getD k (0, 0) = (i, j))
    (hi : occ.getD i 0 = 1) (hj : occ.getD j 0 = 0) (hjl : j < occ.length) :
    (mkSampler nsites si iv nenergy irange jumps).Q k occ
      - (mkSampler nsites si iv nenergy irange jumps).Q k' ((occ.set i 0).set j 1)
      = (mkSampler nsites si iv nenergy irange jumps).E ((occ.set i 0).set j 1)
        - (mkSampler nsites si iv nenergy irange jumps).E occ :=
  dbCheck_sound _ (mkSampler_WF _ _ _ _ _ _) k k' h occ i j hij hi hj hjl

theorem dbCheckVac_sound_mk (n1 : Nat) (si1 : List (List Nat)) (iv1 : List Rat) (ne1 : Nat)
    (ir1 : List Nat) (js1 : List (Nat × Nat)) (n2 : Nat) (si2 : List (List Nat)) (iv2 : List Rat)
    (ne2 : Nat) (ir2 : List Nat) (js2 : List (Nat × Nat)) (k k' : Nat)
    (h : dbCheckVac (mkSampler n1 si1 iv1 ne1 ir1 js1) (mkSampler n2 si2 iv2 ne2 ir2 js2) k k' = true)
    (occ : List Int) (i j : Nat) (hij : js1.getD k (0, 0) = (i, j))
    (hi : occ.getD i 0 = -1) (hjl : j < occ.length) :
    (mkSampler n1 si1 iv1 ne1 ir1 js1).Q k occ
      - (mkSampler n2 si2 iv2 ne2 ir2 js2).Q k' ((occ.set i (occ.getD j 0)).set j (-1))
      = (mkSampler n2 si2 iv2 ne2 ir2 js2).E ((occ.set i (occ.getD j 0)).set j (-1))
        - (mkSampler n1 si1 iv1 ne1 ir1 js1).E occ :=
  dbCheckVac_sound _ _ (mkSampler_WF _ _ _ _ _ _) (mkSampler_WF _ _ _ _ _ _) k k' h occ i j hij hi hjl

/-! ### non-vacuity -/

/-- (a) numbers satisfying every hypothesis of `barrier_half_difference`, all parts non-zero -/
example : (7 : Rat) - 3 = 5 - 1 :=
  barrier_half_difference 1 5 7 3 2 (-2) 5 5 (by norm_num) (by norm_num) rfl (by norm_num) (by norm_num)

/-- (b) three sites; energy: `[0]`:1, `[1]`:3, `[0,2]`:2, `[1,2]`:6; jump 0 is 0→1 with barrier
    interactions `[0]`:6, `[0,2]`:5/2; jump 1 is 1→0 with `[1]`:4, `[1,2]`:-3/2
    (transition-state part 5 and 1/2, cluster part half the energy difference). -/
def exSampler : Sampler :=
  mkSampler 3 [[0, 2, 4, 5], [1, 3, 6, 7], [2, 3, 5, 7]] [1, 3, 2, 6, 6, 5 / 2, 4, -3 / 2] 4 [6, 8, 4]
    [(0, 1), (1, 0)]

/-- the same table with the barrier value of interaction 6 changed from 4 to 9/2 -/
def exSamplerBad : Sampler :=
  mkSampler 3 [[0, 2, 4, 5], [1, 3, 6, 7], [2, 3, 5, 7]] [1, 3, 2, 6, 6, 5 / 2, 9 / 2, -3 / 2] 4 [6, 8, 4]
    [(0, 1), (1, 0)]

example : exSampler.tuples = [[0], [1], [0, 2], [1, 2], [0], [0, 2], [1], [1, 2]] := by decide +kernel
example : exSampler.decodeOK = true := by decide +kernel
example : dbCheck exSampler 0 1 = true := by decide +kernel
example : dbCheck exSampler 1 0 = true := by decide +kernel
example : exSamplerBad.decodeOK = true := by decide +kernel
example : dbCheck exSamplerBad 0 1 = false := by decide +kernel
example : witness (dbPoly exSamplerBad 0 1) = some [] := by decide +kernel

/-- the conclusion of `dbCheck_sound` on the instance, at the occupation `[1, 0, 1]`:
    forward barrier 17/2, reverse barrier 5/2, energies 3 and 9 -/
example : exSampler.Q 0 [1, 0, 1] = 17 / 2 ∧ exSampler.Q 1 [0, 1, 1] = 5 / 2 ∧
    exSampler.E [1, 0, 1] = 3 ∧ exSampler.E [0, 1, 1] = 9 := by decide +kernel

example : exSampler.Q 0 [1, 0, 1] - exSampler.Q 1 [0, 1, 1] = exSampler.E [0, 1, 1] - exSampler.E [1, 0, 1] :=
  dbCheck_sound exSampler (mkSampler_WF _ _ _ _ _ _) 0 1 (by decide +kernel) [1, 0, 1] 0 1 rfl rfl rfl (by decide)

end Onsager.C34
