/-
  C29 — theorems about the cell constructions of `makesupercells` (OnsagerModel/C29.lean), over the
  occupancy model and invariant of C28 and the equivalence search of C27.

  * `setocc_spec`              closed form of one `super[ind] = c` on a consistent cell
  * `stateCell_occ`            a state cell differs from the base exactly at the named sites
  * `vacPair_spec/_aligned`    omega0/omega1: remove two atoms, put one back — both endpoints list the same
                               atoms in the same order except the moving atom, found at the same (last) place
  * `exchPair_spec/_aligned`   omega2: the solute is the single mover, at the same place of the solute list
  * `interPair_spec`           interstitial endpoints: one interstitial each, base otherwise untouched
  * `mapping_transforms_state` a mapping found by `equivalencemap` applied with `__imul__` + `reorder`
                               gives the transition endpoint exactly (from C27)
-/
import OnsagerModel.C29
import OnsagerProofs.C28
import OnsagerProofs.C27
import Mathlib.Data.List.Nodup
import Mathlib.Tactic.Linarith

namespace Onsager.C29
open Onsager.C28

/-- Closed form of `setocc` on a consistent cell, species list by species list. -/
theorem setocc_spec (s : Cell) (h : Inv s) (ind : Nat) (c : Int)
    (hind : ind < s.occ.length) (hc1 : -1 ≤ c) (hc2 : c < s.nchem) :
    ∃ s', setocc s ind c = .ok s' ∧ Inv s' ∧ s'.nchem = s.nchem ∧ s'.occ = s.occ.set ind c ∧
      s'.chemorder.length = s.chemorder.length ∧
      ∀ d, d < s.nchem → s'.chemorder.getD d [] =
        if s.occ[ind] = c then s.chemorder.getD d []
        else (if 0 ≤ s.occ[ind] ∧ (s.occ[ind]).toNat = d then (s.chemorder.getD d []).erase ind
              else s.chemorder.getD d []) ++ (if 0 ≤ c ∧ c.toNat = d then [ind] else []) := by
  obtain ⟨s', hs'⟩ := setocc_ok_of_declared s ind c h hind hc1 hc2
  have hinv := setocc_inv s ind c h s' hs'
  refine ⟨s', hs', hinv, ?_⟩
  unfold setocc setoccG at hs'
  have hg : ¬ (c < -1 ∨ c > (s.nchem : Int) - 1) := by omega
  have hocc : s.occ[ind]? = some s.occ[ind] := List.getElem?_eq_getElem hind
  simp only [hg, if_false, hocc] at hs'
  by_cases heq : s.occ[ind] = c
  · simp only [heq, if_true] at hs'
    cases hs'
    refine ⟨rfl, ?_, rfl, ?_⟩
    · rw [← heq]; exact (List.set_getElem_self hind).symm
    · intro d _; rw [if_pos heq]
  · simp only [heq, if_false] at hs'
    split at hs'
    · cases hs'
    · cases hs'
      refine ⟨rfl, rfl, ?_, ?_⟩
      · simp only
        split <;> split <;> simp [List.length_modify]
      · intro d hd
        simp only [heq, if_false]
        exact getD_update _ _ _ _ _ (by rw [h.len]; exact hd)

theorem setoccMany_cons (s : Cell) (i : Nat) (c : Int) (rest : List (Nat × Int)) (s1 : Cell)
    (h : setocc s i c = .ok s1) : setoccMany s ((i, c) :: rest) = setoccMany s1 rest := by
  simp [setoccMany, h, bind, Except.bind]

/-- A state cell: every edit lands in `occ` at its site; sites not named keep the base occupation. -/
theorem stateCell_occ (base : Cell) (h : Inv base) (defects : List (Nat × Int))
    (hd : ∀ p ∈ defects, p.1 < base.occ.length ∧ -1 ≤ p.2 ∧ p.2 < base.nchem) :
    ∃ s, stateCell base defects = .ok s ∧ Inv s ∧ s.nchem = base.nchem ∧
      s.occ = defects.foldl (fun o p => o.set p.1 p.2) base.occ := by
  unfold stateCell
  induction defects generalizing base with
  | nil => exact ⟨base, rfl, h, rfl, rfl⟩
  | cons p rest ih =>
    obtain ⟨i, c⟩ := p
    obtain ⟨h1, h2, h3⟩ := hd (i, c) List.mem_cons_self
    obtain ⟨s1, hs1, hinv1, hn1, hocc1, _, _⟩ := setocc_spec base h i c h1 h2 h3
    obtain ⟨s, hs, hinv, hn, hocc⟩ := ih s1 hinv1 (by
      intro q hq
      have := hd q (List.mem_cons_of_mem _ hq)
      rw [hocc1, hn1]; simpa using this)
    refine ⟨s, ?_, hinv, by rw [hn, hn1], ?_⟩
    · rw [setoccMany_cons base i c rest s1 hs1]; exact hs
    · rw [hocc, hocc1]; rfl

/-- Two orderings list the same atoms in the same places except for one atom of species `c` at place `k`,
    which sits on site `p` in the first and on site `q` in the second. -/
def Aligned (s0 s1 : Cell) (c k p q : Nat) : Prop :=
  s0.chemorder.length = s1.chemorder.length ∧
  (∀ d, (s0.chemorder.getD d []).length = (s1.chemorder.getD d []).length) ∧
  (∀ d j, (d, j) ≠ (c, k) → (s0.chemorder.getD d [])[j]? = (s1.chemorder.getD d [])[j]?) ∧
  (s0.chemorder.getD c [])[k]? = some p ∧ (s1.chemorder.getD c [])[k]? = some q

theorem getD_out_of_range (A : List (List Nat)) (d : Nat) (h : A.length ≤ d) : A.getD d [] = [] := by
  have : A[d]? = none := by rw [List.getElem?_eq_none_iff]; exact h
  simp [List.getD_eq_getElem?_getD, this]

theorem set_put_back (l : List Int) (i j : Nat) (c : Int) (hj : j < l.length) (hij : i ≠ j)
    (hc : l[j] = c) : ((l.set i (-1)).set j (-1)).set j c = l.set i (-1) := by
  rw [List.set_set, List.set_comm _ _ hij]
  congr 1
  rw [← hc]; exact List.set_getElem_self hj

/-- **omega0 / omega1 construction.**  On a consistent cell `b` holding atoms of species `chem` on the two
    distinct sites, the two endpoints are: vacancy on `ind0` (resp. `ind1`), and their `chem` lists are
    `L ++ [ind1]` and `L ++ [ind0]` with the same `L` (the list with both atoms removed); every other
    species list is untouched. -/
theorem vacPair_spec (b : Cell) (h : Inv b) (ind0 ind1 : Nat) (chem : Int)
    (h0 : ind0 < b.occ.length) (h1 : ind1 < b.occ.length) (hne : ind0 ≠ ind1)
    (hc0 : 0 ≤ chem) (hc1 : chem < b.nchem) (ho0 : b.occ[ind0] = chem) (ho1 : b.occ[ind1] = chem) :
    ∃ s0 s1, vacPair b [] ind0 ind1 chem = .ok (s0, s1) ∧ Inv s0 ∧ Inv s1 ∧
      s0.occ = b.occ.set ind0 (-1) ∧ s1.occ = b.occ.set ind1 (-1) ∧
      s0.chemorder.length = b.chemorder.length ∧ s1.chemorder.length = b.chemorder.length ∧
      ∀ d, d < b.nchem →
        s0.chemorder.getD d [] = (if chem.toNat = d then ((b.chemorder.getD d []).erase ind0).erase ind1 ++ [ind1]
                                   else b.chemorder.getD d []) ∧
        s1.chemorder.getD d [] = (if chem.toNat = d then ((b.chemorder.getD d []).erase ind0).erase ind1 ++ [ind0]
                                   else b.chemorder.getD d []) := by
  -- remove the atom at ind0
  obtain ⟨b1, hb1, hi1, hn1, hocc1, hl1, hco1⟩ := setocc_spec b h ind0 (-1) h0 (by omega) (by omega)
  have h1' : ind1 < b1.occ.length := by rw [hocc1]; simpa using h1
  have h0' : ind0 < b1.occ.length := by rw [hocc1]; simpa using h0
  have hb1o1 : b1.occ[ind1] = chem := by
    simp only [hocc1]; rw [List.getElem_set_ne hne]; exact ho1
  -- remove the atom at ind1
  obtain ⟨b2, hb2, hi2, hn2, hocc2, hl2, hco2⟩ := setocc_spec b1 hi1 ind1 (-1) h1' (by omega) (by omega)
  have h1'' : ind1 < b2.occ.length := by rw [hocc2]; simpa using h1'
  have h0'' : ind0 < b2.occ.length := by rw [hocc2]; simpa using h0'
  have hb2o1 : b2.occ[ind1] = -1 := by simp only [hocc2]; simp
  have hb2o0 : b2.occ[ind0] = -1 := by
    simp only [hocc2, hocc1]; rw [List.getElem_set_ne (Ne.symm hne)]; simp
  -- put one atom back
  obtain ⟨s0, hs0, his0, hns0, hoccs0, hls0, hcos0⟩ := setocc_spec b2 hi2 ind1 chem h1'' (by omega) (by omega)
  obtain ⟨s1, hs1, his1, hns1, hoccs1, hls1, hcos1⟩ := setocc_spec b2 hi2 ind0 chem h0'' (by omega) (by omega)
  refine ⟨s0, s1, ?_, his0, his1, ?_, ?_, by omega, by omega, ?_⟩
  · simp only [vacPair, setoccMany, bind, Except.bind, hb1, hb2, hs0, hs1, pure, Except.pure]
  · rw [hoccs0, hocc2, hocc1]
    exact set_put_back b.occ ind0 ind1 chem h1 hne ho1
  · rw [hoccs1, hocc2, hocc1]
    have : (b.occ.set ind0 (-1)).set ind1 (-1) = (b.occ.set ind1 (-1)).set ind0 (-1) :=
      List.set_comm _ _ hne
    rw [this]
    exact set_put_back b.occ ind1 ind0 chem h0 (Ne.symm hne) ho0
  · intro d hd
    have e1 := hco1 d hd
    have e2 := hco2 d (by omega)
    have e3 := hcos0 d (by omega)
    have e4 := hcos1 d (by omega)
    have hneg : ¬ ((-1 : Int) = chem) := by omega
    have hneg' : ¬ (chem = (-1 : Int)) := by omega
    rw [ho0] at e1
    rw [hb1o1] at e2
    rw [hb2o1] at e3
    rw [hb2o0] at e4
    simp only [hneg, hneg', if_false, hc0, true_and, List.append_nil, show ¬ ((0 : Int) ≤ -1) by omega,
      false_and] at e1 e2 e3 e4
    rw [e3, e4, e2, e1]
    by_cases hcd : chem.toNat = d <;> simp [hcd]

/-- Two cells whose species lists agree except that list `c` is `L ++ [p]` in one and `L ++ [q]` in the
    other are aligned, the difference being the last entry of list `c`. -/
theorem aligned_of_forms (s0 s1 : Cell) (n c p q : Nat) (L : List Nat) (X : Nat → List Nat) (hc : c < n)
    (hl0 : s0.chemorder.length = n) (hl1 : s1.chemorder.length = n)
    (hco : ∀ d, d < n → s0.chemorder.getD d [] = (if c = d then L ++ [p] else X d) ∧
                        s1.chemorder.getD d [] = (if c = d then L ++ [q] else X d)) :
    Aligned s0 s1 c L.length p q := by
  refine ⟨by omega, ?_, ?_, ?_, ?_⟩
  · intro d
    by_cases hd : d < n
    · obtain ⟨e0, e1⟩ := hco d hd
      rw [e0, e1]; split <;> simp
    · rw [getD_out_of_range _ d (by omega), getD_out_of_range _ d (by omega)]
  · intro d j hdj
    by_cases hd : d < n
    · obtain ⟨e0, e1⟩ := hco d hd
      rw [e0, e1]
      by_cases hcd : c = d
      · simp only [hcd, if_true]
        have hj : j ≠ L.length := by
          intro e; apply hdj; rw [e, ← hcd]
        rcases Nat.lt_or_ge j L.length with hlt | hge
        · rw [List.getElem?_append_left hlt, List.getElem?_append_left hlt]
        · rw [List.getElem?_append_right hge, List.getElem?_append_right hge]
          cases hk : j - L.length with
          | zero => omega
          | succ k => simp
      · simp [hcd]
    · rw [getD_out_of_range _ d (by omega), getD_out_of_range _ d (by omega)]
  · rw [(hco c hc).1]; simp
  · rw [(hco c hc).2]; simp

/-- **NEB ordering for omega0 / omega1**: the endpoints are aligned; the moving atom is the last entry of the
    `chem` list, on `ind1` in the initial and on `ind0` in the final cell. -/
theorem vacPair_aligned (b : Cell) (h : Inv b) (ind0 ind1 : Nat) (chem : Int)
    (h0 : ind0 < b.occ.length) (h1 : ind1 < b.occ.length) (hne : ind0 ≠ ind1)
    (hc0 : 0 ≤ chem) (hc1 : chem < b.nchem) (ho0 : b.occ[ind0] = chem) (ho1 : b.occ[ind1] = chem) :
    ∃ s0 s1, vacPair b [] ind0 ind1 chem = .ok (s0, s1) ∧
      Aligned s0 s1 chem.toNat (((b.chemorder.getD chem.toNat []).erase ind0).erase ind1).length ind1 ind0 := by
  obtain ⟨s0, s1, hp, _, _, _, _, hl0, hl1, hco⟩ := vacPair_spec b h ind0 ind1 chem h0 h1 hne hc0 hc1 ho0 ho1
  refine ⟨s0, s1, hp, ?_⟩
  apply aligned_of_forms s0 s1 b.nchem chem.toNat ind1 ind0 _ (fun d => b.chemorder.getD d []) (by omega)
    (by rw [hl0, h.len]) (by rw [hl1, h.len])
  intro d hd
  obtain ⟨e0, e1⟩ := hco d hd
  rw [e0, e1]
  by_cases hcd : chem.toNat = d
  · subst hcd; simp
  · simp [hcd]

/-- omega1: the common edits (`pre`: the solute) come first, the pair is then built on that cell. -/
theorem vacPair_pre (base b : Cell) (pre : List (Nat × Int)) (ind0 ind1 : Nat) (chem : Int)
    (hb : setoccMany base pre = .ok b) : vacPair base pre ind0 ind1 chem = vacPair b [] ind0 ind1 chem := by
  simp [vacPair, hb, setoccMany, bind, Except.bind, pure, Except.pure]

/-- **omega2 construction**: solute on `inds` / vacancy on `indv`, and exchanged.  Host lists coincide
    (both atoms removed), the solute list is `Ls ++ [inds]` resp. `Ls ++ [indv]`. -/
theorem exchPair_spec (b : Cell) (h : Inv b) (inds indv : Nat) (chem schem : Int)
    (hs : inds < b.occ.length) (hv : indv < b.occ.length) (hne : inds ≠ indv)
    (hc0 : 0 ≤ chem) (_hc1 : chem < b.nchem) (hs0 : 0 ≤ schem) (hs1 : schem < b.nchem) (hcs : chem ≠ schem)
    (hos : b.occ[inds] = chem) (hov : b.occ[indv] = chem) :
    ∃ s0 s1, exchPair b inds indv schem = .ok (s0, s1) ∧ Inv s0 ∧ Inv s1 ∧
      s0.occ = (b.occ.set inds schem).set indv (-1) ∧ s1.occ = (b.occ.set indv schem).set inds (-1) ∧
      s0.chemorder.length = b.chemorder.length ∧ s1.chemorder.length = b.chemorder.length ∧
      ∀ d, d < b.nchem →
        s0.chemorder.getD d [] = (if schem.toNat = d then b.chemorder.getD d [] ++ [inds]
          else if chem.toNat = d then ((b.chemorder.getD d []).erase inds).erase indv else b.chemorder.getD d []) ∧
        s1.chemorder.getD d [] = (if schem.toNat = d then b.chemorder.getD d [] ++ [indv]
          else if chem.toNat = d then ((b.chemorder.getD d []).erase inds).erase indv else b.chemorder.getD d []) := by
  obtain ⟨a1, ha1, hia1, hna1, hoa1, hla1, hca1⟩ := setocc_spec b h inds schem hs (by omega) (by omega)
  have hv' : indv < a1.occ.length := by rw [hoa1]; simpa using hv
  have ha1v : a1.occ[indv] = chem := by simp only [hoa1]; rw [List.getElem_set_ne hne]; exact hov
  obtain ⟨s0, hs0', his0, hns0, hos0, hls0, hcs0⟩ := setocc_spec a1 hia1 indv (-1) hv' (by omega) (by omega)
  obtain ⟨c1, hc1', hic1, hnc1, hoc1, hlc1, hcc1⟩ := setocc_spec b h indv schem hv (by omega) (by omega)
  have hs' : inds < c1.occ.length := by rw [hoc1]; simpa using hs
  have hc1s : c1.occ[inds] = chem := by simp only [hoc1]; rw [List.getElem_set_ne (Ne.symm hne)]; exact hos
  obtain ⟨s1, hs1', his1, hns1, hos1, hls1, hcs1⟩ := setocc_spec c1 hic1 inds (-1) hs' (by omega) (by omega)
  refine ⟨s0, s1, ?_, his0, his1, by rw [hos0, hoa1], by rw [hos1, hoc1], by omega, by omega, ?_⟩
  · simp only [exchPair, setoccMany, bind, Except.bind, ha1, hs0', hc1', hs1', pure, Except.pure]
  · intro d hd
    have e1 := hca1 d hd
    have e2 := hcs0 d (by omega)
    have e3 := hcc1 d hd
    have e4 := hcs1 d (by omega)
    rw [hos] at e1
    rw [ha1v] at e2
    rw [hov] at e3
    rw [hc1s] at e4
    have hn1 : ¬ (chem = (-1 : Int)) := by omega
    simp only [hcs, hn1, if_false, hc0, hs0, true_and, List.append_nil, show ¬ ((0 : Int) ≤ -1) by omega,
      false_and] at e1 e2 e3 e4
    rw [e2, e1, e4, e3]
    have hcs' : chem.toNat ≠ schem.toNat := by omega
    by_cases h1 : schem.toNat = d
    · have h2 : ¬ chem.toNat = d := by omega
      simp [h1, h2]
    · by_cases h2 : chem.toNat = d
      · simp [h1, h2, List.erase_comm indv inds]
      · simp [h1, h2]

theorem exchPair_aligned (b : Cell) (h : Inv b) (inds indv : Nat) (chem schem : Int)
    (hs : inds < b.occ.length) (hv : indv < b.occ.length) (hne : inds ≠ indv)
    (hc0 : 0 ≤ chem) (hc1 : chem < b.nchem) (hs0 : 0 ≤ schem) (hs1 : schem < b.nchem) (hcs : chem ≠ schem)
    (hos : b.occ[inds] = chem) (hov : b.occ[indv] = chem) :
    ∃ s0 s1, exchPair b inds indv schem = .ok (s0, s1) ∧
      Aligned s0 s1 schem.toNat (b.chemorder.getD schem.toNat []).length inds indv := by
  obtain ⟨s0, s1, hp, _, _, _, _, hl0, hl1, hco⟩ :=
    exchPair_spec b h inds indv chem schem hs hv hne hc0 hc1 hs0 hs1 hcs hos hov
  refine ⟨s0, s1, hp, ?_⟩
  apply aligned_of_forms s0 s1 b.nchem schem.toNat inds indv _
    (fun d => if chem.toNat = d then ((b.chemorder.getD d []).erase inds).erase indv else b.chemorder.getD d [])
    (by omega) (by rw [hl0, h.len]) (by rw [hl1, h.len])
  intro d hd
  obtain ⟨e0, e1⟩ := hco d hd
  rw [e0, e1]
  by_cases hcd : schem.toNat = d
  · subst hcd; simp
  · simp [hcd]

/-- **Interstitial endpoints**: one interstitial on an empty site each; everything else is the base cell. -/
theorem interPair_spec (b : Cell) (h : Inv b) (ind0 ind1 : Nat) (chem : Int)
    (h0 : ind0 < b.occ.length) (h1 : ind1 < b.occ.length)
    (hc0 : 0 ≤ chem) (hc1 : chem < b.nchem) (ho0 : b.occ[ind0] = -1) (ho1 : b.occ[ind1] = -1) :
    ∃ s0 s1, interPair b ind0 ind1 chem = .ok (s0, s1) ∧ Inv s0 ∧ Inv s1 ∧
      s0.occ = b.occ.set ind0 chem ∧ s1.occ = b.occ.set ind1 chem ∧
      Aligned s0 s1 chem.toNat (b.chemorder.getD chem.toNat []).length ind0 ind1 := by
  obtain ⟨s0, hs0, hi0, hn0, hocc0, hl0, hco0⟩ := setocc_spec b h ind0 chem h0 (by omega) (by omega)
  obtain ⟨s1, hs1, hi1, hn1, hocc1, hl1, hco1⟩ := setocc_spec b h ind1 chem h1 (by omega) (by omega)
  refine ⟨s0, s1, ?_, hi0, hi1, hocc0, hocc1, ?_⟩
  · simp only [interPair, bind, Except.bind, hs0, hs1, pure, Except.pure]
  · apply aligned_of_forms s0 s1 b.nchem chem.toNat ind0 ind1 _ (fun d => b.chemorder.getD d []) (by omega)
      (by rw [hl0, h.len]) (by rw [hl1, h.len])
    intro d hd
    have e0 := hco0 d hd
    have e1 := hco1 d hd
    rw [ho0] at e0
    rw [ho1] at e1
    have hn : ¬ ((-1 : Int) = chem) := by omega
    simp only [hn, if_false, hc0, true_and, show ¬ ((0 : Int) ≤ -1) by omega, false_and] at e0 e1
    rw [e0, e1]
    by_cases hcd : chem.toNat = d
    · subst hcd; simp
    · simp [hcd]

/-- **Recorded mappings.**  `makesupercells` records `(k, g, mapping)` exactly when
    `states[k].equivalencemap(endpoint)` returns `(g, mapping)`; applying it to the state cell —
    `g * state` then `reorder(mapping)` — gives the endpoint exactly (occupation and ordering). -/
theorem mapping_transforms_state (sc : Onsager.C27.SiteCtx) (G : List (List Nat)) (state endpoint : Cell)
    (k : Nat) (mp : List (List Nat)) (hs : Inv state) (he : Inv endpoint) (hn : state.nchem = endpoint.nchem)
    (hfound : Onsager.C27.equivalencemap sc G state endpoint = .ok (some (k, mp))) :
    ∃ m, G[k]? = some m ∧
      (Onsager.C27.IsPerm state.occ.length m → applyMapping state m mp = .ok endpoint) := by
  obtain ⟨m, hk, hm⟩ := Onsager.C27.equiv_sound_reorder sc G state endpoint k mp hs he hn hfound
  exact ⟨m, hk, fun hp => hm hp⟩

/-! ### non-vacuity: a 4-site one-species cell with one solute species declared -/

def exBase : Cell := { nchem := 2, occ := [0, 0, 0, 0], chemorder := [[0, 1, 2, 3], []] }
theorem exBase_inv : Inv exBase :=
  fill_inv (Cell.empty 2 4) exBase 0 [0, 1, 2, 3] (empty_inv 2 4) (by decide)

example : vacPair exBase [] 1 2 0 = .ok
    ({ nchem := 2, occ := [0, -1, 0, 0], chemorder := [[0, 3, 2], []] },
     { nchem := 2, occ := [0, 0, -1, 0], chemorder := [[0, 3, 1], []] }) := by decide
example : vacPair exBase [(0, 1)] 1 2 0 = .ok
    ({ nchem := 2, occ := [1, -1, 0, 0], chemorder := [[3, 2], [0]] },
     { nchem := 2, occ := [1, 0, -1, 0], chemorder := [[3, 1], [0]] }) := by decide
example : exchPair exBase 1 2 1 = .ok
    ({ nchem := 2, occ := [0, 1, -1, 0], chemorder := [[0, 3], [1]] },
     { nchem := 2, occ := [0, -1, 1, 0], chemorder := [[0, 3], [2]] }) := by decide
example : ∃ s0 s1, vacPair exBase [] 1 2 0 = .ok (s0, s1) ∧ Aligned s0 s1 0 2 2 1 :=
  vacPair_aligned exBase exBase_inv 1 2 0 (by decide) (by decide) (by decide) (by decide) (by decide)
    (by decide) (by decide)

end Onsager.C29
