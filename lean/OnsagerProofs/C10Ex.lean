/- C10 — non-vacuity: a concrete network, character, averaging functional and inverse satisfying every hypothesis of avg_inverse_solves. -/
import OnsagerProofs.C10
import Mathlib.Tactic.NormNum
import Mathlib.Tactic.FinCases
import Mathlib.Data.ZMod.Defs
import Mathlib.Algebra.BigOperators.Fin
namespace Onsager.C10
open Matrix

/-- non-vacuity of `avg_inverse_solves`: the two-cell periodic chain (Γ = ℤ/2, one site, unit jump rate
    to the neighbouring cell in both directions, an on-site sink making ω invertible);
    functions of q are pairs (q = 0, q = π), `e x q = (−1)^{x q}`, `Avg` the two-point mesh average. -/
def exNet : Net (Fin 2) (Fin 1) (ZMod 2) ℚ := { src := fun _ => 0, dst := fun _ => 0, d := fun _ => 1, r := fun _ => 1, esc := fun _ => -3 }
def exE (x : ZMod 2) : Fin 2 → ℚ := fun q => if x = 1 ∧ q = 1 then -1 else 1
def exAvg : (Fin 2 → ℚ) →ₗ[ℚ] ℚ where
  toFun f := (f 0 + f 1) / 2
  map_add' f g := by simp; ring
  map_smul' c f := by simp; ring
def exGinv : Matrix (Fin 1) (Fin 1) (Fin 2 → ℚ) := fun _ _ q => if q = 1 then -1/5 else -1

example : (∀ x y, exE (x + y) = exE x * exE y) ∧ exNet.omega exE * exGinv = 1 ∧
    (∀ z : ZMod 2, exAvg (exE (-z)) = if z = 0 then 1 else 0) := by
  refine ⟨?_, ?_, ?_⟩
  · intro x y; funext q
    fin_cases x <;> fin_cases y <;> fin_cases q <;> simp [exE] <;> decide
  · ext i j q
    fin_cases i; fin_cases j
    fin_cases q <;> simp [Net.omega, exNet, exE, exGinv, Matrix.mul_apply] <;> norm_num
  · intro z
    fin_cases z
    · show ((1:ℚ) + if -(0 : ZMod 2) = 1 then -1 else 1) / 2 = if (0 : ZMod 2) = 0 then 1 else 0
      rw [if_neg (by decide), if_pos (by decide)]; norm_num
    · show ((1:ℚ) + if -(1 : ZMod 2) = 1 then -1 else 1) / 2 = if (1 : ZMod 2) = 0 then 1 else 0
      rw [if_pos (by decide), if_neg (by decide)]; norm_num
end Onsager.C10
