/-
  C24 — the state set of `StarSet.generate` is the set of non-zero sums of 1..N chained jumps;
  it is closed under the group when the jump list is; closure algebra of `+=`; `diffgenerate`.
-/
import OnsagerProofs.C24Basic

namespace Onsager.C24

/-! ### duplicate-free lists -/

theorem mem_dedup {α} [DecidableEq α] {a : α} {l : List α} : a ∈ dedup l ↔ a ∈ l := by
  induction l with
  | nil => simp [dedup]
  | cons b l ih =>
    simp only [dedup]
    split
    · rename_i hb
      simp only [List.mem_cons, ih]
      constructor
      · intro h; exact Or.inr h
      · rintro (rfl | h)
        · exact ih.1 hb
        · exact h
    · simp only [List.mem_cons, ih]

theorem nodup_dedup {α} [DecidableEq α] (l : List α) : (dedup l).Nodup := by
  induction l with
  | nil => simp [dedup]
  | cons b l ih =>
    simp only [dedup]
    split
    · exact ih
    · rename_i hb
      exact List.nodup_cons.2 ⟨hb, ih⟩

theorem dedup_eq_self_iff {α} [DecidableEq α] (l : List α) : dedup l = l ↔ l.Nodup := by
  constructor
  · intro h; rw [← h]; exact nodup_dedup l
  · intro h
    induction l with
    | nil => rfl
    | cons b l ih =>
      have hb := (List.nodup_cons.1 h)
      simp only [dedup, ih hb.2]
      simp [hb.1]

/-! ### shells and walks -/

theorem mem_step {J last : List PS} {s : PS} :
    s ∈ step J last ↔ ∃ s1 ∈ last, ∃ s2 ∈ J, addNZ s1 s2 = some s := by
  simp [step, mem_dedup, List.mem_flatMap, List.mem_filterMap]

/-- `Walk J k s`: `s` is the sum of `k ≥ 1` chained jumps of `J` (every partial sum defined). -/
inductive Walk (J : List PS) : Nat → PS → Prop
  | one {s : PS} : s ∈ J → Walk J 1 s
  | succ {k : Nat} {s1 s2 s : PS} : Walk J k s1 → s2 ∈ J → s1.add s2 = some s → Walk J (k + 1) s

theorem Walk.pos {J k s} (h : Walk J k s) : 1 ≤ k := by
  cases h <;> omega

theorem Walk.start_mem {J k s} (h : Walk J k s) : ∃ j ∈ J, j.i = s.i := by
  induction h with
  | one hs => exact ⟨_, hs, rfl⟩
  | succ _ _ hadd ih =>
    obtain ⟨j, hj, hji⟩ := ih
    rw [add_eq_some] at hadd
    exact ⟨j, hj, by rw [hji, hadd.2]⟩

theorem shell_walk {J : List PS} : ∀ {k s}, s ∈ shell J k → Walk J (k + 1) s := by
  intro k
  induction k with
  | zero => intro s hs; exact Walk.one (mem_dedup.1 hs)
  | succ k ih =>
    intro s hs
    obtain ⟨s1, h1, s2, h2, h⟩ := mem_step.1 hs
    exact Walk.succ (ih h1) h2 (addNZ_eq_some.1 h).1

theorem shell_nonzero {J : List PS} (hJ : ∀ j ∈ J, j.isZero = false) :
    ∀ {k s}, s ∈ shell J k → s.isZero = false := by
  intro k s hs
  cases k with
  | zero => exact hJ s (mem_dedup.1 hs)
  | succ k =>
    obtain ⟨s1, _, s2, _, h⟩ := mem_step.1 hs
    exact (addNZ_eq_some.1 h).2

/-- a walk through zero can be shortened: every walk ends at zero or in one of the shells -/
theorem walk_shell {J : List PS} {n : Nat} {s : PS} (h : Walk J n s) :
    s.isZero = true ∨ ∃ m, m + 1 ≤ n ∧ s ∈ shell J m := by
  induction h with
  | one hs => exact Or.inr ⟨0, by omega, mem_dedup.2 hs⟩
  | @succ k s1 s2 s _ h2 hadd ih =>
    rcases ih with hz | ⟨m, hm, hs1⟩
    · right
      have : s1.add s2 = some s2 := zero_add' hz (add_eq_some.1 hadd).1
      rw [this] at hadd
      cases hadd
      exact ⟨0, by omega, mem_dedup.2 h2⟩
    · by_cases hz : s.isZero = true
      · exact Or.inl hz
      · right
        refine ⟨m + 1, by omega, mem_step.2 ⟨s1, hs1, s2, h2, addNZ_eq_some.2 ⟨hadd, by simpa using hz⟩⟩⟩

theorem mem_laterShells {J : List PS} {n : Nat} {s : PS} :
    s ∈ laterShells J n ↔ ∃ k, k < n ∧ s ∈ shell J (k + 1) := by
  simp [laterShells, List.mem_flatMap]

theorem mem_genStates_shell {J : List PS} {ns N : Nat} {o : Bool} {s : PS} :
    s ∈ genStates J ns N o ↔ (∃ m, m < N ∧ s ∈ shell J m) ∨ (o = true ∧ ∃ n, n < ns ∧ s = PS.zero n) := by
  simp only [genStates, mem_dedup, List.mem_append]
  constructor
  · rintro ((h | h) | h)
    · split at h
      · rename_i hN; exact Or.inl ⟨0, hN, h⟩
      · simp at h
    · split at h
      · rename_i ho
        simp only [List.mem_map, List.mem_range] at h
        obtain ⟨n, hn, rfl⟩ := h
        exact Or.inr ⟨ho, n, hn, rfl⟩
      · simp at h
    · split at h
      · obtain ⟨k, hk, hs⟩ := mem_laterShells.1 h
        exact Or.inl ⟨k + 1, by omega, hs⟩
      · simp at h
  · rintro (⟨m, hm, hs⟩ | ⟨ho, n, hn, rfl⟩)
    · have hN : N > 0 := by omega
      cases m with
      | zero => left; left; simp only [hN, if_true]; exact hs
      | succ m => right; simp only [hN, if_true]; exact mem_laterShells.2 ⟨m, by omega, hs⟩
    · left; right
      simp only [ho, if_true, List.mem_map, List.mem_range]
      exact ⟨n, hn, rfl⟩

/-- **states_eq_reachable**: with a jump list free of zero states, the state set of
    `generate(N, originstates)` is exactly the set of non-zero sums of `1 … N` chained jumps,
    plus the origin states `(n,n,0)`, `n < nsites`, when requested. -/
theorem mem_genStates_iff {J : List PS} (hJ : ∀ j ∈ J, j.isZero = false) {ns N : Nat} {o : Bool} {s : PS} :
    s ∈ genStates J ns N o ↔
      (s.isZero = false ∧ ∃ k, 1 ≤ k ∧ k ≤ N ∧ Walk J k s) ∨ (o = true ∧ ∃ n, n < ns ∧ s = PS.zero n) := by
  rw [mem_genStates_shell]
  constructor
  · rintro (⟨m, hm, hs⟩ | h)
    · exact Or.inl ⟨shell_nonzero hJ hs, m + 1, by omega, by omega, shell_walk hs⟩
    · exact Or.inr h
  · rintro (⟨hz, k, _, hk, hw⟩ | h)
    · rcases walk_shell hw with hz' | ⟨m, hm, hs⟩
      · rw [hz] at hz'; cases hz'
      · exact Or.inl ⟨m, by omega, hs⟩
    · exact Or.inr h

theorem genStates_nodup (J : List PS) (ns N : Nat) (o : Bool) : (genStates J ns N o).Nodup :=
  nodup_dedup _

/-! ### closure under the group -/

theorem Valid.add {n : Nat} {a b s : PS} (ha : Valid n a) (hb : Valid n b) (h : a.add b = some s) :
    Valid n s := by
  rw [add_eq_some] at h
  obtain ⟨_, rfl⟩ := h
  exact ⟨ha.1, hb.2⟩

theorem Walk.valid {n : Nat} {J : List PS} (hJV : ∀ j ∈ J, Valid n j) {k s} (h : Walk J k s) : Valid n s := by
  induction h with
  | one hs => exact hJV _ hs
  | succ _ h2 hadd ih => exact ih.add (hJV _ h2) hadd

theorem Walk.act {J : List PS} {g : Op} (hJg : ∀ j ∈ J, act g j ∈ J) {k s} (h : Walk J k s) :
    Walk J k (act g s) := by
  induction h with
  | one hs => exact Walk.one (hJg _ hs)
  | succ _ h2 hadd ih => exact Walk.succ ih (hJg _ h2) (act_add g hadd)

theorem genStates_valid {n : Nat} {J : List PS} (hJV : ∀ j ∈ J, Valid n j) {N : Nat} {o : Bool} {s : PS}
    (hs : s ∈ genStates J n N o) : Valid n s := by
  rcases mem_genStates_shell.1 hs with ⟨m, _, h⟩ | ⟨_, k, hk, rfl⟩
  · exact (shell_walk h).valid hJV
  · exact ⟨hk, hk⟩

/-- **reachable_G_closed**: if the jump list is closed under the group, so is the state set. -/
theorem genStates_G_closed {n : Nat} {G : List Op} {J : List PS} (hG : GroupLike G (Valid n))
    (hJ : ∀ j ∈ J, j.isZero = false) (hJV : ∀ j ∈ J, Valid n j)
    (hJG : ∀ g ∈ G, ∀ j ∈ J, act g j ∈ J) {N : Nat} {o : Bool} :
    ∀ g ∈ G, ∀ s ∈ genStates J n N o, act g s ∈ genStates J n N o := by
  intro g hg s hs
  rw [mem_genStates_iff hJ] at hs ⊢
  rcases hs with ⟨hz, k, h1, h2, hw⟩ | ⟨ho, m, hm, rfl⟩
  · left
    refine ⟨?_, k, h1, h2, hw.act (hJG g hg)⟩
    have := hG.act_isZero_iff hg (hw.valid hJV)
    cases h : (Onsager.C24.act g s).isZero
    · rfl
    · rw [this.1 h] at hz; cases hz
  · right
    refine ⟨ho, g.site m, ?_, act_zero g m⟩
    have := hG.valid g hg (PS.zero m) ⟨hm, hm⟩
    rw [act_zero] at this
    exact this.1

/-! ### closure algebra: `S(N₁) += S(N₂)` -/

theorem Walk.append {J : List PS} {k1 : Nat} {s1 : PS} (h1 : Walk J k1 s1) :
    ∀ {k2 s2 s}, Walk J k2 s2 → s1.add s2 = some s → Walk J (k1 + k2) s := by
  intro k2 s2 s h2
  induction h2 generalizing s with
  | one hs => intro h; exact Walk.succ h1 hs h
  | @succ k t j s2 _ hj hadd ih =>
    intro h
    -- s2 = t + j,  s = s1 + (t + j) = (s1 + t) + j
    have e := add_assoc' s1 t j
    rw [hadd] at e
    simp only [Option.bind_some] at e
    rw [h] at e
    cases h1t : s1.add t with
    | none => rw [h1t] at e; simp at e
    | some w =>
      rw [h1t] at e
      simp only [Option.bind_some] at e
      have := Walk.succ (ih h1t) hj e
      rwa [← Nat.add_assoc]

theorem Walk.split {J : List PS} {a : Nat} (ha : 1 ≤ a) :
    ∀ {b s}, 1 ≤ b → Walk J (a + b) s → ∃ s1 s2, Walk J a s1 ∧ Walk J b s2 ∧ s1.add s2 = some s := by
  intro b
  induction b with
  | zero => intro s hb; omega
  | succ b ih =>
    intro s _ h
    generalize hk : a + (b + 1) = k at h
    cases h with
    | one hs => omega
    | @succ k' t j _ ht hj hadd =>
      have hk' : k' = a + b := by omega
      subst hk'
      by_cases hb0 : b = 0
      · subst hb0
        exact ⟨t, j, ht, Walk.one hj, hadd⟩
      · obtain ⟨s1, t2, h1, h2, h12⟩ := ih (by omega) ht
        have e := add_assoc' s1 t2 j
        rw [h12] at e
        simp only [Option.bind_some] at e
        rw [hadd] at e
        cases h2j : t2.add j with
        | none => rw [h2j] at e; simp at e
        | some w =>
          rw [h2j] at e
          simp only [Option.bind_some] at e
          exact ⟨s1, w, h1, Walk.succ h2 hj h2j, e.symm⟩

theorem mem_iaddNew {S1 S2 : List PS} {s : PS} :
    s ∈ iaddNew S1 S2 ↔ (∃ s1 ∈ S1, ∃ s2 ∈ S2, addNZ s1 s2 = some s) ∧ s ∉ S1 := by
  simp [iaddNew, mem_dedup, List.mem_filter, List.mem_flatMap, List.mem_filterMap]

theorem zero_isZero (n : Nat) : (PS.zero n).isZero = true := by
  simp [PS.zero, PS.isZero]

/-- **closure algebra**: for `N₁, N₂ ≥ 1` the states of `S(N₁)` together with the new states
    produced by `S(N₁) += S(N₂)` are exactly the states of `S(N₁+N₂)` (origin states follow the
    left operand). -/
theorem iaddStates_eq {J : List PS} (hJ : ∀ j ∈ J, j.isZero = false) {ns N1 N2 : Nat} {o1 o2 : Bool}
    (h1 : 1 ≤ N1) (h2 : 1 ≤ N2) (s : PS) :
    (s ∈ genStates J ns N1 o1 ∨ s ∈ iaddNew (genStates J ns N1 o1) (genStates J ns N2 o2)) ↔
      s ∈ genStates J ns (N1 + N2) o1 := by
  constructor
  · rintro (h | h)
    · rw [mem_genStates_iff hJ] at h ⊢
      rcases h with ⟨hz, k, hk1, hk2, hw⟩ | h
      · exact Or.inl ⟨hz, k, hk1, by omega, hw⟩
      · exact Or.inr h
    · obtain ⟨⟨s1, hs1, s2, hs2, hadd⟩, _⟩ := mem_iaddNew.1 h
      obtain ⟨hadd, hz⟩ := addNZ_eq_some.1 hadd
      rw [mem_genStates_iff hJ] at hs1 hs2 ⊢
      left
      refine ⟨hz, ?_⟩
      rcases hs1 with ⟨_, k1, hk1, hk1', hw1⟩ | ⟨_, m, _, rfl⟩
      · rcases hs2 with ⟨_, k2, hk2, hk2', hw2⟩ | ⟨_, m, _, rfl⟩
        · exact ⟨k1 + k2, by omega, by omega, hw1.append hw2 hadd⟩
        · rw [add_zero' (zero_isZero m) (add_eq_some.1 hadd).1] at hadd
          cases hadd
          exact ⟨k1, hk1, by omega, hw1⟩
      · rw [zero_add' (zero_isZero m) (add_eq_some.1 hadd).1] at hadd
        cases hadd
        rcases hs2 with ⟨_, k2, hk2, hk2', hw2⟩ | ⟨_, m', _, rfl⟩
        · exact ⟨k2, hk2, by omega, hw2⟩
        · rw [zero_isZero] at hz; cases hz
  · intro h
    rw [mem_genStates_iff hJ] at h
    rcases h with ⟨hz, k, hk1, hk2, hw⟩ | h
    · -- strong induction on the length of the walk
      have key : ∀ k, ∀ s, Walk J k s → k ≤ N1 + N2 → s.isZero = true ∨ s ∈ genStates J ns N1 o1 ∨
          s ∈ iaddNew (genStates J ns N1 o1) (genStates J ns N2 o2) := by
        intro k
        induction k using Nat.strong_induction_on with
        | _ k ih =>
          intro s hw hk
          by_cases hz : s.isZero = true
          · exact Or.inl hz
          have hz' : s.isZero = false := by simpa using hz
          right
          by_cases hkN : k ≤ N1
          · left
            exact (mem_genStates_iff hJ).2 (Or.inl ⟨hz', k, hw.pos, hkN, hw⟩)
          · obtain ⟨b, rfl⟩ : ∃ b, k = N1 + b := ⟨k - N1, by omega⟩
            obtain ⟨s1, s2, hw1, hw2, hadd⟩ := Walk.split h1 (by omega) hw
            by_cases hz1 : s1.isZero = true
            · rw [zero_add' hz1 (add_eq_some.1 hadd).1] at hadd
              cases hadd
              rcases ih b (by omega) _ hw2 (by omega) with h | h
              · rw [hz'] at h; cases h
              · exact h
            by_cases hz2 : s2.isZero = true
            · rw [add_zero' hz2 (add_eq_some.1 hadd).1] at hadd
              cases hadd
              left
              exact (mem_genStates_iff hJ).2 (Or.inl ⟨hz', N1, h1, Nat.le_refl _, hw1⟩)
            · have m1 : s1 ∈ genStates J ns N1 o1 :=
                (mem_genStates_iff hJ).2 (Or.inl ⟨by simpa using hz1, N1, h1, Nat.le_refl _, hw1⟩)
              have m2 : s2 ∈ genStates J ns N2 o2 :=
                (mem_genStates_iff hJ).2 (Or.inl ⟨by simpa using hz2, b, hw2.pos, by omega, hw2⟩)
              by_cases hin : s ∈ genStates J ns N1 o1
              · exact Or.inl hin
              · exact Or.inr (mem_iaddNew.2 ⟨⟨s1, m1, s2, m2, addNZ_eq_some.2 ⟨hadd, hz'⟩⟩, hin⟩)
      rcases key k s hw hk2 with h | h
      · rw [hz] at h; cases h
      · exact h
    · exact Or.inl ((mem_genStates_iff hJ).2 (Or.inr h))

/-! ### the StarSet-level statements -/

theorem mem_sortByKey {α} (key : α → Rat) (l : List α) (a : α) : a ∈ sortByKey key l ↔ a ∈ l :=
  (List.mergeSort_perm l _).mem_iff

theorem sortByKey_perm {α} (key : α → Rat) (l : List α) : (sortByKey key l).Perm l :=
  List.mergeSort_perm l _

theorem mem_generate_states {C : Crys} {G : List Op} {thr : Rat} {J : List PS} {N : Nat} {o : Bool} {s : PS} :
    s ∈ (generate C G thr J N o).states ↔ s ∈ genStates J C.nsites N o := by
  simp [generate, mem_sortByKey]

/-- **add_eq_generate_sum** (state sets): for `N₁, N₂ ≥ 1`, `S(N₁) += S(N₂)` returns a star set
    with `N₁+N₂` shells whose states are exactly those of `generate(N₁+N₂)` (also when the sum
    reaches no new state, where the source returns early). -/
theorem iadd_states_eq_generate_sum {C : Crys} {G : List Op} {thr : Rat} {J : List PS}
    (hJ : ∀ j ∈ J, j.isZero = false) {N1 N2 : Nat} {o1 o2 : Bool} (h1 : 1 ≤ N1) (h2 : 1 ≤ N2) :
    ∃ R, iadd C G thr (generate C G thr J N1 o1) (generate C G thr J N2 o2) = .ok R ∧
      R.nshells = N1 + N2 ∧ ∀ s, s ∈ R.states ↔ s ∈ (generate C G thr J (N1 + N2) o1).states := by
  have hA : ¬ (generate C G thr J N1 o1).nshells < 1 := by simp [generate]; omega
  have hB : ¬ (generate C G thr J N2 o2).nshells < 1 := by simp [generate]; omega
  have hmem : ∀ s, s ∈ iaddNew (generate C G thr J N1 o1).states (generate C G thr J N2 o2).states ↔
      s ∈ iaddNew (genStates J C.nsites N1 o1) (genStates J C.nsites N2 o2) := by
    intro s
    simp only [mem_iaddNew, mem_generate_states]
  unfold iadd
  simp only [hA, hB, if_false]
  split
  · rename_i hempty
    refine ⟨_, rfl, rfl, fun s => ?_⟩
    show s ∈ (generate C G thr J N1 o1).states ↔ _
    rw [mem_generate_states, mem_generate_states, ← iaddStates_eq hJ h1 h2 s (o2 := o2)]
    have : ∀ s, s ∉ iaddNew (genStates J C.nsites N1 o1) (genStates J C.nsites N2 o2) := by
      intro s hs
      have h' := (hmem s).2 hs
      have := (mem_sortByKey (x2 C) _ s).2 h'
      rw [List.isEmpty_iff.1 hempty] at this
      simp at this
    constructor
    · intro h; exact Or.inl h
    · rintro (h | h)
      · exact h
      · exact absurd h (this s)
  · refine ⟨_, rfl, rfl, fun s => ?_⟩
    simp only [List.mem_append, mem_sortByKey, hmem, mem_generate_states]
    exact iaddStates_eq hJ h1 h2 s

/-! ### diffgenerate -/

/-- **diff_contains_all_endpoint_differences**: the state set of `diffgenerate(S₁, S₂)` is exactly
    `{ s₂ ^ s₁ | s₁ ∈ S₁, s₂ ∈ S₂, same solute site }`. -/
theorem mem_diffStates_iff {S1 S2 : List PS} {s : PS} :
    s ∈ diffStates S1 S2 ↔ ∃ s1 ∈ S1, ∃ s2 ∈ S2, s2.xor s1 = some s := by
  simp [diffStates, mem_dedup, List.mem_flatMap, List.mem_filterMap]

theorem diffStates_G_closed {G : List Op} {S1 S2 : List PS}
    (h1 : ∀ g ∈ G, ∀ s ∈ S1, act g s ∈ S1) (h2 : ∀ g ∈ G, ∀ s ∈ S2, act g s ∈ S2) :
    ∀ g ∈ G, ∀ s ∈ diffStates S1 S2, act g s ∈ diffStates S1 S2 := by
  intro g hg s hs
  obtain ⟨s1, m1, s2, m2, h⟩ := mem_diffStates_iff.1 hs
  exact mem_diffStates_iff.2 ⟨_, h1 g hg s1 m1, _, h2 g hg s2 m2, act_xor g h⟩

theorem diffStates_nodup (S1 S2 : List PS) : (diffStates S1 S2).Nodup := nodup_dedup _

end Onsager.C24
