/-
  C03 — Transport tensors are symmetric, non-negative and crystal-invariant (interstitial model;
  the same variational lemmas carry the bare-vacancy and solute–solute coefficients).

  * `form_symm`       u·D·v = v·D·u for all directions: the tensor is symmetric
  * `form_nonneg`     u·D·u ≥ 0 for all directions: positive semidefinite
  * `form_invariant`  if a site bijection carries the network projected on `u` onto the network
                      projected on `u'` (what a space-group operation with rotation R does for
                      u' = R u), then u·D·u = u'·D·u'
  The hypothesis of `form_invariant` is decidable; the driver evaluates it for the crystal's actual
  group operations (`invcheck` request), so closure of the network under the group is checked, not
  assumed.
-/
import OnsagerModel.C03
import OnsagerProofs.C02
import OnsagerProofs.C04
import Mathlib.Data.Fintype.EquivFin
import Mathlib.Logic.Equiv.Basic

namespace Onsager.C03
open Onsager.C02 Onsager.Var

theorem mkJump_swap (inp : Input) (u v : List ℚ) (x : Nat × Nat × Nat × List ℚ) :
    mkJump inp v u x = (mkJump inp u v x).map Jump.swap := by
  obtain ⟨k, i, j, dx⟩ := x
  simp only [mkJump]
  by_cases hi : i < inp.n
  · by_cases hj : j < inp.n
    · simp only [dif_pos hi, dif_pos hj, Option.map_some]; rfl
    · simp only [dif_pos hi, dif_neg hj, Option.map_none]
  · simp only [dif_neg hi, Option.map_none]

theorem network_swap (inp : Input) (u v : List ℚ) (l : List (Jump (Fin inp.n) ℚ))
    (hl : network inp u v = some l) : network inp v u = some (l.map Jump.swap) := by
  unfold network at hl ⊢
  rw [← C04.mapM_some_map (mkJump inp u v) Jump.swap (flat inp) l hl]
  apply C04.mapM_congr_mem
  intro x _
  exact mkJump_swap inp u v x

theorem swap_swap {ι : Type} (l : List (Jump ι ℚ)) : (l.map Jump.swap).map Jump.swap = l := by
  rw [List.map_map]
  conv_rhs => rw [← List.map_id l]
  apply List.map_congr_left
  intro a _
  cases a; rfl

/-- **Symmetry.** The tensor returned by the model is symmetric: `u·D·v = v·D·u`. -/
theorem form_symm (inp : Input) (u v : List ℚ) (D D' : ℚ)
    (h : form inp u v = some D) (h' : form inp v u = some D') : D = D' := by
  unfold form at h h'
  cases hl : network inp u v with
  | none => simp [hl] at h
  | some l =>
    rw [network_swap inp u v l hl] at h'
    cases hs : solve inp.n l with
    | none => simp [hl, hs] at h
    | some ξ =>
      cases hs' : solve inp.n (l.map Jump.swap) with
      | none => simp [hs'] at h'
      | some ζ =>
        simp [hl, hs] at h
        simp [hs'] at h'
        obtain ⟨hp, _, hst⟩ := solve_sound l ξ hs
        obtain ⟨_, _, hst'⟩ := solve_sound _ ζ hs'
        have key := D_symm l hp ξ ζ hst hst'
        rw [← h, ← h']
        have e1 : (List.map ((fun a => a.r * a.d * a.e) ∘ Jump.swap) l).sum
            = (List.map (fun a => a.r * a.d * a.e) l).sum := by
          congr 1
          apply List.map_congr_left
          intro a _
          simp only [Function.comp, Jump.swap]
          ring
        have e2 : (l.map (Jump.swap ∘ Jump.swap)) = l := by
          have := swap_swap l
          rwa [List.map_map] at this
        rw [e1, e2, key]

/-- **Positive semidefiniteness.** -/
theorem form_nonneg (inp : Input) (u : List ℚ) (D : ℚ) (h : form inp u u = some D) : 0 ≤ D := by
  obtain ⟨l, ξ, _, _, _, hr, hD, _⟩ := form_eq_Qmin inp u D h
  rw [hD]
  exact Q_nonneg l hr ξ

/-- **Crystal invariance.** -/
theorem form_invariant (inp : Input) (u u' : List ℚ) (π : Fin inp.n ≃ Fin inp.n) (D D' : ℚ)
    (l l' : List (Jump (Fin inp.n) ℚ))
    (hl : network inp u u = some l) (hl' : network inp u' u' = some l')
    (hπ : (l.map (Jump.relabel π)).Perm l')
    (h : form inp u u = some D) (h' : form inp u' u' = some D') : D = D' := by
  obtain ⟨l0, ξ, hl0, hst, hp, hr, hD, _⟩ := form_eq_Qmin inp u D h
  obtain ⟨l0', ξ', hl0', hst', hp', hr', hD', _⟩ := form_eq_Qmin inp u' D' h'
  rw [hl] at hl0; cases hl0
  rw [hl'] at hl0'; cases hl0'
  rw [hD, hD']
  exact Qmin_relabel π l l' hπ hp hr hp' hr' ξ ξ' hst hst'

theorem permFun_injective (n : Nat) (perm : List Nat) (h : perm.Perm (List.range n)) :
    Function.Injective (permFun n perm) := by
  have hlen : perm.length = n := by rw [h.length_eq, List.length_range]
  have hnd : perm.Nodup := h.nodup_iff.2 List.nodup_range
  have hlt : ∀ x ∈ perm, x < n := fun x hx => List.mem_range.1 (h.mem_iff.1 hx)
  intro i j hij
  have hi : i.val < perm.length := by rw [hlen]; exact i.isLt
  have hj : j.val < perm.length := by rw [hlen]; exact j.isLt
  have gi : perm.getD i.val 0 = perm[i.val] := by
    simp [List.getD_eq_getElem?_getD, List.getElem?_eq_getElem hi]
  have gj : perm.getD j.val 0 = perm[j.val] := by
    simp [List.getD_eq_getElem?_getD, List.getElem?_eq_getElem hj]
  have hi' : perm.getD i.val 0 < n := by rw [gi]; exact hlt _ (List.getElem_mem hi)
  have hj' : perm.getD j.val 0 < n := by rw [gj]; exact hlt _ (List.getElem_mem hj)
  unfold permFun at hij
  rw [dif_pos hi', dif_pos hj'] at hij
  have : perm[i.val] = perm[j.val] := by
    have := congrArg Fin.val hij
    simp only at this
    rw [gi, gj] at this
    exact this
  exact Fin.ext ((List.Nodup.getElem_inj_iff hnd).1 this)

/-- The decidable hypothesis evaluated by the driver is exactly the one `form_invariant` needs:
    a genuine site bijection carrying one projected network onto the other. -/
theorem invcheck_sound (inp : Input) (u u' : List ℚ) (perm : List Nat)
    (h : invcheck inp u u' perm = true) :
    ∃ (π : Fin inp.n ≃ Fin inp.n) (l l' : List (Jump (Fin inp.n) ℚ)),
      network inp u u = some l ∧ network inp u' u' = some l' ∧ (l.map (Jump.relabel π)).Perm l' := by
  unfold invcheck at h
  cases hl : network inp u u with
  | none => simp [hl] at h
  | some l =>
    cases hl' : network inp u' u' with
    | none => simp [hl, hl'] at h
    | some l' =>
      simp only [hl, hl', Bool.and_eq_true] at h
      have hperm := List.isPerm_iff.1 h.1
      have hinj := permFun_injective inp.n perm hperm
      have hbij : Function.Bijective (permFun inp.n perm) :=
        ⟨hinj, Finite.injective_iff_surjective.1 hinj⟩
      refine ⟨Equiv.ofBijective _ hbij, l, l', rfl, rfl, ?_⟩
      have := List.isPerm_iff.1 h.2
      simpa using this

/-- **C03 invariance, as decided by the driver**: whenever `invcheck` accepts, the two transport
    forms are equal. -/
theorem invcheck_form_eq (inp : Input) (u u' : List ℚ) (perm : List Nat) (D D' : ℚ)
    (hc : invcheck inp u u' perm = true)
    (h : form inp u u = some D) (h' : form inp u' u' = some D') : D = D' := by
  obtain ⟨π, l, l', hl, hl', hπ⟩ := invcheck_sound inp u u' perm hc
  exact form_invariant inp u u' π D D' l l' hl hl' hπ h h'

end Onsager.C03
