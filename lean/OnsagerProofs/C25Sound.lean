/-
  C25 — soundness of the executable checker `Inst.check` (OnsagerModel/C25.lean):
  bridge from the `Fin`-table model to the abstract representation facts of OnsagerProofs/C25.lean.
-/
import OnsagerModel.C25
import OnsagerProofs.C25
import Mathlib.LinearAlgebra.Matrix.ToLin
import Mathlib.LinearAlgebra.Matrix.Trace
import Mathlib.Algebra.BigOperators.Fin
import Mathlib.Data.Fintype.BigOperators

namespace Onsager.C25

open Module

/-! ### model sums and tests -/

theorem sumFin_eq {n : ℕ} (f : Fin n → ℚ) : sumFin n f = ∑ i, f i := by
  unfold sumFin
  exact (Fin.sum_univ_def f).symm

theorem allFin_iff {n : ℕ} (p : Fin n → Bool) : allFin n p = true ↔ ∀ i, p i = true := by
  simp [allFin, List.all_eq_true, List.mem_finRange]

theorem absR_eq (x : ℚ) : absR x = |x| := by
  unfold absR
  split
  · rw [abs_of_neg (by assumption)]
  · rw [abs_of_nonneg (by linarith)]

theorem delta_eq {k : ℕ} (a b : Fin k) : delta a b = if a = b then 1 else 0 := rfl


/-! ### the hypotheses read off the checker -/

structure RepHyp (I : Inst) : Prop where
  hN : 0 < I.N
  hinv1 : ∀ g a b, ∑ c, I.rhoInv g a c * I.rho g c b = if a = b then 1 else 0
  hinv2 : ∀ g a b, ∑ c, I.rho g a c * I.rhoInv g c b = if a = b then 1 else 0
  hmul : ∀ g h a b, ∑ c, I.rhoInv g a c * I.rhoInv h c b = I.rhoInv (I.mul h g) a b
  hperm : ∀ g h x, I.perm h (I.perm g x) = I.perm (I.mul h g) x
  hinj : ∀ g h h', I.mul h g = I.mul h' g → h = h'

theorem repOK_sound (I : Inst) (h : I.repOK = true) : RepHyp I := by
  unfold Inst.repOK at h
  simp only [Bool.and_eq_true, allFin_iff, decide_eq_true_eq, matMul, sumFin_eq, delta_eq] at h
  obtain ⟨⟨⟨⟨h1, h2⟩, h3⟩, h4⟩, h5⟩ := h
  exact ⟨h1, fun g a b => (h2 g a b).1, fun g a b => (h2 g a b).2, h3, h4, h5⟩

/-! ### the action on fields as matrices -/

abbrev FV (I : Inst) := Fin I.n × Fin I.d → ℚ

def unc {n d : ℕ} (f : Field n d) : Fin n × Fin d → ℚ := fun p => f p.1 p.2

def actMat (I : Inst) (g : Fin I.N) : Matrix (Fin I.n × Fin I.d) (Fin I.n × Fin I.d) ℚ :=
  fun p q => if q.1 = I.perm g p.1 then I.rhoInv g p.2 q.2 else 0

noncomputable def actLin (I : Inst) (g : Fin I.N) : FV I →ₗ[ℚ] FV I := Matrix.toLin' (actMat I g)

theorem actMat_mulVec (I : Inst) (g : Fin I.N) (u : FV I) (p : Fin I.n × Fin I.d) :
    (actMat I g).mulVec u p = ∑ b, I.rhoInv g p.2 b * u (I.perm g p.1, b) := by
  unfold Matrix.mulVec dotProduct actMat
  rw [Fintype.sum_prod_type]
  simp only [ite_mul, zero_mul]
  rw [Finset.sum_eq_single (I.perm g p.1)]
  · simp
  · intro y _ hy
    simp [hy]
  · simp

theorem actLin_unc (I : Inst) (g : Fin I.N) (f : Field I.n I.d) :
    actLin I g (unc f) = unc (I.act g f) := by
  funext p
  unfold actLin
  rw [Matrix.toLin'_apply, actMat_mulVec]
  simp [unc, Inst.act, matVec, sumFin_eq]

theorem actMat_mul (I : Inst) (H : RepHyp I) (g h : Fin I.N) :
    actMat I g * actMat I h = actMat I (I.mul h g) := by
  funext p r
  rw [Matrix.mul_apply, Fintype.sum_prod_type]
  unfold actMat
  simp only
  rw [Finset.sum_eq_single (I.perm g p.1)]
  · simp only [if_true, H.hperm]
    by_cases hr : r.1 = I.perm (I.mul h g) p.1
    · simp only [hr, if_true]
      exact H.hmul g h p.2 r.2
    · simp [hr]
  · intro y _ hy
    simp [hy]
  · simp

theorem actLin_comp (I : Inst) (H : RepHyp I) (g h : Fin I.N) :
    actLin I g ∘ₗ actLin I h = actLin I (I.mul h g) := by
  unfold actLin
  rw [← Matrix.toLin'_mul, actMat_mul I H]

theorem mulRight_bijective (I : Inst) (H : RepHyp I) (g : Fin I.N) :
    Function.Bijective (fun h => I.mul h g) := by
  rw [← Finite.injective_iff_bijective]
  intro h h' hh
  exact H.hinj g h h' hh

theorem card_ne_zero (I : Inst) (H : RepHyp I) : (Fintype.card (Fin I.N) : ℚ) ≠ 0 := by
  rw [Fintype.card_fin]
  exact_mod_cast (Nat.pos_iff_ne_zero.mp H.hN)

/-! ### equivariant fields = common fixed vectors -/

/-- `v(g·s) = R_g v(s)` for every state and group operation -/
def IsEquivariant (I : Inst) (f : Field I.n I.d) : Prop :=
  ∀ g x a, f (I.perm g x) a = ∑ b, I.rho g a b * f x b

/-- the space of equivariant vector fields on the states -/
noncomputable def equivariantSpace (I : Inst) : Submodule ℚ (FV I) := fixedSpace (actLin I)

theorem unc_mem_iff (I : Inst) (f : Field I.n I.d) :
    unc f ∈ equivariantSpace I ↔ ∀ g x a, ∑ b, I.rhoInv g a b * f (I.perm g x) b = f x a := by
  unfold equivariantSpace
  rw [mem_fixedSpace]
  constructor
  · intro h g x a
    have := congrFun (h g) (x, a)
    rw [actLin_unc] at this
    simpa [unc, Inst.act, matVec, sumFin_eq] using this
  · intro h g
    rw [actLin_unc]
    funext p
    simpa [unc, Inst.act, matVec, sumFin_eq] using h g p.1 p.2

theorem matvec_assoc {d : ℕ} (A B : Fin d → Fin d → ℚ) (u : Fin d → ℚ) (a : Fin d) :
    ∑ b, A a b * ∑ c, B b c * u c = ∑ c, (∑ b, A a b * B b c) * u c := by
  simp only [Finset.mul_sum, Finset.sum_mul]
  rw [Finset.sum_comm]
  apply Finset.sum_congr rfl; intro c _
  apply Finset.sum_congr rfl; intro b _
  ring

theorem equivariant_iff (I : Inst) (H : RepHyp I) (f : Field I.n I.d) :
    unc f ∈ equivariantSpace I ↔ IsEquivariant I f := by
  rw [unc_mem_iff]
  constructor
  · intro h g x a
    have : ∑ b, I.rho g a b * f x b = ∑ b, I.rho g a b * ∑ c, I.rhoInv g b c * f (I.perm g x) c := by
      apply Finset.sum_congr rfl; intro b _; rw [h g x b]
    rw [this, matvec_assoc]
    simp [H.hinv2]
  · intro h g x a
    have : ∑ b, I.rhoInv g a b * f (I.perm g x) b = ∑ b, I.rhoInv g a b * ∑ c, I.rho g b c * f x c := by
      apply Finset.sum_congr rfl; intro b _; rw [h g x b]
    rw [this, matvec_assoc]
    simp [H.hinv1]

/-! ### dimension by the character formula -/

theorem trace_actLin (I : Inst) (g : Fin I.N) : LinearMap.trace ℚ (FV I) (actLin I g) = I.fieldTrace g := by
  unfold actLin
  rw [Matrix.trace_toLin'_eq, Matrix.trace, Fintype.sum_prod_type]
  unfold Inst.fieldTrace
  rw [sumFin_eq]
  apply Finset.sum_congr rfl; intro x _
  simp only [Matrix.diag, actMat]
  by_cases hx : I.perm g x = x
  · simp [hx, sumFin_eq]
  · have : ¬ x = I.perm g x := fun h => hx h.symm
    simp [hx, this]

theorem finrank_equivariantSpace (I : Inst) (H : RepHyp I) :
    (finrank ℚ (equivariantSpace I) : ℚ) = (I.N : ℚ)⁻¹ * I.charSum := by
  unfold equivariantSpace
  rw [char_formula (mul := fun g h => I.mul h g) (fun g h => actLin_comp I H g h)
    (fun g => mulRight_bijective I H g) (card_ne_zero I H)]
  rw [Fintype.card_fin]
  congr 1
  unfold Inst.charSum
  rw [sumFin_eq]
  apply Finset.sum_congr rfl; intro g _
  exact trace_actLin I g

theorem finrank_of_countOK (I : Inst) (H : RepHyp I) (hc : I.countOK = true) :
    finrank ℚ (equivariantSpace I) = I.m := by
  have h := finrank_equivariantSpace I H
  unfold Inst.countOK at hc
  rw [decide_eq_true_eq] at hc
  have hN : (I.N : ℚ) ≠ 0 := by exact_mod_cast (Nat.pos_iff_ne_zero.mp H.hN)
  have : (finrank ℚ (equivariantSpace I) : ℚ) = (I.m : ℚ) := by
    rw [h, ← hc]; field_simp
  exact_mod_cast this


/-! ### the average of the model is the abstract average -/

theorem avg_unc (I : Inst) (f : Field I.n I.d) : avgMap (actLin I) (unc f) = unc (I.avg f) := by
  rw [avgMap_apply]
  funext p
  simp only [actLin_unc, Pi.smul_apply, Finset.sum_apply, smul_eq_mul, Fintype.card_fin]
  simp [unc, Inst.avg, sumFin_eq]

theorem avg_mem (I : Inst) (H : RepHyp I) (f : Field I.n I.d) : unc (I.avg f) ∈ equivariantSpace I := by
  unfold equivariantSpace
  rw [← range_avgMap (mul := fun g h => I.mul h g) (fun g h => actLin_comp I H g h)
    (fun g => mulRight_bijective I H g) (card_ne_zero I H), ← avg_unc]
  exact ⟨_, rfl⟩

/-- the projection fixes equivariant fields -/
theorem avg_of_equivariant (I : Inst) (H : RepHyp I) (f : Field I.n I.d) (hf : IsEquivariant I f) :
    I.avg f = f := by
  have h1 : unc f ∈ equivariantSpace I := (equivariant_iff I H f).mpr hf
  have h2 := avgMap_apply_of_fixed (card_ne_zero I H) ((mem_fixedSpace _).mp h1)
  rw [avg_unc] at h2
  funext x a
  exact congrFun h2 (x, a)

/-! ### the inner product -/

/-- Σ over states of the dot product, as a bilinear form on fields -/
noncomputable def innerB (I : Inst) : FV I →ₗ[ℚ] FV I →ₗ[ℚ] ℚ :=
  LinearMap.mk₂ ℚ (fun u w => ∑ p, u p * w p)
    (by intro a b c; simp [add_mul, Finset.sum_add_distrib])
    (by intro c a b; simp [Finset.mul_sum, mul_assoc])
    (by intro a b c; simp [mul_add, Finset.sum_add_distrib])
    (by intro c a b; simp [Finset.mul_sum, mul_left_comm])

theorem inner_eq (I : Inst) (f h : Field I.n I.d) : inner f h = innerB I (unc f) (unc h) := by
  unfold inner innerB dotv
  rw [LinearMap.mk₂_apply, Fintype.sum_prod_type, sumFin_eq]
  apply Finset.sum_congr rfl; intro x _
  rw [sumFin_eq]
  rfl

theorem nearOrtho_sound (I : Inst) (u : Fin I.m → Field I.n I.d) (h : I.nearOrtho u = true) :
    ∀ i j, |innerB I (unc (u i)) (unc (u j)) - (if i = j then 1 else 0)| ≤ I.tol := by
  unfold Inst.nearOrtho at h
  simp only [allFin_iff, decide_eq_true_eq, absR_eq, delta_eq, inner_eq] at h
  exact h

/-! ### soundness of the checker -/

/-- Soundness of `isVectorStarBasis` (`Inst.check`).  If the checker accepts, then, with `w i = P (v i)` the
    group average of the candidate vector stars:
    * `(w i)` is a basis of the space `E` of equivariant vector fields on the states (members of `E`, linearly
      independent, spanning), and `dim E = m` — the number of vector stars is the dimension given by the
      character formula;
    * `w` is orthonormal within `tol`, and every `v i` is within `tol` (entrywise) of `w i`;
    * `v` itself is orthonormal within `tol` and equivariant within `tol`. -/
theorem isVectorStarBasis_sound (I : Inst) (h : I.check = true) :
    (∀ i, unc (I.avg (I.v i)) ∈ equivariantSpace I) ∧
    LinearIndependent ℚ (fun i => unc (I.avg (I.v i))) ∧
    Submodule.span ℚ (Set.range fun i => unc (I.avg (I.v i))) = equivariantSpace I ∧
    finrank ℚ (equivariantSpace I) = I.m ∧
    (∀ i j, |innerB I (unc (I.avg (I.v i))) (unc (I.avg (I.v j))) - (if i = j then 1 else 0)| ≤ I.tol) ∧
    (∀ i x a, |I.v i x a - I.avg (I.v i) x a| ≤ I.tol) ∧
    (∀ i j, |innerB I (unc (I.v i)) (unc (I.v j)) - (if i = j then 1 else 0)| ≤ I.tol) ∧
    (∀ g i x a, |I.v i (I.perm g x) a - ∑ b, I.rho g a b * I.v i x b| ≤ I.tol) := by
  unfold Inst.check at h
  simp only [Bool.and_eq_true] at h
  obtain ⟨⟨⟨⟨⟨⟨hrep, hsmall⟩, hov⟩, heq⟩, hclose⟩, how⟩, hcount⟩ := h
  have H := repOK_sound I hrep
  have hw : I.w = fun i => I.avg (I.v i) := by unfold Inst.w; rw [memo3_eq]
  unfold Inst.small at hsmall
  simp only [Bool.and_eq_true, decide_eq_true_eq] at hsmall
  have hmem : ∀ i, unc (I.avg (I.v i)) ∈ equivariantSpace I := fun i => avg_mem I H _
  have hgram := nearOrtho_sound I I.w how
  rw [hw] at hgram
  have hli : LinearIndependent ℚ (fun i => unc (I.avg (I.v i))) :=
    linearIndependent_of_near_orthonormal (innerB I) _ I.tol hsmall.1 hsmall.2 hgram
  have hdim := finrank_of_countOK I H hcount
  refine ⟨hmem, hli, span_eq_of_card_eq_finrank _ _ hli hmem hdim, hdim, hgram, ?_, nearOrtho_sound I I.v hov, ?_⟩
  · unfold Inst.close at hclose
    simp only [allFin_iff, decide_eq_true_eq, absR_eq] at hclose
    rw [hw] at hclose
    exact hclose
  · unfold Inst.nearEquivariant at heq
    simp only [allFin_iff, decide_eq_true_eq, absR_eq, matVec, sumFin_eq] at heq
    exact heq

/-- Exact case (`tol = 0`): the vector stars themselves form an orthonormal basis of the space of equivariant
    vector fields. -/
theorem isVectorStarBasis_sound_exact (I : Inst) (h : I.check = true) (h0 : I.tol = 0) :
    (∀ i, IsEquivariant I (I.v i)) ∧
    (∀ i j, innerB I (unc (I.v i)) (unc (I.v j)) = if i = j then 1 else 0) ∧
    LinearIndependent ℚ (fun i => unc (I.v i)) ∧
    Submodule.span ℚ (Set.range fun i => unc (I.v i)) = equivariantSpace I := by
  obtain ⟨_, hli, hspan, _, _, hclose, hov, heq⟩ := isVectorStarBasis_sound I h
  rw [h0] at hclose hov heq
  have hvw : ∀ i, I.avg (I.v i) = I.v i := by
    intro i; funext x a
    have := abs_nonpos_iff.mp (hclose i x a)
    linarith
  simp only [hvw] at hli hspan
  refine ⟨?_, ?_, hli, hspan⟩
  · intro i g x a
    have := abs_nonpos_iff.mp (heq g i x a)
    linarith
  · intro i j
    have := abs_nonpos_iff.mp (hov i j)
    linarith

/-! ### non-vacuity: a concrete instance accepted by the checker (tol = 0) -/

/-- C4 acting on the four first neighbours of the square lattice (no mirrors): two vector stars -/
def exPts : Fin 4 → Fin 2 → Rat := fun s a =>
  match s.val, a.val with
  | 0, 0 => 1 | 0, _ => 0
  | 1, 0 => 0 | 1, _ => 1
  | 2, 0 => -1 | 2, _ => 0
  | _, 0 => 0 | _, _ => -1
/-- rotation by k·90° -/
def exRot : Fin 4 → Fin 2 → Fin 2 → Rat := fun g a b =>
  match g.val, a.val, b.val with
  | 0, 0, 0 => 1 | 0, 0, _ => 0 | 0, _, 0 => 0 | 0, _, _ => 1
  | 1, 0, 0 => 0 | 1, 0, _ => -1 | 1, _, 0 => 1 | 1, _, _ => 0
  | 2, 0, 0 => -1 | 2, 0, _ => 0 | 2, _, 0 => 0 | 2, _, _ => -1
  | _, 0, 0 => 0 | _, 0, _ => 1 | _, _, 0 => -1 | _, _, _ => 0
def exInst : Inst where
  n := 4; d := 2; N := 4; m := 2
  perm := fun g s => s + g
  rho := exRot
  rhoInv := fun g => exRot (-g)
  mul := fun h g => h + g
  v := fun i s a => if i.val = 0 then exPts s a / 2 else exPts (s + 1) a / 2
  tol := 0
/-- the hypotheses of the soundness theorems are satisfiable: C4 on the square-lattice first shell, two vector
    stars (parallel and perpendicular), exact arithmetic -/
example : exInst.check = true := by decide +kernel

example : Submodule.span ℚ (Set.range fun i => unc (exInst.v i)) = equivariantSpace exInst :=
  (isVectorStarBasis_sound_exact exInst (by decide +kernel) rfl).2.2.2

end Onsager.C25
