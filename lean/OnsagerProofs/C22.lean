/-
  C22 — theorems about the k-mesh model (OnsagerModel/C22.lean).

  Brillouin zone:
  * `closer_iff_nearest`   `2 q·G ≤ G·G  ↔  |q|² ≤ |q − G|²`
  * `inBZ_sound`           the checker `inBZ` (finite enumeration in the dual box for the radius 2|q|)
                           implies `2 q·G ≤ G·G` for EVERY reciprocal lattice vector (unbounded) —
                           Cauchy–Schwarz for the far vectors, box completeness for the near ones
  Reduction (for an arbitrary matching relation that is an equivalence, then for `isImage ops`):
  * `reduce_weights`       counts are positive, sum to the number of mesh points, every mesh point
                           matches exactly one representative, representatives are pairwise inequivalent
  * `reduced_average_eq_full`  Σ wᵢ f(kᵢ) = N⁻¹ Σ f(k) for every invariant `f` — no periodicity or
                           mesh-closure assumption
  * `matGroupCheck_equiv`  the executable group check makes `isImage ops` an equivalence relation
  * `isImage_norm`         images have the same length (the shell restriction of the source loses nothing)
-/
import OnsagerModel.C22
import OnsagerProofs.C21

namespace Onsager.C22
open Onsager.Geom Finset

variable {d : Nat}

/-! ### Brillouin zone -/

theorem closer_iff_nearest (h : QM d) (hs : isSymm h = true) (q : QV d) (n : ZV d) :
    2 * qform h q (zq n) ≤ norm2 h (zq n) ↔
      norm2 h q ≤ norm2 h (vof fun k => q.get k - (zq n).get k) := by
  rw [isSymm_iff] at hs
  simp only [norm2_eq, qform_eq]
  have hx : (vof fun k => q.get k - (zq n).get k).get = fun k => 1 * q.get k + (-1) * (zq n).get k := by
    funext k; simp only [get_ofFn]; ring
  rw [hx, C21.B_lin2, B_symm (ent h) hs (zq n).get q.get]
  constructor <;> intro hh <;> linarith

/-- **the BZ checker is sound for all reciprocal lattice vectors** -/
theorem inBZ_sound (g h : QM d) (hs : isSymm h = true) (hinv : isInverse h g = true) (hp : PSD h)
    (q : QV d) (hin : inBZ g h q = true) (n : ZV d) :
    2 * qform h q (zq n) ≤ norm2 h (zq n) := by
  have hqq : 0 ≤ norm2 h q := by rw [norm2_eq]; exact hp _
  by_cases hnear : norm2 h (zq n) < 5 * norm2 h q
  · -- near vectors are in the enumerated box
    have hbox : inBox (bzBox g h q) n = true := by
      apply boxB_complete 2 h g hs hinv hp (5 * norm2 h q) (by linarith) n (vof fun _ => 0)
      · intro k; simp
      · have : (vof fun k => (n.get k : ℚ) + (vof fun _ => (0 : ℚ)).get k) = zq n := by
          apply vext; intro k; simp [zq]
        rw [this]; exact hnear
    simp only [inBZ, List.all_eq_true] at hin
    have := hin n ((mem_boxVecs _ _).mpr hbox)
    simpa [closerTo0] using this
  · -- far vectors: Cauchy–Schwarz
    rw [not_lt] at hnear
    rw [isSymm_iff] at hs
    simp only [norm2_eq, qform_eq] at hnear hqq ⊢
    set a := B (ent h) q.get q.get
    set b := B (ent h) q.get (zq n).get
    set c := B (ent h) (zq n).get (zq n).get
    have hcs : b * b ≤ a * c := cauchy_schwarz (ent h) hs hp q.get (zq n).get
    have hc : 0 ≤ c := hp _
    by_contra hcon
    rw [not_le] at hcon
    have hb : 0 < b := by linarith
    nlinarith

/-! ### the reduction loop, for an abstract equivalence `m` -/

section Reduce
variable {α : Type} (m : α → α → Bool)

/-- `m` is an equivalence relation -/
structure IsEquiv : Prop where
  refl : ∀ x, m x x = true
  symm : ∀ x y, m x y = true → m y x = true
  trans : ∀ x y z, m x y = true → m y z = true → m x z = true

/-- weighted sum of `f` over the representatives -/
def wsum (f : α → ℚ) (acc : List (α × Nat)) : ℚ := (acc.map fun e => (e.2 : ℚ) * f e.1).sum

def total (acc : List (α × Nat)) : Nat := (acc.map fun e => e.2).sum

/-- number of representatives matching `k` -/
def nmatch (acc : List (α × Nat)) (k : α) : Nat := (acc.filter fun e => m e.1 k).length

/-- invariant of the loop -/
structure RInv (pts : List α) (acc : List (α × Nat)) : Prop where
  pair : acc.Pairwise fun e e' => m e.1 e'.1 = false
  pos : ∀ e ∈ acc, 0 < e.2
  tot : total acc = pts.length
  cover : ∀ k ∈ pts, nmatch m acc k = 1
  rep : ∀ e ∈ acc, e.1 ∈ pts
  avg : ∀ f : α → ℚ, (∀ x y, m x y = true → f x = f y) → wsum f acc = (pts.map f).sum

variable {m}

theorem nmatch_le_one (E : IsEquiv m) (acc : List (α × Nat))
    (hp : acc.Pairwise fun e e' => m e.1 e'.1 = false) (k : α) : nmatch m acc k ≤ 1 := by
  unfold nmatch
  induction acc with
  | nil => simp
  | cons e acc ih =>
    rw [List.pairwise_cons] at hp
    simp only [List.filter_cons]
    split
    · rename_i he
      have : acc.filter (fun e => m e.1 k) = [] := by
        rw [List.filter_eq_nil_iff]
        intro e' he' hm
        have := hp.1 e' he'
        have h2 : m e.1 e'.1 = true := E.trans _ _ _ he (E.symm _ _ hm)
        rw [this] at h2; exact Bool.false_ne_true h2
      simp [this]
    · exact ih hp.2

theorem map_incr_sum (f : α → ℚ) (acc : List (α × Nat)) (k : α) (hf : ∀ x y, m x y = true → f x = f y) :
    wsum f (acc.map fun e => if m e.1 k then (e.1, e.2 + 1) else e) = wsum f acc + (nmatch m acc k : ℚ) * f k := by
  unfold wsum nmatch
  induction acc with
  | nil => simp
  | cons e acc ih =>
    simp only [List.map_cons, List.sum_cons, List.filter_cons]
    rw [ih]
    by_cases he : m e.1 k = true
    · simp only [he, if_true, List.length_cons]
      rw [hf e.1 k he]; push_cast; ring
    · have he' : m e.1 k = false := by simpa using he
      simp only [he', Bool.false_eq_true, if_false]; ring

theorem map_incr_total (acc : List (α × Nat)) (k : α) :
    total (acc.map fun e => if m e.1 k then (e.1, e.2 + 1) else e) = total acc + nmatch m acc k := by
  unfold total nmatch
  induction acc with
  | nil => simp
  | cons e acc ih =>
    simp only [List.map_cons, List.sum_cons, List.filter_cons]
    rw [ih]
    by_cases he : m e.1 k = true
    · simp only [he, if_true, List.length_cons]; omega
    · have he' : m e.1 k = false := by simpa using he
      simp only [he', Bool.false_eq_true, if_false]; omega

theorem nmatch_map_incr (acc : List (α × Nat)) (k k' : α) :
    nmatch m (acc.map fun e => if m e.1 k then (e.1, e.2 + 1) else e) k' = nmatch m acc k' := by
  unfold nmatch
  induction acc with
  | nil => simp
  | cons e acc ih =>
    simp only [List.map_cons, List.filter_cons]
    have hfst : (if m e.1 k = true then (e.1, e.2 + 1) else e).1 = e.1 := by split <;> rfl
    rw [hfst]
    by_cases he : m e.1 k' = true
    · simp only [he, if_true, List.length_cons, ih]
    · have he' : m e.1 k' = false := by simpa using he
      simp only [he', Bool.false_eq_true, if_false, ih]

theorem reduceStep_inv (E : IsEquiv m) (pts : List α) (acc : List (α × Nat)) (k : α)
    (I : RInv m pts acc) : RInv m (pts ++ [k]) (reduceStep m acc k) := by
  unfold reduceStep
  by_cases hany : acc.any (fun e => m e.1 k) = true
  · -- `k` matches a representative: exactly one
    simp only [hany, if_true]
    have h1 : nmatch m acc k = 1 := by
      have hle := nmatch_le_one E acc I.pair k
      have : 0 < nmatch m acc k := by
        unfold nmatch
        rw [List.length_pos_iff_exists_mem]
        obtain ⟨e, he, hm⟩ := List.any_eq_true.mp hany
        exact ⟨e, List.mem_filter.mpr ⟨he, hm⟩⟩
      omega
    refine ⟨?_, ?_, ?_, ?_, ?_, ?_⟩
    · rw [List.pairwise_map]
      refine I.pair.imp ?_
      intro e e' h
      by_cases h1 : m e.1 k = true <;> by_cases h2 : m e'.1 k = true <;> simp [h1, h2, h]
    · intro e he
      obtain ⟨e0, he0, rfl⟩ := List.mem_map.mp he
      have := I.pos e0 he0
      split <;> simp <;> omega
    · rw [map_incr_total, I.tot, h1]; simp
    · intro k' hk'
      rw [nmatch_map_incr]
      rw [List.mem_append, List.mem_singleton] at hk'
      rcases hk' with hk' | rfl
      · exact I.cover k' hk'
      · exact h1
    · intro e he
      obtain ⟨e0, he0, rfl⟩ := List.mem_map.mp he
      have := I.rep e0 he0
      split <;> simp [this]
    · intro f hf
      rw [map_incr_sum f acc k hf, I.avg f hf, h1]
      simp
  · -- new representative
    rw [if_neg hany]
    simp only [Bool.not_eq_true, List.any_eq_false] at hany
    have h0 : nmatch m acc k = 0 := by
      unfold nmatch
      rw [List.length_eq_zero_iff, List.filter_eq_nil_iff]
      intro e he; simpa using hany e he
    refine ⟨?_, ?_, ?_, ?_, ?_, ?_⟩
    · rw [List.pairwise_append]
      refine ⟨I.pair, by simp, ?_⟩
      intro e he e' he'
      rw [List.mem_singleton] at he'; subst he'
      simpa using hany e he
    · intro e he
      rw [List.mem_append, List.mem_singleton] at he
      rcases he with he | rfl
      · exact I.pos e he
      · simp
    · have := I.tot
      simp only [total, List.map_append, List.sum_append, List.length_append] at this ⊢
      rw [this]; simp
    · intro k' hk'
      rw [List.mem_append, List.mem_singleton] at hk'
      unfold nmatch
      rw [List.filter_append, List.length_append]
      rcases hk' with hk' | rfl
      · have := I.cover k' hk'
        unfold nmatch at this
        rw [this]
        -- the new representative `k` does not match an already covered point
        have hk : m k k' = false := by
          by_contra hc
          simp only [Bool.not_eq_false] at hc
          have h1 : nmatch m acc k' = 1 := I.cover k' hk'
          have : 0 < nmatch m acc k' := by omega
          unfold nmatch at this
          obtain ⟨e, he⟩ := List.length_pos_iff_exists_mem.mp this
          obtain ⟨he1, he2⟩ := List.mem_filter.mp he
          have := hany e he1
          have h3 : m e.1 k = true := E.trans _ _ _ he2 (E.symm _ _ hc)
          simp [h3] at this
        simp [hk]
      · unfold nmatch at h0
        rw [h0]; simp [E.refl]
    · intro e he
      rw [List.mem_append, List.mem_singleton] at he
      rcases he with he | rfl
      · exact List.mem_append_left _ (I.rep e he)
      · simp
    · intro f hf
      have := I.avg f hf
      simp only [wsum, List.map_append, List.sum_append] at this ⊢
      rw [this]; simp

theorem reduceGen_inv (E : IsEquiv m) (pts : List α) : RInv m pts (reduceGen m pts) := by
  unfold reduceGen
  suffices h : ∀ (rest done : List α) (acc : List (α × Nat)), RInv m done acc →
      RInv m (done ++ rest) (rest.foldl (reduceStep m) acc) by
    simpa using h pts [] [] ⟨by simp, by simp, by simp [total], by simp, by simp, by intro f _; simp [wsum]⟩
  intro rest
  induction rest with
  | nil => intro done acc I; simpa using I
  | cons k rest ih =>
    intro done acc I
    simp only [List.foldl_cons]
    have := ih (done ++ [k]) _ (reduceStep_inv E done acc k I)
    simpa [List.append_assoc] using this

/-- **reduce_weights**: positive counts summing to the number of points; every point of the full
    mesh matches exactly one representative; representatives are mesh points, pairwise inequivalent. -/
theorem reduce_weights (E : IsEquiv m) (pts : List α) :
    (∀ e ∈ reduceGen m pts, 0 < e.2) ∧ total (reduceGen m pts) = pts.length ∧
    (∀ k ∈ pts, nmatch m (reduceGen m pts) k = 1) ∧ (∀ e ∈ reduceGen m pts, e.1 ∈ pts) ∧
    (reduceGen m pts).Pairwise (fun e e' => m e.1 e'.1 = false) :=
  let I := reduceGen_inv E pts
  ⟨I.pos, I.tot, I.cover, I.rep, I.pair⟩

/-- **reduced_average_eq_full**: with weights `wᵢ = countᵢ / N` the reduced mesh gives exactly the
    full-mesh average of every function that is constant on equivalence classes. -/
theorem reduced_average_eq_full (E : IsEquiv m) (pts : List α) (hne : pts ≠ [])
    (f : α → ℚ) (hf : ∀ x y, m x y = true → f x = f y) :
    ((reduceGen m pts).map fun e => ((e.2 : ℚ) / pts.length) * f e.1).sum = (pts.map f).sum / pts.length := by
  have h := (reduceGen_inv E pts).avg f hf
  have hN : (pts.length : ℚ) ≠ 0 := by
    have : 0 < pts.length := List.length_pos_iff.mpr hne
    exact_mod_cast this.ne'
  rw [← h, wsum]
  generalize reduceGen m pts = acc
  induction acc with
  | nil => simp
  | cons e acc ih =>
    simp only [List.map_cons, List.sum_cons, ih]
    field_simp

end Reduce

/-! ### the matching relation of the source: `k` is the image of a stored representative -/

theorem actQ_zmul (A Bm : ZM d) (q : QV d) : actQ (zmul A Bm) q = actQ A (actQ Bm q) := by
  apply vext; intro i
  simp only [actQ, C21.zqmulVec_get, zmul, ent, get_ofFn, sumZ_eq, mul_sum]
  push_cast
  simp only [sum_mul]
  rw [sum_comm]
  exact sum_congr rfl fun j _ => sum_congr rfl fun k _ => by ring

theorem actQ_one (q : QV d) : actQ C21.oneZ q = q := by
  apply vext; intro i
  simp [actQ, C21.zqmulVec_get, C21.oneZ, ent]

/-- the executable group check makes "is an image of" an equivalence relation -/
theorem matGroupCheck_equiv (ops : List (ZM d)) (h : matGroupCheck ops = true) : IsEquiv (isImage ops) := by
  simp only [matGroupCheck, Bool.and_eq_true, List.all_eq_true, List.any_eq_true, decide_eq_true_eq] at h
  obtain ⟨⟨hmul, hone⟩, hinv⟩ := h
  refine ⟨?_, ?_, ?_⟩
  · intro x
    obtain ⟨E, hE, rfl⟩ := hone
    exact List.any_eq_true.mpr ⟨_, hE, by simp [actQ_one]⟩
  · intro x y hxy
    obtain ⟨A, hA, hAx⟩ := List.any_eq_true.mp hxy
    obtain ⟨Bm, hB, hBA⟩ := hinv A hA
    refine List.any_eq_true.mpr ⟨Bm, hB, ?_⟩
    simp only [decide_eq_true_eq] at hAx ⊢
    rw [← hAx, ← actQ_zmul, hBA, actQ_one]
  · intro x y z hxy hyz
    obtain ⟨A, hA, hAx⟩ := List.any_eq_true.mp hxy
    obtain ⟨Bm, hB, hBy⟩ := List.any_eq_true.mp hyz
    obtain ⟨C, hC, rfl⟩ := hmul Bm hB A hA
    refine List.any_eq_true.mpr ⟨_, hC, ?_⟩
    simp only [decide_eq_true_eq] at hAx hBy ⊢
    rw [actQ_zmul, hAx, hBy]

/-- images have the same length: matching only inside a shell of equal |k| (as the source does)
    loses nothing -/
theorem isImage_norm (cr : KCrystal d) (hv : cr.valid = true) (r k : QV d) (h : isImage cr.ops r k = true) :
    norm2 cr.h k = norm2 cr.h r := by
  simp only [KCrystal.valid, Bool.and_eq_true, List.all_eq_true, decide_eq_true_eq] at hv
  obtain ⟨R, hR, hk⟩ := List.any_eq_true.mp h
  simp only [decide_eq_true_eq] at hk
  rw [← hk]
  exact C21.qform_rot cr.h R (hv.2 R hR) r r

/-- a function of `q` is invariant under the operations -/
def Invariant (ops : List (ZM d)) (f : QV d → ℚ) : Prop := ∀ R ∈ ops, ∀ q, f (actQ R q) = f q

theorem invariant_const_on_images (ops : List (ZM d)) (f : QV d → ℚ) (hf : Invariant ops f) :
    ∀ x y, isImage ops x y = true → f x = f y := by
  intro x y h
  obtain ⟨R, hR, hk⟩ := List.any_eq_true.mp h
  simp only [decide_eq_true_eq] at hk
  rw [← hk, hf R hR]

/-- C22, reduction clause at full strength for the model: for an operation list that passes the
    group check, any list of mesh points (no closure or periodicity assumption) and any invariant
    function, the reduced mesh has positive weights `count/N` summing to one and reproduces the
    full-mesh average exactly. -/
theorem C22_reduce (ops : List (ZM d)) (hg : matGroupCheck ops = true) (pts : List (QV d)) (hne : pts ≠ [])
    (f : QV d → ℚ) (hf : Invariant ops f) :
    (∀ e ∈ reduceMesh ops pts, 0 < (e.2 : ℚ) / pts.length) ∧
    ((reduceMesh ops pts).map fun e => (e.2 : ℚ) / pts.length).sum = 1 ∧
    ((reduceMesh ops pts).map fun e => ((e.2 : ℚ) / pts.length) * f e.1).sum = (pts.map f).sum / pts.length ∧
    (∀ k ∈ pts, nmatch (isImage ops) (reduceMesh ops pts) k = 1) := by
  have E := matGroupCheck_equiv ops hg
  obtain ⟨hpos, htot, hcov, _, _⟩ := reduce_weights E pts
  have hN : (0 : ℚ) < pts.length := by
    have : 0 < pts.length := List.length_pos_iff.mpr hne
    exact_mod_cast this
  refine ⟨?_, ?_, reduced_average_eq_full E pts hne f (invariant_const_on_images ops f hf), hcov⟩
  · intro e he
    have := hpos e he
    exact div_pos (by exact_mod_cast this) hN
  · have h1 := reduced_average_eq_full E pts hne (fun _ => 1) (fun _ _ _ => rfl)
    simp only [mul_one, List.map_const', List.sum_replicate, nsmul_eq_mul, mul_one] at h1
    rw [show reduceMesh ops pts = reduceGen (isImage ops) pts from rfl, h1]
    exact div_self hN.ne'

/-- the BZ clause for the model: a point accepted by the checker is at least as close to the origin
    as to every reciprocal lattice point -/
theorem C22_inBZ (cr : KCrystal d) (hv : cr.valid = true) (q : QV d) (hin : inBZ cr.g cr.h q = true) (n : ZV d) :
    norm2 cr.h q ≤ norm2 cr.h (vof fun k => q.get k - (zq n).get k) := by
  simp only [KCrystal.valid, Bool.and_eq_true] at hv
  obtain ⟨⟨⟨hs, hi⟩, hp⟩, _⟩ := hv
  rw [← closer_iff_nearest cr.h hs]
  exact inBZ_sound cr.g cr.h hs hi (psdCert_sound _ _ _ hp) q hin n

/-! ### non-vacuity -/

section Example

/-- 2-D square reciprocal lattice with the point group 4mm -/
def exK : KCrystal 2 :=
  { g := ofListQM [[1, 0], [0, 1]], h := ofListQM [[1, 0], [0, 1]],
    ldlM := ofListQM [[1, 0], [0, 1]], ldlD := ofListQ [1, 1],
    ops := [[[1, 0], [0, 1]], [[0, -1], [1, 0]], [[-1, 0], [0, -1]], [[0, 1], [-1, 0]],
            [[1, 0], [0, -1]], [[-1, 0], [0, 1]], [[0, 1], [1, 0]], [[0, -1], [-1, 0]]].map ofListZM }

/-- the 3×3 mesh -/
def exPts : List (QV 2) := [[0, 0], [1/3, 0], [-1/3, 0], [0, 1/3], [0, -1/3], [1/3, 1/3], [1/3, -1/3], [-1/3, 1/3], [-1/3, -1/3]].map ofListQ

example : exK.valid = true := by decide +kernel
example : matGroupCheck exK.ops = true := by decide +kernel
example : exPts.all (inBZ exK.g exK.h) = true := by decide +kernel
example : inBZ exK.g exK.h (ofListQ [2/3, 0]) = false := by decide +kernel
example : (reduceMesh exK.ops exPts).map (·.2) = [1, 4, 4] := by decide +kernel

end Example

end Onsager.C22
