/-
  C08 — algebra of the large-omega2 branch as implemented after /repo f44b925 / 51a77fd.

  `g`  : Green function after the omega1 (and near-null omega2) update, n × n
  `U`  : non-null eigenvectors of the exchange block, n × k          (om2 = U w Uᵀ + small part)
  `w`  : their eigenvalues (k × k, only `winv * w = 1`, `w * winv = 1` are used)
  `M`  : (w⁻¹ + Uᵀ g U)⁻¹, given by its two defining equations
  `X := g − g U M Uᵀ g`   (the code's `Gfull`),  `C := g U M w⁻¹`,  `R := −(w + w (Uᵀ g U) w)⁻¹`

  Everything the branch uses is an exact identity, for any sizes n, k and any commutative ring:
  * `woodbury_update`   X (1 + U w Uᵀ g) = g            (X is the standard Dyson update `(1 + g om2)⁻¹ g`, transposed form)
  * `woodbury_update'`  (1 + g U w Uᵀ) X = g
  * `X_U`               X U = g U M w⁻¹ = C              (order 1/w, closed form)
  * `Ut_X`              w Uᵀ X = M Uᵀ g                   (so `w Cᵀ` is of order 1)
  * `R_closed`          (Uᵀ X U − w⁻¹)(w + w (Uᵀ g U) w) = −1   (the replaced block, closed form)
  * `dgd_core`          −U w Uᵀ + U w Uᵀ X U w Uᵀ = −U M Uᵀ     (terms of order w cancel exactly)
  * `X_W`               X U w Uᵀ = g U M Uᵀ
  * `one_sub_WX`        b − U w Uᵀ X b = b − U (M Uᵀ g b)         (used for (1 + dgd G0) b in 6c)
  * `Ut_Grepl`          Uᵀ (X − U w⁻¹ Uᵀ)(U bn + bq) = (Uᵀ X U − w⁻¹) bn + Uᵀ X bq   when UᵀU = 1, Uᵀ bq = 0
-/
import Mathlib.Data.Matrix.Mul
import Mathlib.Tactic.Ring
import Mathlib.Tactic.NoncommRing

namespace Onsager.C08

open Matrix

variable {n k : Type} [Fintype n] [DecidableEq n] [Fintype k] [DecidableEq k] {K : Type} [CommRing K]

section
variable (g : Matrix n n K) (U : Matrix n k K) (w winv M : Matrix k k K)

/-- the code's `Gfull` in the large-omega2 branch -/
def X : Matrix n n K := g - g * U * M * Uᵀ * g

variable {g U w winv M}

/-! Hypotheses in "acting on an arbitrary right factor" form, for fully right-associated normal forms. -/

theorem MA_act {p : Type} [Fintype p] (hM : M * (winv + Uᵀ * g * U) = 1) (Z : Matrix k p K) :
    M * (Uᵀ * (g * (U * Z))) = Z - M * (winv * Z) := by
  have h : (M * (winv + Uᵀ * g * U)) * Z = Z := by rw [hM, Matrix.one_mul]
  simp only [Matrix.mul_add, Matrix.add_mul, Matrix.mul_assoc] at h
  exact eq_sub_of_add_eq' h

theorem AM_act {p : Type} [Fintype p] (hM' : (winv + Uᵀ * g * U) * M = 1) (Z : Matrix k p K) :
    Uᵀ * (g * (U * (M * Z))) = Z - winv * (M * Z) := by
  have h : ((winv + Uᵀ * g * U) * M) * Z = Z := by rw [hM', Matrix.one_mul]
  simp only [Matrix.add_mul, Matrix.mul_assoc] at h
  exact eq_sub_of_add_eq' h

theorem w_act {p : Type} [Fintype p] (hw : w * winv = 1) (Z : Matrix k p K) : w * (winv * Z) = Z := by
  rw [← Matrix.mul_assoc, hw, Matrix.one_mul]

theorem winv_act {p : Type} [Fintype p] (hw' : winv * w = 1) (Z : Matrix k p K) : winv * (w * Z) = Z := by
  rw [← Matrix.mul_assoc, hw', Matrix.one_mul]

theorem MA0 (hM : M * (winv + Uᵀ * g * U) = 1) : M * (Uᵀ * (g * U)) = 1 - M * winv := by
  have := MA_act (p := k) hM (1 : Matrix k k K)
  simpa only [Matrix.mul_one] using this

theorem AM0 (hM' : (winv + Uᵀ * g * U) * M = 1) : Uᵀ * (g * (U * M)) = 1 - winv * M := by
  have := AM_act (p := k) hM' (1 : Matrix k k K)
  simpa only [Matrix.mul_one] using this

/-- normal form: distribute, right-associate -/
macro "mat_nf" : tactic =>
  `(tactic| simp only [Matrix.mul_sub, Matrix.sub_mul, Matrix.mul_add, Matrix.add_mul, Matrix.mul_one, Matrix.one_mul,
      Matrix.mul_neg, Matrix.neg_mul, Matrix.mul_assoc, Matrix.mul_zero, Matrix.zero_mul])

theorem X_U (hM : M * (winv + Uᵀ * g * U) = 1) : X g U M * U = g * U * M * winv := by
  unfold X
  simp only [MA_act hM, MA0 hM,
      Matrix.mul_sub, Matrix.sub_mul, Matrix.mul_add, Matrix.add_mul, Matrix.mul_one, Matrix.one_mul,
      Matrix.mul_neg, Matrix.neg_mul, Matrix.mul_assoc, Matrix.mul_zero, Matrix.zero_mul]
  abel

theorem Ut_X (hM' : (winv + Uᵀ * g * U) * M = 1) (hw : w * winv = 1) :
    w * Uᵀ * X g U M = M * Uᵀ * g := by
  unfold X
  simp only [AM_act hM', AM0 hM', w_act hw, hw,
      Matrix.mul_sub, Matrix.sub_mul, Matrix.mul_add, Matrix.add_mul, Matrix.mul_one, Matrix.one_mul,
      Matrix.mul_neg, Matrix.neg_mul, Matrix.mul_assoc, Matrix.mul_zero, Matrix.zero_mul]
  abel

theorem woodbury_update (hM : M * (winv + Uᵀ * g * U) = 1) (hw' : winv * w = 1) :
    X g U M * (1 + U * w * Uᵀ * g) = g := by
  unfold X
  simp only [MA_act hM, MA0 hM, winv_act hw', hw',
      Matrix.mul_sub, Matrix.sub_mul, Matrix.mul_add, Matrix.add_mul, Matrix.mul_one, Matrix.one_mul,
      Matrix.mul_neg, Matrix.neg_mul, Matrix.mul_assoc, Matrix.mul_zero, Matrix.zero_mul]
  abel

theorem woodbury_update' (hM' : (winv + Uᵀ * g * U) * M = 1) (hw : w * winv = 1) :
    (1 + g * U * w * Uᵀ) * X g U M = g := by
  unfold X
  simp only [AM_act hM', AM0 hM', w_act hw, hw,
      Matrix.mul_sub, Matrix.sub_mul, Matrix.mul_add, Matrix.add_mul, Matrix.mul_one, Matrix.one_mul,
      Matrix.mul_neg, Matrix.neg_mul, Matrix.mul_assoc, Matrix.mul_zero, Matrix.zero_mul]
  abel

theorem X_W (hM : M * (winv + Uᵀ * g * U) = 1) (hw' : winv * w = 1) :
    X g U M * (U * w * Uᵀ) = g * U * M * Uᵀ := by
  unfold X
  simp only [MA_act hM, MA0 hM, winv_act hw', hw',
      Matrix.mul_sub, Matrix.sub_mul, Matrix.mul_add, Matrix.add_mul, Matrix.mul_one, Matrix.one_mul,
      Matrix.mul_neg, Matrix.neg_mul, Matrix.mul_assoc, Matrix.mul_zero, Matrix.zero_mul]
  abel

theorem R_closed (hM : M * (winv + Uᵀ * g * U) = 1) (hM' : (winv + Uᵀ * g * U) * M = 1)
    (hw : w * winv = 1) (hw' : winv * w = 1) :
    (Uᵀ * X g U M * U - winv) * (w + w * (Uᵀ * g * U) * w) = -1 := by
  have hXU := X_U (g := g) (U := U) (winv := winv) hM
  have e1 : Uᵀ * X g U M * U = Uᵀ * (g * (U * (M * winv))) := by
    rw [Matrix.mul_assoc, hXU]; simp only [Matrix.mul_assoc]
  rw [e1, AM_act hM']
  -- (winv - winv M winv - winv) (w + w A w) = - winv M winv w (1 + A w) = - winv M (winv + A) w = -1
  have e2 : w + w * (Uᵀ * g * U) * w = w * ((winv + Uᵀ * g * U) * w) := by
    simp only [w_act hw, Matrix.mul_add, Matrix.add_mul, Matrix.mul_assoc]
  rw [e2]
  have e3 : winv - winv * (M * winv) - winv = -(winv * (M * winv)) := by abel
  rw [e3]
  calc -(winv * (M * winv)) * (w * ((winv + Uᵀ * g * U) * w))
      = -(winv * (M * (winv * (w * ((winv + Uᵀ * g * U) * w))))) := by
        simp only [Matrix.neg_mul, Matrix.mul_assoc]
    _ = -(winv * ((M * (winv + Uᵀ * g * U)) * w)) := by
        rw [winv_act hw']; simp only [Matrix.mul_assoc]
    _ = -1 := by rw [hM, Matrix.one_mul, hw']

theorem dgd_core (hM : M * (winv + Uᵀ * g * U) = 1) (hM' : (winv + Uᵀ * g * U) * M = 1)
    (hw : w * winv = 1) (hw' : winv * w = 1) :
    -(U * w * Uᵀ) + (U * w * Uᵀ) * X g U M * (U * w * Uᵀ) = -(U * M * Uᵀ) := by
  have h1 := X_W (g := g) (U := U) (w := w) (winv := winv) (M := M) hM hw'
  rw [Matrix.mul_assoc (U * w * Uᵀ), h1]
  simp only [AM_act hM', AM0 hM', w_act hw, hw, Matrix.mul_sub, Matrix.sub_mul, Matrix.mul_add, Matrix.add_mul, Matrix.mul_one, Matrix.one_mul,
      Matrix.mul_neg, Matrix.neg_mul, Matrix.mul_assoc, Matrix.mul_zero, Matrix.zero_mul]
  abel

theorem one_sub_WX (hM' : (winv + Uᵀ * g * U) * M = 1) (hw : w * winv = 1) (b : Matrix n (Fin 1) K) :
    b - (U * w * Uᵀ) * X g U M * b = b - U * (M * Uᵀ * g * b) := by
  have h := Ut_X (g := g) (U := U) (w := w) (winv := winv) (M := M) hM' hw
  have : (U * w * Uᵀ) * X g U M * b = U * ((w * Uᵀ * X g U M) * b) := by simp only [Matrix.mul_assoc]
  rw [this, h]

theorem Ut_Grepl (hU : Uᵀ * U = 1) (bn : Matrix k (Fin 1) K) (bq : Matrix n (Fin 1) K) (hq : Uᵀ * bq = 0) :
    Uᵀ * ((X g U M - U * winv * Uᵀ) * (U * bn + bq))
      = (Uᵀ * X g U M * U - winv) * bn + Uᵀ * X g U M * bq := by
  have hUa : ∀ Z : Matrix k (Fin 1) K, Uᵀ * (U * Z) = Z := by
    intro Z; rw [← Matrix.mul_assoc, hU, Matrix.one_mul]
  generalize X g U M = Y
  simp only [hUa, hq, Matrix.mul_sub, Matrix.sub_mul, Matrix.mul_add, Matrix.add_mul, Matrix.mul_one, Matrix.one_mul,
      Matrix.mul_neg, Matrix.neg_mul, Matrix.mul_assoc, Matrix.mul_zero, Matrix.zero_mul]
  abel

end

end Onsager.C08
