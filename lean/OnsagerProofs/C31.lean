/-
  C31 — theorems about the cluster model (OnsagerModel/C31.lean).

  Identity of clusters:
  * `mk'_translate`            the constructor returns the *same* cluster for a translated site list
                               (so equality and hash are translation invariant by construction)
  * `keyed_translate_perm`     the entries of the equality map of two stored clusters that agree up to a
                               lattice translation and a permutation of the non-special sites are a permutation
                               of each other
  * `hashWith_perm`, `hash_of_translate_perm`   … hence equal XOR hashes, for every entry hash
  * `eqv_map_of_translate_perm`                 … hence the equality-map test of `__eq__` succeeds
  * `hash_respects_eq`         `__eq__` ⇒ equal hash for duplicate-free clusters
  * `ts_eq_not_geometric_witness`  without a mark on the transition pair `__eq__` identifies two
                               geometrically different TS clusters (kernel-checked); with the mark it does not
  Enumeration:
  * `mem_neighbours_complete`  with a box passing `boxOK` the neighbour table contains every site within the cutoff
  * `clique_growth`            every valid cluster of size k+1 is a valid cluster of size k plus a common neighbour
-/
import OnsagerModel.C31
import OnsagerProofs.C21
import Mathlib.Data.List.Perm.Basic
import Mathlib.Data.List.Perm.Subperm

namespace Onsager.C31
open Onsager.Geom

variable {d : Nat}

theorem Site.ext' {a b : Site d} (h1 : a.c = b.c) (h2 : a.i = b.i) (h3 : ∀ k, a.R.get k = b.R.get k) : a = b := by
  cases a; cases b; simp only at h1 h2 h3; subst h1; subst h2
  have := vext h3; subst this; rfl

/-! ### hash -/

theorem xor_fold_perm {α : Type} (hk : α → Nat) {l1 l2 : List α} (h : l1.Perm l2) :
    (l1.map hk).foldl Nat.xor 0 = (l2.map hk).foldl Nat.xor 0 := by
  apply List.Perm.foldl_eq' (h.map hk)
  intro x _ y _ z
  show Nat.xor (Nat.xor z x) y = Nat.xor (Nat.xor z y) x
  change (z ^^^ x) ^^^ y = (z ^^^ y) ^^^ x
  rw [Nat.xor_assoc, Nat.xor_comm x y, ← Nat.xor_assoc]

/-- equal entry multisets ⇒ equal hash, whatever the hash of one entry is -/
theorem hashWith_perm (mt : Bool) (hk : Key × ZV d → Nat) (a b : Cluster d) (h : (a.keyed mt).Perm (b.keyed mt)) :
    a.hashWith mt hk = b.hashWith mt hk := xor_fold_perm hk h

/-! ### translation invariance of the constructor -/

theorem keyLe_addR (a b : Site d) (t t' : ZV d) : keyLe (addR a t) (addR b t') = keyLe a b := rfl

theorem insertSite_map (t : ZV d) (s : Site d) (l : List (Site d)) :
    insertSite (addR s t) (l.map fun x => addR x t) = (insertSite s l).map fun x => addR x t := by
  induction l with
  | nil => rfl
  | cons a l ih =>
    by_cases h : keyLe a s = true
    · simp only [List.map_cons, insertSite, keyLe_addR, h, if_true, ih]
    · simp only [List.map_cons, insertSite, keyLe_addR, h]; rfl

theorem sortSites_map (t : ZV d) (l : List (Site d)) :
    sortSites (l.map fun x => addR x t) = (sortSites l).map fun x => addR x t := by
  unfold sortSites
  suffices h : ∀ acc : List (Site d),
      List.foldl (fun acc s => insertSite s acc) (acc.map fun x => addR x t) (l.map fun x => addR x t)
        = (List.foldl (fun acc s => insertSite s acc) acc l).map fun x => addR x t by
    simpa using h []
  induction l with
  | nil => intro acc; rfl
  | cons a l ih =>
    intro acc
    simp only [List.map_cons, List.foldl_cons, insertSite_map, ih]

theorem subR_addR (s : Site d) (t r : ZV d) :
    subR (addR s t) (vof fun k => r.get k + t.get k) = subR s r := by
  refine Site.ext' ?_ ?_ ?_
  · rfl
  · rfl
  · intro k; simp only [subR, addR, get_ofFn]; omega

/-- **translation invariance**: a translated site list builds the same cluster -/
theorem mk'_translate (lis : List (Site d)) (T V : Bool) (t : ZV d) :
    Cluster.mk' (lis.map fun x => addR x t) T V = Cluster.mk' lis T V := by
  unfold Cluster.mk'
  simp only [← List.map_take, ← List.map_drop, sortSites_map, ← List.map_append]
  generalize List.take (nfixed T V) lis ++ sortSites (List.drop (nfixed T V) lis) = l
  cases l with
  | nil => rfl
  | cons s l =>
    simp only [List.map_cons, List.map_map, Cluster.mk.injEq, and_true, List.cons.injEq]
    have hR : (addR s t).R = vof fun k => s.R.get k + t.get k := rfl
    refine ⟨by rw [hR, subR_addR], ?_⟩
    apply List.map_congr_left
    intro x _
    simp only [Function.comp, hR, subR_addR]

/-! ### permutation of the ordinary sites, translation of stored clusters -/

theorem sum_map_add (l : List (Site d)) (t : ZV d) (k : Fin d) :
    (l.map fun s => (addR s t).R.get k).sum = (l.map fun s => s.R.get k).sum + (l.length : Int) * t.get k := by
  induction l with
  | nil => simp
  | cons a l ih =>
    simp only [List.map_cons, List.sum_cons, List.length_cons]
    rw [ih]
    simp only [addR, get_ofFn]
    push_cast; ring

@[simp] theorem addR_c (s : Site d) (t : ZV d) : (addR s t).c = s.c := rfl
@[simp] theorem addR_i (s : Site d) (t : ZV d) : (addR s t).i = s.i := rfl

/-- stored clusters `a`, `b` agree up to the lattice translation `t` and a permutation of the
    ordinary (non-special) sites -/
structure TranslatePerm (a b : Cluster d) (t : ZV d) : Prop where
  tr : a.transition = b.transition
  vac : a.vacancy = b.vacancy
  special : b.sites.take (nfixed a.transition a.vacancy) = (a.sites.take (nfixed a.transition a.vacancy)).map fun s => addR s t
  rest : (b.sites.drop (nfixed a.transition a.vacancy)).Perm
          ((a.sites.drop (nfixed a.transition a.vacancy)).map fun s => addR s t)

theorem TranslatePerm.sites_perm {a b : Cluster d} {t : ZV d} (h : TranslatePerm a b t) :
    b.sites.Perm (a.sites.map fun s => addR s t) := by
  have h1 := List.take_append_drop (nfixed a.transition a.vacancy) b.sites
  have h2 := List.take_append_drop (nfixed a.transition a.vacancy) a.sites
  rw [← h1, ← h2, List.map_append, h.special]
  exact List.Perm.append_left _ h.rest

theorem TranslatePerm.length_eq {a b : Cluster d} {t : ZV d} (h : TranslatePerm a b t) :
    b.sites.length = a.sites.length := by
  simpa using h.sites_perm.length_eq

theorem TranslatePerm.shiftPos_eq {a b : Cluster d} {t : ZV d} (h : TranslatePerm a b t) (s : Site d) :
    b.shiftPos (addR s t) = a.shiftPos s := by
  apply vext; intro k
  have hc : b.center.get k = a.center.get k + (a.sites.length : Int) * t.get k := by
    simp only [Cluster.center, get_ofFn]
    have := (h.sites_perm.map fun s => s.R.get k).sum_eq
    rw [this, List.map_map]
    exact sum_map_add a.sites t k
  simp only [Cluster.shiftPos, get_ofFn, hc, h.length_eq, addR]
  ring

/-- **the equality-map entries are a permutation of each other** -/
theorem keyed_translate_perm (mt : Bool) {a b : Cluster d} {t : ZV d} (h : TranslatePerm a b t) :
    (b.keyed mt).Perm (a.keyed mt) := by
  unfold Cluster.keyed
  simp only
  rw [← h.tr, ← h.vac]
  apply List.Perm.append
  · rw [h.special, List.zipIdx_map, List.map_map]
    apply List.Perm.of_eq
    apply List.map_congr_left
    rintro ⟨s, idx⟩ _
    simp only [Function.comp, Prod.map, id, Cluster.entry, h.shiftPos_eq, Cluster.markOf, Cluster.nvac,
      ← h.tr, ← h.vac, addR_c, addR_i]
  · refine (h.rest.map _).trans ?_
    rw [List.map_map]
    apply List.Perm.of_eq
    apply List.map_congr_left
    intro s _
    simp only [Function.comp, Cluster.entry, h.shiftPos_eq, addR_c, addR_i]

/-- **hash is invariant** under translation and reordering of the non-special sites -/
theorem hash_of_translate_perm (mt : Bool) (hk : Key × ZV d → Nat) {a b : Cluster d} {t : ZV d}
    (h : TranslatePerm a b t) : b.hashWith mt hk = a.hashWith mt hk :=
  hashWith_perm mt hk b a (keyed_translate_perm mt h)

/-- **the map comparison of `__eq__` is invariant** under translation and reordering of the
    non-special sites (flags, `Norder` and both inclusions of the equality maps) -/
theorem eqv_map_of_translate_perm (mt : Bool) {a b : Cluster d} {t : ZV d} (h : TranslatePerm a b t) :
    (a.transition == b.transition && a.vacancy == b.vacancy && a.norder == b.norder &&
      subsetL (a.keyed mt) (b.keyed mt) && subsetL (b.keyed mt) (a.keyed mt)) = true := by
  have hp := keyed_translate_perm mt h
  simp only [Bool.and_eq_true, beq_iff_eq, subsetL, List.all_eq_true, decide_eq_true_eq]
  refine ⟨⟨⟨⟨h.tr, h.vac⟩, ?_⟩, fun x hx => hp.symm.subset hx⟩, fun x hx => hp.subset hx⟩
  simp only [Cluster.norder, h.length_eq, ← h.tr, ← h.vac]

/-- plain and vacancy clusters: `__eq__` holds for translated / reordered copies -/
theorem eqv_of_translate_perm (mt : Bool) {a b : Cluster d} {t : ZV d} (h : TranslatePerm a b t)
    (hT : a.transition = false) : a.eqv mt b = true := by
  have := eqv_map_of_translate_perm mt h
  unfold Cluster.eqv
  rw [this, hT]; rfl

theorem keyed_length (mt : Bool) (a : Cluster d) : (a.keyed mt).length = a.sites.length := by
  simp only [Cluster.keyed, List.length_append, List.length_map, List.length_zipIdx, List.length_take, List.length_drop]
  omega

/-- **hash respects equality**: clusters that compare equal and whose map entries are pairwise
    different (duplicate-free cluster) have the same XOR hash, for every entry hash -/
theorem hash_respects_eq (mt : Bool) (hk : Key × ZV d → Nat) (a b : Cluster d)
    (ha : (a.keyed mt).Nodup)
    (hla : nfixed a.transition a.vacancy ≤ a.sites.length) (hlb : nfixed b.transition b.vacancy ≤ b.sites.length)
    (h : a.eqv mt b = true) : a.hashWith mt hk = b.hashWith mt hk := by
  simp only [Cluster.eqv, Bool.and_eq_true, beq_iff_eq, subsetL, List.all_eq_true, decide_eq_true_eq] at h
  obtain ⟨⟨⟨⟨⟨hT, hV⟩, hN⟩, hab⟩, hba⟩, _⟩ := h
  have hlen : a.sites.length = b.sites.length := by
    simp only [Cluster.norder, hT, hV] at hN hla
    omega
  apply hashWith_perm
  apply (List.subperm_of_subset ha hab).perm_of_length_le
  rw [keyed_length, keyed_length, hlen]

/-! ### the converse for plain clusters: equal ⇒ geometrically the same -/

theorem keyed_plain (mt : Bool) (a : Cluster d) (hT : a.transition = false) (hV : a.vacancy = false) :
    a.keyed mt = a.sites.map (a.entry none) := by
  simp [Cluster.keyed, hT, hV, nfixed]

/-- **plain clusters that compare equal are translates of each other up to the order of the sites**
    (duplicate-free, non-empty): together with `eqv_of_translate_perm` this is
    `cluster equality ⇔ same site multiset up to a lattice translation` for plain clusters. -/
theorem eqv_plain_imp_translate_perm (mt : Bool) (a b : Cluster d)
    (haT : a.transition = false) (haV : a.vacancy = false)
    (hnd : (a.keyed mt).Nodup) (hne : a.sites ≠ []) (h : a.eqv mt b = true) :
    ∃ t : ZV d, b.sites.Perm (a.sites.map fun s => addR s t) := by
  simp only [Cluster.eqv, Bool.and_eq_true, beq_iff_eq, subsetL, List.all_eq_true, decide_eq_true_eq] at h
  obtain ⟨⟨⟨⟨⟨hT, hV⟩, hN⟩, hab⟩, hba⟩, _⟩ := h
  have hbT : b.transition = false := by rw [← hT]; exact haT
  have hbV : b.vacancy = false := by rw [← hV]; exact haV
  have hlen : a.sites.length = b.sites.length := by
    simpa [Cluster.norder, haT, haV, hbT, hbV, nfixed] using hN
  have hperm : (a.keyed mt).Perm (b.keyed mt) := by
    apply (List.subperm_of_subset hnd hab).perm_of_length_le
    rw [keyed_length, keyed_length, hlen]
  rw [keyed_plain mt a haT haV, keyed_plain mt b hbT hbV] at hperm
  -- the number of sites, as a non-zero integer
  have hNpos : 0 < a.sites.length := List.length_pos_iff.mpr hne
  have hN0 : (a.sites.length : Int) ≠ 0 := by exact_mod_cast hNpos.ne'
  -- one matched pair of sites gives the translation
  obtain ⟨s0, hs0⟩ := List.exists_mem_of_ne_nil _ hne
  have hmem : a.entry none s0 ∈ b.sites.map (b.entry none) :=
    hperm.subset (List.mem_map.mpr ⟨s0, hs0, rfl⟩)
  obtain ⟨s', _, hs'⟩ := List.mem_map.mp hmem
  have hsp : ∀ k, (b.shiftPos s').get k = (a.shiftPos s0).get k := by
    intro k
    have := congrArg (fun e : Key × ZV d => e.2.get k) hs'
    simpa [Cluster.entry] using this
  let t : ZV d := vof fun k => s'.R.get k - s0.R.get k
  have hcen : ∀ k, b.center.get k - a.center.get k = (a.sites.length : Int) * t.get k := by
    intro k
    have := hsp k
    simp only [Cluster.shiftPos, get_ofFn, ← hlen] at this
    simp only [t, get_ofFn]
    linarith
  refine ⟨t, ?_⟩
  -- recover the sites from the map entries
  let F : Key × ZV d → Site d := fun e =>
    { c := e.1.c, i := e.1.i, R := vof fun k => (e.2.get k + b.center.get k) / (a.sites.length : Int) }
  have hFb : ∀ s, F (b.entry none s) = s := by
    intro s
    refine Site.ext' rfl rfl ?_
    intro k
    simp only [F, Cluster.entry, Cluster.shiftPos, get_ofFn, ← hlen]
    rw [show s.R.get k * (a.sites.length : Int) - b.center.get k + b.center.get k
          = s.R.get k * (a.sites.length : Int) by ring]
    exact Int.mul_ediv_cancel _ hN0
  have hFa : ∀ s, F (a.entry none s) = addR s t := by
    intro s
    refine Site.ext' rfl rfl ?_
    intro k
    simp only [F, Cluster.entry, Cluster.shiftPos, get_ofFn, addR]
    rw [show s.R.get k * (a.sites.length : Int) - a.center.get k + b.center.get k
          = (s.R.get k + t.get k) * (a.sites.length : Int) by linarith [hcen k]]
    exact Int.mul_ediv_cancel _ hN0
  have := hperm.map F
  simp only [List.map_map] at this
  have e1 : (F ∘ a.entry none) = fun s => addR s t := funext hFa
  have e2 : (F ∘ b.entry none) = id := funext hFb
  rw [e1, e2, List.map_id] at this
  exact this.symm

/-- C31, identity clause at full strength: for clusters built by the constructor from distinct
    sites, `__eq__` holds exactly when the stored clusters agree up to a lattice translation and a
    permutation of the non-special sites (for a non-vacancy transition cluster also after reversing
    the transition pair).  Proved here: the invariance direction (`eqv_of_translate_perm`,
    `eqv_map_of_translate_perm`, `mk'_translate`, `hash_of_translate_perm`, `hash_respects_eq`);
    the converse for plain clusters (`eqv_plain_imp_translate_perm`); the converse is false for
    unmarked transition pairs (`ts_eq_not_geometric_witness`) and for vacancy / marked transition
    clusters it is carried by the differential run (model `eqv` vs geometric canonical forms). -/
def cluster_eq_iff_translate_perm_full (mt : Bool) : Prop :=
  ∀ (d : Nat) (l1 l2 : List (Site d)) (T V : Bool), l1.Nodup → l2.Nodup →
    nfixed T V ≤ l1.length → nfixed T V ≤ l2.length →
    ((Cluster.mk' l1 T V).eqv mt (Cluster.mk' l2 T V) = true ↔
      ∃ t, TranslatePerm (Cluster.mk' l1 T V) (Cluster.mk' l2 T V) t ∨
           (T = true ∧ V = false ∧ TranslatePerm (Cluster.mk' l1 T V).reversed (Cluster.mk' l2 T V) t))

/-- the proved part: translated / reordered copies are equal (plain and vacancy clusters) -/
theorem cluster_eq_of_translate_perm_partial (mt : Bool) (l1 l2 : List (Site d)) (V : Bool) (t : ZV d)
    (h : TranslatePerm (Cluster.mk' l1 false V) (Cluster.mk' l2 false V) t) :
    (Cluster.mk' l1 false V).eqv mt (Cluster.mk' l2 false V) = true :=
  eqv_of_translate_perm mt h rfl

/-! ### the transition pair must be marked -/

def s1 (x : Int) : Site 1 := { c := 0, i := 0, R := #v[x] }

/-- Without a mark on the transition pair (`mt = false`, the source before the fix) `__eq__`
    identifies the transition 0→1 with a spectator at +2 and the transition 0→1 with a spectator
    at −1 (the same three sites with the pair at another place); with the mark it does not. -/
theorem ts_eq_not_geometric_witness :
    let a := Cluster.mk' [s1 0, s1 1, s1 2] true false
    let b := Cluster.mk' [s1 1, s1 2, s1 0] true false
    a.sites = [s1 0, s1 1, s1 2] ∧ b.sites = [s1 0, s1 1, s1 (-1)] ∧
    a.eqv false b = true ∧ a.eqv true b = false := by
  decide +kernel

/-! ### enumeration -/

/-- with a box passing `boxOK` the neighbour table of an atom contains every listed site within the cutoff -/
theorem mem_neighbours_complete (cr : Crystal d) (hv : cr.valid = true) (r2 : ℚ) (box : Box d)
    (hok : boxOK cr.h r2 cr.dumax box = true) (sl : List (Nat × Nat)) (c0 i0 : Nat) (h0 : i0 < cr.nat c0)
    (s : Site d) (hs : (s.c, s.i) ∈ sl) (hi : s.i < cr.nat s.c)
    (hpos : 0 < norm2 cr.g (vof fun k => (s.R.get k : ℚ) + (cr.u s.c s.i).get k - (cr.u c0 i0).get k))
    (hlt : norm2 cr.g (vof fun k => (s.R.get k : ℚ) + (cr.u s.c s.i).get k - (cr.u c0 i0).get k) < r2) :
    s ∈ neighbours cr r2 box sl c0 i0 := by
  have hbox : inBox box s.R = true := by
    obtain ⟨hsy, hin⟩ := C21.valid_symm_inv cr hv
    apply boxOK_complete cr.g cr.h hsy hin (C21.valid_psd cr hv) r2 cr.dumax box hok s.R
      (vof fun k => (cr.u s.c s.i).get k - (cr.u c0 i0).get k)
    · intro k; rw [get_ofFn]
      exact C21.dumax_spec cr _ _ (C21.u_mem_flatten cr s.c s.i hi) (C21.u_mem_flatten cr c0 i0 h0) k
    · have : (vof fun k => (s.R.get k : ℚ) + (vof fun k => (cr.u s.c s.i).get k - (cr.u c0 i0).get k).get k)
          = vof fun k => (s.R.get k : ℚ) + (cr.u s.c s.i).get k - (cr.u c0 i0).get k := by
        apply vext; intro k; simp only [get_ofFn]; ring
      rw [this]; exact hlt
  simp only [neighbours, List.mem_flatMap, List.mem_filterMap]
  refine ⟨(s.c, s.i), hs, s.R, (mem_boxVecs box s.R).mpr hbox, ?_⟩
  simp only [hpos, hlt, and_self, if_true]

/-- **growth argument**: removing any site from a set of pairwise-near sites leaves a set of
    pairwise-near sites of which the removed site is a common neighbour — so every valid cluster of
    size k+1 is produced from a valid cluster of size k by adding one site that is near all of it -/
theorem clique_growth {α : Type} [DecidableEq α] (near : α → α → Prop) (S : List α) (hnd : S.Nodup)
    (hcl : ∀ a ∈ S, ∀ b ∈ S, a ≠ b → near a b) (s : α) (hs : s ∈ S) :
    (∀ a ∈ S.erase s, ∀ b ∈ S.erase s, a ≠ b → near a b) ∧ (∀ a ∈ S.erase s, near a s) ∧
    (S.erase s).length + 1 = S.length := by
  refine ⟨fun a ha b hb hab => hcl a (List.mem_of_mem_erase ha) b (List.mem_of_mem_erase hb) hab, ?_, ?_⟩
  · intro a ha
    have := (List.Nodup.mem_erase_iff hnd).mp ha
    exact hcl a this.2 s hs this.1
  · rw [List.length_erase_of_mem hs]
    have : 0 < S.length := List.length_pos_of_mem hs
    omega

end Onsager.C31
