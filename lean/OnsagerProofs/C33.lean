/-
  C33 — theorems about the reference Monte Carlo sampler model (OnsagerModel/C33.lean).

  All results hold for an arbitrary interaction table (any number of sites and interactions, rows in
  any order and with repetitions), any occupation and any history:

  * `start_count`        `start` sets `clustercount[m]` = number of (site, slot) pairs with the site
                         unoccupied and the slot naming interaction `m`
  * `start_inv`          a successful `start` establishes the invariant
  * `moveOne_inv`, `moveMany_inv`, `update_inv`
                         every update (repeated sites, sites already in the requested state, sites
                         listed on both sides, an exception half-way) keeps it and never hits KeyError
  * `history_eq_fresh`   after ANY history the state equals `start (current occupation)`
  * `observables_eq_fresh` hence E, deltaE_trial, the site sets and transitions() are functions of occ
  * `vacancy_guard`      the vacancy is never in the occupied or unoccupied set
  * `energy_spec`        E() = sum of the energy interactions none of whose sites is unoccupied
  * `deltaE_exact`       for duplicate-free disjoint in-range arguments, `deltaE_trial` is exactly
                         `E(after update) − E(before)`
  * `deltaE_dup_counterexample`, `deltaE_overlap_counterexample`  the precondition is needed
-/
import OnsagerModel.C33
import Mathlib.Tactic.Ring
import Mathlib.Tactic.Linarith

set_option linter.unnecessarySeqFocus false

namespace Onsager.C33

/-! ### `bump` -/

theorem bump_nil (c : Array Int) (d : Int) : bump c [] d = c := rfl
theorem bump_cons (c : Array Int) (a : Nat) (row : List Nat) (d : Int) :
    bump c (a :: row) d = bump (c.modify a (· + d)) row d := rfl

theorem bump_size (c : Array Int) (row : List Nat) (d : Int) : (bump c row d).size = c.size := by
  induction row generalizing c with
  | nil => rfl
  | cons a row ih => rw [bump_cons, ih, Array.size_modify]

/-- `bump` adds `d` once per occurrence of `m` in the row (out-of-range slots stay absent). -/
theorem bump_get (c : Array Int) (row : List Nat) (d : Int) (m : Nat) :
    (bump c row d)[m]? = c[m]?.map (· + d * (row.count m : Int)) := by
  induction row generalizing c with
  | nil => simp [bump_nil]
  | cons a row ih =>
    rw [bump_cons, ih, Array.getElem?_modify, List.count_cons]
    by_cases h : a = m
    · subst h
      simp only [if_true, beq_self_eq_true, Option.map_map]
      congr 1; funext x; simp only [Function.comp]; push_cast; ring
    · have : (a == m) = false := by simpa using h
      simp [h, this]

/-! ### what `start` counts -/

/-- Number of (site, slot) pairs of the zipped occupation/rows with the site unoccupied and the
    slot naming interaction `m` — the specification of `clustercount[m]`. -/
def countZ (m : Nat) : List Int → List (List Nat) → Int
  | o :: os, r :: rs => (if o = 0 then (r.count m : Int) else 0) + countZ m os rs
  | _, _ => 0

theorem startLoop_get (c : Array Int) (os : List Int) (rs : List (List Nat)) (m : Nat) :
    (startLoop c os rs)[m]? = c[m]?.map (· + countZ m os rs) := by
  induction os generalizing c rs with
  | nil => simp [startLoop, countZ]
  | cons o os ih =>
    cases rs with
    | nil => simp [startLoop, countZ]
    | cons r rs =>
      simp only [startLoop, countZ]
      rw [ih]
      by_cases h : o = 0
      · simp only [h, if_true, bump_get, Option.map_map]
        congr 1; funext x; simp only [Function.comp]; ring
      · simp only [h, if_false]
        congr 1; funext x; ring

theorem startLoop_size (c : Array Int) (os : List Int) (rs : List (List Nat)) :
    (startLoop c os rs).size = c.size := by
  induction os generalizing c rs with
  | nil => simp [startLoop]
  | cons o os ih =>
    cases rs with
    | nil => simp [startLoop]
    | cons r rs =>
      simp only [startLoop]; rw [ih]; split
      · exact bump_size _ _ _
      · rfl

/-- **Specification of `start`'s clustercount.** -/
theorem start_count (T : Table) (occ : List Int) (m : Nat) (hm : m < T.value.size) :
    (fresh T occ).cc[m]? = some (countZ m occ T.rows) := by
  simp only [fresh, startLoop_get, Array.getElem?_replicate, hm, if_true, Option.map_some, zero_add]

theorem fresh_cc_get (T : Table) (occ : List Int) (m : Nat) :
    (fresh T occ).cc[m]? = if m < T.value.size then some (countZ m occ T.rows) else none := by
  simp only [fresh, startLoop_get, Array.getElem?_replicate]
  split <;> simp

/-- changing one site's occupation changes the count by that site's multiplicity -/
theorem countZ_set (m : Nat) (os : List Int) (rs : List (List Nat)) (i : Nat) (a : Int)
    (hi : i < os.length) (hr : i < rs.length) :
    countZ m (os.set i a) rs
      = countZ m os rs - (if os.getD i 7 = 0 then ((rs.getD i []).count m : Int) else 0)
          + (if a = 0 then ((rs.getD i []).count m : Int) else 0) := by
  induction os generalizing rs i with
  | nil => simp at hi
  | cons o os ih =>
    cases rs with
    | nil => simp at hr
    | cons r rs =>
      cases i with
      | zero => simp only [List.set_cons_zero, countZ, List.getD_cons_zero]; ring
      | succ i =>
        simp only [List.set_cons_succ, countZ, List.getD_cons_succ]
        rw [ih rs i (by simpa using hi) (by simpa using hr)]; ring

/-! ### validity of an occupation -/

theorem validFrom_iff (vac : Option Nat) (k : Nat) (os : List Int) (rs : List (List Nat)) :
    validFrom vac k os rs = true ↔
      ∀ j o, j < rs.length → os[j]? = some o → (o = 0 ∨ o = 1 ∨ vac = some (k + j)) := by
  induction os generalizing k rs with
  | nil => simp [validFrom]
  | cons o os ih =>
    cases rs with
    | nil => simp [validFrom]
    | cons r rs =>
      simp only [validFrom, Bool.and_eq_true, Bool.or_eq_true, beq_iff_eq, ih]
      constructor
      · rintro ⟨h0, h⟩ j o' hj hget
        cases j with
        | zero => simp at hget; subst hget; simpa [or_assoc] using h0
        | succ j =>
          have := h j o' (by simpa using hj) (by simpa using hget)
          rcases this with h | h | h
          · exact Or.inl h
          · exact Or.inr (Or.inl h)
          · exact Or.inr (Or.inr (by rw [h]; congr 1; omega))
      · intro h
        refine ⟨?_, ?_⟩
        · have := h 0 o (by simp) (by simp)
          simpa [or_assoc] using this
        · intro j o' hj hget
          have := h (j + 1) o' (by simpa using hj) (by simpa using hget)
          rcases this with h | h | h
          · exact Or.inl h
          · exact Or.inr (Or.inl h)
          · exact Or.inr (Or.inr (by rw [h]; congr 1; omega))

/-! ### the invariant -/

/-- The sampler state is the one `start` builds from its own occupation (which has one entry per
    site).  Unfolded by `Inv.cc_spec`, `Inv.sets`, `Inv.valid`. -/
structure Inv (T : Table) (s : State) : Prop where
  len : s.occ.length = T.rows.length
  started : start T s.occ = .ok s

theorem start_ok_iff (T : Table) (occ : List Int) (s : State) :
    start T occ = .ok s ↔
      vacancyCheck T occ = none ∧ validFrom T.vacancy 0 occ T.rows = true ∧ s = fresh T occ := by
  unfold start
  cases hv : vacancyCheck T occ with
  | some e => simp
  | none =>
    by_cases hval : validFrom T.vacancy 0 occ T.rows = true
    · simp only [hval, if_true, true_and]
      constructor
      · intro h; injection h with h; exact h.symm
      · intro h; rw [h]
    · simp [hval]

theorem fresh_occ (T : Table) (occ : List Int) : (fresh T occ).occ = occ := rfl

theorem fresh_of_len (T : Table) (occ : List Int) (h : occ.length = T.rows.length) :
    fresh T occ = { occ := occ, cc := startLoop (Array.replicate T.value.size 0) occ T.rows,
                    occd := occ.map (· == 1), unoccd := occ.map (· == 0) } := by
  simp only [fresh, List.take_of_length_le (Nat.le_of_eq h)]

theorem Inv.eq_fresh {T : Table} {s : State} (h : Inv T s) : s = fresh T s.occ :=
  ((start_ok_iff T s.occ s).1 h.started).2.2

/-- clustercount is the count of unoccupied sites per interaction (with multiplicity) -/
theorem Inv.cc_spec {T : Table} {s : State} (h : Inv T s) (m : Nat) :
    s.cc[m]? = if m < T.value.size then some (countZ m s.occ T.rows) else none := by
  have := h.eq_fresh
  rw [this]; exact fresh_cc_get T s.occ m

theorem Inv.cc_size {T : Table} {s : State} (h : Inv T s) : s.cc.size = T.value.size := by
  have := h.eq_fresh
  rw [this]; simp [fresh, startLoop_size]

/-- the two site sets are exactly the sites with occupation 1 and 0 -/
theorem Inv.sets {T : Table} {s : State} (h : Inv T s) :
    s.occd = s.occ.map (· == 1) ∧ s.unoccd = s.occ.map (· == 0) := by
  have h1 := h.eq_fresh
  rw [fresh_of_len T s.occ h.len] at h1
  constructor
  · conv_lhs => rw [h1]
  · conv_lhs => rw [h1]

theorem Inv.vac {T : Table} {s : State} (h : Inv T s) (v : Nat) (hv : T.vacancy = some v) :
    s.occ[v]? = some (-1) := by
  have h1 := ((start_ok_iff T s.occ s).1 h.started).1
  unfold vacancyCheck at h1
  rw [hv] at h1
  simp only at h1
  cases ho : s.occ[v]? with
  | none => simp [ho] at h1
  | some o =>
    simp only [ho] at h1
    by_cases h2 : o = -1
    · rw [h2]
    · simp [h2] at h1

theorem Inv.valid {T : Table} {s : State} (h : Inv T s) (j : Nat) (o : Int) (hj : s.occ[j]? = some o) :
    o = 0 ∨ o = 1 ∨ T.vacancy = some j := by
  have h1 := ((start_ok_iff T s.occ s).1 h.started).2.1
  rw [validFrom_iff] at h1
  have hlt : j < s.occ.length := by
    rcases Nat.lt_or_ge j s.occ.length with h' | h'
    · exact h'
    · have : s.occ[j]? = none := List.getElem?_eq_none h'
      rw [this] at hj; cases hj
  have := h1 j o (by rw [← h.len]; exact hlt) hj
  simpa using this

/-- **start establishes the invariant** (for an occupation with one entry per site). -/
theorem start_inv (T : Table) (occ : List Int) (s : State)
    (hlen : occ.length = T.rows.length) (h : start T occ = .ok s) : Inv T s := by
  have hs : s = fresh T occ := ((start_ok_iff T occ s).1 h).2.2
  have hocc : s.occ = occ := by rw [hs]; rfl
  exact ⟨by rw [hocc]; exact hlen, by rw [hocc]; exact h⟩

/-- **vacancy guard**: the vacancy is in neither site set. -/
theorem vacancy_guard {T : Table} {s : State} (h : Inv T s) (v : Nat) (hv : T.vacancy = some v) :
    s.occd.getD v false = false ∧ s.unoccd.getD v false = false := by
  have hs := h.sets
  have ho := h.vac v hv
  rw [hs.1, hs.2]
  simp only [List.getD_eq_getElem?_getD, List.getElem?_map, ho]
  constructor <;> decide

/-! ### one site move keeps the invariant -/

/-- rebuild the invariant for an occupation obtained by setting site `i` (currently `a`) to `b`,
    where `a, b ∈ {0,1}` -/
theorem inv_set {T : Table} {s : State} (h : Inv T s) (i : Nat) (a b : Int)
    (hi : s.occ[i]? = some a) (ha : a = 0 ∨ a = 1) (hb : b = 0 ∨ b = 1) (s' : State)
    (hocc : s'.occ = s.occ.set i b)
    (hcc : s'.cc = bump s.cc (T.rows.getD i []) ((if a = 0 then -1 else 0) + (if b = 0 then 1 else 0)))
    (hoccd : s'.occd = s.occd.set i (b == 1)) (hunoccd : s'.unoccd = s.unoccd.set i (b == 0)) :
    Inv T s' := by
  have hlt : i < s.occ.length := by
    rcases Nat.lt_or_ge i s.occ.length with h' | h'
    · exact h'
    · have : s.occ[i]? = none := List.getElem?_eq_none h'
      rw [this] at hi; cases hi
  have hlen' : s'.occ.length = T.rows.length := by rw [hocc, List.length_set]; exact h.len
  refine ⟨hlen', ?_⟩
  rw [start_ok_iff]
  refine ⟨?_, ?_, ?_⟩
  · -- vacancy test
    unfold vacancyCheck
    cases hv : T.vacancy with
    | none => rfl
    | some v =>
      have hvv := h.vac v hv
      have hne : i ≠ v := by
        intro e; subst e; rw [hi] at hvv; injection hvv with e; rcases ha with h0 | h0 <;> omega
      simp only [hocc, List.getElem?_set, hne, if_false, hvv, if_true]
  · rw [validFrom_iff]
    intro j o hj hget
    rw [hocc, List.getElem?_set] at hget
    by_cases hij : i = j
    · simp only [hij, if_true] at hget
      split at hget
      · injection hget with e; subst e
        rcases hb with h0 | h0
        · exact Or.inl h0
        · exact Or.inr (Or.inl h0)
      · cases hget
    · simp only [hij, if_false] at hget
      have := h.valid j o hget
      simpa using this
  · -- the state is the fresh one
    have hs := h.sets
    rw [fresh_of_len T s'.occ hlen']
    have e1 : s'.occd = s'.occ.map (· == 1) := by
      rw [hoccd, hocc, hs.1, List.map_set]
    have e2 : s'.unoccd = s'.occ.map (· == 0) := by
      rw [hunoccd, hocc, hs.2, List.map_set]
    have e3 : s'.cc = startLoop (Array.replicate T.value.size 0) s'.occ T.rows := by
      apply Array.ext_getElem?
      intro m
      rw [hcc, bump_get, h.cc_spec m, startLoop_get, Array.getElem?_replicate, hocc,
        countZ_set m s.occ T.rows i b hlt (by rw [← h.len]; exact hlt)]
      have hgd : s.occ.getD i 7 = a := by simp [List.getD_eq_getElem?_getD, hi]
      rw [hgd]
      by_cases hm : m < T.value.size
      · simp only [hm, if_true, Option.map_some, zero_add]
        congr 1
        rcases ha with h0 | h0 <;> rcases hb with h1 | h1 <;> subst h0 <;> subst h1 <;> simp <;> ring
      · simp [hm]
    cases s' with
    | mk o c od ud =>
      simp only at e1 e2 e3
      simp only [State.mk.injEq, true_and]
      exact ⟨e3, e1, e2⟩

/-- **One iteration of either update loop keeps the invariant and never raises KeyError.** -/
theorem moveOne_inv {T : Table} {s : State} (h : Inv T s) (b : Bool) (i : Nat) :
    Inv T (moveOne T b s i).1 ∧ (moveOne T b s i).2 ≠ some .key := by
  unfold moveOne
  cases hi : s.occ[i]? with
  | none => exact ⟨h, by simp⟩
  | some o =>
    simp only
    have hs := h.sets
    cases b with
    | true =>
      simp only [if_true]
      by_cases ho : o = 0
      · subst ho
        simp only [if_true]
        have hmem : s.unoccd.getD i false = true := by
          rw [hs.2]; simp [List.getD_eq_getElem?_getD, List.getElem?_map, hi]
        simp only [hmem, Bool.true_eq_false, if_false]
        refine ⟨?_, by simp⟩
        exact inv_set h i 0 1 hi (Or.inl rfl) (Or.inr rfl) _ rfl (by simp) (by simp) (by simp)
      · simp only [ho, if_false]; exact ⟨h, by simp⟩
    | false =>
      simp only [Bool.false_eq_true, if_false]
      by_cases ho : o = 1
      · subst ho
        simp only [if_true]
        have hmem : s.occd.getD i false = true := by
          rw [hs.1]; simp [List.getD_eq_getElem?_getD, List.getElem?_map, hi]
        simp only [hmem, Bool.true_eq_false, if_false]
        refine ⟨?_, by simp⟩
        exact inv_set h i 1 0 hi (Or.inr rfl) (Or.inl rfl) _ rfl (by simp) (by simp) (by simp)
      · simp only [ho, if_false]; exact ⟨h, by simp⟩

theorem moveMany_inv {T : Table} {s : State} (h : Inv T s) (b : Bool) (is : List Nat) :
    Inv T (moveMany T b s is).1 ∧ (moveMany T b s is).2 ≠ some .key := by
  induction is generalizing s with
  | nil => exact ⟨h, by simp [moveMany]⟩
  | cons i is ih =>
    have h1 := moveOne_inv h b i
    unfold moveMany
    cases hm : moveOne T b s i with
    | mk s' e =>
      rw [hm] at h1
      cases e with
      | none => exact ih h1.1
      | some e => exact ⟨h1.1, h1.2⟩

/-- **Every update keeps the invariant** — repeated sites, sites already in the requested state,
    a site listed on both sides, the vacancy (rejected up front), an out-of-range site (IndexError
    after the preceding sites were processed): the state left behind is always consistent, and the
    `set.remove` calls can never raise. -/
theorem update_inv {T : Table} {s : State} (h : Inv T s) (occs unoccs : List Nat) :
    Inv T (update T s occs unoccs).1 ∧ (update T s occs unoccs).2 ≠ some .key := by
  unfold update
  split
  · exact ⟨h, by simp⟩
  · split
    · exact ⟨h, by simp⟩
    · have h1 := moveMany_inv h true occs
      cases hm : moveMany T true s occs with
      | mk s' e =>
        rw [hm] at h1
        cases e with
        | none => exact moveMany_inv h1.1 false unoccs
        | some e => exact ⟨h1.1, h1.2⟩

theorem update_no_keyerror {T : Table} {s : State} (h : Inv T s) (occs unoccs : List Nat) :
    (update T s occs unoccs).2 ≠ some .key := (update_inv h occs unoccs).2

/-! ### histories -/

/-- a history is well-formed when every `start` is given one occupation entry per site -/
def Op.WF (T : Table) : Op → Prop
  | .start occ => occ.length = T.rows.length
  | .update _ _ => True

theorem step_inv (T : Table) (st : Option State) (op : Op) (hop : op.WF T)
    (h : ∀ s, st = some s → Inv T s) : ∀ s, step T st op = some s → Inv T s := by
  intro s hs
  cases op with
  | start occ =>
    simp only [step] at hs
    cases hst : start T occ with
    | error e => rw [hst] at hs; cases hs
    | ok s0 =>
      rw [hst] at hs; injection hs with hs; subst hs
      exact start_inv T occ s0 hop hst
  | update occs unoccs =>
    simp only [step] at hs
    cases st with
    | none => cases hs
    | some s0 =>
      simp only [Option.map_some] at hs
      injection hs with hs; subst hs
      exact (update_inv (h s0 rfl) occs unoccs).1

theorem foldl_step_inv (T : Table) (ops : List Op) (hops : ∀ op ∈ ops, op.WF T) (st : Option State)
    (h : ∀ s, st = some s → Inv T s) : ∀ s, ops.foldl (step T) st = some s → Inv T s := by
  induction ops generalizing st with
  | nil => simpa using h
  | cons op ops ih =>
    simp only [List.foldl_cons]
    exact ih (fun o ho => hops o (List.mem_cons_of_mem _ ho)) _
      (step_inv T st op (hops op (List.mem_cons_self)) h)

/-- **After any history of starts and updates the sampler state is exactly the state of a sampler
    freshly started on the current occupation** (induction over the history). -/
theorem history_eq_fresh (T : Table) (ops : List Op) (hops : ∀ op ∈ ops, op.WF T) (s : State)
    (h : run T ops = some s) : start T s.occ = .ok s ∧ s = fresh T s.occ := by
  have := foldl_step_inv T ops hops none (by simp) s h
  exact ⟨this.started, this.eq_fresh⟩

theorem history_inv (T : Table) (ops : List Op) (hops : ∀ op ∈ ops, op.WF T) (s : State)
    (h : run T ops = some s) : Inv T s :=
  foldl_step_inv T ops hops none (by simp) s h

/-- Two histories that end on the same occupation end in the same state, hence report the same
    energy, trial energy changes, site sets and transitions. -/
theorem observables_eq_fresh (T : Table) (ops₁ ops₂ : List Op)
    (h₁ : ∀ op ∈ ops₁, op.WF T) (h₂ : ∀ op ∈ ops₂, op.WF T) (s₁ s₂ : State)
    (r₁ : run T ops₁ = some s₁) (r₂ : run T ops₂ = some s₂) (hocc : s₁.occ = s₂.occ) :
    s₁ = s₂ ∧ energy T s₁ = energy T s₂ ∧ transitions T s₁ = transitions T s₂ ∧
      ∀ a b, deltaE T s₁ a b = deltaE T s₂ a b := by
  have e : s₁ = s₂ := by
    rw [(history_eq_fresh T ops₁ h₁ s₁ r₁).2, (history_eq_fresh T ops₂ h₂ s₂ r₂).2, hocc]
  subst e
  exact ⟨rfl, rfl, rfl, fun _ _ => rfl⟩

/-! ### exactness of the trial energy change -/

def effCount (T : Table) (occ : List Int) (w : Int) (m : Nat) : List Nat → Int
  | [] => 0
  | i :: is => (if occ.getD i 7 = w then ((T.rows.getD i []).count m : Int) else 0) + effCount T occ w m is

theorem effCount_congr (T : Table) (occ₁ occ₂ : List Int) (w : Int) (m : Nat) (is : List Nat)
    (h : ∀ j ∈ is, occ₁[j]? = occ₂[j]?) : effCount T occ₁ w m is = effCount T occ₂ w m is := by
  induction is with
  | nil => rfl
  | cons i is ih =>
    simp only [effCount, List.getD_eq_getElem?_getD]
    rw [h i (List.mem_cons_self), ih (fun j hj => h j (List.mem_cons_of_mem _ hj))]

/-- effect of one loop iteration on an in-range site, under the invariant -/
theorem moveOne_eff {T : Table} {s : State} (h : Inv T s) (b : Bool) (i : Nat) (hi : i < s.occ.length) :
    (moveOne T b s i).2 = none ∧
    (∀ m, (moveOne T b s i).1.cc[m]? = s.cc[m]?.map
        (· + (if b then -1 else 1) *
            (if s.occ.getD i 7 = (if b then 0 else 1) then ((T.rows.getD i []).count m : Int) else 0))) ∧
    (∀ j, j ≠ i → (moveOne T b s i).1.occ[j]? = s.occ[j]?) := by
  have hget : s.occ[i]? = some s.occ[i] := List.getElem?_eq_getElem hi
  have hgd : s.occ.getD i 7 = s.occ[i] := by simp [List.getD_eq_getElem?_getD, hget]
  have hs := h.sets
  unfold moveOne
  simp only [hget, hgd]
  cases b with
  | true =>
    simp only [if_true]
    by_cases ho : s.occ[i] = 0
    · have hmem : s.unoccd.getD i false = true := by
        rw [hs.2]; simp [List.getD_eq_getElem?_getD, List.getElem?_map, hget, ho]
      simp only [ho, if_true, hmem, Bool.true_eq_false, if_false, bump_get, true_and]
      refine ⟨?_, ?_⟩
      · first | trivial | (intro m; simp)
      · intro j hj
        first | rfl | simp [Ne.symm hj]
    · simp only [ho, if_false, true_and]
      refine ⟨?_, ?_⟩
      · first | trivial | (intro m; simp)
      · first | trivial | (intro j _; first | rfl | trivial)
  | false =>
    simp only [Bool.false_eq_true, if_false]
    by_cases ho : s.occ[i] = 1
    · have hmem : s.occd.getD i false = true := by
        rw [hs.1]; simp [List.getD_eq_getElem?_getD, List.getElem?_map, hget, ho]
      simp only [ho, if_true, hmem, Bool.true_eq_false, if_false, bump_get, true_and]
      refine ⟨?_, ?_⟩
      · first | trivial | (intro m; simp)
      · intro j hj
        first | rfl | simp [Ne.symm hj]
    · simp only [ho, if_false, true_and]
      refine ⟨?_, ?_⟩
      · first | trivial | (intro m; simp)
      · first | trivial | (intro j _; first | rfl | trivial)

theorem moveMany_eff {T : Table} {s : State} (h : Inv T s) (b : Bool) (is : List Nat)
    (hnd : is.Nodup) (hr : ∀ i ∈ is, i < s.occ.length) :
    (moveMany T b s is).2 = none ∧
    (∀ m, (moveMany T b s is).1.cc[m]? = s.cc[m]?.map
        (· + (if b then -1 else 1) * effCount T s.occ (if b then 0 else 1) m is)) ∧
    (∀ j, j ∉ is → (moveMany T b s is).1.occ[j]? = s.occ[j]?) := by
  induction is generalizing s with
  | nil => exact ⟨rfl, by intro m; simp [moveMany, effCount], fun j _ => rfl⟩
  | cons i is ih =>
    have hi : i < s.occ.length := hr i (List.mem_cons_self)
    obtain ⟨e1, e2, e3⟩ := moveOne_eff h b i hi
    have hinv := (moveOne_inv h b i).1
    rw [List.nodup_cons] at hnd
    unfold moveMany
    cases hm : moveOne T b s i with
    | mk s' e =>
      rw [hm] at e1 e2 e3 hinv
      simp only at e1 e2 e3 hinv
      subst e1
      simp only
      have hlen : s'.occ.length = s.occ.length := by rw [hinv.len, h.len]
      obtain ⟨f1, f2, f3⟩ := ih hinv hnd.2 (fun j hj => by rw [hlen]; exact hr j (List.mem_cons_of_mem _ hj))
      refine ⟨f1, ?_, ?_⟩
      · intro m
        rw [f2 m, e2 m, Option.map_map]
        have : effCount T s'.occ (if b then 0 else 1) m is = effCount T s.occ (if b then 0 else 1) m is :=
          effCount_congr T _ _ _ m is (fun j hj => e3 j (by rintro rfl; exact hnd.1 hj))
        rw [this]
        congr 1; funext x; simp only [Function.comp, effCount]; ring
      · intro j hj
        rw [List.mem_cons, not_or] at hj
        rw [f3 j hj.2, e3 j hj.1]


theorem dAcc_ok (T : Table) (occ : List Int) (w sgn : Int) (d : Array Int) (is : List Nat)
    (hr : ∀ i ∈ is, i < occ.length) :
    ∃ d', dAcc T occ w sgn d is = .ok d' ∧
      ∀ m, d'[m]? = d[m]?.map (· + sgn * effCount T occ w m is) := by
  induction is generalizing d with
  | nil => exact ⟨d, rfl, by intro m; simp [effCount]⟩
  | cons i is ih =>
    have hi : i < occ.length := hr i (List.mem_cons_self)
    have hget : occ[i]? = some occ[i] := List.getElem?_eq_getElem hi
    obtain ⟨d', h1, h2⟩ := ih (if occ[i] = w then bump d (T.rows.getD i []) sgn else d)
      (fun j hj => hr j (List.mem_cons_of_mem _ hj))
    refine ⟨d', ?_, ?_⟩
    · simp only [dAcc, hget]; exact h1
    · intro m
      rw [h2 m]
      have hgd : occ.getD i 7 = occ[i] := by simp [List.getD_eq_getElem?_getD, hget]
      simp only [effCount, hgd]
      by_cases hw : occ[i] = w
      · simp only [hw, if_true, bump_get, Option.map_map]
        congr 1; funext x; simp only [Function.comp]; ring
      · simp only [hw, if_false]
        congr 1; funext x; ring

/-- the per-interaction rule of `deltaE_trial` is the change of the "interaction is on" indicator -/
theorem dEterm_eq (c d v : Int) :
    dEterm c d v = (if c - d = 0 then v else 0) - (if c = 0 then v else 0) := by
  unfold dEterm
  by_cases hd : d = 0
  · subst hd; simp
  · by_cases hc : c = 0
    · subst hc
      have : ¬ (0 - d = 0) := by omega
      simp [hd]
    · by_cases hcd : c = d
      · subst hcd; simp [hd]
      · have : ¬ (c - d = 0) := by omega
        simp [hd, hc, hcd, this]

theorem sum_map_sub {α} (l : List α) (f g : α → Int) :
    (l.map f).sum - (l.map g).sum = (l.map fun x => f x - g x).sum := by
  induction l with
  | nil => simp
  | cons a l ih => simp only [List.map_cons, List.sum_cons]; rw [← ih]; ring

theorem hasVacancy_false (T : Table) (sites : List Nat) (h : ∀ v, T.vacancy = some v → v ∉ sites) :
    hasVacancy T sites = false := by
  unfold hasVacancy
  cases hv : T.vacancy with
  | none => rfl
  | some v => simpa using h v hv

/-- **The trial energy change is exact**: for duplicate-free, mutually disjoint, in-range site
    arguments that avoid the vacancy (the docstring's "meaningful trial change"), `update` succeeds
    and `deltaE_trial` returns exactly `E(after the update) − E(before)`. -/
theorem deltaE_exact {T : Table} {s : State} (h : Inv T s) (occs unoccs : List Nat)
    (hnd : (occs ++ unoccs).Nodup) (hr : ∀ i ∈ occs ++ unoccs, i < s.occ.length)
    (hv : ∀ v, T.vacancy = some v → v ∉ occs ++ unoccs) :
    (update T s occs unoccs).2 = none ∧
    deltaE T s occs unoccs = .ok (energy T (update T s occs unoccs).1 - energy T s) := by
  have hv1 : hasVacancy T occs = false :=
    hasVacancy_false T occs (fun v e hm => hv v e (List.mem_append_left _ hm))
  have hv2 : hasVacancy T unoccs = false :=
    hasVacancy_false T unoccs (fun v e hm => hv v e (List.mem_append_right _ hm))
  rw [List.nodup_append] at hnd
  obtain ⟨hnd1, hnd2, hdisj⟩ := hnd
  have hr1 : ∀ i ∈ occs, i < s.occ.length := fun i hi => hr i (List.mem_append_left _ hi)
  have hr2 : ∀ i ∈ unoccs, i < s.occ.length := fun i hi => hr i (List.mem_append_right _ hi)
  -- the update
  obtain ⟨a1, a2, a3⟩ := moveMany_eff h true occs hnd1 hr1
  have hinv1 := (moveMany_inv h true occs).1
  unfold update deltaE
  simp only [hv1, hv2, Bool.false_eq_true, if_false]
  cases hm : moveMany T true s occs with
  | mk s1 e1 =>
    rw [hm] at a1 a2 a3 hinv1
    simp only at a1 a2 a3 hinv1
    subst a1
    simp only
    have hlen1 : s1.occ.length = s.occ.length := by rw [hinv1.len, h.len]
    obtain ⟨b1, b2, b3⟩ := moveMany_eff hinv1 false unoccs hnd2 (fun i hi => by rw [hlen1]; exact hr2 i hi)
    refine ⟨b1, ?_⟩
    -- the trial
    obtain ⟨d1, c1, c2⟩ := dAcc_ok T s.occ 0 1 (Array.replicate T.value.size 0) occs hr1
    obtain ⟨d, c3, c4⟩ := dAcc_ok T s.occ 1 (-1) d1 unoccs hr2
    simp only [c1, c3]
    congr 1
    have heff : ∀ m, effCount T s1.occ 1 m unoccs = effCount T s.occ 1 m unoccs := fun m =>
      effCount_congr T _ _ _ m unoccs (fun j hj => a3 j (fun hj' => hdisj j hj' j hj rfl))
    unfold dEsum energy
    rw [sum_map_sub]
    apply congrArg
    apply List.map_congr_left
    intro m _
    have hs2 := b2 m
    simp only [Bool.false_eq_true, if_false] at hs2
    rw [a2 m, heff m] at hs2
    simp only [if_true, Option.map_map] at hs2
    have hd := c4 m
    rw [c2 m, Option.map_map, Array.getElem?_replicate] at hd
    have hcs := h.cc_spec m
    simp only [Array.getD_eq_getD_getElem?, hs2, hd, hcs]
    by_cases hmm : m < T.value.size
    · simp only [hmm, if_true, Option.map_some, Option.getD_some, Function.comp]
      rw [dEterm_eq]
      congr 2
      ring_nf
    · simp [hmm, dEterm]


/-! ### what the energy means -/

theorem countZ_nonneg (m : Nat) (os : List Int) (rs : List (List Nat)) : 0 ≤ countZ m os rs := by
  induction os generalizing rs with
  | nil => simp [countZ]
  | cons o os ih =>
    cases rs with
    | nil => simp [countZ]
    | cons r rs =>
      simp only [countZ]
      have := ih rs
      split <;> omega

/-- the count of an interaction is zero exactly when no unoccupied site takes part in it -/
theorem countZ_eq_zero_iff (m : Nat) (os : List Int) (rs : List (List Nat)) :
    countZ m os rs = 0 ↔ ∀ (i : Nat) (r : List Nat), os[i]? = some 0 → rs[i]? = some r → m ∉ r := by
  induction os generalizing rs with
  | nil => simp [countZ]
  | cons o os ih =>
    cases rs with
    | nil => simp [countZ]
    | cons r rs =>
      simp only [countZ]
      have hnn := countZ_nonneg m os rs
      constructor
      · intro h i r' hi hr
        cases i with
        | zero =>
          simp at hi hr; subst hi; subst hr
          simp only [if_true] at h
          have : (List.count m r : Int) = 0 := by omega
          have : List.count m r = 0 := by omega
          exact List.count_eq_zero.1 this
        | succ i =>
          have h2 : countZ m os rs = 0 := by split at h <;> omega
          exact (ih rs).1 h2 i r' (by simpa using hi) (by simpa using hr)
      · intro h
        have h2 : countZ m os rs = 0 :=
          (ih rs).2 (fun i r' hi hr => h (i + 1) r' (by simpa using hi) (by simpa using hr))
        rw [h2]
        by_cases ho : o = 0
        · subst ho
          have := h 0 r (by simp) (by simp)
          have : List.count m r = 0 := List.count_eq_zero.2 this
          simp [this]
        · simp [ho]

open Classical in
/-- **Meaning of the energy**: under the invariant `E()` is the sum of the values of the energy
    interactions none of whose sites is unoccupied (the cluster-expansion semantics of the table). -/
theorem energy_spec {T : Table} {s : State} (h : Inv T s) (hne : T.nenergy ≤ T.value.size) :
    energy T s = ((List.range T.nenergy).map fun m =>
      if (∀ (i : Nat) (r : List Nat), s.occ[i]? = some 0 → T.rows[i]? = some r → m ∉ r) then T.value.getD m 0 else 0).sum := by
  unfold energy
  apply congrArg
  apply List.map_congr_left
  intro m hm
  have hm' : m < T.value.size := by have := List.mem_range.1 hm; omega
  have := h.cc_spec m
  simp only [hm', if_true] at this
  simp only [Array.getD_eq_getD_getElem?, this, Option.getD_some, countZ_eq_zero_iff]


/-! ### the precondition of `deltaE_exact` is needed; non-vacuity -/

/-- 3 sites, 2 interactions: interaction 0 joins sites 0,1 and interaction 1 joins sites 1,2 -/
def exT : Table :=
  { rows := [[0], [0, 1], [1]], value := #[5, 7], nenergy := 2, vacancy := none, jumps := none, irange := #[] }
def exS : State := fresh exT [0, 1, 0]

/-- the hypotheses of the theorems are satisfiable: a started state with a non-trivial table -/
example : Inv exT exS := start_inv exT [0, 1, 0] exS rfl (by decide +kernel)

example : (List.foldl (step exT) none [Op.start [0, 1, 0], Op.update [0, 0, 2] [1, 0]]).isSome = true := by
  decide +kernel

/-- a repeated site breaks exactness: trial says 0, the update changes the energy by 5 -/
theorem deltaE_dup_counterexample :
    (update exT exS [0, 0] []).2 = none ∧ deltaE exT exS [0, 0] [] = .ok 0 ∧
      energy exT (update exT exS [0, 0] []).1 - energy exT exS = 5 := by decide +kernel

/-- a site listed on both sides breaks exactness: trial says 5, the update changes nothing -/
theorem deltaE_overlap_counterexample :
    deltaE exT exS [0] [0] = .ok 5 ∧
      energy exT (update exT exS [0] [0]).1 - energy exT exS = 0 := by decide +kernel

/-- with the precondition the concrete instance agrees (instance of `deltaE_exact`) -/
example : deltaE exT exS [0] [1] = .ok (energy exT (update exT exS [0] [1]).1 - energy exT exS) :=
  (deltaE_exact (start_inv exT [0, 1, 0] exS rfl (by decide +kernel)) [0] [1]
    (by decide) (by decide) (by intro v hv; cases hv)).2

end Onsager.C33
