/-
  C36 — translator half of the tie.  Generated/C36Facts.lean is rewritten from the current source on
  every run (Python `ast`): the form of each `__ne__`, which attributes `__eq__` compares exactly /
  through `np.allclose`, and which attributes `__hash__` uses.  These obligations say that the source
  has the structure the model in OnsagerModel/C36.lean assumes.
-/
import Generated.C36Facts
import OnsagerModel.C36

namespace Onsager.C36
open Generated.C36

/-- every `__ne__` is the negation form (Cluster: derived by Python).  vacancyThermoKinetics used the
    bare-name form that raises `NameError` (finding F1, fixed in /repo a7fc25b); a regression breaks this
    obligation and the `!=`-is-negation oracle. -/
theorem src_ne_forms :
    neGroupOp = 0 ∧ nePairState = 0 ∧ neClusterSite = 0 ∧ neCluster = 3 ∧ neVTK = 0 := by
  decide

/-- hence `!=` is the negation of `==` for all five types -/
theorem src_ne_is_negation (e : Bool) :
    neModel neGroupOp e = .ok (!e) ∧ neModel nePairState e = .ok (!e) ∧
    neModel neClusterSite e = .ok (!e) ∧ neModel neCluster e = .ok (!e) ∧ neModel neVTK e = .ok (!e) := by
  cases e <;> exact ⟨rfl, rfl, rfl, rfl, rfl⟩

/-- `__eq__` compares exactly the fields the model compares, in the same way -/
theorem src_eq_fields :
    exactPairState = ["R", "i", "j"] ∧ tolPairState = [] ∧
    exactClusterSite = ["R", "ci"] ∧ tolClusterSite = [] ∧
    exactGroupOp = ["indexmap", "rot"] ∧ tolGroupOp = ["cartrot", "trans"] ∧
    exactVTK = [] ∧ tolVTK = ["betaene", "betaeneT", "pre", "preT"] := by
  decide

/-- `__hash__` of PairState, ClusterSite and GroupOp only uses exactly-compared fields (the source-level
    reason why equal values hash equally); vacancyThermoKinetics hashes its four arrays -/
theorem src_hash_within_exact :
    hashPairState.all (exactPairState.contains ·) = true ∧
    hashClusterSite.all (exactClusterSite.contains ·) = true ∧
    hashGroupOp.all (exactGroupOp.contains ·) = true ∧
    hashPairState = ["R", "i", "j"] ∧ hashClusterSite = ["R", "ci"] ∧ hashGroupOp = ["indexmap", "rot"] ∧
    hashVTK = ["betaene", "betaeneT", "pre", "preT"] := by
  decide

/-- the key structure of `Cluster.__init__` is one of the two recognised forms (transition pair of a
    non-vacancy transition-state cluster unmarked, or marked with `(-2,)`); the model's `Cluster.make` is
    instantiated with this fact by the driver, and the cluster theorems hold for either value. -/
theorem src_cluster_key_form : tsPairMark = 0 ∨ tsPairMark = 1 := by decide

end Onsager.C36
