/-
  C36 — translator half of the tie.  Generated/C36Facts.lean is rewritten from the current source on
  every run (Python `ast`): the form of each `__ne__`, which attributes `__eq__` compares exactly /
  through `np.allclose`, and which attributes `__hash__` uses.  These obligations say that the source
  has the structure the model in OnsagerModel/C36.lean assumes.
-/
import Generated.C36Facts
import OnsagerModel.C36

namespace Onsager.C36
open Generated.C36

/-- every `__ne__` has a recognised form; for the discrete types and GroupOp it is the negation form.
    (vacancyThermoKinetics: negation form, or the bare-name form that raises — finding F1.) -/
theorem src_ne_forms :
    neGroupOp = 0 ∧ nePairState = 0 ∧ neClusterSite = 0 ∧ neCluster = 3 ∧ (neVTK = 0 ∨ neVTK = 1) := by
  decide

/-- hence `!=` is the negation of `==` for GroupOp, PairState, ClusterSite, Cluster -/
theorem src_ne_is_negation (e : Bool) :
    neModel neGroupOp e = .ok (!e) ∧ neModel nePairState e = .ok (!e) ∧
    neModel neClusterSite e = .ok (!e) ∧ neModel neCluster e = .ok (!e) := by
  cases e <;> exact ⟨rfl, rfl, rfl, rfl⟩

/-- `__eq__` compares exactly the fields the model compares, in the same way -/
theorem src_eq_fields :
    exactPairState = ["R", "i", "j"] ∧ tolPairState = [] ∧
    exactClusterSite = ["R", "ci"] ∧ tolClusterSite = [] ∧
    exactGroupOp = ["indexmap", "rot"] ∧ tolGroupOp = ["cartrot", "trans"] ∧
    exactVTK = [] ∧ tolVTK = ["betaene", "betaeneT", "pre", "preT"] := by
  decide

/-- `__hash__` of PairState, ClusterSite and GroupOp only uses exactly-compared fields (the source-level
    reason why equal values hash equally); vacancyThermoKinetics hashes its four arrays -/
theorem src_hash_within_exact :
    hashPairState.all (exactPairState.contains ·) = true ∧
    hashClusterSite.all (exactClusterSite.contains ·) = true ∧
    hashGroupOp.all (exactGroupOp.contains ·) = true ∧
    hashPairState = ["R", "i", "j"] ∧ hashClusterSite = ["R", "ci"] ∧ hashGroupOp = ["indexmap", "rot"] ∧
    hashVTK = ["betaene", "betaeneT", "pre", "preT"] := by
  decide

end Onsager.C36
