/-
  C10 — structural and linear-algebra facts around the Green function:
    op_translate, solves_everywhere, superposition     translation structure in real space
    G_scale, G_symm, G_herm, G_group_invariant, G_group_covariant   the k-space inverse
    symmetrised_invariant, symmetrised_solves           the symmetrised inverse transform (lines 395–398)
    block_inverse_taylor                                Schur block inverse (BlockInvertOmegaTaylor)
-/
import Mathlib.Data.Matrix.Block
import Mathlib.LinearAlgebra.Matrix.ConjTranspose
import Mathlib.Algebra.BigOperators.GroupWithZero.Action
import Mathlib.Algebra.Group.Action.Defs
import Mathlib.Tactic.Abel
import OnsagerProofs.C10

namespace Onsager.C10

set_option linter.unusedSectionVars false

open Finset Matrix

/-! ### Translation structure in real space -/
section Real
variable {ι S Γ K : Type*} [Fintype ι] [DecidableEq S] [AddCommGroup Γ] [DecidableEq Γ] [CommRing K]

/-- The lattice operator on functions of a state `(site, cell)`. -/
def Net.op (W : Net ι S Γ K) (f : S × Γ → K) : S × Γ → K := fun p =>
  (∑ a, if W.src a = p.1 then W.r a * f (W.dst a, p.2 + W.d a) else 0) + W.esc p.1 * f p

def translate (t : Γ) (f : S × Γ → K) : S × Γ → K := fun p => f (p.1, p.2 + t)

/-- convolution operators commute with translations -/
theorem op_translate (W : Net ι S Γ K) (t : Γ) (f : S × Γ → K) :
    W.op (translate t f) = translate t (W.op f) := by
  funext p
  simp only [Net.op, translate, add_right_comm]

/-- two-point function built from the origin-source solution by translation invariance -/
def fullG (G : S → S → Γ → K) (tgt : S × Γ) : S × Γ → K := fun p => G p.1 tgt.1 (tgt.2 - p.2)

theorem op_fullG (W : Net ι S Γ K) (G : S → S → Γ → K) (tgt p : S × Γ) :
    W.op (fullG G tgt) p = W.applyL G p.1 tgt.1 (tgt.2 - p.2) := by
  simp only [Net.op, fullG, Net.applyL, sub_add_eq_sub_sub]

/-- `solves_everywhere`: solving the equation for separations (source at the origin cell) gives a
    solution for every source state. -/
theorem solves_everywhere (W : Net ι S Γ K) (G : S → S → Γ → K)
    (h : ∀ i j z, W.applyL G i j z = if i = j ∧ z = 0 then 1 else 0) (tgt p : S × Γ) :
    W.op (fullG G tgt) p = if p = tgt then 1 else 0 := by
  rw [op_fullG, h]
  have : (p.1 = tgt.1 ∧ tgt.2 - p.2 = 0) ↔ p = tgt := by
    rw [sub_eq_zero, Prod.ext_iff]; constructor
    · rintro ⟨a, b⟩; exact ⟨a, b.symm⟩
    · rintro ⟨a, b⟩; exact ⟨a, b.symm⟩
  simp only [this]

theorem op_add (W : Net ι S Γ K) (f g : S × Γ → K) : W.op (f + g) = W.op f + W.op g := by
  funext p
  simp only [Net.op, Pi.add_apply]
  have : ∀ a : ι, (if W.src a = p.1 then W.r a * (f (W.dst a, p.2 + W.d a) + g (W.dst a, p.2 + W.d a)) else 0)
      = (if W.src a = p.1 then W.r a * f (W.dst a, p.2 + W.d a) else 0)
        + (if W.src a = p.1 then W.r a * g (W.dst a, p.2 + W.d a) else 0) := by
    intro a; split <;> ring
  rw [Finset.sum_congr rfl (fun a _ => this a), Finset.sum_add_distrib]; ring

theorem op_smul (W : Net ι S Γ K) (c : K) (f : S × Γ → K) : W.op (c • f) = c • W.op f := by
  funext p
  simp only [Net.op, Pi.smul_apply, smul_eq_mul, mul_add, Finset.mul_sum]
  congr 1
  · refine Finset.sum_congr rfl fun a _ => ?_
    split <;> ring
  · ring

theorem op_zero (W : Net ι S Γ K) : W.op (0 : S × Γ → K) = 0 := by
  funext p; simp [Net.op]

theorem op_sum (W : Net ι S Γ K) {τ : Type*} (T : Finset τ) (f : τ → S × Γ → K) :
    W.op (∑ t ∈ T, f t) = ∑ t ∈ T, W.op (f t) := by
  classical
  induction T using Finset.induction_on with
  | empty => simp [op_zero]
  | insert a s ha ih => rw [Finset.sum_insert ha, Finset.sum_insert ha, op_add, ih]

/-- `superposition`: the translated origin solution is a right inverse on every finitely supported
    source distribution. -/
theorem superposition (W : Net ι S Γ K) (G : S → S → Γ → K)
    (h : ∀ i j z, W.applyL G i j z = if i = j ∧ z = 0 then 1 else 0)
    (T : Finset (S × Γ)) (c : S × Γ → K) (p : S × Γ) :
    W.op (∑ t ∈ T, c t • fullG G t) p = if p ∈ T then c p else 0 := by
  rw [op_sum, Finset.sum_apply]
  simp only [op_smul, Pi.smul_apply, smul_eq_mul, solves_everywhere W G h, mul_ite, mul_one, mul_zero]
  rw [Finset.sum_ite_eq]

end Real

/-! ### Finite-dimensional linear algebra of the k-space inverse -/
section LinAlg
variable {S F : Type*} [Fintype S] [DecidableEq S]

/-- `G_scale`: `ω ↦ λ ω ⇒ G ↦ G / λ` (covers the `maxrate` normalisation and uniform rate scaling). -/
theorem G_scale [Field F] {A B : Matrix S S F} (h : A * B = 1) (lam : F) (hl : lam ≠ 0) :
    (lam • A) * (lam⁻¹ • B) = 1 := by
  rw [Matrix.smul_mul, Matrix.mul_smul, smul_smul, mul_inv_cancel₀ hl, one_smul, h]

/-- `G_symm`: symmetric operator ⇒ symmetric inverse (endpoint swap). -/
theorem G_symm [CommRing F] {A B : Matrix S S F} (h : A * B = 1) (hA : Aᵀ = A) : Bᵀ = B := by
  have h' : B * A = 1 := mul_eq_one_comm.mp h
  have h2 : Bᵀ * A = 1 := by
    have := congrArg Matrix.transpose h'
    rw [Matrix.transpose_mul, hA, Matrix.transpose_one] at this
    exact mul_eq_one_comm.mp this
  calc Bᵀ = Bᵀ * (A * B) := by rw [h, Matrix.mul_one]
    _ = (Bᵀ * A) * B := by rw [Matrix.mul_assoc]
    _ = B := by rw [h2, Matrix.one_mul]

/-- Hermitian version: `ω(q)ᴴ = ω(q)` ⇒ `g(q)ᴴ = g(q)`, i.e. `G(i,j,dx) = G(j,i,−dx)` after the k-sum. -/
theorem G_herm [CommRing F] [StarRing F] {A B : Matrix S S F} (h : A * B = 1) (hA : Aᴴ = A) : Bᴴ = B := by
  have h' : B * A = 1 := mul_eq_one_comm.mp h
  have h2 : Bᴴ * A = 1 := by
    have := congrArg Matrix.conjTranspose h'
    rw [Matrix.conjTranspose_mul, hA, Matrix.conjTranspose_one] at this
    exact mul_eq_one_comm.mp this
  calc Bᴴ = Bᴴ * (A * B) := by rw [h, Matrix.mul_one]
    _ = (Bᴴ * A) * B := by rw [Matrix.mul_assoc]
    _ = B := by rw [h2, Matrix.one_mul]

/-- `G_group_invariant` (commuting form): if the operator commutes with `P` (a site permutation
    matrix of a symmetry that fixes `q`), so does its inverse. -/
theorem G_group_invariant [CommRing F] {A B P : Matrix S S F} (h : A * B = 1) (hP : P * A = A * P) :
    P * B = B * P := by
  have h' : B * A = 1 := mul_eq_one_comm.mp h
  calc P * B = (B * A) * (P * B) := by rw [h', Matrix.one_mul]
    _ = B * ((A * P) * B) := by simp only [Matrix.mul_assoc]
    _ = B * ((P * A) * B) := by rw [hP]
    _ = B * P * (A * B) := by simp only [Matrix.mul_assoc]
    _ = B * P := by rw [h, Matrix.mul_one]

/-- `G_group_covariant`: `ω(gq) = P ω(q) P⁻¹` ⇒ `g(gq) = P g(q) P⁻¹` (any invertible `P`). -/
theorem G_group_covariant [CommRing F] {A B A' B' P Q : Matrix S S F} (h : A * B = 1) (hPQ : P * Q = 1)
    (hA' : A' = P * A * Q) (h' : A' * B' = 1) : B' = P * B * Q := by
  have hQP : Q * P = 1 := mul_eq_one_comm.mp hPQ
  have hBA : B * A = 1 := mul_eq_one_comm.mp h
  have hl : (P * B * Q) * A' = 1 := by
    rw [hA']
    calc P * B * Q * (P * A * Q) = P * B * (Q * P) * A * Q := by simp only [Matrix.mul_assoc]
      _ = P * (B * A) * Q := by rw [hQP]; simp only [Matrix.mul_assoc, Matrix.one_mul]
      _ = 1 := by rw [hBA, Matrix.mul_one, hPQ]
  calc B' = (P * B * Q * A') * B' := by rw [hl, Matrix.one_mul]
    _ = P * B * Q * (A' * B') := by simp only [Matrix.mul_assoc]
    _ = P * B * Q := by rw [h', Matrix.mul_one]

end LinAlg

/-! ### Symmetrised inverse transform (lines 395–398) -/
section Symm
variable {G X K : Type*} [Group G] [Fintype G] [MulAction G X]

/-- the sum over the group of `F (g • x)` is invariant under the group -/
theorem symmetrised_invariant [AddCommMonoid K] (F : X → K) (h : G) (x : X) :
    ∑ g : G, F (g • h • x) = ∑ g : G, F (g • x) := by
  simp only [← mul_smul]
  exact Fintype.sum_equiv (Equiv.mulRight h) _ _ (fun g => rfl)

/-- symmetrising a solution of a group-invariant linear equation gives `|G|` times a solution -/
theorem symmetrised_solves {V : Type*} [CommRing K] [AddCommGroup V] [Module K V]
    (Wl : V →ₗ[K] V) (ρ : G → V →ₗ[K] V) (hc : ∀ g v, Wl (ρ g v) = ρ g (Wl v))
    (b f : V) (hb : ∀ g, ρ g b = b) (hf : Wl f = b) :
    Wl (∑ g : G, ρ g f) = Fintype.card G • b := by
  rw [map_sum]
  simp only [hc, hf, hb, Finset.sum_const, Finset.card_univ]

end Symm

/-! ### Block inversion (BlockInvertOmegaTaylor, lines 528–536) -/
section Schur
variable {m n α : Type*} [Fintype m] [Fintype n] [DecidableEq m] [DecidableEq n] [Ring α]

/-- `block_inverse_taylor`: with `D = dd − dr rr⁻¹ rd`, the four blocks assembled by the code are a
    right inverse of the rotated `ω` (exact inverses; the code truncates each block at order 0). -/
theorem block_inverse_taylor (dd : Matrix m m α) (dr : Matrix m n α) (rd : Matrix n m α) (rr : Matrix n n α)
    (Di : Matrix m m α) (rri : Matrix n n α)
    (h1 : rr * rri = 1) (h3 : (dd - dr * rri * rd) * Di = 1) :
    fromBlocks dd dr rd rr *
      fromBlocks Di (-(Di * dr * rri)) (-(rri * rd * Di)) (rri + rri * rd * Di * dr * rri) = 1 := by
  rw [fromBlocks_multiply, ← fromBlocks_one]
  have e11 : dd * Di + dr * -(rri * rd * Di) = 1 := by
    rw [← h3, Matrix.sub_mul]; simp only [Matrix.mul_neg, Matrix.mul_assoc]; abel
  have e12 : dd * -(Di * dr * rri) + dr * (rri + rri * rd * Di * dr * rri) = 0 := by
    have : dd * -(Di * dr * rri) + dr * (rri + rri * rd * Di * dr * rri)
        = -(((dd - dr * rri * rd) * Di) * dr * rri) + dr * rri := by
      simp only [Matrix.mul_neg, Matrix.mul_add, Matrix.sub_mul, Matrix.mul_assoc]; abel
    rw [this, h3, Matrix.one_mul]; abel
  have e21 : rd * Di + rr * -(rri * rd * Di) = 0 := by
    have : rr * -(rri * rd * Di) = -((rr * rri) * rd * Di) := by
      simp only [Matrix.mul_neg, Matrix.mul_assoc]
    rw [this, h1, Matrix.one_mul]; abel
  have e22 : rd * -(Di * dr * rri) + rr * (rri + rri * rd * Di * dr * rri) = 1 := by
    have : rd * -(Di * dr * rri) + rr * (rri + rri * rd * Di * dr * rri)
        = -(rd * Di * dr * rri) + (rr * rri + (rr * rri) * rd * Di * dr * rri) := by
      simp only [Matrix.mul_neg, Matrix.mul_add, Matrix.mul_assoc]
    rw [this, h1, Matrix.one_mul]; abel
  rw [e11, e12, e21, e22]

end Schur

end Onsager.C10
