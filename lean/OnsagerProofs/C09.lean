/-
  C09 — Equivalent descriptions of the same crystal give the same transport (interstitial model).

  `equiv_form_eq`: whenever the decidable `equivcheck` accepts — a genuine site bijection carries the
  network of description 1 projected on `u` onto the network of description 2 projected on `u'` —
  the exact transport forms of the two descriptions are equal.  Covers atom permutations and
  unimodular changes of the lattice basis (u' = U^{-T} u).  Descriptions with a different number of
  sites per cell (supercells, conventional cells) are compared through their exact model values
  instance by instance and through the implementation (C09_partial); vacancy-mediated coefficients
  through the implementation only.
-/
import OnsagerModel.C09
import OnsagerProofs.C03
import OnsagerProofs.Lemmas.Cover

namespace Onsager.C09
open Onsager.C02 Onsager.Var

theorem equiv_form_eq (inp d : Input) (u u' : List ℚ) (perm : List Nat) (D D' : ℚ)
    (hc : equivcheck inp d u u' perm = true)
    (h : form inp u u = some D) (h' : form (withData inp d) u' u' = some D') : D = D' := by
  unfold equivcheck at hc
  simp only [Bool.and_eq_true, decide_eq_true_eq] at hc
  obtain ⟨_, hc⟩ := hc
  cases hl : network inp u u with
  | none => simp [hl] at hc
  | some l =>
    cases hl' : network (withData inp d) u' u' with
    | none => simp [hl, hl'] at hc
    | some l' =>
      simp only [hl, hl', Bool.and_eq_true] at hc
      have hperm := List.isPerm_iff.1 hc.1
      have hinj := C03.permFun_injective inp.n perm hperm
      have hbij : Function.Bijective (C03.permFun inp.n perm) :=
        ⟨hinj, Finite.injective_iff_surjective.1 hinj⟩
      have hπ : (l.map (Jump.relabel (Equiv.ofBijective _ hbij))).Perm l' := by
        have := List.isPerm_iff.1 hc.2
        simpa using this
      obtain ⟨l0, ξ, hl0, hst, hp, hr, hD, _⟩ := form_eq_Qmin inp u D h
      obtain ⟨l0', ξ', hl0', hst', hp', hr', hD', _⟩ := form_eq_Qmin (withData inp d) u' D' h'
      rw [hl] at hl0; cases hl0
      rw [hl'] at hl0'; cases hl0'
      rw [hD, hD']
      exact Qmin_relabel (Equiv.ofBijective _ hbij) l l' hπ hp hr hp' hr' ξ ξ' hst hst'

/-- Fibre sizes: the list count used by the model is the cardinality used by the covering lemma. -/
theorem card_fibre {n' n : Nat} (π : Fin n' → Fin n) (k : Fin n) :
    (Finset.univ.filter (fun i => π i = k)).card = (List.finRange n').countP (fun i => π i = k) := by
  rw [List.countP_eq_length_filter]
  rfl

/-- **Supercell / conventional-cell descriptions.** Whenever the decidable `covercheck` accepts — description 2 has
    m sites over every site of description 1 and its jumps are locally the jumps of description 1 with the
    per-cell probability divided by m — the exact transport forms of the two descriptions are equal. -/
theorem cover_form_eq (inp d : Input) (u u' : List ℚ) (proj : List Nat) (m : Nat) (D D' : ℚ)
    (hc : covercheck inp d u u' proj m = true)
    (h : form inp u u = some D) (h' : form d u' u' = some D') : D = D' := by
  unfold covercheck at hc
  split at hc
  case isFalse => exact absurd hc (by simp)
  case isTrue hn =>
  simp only [Bool.and_eq_true, decide_eq_true_eq, List.all_eq_true, beq_iff_eq] at hc
  obtain ⟨⟨hm, hfib⟩, hc⟩ := hc
  cases hl : network inp u u with
  | none => simp [hl] at hc
  | some l =>
    cases hl' : network d u' u' with
    | none => simp [hl, hl'] at hc
    | some l' =>
      simp only [hl, hl', List.all_eq_true] at hc
      obtain ⟨l0, ξ, hl0, hst, hp, hr, hD, _⟩ := form_eq_Qmin inp u D h
      obtain ⟨l0', ξ', hl0', hst', hp', hr', hD', _⟩ := form_eq_Qmin d u' D' h'
      rw [hl] at hl0; cases hl0
      rw [hl'] at hl0'; cases hl0'
      rw [hD, hD']
      have hm' : ((m : ℕ) : ℚ) ≠ 0 := by exact_mod_cast (Nat.pos_iff_ne_zero.1 hm)
      have hone : ((m : ℕ) : ℚ) * (1 / (m : ℚ)) = 1 := by field_simp
      rw [← one_mul (Q l ξ), ← hone]
      symm
      refine Qmin_cover (projFun d.n inp.n hn proj) m (1 / (m : ℚ)) ?_ l l' ?_ hp' hr' ξ ξ' hst hst'
      · intro k
        rw [card_fibre]
        exact hfib k (List.mem_finRange k)
      · intro i
        exact List.isPerm_iff.1 (hc i (List.mem_finRange i))

end Onsager.C09
