/-
  C28 — translator half of the tie.  Generated/C28Facts.lean is rewritten from
  onsager/supercell.py on every run; these obligations say that the species guard found in the
  source is the specified one (vacancy -1 … last solute nchem-1), so that the source's `setocc`
  is the model's `setocc` about which OnsagerProofs/C28.lean proves the invariant.
-/
import Generated.C28Facts
import OnsagerModel.C28

namespace Onsager.C28

theorem src_guard_is_spec :
    Generated.C28.parsed = true ∧
    ∀ n k : Int, Generated.C28.srcLo n k = -1 ∧ Generated.C28.srcHi n k = n - 1 := by
  refine ⟨by decide, ?_⟩
  intro n k
  constructor <;> (simp only [Generated.C28.srcLo, Generated.C28.srcHi] <;> omega)

/-- The source's `setocc` (guard as extracted) is the specification's `setocc`. -/
theorem src_setocc_eq_spec (s : Cell) (k : Int) (ind : Nat) (c : Int) :
    setoccG (Generated.C28.srcLo s.nchem k) (Generated.C28.srcHi s.nchem k) s ind c = setocc s ind c := by
  have h := src_guard_is_spec.2 (s.nchem : Int) k
  rw [h.1, h.2]
  rfl

end Onsager.C28
