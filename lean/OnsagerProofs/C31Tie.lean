/-
  C31 — translator tie.  `Generated/C31Facts.lean` holds, read from the current source:
    srcForm       classification of the search-box statement of `makeclusters` (as in C21)
    tsPairMarked  whether `Cluster.__init__` marks the transition pair of a non-vacancy TS cluster
                  in the equality map
  Obligations (hold for either state of the source; an unrecognised box formula breaks `src_form_known`):
  * `src_box_verdict`  |a_i| form: kernel-checked incompleteness witness; dual-basis forms: complete
  * `ts_mark_verdict`  unmarked: `__eq__` identifies two geometrically different TS clusters (witness);
                       marked: the same pair is distinguished
-/
import OnsagerProofs.C31
import OnsagerProofs.C21Tie
import Generated.C31Facts

set_option linter.unusedTactic false
set_option linter.unreachableTactic false

namespace Onsager.C31
open Onsager.Geom

theorem src_form_known : Generated.C31.srcForm ∈ [1, 2, 3, 4] := by decide

/-- every site within the cutoff of an atom lies in the source's box — for all valid crystals whose
    basis coordinates differ by at most 1 per axis -/
def SrcBoxComplete (form : Nat) : Prop :=
  ∀ (d : Nat) (cr : Crystal d), cr.valid = true → (∀ k, cr.dumax.get k ≤ 1) →
    ∀ (r2 : Rat), 0 ≤ r2 → ∀ (n : ZV d) (du : QV d), (∀ k, |du.get k| ≤ cr.dumax.get k) →
      norm2 cr.g (vof fun k => (n.get k : Rat) + du.get k) < r2 → inBox (C21.srcBox form cr r2) n = true

theorem dual_forms_complete (form : Nat) (h2 : 2 ≤ form) : SrcBoxComplete form := by
  intro d cr hv hdu r2 hr n du hd hlt
  obtain ⟨hs, hi⟩ := C21.valid_symm_inv cr hv
  have hok := boxB_ok (form - 2) cr.g cr.h hs hi (C21.valid_psd cr hv) r2 hr cr.dumax hdu
  have : C21.srcBox form cr r2 = boxB (form - 2) cr.h r2 := by
    unfold C21.srcBox; rw [if_neg (by omega)]
  rw [this]
  exact boxOK_complete cr.g cr.h hs hi (C21.valid_psd cr hv) r2 cr.dumax _ hok n du hd hlt

theorem form1_incomplete : ¬ SrcBoxComplete 1 := by
  intro h
  have := h 3 C21.witnessCr (by decide +kernel) (by decide +kernel) (10201/10000) (by norm_num)
    C21.witnessN (vof fun _ => 0) (by decide +kernel) (by decide +kernel)
  revert this
  decide +kernel

theorem src_box_verdict :
    (Generated.C31.srcForm = 1 ∧ ¬ SrcBoxComplete 1) ∨
    (2 ≤ Generated.C31.srcForm ∧ SrcBoxComplete Generated.C31.srcForm) := by
  first
  | exact Or.inl ⟨by decide, form1_incomplete⟩
  | exact Or.inr ⟨by decide, dual_forms_complete _ (by decide)⟩

/-- the verdict on the equality of transition-state clusters for the source's marking -/
theorem ts_mark_verdict :
    let a := Cluster.mk' [s1 0, s1 1, s1 2] true false
    let b := Cluster.mk' [s1 1, s1 2, s1 0] true false
    (Generated.C31.tsPairMarked = false ∧ a.eqv Generated.C31.tsPairMarked b = true) ∨
    (Generated.C31.tsPairMarked = true ∧ a.eqv Generated.C31.tsPairMarked b = false) := by
  decide +kernel

end Onsager.C31
