/-
  C15 — theorems about tags (OnsagerModel/C15.lean).

  * `mkTagDict_ok_iff_nodup`  generatetags builds its dictionary iff all generated tags are distinct (else raises)
  * `tagdict_lookup` / `tagdict_unique`  every tag maps to its class index and type, and to nothing else
  * `first_listed_wins`       on several supplied members the first in CLASS order wins (what the code does)
  * `one_member_suffices`     any single member tag of a class reproduces exactly the user's pair
  * `no_member_default`, `fillClass_source`, `fillType_get`   nothing else can end up in a class
  * `omega12_override_after_limb`, `omega1_entry`   two-phase fill around makeLIMBpreene
  * `usersOf_eq_members`, `report_exact`   missing / duplicate / bad are exact
  * `fmtMilli_injective`, `milli_nearest`, `milli_close`, `fmt_injective_on_grid`   the `{:+06.3f}` text
-/
import OnsagerModel.C15
import Mathlib.Data.List.Nodup
import Mathlib.Tactic.Linarith
import Mathlib.Data.Rat.Defs
import Mathlib.Algebra.Order.Field.Rat
import Mathlib.Tactic.FieldSimp
import Mathlib.Tactic.Ring
import Mathlib.Tactic.LinearCombination
import Mathlib.Algebra.Order.Ring.Abs

namespace Onsager.C15


/-! ### tag dictionary -/

theorem lookup_isSome_iff {β} (d : List (Tag × β)) (t : Tag) : (lookup d t).isSome ↔ t ∈ d.map (·.1) := by
  induction d with
  | nil => simp [lookup]
  | cons a r ih =>
    obtain ⟨t', v⟩ := a
    simp only [lookup, List.map_cons, List.mem_cons]
    by_cases h : t' = t
    · simp [h]
    · simp only [if_neg h, ih]
      constructor
      · intro x; exact Or.inr x
      · rintro (x | x)
        · exact absurd x.symm h
        · exact x

theorem lookup_eq_none_iff {β} (d : List (Tag × β)) (t : Tag) : lookup d t = none ↔ t ∉ d.map (·.1) := by
  rw [← lookup_isSome_iff]; cases lookup d t <;> simp

theorem lookup_of_mem_nodup {β} (d : List (Tag × β)) (hn : (d.map (·.1)).Nodup) {t : Tag} {v : β}
    (hm : (t, v) ∈ d) : lookup d t = some v := by
  induction d with
  | nil => cases hm
  | cons a r ih =>
    obtain ⟨t', v'⟩ := a
    simp only [List.map_cons, List.nodup_cons] at hn
    simp only [lookup]
    rcases List.mem_cons.mp hm with h | h
    · cases h; simp
    · have : t' ≠ t := by
        rintro rfl
        exact hn.1 (List.mem_map.mpr ⟨(t', v), h, rfl⟩)
      simp only [if_neg this]
      exact ih hn.2 h

theorem lookup_some_mem {β} (d : List (Tag × β)) {t : Tag} {v : β} (h : lookup d t = some v) : (t, v) ∈ d := by
  induction d with
  | nil => simp [lookup] at h
  | cons a r ih =>
    obtain ⟨t', v'⟩ := a
    simp only [lookup] at h
    split at h
    · rename_i e; cases h; subst e; exact List.mem_cons_self
    · exact List.mem_cons_of_mem _ (ih h)

/-- the insertion loop succeeds exactly when no key repeats, and then the dictionary is the entry list itself -/
theorem mkDict_ok_iff {β} (es acc d : List (Tag × β)) :
    mkDict acc es = .ok d ↔ (d = acc ++ es ∧ (es.map (·.1)).Nodup ∧ ∀ t ∈ es.map (·.1), t ∉ acc.map (·.1)) := by
  induction es generalizing acc with
  | nil => simp [mkDict, eq_comm]
  | cons a r ih =>
    obtain ⟨t, v⟩ := a
    simp only [mkDict]
    by_cases h : (lookup acc t).isSome
    · simp only [h, if_true]
      constructor
      · intro x; cases x
      · rintro ⟨-, -, h3⟩
        exact absurd ((lookup_isSome_iff acc t).mp h) (h3 t (by simp))
    · simp only [h]
      have hnot : t ∉ acc.map (·.1) := fun x => h ((lookup_isSome_iff acc t).mpr x)
      rw [show (if false = true then Except.error t else mkDict (acc ++ [(t, v)]) r) = mkDict (acc ++ [(t, v)]) r from rfl, ih]
      simp only [List.append_assoc, List.singleton_append, List.map_cons, List.nodup_cons, List.mem_cons,
        List.map_append, List.mem_append, forall_eq_or_imp]
      constructor
      · rintro ⟨rfl, h2, h3⟩
        refine ⟨rfl, ⟨fun x => (h3 t x) (Or.inr (by simp)), h2⟩, hnot, fun t' ht' x => h3 t' ht' (Or.inl x)⟩
      · rintro ⟨rfl, ⟨h1, h2⟩, -, h4⟩
        refine ⟨rfl, h2, fun t' ht' x => ?_⟩
        rcases x with x | x
        · exact h4 t' ht' x
        · simp at x; subst x; exact h1 ht'

theorem mkDict_error_or_ok {β} (es acc : List (Tag × β)) :
    (∃ d, mkDict acc es = .ok d) ∨ (∃ t, mkDict acc es = .error t) := by
  cases h : mkDict acc es with
  | ok d => exact Or.inl ⟨d, rfl⟩
  | error t => exact Or.inr ⟨t, rfl⟩

/-- **`generatetags` builds a dictionary iff every generated tag is unique** (otherwise it raises),
    and then the dictionary lists every tag exactly once. -/
theorem mkTagDict_ok_iff_nodup (tags : Tags) :
    (∃ d, mkTagDict tags = .ok d) ↔ ((entries tags).map (·.1)).Nodup := by
  unfold mkTagDict
  constructor
  · rintro ⟨d, h⟩; exact ((mkDict_ok_iff _ _ _).mp h).2.1
  · intro h; exact ⟨[] ++ entries tags, (mkDict_ok_iff _ _ _).mpr ⟨rfl, h, by simp⟩⟩

theorem mkTagDict_ok_eq {tags : Tags} {d} (h : mkTagDict tags = .ok d) :
    d = entries tags ∧ ((entries tags).map (·.1)).Nodup := by
  have := (mkDict_ok_iff _ _ _).mp h
  exact ⟨by simpa using this.1, this.2.1⟩

theorem mem_classEntries {ty : String} {classes : List (List Tag)} {t : Tag} {i : Nat} {ty' : String} :
    (t, (i, ty')) ∈ classEntries ty classes ↔ ty' = ty ∧ ∃ cls, classes[i]? = some cls ∧ t ∈ cls := by
  unfold classEntries
  simp only [List.mem_flatten, List.mem_map, Prod.exists, List.mem_zipIdx_iff_getElem?]
  constructor
  · rintro ⟨l, ⟨cls, j, hj, rfl⟩, hm⟩
    simp only [List.mem_map, Prod.mk.injEq] at hm
    obtain ⟨t0, ht0, rfl, rfl, rfl⟩ := hm
    exact ⟨rfl, cls, by simpa using hj, ht0⟩
  · rintro ⟨rfl, cls, hc, ht⟩
    exact ⟨_, ⟨cls, i, by simpa using hc, rfl⟩, by simpa using ht⟩

theorem mem_entries {tags : Tags} {t : Tag} {i : Nat} {ty : String} :
    (t, (i, ty)) ∈ entries tags ↔ ∃ classes, (ty, classes) ∈ tags ∧ ∃ cls, classes[i]? = some cls ∧ t ∈ cls := by
  unfold entries
  simp only [List.mem_flatten, List.mem_map, Prod.exists]
  constructor
  · rintro ⟨l, ⟨ty0, classes, hm, rfl⟩, h⟩
    obtain ⟨rfl, cls, hc, ht⟩ := mem_classEntries.mp h
    exact ⟨classes, hm, cls, hc, ht⟩
  · rintro ⟨classes, hm, cls, hc, ht⟩
    exact ⟨_, ⟨ty, classes, hm, rfl⟩, mem_classEntries.mpr ⟨rfl, cls, hc, ht⟩⟩

/-- **every tag maps to its class index and type** -/
theorem tagdict_lookup {tags : Tags} {d} (h : mkTagDict tags = .ok d) {ty : String} {classes : List (List Tag)}
    (hty : (ty, classes) ∈ tags) {i : Nat} {cls : List Tag} (hc : classes[i]? = some cls) {t : Tag} (ht : t ∈ cls) :
    lookup d t = some (i, ty) := by
  obtain ⟨rfl, hn⟩ := mkTagDict_ok_eq h
  exact lookup_of_mem_nodup _ hn (mem_entries.mpr ⟨classes, hty, cls, hc, ht⟩)

/-- … and to nothing else: a tag names exactly one class -/
theorem tagdict_unique {tags : Tags} {d} (h : mkTagDict tags = .ok d) {t : Tag} {i : Nat} {ty : String}
    (hl : lookup d t = some (i, ty)) :
    ∃ classes, (ty, classes) ∈ tags ∧ ∃ cls, classes[i]? = some cls ∧ t ∈ cls := by
  obtain ⟨rfl, -⟩ := mkTagDict_ok_eq h
  exact mem_entries.mp (lookup_some_mem _ hl)



/-! ### tags2preene -/

/-- **what the code really does on duplicates**: the first member *in class order* that the user supplied wins
    (not the first in the user's dictionary). -/
theorem first_listed_wins (user : User) (pre post : List Tag) (t : Tag) (v : List Val)
    (hpre : ∀ t' ∈ pre, lookup user t' = none) (ht : lookup user t = some v) :
    firstHit user (pre ++ t :: post) = some v := by
  induction pre with
  | nil => simp [firstHit, ht]
  | cons a r ih =>
    have ha := hpre a List.mem_cons_self
    simp only [List.cons_append, firstHit, ha]
    exact ih (fun t' h => hpre t' (List.mem_cons_of_mem _ h))

theorem firstHit_none (user : User) (cls : List Tag) (h : ∀ t ∈ cls, lookup user t = none) :
    firstHit user cls = none := by
  induction cls with
  | nil => rfl
  | cons a r ih =>
    simp only [firstHit, h a List.mem_cons_self]
    exact ih (fun t ht => h t (List.mem_cons_of_mem _ ht))

/-- **any single member tag of a class reproduces exactly that data**: whichever member `t` of the class the
    user chose, if it is the only member present, the class receives the user's pair unchanged. -/
theorem one_member_suffices (user : User) (cls : List Tag) (t : Tag) (p e : Val) (dflt : Val × Val)
    (ht : t ∈ cls) (hv : lookup user t = some [p, e])
    (hothers : ∀ t' ∈ cls, t' ≠ t → lookup user t' = none) :
    fillClass user dflt cls = .ok (p, e) := by
  have : firstHit user cls = some [p, e] := by
    induction cls with
    | nil => cases ht
    | cons a r ih =>
      by_cases ha : a = t
      · subst ha; simp [firstHit, hv]
      · have hna := hothers a List.mem_cons_self ha
        simp only [firstHit, hna]
        rcases List.mem_cons.mp ht with h | h
        · exact absurd h.symm ha
        · exact ih h (fun t' ht' hne => hothers t' (List.mem_cons_of_mem _ ht') hne)
  simp [fillClass, this]

/-- a class for which the user supplied nothing keeps its default (1, 0) resp. its LIMB value -/
theorem no_member_default (user : User) (cls : List Tag) (dflt : Val × Val)
    (h : ∀ t ∈ cls, lookup user t = none) : fillClass user dflt cls = .ok dflt := by
  simp [fillClass, firstHit_none user cls h]

theorem firstHit_some (user : User) (cls : List Tag) (v : List Val) (h : firstHit user cls = some v) :
    ∃ t ∈ cls, lookup user t = some v := by
  induction cls with
  | nil => simp [firstHit] at h
  | cons a r ih =>
    simp only [firstHit] at h
    cases hl : lookup user a with
    | some w => rw [hl] at h; cases h; exact ⟨a, List.mem_cons_self, hl⟩
    | none =>
      rw [hl] at h
      obtain ⟨t, ht, htv⟩ := ih h
      exact ⟨t, List.mem_cons_of_mem _ ht, htv⟩

/-- the data of a class never comes from anywhere but the user's entry for one of ITS member tags, or the default -/
theorem fillClass_source (user : User) (cls : List Tag) (dflt x : Val × Val) (h : fillClass user dflt cls = .ok x) :
    x = dflt ∨ ∃ t ∈ cls, lookup user t = some [x.1, x.2] := by
  unfold fillClass at h
  split at h
  · left; cases h; rfl
  · right; cases h; rename_i p e hfe; exact firstHit_some _ _ _ hfe
  · cases h

/-- element-wise description of one phase of the fill -/
theorem fillType_get (user : User) (classes : List (List Tag)) (dflts out : List (Val × Val))
    (h : fillType user classes dflts = .ok out) :
    out.length = classes.length ∧
    ∀ (i : Nat) cls, classes[i]? = some cls → ∃ d x, dflts[i]? = some d ∧ out[i]? = some x ∧ fillClass user d cls = .ok x := by
  induction classes generalizing dflts out with
  | nil =>
    cases dflts <;> (simp only [fillType] at h; cases h; simp)
  | cons c cr ih =>
    cases dflts with
    | nil => simp [fillType] at h
    | cons d dr =>
      simp only [fillType, bind, Except.bind] at h
      cases hx : fillClass user d c with
      | error e => simp [hx] at h
      | ok x =>
        cases hxs : fillType user cr dr with
        | error e => simp [hx, hxs] at h
        | ok xs =>
          simp only [hx, hxs] at h
          cases h
          obtain ⟨hl, hg⟩ := ih dr xs hxs
          refine ⟨by simp [hl], ?_⟩
          intro i cls hi
          cases i with
          | zero => simp at hi; subst hi; exact ⟨d, x, rfl, rfl, hx⟩
          | succ j => simpa using hg j cls (by simpa using hi)

/-- **two-phase structure**: the four directly specified types are filled from the user's dictionary over the
    defaults (1, 0) and do not depend on LIMB; omega1/omega2 are filled from the user's dictionary OVER the LIMB
    back-fill computed from exactly that phase-1 result. -/
theorem omega12_override_after_limb (tags : Tags) (user : User) (limb) (th : Thermo)
    (h : tags2preene tags user limb = .ok th) :
    ∃ p1, phase1 tags user = .ok p1 ∧ th.v = p1.1 ∧ th.s = p1.2.1 ∧ th.sv = p1.2.2.1 ∧ th.t0 = p1.2.2.2 ∧
      fillType user (tagsOf tags "omega1") (limb p1).1 = .ok th.t1 ∧
      fillType user (tagsOf tags "omega2") (limb p1).2 = .ok th.t2 := by
  unfold tags2preene at h
  simp only [bind, Except.bind] at h
  cases hp : phase1 tags user with
  | error e => simp [hp] at h
  | ok p1 =>
    simp only [hp] at h
    cases h1 : fillType user (tagsOf tags "omega1") (limb p1).1 with
    | error e => simp [h1] at h
    | ok t1 =>
      cases h2 : fillType user (tagsOf tags "omega2") (limb p1).2 with
      | error e => simp [h1, h2] at h
      | ok t2 =>
        simp only [h1, h2] at h
        cases h
        exact ⟨p1, rfl, rfl, rfl, rfl, rfl, h1, h2⟩

/-- omega1 class `i`: one supplied member ⇒ the user's pair; none ⇒ the LIMB value. -/
theorem omega1_entry (tags : Tags) (user : User) (limb) (th : Thermo) (h : tags2preene tags user limb = .ok th)
    (i : Nat) (cls : List Tag) (hc : (tagsOf tags "omega1")[i]? = some cls) :
    (∀ t p e, t ∈ cls → lookup user t = some [p, e] → (∀ t' ∈ cls, t' ≠ t → lookup user t' = none) →
        th.t1[i]? = some (p, e)) ∧
    ((∀ t ∈ cls, lookup user t = none) → ∃ p1, phase1 tags user = .ok p1 ∧ th.t1[i]? = (limb p1).1[i]?) := by
  obtain ⟨p1, hp, -, -, -, -, h1, -⟩ := omega12_override_after_limb tags user limb th h
  obtain ⟨-, hg⟩ := fillType_get _ _ _ _ h1
  obtain ⟨d, x, hd, hx, hf⟩ := hg i cls hc
  constructor
  · intro t p e ht hv ho
    rw [one_member_suffices user cls t p e d ht hv ho] at hf
    cases hf; exact hx
  · intro hn
    rw [no_member_default user cls d hn] at hf
    cases hf
    exact ⟨p1, hp, by rw [hx, hd]⟩


/-! ### verbose report -/

theorem mem_tupleKeys {tags : Tags} {ty : String} {n : Nat} {cls : List Tag} :
    (ty, n, cls) ∈ tupleKeys tags ↔ ∃ classes, (ty, classes) ∈ tags ∧ classes[n]? = some cls := by
  unfold tupleKeys
  simp only [List.mem_flatten, List.mem_map, Prod.exists]
  constructor
  · rintro ⟨l, ⟨ty0, classes, hm, rfl⟩, h⟩
    simp only [List.mem_map, Prod.exists, List.mem_zipIdx_iff_getElem?, Prod.mk.injEq] at h
    obtain ⟨c, j, hj, rfl, rfl, rfl⟩ := h
    exact ⟨classes, hm, by simpa using hj⟩
  · rintro ⟨classes, hm, hc⟩
    refine ⟨_, ⟨ty, classes, hm, rfl⟩, ?_⟩
    simp only [List.mem_map, Prod.exists, List.mem_zipIdx_iff_getElem?, Prod.mk.injEq]
    exact ⟨cls, n, by simpa using hc, by simp⟩

theorem classes_unique {tags : Tags} (htyn : (tags.map (·.1)).Nodup) {ty : String} {c1 c2 : List (List Tag)}
    (h1 : (ty, c1) ∈ tags) (h2 : (ty, c2) ∈ tags) : c1 = c2 := by
  induction tags with
  | nil => cases h1
  | cons a r ih =>
    simp only [List.map_cons, List.nodup_cons] at htyn
    rcases List.mem_cons.mp h1 with e1 | e1 <;> rcases List.mem_cons.mp h2 with e2 | e2
    · rw [← e1] at e2; exact (Prod.mk.inj e2).2.symm
    · exact absurd (List.mem_map.mpr ⟨(ty, c2), e2, rfl⟩) (by rw [← e1] at htyn; exact htyn.1)
    · exact absurd (List.mem_map.mpr ⟨(ty, c1), e1, rfl⟩) (by rw [← e2] at htyn; exact htyn.1)
    · exact ih htyn.2 e1 e2

/-- **the user tags filed under a class are exactly the user's tags that are members of that class** -/
theorem usersOf_eq_members (tags : Tags) (user : User) (hn : ((entries tags).map (·.1)).Nodup)
    (htyn : (tags.map (·.1)).Nodup) {ty : String} {classes : List (List Tag)} (hty : (ty, classes) ∈ tags)
    {n : Nat} {cls : List Tag} (hc : classes[n]? = some cls) :
    usersOf (entries tags) user ty n = (user.map (·.1)).filter (fun u => decide (u ∈ cls)) := by
  unfold usersOf
  apply List.filter_congr
  intro u _
  by_cases hu : u ∈ cls
  · have := lookup_of_mem_nodup _ hn (mem_entries.mpr ⟨classes, hty, cls, hc, hu⟩)
    simp [this, hu]
  · simp only [hu, decide_false, beq_eq_false_iff_ne, ne_eq]
    intro hl
    obtain ⟨classes', hty', cls', hc', hu'⟩ := mem_entries.mp (lookup_some_mem _ hl)
    have := classes_unique htyn hty hty'
    subst this
    rw [hc] at hc'; cases hc'
    exact hu hu'

theorem mem_badTags (dict : List (Tag × (Nat × String))) (user : User) (t : Tag) :
    t ∈ badTags dict user ↔ t ∈ user.map (·.1) ∧ lookup dict t = none := by
  unfold badTags
  simp only [List.mem_filter, Option.isNone_iff_eq_none]

/-- membership in `missingdict[ty]` -/
def inMissing (m : List (String × List (List Tag))) (ty : String) (cls : List Tag) : Prop :=
  ∃ l, (ty, l) ∈ m ∧ cls ∈ l

theorem addMissing_mem (m : List (String × List (List Tag))) (ty ty' : String) (cls cls' : List Tag) :
    inMissing (addMissing m ty cls) ty' cls' ↔ inMissing m ty' cls' ∨ (ty' = ty ∧ cls' = cls) := by
  induction m with
  | nil => simp [addMissing, inMissing]
  | cons a r ih =>
    obtain ⟨ty0, l0⟩ := a
    unfold addMissing
    by_cases h : ty0 = ty
    · subst h
      simp only [if_true, inMissing, List.mem_cons, Prod.mk.injEq]
      constructor
      · rintro ⟨l, (⟨rfl, rfl⟩ | hm), hc⟩
        · rcases List.mem_append.mp hc with hc | hc
          · exact Or.inl ⟨l0, Or.inl ⟨rfl, rfl⟩, hc⟩
          · simp at hc; exact Or.inr ⟨rfl, hc⟩
        · exact Or.inl ⟨l, Or.inr hm, hc⟩
      · rintro (⟨l, (⟨rfl, rfl⟩ | hm), hc⟩ | ⟨rfl, rfl⟩)
        · exact ⟨l ++ [cls], Or.inl ⟨rfl, rfl⟩, List.mem_append_left _ hc⟩
        · exact ⟨l, Or.inr hm, hc⟩
        · exact ⟨l0 ++ [cls'], Or.inl ⟨rfl, rfl⟩, by simp⟩
    · simp only [if_neg h]
      have ih' := ih
      simp only [inMissing, List.mem_cons, Prod.mk.injEq] at ih' ⊢
      constructor
      · rintro ⟨l, (⟨rfl, rfl⟩ | hm), hc⟩
        · exact Or.inl ⟨l, Or.inl ⟨rfl, rfl⟩, hc⟩
        · rcases ih'.mp ⟨l, hm, hc⟩ with ⟨l', hm', hc'⟩ | hr
          · exact Or.inl ⟨l', Or.inr hm', hc'⟩
          · exact Or.inr hr
      · rintro (⟨l, (⟨rfl, rfl⟩ | hm), hc⟩ | hr)
        · exact ⟨l, Or.inl ⟨rfl, rfl⟩, hc⟩
        · obtain ⟨l', hm', hc'⟩ := ih'.mpr (Or.inl ⟨l, hm, hc⟩)
          exact ⟨l', Or.inr hm', hc'⟩
        · obtain ⟨l', hm', hc'⟩ := ih'.mpr (Or.inr hr)
          exact ⟨l', Or.inr hm', hc'⟩

theorem missing_fold (dict : List (Tag × (Nat × String))) (user : User) (keys : List (String × Nat × List Tag))
    (acc : List (String × List (List Tag))) (ty : String) (cls : List Tag) :
    inMissing (keys.foldl (fun m (k : String × Nat × List Tag) =>
        if (usersOf dict user k.1 k.2.1).isEmpty then addMissing m k.1 k.2.2 else m) acc) ty cls ↔
      inMissing acc ty cls ∨ ∃ n, (ty, n, cls) ∈ keys ∧ usersOf dict user ty n = [] := by
  induction keys generalizing acc with
  | nil => simp
  | cons k r ih =>
    obtain ⟨ty0, n0, cls0⟩ := k
    simp only [List.foldl_cons, List.mem_cons, Prod.mk.injEq]
    rw [ih]
    by_cases he : (usersOf dict user ty0 n0).isEmpty
    · simp only [he, if_true, addMissing_mem]
      have he' : usersOf dict user ty0 n0 = [] := List.isEmpty_iff.mp he
      constructor
      · rintro ((h | ⟨rfl, rfl⟩) | ⟨n, hm, hu⟩)
        · exact Or.inl h
        · exact Or.inr ⟨n0, Or.inl ⟨rfl, rfl, rfl⟩, he'⟩
        · exact Or.inr ⟨n, Or.inr hm, hu⟩
      · rintro (h | ⟨n, (⟨rfl, rfl, rfl⟩ | hm), hu⟩)
        · exact Or.inl (Or.inl h)
        · exact Or.inl (Or.inr ⟨rfl, rfl⟩)
        · exact Or.inr ⟨n, hm, hu⟩
    · simp only [he]
      have he' : usersOf dict user ty0 n0 ≠ [] := fun x => he (List.isEmpty_iff.mpr x)
      constructor
      · rintro (h | ⟨n, hm, hu⟩)
        · exact Or.inl h
        · exact Or.inr ⟨n, Or.inr hm, hu⟩
      · rintro (h | ⟨n, (⟨rfl, rfl, rfl⟩ | hm), hu⟩)
        · exact Or.inl h
        · exact absurd hu he'
        · exact Or.inr ⟨n, hm, hu⟩

theorem mem_missingOf (dict : List (Tag × (Nat × String))) (user : User) (keys : List (String × Nat × List Tag))
    (ty : String) (cls : List Tag) :
    inMissing (missingOf dict user keys) ty cls ↔ ∃ n, (ty, n, cls) ∈ keys ∧ usersOf dict user ty n = [] := by
  have := missing_fold dict user keys [] ty cls
  simp only [inMissing, List.not_mem_nil, false_and, exists_false, false_or] at this
  exact this

theorem mem_duplicatesOf (dict : List (Tag × (Nat × String))) (user : User) (keys : List (String × Nat × List Tag))
    (v : List Tag) :
    v ∈ duplicatesOf dict user keys ↔ ∃ ty n cls, (ty, n, cls) ∈ keys ∧ v = usersOf dict user ty n ∧ v.length > 1 := by
  unfold duplicatesOf
  simp only [List.mem_filter, List.mem_map, Prod.exists, decide_eq_true_eq]
  constructor
  · rintro ⟨⟨ty, n, cls, hm, rfl⟩, hl⟩; exact ⟨ty, n, cls, hm, rfl, hl⟩
  · rintro ⟨ty, n, cls, hm, rfl, hl⟩; exact ⟨⟨ty, n, cls, hm, rfl⟩, hl⟩

/-- **The verbose report is exact.**  With distinct generated tags (the calculator exists) and distinct type names:
    * `badtaglist`   = the user's tags that are a member of no class;
    * `missingdict`  = per type, exactly the classes none of whose member tags the user supplied;
    * `duplicatelist`= exactly, for every class with at least two of its member tags supplied, those tags. -/
theorem report_exact (tags : Tags) (user : User) (hn : ((entries tags).map (·.1)).Nodup)
    (htyn : (tags.map (·.1)).Nodup) :
    (∀ t, t ∈ badTags (entries tags) user ↔
        t ∈ user.map (·.1) ∧ ∀ ty classes cls, (ty, classes) ∈ tags → cls ∈ classes → t ∉ cls) ∧
    (∀ ty cls, inMissing (missingOf (entries tags) user (tupleKeys tags)) ty cls ↔
        ∃ (classes : List (List Tag)) (n : Nat), (ty, classes) ∈ tags ∧ classes[n]? = some cls ∧ ∀ u ∈ user.map (·.1), u ∉ cls) ∧
    (∀ v, v ∈ duplicatesOf (entries tags) user (tupleKeys tags) ↔
        ∃ (ty : String) (classes : List (List Tag)) (n : Nat) (cls : List Tag), (ty, classes) ∈ tags ∧ classes[n]? = some cls ∧
          v = (user.map (·.1)).filter (fun u => decide (u ∈ cls)) ∧ v.length > 1) := by
  refine ⟨?_, ?_, ?_⟩
  · intro t
    rw [mem_badTags, lookup_eq_none_iff]
    apply and_congr_right
    intro _
    constructor
    · intro h ty classes cls hty hcls ht
      obtain ⟨n, hn', hc⟩ := List.getElem_of_mem hcls
      apply h
      exact List.mem_map.mpr ⟨(t, (n, ty)), mem_entries.mpr ⟨classes, hty, cls, by rw [List.getElem?_eq_getElem hn', hc], ht⟩, rfl⟩
    · intro h hm
      obtain ⟨⟨t', i, ty⟩, hm', rfl⟩ := List.mem_map.mp hm
      obtain ⟨classes, hty, cls, hc, ht⟩ := mem_entries.mp hm'
      exact h ty classes cls hty (List.mem_of_getElem? hc) ht
  · intro ty cls
    rw [mem_missingOf]
    constructor
    · rintro ⟨n, hk, hu⟩
      obtain ⟨classes, hty, hc⟩ := mem_tupleKeys.mp hk
      rw [usersOf_eq_members tags user hn htyn hty hc] at hu
      refine ⟨classes, n, hty, hc, fun u hu' hmem => ?_⟩
      have : u ∈ (user.map (·.1)).filter (fun u => decide (u ∈ cls)) := List.mem_filter.mpr ⟨hu', by simpa using hmem⟩
      rw [hu] at this; cases this
    · rintro ⟨classes, n, hty, hc, hno⟩
      refine ⟨n, mem_tupleKeys.mpr ⟨classes, hty, hc⟩, ?_⟩
      rw [usersOf_eq_members tags user hn htyn hty hc]
      apply List.filter_eq_nil_iff.mpr
      intro u hu; simpa using hno u hu
  · intro v
    rw [mem_duplicatesOf]
    constructor
    · rintro ⟨ty, n, cls, hk, rfl, hl⟩
      obtain ⟨classes, hty, hc⟩ := mem_tupleKeys.mp hk
      exact ⟨ty, classes, n, cls, hty, hc, usersOf_eq_members tags user hn htyn hty hc, hl⟩
    · rintro ⟨ty, classes, n, cls, hty, hc, rfl, hl⟩
      exact ⟨ty, n, cls, mem_tupleKeys.mpr ⟨classes, hty, hc⟩, (usersOf_eq_members tags user hn htyn hty hc).symm, hl⟩


/-! ### the coordinate format -/

/-- read a decimal digit string back -/
def ofDigits (cs : List Char) : Nat := cs.foldl (fun a c => 10 * a + (c.toNat - 48)) 0

theorem ofDigits_append_singleton (cs : List Char) (c : Char) :
    ofDigits (cs ++ [c]) = 10 * ofDigits cs + (c.toNat - 48) := by
  simp [ofDigits, List.foldl_append]

theorem ofDigits_toDigits (n : Nat) : ofDigits (Nat.toDigits 10 n) = n := by
  induction n using Nat.strong_induction_on with
  | _ n ih =>
    rw [Nat.toDigits_eq_if (by decide)]
    split
    · rename_i h
      simp [ofDigits, Nat.toNat_digitChar_sub_48_of_lt_ten h]
    · rename_i h
      rw [ofDigits_append_singleton, ih (n / 10) (by omega),
        Nat.toNat_digitChar_sub_48_of_lt_ten (Nat.mod_lt n (by decide))]
      omega

theorem toDigits_injective {a b : Nat} (h : Nat.toDigits 10 a = Nat.toDigits 10 b) : a = b := by
  rw [← ofDigits_toDigits a, ← ofDigits_toDigits b, h]

theorem digitChar_injective_lt_ten {a b : Nat} (ha : a < 10) (hb : b < 10)
    (h : Nat.digitChar a = Nat.digitChar b) : a = b := by
  rw [← Nat.toNat_digitChar_sub_48_of_lt_ten ha, ← Nat.toNat_digitChar_sub_48_of_lt_ten hb, h]

theorem digits3_injective {a b : Nat} (ha : a < 1000) (hb : b < 1000) (h : digits3 a = digits3 b) : a = b := by
  simp only [digits3, List.cons.injEq, and_true] at h
  have h1 := digitChar_injective_lt_ten (Nat.mod_lt _ (by decide)) (Nat.mod_lt _ (by decide)) h.1
  have h2 := digitChar_injective_lt_ten (Nat.mod_lt _ (by decide)) (Nat.mod_lt _ (by decide)) h.2.1
  have h3 := digitChar_injective_lt_ten (Nat.mod_lt _ (by decide)) (Nat.mod_lt _ (by decide)) h.2.2
  omega

/-- **the printed text determines the sign and the rounded number of thousandths** -/
theorem fmtMilli_injective {s s' : Bool} {k k' : Nat} (h : fmtMilli s k = fmtMilli s' k') : s = s' ∧ k = k' := by
  simp only [fmtMilli, List.cons.injEq] at h
  obtain ⟨hs, hr⟩ := h
  have hs' : s = s' := by
    cases s <;> cases s' <;> simp_all
  refine ⟨hs', ?_⟩
  have hlen : (digits3 (k % 1000)).length = (digits3 (k' % 1000)).length := by simp [digits3]
  have hr' : (Nat.toDigits 10 (k / 1000) ++ ['.']) ++ digits3 (k % 1000)
           = (Nat.toDigits 10 (k' / 1000) ++ ['.']) ++ digits3 (k' % 1000) := by
    simpa using hr
  obtain ⟨h1, h2⟩ := List.append_inj' hr' hlen
  have h1' : Nat.toDigits 10 (k / 1000) = Nat.toDigits 10 (k' / 1000) := by
    have := List.append_inj' h1 rfl
    exact this.1
  have e1 := toDigits_injective h1'
  have e2 := digits3_injective (Nat.mod_lt _ (by decide)) (Nat.mod_lt _ (by decide)) h2
  omega

/-- `milli q` is a nearest integer to `1000 q` (ties to even): `|1000·num − milli·den| ≤ den/2`. -/
theorem milli_nearest (q : Rat) :
    2 * (q.num * 1000 - milli q * q.den) ≤ q.den ∧ -(q.den : Int) ≤ 2 * (q.num * 1000 - milli q * q.den) := by
  have hd : (0 : Int) < q.den := by exact_mod_cast q.den_pos
  have h1 := Int.emod_add_mul_ediv (q.num * 1000) q.den
  have h2 := Int.emod_nonneg (q.num * 1000) (ne_of_gt hd)
  have h3 := Int.emod_lt_of_pos (q.num * 1000) hd
  unfold milli
  simp only
  generalize (q.num * 1000) / (q.den : Int) = fl at *
  generalize (q.num * 1000) % (q.den : Int) = r at *
  generalize (q.den : Int) = d at *
  have e : q.num * 1000 = r + d * fl := by linarith
  split
  · constructor <;> nlinarith
  · split
    · constructor <;> nlinarith
    · split <;> constructor <;> nlinarith

theorem milli_nonneg {q : Rat} (h : 0 ≤ q) : 0 ≤ milli q := by
  have hd : (0 : Int) < q.den := by exact_mod_cast q.den_pos
  have hnum : 0 ≤ q.num := Rat.num_nonneg.mpr h
  have hfl : 0 ≤ (q.num * 1000) / (q.den : Int) := Int.ediv_nonneg (by positivity) (le_of_lt hd)
  unfold milli
  simp only
  split
  · exact hfl
  · split
    · omega
    · split <;> omega

theorem milli_nonpos {q : Rat} (h : q ≤ 0) : milli q ≤ 0 := by
  have hd : (0 : Int) < q.den := by exact_mod_cast q.den_pos
  have hnum : q.num ≤ 0 := Rat.num_nonpos.mpr h
  have h1 := Int.emod_add_mul_ediv (q.num * 1000) q.den
  have h2 := Int.emod_nonneg (q.num * 1000) (ne_of_gt hd)
  have h3 := Int.emod_lt_of_pos (q.num * 1000) hd
  unfold milli
  simp only
  generalize (q.num * 1000) / (q.den : Int) = fl at *
  generalize (q.num * 1000) % (q.den : Int) = r at *
  generalize (q.den : Int) = d at *
  -- r + d*fl ≤ 0, 0 ≤ r < d
  have hfl : fl ≤ 0 := by
    by_contra hc
    have : 1 ≤ fl := by omega
    nlinarith
  split
  · exact hfl
  · -- result fl+1 (or fl): need fl + 1 ≤ 0 unless r = 0 … if fl = 0 then r ≤ 0 so r = 0, contradiction with 2r ≥ d > 0
    have hne : fl ≠ 0 := by
      rintro rfl
      have : r ≤ 0 := by nlinarith
      have : r = 0 := by omega
      subst this
      omega
    split
    · omega
    · split <;> omega

/-- the real number printed: `1000·q` is within 1/2 of `milli q` -/
theorem milli_close (q : Rat) : |1000 * q - (milli q : Rat)| ≤ 1 / 2 := by
  obtain ⟨h1, h2⟩ := milli_nearest q
  have hd : (0 : Rat) < (q.den : Rat) := by exact_mod_cast q.den_pos
  have hq := Rat.num_div_den q
  rw [div_eq_iff (ne_of_gt hd)] at hq
  have h1' : (2 * (q.num * 1000 - milli q * q.den) : Rat) ≤ q.den := by exact_mod_cast h1
  have h2' : -(q.den : Rat) ≤ (2 * (q.num * 1000 - milli q * q.den) : Rat) := by exact_mod_cast h2
  have hx : 1000 * q - (milli q : Rat) = ((q.num : Rat) * 1000 - milli q * q.den) / q.den := by
    rw [eq_div_iff (ne_of_gt hd)]
    linear_combination (-1000 : Rat) * hq
  rw [hx, abs_le]
  constructor
  · rw [le_div_iff₀ hd]; linarith
  · rw [div_le_iff₀ hd]; linarith

/-- **injectivity on a grid**: two coordinates further apart than 1/1000 never print the same text.
    (`nz` is the float's "negative zero" flag; it can only be set for the value 0.) -/
theorem fmt_injective_on_grid (a b : Rat) (nza nzb : Bool) (ha : nza = true → a = 0) (hb : nzb = true → b = 0)
    (hfar : 1 / 1000 < |a - b|) : fmtCoord nza a ≠ fmtCoord nzb b := by
  intro h
  obtain ⟨hs, hk⟩ := fmtMilli_injective h
  -- equal sign characters ⇒ weakly equal signs ⇒ equal `milli`
  have hm : milli a = milli b := by
    by_cases hna : a < 0
    · have hsb : (decide (b < 0) || nzb) = true := by rw [← hs]; simp [hna]
      have hb0 : b ≤ 0 := by
        rcases Bool.or_eq_true _ _ |>.mp hsb with h' | h'
        · exact le_of_lt (of_decide_eq_true h')
        · exact le_of_eq (hb h')
      have := milli_nonpos (le_of_lt hna); have := milli_nonpos hb0
      omega
    · have ha0 : 0 ≤ a := not_lt.mp hna
      by_cases hnb : b < 0
      · have hsa : (decide (a < 0) || nza) = true := by rw [hs]; simp [hnb]
        have : a = 0 := by
          rcases Bool.or_eq_true _ _ |>.mp hsa with h' | h'
          · exact absurd (of_decide_eq_true h') hna
          · exact ha h'
        have := milli_nonpos (le_of_eq this); have := milli_nonpos (le_of_lt hnb)
        omega
      · have hb0 : 0 ≤ b := not_lt.mp hnb
        have := milli_nonneg ha0; have := milli_nonneg hb0
        omega
  have ca := milli_close a
  have cb := milli_close b
  rw [hm] at ca
  have : |1000 * a - 1000 * b| ≤ 1 := by
    have e : 1000 * a - 1000 * b = (1000 * a - (milli b : Rat)) - (1000 * b - (milli b : Rat)) := by ring
    rw [e]
    calc _ ≤ |1000 * a - (milli b : Rat)| + |1000 * b - (milli b : Rat)| := abs_sub _ _
      _ ≤ 1 / 2 + 1 / 2 := add_le_add ca cb
      _ = 1 := by norm_num
  have e2 : 1000 * a - 1000 * b = 1000 * (a - b) := by ring
  rw [e2, abs_mul] at this
  have : |a - b| ≤ 1 / 1000 := by
    have h1000 : |(1000 : Rat)| = 1000 := abs_of_pos (by norm_num)
    rw [h1000] at this
    linarith
  linarith

/-! non-vacuity -/
example : fmtCoord false (1/3) = ['+', '0', '.', '3', '3', '3'] := by decide +kernel
example : fmtCoord false (-1/16) = ['-', '0', '.', '0', '6', '2'] := by decide +kernel
example : fmtCoord true 0 = ['-', '0', '.', '0', '0', '0'] := by decide +kernel
example : fmtCoord false (1/3) ≠ fmtCoord false (1/3 + 2/1000) :=
  fmt_injective_on_grid _ _ false false (by simp) (by simp) (by norm_num [abs_of_neg])


/-! non-vacuity of the dictionary / fill / report theorems -/
def exTags : Tags := [("vacancy", [["a", "b"], ["c"]]), ("omega1", [["w", "x"]])]
example : ∃ d, mkTagDict exTags = .ok d := (mkTagDict_ok_iff_nodup exTags).mpr (by decide)
example : fillClass [("b", ["2", "3"])] ("1", "0") ["a", "b"] = .ok ("2", "3") :=
  one_member_suffices _ _ "b" "2" "3" _ (by decide) (by decide) (by decide)

end Onsager.C15
