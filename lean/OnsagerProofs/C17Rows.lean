/-
  C17 — the rows of `npowtrans` computed by the model's `rotatedirections` satisfy their specification
  (`RowsOK`), for EVERY square matrix `Q` and every point `x`:

    row `p_old` of `npowtrans[n]`, as a polynomial in `x`, is  `(Qx·Qx)^((n-|p_old|)/2) · (Qx)^{p_old}`.

  Steps: single powers = multinomial rows (`linPowRow_spec`, from the `powercoeff` obligation), pair / triplet
  products through `directmult` (`shellMul_spec`), the fold over the axes (`powtransRow_spec`), padding by powers
  of `x²+y²+z²` (`npowRowK_spec`).  Consequence: `eval_rotate` (rotation = substitution) without side condition.
-/
import OnsagerProofs.C17
import OnsagerProofs.C16Sound

namespace Onsager.C16

open Finset

variable {K : Type} [CommRing K]

/-- table facts used by the rotation proof (derived from the same executable obligations as `Tab.Sem`) -/
structure Tab.Sem17 (T : Tab K) : Prop where
  expo_len : ∀ p, p < T.npow → (T.expo p).length = T.dim
  phi_top : T.phi T.lmax = T.npow
  phi_mono : ∀ l l', l ≤ l' → l' ≤ T.lmax → T.phi l ≤ T.phi l'
  graded : ∀ p l, p < T.npow → l ≤ T.lmax → (p < T.phi l ↔ T.deg p ≤ l)
  deg_le : ∀ p, p < T.npow → T.deg p ≤ T.lmax
  dm_expo : ∀ pa pb, pa < T.npow → pb < T.npow → T.deg pa + T.deg pb ≤ T.lmax →
    ∃ q : Nat, T.dm pa pb = (q : Int) ∧ q < T.npow ∧ T.expo q = List.zipWith (· + ·) (T.expo pa) (T.expo pb)
  pc_shell : ∀ n p, n ≤ T.lmax → p < T.npow → T.deg p ≠ n → T.pc n p = 0
  pc_ok : ∀ n (x : List K), n ≤ T.lmax → x.length = T.dim →
    ∑ p ∈ range (T.phi n), T.pc n p * T.mono x p = x.sum ^ n
  mono_zero : ∀ u : List K, T.mono u 0 = 1
  deg_zero : T.deg 0 = 0
  npow_pos : 0 < T.npow

/-- a full-length row supported on the columns of degree `d` -/
def SuppShell (T : Tab K) (r : List K) (d : Nat) : Prop :=
  r.length = T.npow ∧ ∀ p, p < T.npow → T.deg p ≠ d → r.getD p 0 = 0

theorem dotFromK_range (T : Tab K) (x : List K) (f : Nat → K) (r : Nat) :
    dotFrom T x 0 ((List.range r).map f) = ∑ i ∈ range r, T.mono x i * f i := by
  rw [dotFrom_map_range]; simp [smul_eq_mul]

theorem dotFromK_eq_sum (T : Tab K) (x : List K) (c : List K) (k : Nat) :
    dotFrom T x k c = ∑ i ∈ range c.length, T.mono x (k + i) * c.getD i 0 := by
  rw [dotFrom_eq_sum]; simp [smul_eq_mul]

/-! ### single powers: the multinomial rows -/

theorem linPowRow_supp (T : Tab K) (hT : T.Sem17) (t : List K) (n : Nat) (hn : n ≤ T.lmax) :
    SuppShell T (linPowRow T t n) n := by
  refine ⟨by simp [linPowRow], ?_⟩
  intro p hp hd
  simp [linPowRow, List.getD_eq_getElem?_getD, hp, hT.pc_shell n p hn hp hd]

theorem linPowRow_dot (T : Tab K) (hT : T.Sem17) (t x : List K) (n : Nat) (hn : n ≤ T.lmax)
    (ht : t.length = T.dim) (hx : x.length = T.dim) :
    dotFrom T x 0 (linPowRow T t n) = (List.zipWith (· * ·) t x).sum ^ n := by
  unfold linPowRow
  rw [dotFromK_range, ← hT.pc_ok n (List.zipWith (· * ·) t x) hn (by simp [ht, hx])]
  have hle : T.phi n ≤ T.npow := by rw [← hT.phi_top]; exact hT.phi_mono n T.lmax hn (le_refl _)
  rw [← Finset.sum_range_add_sum_Ico _ hle]
  have hz : ∑ i ∈ Finset.Ico (T.phi n) T.npow, T.mono x i * (T.pc n i * T.mono t i) = 0 := by
    apply Finset.sum_eq_zero
    intro p hp
    obtain ⟨h1, h2⟩ := Finset.mem_Ico.mp hp
    have : T.deg p ≠ n := by
      intro h
      have := (hT.graded p n h2 hn).mpr (le_of_eq h)
      omega
    rw [hT.pc_shell n p hn h2 this]; ring
  rw [hz, add_zero]
  apply Finset.sum_congr rfl
  intro p _
  unfold Tab.mono
  rw [monoOf_mul t x _ (by rw [ht, hx])]; ring

/-! ### products of rows through `directmult` -/

theorem getD_addAt_ne : ∀ (xs : List K) (i j : Nat) (y : K), i ≠ j → (addAt xs i y).getD j 0 = xs.getD j 0 := by
  intro xs
  induction xs with
  | nil => intro i j y _; simp [addAt]
  | cons x xs ih =>
    intro i j y h
    cases i with
    | zero =>
      cases j with
      | zero => exact absurd rfl h
      | succ j => simp [addAt]
    | succ i =>
      cases j with
      | zero => simp [addAt]
      | succ j =>
        simp only [addAt, List.getD_cons_succ]
        exact ih i j y (by omega)

theorem scatRow_getD (T : Tab K) (len pa : Nat) (x : K) (j' : Nat) : ∀ (ys : List K) (pb : Nat) (acc : List K),
    (∀ j, j < ys.length → npIndex len (T.dm pa (pb + j)) ≠ j') →
    (scatRow T len pa x pb ys acc).getD j' 0 = acc.getD j' 0 := by
  intro ys
  induction ys with
  | nil => intro pb acc _; simp [scatRow]
  | cons y ys ih =>
    intro pb acc h
    simp only [scatRow]
    rw [ih (pb + 1) _ (by
      intro j hj
      have := h (j + 1) (by simpa using hj)
      have e : pb + (j + 1) = pb + 1 + j := by omega
      rwa [e] at this)]
    exact getD_addAt_ne acc _ j' _ (by simpa using h 0 (by simp))

theorem scatG_spec (T : Tab K) (u : List K) (len pb0 : Nat) (xb : List K) : ∀ (xs : List K) (pa : Nat) (acc : List K),
    acc.length = len →
    (∀ i j, i < xs.length → j < xb.length → ∃ q : Nat, T.dm (pa + i) (pb0 + j) = (q : Int) ∧ q < len ∧
        T.mono u q = T.mono u (pa + i) * T.mono u (pb0 + j)) →
    (scatG T len pb0 xb pa xs acc).length = len ∧
    dotFrom T u 0 (scatG T len pb0 xb pa xs acc)
      = dotFrom T u 0 acc + dotFrom T u pa xs * dotFrom T u pb0 xb := by
  intro xs
  induction xs with
  | nil => intro pa acc hl _; simp [scatG, hl]
  | cons x xs ih =>
    intro pa acc hl h
    have hrow := scatRow_spec (M := K) T u len pa x xb pb0 acc hl (by
      intro j hj
      have := h 0 j (by simp) hj
      simpa using this)
    have hstep := ih (pa + 1) (scatRow T len pa x pb0 xb acc) hrow.1 (by
      intro i j hi hj
      have := h (i + 1) j (by simpa using hi) hj
      have e : pa + (i + 1) = pa + 1 + i := by omega
      rwa [e] at this)
    refine ⟨by simpa [scatG] using hstep.1, ?_⟩
    simp only [scatG]
    rw [hstep.2, hrow.2, dotFrom_cons, add_mul]
    simp only [smul_eq_mul]
    ring

theorem scatG_getD (T : Tab K) (len pb0 : Nat) (xb : List K) (j' : Nat) : ∀ (xs : List K) (pa : Nat) (acc : List K),
    (∀ i j, i < xs.length → j < xb.length → npIndex len (T.dm (pa + i) (pb0 + j)) ≠ j') →
    (scatG T len pb0 xb pa xs acc).getD j' 0 = acc.getD j' 0 := by
  intro xs
  induction xs with
  | nil => intro pa acc _; simp [scatG]
  | cons x xs ih =>
    intro pa acc h
    simp only [scatG]
    rw [ih (pa + 1) _ (by
      intro i j hi hj
      have := h (i + 1) j (by simpa using hi) hj
      have e : pa + (i + 1) = pa + 1 + i := by omega
      rwa [e] at this)]
    exact scatRow_getD T len pa x j' xb pb0 acc (by
      intro j hj
      have := h 0 j (by simp) hj
      simpa using this)

theorem plo_le_phi (T : Tab K) (hT : T.Sem17) (l : Nat) (hl : l ≤ T.lmax) : T.plo l ≤ T.phi l := by
  cases l with
  | zero => simp [Tab.plo]
  | succ l => exact hT.phi_mono l (l + 1) (by omega) hl

theorem phi_le_npow (T : Tab K) (hT : T.Sem17) (l : Nat) (hl : l ≤ T.lmax) : T.phi l ≤ T.npow := by
  rw [← hT.phi_top]; exact hT.phi_mono l T.lmax hl (le_refl _)

/-- indices in `[powlrange[l-1], powlrange[l])` are exactly the monomials of degree `l` -/
theorem shell_deg (T : Tab K) (hT : T.Sem17) (l p : Nat) (hl : l ≤ T.lmax) (h1 : T.plo l ≤ p) (h2 : p < T.phi l) :
    p < T.npow ∧ T.deg p = l := by
  have hp : p < T.npow := lt_of_lt_of_le h2 (phi_le_npow T hT l hl)
  refine ⟨hp, ?_⟩
  have hle := (hT.graded p l hp hl).mp h2
  cases l with
  | zero => omega
  | succ l =>
    have : ¬ (T.deg p ≤ l) := by
      intro h
      have := (hT.graded p l hp (by omega)).mpr h
      have e : T.plo (l + 1) = T.phi l := rfl
      omega
    omega

theorem shell_of_deg (T : Tab K) (hT : T.Sem17) (l p : Nat) (hl : l ≤ T.lmax) (hp : p < T.npow) (hd : T.deg p = l) :
    T.plo l ≤ p ∧ p < T.phi l := by
  refine ⟨?_, (hT.graded p l hp hl).mpr (le_of_eq hd)⟩
  cases l with
  | zero => simp [Tab.plo]
  | succ l =>
    have e : T.plo (l + 1) = T.phi l := rfl
    rw [e]
    by_contra h
    have := (hT.graded p l hp (by omega)).mp (by omega)
    omega

theorem getD_shellSlice (T : Tab K) (r : List K) (l i : Nat) (hi : i < T.phi l - T.plo l) :
    (shellSlice T r l).getD i 0 = r.getD (T.plo l + i) 0 := by
  simp [shellSlice, List.getD_eq_getElem?_getD, List.getElem?_take, hi]

theorem length_shellSlice (T : Tab K) (hT : T.Sem17) (r : List K) (l : Nat) (hl : l ≤ T.lmax) (hr : r.length = T.npow) :
    (shellSlice T r l).length = T.phi l - T.plo l := by
  have := phi_le_npow T hT l hl
  simp [shellSlice, hr]; omega

/-- a row supported on the shell `d` is determined, as a polynomial, by its shell slice -/
theorem dot_shellSlice (T : Tab K) (hT : T.Sem17) (x : List K) (r : List K) (d : Nat) (hd : d ≤ T.lmax)
    (hr : SuppShell T r d) :
    dotFrom T x (T.plo d) (shellSlice T r d) = dotFrom T x 0 r := by
  rw [dotFromK_eq_sum, dotFromK_eq_sum, length_shellSlice T hT r d hd hr.1, hr.1]
  have h1 := plo_le_phi T hT d hd
  have h2 := phi_le_npow T hT d hd
  -- right-hand side: only the shell contributes
  have hsub : Finset.Ico (T.plo d) (T.phi d) ⊆ range T.npow := by
    intro p hp
    have := Finset.mem_Ico.mp hp
    exact Finset.mem_range.mpr (by omega)
  rw [← Finset.sum_subset hsub (by
    intro p hp hnot
    have hp' := Finset.mem_range.mp hp
    have : T.deg p ≠ d := by
      intro h
      have := shell_of_deg T hT d p hd hp' h
      exact hnot (Finset.mem_Ico.mpr this)
    rw [hr.2 p hp' this]; ring)]
  rw [Finset.sum_Ico_eq_sum_range]
  apply Finset.sum_congr rfl
  intro i hi
  rw [getD_shellSlice T r d i (Finset.mem_range.mp hi)]
  simp

theorem deg_of_expo_add (T : Tab K) (hT : T.Sem17) (pa pb q : Nat) (hpa : pa < T.npow) (hpb : pb < T.npow)
    (h : T.expo q = List.zipWith (· + ·) (T.expo pa) (T.expo pb)) : T.deg q = T.deg pa + T.deg pb := by
  unfold Tab.deg
  rw [h, sum_zipWith_add _ _ (by rw [hT.expo_len pa hpa, hT.expo_len pb hpb])]

/-- **pair / triplet products**: the product of a row supported in degree `la` and one supported in degree `lb`
    (`la + lb ≤ Lmax`) through `directmult` is supported in degree `la + lb` and is the product polynomial -/
theorem shellMul_spec (T : Tab K) (hT : T.Sem17) (x : List K) (ra rb : List K) (la lb : Nat)
    (hg : la + lb ≤ T.lmax) (ha : SuppShell T ra la) (hb : SuppShell T rb lb) :
    SuppShell T (shellMul T ra rb la lb) (la + lb) ∧
    dotFrom T x 0 (shellMul T ra rb la lb) = dotFrom T x 0 ra * dotFrom T x 0 rb := by
  have hla : la ≤ T.lmax := by omega
  have hlb : lb ≤ T.lmax := by omega
  have hlena := length_shellSlice T hT ra la hla ha.1
  have hlenb := length_shellSlice T hT rb lb hlb hb.1
  -- every pair of indices in the two shells
  have hpair : ∀ i j, i < (shellSlice T ra la).length → j < (shellSlice T rb lb).length →
      ∃ q : Nat, T.dm (T.plo la + i) (T.plo lb + j) = (q : Int) ∧ q < T.npow ∧ T.deg q = la + lb ∧
        ∀ u : List K, T.mono u q = T.mono u (T.plo la + i) * T.mono u (T.plo lb + j) := by
    intro i j hi hj
    rw [hlena] at hi
    rw [hlenb] at hj
    obtain ⟨hpa, hda⟩ := shell_deg T hT la (T.plo la + i) hla (by omega) (by omega)
    obtain ⟨hpb, hdb⟩ := shell_deg T hT lb (T.plo lb + j) hlb (by omega) (by omega)
    obtain ⟨q, h1, h2, h3⟩ := hT.dm_expo _ _ hpa hpb (by omega)
    refine ⟨q, h1, h2, ?_, ?_⟩
    · rw [deg_of_expo_add T hT _ _ q hpa hpb h3, hda, hdb]
    · intro u
      unfold Tab.mono
      rw [h3, monoOf_add _ _ _ (by rw [hT.expo_len _ hpa, hT.expo_len _ hpb])]
  have hspec := scatG_spec T x T.npow (T.plo lb) (shellSlice T rb lb) (shellSlice T ra la) (T.plo la)
    (List.replicate T.npow 0) (by simp) (by
      intro i j hi hj
      obtain ⟨q, h1, h2, _, h4⟩ := hpair i j hi hj
      exact ⟨q, h1, h2, h4 x⟩)
  refine ⟨⟨hspec.1, ?_⟩, ?_⟩
  · intro p hp hdeg
    unfold shellMul
    rw [scatG_getD T T.npow (T.plo lb) (shellSlice T rb lb) p (shellSlice T ra la) (T.plo la) _ (by
      intro i j hi hj
      obtain ⟨q, h1, _, h3, _⟩ := hpair i j hi hj
      rw [h1, npIndex_ofNat]
      intro h
      rw [h] at h3
      exact hdeg h3)]
    simp [List.getD_eq_getElem?_getD, hp]
  · unfold shellMul
    rw [hspec.2, dotFrom_zeros, zero_add, dot_shellSlice T hT x ra la hla ha, dot_shellSlice T hT x rb lb hlb hb]

/-! ### rows of `powtrans` -/

theorem unitRow_spec (T : Tab K) (hT : T.Sem17) (x : List K) :
    SuppShell T (unitRow T.npow : List K) 0 ∧ dotFrom T x 0 (unitRow T.npow : List K) = 1 := by
  refine ⟨⟨by simp [unitRow], ?_⟩, ?_⟩
  · intro p hp hd
    have : p ≠ 0 := by
      intro h; rw [h] at hd; exact hd hT.deg_zero
    simp [unitRow, List.getD_eq_getElem?_getD, hp, this]
  · unfold unitRow
    rw [dotFromK_range, Finset.sum_eq_single 0]
    · simp [hT.mono_zero]
    · intro b _ hb; simp [hb]
    · intro h; exact absurd (Finset.mem_range.mpr hT.npow_pos) h

/-- the state of the fold over the axes -/
def FoldInv (T : Tab K) (x : List K) (acc : Option (List K × Nat)) (P : K) (d : Nat) : Prop :=
  match acc with
  | none => P = 1 ∧ d = 0
  | some (row, d') => d' = d ∧ SuppShell T row d ∧ dotFrom T x 0 row = P

theorem powtransFold_spec (T : Tab K) (hT : T.Sem17) (x : List K) (hx : x.length = T.dim) :
    ∀ (Q : List (List K)) (e : List Nat) (acc : Option (List K × Nat)) (P : K) (d : Nat),
    (∀ t ∈ Q, t.length = T.dim) → d + e.sum ≤ T.lmax → FoldInv T x acc P d →
    FoldInv T x
      ((List.zip Q e).foldl (fun (acc : Option (List K × Nat)) (tn : List K × Nat) =>
        if tn.2 = 0 then acc else
        match acc with
        | none => some (linPowRow T tn.1 tn.2, tn.2)
        | some (row, d) => some (shellMul T row (linPowRow T tn.1 tn.2) d tn.2, d + tn.2)) acc)
      (P * monoOf (applyQ Q x) e) (d + (List.zip Q e).foldl (fun s tn => s + tn.2) 0) := by
  intro Q
  induction Q with
  | nil => intro e acc P d _ _ h; simpa [applyQ] using h
  | cons t Q ih =>
    intro e acc P d hQ hd h
    cases e with
    | nil => simpa [applyQ] using h
    | cons n e =>
      have ht : t.length = T.dim := hQ t (by simp)
      have hQ' : ∀ t' ∈ Q, t'.length = T.dim := fun t' ht' => hQ t' (by simp [ht'])
      simp only [List.zip_cons_cons, List.foldl_cons, List.sum_cons] at hd ⊢
      have hshift : ∀ (s : Nat) (l : List (List K × Nat)), l.foldl (fun s tn => s + tn.2) s = s + l.foldl (fun s tn => s + tn.2) 0 := by
        intro s l
        induction l generalizing s with
        | nil => simp
        | cons a l ihl => simp only [List.foldl_cons]; rw [ihl (s + a.2), ihl (0 + a.2)]; omega
      rw [hshift (0 + n)]
      have hprod : monoOf (applyQ (t :: Q) x) (n :: e) = (List.zipWith (· * ·) t x).sum ^ n * monoOf (applyQ Q x) e := by
        simp [applyQ]
      rw [hprod]
      by_cases hn : n = 0
      · subst hn
        simp only [if_true, pow_zero, one_mul, Nat.add_zero]
        have := ih e acc P d hQ' (by omega) h
        simpa using this
      · simp only [hn, if_false]
        have hn' : n ≤ T.lmax := by omega
        have hlin_s := linPowRow_supp T hT t n hn'
        have hlin_d := linPowRow_dot T hT t x n hn' ht hx
        cases acc with
        | none =>
          obtain ⟨hP, hd0⟩ := h
          subst hP hd0
          have := ih e (some (linPowRow T t n, n)) ((List.zipWith (· * ·) t x).sum ^ n) n hQ' (by omega)
            ⟨rfl, hlin_s, hlin_d⟩
          simp only [one_mul, Nat.zero_add] at this ⊢
          exact this
        | some rd =>
          obtain ⟨row, d'⟩ := rd
          obtain ⟨hd', hs, hdot⟩ := h
          subst hd'
          have hmul := shellMul_spec T hT x row (linPowRow T t n) d' n (by omega) hs hlin_s
          have := ih e (some (shellMul T row (linPowRow T t n) d' n, d' + n)) (P * (List.zipWith (· * ·) t x).sum ^ n) (d' + n)
            hQ' (by omega) ⟨rfl, hmul.1, by rw [hmul.2, hdot, hlin_d]⟩
          have e1 : d' + (0 + n + (List.zip Q e).foldl (fun s tn => s + tn.2) 0) = d' + n + (List.zip Q e).foldl (fun s tn => s + tn.2) 0 := by omega
          rw [e1, ← mul_assoc]; exact this

theorem zip_foldl_sum : ∀ (Q : List (List K)) (e : List Nat), Q.length = e.length →
    (List.zip Q e).foldl (fun s tn => s + tn.2) 0 = e.sum := by
  intro Q
  induction Q with
  | nil => intro e h; cases e <;> simp_all
  | cons t Q ih =>
    intro e h
    cases e with
    | nil => simp at h
    | cons n e =>
      simp only [List.zip_cons_cons, List.foldl_cons, List.sum_cons]
      have hshift : ∀ (s : Nat) (l : List (List K × Nat)), l.foldl (fun s tn => s + tn.2) s = s + l.foldl (fun s tn => s + tn.2) 0 := by
        intro s l
        induction l generalizing s with
        | nil => simp
        | cons a l ihl => simp only [List.foldl_cons]; rw [ihl (s + a.2), ihl (0 + a.2)]; omega
      rw [hshift, ih e (by simpa using h)]; omega

/-- **row `e` of `powtrans`** is the polynomial `(Qx)^e = Π_i (Q_i·x)^{e_i}`, homogeneous of degree `|e|` -/
theorem powtransRow_spec (T : Tab K) (hT : T.Sem17) (x : List K) (hx : x.length = T.dim)
    (Q : List (List K)) (hQl : Q.length = T.dim) (hQ : ∀ t ∈ Q, t.length = T.dim)
    (e : List Nat) (he : e.length = T.dim) (hdeg : e.sum ≤ T.lmax) :
    SuppShell T (powtransRow T Q e) e.sum ∧ dotFrom T x 0 (powtransRow T Q e) = monoOf (applyQ Q x) e := by
  have h := powtransFold_spec T hT x hx Q e none 1 0 hQ (by omega) ⟨rfl, rfl⟩
  rw [zip_foldl_sum Q e (by rw [hQl, he]), one_mul, Nat.zero_add] at h
  unfold powtransRow
  revert h
  generalize (List.zip Q e).foldl _ none = r
  intro h
  cases r with
  | none =>
    obtain ⟨h1, h2⟩ := h
    have := unitRow_spec T hT x
    simp only
    rw [h1, h2]; exact this
  | some rd =>
    obtain ⟨row, d⟩ := rd
    obtain ⟨_, h2, h3⟩ := h
    exact ⟨h2, h3⟩

/-! ### rows of `npowtrans`: padding with powers of `x²+y²+z²` -/

theorem dotFrom_addRows (T : Tab K) (x : List K) : ∀ (a b : List K) (k : Nat), a.length = b.length →
    dotFrom T x k (addRows a b) = dotFrom T x k a + dotFrom T x k b := by
  intro a
  induction a with
  | nil => intro b k h; cases b <;> simp_all [addRows]
  | cons u a ih =>
    intro b k h
    cases b with
    | nil => simp at h
    | cons v b =>
      have := ih b (k + 1) (by simpa using h)
      simp only [addRows, List.zipWith_cons_cons, dotFrom_cons] at this ⊢
      rw [this]; simp only [smul_eq_mul]; ring

theorem suppShell_addRows (T : Tab K) (a b : List K) (d : Nat) (ha : SuppShell T a d) (hb : SuppShell T b d) :
    SuppShell T (addRows a b) d := by
  refine ⟨by simp [addRows, ha.1, hb.1], ?_⟩
  intro p hp hd
  have h1 := ha.2 p hp hd
  have h2 := hb.2 p hp hd
  have hpa : p < a.length := by rw [ha.1]; exact hp
  have hpb : p < b.length := by rw [hb.1]; exact hp
  simp only [List.getD_eq_getElem?_getD, List.getElem?_eq_getElem hpa, List.getElem?_eq_getElem hpb,
    Option.getD_some] at h1 h2
  simp [addRows, List.getD_eq_getElem?_getD, List.getElem?_zipWith, List.getElem?_eq_getElem hpa,
    List.getElem?_eq_getElem hpb, h1, h2]

theorem length_applyQ (Q : List (List K)) (x : List K) : (applyQ Q x).length = Q.length := by simp [applyQ]

theorem npowRowK_spec (T : Tab K) (hT : T.Sem17) (x : List K) (hx : x.length = T.dim)
    (Q : List (List K)) (hQl : Q.length = T.dim) (hQ : ∀ t ∈ Q, t.length = T.dim) (n : Nat) (hn : n ≤ T.lmax) :
    ∀ (k : Nat) (e : List Nat), e.length = T.dim → e.sum + 2 * k = n →
    SuppShell T (npowRowK T Q n k e) n ∧
    dotFrom T x 0 (npowRowK T Q n k e) = sq (applyQ Q x) ^ k * monoOf (applyQ Q x) e := by
  intro k
  induction k with
  | zero =>
    intro e he hsum
    have hrow := powtransRow_spec T hT x hx Q hQl hQ e he (by omega)
    have hsum' : e.sum = n := by omega
    rw [hsum'] at hrow
    unfold npowRowK
    refine ⟨⟨by simp, ?_⟩, ?_⟩
    · intro p hp hd
      simp [List.getD_eq_getElem?_getD, hp, hd]
    · rw [dotFromK_range, pow_zero, one_mul, ← hrow.2, dotFromK_eq_sum, hrow.1.1]
      apply Finset.sum_congr rfl
      intro p hp
      have hp' := Finset.mem_range.mp hp
      by_cases hd : T.deg p = n
      · simp [hd]
      · have hz := hrow.1.2 p hp' hd
        rw [List.getD_eq_getElem?_getD] at hz
        simp [hd, hz]
  | succ k ih =>
    intro e he hsum
    unfold npowRowK
    have hstep : ∀ (m : Nat), m ≤ T.dim →
        SuppShell T ((List.range m).foldl (fun acc i =>
            addRows acc (npowRowK T Q n k (List.zipWith (· + ·) e (unitVec T.dim i 2)))) (List.replicate T.npow 0)) n ∧
        dotFrom T x 0 ((List.range m).foldl (fun acc i =>
            addRows acc (npowRowK T Q n k (List.zipWith (· + ·) e (unitVec T.dim i 2)))) (List.replicate T.npow 0))
          = sq (applyQ Q x) ^ k * monoOf (applyQ Q x) e * ∑ i ∈ range m, ((applyQ Q x).getD i 1) ^ 2 := by
      intro m
      induction m with
      | zero =>
        intro _
        refine ⟨⟨by simp, ?_⟩, by simp [dotFrom_zeros]⟩
        intro p hp _
        simp [List.getD_eq_getElem?_getD, hp]
      | succ m ihm =>
        intro hm
        obtain ⟨hs, hd⟩ := ihm (by omega)
        have hlen_u : (unitVec T.dim m 2).length = T.dim := by simp [unitVec]
        have hterm := ih (List.zipWith (· + ·) e (unitVec T.dim m 2)) (by simp [he, hlen_u]) (by
          rw [sum_zipWith_add _ _ (by rw [he, hlen_u])]
          have : (unitVec T.dim m 2).sum = 2 := by
            have h := monoOf_unitVec (K := ℤ) (List.replicate T.dim 2) m 1 (by simp; omega)
            -- direct computation instead
            clear h
            unfold unitVec
            have : ∀ d s, s ≤ m → m < s + d → ((List.range' s d).map fun i => if i = m then 2 else 0).sum = 2 := by
              intro d
              induction d with
              | zero => intro s h1 h2; omega
              | succ d ihd =>
                intro s h1 h2
                simp only [List.range'_succ, List.map_cons, List.sum_cons]
                by_cases hsm : s = m
                · subst hsm
                  simp only [if_true]
                  have : ((List.range' (s + 1) d).map fun i => if i = s then 2 else 0).sum = 0 := by
                    apply List.sum_eq_zero
                    intro v hv
                    simp only [List.mem_map, List.mem_range'_1] at hv
                    obtain ⟨i, hi, rfl⟩ := hv
                    have : i ≠ s := by omega
                    simp [this]
                  omega
                · simp only [hsm, if_false, Nat.zero_add]
                  exact ihd (s + 1) (by omega) (by omega)
            rw [List.range_eq_range']
            exact this T.dim 0 (by omega) (by omega)
          omega)
        rw [List.range_succ, List.foldl_append]
        simp only [List.foldl_cons, List.foldl_nil]
        refine ⟨suppShell_addRows T _ _ n hs hterm.1, ?_⟩
        rw [dotFrom_addRows T x _ _ 0 (by rw [hs.1, hterm.1.1]), hd, hterm.2, Finset.sum_range_succ,
          monoOf_add _ _ _ (by rw [he, hlen_u])]
        have hQx : (applyQ Q x).length = T.dim := by rw [length_applyQ, hQl]
        rw [← hQx, monoOf_unitVec (applyQ Q x) m 2 (by omega)]
        ring
    obtain ⟨hs, hd⟩ := hstep T.dim (le_refl _)
    refine ⟨hs, ?_⟩
    rw [hd, pow_succ]
    have hQx : (applyQ Q x).length = T.dim := by rw [length_applyQ, hQl]
    have : sq (applyQ Q x) = ∑ i ∈ range T.dim, ((applyQ Q x).getD i 1) ^ 2 := by
      unfold sq; rw [sum_sq_eq, hQx]
    rw [this]; ring

/-- **the rows of `npowtrans` satisfy their specification** for every matrix `Q` and every point `x` -/
theorem npowRow_spec (T : Tab K) (hT : T.Sem17) (x : List K) (hx : x.length = T.dim)
    (Q : List (List K)) (hQl : Q.length = T.dim) (hQ : ∀ t ∈ Q, t.length = T.dim) :
    RowsOK T (npowRow T Q) Q x := by
  intro n pold hn hpold hpar
  have hp : pold < T.npow := lt_of_lt_of_le hpold (phi_le_npow T hT n hn)
  have hdeg : T.deg pold ≤ n := (hT.graded pold n hp hn).mp hpold
  have hk : T.deg pold + 2 * ((n - T.deg pold) / 2) = n := by omega
  obtain ⟨hs, hd⟩ := npowRowK_spec T hT x hx Q hQl hQ n hn ((n - T.deg pold) / 2) (T.expo pold)
    (hT.expo_len pold hp) hk
  have hrow : npowRow T Q n pold = npowRowK T Q n ((n - T.deg pold) / 2) (T.expo pold) := by
    unfold npowRow
    simp only [hdeg, hpar, and_self, if_true]
  rw [hrow]
  unfold wH
  rw [show T.mono (applyQ Q x) pold = monoOf (applyQ Q x) (T.expo pold) from rfl, ← hd, dotFromK_eq_sum, hs.1]
  have hle := phi_le_npow T hT n hn
  rw [← Finset.sum_range_add_sum_Ico _ hle]
  have hz : ∑ i ∈ Finset.Ico (T.phi n) T.npow,
      T.mono x (0 + i) * (npowRowK T Q n ((n - T.deg pold) / 2) (T.expo pold)).getD i 0 = 0 := by
    apply Finset.sum_eq_zero
    intro p hp'
    obtain ⟨h1, h2⟩ := Finset.mem_Ico.mp hp'
    have : T.deg p ≠ n := by
      intro h
      have := (hT.graded p n h2 hn).mpr (le_of_eq h)
      omega
    rw [hs.2 p h2 this]; ring
  rw [hz, add_zero]
  apply Finset.sum_congr rfl
  intro p hp'
  have hp'' : p < T.npow := lt_of_lt_of_le (Finset.mem_range.mp hp') hle
  by_cases hd' : T.deg p = n
  · rw [hd']; simp
  · rw [hs.2 p hp'' hd']; ring

/-- **rotation = substitution**: for every parity-consistent expansion `a`, every square matrix `Q` (orthogonal or
    not, invertible or not) and every point `x`, the expansion rotated with the model's `rotatedirections Q`,
    evaluated at `x` as a homogeneous function, equals `a` evaluated at `Q x`. -/
theorem eval_rotate {M : Type} [Ring M] [Algebra K M] (T : Tab K) (hT : T.Sem17) (x : List K) (hx : x.length = T.dim)
    (Q : List (List K)) (hQl : Q.length = T.dim) (hQ : ∀ t ∈ Q, t.length = T.dim)
    (a : Coeffs M) (ha : ParityOK T a) :
    evalH T x (rotatecoeff T (npowRow T Q) a) = evalH T (applyQ Q x) a :=
  eval_rotate_of_rows T hT.phi_mono (npowRow T Q) Q x (npowRow_spec T hT x hx Q hQl hQ) a ha

end Onsager.C16
