/-
  C06 — Tracer limit.

  * `tracer_data_is_host`   the generated omega1/omega2 transition-state data equal the omega0 data of
                            the corresponding jump type, class by class; solute data are neutral
  * chain level (OnsagerProofs/Chain.lean): 0 ≤ Lss for every finite chain (`coeff_diag_nonneg`),
    reciprocity Lsv = Lvsᵀ (`formOf_symm`).
  The identities Lsv = −L0vv, L1vv = 0 and Lss ≤ L0vv are verified EXACTLY (in ℚ) on finite periodic
  chains instance by instance by the driver and at Green-function accuracy on the implementation;
  they are not proved for all chains here (C06_partial).
-/
import OnsagerModel.C06

namespace Onsager.C06

theorem tracer_data_is_host (nW nTh : Nat) (jt1 jt2 : List Nat) (preT0 eneT0 : List Rat) (d : TracerData)
    (h : maketracer nW nTh jt1 jt2 preT0 eneT0 = some d) :
    (d.preT1.length = jt1.length ∧ d.eneT1.length = jt1.length ∧
      d.preT2.length = jt2.length ∧ d.eneT2.length = jt2.length) ∧
    (∀ j (hj : j < jt1.length), d.preT1[j]? = preT0[jt1[j]]? ∧ d.eneT1[j]? = eneT0[jt1[j]]?) ∧
    (∀ j (hj : j < jt2.length), d.preT2[j]? = preT0[jt2[j]]? ∧ d.eneT2[j]? = eneT0[jt2[j]]?) ∧
    d.preS = List.replicate nW 1 ∧ d.eneS = List.replicate nW 0 ∧
    d.preSV = List.replicate nTh 1 ∧ d.eneSV = List.replicate nTh 0 := by
  unfold maketracer at h
  split at h
  · rename_i hc
    obtain ⟨h1, h2⟩ := hc
    cases h
    have g : ∀ (jt : List Nat), (jt.all fun j => decide (j < preT0.length ∧ j < eneT0.length)) = true →
        ∀ j (hj : j < jt.length),
          (jt.map fun k => preT0.getD k 1)[j]? = preT0[jt[j]]? ∧
          (jt.map fun k => eneT0.getD k 0)[j]? = eneT0[jt[j]]? := by
      intro jt hall j hj
      have hm := List.all_eq_true.1 hall jt[j] (List.getElem_mem hj)
      simp only [decide_eq_true_eq] at hm
      simp [List.getElem?_map, List.getElem?_eq_getElem hj, List.getD_eq_getElem?_getD,
        List.getElem?_eq_getElem hm.1, List.getElem?_eq_getElem hm.2]
    exact ⟨⟨by simp, by simp, by simp, by simp⟩, g jt1 h1, g jt2 h2, rfl, rfl, rfl, rfl⟩
  · cases h

/-- non-vacuity: two omega1 classes of jump type 0 and 1, one exchange class of type 1 -/
example : ∃ d, maketracer 1 2 [0, 1] [1] [2, 3] [5, 7] = some d ∧ d.preT1 = [2, 3] ∧ d.eneT2 = [7] :=
  ⟨_, rfl, rfl, rfl⟩

end Onsager.C06
