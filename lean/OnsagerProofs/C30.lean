/-
  C30 — theorems about the archive layout model (OnsagerModel/C30.lean).

  * `fromDigits_fmt02`, `fmt02_injective`   `'{:02d}'.format` can be read back, hence is injective on ℕ
  * `dirName_injective`, `allDirs_nodup`    directory names never collide (same prefix: different numbers;
                                            `relax.` vs `neb.`: different first letter), so numbering the
                                            distinct tags gives a bijection tag ↔ directory (`tagmap_bijective`)
  * `flatMapping_index`                     entry `offset c + i` of the flattened mapping is
                                            `offset c + mapping[c][i]` (offsets = cumulative list lengths)
  * `transpl_applies_map`                   trans.pl on the POSCAR position list of a state gives the POSCAR list
                                            of `(g*state).reorder(mapping)` when `g` moves positions as its index map says
  * `transpl_reproduces_endpoint`           … and with C27's soundness theorem: for a mapping returned by
                                            `equivalencemap`, the script's output is the endpoint's POSCAR list
  * `wrap1_spec`                            Perl's two one-sided wraps change a coordinate by −1, 0 or +1 and land
                                            in [0,1) exactly for arguments in [−1,2)
-/
import OnsagerModel.C30
import OnsagerProofs.C27
import Mathlib.Data.List.Nodup
import Mathlib.Data.List.Forall2
import Mathlib.Tactic.Linarith
import Mathlib.Tactic.Ring
import Mathlib.Tactic.IntervalCases
import Mathlib.Algebra.Order.Field.Rat

namespace Onsager.C30

/-! ### `{:02d}` -/

theorem fromDigits_append (a : List Nat) (d : Nat) : fromDigits (a ++ [d]) = 10 * fromDigits a + d := by
  simp [fromDigits, List.foldl_append]

theorem fromDigits_decDigits (n : Nat) : fromDigits (decDigits n) = n := by
  induction n using Nat.strongRecOn with
  | _ n ih =>
    rw [decDigits]
    split
    · simp [fromDigits]
    · rw [fromDigits_append, ih (n / 10) (by omega)]; omega

/-- `int('{:02d}'.format(n)) == n`. -/
theorem fromDigits_fmt02 (n : Nat) : fromDigits (fmt02 n) = n := by
  unfold fmt02
  split
  · simp [fromDigits]
  · exact fromDigits_decDigits n

theorem fmt02_injective : Function.Injective fmt02 := by
  intro a b h
  have := congrArg fromDigits h
  rwa [fromDigits_fmt02, fromDigits_fmt02] at this

theorem decDigits_lt (n : Nat) : ∀ d ∈ decDigits n, d < 10 := by
  induction n using Nat.strongRecOn with
  | _ n ih =>
    rw [decDigits]
    split
    · intro d hd; simp at hd; omega
    · intro d hd
      rcases List.mem_append.1 hd with h | h
      · exact ih (n / 10) (by omega) d h
      · simp at h; omega

theorem fmt02_lt (n : Nat) : ∀ d ∈ fmt02 n, d < 10 := by
  unfold fmt02
  split
  · intro d hd; simp at hd; omega
  · exact decDigits_lt n

def charVal (c : Char) : Nat := c.toNat - 48

theorem charVal_digitChar (d : Nat) (h : d < 10) : charVal (digitChar d) = d := by
  interval_cases d <;> decide

theorem fmt02Chars_injective : Function.Injective fmt02Chars := by
  intro a b h
  apply fmt02_injective
  have hmap : ∀ n, (fmt02Chars n).map charVal = fmt02 n := by
    intro n
    unfold fmt02Chars
    rw [List.map_map]
    conv_rhs => rw [← List.map_id (fmt02 n)]
    apply List.map_congr_left
    intro d hd
    exact charVal_digitChar d (fmt02_lt n d hd)
  rw [← hmap a, ← hmap b, h]

/-! ### directory names -/

theorem dirName_injective (p : List Char) : Function.Injective (dirName p) := by
  intro a b h
  exact fmt02Chars_injective (List.append_cancel_left h)

theorem dirName_ne_of_head (p q : List Char) (hp : p ≠ []) (hq : q ≠ []) (h : p.head? ≠ q.head?)
    (a b : Nat) : dirName p a ≠ dirName q b := by
  intro e
  apply h
  cases p with
  | nil => exact absurd rfl hp
  | cons x xs =>
    cases q with
    | nil => exact absurd rfl hq
    | cons y ys =>
      simp only [dirName, List.cons_append, List.cons.injEq] at e
      simp [e.1]

theorem dirNames_nodup (p : List Char) (n : Nat) : (dirNames p n).Nodup :=
  List.Nodup.map (dirName_injective p) List.nodup_range

/-- No two directories of an archive have the same name. -/
theorem allDirs_nodup (sp tp : List Char) (hs : sp ≠ []) (ht : tp ≠ []) (h : sp.head? ≠ tp.head?)
    (n m : Nat) : (allDirs sp tp n m).Nodup := by
  unfold allDirs
  rw [List.nodup_append]
  refine ⟨dirNames_nodup sp n, dirNames_nodup tp m, ?_⟩
  intro a ha b hb
  simp only [dirNames, List.mem_map] at ha hb
  obtain ⟨i, _, rfl⟩ := ha
  obtain ⟨j, _, rfl⟩ := hb
  exact dirName_ne_of_head sp tp hs ht h i j

/-- The shipped defaults. -/
theorem default_dirs_nodup (n m : Nat) : (allDirs "relax.".toList "neb.".toList n m).Nodup :=
  allDirs_nodup _ _ (by decide) (by decide) (by decide) n m

theorem allDirs_length (sp tp : List Char) (n m : Nat) : (allDirs sp tp n m).length = n + m := by
  simp [allDirs, dirNames]

/-- Numbering distinct tags gives a bijection between tags and directories: in the pairing
    `zip tags dirs` equal tags have equal directories and conversely. -/
theorem tagmap_bijective {α} (tags : List α) (dirs : List (List Char)) (ht : tags.Nodup) (hd : dirs.Nodup)
    (p q : α × List Char) (hp : p ∈ tags.zip dirs) (hq : q ∈ tags.zip dirs) : p.1 = q.1 ↔ p.2 = q.2 := by
  obtain ⟨i, hi, rfl⟩ := List.getElem_of_mem hp
  obtain ⟨j, hj, rfl⟩ := List.getElem_of_mem hq
  simp only [List.getElem_zip]
  rw [List.Nodup.getElem_inj_iff ht, List.Nodup.getElem_inj_iff hd]

/-! ### `map2string` -/

/-- Offset of species `c` in a concatenated list: total length of the earlier lists. -/
def offset (ls : List (List Nat)) (c : Nat) : Nat := ((ls.take c).map List.length).sum

theorem flatMapping_length (mp : List (List Nat)) (s : Nat) :
    (flatMapping mp s).length = (mp.map List.length).sum := by
  induction mp generalizing s with
  | nil => simp [flatMapping]
  | cons r rs ih => simp [flatMapping, ih]

/-- Entry `offset c + i` of the flat mapping is `shift + offset c + mapping[c][i]`. -/
theorem flatMapping_index (mp : List (List Nat)) (s c i : Nat) (hc : c < mp.length)
    (hi : i < (mp.getD c []).length) :
    (flatMapping mp s)[offset mp c + i]? = some (s + offset mp c + (mp.getD c []).getD i 0) := by
  induction mp generalizing s c with
  | nil => simp at hc
  | cons r rs ih =>
    cases c with
    | zero =>
      simp only [List.getD_eq_getElem?_getD, List.getElem?_cons_zero, Option.getD_some] at hi ⊢
      simp only [flatMapping, offset, List.take_zero, List.map_nil, List.sum_nil, Nat.zero_add, Nat.add_zero]
      rw [List.getElem?_append_left (by simpa using hi)]
      simp [hi, Nat.add_comm]
    | succ c =>
      have hc' : c < rs.length := by simpa using hc
      have hi' : i < (rs.getD c []).length := by simpa [List.getD_eq_getElem?_getD] using hi
      have hoff : offset (r :: rs) (c + 1) = r.length + offset rs c := by
        simp [offset]
      simp only [flatMapping, hoff]
      rw [List.getElem?_append_right (by simp; omega)]
      have : r.length + offset rs c + i - (List.map (· + s) r).length = offset rs c + i := by simp; omega
      rw [this, ih (s + r.length) c hc' hi']
      simp [List.getD_eq_getElem?_getD]; omega

/-! ### `trans.pl` -/

theorem transpl_eq (R : List (List Int)) (t : List Rat) (mapping : List Nat) (pos : List (List Rat)) :
    transpl R t mapping pos = mapping.map fun k => grot R t (pos.getD k []) := rfl

/-- The ordering of `(g*state).reorder(mapping)`: `new[c][i] = g(old[c][mapping[c][i]])`. -/
def newOrder (m : Nat → Nat) (cos mp : List (List Nat)) : List (List Nat) :=
  List.zipWith (fun co r => r.map fun j => m (co.getD j 0)) cos mp

theorem transpl_core (R : List (List Int)) (t : List Rat) (pos : Nat → List Rat) (m : Nat → Nat)
    (hgeo : ∀ i, grot R t (pos i) = pos (m i))
    (cos mp : List (List Nat))
    (hshape : List.Forall₂ (fun co r => r.length = co.length ∧ ∀ j ∈ r, j < co.length) cos mp)
    (pre : List Nat) :
    (flatMapping mp pre.length).map (fun k => grot R t (((pre ++ cos.flatten).map pos).getD k [])) =
      (newOrder m cos mp).flatten.map pos := by
  induction hshape generalizing pre with
  | nil => simp [flatMapping, newOrder]
  | @cons co r cos' mp' hhead _ ih =>
    obtain ⟨hlen, hlt⟩ := hhead
    simp only [flatMapping, newOrder, List.zipWith_cons_cons, List.flatten_cons, List.map_append]
    congr 1
    · rw [List.map_map, List.map_map]
      apply List.map_congr_left
      intro j hj
      have hj' := hlt j hj
      simp only [Function.comp]
      have hidx : j + pre.length < (List.map pos pre ++ (List.map pos co ++ List.map pos cos'.flatten)).length := by
        simp; omega
      rw [List.getD_eq_getElem?_getD, List.getElem?_eq_getElem hidx, Option.getD_some]
      rw [List.getElem_append_right (by simp)]
      simp only [List.length_map, Nat.add_sub_cancel]
      rw [List.getElem_append_left (by simpa using hj')]
      simp only [List.getElem_map]
      rw [hgeo]
      congr 2
      simp [List.getD_eq_getElem?_getD, hj']
    · have := ih (pre ++ co)
      simp only [List.length_append, List.append_assoc, List.map_append] at this
      rw [← hlen] at this
      simpa [newOrder] using this

/-- **trans.pl reproduces the transition endpoint.**  If the op `g` written in the trans file moves the
    position of site `i` to the position of site `m i` (geometric consistency of the supercell op, C27), the
    mapping has the shape of the state's chemorder, then the script's output block — the affine map and wrap
    applied to the state's POSCAR positions taken in the order of the flattened mapping — is the POSCAR
    position list of `(g*state).reorder(mapping)`. -/
theorem transpl_applies_map (R : List (List Int)) (t : List Rat) (pos : Nat → List Rat) (m : Nat → Nat)
    (hgeo : ∀ i, grot R t (pos i) = pos (m i))
    (cos mp : List (List Nat))
    (hshape : List.Forall₂ (fun co r => r.length = co.length ∧ ∀ j ∈ r, j < co.length) cos mp) :
    transpl R t (flatMapping mp 0) (cos.flatten.map pos) = (newOrder m cos mp).flatten.map pos := by
  rw [transpl_eq]
  have := transpl_core R t pos m hgeo cos mp hshape []
  simpa using this

/-- Perl's wrap: the coordinate changes by an integer in {−1, 0, 1}; the result is in [0,1) exactly when the
    argument is in [−1, 2). -/
theorem wrap1_spec (x : Rat) :
    (wrap1 x = x ∨ wrap1 x = x - 1 ∨ wrap1 x = x + 1) ∧
    ((0 ≤ wrap1 x ∧ wrap1 x < 1) ↔ (-1 ≤ x ∧ x < 2)) := by
  unfold wrap1
  simp only
  split_ifs with h1 h2 h2
  · exact ⟨Or.inl (by ring), by constructor <;> intro h <;> constructor <;> linarith [h.1, h.2]⟩
  · exact ⟨Or.inr (Or.inl rfl), by constructor <;> intro h <;> constructor <;> linarith [h.1, h.2]⟩
  · exact ⟨Or.inr (Or.inr rfl), by constructor <;> intro h <;> constructor <;> linarith [h.1, h.2]⟩
  · exact ⟨Or.inl rfl, by constructor <;> intro h <;> constructor <;> linarith [h.1, h.2]⟩

/-! ### closing the chain: the script's output is the transition endpoint's POSCAR list -/

theorem neworder_eq (mfun : Nat → Nat) (cos mp : List (List Nat))
    (hshape : List.Forall₂ (fun co r => r.length = co.length ∧ ∀ j ∈ r, j < co.length) cos mp) :
    ((cos.map (·.map mfun)).zip mp).map (fun (x : List Nat × List Nat) =>
        (List.range x.1.length).map fun i => x.1.getD (x.2.getD i 0) 0) = newOrder mfun cos mp := by
  induction hshape with
  | nil => simp [newOrder]
  | @cons co r cos' mp' hhead _ ih =>
    obtain ⟨hlen, hlt⟩ := hhead
    simp only [List.map_cons, List.zip_cons_cons, newOrder, List.zipWith_cons_cons, List.cons.injEq]
    refine ⟨?_, by simpa [newOrder] using ih⟩
    conv_rhs => rw [Onsager.C27.list_eq_range_map r, List.map_map]
    rw [List.length_map, ← hlen]
    apply List.map_congr_left
    intro i hi
    have hir : i < r.length := List.mem_range.1 hi
    have hj : r.getD i 0 < co.length := by
      apply hlt
      simp [List.getD_eq_getElem?_getD, hir]
    have hj' : r.getD i 0 < (co.map mfun).length := by simpa using hj
    simp only [Function.comp]
    rw [List.getD_eq_getElem?_getD (l := co.map mfun), List.getElem?_eq_getElem hj', Option.getD_some,
      List.getElem_map, List.getD_eq_getElem?_getD (l := co), List.getElem?_eq_getElem hj, Option.getD_some]

open Onsager.C28 (Cell Inv imul reorder) in
/-- The ordering produced by `__imul__` + `reorder` is `newOrder` (shape: one mapping list per species list,
    same length, entries in range). -/
theorem reorder_imul_chemorder (s s' : Cell) (m : List Nat) (mp : List (List Nat))
    (hshape : List.Forall₂ (fun co r => r.length = co.length ∧ ∀ j ∈ r, j < co.length) s.chemorder mp)
    (h : reorder (imul s m) mp = .ok s') :
    s'.chemorder = newOrder (fun i => m.getD i 0) s.chemorder mp := by
  simp only [reorder, Onsager.C28.reorderZip] at h
  split at h
  · cases h
  split at h
  · cases h
  · split at h
    · cases h
      simp only [Onsager.C27.imul_chemorder]
      exact neworder_eq (fun i => m.getD i 0) s.chemorder mp hshape
    · cases h

open Onsager.C28 (Cell Inv imul reorder) in
/-- **End-to-end on the model.**  For a mapping `(k, mapping)` returned by `equivalencemap` for a state
    cell and a transition endpoint (consistent cells, `G[k]` a permutation), if the op written to the trans
    file moves positions as its index map says, then `trans.pl` applied to the state's POSCAR position list
    with the flattened mapping yields exactly the endpoint's POSCAR position list. -/
theorem transpl_reproduces_endpoint (sc : Onsager.C27.SiteCtx) (G : List (List Nat)) (state endpoint : Cell)
    (k : Nat) (mp : List (List Nat)) (m : List Nat)
    (hs : Inv state) (he : Inv endpoint) (hn : state.nchem = endpoint.nchem)
    (hfound : Onsager.C27.equivalencemap sc G state endpoint = .ok (some (k, mp)))
    (hk : G[k]? = some m) (hperm : Onsager.C27.IsPerm state.occ.length m)
    (R : List (List Int)) (t : List Rat) (pos : Nat → List Rat)
    (hgeo : ∀ i, grot R t (pos i) = pos (m.getD i 0)) :
    transpl R t (flatMapping mp 0) (state.chemorder.flatten.map pos) = endpoint.chemorder.flatten.map pos := by
  obtain ⟨m', hk', hsound⟩ := Onsager.C27.equiv_sound sc G state endpoint k mp hfound
  have hmm : m' = m := by rw [hk] at hk'; exact (Option.some.inj hk').symm
  subst hmm
  obtain ⟨hocc, hlen, hspec⟩ := hsound hperm
  obtain ⟨m2, hk2, hre⟩ := Onsager.C27.equiv_sound_reorder sc G state endpoint k mp hs he hn hfound
  have hm2 : m2 = m' := by rw [hk] at hk2; exact (Option.some.inj hk2).symm
  subst hm2
  have hreorder := hre hperm
  have hmap : Onsager.C27.permOcc state.occ m2 state.occ = endpoint.occ := by
    rw [← Onsager.C27.imul_occ]; exact hocc
  have hmpl : mp.length = state.chemorder.length := by
    rw [hlen, hs.len, he.len, hn]; simp
  have hshape : List.Forall₂ (fun co r => r.length = co.length ∧ ∀ j ∈ r, j < co.length) state.chemorder mp := by
    apply List.forall₂_of_length_eq_of_get hmpl.symm
    intro c h1 h2
    have hc : c < state.nchem := by rw [← hs.len]; exact h1
    obtain ⟨hl1, hl2⟩ := hspec c h2
    have hp := (Onsager.C27.chemorder_perm state endpoint m2 hs he hn hperm hmap c hc).length_eq
    have hco : state.chemorder.getD c [] = state.chemorder[c] := by
      simp [List.getD_eq_getElem?_getD, List.getElem?_eq_getElem h1]
    have hmpc : mp.getD c [] = mp[c] := by
      simp [List.getD_eq_getElem?_getD, List.getElem?_eq_getElem h2]
    have hgl : ((imul state m2).chemorder.getD c []).length = (state.chemorder[c]).length := by
      rw [Onsager.C27.imul_chemorder]
      simp [List.getD_eq_getElem?_getD, List.getElem?_map, List.getElem?_eq_getElem h1]
    simp only [List.get_eq_getElem]
    rw [hco, List.length_map] at hp
    refine ⟨by rw [← hmpc, hl1, ← hp], ?_⟩
    intro j hj
    obtain ⟨i, hi, rfl⟩ := List.getElem_of_mem hj
    have hib : i < (endpoint.chemorder.getD c []).length := by rw [← hl1, hmpc]; exact hi
    have := (hl2 i hib).1
    rw [hgl, hmpc] at this
    simpa [List.getD_eq_getElem?_getD, List.getElem?_eq_getElem hi] using this
  rw [transpl_applies_map R t pos (fun i => m2.getD i 0) hgeo state.chemorder mp hshape,
    ← reorder_imul_chemorder state endpoint m2 mp hshape hreorder]

/-! ### non-vacuity -/

example : fmt02 7 = [0, 7] ∧ fmt02 42 = [4, 2] ∧ fmt02 123 = [1, 2, 3] := by
  refine ⟨by simp [fmt02], by simp [fmt02, decDigits], by simp [fmt02, decDigits]⟩
example : allDirs "relax.".toList "neb.".toList 2 1 = ["relax.00".toList, "relax.01".toList, "neb.00".toList] := by
  simp [allDirs, dirNames, dirName, fmt02Chars, fmt02, List.range, List.range.loop]
  decide
example : flatMapping [[2, 0, 1], [0], [], [1, 0]] 0 = [2, 0, 1, 3, 5, 4] := by decide
example : List.Forall₂ (fun (co r : List Nat) => r.length = co.length ∧ ∀ j ∈ r, j < co.length)
    [[5, 7, 9], [3]] [[2, 0, 1], [0]] := by
  refine List.Forall₂.cons ⟨rfl, by decide⟩ (List.Forall₂.cons ⟨rfl, by decide⟩ List.Forall₂.nil)
example : wrap1 (5 / 4) = 1 / 4 ∧ wrap1 (-3 / 4) = 1 / 4 ∧ wrap1 (-7 / 4) = -3 / 4 := by
  refine ⟨by decide +kernel, by decide +kernel, by decide +kernel⟩

end Onsager.C30
