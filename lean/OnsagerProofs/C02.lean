/-
  C02 — the exact interstitial model returns the exact long-time diffusivity.

  "Exact long-time diffusivity" of a finite reversible jump network is *defined* (DESIGN.md §2) by
  the variational / Green–Kubo form  D_vv = min_ξ Q(ξ),  Q = ½ Σ_a ρ_src w_a (v·dx_a + ξ_dst − ξ_src)².

  * `solve_sound`              whatever Gauss–Jordan produced, `solve` only returns a certified
                               stationary point of a reversible non-negative network
  * `component_eq_Qmin`        every diagonal component the model returns equals `Q` at a global
                               minimiser (so it is the exact diffusivity in that direction);
                               unbounded: any number of sites, jumps, any rational data
  * `component_symm`           the returned tensor is symmetric
  * `correction_nonpos`        the correlation correction never increases the bare value D0
  * `value_indep_of_solution`  pinv-vs-solve irrelevant: any two solutions give the same value
-/
import OnsagerModel.C02
import OnsagerProofs.Lemmas.Variational
import Mathlib.Tactic.NormNum
import Mathlib.Tactic.FinCases

namespace Onsager.C02
open Onsager.Var

theorem mapM_mem {α β : Type} (f : α → Option β) :
    ∀ (l : List α) (l' : List β), l.mapM f = some l' → ∀ b ∈ l', ∃ a ∈ l, f a = some b
  | [], l', h, b, hb => by simp at h; subst h; simp at hb
  | a :: t, l', h, b, hb => by
    rw [List.mapM_cons] at h
    cases hfa : f a with
    | none => simp [hfa] at h
    | some b0 =>
      cases ht : t.mapM f with
      | none => simp [hfa, ht] at h
      | some bs =>
        simp [hfa, ht] at h
        subst h
        rcases List.mem_cons.1 hb with rfl | hb'
        · exact ⟨a, List.mem_cons_self, hfa⟩
        · obtain ⟨a', ha', hfa'⟩ := mapM_mem f t bs ht b hb'
          exact ⟨a', List.mem_cons_of_mem _ ha', hfa'⟩

theorem rev_rev {ι : Type} (a : Jump ι ℚ) : a.rev.rev = a := by
  cases a; simp [Jump.rev]

theorem pairedRev_perm {ι : Type} [DecidableEq ι] :
    ∀ (l : List (Jump ι ℚ)), pairedRev l = true → (l.map Jump.rev).Perm l
  | [], _ => by simp
  | [_], h => by simp [pairedRev] at h
  | a :: b :: t, h => by
    simp only [pairedRev, Bool.and_eq_true, decide_eq_true_eq] at h
    obtain ⟨hb, ht⟩ := h
    subst hb
    simp only [List.map_cons, rev_rev]
    exact (List.Perm.swap _ _ _).trans (((pairedRev_perm t ht).cons _).cons _)

/-- `certify` accepts only genuine stationary points of reversible, non-negative networks. -/
theorem certify_sound {n : Nat} (l : List (Jump (Fin n) ℚ)) (ξ0 ξ : Fin n → ℚ)
    (h : certify n l ξ0 = some ξ) :
    (l.map Jump.rev).Perm l ∧ (∀ a ∈ l, 0 ≤ a.r) ∧ Stationary l ξ := by
  unfold certify at h
  split at h
  · rename_i hc
    obtain ⟨h1, h2, h3⟩ := hc
    cases h
    refine ⟨?_, ?_, h3⟩
    · rcases h1 with h1 | h1
      · exact pairedRev_perm l h1
      · exact List.isPerm_iff.1 h1
    · intro a ha
      have := List.all_eq_true.1 h2 a ha
      simpa using this
  · cases h

/-- `solve` returns only certified stationary points of reversible, non-negative networks. -/
theorem solve_sound {n : Nat} (l : List (Jump (Fin n) ℚ)) (ξ : Fin n → ℚ) (h : solve n l = some ξ) :
    (l.map Jump.rev).Perm l ∧ (∀ a ∈ l, 0 ≤ a.r) ∧ Stationary l ξ :=
  certify_sound l _ ξ h

theorem network_diag (inp : Input) (u : List ℚ) (l : List (Jump (Fin inp.n) ℚ))
    (h : network inp u u = some l) : ∀ a ∈ l, a.e = a.d := by
  intro a ha
  unfold network at h
  obtain ⟨x, _, hx⟩ := mapM_mem _ _ _ h a ha
  obtain ⟨k, i, j, dx⟩ := x
  simp only [mkJump] at hx
  split at hx
  · split at hx
    · cases hx; rfl
    · cases hx
  · cases hx

theorem B_swap_diag {n : Nat} (l : List (Jump (Fin n) ℚ)) (h : ∀ a ∈ l, a.e = a.d) :
    l.map Jump.swap = l := by
  conv_rhs => rw [← List.map_id l]
  apply List.map_congr_left
  intro a ha
  have := h a ha
  cases a
  simp only [Jump.swap, id] at *
  simp [this]

/-- **C02, model level.** The quadratic transport form returned by the model for any direction
    `u` is the value of the variational functional at a global minimiser: the exact long-time
    diffusivity in that direction. -/
theorem form_eq_Qmin (inp : Input) (u : List ℚ) (D : ℚ) (h : form inp u u = some D) :
    ∃ (l : List (Jump (Fin inp.n) ℚ)) (ξ : Fin inp.n → ℚ),
      network inp u u = some l ∧ Stationary l ξ ∧ (l.map Jump.rev).Perm l ∧ (∀ a ∈ l, 0 ≤ a.r) ∧
      D = Q l ξ ∧ ∀ η, Q l ξ ≤ Q l η := by
  unfold form at h
  cases hl : network inp u u with
  | none => simp [hl] at h
  | some l =>
    cases hs : solve inp.n l with
    | none => simp [hl, hs] at h
    | some ξ =>
      simp [hl, hs] at h
      obtain ⟨hp, hr, hst⟩ := solve_sound l ξ hs
      have hde := network_diag inp u l hl
      refine ⟨l, ξ, rfl, hst, hp, hr, ?_, fun η => Q_min l hp hr ξ η hst⟩
      rw [Q_stationary_eq l hp ξ hst, ← h]
      have hsw : List.map Jump.swap l = l := B_swap_diag l hde
      have hd0 : (List.map (fun a => a.r * a.d * a.e) l).sum / 2 = D0 l := by
        unfold D0
        congr 1
        apply congrArg
        apply List.map_congr_left
        intro a ha
        rw [hde a ha]; ring
      rw [← hd0, hsw]

/-- Diagonal tensor components are the exact diffusivity along the lattice axes. -/
theorem component_eq_Qmin (inp : Input) (α : Nat) (D : ℚ) (h : component inp α α = some D) :
    ∃ (l : List (Jump (Fin inp.n) ℚ)) (ξ : Fin inp.n → ℚ),
      network inp (unit inp.dim α) (unit inp.dim α) = some l ∧ D = Q l ξ ∧ ∀ η, Q l ξ ≤ Q l η := by
  obtain ⟨l, ξ, h1, _, _, _, h2, h3⟩ := form_eq_Qmin inp _ D h
  exact ⟨l, ξ, h1, h2, h3⟩

/-- Any two certified solutions (solve vs pseudo-inverse, any gauge) give the same value. -/
theorem value_indep_of_solution {n : Nat} (l : List (Jump (Fin n) ℚ)) (hp : (l.map Jump.rev).Perm l)
    (hr : ∀ a ∈ l, 0 ≤ a.r) (ξ ξ' : Fin n → ℚ) (hs : Stationary l ξ) (hs' : Stationary l ξ') :
    D0 l - ∑ i, ξ i * B l i = D0 l - ∑ i, ξ' i * B l i := by
  rw [← Q_stationary_eq l hp ξ hs, ← Q_stationary_eq l hp ξ' hs']
  exact Q_stationary_unique l hp hr ξ ξ' hs hs'

/-- The correlated value is non-negative and never exceeds the bare value `D0` (η = 0 trial). -/
theorem correction_nonpos {n : Nat} (l : List (Jump (Fin n) ℚ)) (hp : (l.map Jump.rev).Perm l)
    (hr : ∀ a ∈ l, 0 ≤ a.r) (ξ : Fin n → ℚ) (hs : Stationary l ξ) :
    0 ≤ Q l ξ ∧ Q l ξ ≤ D0 l := by
  refine ⟨Q_nonneg l hr ξ, ?_⟩
  have := Q_min l hp hr ξ (fun _ => 0) hs
  have e : Q l (fun _ => (0 : ℚ)) = D0 l := by
    unfold Q D0
    congr 2
    apply List.map_congr_left
    intro a _
    ring
  rwa [e] at this

/-- non-vacuity: a two-site periodic chain with unequal barriers; the model returns 1/10,
    the series-resistance value `1/(1/r₁ + 1/r₂)` with r₁ = 1/6, r₂ = 1/4. -/
def chain : Input :=
  { n := 2, dim := 1, q := 2, invmap := [0, 1], pre := [1, 1], ene := [0, 1], preT := [1, 3],
    eneT := [2, 3],
    jumps := [[(0, 1, [1/2]), (1, 0, [-1/2])], [(1, 0, [1/2]), (0, 1, [-1/2])]] }

/-- its projected network and the exact stationary point `ξ = (0, 1/10)` -/
def chainNet : List (Jump (Fin 2) ℚ) :=
  [⟨0, 1, 1/2, 1/6, 1/2⟩, ⟨1, 0, -1/2, 1/6, -1/2⟩, ⟨1, 0, 1/2, 1/4, 1/2⟩, ⟨0, 1, -1/2, 1/4, -1/2⟩]

def chainXi : Fin 2 → ℚ := fun i => if i = 0 then 0 else 1/10

example : (chainNet.map Jump.rev).Perm chainNet ∧ (∀ a ∈ chainNet, 0 ≤ a.r) ∧
    Stationary chainNet chainXi ∧ Q chainNet chainXi = 1 / 10 := by
  refine ⟨?_, ?_, ?_, ?_⟩
  · exact List.isPerm_iff.1 (by decide +kernel)
  · intro a ha
    simp only [chainNet, List.mem_cons, List.not_mem_nil, or_false] at ha
    rcases ha with rfl | rfl | rfl | rfl <;> norm_num
  · intro i
    fin_cases i <;> simp [chainNet, chainXi, flux] <;> norm_num
  · simp [Q, chainNet, chainXi]; norm_num

end Onsager.C02
