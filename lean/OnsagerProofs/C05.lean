/-
  C05 — Faster transitions never reduce diffusivity (Rayleigh monotonicity), interstitial model.

  `lowering_monotone`: for every network, every rational data set with `q ≥ 1`, every jump class `k`,
  every amount `δ ≥ 0` and every direction `u`, the exact diffusivity `u·D·u` computed by the model
  does not decrease when the transition-state energy of class `k` is lowered by `δ ln q`.
  (Site probabilities are untouched; the rates of class `k` are multiplied by `q^δ ≥ 1`;
  then `Var.Q_mono`.)  The vacancy-mediated coefficients (L0vv, Lss) are covered at the level of
  the same variational lemma (`Var.Q_mono`) plus the correspondence check.
-/
import OnsagerModel.C05
import OnsagerProofs.C02

namespace Onsager.C05
open Onsager.C02 Onsager.Var

theorem mapM_forall₂ {α β γ : Type} (f : α → Option β) (g : α → Option γ) (R : β → γ → Prop)
    (h : ∀ x y z, f x = some y → g x = some z → R y z) :
    ∀ (l : List α) (lb : List β) (lc : List γ), l.mapM f = some lb → l.mapM g = some lc →
      List.Forall₂ R lb lc
  | [], lb, lc, h1, h2 => by
    simp at h1 h2; subst h1; subst h2; exact List.Forall₂.nil
  | a :: t, lb, lc, h1, h2 => by
    rw [List.mapM_cons] at h1 h2
    cases hfa : f a with
    | none => simp [hfa] at h1
    | some b =>
      cases hga : g a with
      | none => simp [hga] at h2
      | some c =>
        cases hft : t.mapM f with
        | none => simp [hfa, hft] at h1
        | some bs =>
          cases hgt : t.mapM g with
          | none => simp [hga, hgt] at h2
          | some cs =>
            simp [hfa, hft] at h1
            simp [hga, hgt] at h2
            subst h1; subst h2
            exact List.Forall₂.cons (h a b c hfa hga) (mapM_forall₂ f g R h t bs cs hft hgt)

theorem qpow_eq_zpow (q : ℚ) (z : Int) : qpow q z = q ^ z := by
  unfold qpow
  split
  · rename_i h
    conv_rhs => rw [← Int.toNat_of_nonneg h]
    rw [zpow_natCast]
  · rename_i h
    have h' : 0 ≤ -z := by omega
    have : z = -((-z).toNat : Int) := by rw [Int.toNat_of_nonneg h']; ring
    conv_rhs => rw [this]
    rw [zpow_neg, zpow_natCast]

theorem getD_modify_int (l : List Int) (i j : Nat) (f : Int → Int) :
    (l.modify i f).getD j 0 = if i = j ∧ j < l.length then f (l.getD j 0) else l.getD j 0 := by
  simp only [List.getD_eq_getElem?_getD, List.getElem?_modify]
  by_cases hj : j < l.length
  · simp [List.getElem?_eq_getElem hj]
    split <;> simp_all
  · have : l[j]? = none := by simp; omega
    simp [this, hj]

/-- the rate of a jump of class `k'` after lowering class `k`: multiplied by `q^δ` or unchanged -/
theorem rate_lower (inp : Input) (hq : inp.q ≠ 0) (k δ k' i : Nat) :
    rate (lower inp k δ) k' i
      = rate inp k' i * (if k = k' ∧ k' < inp.eneT.length then inp.q ^ δ else 1) := by
  unfold rate lower
  simp only [getD_modify_int]
  split
  · rw [qpow_eq_zpow, qpow_eq_zpow]
    have : (inp.ene.getD (inp.invmap.getD i 0) 0 - (inp.eneT.getD k' 0 - (δ : Int)))
        = (inp.ene.getD (inp.invmap.getD i 0) 0 - inp.eneT.getD k' 0) + (δ : Int) := by ring
    rw [this, zpow_add₀ hq, zpow_natCast]
    ring
  · ring

/-- relation between corresponding jumps before/after lowering -/
def Raised (a a' : Jump ι ℚ) : Prop :=
  a.src = a'.src ∧ a.dst = a'.dst ∧ a.d = a'.d ∧ ∃ c : ℚ, 1 ≤ c ∧ a'.r = a.r * c

theorem raised_to_rateLE {ι : Type} (l l' : List (Jump ι ℚ)) (h : List.Forall₂ Raised l l')
    (hr : ∀ a ∈ l, 0 ≤ a.r) : List.Forall₂ RateLE l l' := by
  induction h with
  | nil => exact List.Forall₂.nil
  | cons hab _ ih =>
    rename_i a b la lb _
    refine List.Forall₂.cons ?_ (ih (fun x hx => hr x (List.mem_cons_of_mem _ hx)))
    obtain ⟨h1, h2, h3, c, hc, hrc⟩ := hab
    refine ⟨h1, h2, h3, ?_⟩
    rw [hrc]
    have := hr a List.mem_cons_self
    nlinarith

/-- **C05, interstitial model.** -/
theorem lowering_monotone (inp : Input) (k δ : Nat) (u : List ℚ) (hq : 1 ≤ inp.q) (D D' : ℚ)
    (h : form inp u u = some D) (h' : form (lower inp k δ) u u = some D') : D ≤ D' := by
  obtain ⟨l, ξ, hl, hst, hp, hr, hD, _⟩ := form_eq_Qmin inp u D h
  obtain ⟨l', ξ', hl', _, _, _, hD', _⟩ := form_eq_Qmin (lower inp k δ) u D' h'
  have hq0 : inp.q ≠ 0 := by
    intro h0; rw [h0] at hq; norm_num at hq
  have hF : List.Forall₂ Raised l l' := by
    refine mapM_forall₂ (mkJump inp u u) (mkJump (lower inp k δ) u u) Raised ?_ (flat inp) l l' hl hl'
    intro x y z hy hz
    obtain ⟨k', i, j, dx⟩ := x
    simp only [mkJump] at hy hz
    have hn : (lower inp k δ).n = inp.n := rfl
    split at hy
    · rename_i hi
      split at hy
      · rename_i hj
        have hi' : i < (lower inp k δ).n := hi
        have hj' : j < (lower inp k δ).n := hj
        simp only [hi', hj', dif_pos] at hz
        cases hy; cases hz
        refine ⟨rfl, rfl, rfl, (if k = k' ∧ k' < inp.eneT.length then inp.q ^ δ else 1), ?_, ?_⟩
        · split
          · exact one_le_pow₀ hq
          · exact le_refl _
        · have hrho : rho (lower inp k δ) i = rho inp i := rfl
          simp only [hrho, rate_lower inp hq0]
          ring
      · cases hy
    · cases hy
  rw [hD, hD']
  exact Q_mono l l' hp hr (raised_to_rateLE l l' hF hr) ξ ξ' hst

end Onsager.C05
