/-
  C16 — translator half of the tie (part 2: all tables of Taylor2D).  Generated/C16Facts.lean is rewritten on every run from the LIVE
  classes Taylor3D / Taylor2D of onsager/PowerExpansion.py; each theorem below is one table obligation,
  checked exhaustively for the dumped tables (Lmax = 4) by kernel evaluation.  A source change that alters
  a table breaks the corresponding obligation.
-/
import Generated.C16Facts

namespace Onsager.C16
open Generated.C16
set_option maxRecDepth 1000000

/-- sizes; `powlrange` starts at 1, increases strictly, ends at `Npower` -/
theorem tab2_sizes : tab2.checkSizes = true := by decide +kernel
/-- `powlrange` grades `ind2pow` -/
theorem tab2_graded : tab2.checkGraded = true := by decide +kernel
/-- `pow2ind` / `ind2pow` mutually inverse; `-1` exactly above `Lmax` -/
theorem tab2_inverse : tab2.checkInverse = true := by decide +kernel
/-- `directmult p p' = pow2ind (ind2pow p + ind2pow p')`, `-1` exactly when the degree exceeds `Lmax` -/
theorem tab2_dmult : tab2.checkDmult = true := by decide +kernel
/-- `powercoeff[n][p] = n!/Π k_i!` -/
theorem tab2_pcoef_formula : tab2.checkPcoefFormula = true := by decide +kernel
/-- `powercoeff[n] = (x+y+z)^n` through `directmult` -/
theorem tab2_pcoef_powers : tab2.checkPcoefPowers = true := by decide +kernel
/-- positions of `x², y², z²` -/
theorem tab2_r2 : tab2.checkR2 = true := by decide +kernel
/-- `Lproj[l]` lowers degrees within parity classes and `Σ_l Lproj[l] = Lproj[-1]` -/
theorem tab2_proj_graded : tab2.checkProjGraded = true := by decide +kernel
/-- `Lproj[-1][:r_l,:r_l]` is the identity modulo `x²+y² = 1` -/
theorem tab2_proj_all : tab2.checkProjAll cert2 = true := by decide +kernel
/-- the pieces kept by `separate` sum to the identity modulo `x²+y² = 1` -/
theorem tab2_proj_sep : tab2.checkProjSep cert2 = true := by decide +kernel
/-- every column of `Lproj[l]` is harmonic of degree `l` -/
theorem tab2_harmonic : tab2.checkHarmonic = true := by decide +kernel

end Onsager.C16
