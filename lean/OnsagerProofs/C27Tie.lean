/-
  C27 — tie to the current source: Generated/C27Facts.lean records whether `Supercell.equivalencemap`
  handles the no-defect case before `min(defcount)`.  Whatever the flag, the completeness theorem that
  applies to the model run by the driver (which uses the same flag) is instantiated here: with the guard
  the full-strength statement holds; without it the full statement is false (finding F9) and the
  partial one (some defect exists) is what is proved.
-/
import OnsagerProofs.C27
import Generated.C27Facts

namespace Onsager.C27
open Onsager.C28 (Cell Inv)

theorem src_equiv_complete :
    (Generated.C27.guardsEmpty = true → equiv_complete_full Generated.C27.guardsEmpty) ∧
    (Generated.C27.guardsEmpty = false → ¬ equiv_complete_full Generated.C27.guardsEmpty) ∧
    (∀ (sc : SiteCtx) (G : List (List Nat)) (a b : Cell), sc.guardEmpty = Generated.C27.guardsEmpty →
      (visitList sc).Perm (List.range a.occ.length) → (∀ m ∈ G, IsPerm a.occ.length m) →
      Inv a → Inv b → a.nchem = b.nchem → Witness sc G a.occ b.occ →
      (Generated.C27.guardsEmpty = true ∨ defKeys sc a.occ ≠ []) →
      ∃ k mp, equivalencemap sc G a b = .ok (some (k, mp))) := by
  refine ⟨fun h => h ▸ equiv_complete_full_guarded, fun h => h ▸ equiv_complete_full_unguarded_fails, ?_⟩
  intro sc G a b hg hvis hG ha hb hn hw hne
  exact equiv_complete_partial sc G a b hvis hG ha hb hn hw (hne.imp_left (fun h => hg.trans h))

end Onsager.C27
