/-
  C12 — internal-friction loss tensors: relaxation sum rule, compliance symmetries, positivity.

  Code (OnsagerCalc.py 573–609): `ω` = symmetrised rate matrix, `(λ_m, φ_m) = eigh(ω)`, `F_m = Σ_i φ_m(i) √ρ_i P_i`,
  `L_m = F_m ⊗ F_m`, modes with `λ ≈ 0` skipped, close rates merged.

  * `completeness`            rows orthonormal (`Φ Φᵀ = 1`, what `eigh` promises) ⇒ `Σ_m φ_m(i) φ_m(j) = δ_ij`
  * `spec_sum_all`            `Σ_m F_m(p) F_m(q) = Σ_i ρ_i p_i q_i`
  * `spec_sum`                SPEC-sum: with `φ_0 = √ρ`,  `Σ_{m≠0} F_m(p) F_m(q) = Σ ρ p q − p̄ q̄`
  * `spec_sum_tensor`         the same for tensors: `Σ_{m≠0} L_m[a,b,c,d] = Σ ρ P_ab P_cd − P̄_ab P̄_cd`
  * `spec_sum_kept`           whatever set of modes is kept, the kept sum is the total minus the skipped modes
                              (disconnected networks: the skipped zero modes carry the between-component part)
  * `loss_compliance_symm`    `L = F⊗F`, `F` symmetric ⇒ `L_abcd = L_bacd = L_abdc = L_cdab`
  * `loss_psd`, `loss_sum_psd` `e:L:e = (F:e)² ≥ 0`, and sums of such
  * `quad_eq_neg_dirichlet`   `φᵀ ω φ = −½ Σ r (x_dst − x_src)²`, `x = φ/√ρ`   (−ω is a Dirichlet form)
  * `rate_nonneg`, `rate_pos` an eigenvalue `−λ` of `−ω` is `≥ 0`; a non-zero one is `> 0`
  * `rayleigh_eq_rate`        for an exact mode the model's Rayleigh quotient is its rate
  * `addToClose_total`        the loop body adds a mode once per matching stored rate (there is no `break`)
  * `merge_sum`               mode merging preserves the sum when closeness is symmetric and transitive
  * `merge_sum_sorted`, `npIsclose_mono`, `merge_sum_isclose`
                              np.isclose is neither, but rates are met in descending order (eigh sorts) and isclose is
                              interval-monotone: then each mode is added exactly once and the sum is preserved
-/
import OnsagerModel.C12
import OnsagerProofs.Lemmas.Variational
import Mathlib.Data.Matrix.Mul
import Mathlib.LinearAlgebra.Matrix.NonsingularInverse
import Mathlib.LinearAlgebra.Matrix.Notation
import Mathlib.Tactic.FinCases
import Mathlib.Tactic.NormNum

namespace Onsager.C12
open Onsager.Var

section spectral
variable {ι K : Type} [Fintype ι] [DecidableEq ι] [Field K]

/-- **completeness of an orthonormal basis** (finite-dimensional: a left inverse is a right inverse) -/
theorem completeness (Φ : Matrix ι ι K) (h : Φ * Φ.transpose = 1) (i j : ι) :
    ∑ m, Φ m i * Φ m j = if i = j then 1 else 0 := by
  have h' : Φ.transpose * Φ = 1 := mul_eq_one_comm.mp h
  have := congrFun (congrFun h' i) j
  simpa [Matrix.mul_apply, Matrix.one_apply] using this

/-- mode strength `F_m(p) = Σ_i φ_m(i) √ρ_i p_i` for one tensor component `p` of the site dipoles -/
def Fm (Φ : Matrix ι ι K) (s p : ι → K) (m : ι) : K := ∑ i, Φ m i * s i * p i

theorem spec_sum_all' (Φ : Matrix ι ι K)
    (hc : ∀ i j, ∑ m, Φ m i * Φ m j = if i = j then 1 else 0) (s p q : ι → K) :
    ∑ m, Fm Φ s p m * Fm Φ s q m = ∑ i, s i ^ 2 * p i * q i := by
  unfold Fm
  have : ∀ m, (∑ i, Φ m i * s i * p i) * (∑ j, Φ m j * s j * q j)
      = ∑ i, ∑ j, (Φ m i * Φ m j) * (s i * p i * (s j * q j)) := by
    intro m
    rw [Finset.sum_mul_sum]
    refine Finset.sum_congr rfl fun i _ => Finset.sum_congr rfl fun j _ => ?_
    ring
  simp only [this]
  rw [Finset.sum_comm]
  refine Finset.sum_congr rfl fun i _ => ?_
  rw [Finset.sum_comm]
  simp only [← Finset.sum_mul, hc]
  simp
  ring

theorem spec_sum_all (Φ : Matrix ι ι K) (h : Φ * Φ.transpose = 1) (s p q : ι → K) :
    ∑ m, Fm Φ s p m * Fm Φ s q m = ∑ i, s i ^ 2 * p i * q i :=
  spec_sum_all' Φ (completeness Φ h) s p q

/-- **SPEC-sum.**  Orthonormal eigenbasis whose mode `m0` is `√ρ`: the loss strengths of all other
    modes add up to the equilibrium fluctuation `⟨pq⟩ − ⟨p⟩⟨q⟩`. -/
theorem spec_sum (Φ : Matrix ι ι K) (h : Φ * Φ.transpose = 1) (s p q : ι → K) (m0 : ι)
    (h0 : ∀ i, Φ m0 i = s i) :
    ∑ m ∈ Finset.univ.erase m0, Fm Φ s p m * Fm Φ s q m
      = ∑ i, s i ^ 2 * p i * q i - (∑ i, s i ^ 2 * p i) * (∑ i, s i ^ 2 * q i) := by
  have hall := spec_sum_all Φ h s p q
  rw [← Finset.add_sum_erase Finset.univ _ (Finset.mem_univ m0)] at hall
  have e : ∀ r : ι → K, Fm Φ s r m0 = ∑ i, s i ^ 2 * r i := by
    intro r
    unfold Fm
    refine Finset.sum_congr rfl fun i _ => ?_
    rw [h0 i]; ring
  rw [e p, e q] at hall
  rw [← hall]; ring

/-- kept modes `S` versus skipped modes: nothing is lost or counted twice -/
theorem spec_sum_kept (Φ : Matrix ι ι K) (h : Φ * Φ.transpose = 1) (s p q : ι → K) (S : Finset ι) :
    ∑ m ∈ S, Fm Φ s p m * Fm Φ s q m
      = ∑ i, s i ^ 2 * p i * q i - ∑ m ∈ Sᶜ, Fm Φ s p m * Fm Φ s q m := by
  rw [← spec_sum_all Φ h s p q, ← Finset.sum_add_sum_compl S]
  ring

/-- tensor form: `L_m[a,b,c,d] = F_m[a,b] F_m[c,d]` with `F_m[a,b] = Σ_i φ_m(i) √ρ_i P_i[a,b]` -/
theorem spec_sum_tensor {d : Type} (Φ : Matrix ι ι K) (h : Φ * Φ.transpose = 1) (s : ι → K)
    (P : ι → d → d → K) (m0 : ι) (h0 : ∀ i, Φ m0 i = s i) (a b c e : d) :
    ∑ m ∈ Finset.univ.erase m0, Fm Φ s (fun i => P i a b) m * Fm Φ s (fun i => P i c e) m
      = ∑ i, s i ^ 2 * P i a b * P i c e
        - (∑ i, s i ^ 2 * P i a b) * (∑ i, s i ^ 2 * P i c e) :=
  spec_sum Φ h s _ _ m0 h0

end spectral

section tensors
variable {d K : Type} [Fintype d] [Field K] [LinearOrder K] [IsStrictOrderedRing K]

omit [Fintype d] [LinearOrder K] [IsStrictOrderedRing K] in
/-- compliance symmetries of `L = F ⊗ F` for symmetric `F` (`tensor_square`, line 555) -/
theorem loss_compliance_symm (F : d → d → K) (hF : ∀ a b, F a b = F b a) (a b c e : d) :
    F a b * F c e = F b a * F c e ∧ F a b * F c e = F a b * F e c ∧ F a b * F c e = F c e * F a b := by
  refine ⟨by rw [hF a b], by rw [hF c e], mul_comm _ _⟩

omit [LinearOrder K] [IsStrictOrderedRing K] in
theorem loss_contract (F e : d → d → K) :
    ∑ a, ∑ b, ∑ c, ∑ f, e a b * (F a b * F c f) * e c f = (∑ a, ∑ b, F a b * e a b) ^ 2 := by
  have h : ∀ a b, ∑ c, ∑ f, e a b * (F a b * F c f) * e c f
      = (F a b * e a b) * ∑ c, ∑ f, F c f * e c f := by
    intro a b
    rw [Finset.mul_sum]
    refine Finset.sum_congr rfl fun c _ => ?_
    rw [Finset.mul_sum]
    refine Finset.sum_congr rfl fun f _ => ?_
    ring
  simp only [h, ← Finset.sum_mul]
  ring

/-- positive semidefiniteness: `e:L:e = (F:e)² ≥ 0` -/
theorem loss_psd (F e : d → d → K) : 0 ≤ ∑ a, ∑ b, ∑ c, ∑ f, e a b * (F a b * F c f) * e c f := by
  rw [loss_contract]; exact sq_nonneg _

/-- merged modes (sums of loss tensors) stay positive semidefinite -/
theorem loss_sum_psd {M : Type} [DecidableEq M] (S : Finset M) (F : M → d → d → K) (e : d → d → K) :
    0 ≤ ∑ a, ∑ b, ∑ c, ∑ f, e a b * (∑ m ∈ S, F m a b * F m c f) * e c f := by
  induction S using Finset.induction_on with
  | empty => simp
  | insert m0 S hm ih =>
    simp only [Finset.sum_insert hm, mul_add, add_mul, Finset.sum_add_distrib]
    exact add_nonneg (loss_psd (F m0) e) ih

end tensors

section dirichlet
variable {ι K : Type} [Fintype ι] [DecidableEq ι]
variable [Field K] [LinearOrder K] [IsStrictOrderedRing K]

/-- `φᵀ ω φ` as the code accumulates it (lines 581–585): `ω[i,j] += symmrate`, `ω[i,i] −= rate`, with
    `symmrate = r/(s_i s_j)`, `rate = r/s_i²`, `r = ρ_i w`, `s = √ρ` -/
def quadOmega (l : List (Jump ι K)) (s φ : ι → K) : K :=
  (l.map fun a => a.r / (s a.src * s a.dst) * φ a.src * φ a.dst - a.r / (s a.src) ^ 2 * φ a.src ^ 2).sum

/-- row `i` of `ω φ` -/
def omegaRow (l : List (Jump ι K)) (s φ : ι → K) (i : ι) : K :=
  ((l.filter fun a => a.src = i).map fun a =>
      a.r / (s a.src * s a.dst) * φ a.dst - a.r / (s a.src) ^ 2 * φ a.src).sum

omit [LinearOrder K] [IsStrictOrderedRing K] in
theorem quad_eq_sum_rows (l : List (Jump ι K)) (s φ : ι → K) :
    quadOmega l s φ = ∑ i, φ i * omegaRow l s φ i := by
  unfold quadOmega omegaRow
  rw [← sum_by_src l (fun a => a.r / (s a.src * s a.dst) * φ a.dst - a.r / (s a.src) ^ 2 * φ a.src) φ]
  congr 1
  apply List.map_congr_left
  intro a _
  ring

/-- **−ω is a Dirichlet form**: `φᵀ ω φ = −½ Σ_a r_a (x_dst − x_src)²` with `x = φ/√ρ`. -/
theorem quad_eq_neg_dirichlet (l : List (Jump ι K)) (hp : (l.map Jump.rev).Perm l) (s φ : ι → K)
    (hs : ∀ i, s i ≠ 0) : quadOmega l s φ = - E l (fun i => φ i / s i) := by
  have hrev := sum_rev l hp (fun a => a.r * (φ a.src / s a.src) ^ 2)
  simp only [Jump.rev] at hrev
  unfold quadOmega E
  have h2 : (2 : K) ≠ 0 := two_ne_zero
  have e1 : (l.map fun a => a.r * (φ a.dst / s a.dst - φ a.src / s a.src) ^ 2).sum
      = (l.map fun a => a.r * (φ a.dst / s a.dst) ^ 2).sum + (l.map fun a => a.r * (φ a.src / s a.src) ^ 2).sum
        - 2 * (l.map fun a => a.r / (s a.src * s a.dst) * φ a.src * φ a.dst).sum := by
    rw [← List.sum_map_mul_left, ← List.sum_map_add, ← sum_map_sub']
    congr 1
    apply List.map_congr_left
    intro a _
    have := hs a.src; have := hs a.dst
    field_simp
    ring
  have e2 : (l.map fun a => a.r / (s a.src * s a.dst) * φ a.src * φ a.dst - a.r / (s a.src) ^ 2 * φ a.src ^ 2).sum
      = (l.map fun a => a.r / (s a.src * s a.dst) * φ a.src * φ a.dst).sum
        - (l.map fun a => a.r * (φ a.src / s a.src) ^ 2).sum := by
    rw [← sum_map_sub']
    congr 1
    apply List.map_congr_left
    intro a _
    have := hs a.src
    field_simp
  rw [e1, e2, hrev]
  field_simp
  ring

/-- every eigenvalue of the symmetrised rate matrix is `≤ 0`, i.e. every relaxation rate `−λ ≥ 0` -/
theorem rate_nonneg (l : List (Jump ι K)) (hp : (l.map Jump.rev).Perm l) (hr : ∀ a ∈ l, 0 ≤ a.r)
    (s φ : ι → K) (hs : ∀ i, s i ≠ 0) (lam : K) (heig : ∀ i, omegaRow l s φ i = lam * φ i)
    (hφ : ∃ i, φ i ≠ 0) : 0 ≤ -lam := by
  have hq := quad_eq_neg_dirichlet l hp s φ hs
  rw [quad_eq_sum_rows] at hq
  have hn : ∑ i, φ i * omegaRow l s φ i = lam * ∑ i, φ i ^ 2 := by
    rw [Finset.mul_sum]
    refine Finset.sum_congr rfl fun i _ => ?_
    rw [heig i]; ring
  have hpos : 0 < ∑ i, φ i ^ 2 := by
    obtain ⟨i, hi⟩ := hφ
    exact Finset.sum_pos' (fun j _ => sq_nonneg _) ⟨i, Finset.mem_univ i, by positivity⟩
  have hE := E_nonneg l hr (fun i => φ i / s i)
  rw [hn] at hq
  by_contra hneg
  have hneg := not_le.mp hneg
  have : 0 < lam := by linarith
  have : 0 < lam * ∑ i, φ i ^ 2 := mul_pos this hpos
  linarith

/-- a *kept* mode (non-zero eigenvalue) has a strictly positive rate -/
theorem rate_pos (l : List (Jump ι K)) (hp : (l.map Jump.rev).Perm l) (hr : ∀ a ∈ l, 0 ≤ a.r)
    (s φ : ι → K) (hs : ∀ i, s i ≠ 0) (lam : K) (heig : ∀ i, omegaRow l s φ i = lam * φ i)
    (hφ : ∃ i, φ i ≠ 0) (h0 : lam ≠ 0) : 0 < -lam :=
  lt_of_le_of_ne (rate_nonneg l hp hr s φ hs lam heig hφ) (by intro h; apply h0; linarith)

/-- for an exact mode in ρ-weighted form (`W x = −R ρ x`) the Dirichlet form over the norm is the rate:
    this is the quantity `modeReport.rate` of the model -/
theorem rayleigh_eq_rate (l : List (Jump ι K)) (hp : (l.map Jump.rev).Perm l) (ρ x : ι → K) (R : K)
    (heig : ∀ i, ((l.filter fun a => a.src = i).map fun a => a.r * (x a.dst - x a.src)).sum = -R * ρ i * x i) :
    E l x = R * ∑ i, ρ i * x i ^ 2 := by
  -- Σ_i x_i (W x)_i = −E
  have h1 : (l.map fun a => a.r * (x a.dst - x a.src) * x a.src).sum = ∑ i, x i * (-R * ρ i * x i) := by
    rw [sum_by_src]
    refine Finset.sum_congr rfl fun i _ => ?_
    rw [heig i]
  have h2 := sum_rev l hp (fun a => a.r * (x a.dst - x a.src) * x a.src)
  simp only [Jump.rev] at h2
  have h3 : (l.map fun a => a.r * (x a.dst - x a.src) ^ 2).sum
      = - (l.map fun a => a.r * (x a.dst - x a.src) * x a.src).sum
        - (l.map fun a => a.r * (x a.src - x a.dst) * x a.dst).sum := by
    rw [← sum_map_neg', ← sum_map_sub']
    congr 1
    apply List.map_congr_left
    intro a _
    ring
  unfold E
  rw [h3, h2, h1, Finset.mul_sum]
  have : ∑ i, x i * (-R * ρ i * x i) = - ∑ i, R * (ρ i * x i ^ 2) := by
    rw [← Finset.sum_neg_distrib]
    refine Finset.sum_congr rfl fun i _ => ?_
    ring
  rw [this]
  have h2' : (2 : K) ≠ 0 := two_ne_zero
  field_simp
  ring

end dirichlet

/-! ### mode merging -/

/-- total of a mode list, component-wise on a fixed tensor component `k` -/
def total (k : Nat) (modes : List (ℚ × List ℚ)) : ℚ := (modes.map fun m => m.2.getD k 0).sum

/-- number of stored modes close to `l` -/
def nmatch (close : ℚ → ℚ → Bool) (l : ℚ) (acc : List (ℚ × List ℚ)) : Nat :=
  (acc.filter fun m => close m.1 l).length

theorem getD_zipWith_add (A B : List ℚ) (k : Nat) (h : A.length = B.length) :
    (List.zipWith (· + ·) A B).getD k 0 = A.getD k 0 + B.getD k 0 := by
  simp only [List.getD_eq_getElem?_getD, List.getElem?_zipWith]
  by_cases hk : k < A.length
  · have hk' : k < B.length := h ▸ hk
    simp [List.getElem?_eq_getElem hk, List.getElem?_eq_getElem hk']
  · have h1 : A[k]? = none := by simp; omega
    have h2 : B[k]? = none := by simp; omega
    simp [h1, h2]

/-- what the loop body does to the total: the new tensor is added once per matching stored mode -/
theorem addToClose_total (close : ℚ → ℚ → Bool) (l : ℚ) (L : List ℚ) (k : Nat) :
    ∀ acc : List (ℚ × List ℚ), (∀ m ∈ acc, m.2.length = L.length) →
      total k (addToClose close l L acc).1 = total k acc + (nmatch close l acc : ℚ) * L.getD k 0
        ∧ ((addToClose close l L acc).2 = true ↔ 0 < nmatch close l acc)
        ∧ (∀ m ∈ (addToClose close l L acc).1, m.2.length = L.length)
        ∧ (addToClose close l L acc).1.map Prod.fst = acc.map Prod.fst
  | [], _ => by simp [addToClose, total, nmatch]
  | (l0, L0) :: t, hlen => by
    have ih := addToClose_total close l L k t (fun m hm => hlen m (List.mem_cons_of_mem _ hm))
    obtain ⟨ih1, ih2, ih3, ih4⟩ := ih
    have hL0 : L0.length = L.length := hlen (l0, L0) List.mem_cons_self
    unfold addToClose
    by_cases hc : close l0 l = true
    · simp only [hc, if_true]
      refine ⟨?_, ?_, ?_, ?_⟩
      · simp only [total, List.map_cons, List.sum_cons] at ih1 ⊢
        rw [getD_zipWith_add L0 L k hL0, ih1]
        simp only [nmatch, List.filter_cons, hc, if_true, List.length_cons]
        push_cast
        ring
      · simp [nmatch, List.filter_cons, hc]
      · intro m hm
        rcases List.mem_cons.1 hm with rfl | hm
        · simp [List.length_zipWith, hL0]
        · exact ih3 m hm
      · simp [ih4]
    · simp only [hc, Bool.false_eq_true, if_false]
      refine ⟨?_, ?_, ?_, ?_⟩
      · simp only [total, List.map_cons, List.sum_cons] at ih1 ⊢
        rw [ih1]
        simp only [nmatch, List.filter_cons, hc, Bool.false_eq_true, if_false]
        ring
      · simp only [nmatch, List.filter_cons, hc, Bool.false_eq_true, if_false]
        exact ih2
      · intro m hm
        rcases List.mem_cons.1 hm with rfl | hm
        · exact hL0
        · exact ih3 m hm
      · simp [ih4]

theorem matches_eq_zero (close : ℚ → ℚ → Bool) (l : ℚ) (acc : List (ℚ × List ℚ)) :
    nmatch close l acc = 0 ↔ ∀ m ∈ acc, close m.1 l = false := by
  unfold nmatch
  rw [List.length_eq_zero_iff, List.filter_eq_nil_iff]
  simp

/-- with a symmetric, transitive closeness and pairwise non-close stored rates, at most one stored rate nmatch -/
theorem matches_le_one (close : ℚ → ℚ → Bool)
    (hsym : ∀ a b, close a b = true → close b a = true)
    (htr : ∀ a b c, close a b = true → close b c = true → close a c = true) (l : ℚ) :
    ∀ acc : List (ℚ × List ℚ), (acc.map Prod.fst).Pairwise (fun a b => close a b = false) →
      nmatch close l acc ≤ 1
  | [], _ => by simp [nmatch]
  | (l0, L0) :: t, hpw => by
    rw [List.map_cons, List.pairwise_cons] at hpw
    obtain ⟨h0, ht⟩ := hpw
    by_cases hc : close l0 l = true
    · have hz : nmatch close l t = 0 := by
        rw [matches_eq_zero]
        intro m hm
        by_contra hne
        have hml : close m.1 l = true := by simpa using hne
        have := htr l0 l m.1 hc (hsym _ _ hml)
        rw [h0 m.1 (List.mem_map_of_mem hm)] at this
        exact Bool.false_ne_true this
      unfold nmatch at hz ⊢
      simp only [List.filter_cons, hc, if_true, List.length_cons, hz]
      omega
    · have := matches_le_one close hsym htr l t ht
      unfold nmatch at this ⊢
      simp only [List.filter_cons, hc, Bool.false_eq_true, if_false]
      exact this

/-- **merge_sum.**  For a closeness relation that is symmetric and transitive, the merging loop keeps the stored
    rates pairwise non-close and preserves the sum of the loss tensors (each mode is added exactly once).
    In general `addToClose_total` gives the law: a mode is added once per matching stored rate. -/
theorem merge_sum (close : ℚ → ℚ → Bool)
    (hsym : ∀ a b, close a b = true → close b a = true)
    (htr : ∀ a b c, close a b = true → close b c = true → close a c = true) (k n : Nat) :
    ∀ (modes acc : List (ℚ × List ℚ)),
      (∀ m ∈ acc, m.2.length = n) → (∀ m ∈ modes, m.2.length = n) →
      (acc.map Prod.fst).Pairwise (fun a b => close a b = false) →
      total k (mergeModes close acc modes) = total k acc + total k modes
  | [], acc, _, _, _ => by simp [mergeModes, total]
  | (l, L) :: t, acc, hacc, hmodes, hpw => by
    have hL : L.length = n := hmodes (l, L) List.mem_cons_self
    have hacc' : ∀ m ∈ acc, m.2.length = L.length := fun m hm => (hacc m hm).trans hL.symm
    obtain ⟨h1, h2, h3, h4⟩ := addToClose_total close l L k acc hacc'
    have hm1 := matches_le_one close hsym htr l acc hpw
    unfold mergeModes
    simp only
    by_cases hf : (addToClose close l L acc).2 = true
    · have hpos := h2.1 hf
      have hone : nmatch close l acc = 1 := by omega
      simp only [hf, if_true]
      rw [merge_sum close hsym htr k n t (addToClose close l L acc).1
        (fun m hm => (h3 m hm).trans hL) (fun m hm => hmodes m (List.mem_cons_of_mem _ hm))
        (by rw [h4]; exact hpw)]
      rw [h1, hone]
      simp only [total, List.map_cons, List.sum_cons]
      push_cast; ring
    · have hzero : nmatch close l acc = 0 := by
        by_contra hne
        exact hf (h2.2 (Nat.pos_of_ne_zero hne))
      simp only [hf, Bool.false_eq_true, if_false]
      rw [merge_sum close hsym htr k n t ((addToClose close l L acc).1 ++ [(l, L)])
        (by
          intro m hm
          rcases List.mem_append.1 hm with hm | hm
          · exact (h3 m hm).trans hL
          · simp at hm; subst hm; exact hL)
        (fun m hm => hmodes m (List.mem_cons_of_mem _ hm))
        (by
          rw [List.map_append, h4, List.pairwise_append]
          refine ⟨hpw, by simp, ?_⟩
          intro a ha b hb
          have hb' : b = l := by simpa using hb
          rw [hb']
          obtain ⟨m, hm, rfl⟩ := List.mem_map.1 ha
          exact (matches_eq_zero close l acc).1 hzero m hm)]
      have : total k ((addToClose close l L acc).1 ++ [(l, L)]) = total k (addToClose close l L acc).1 + L.getD k 0 := by
        simp [total]
      rw [this, h1, hzero]
      simp only [total, List.map_cons, List.sum_cons]
      push_cast; ring

/-- sorted processing: if stored rates are descending and pairwise non-close, the incoming rate is below all of
    them, and closeness is monotone on intervals, at most one stored rate (the last) can match -/
theorem nmatch_le_one_sorted (close : ℚ → ℚ → Bool)
    (hmono : ∀ a b c : ℚ, 0 ≤ c → c ≤ b → b ≤ a → close a c = true → close a b = true) (l : ℚ) (hl : 0 ≤ l) :
    ∀ acc : List (ℚ × List ℚ), (acc.map Prod.fst).Pairwise (fun a b => close a b = false ∧ b ≤ a) →
      (∀ m ∈ acc, l ≤ m.1) → nmatch close l acc ≤ 1
  | [], _, _ => by simp [nmatch]
  | (l0, L0) :: t, hpw, hle => by
    rw [List.map_cons, List.pairwise_cons] at hpw
    obtain ⟨h0, ht⟩ := hpw
    by_cases hc : close l0 l = true
    · have hz : nmatch close l t = 0 := by
        rw [matches_eq_zero]
        intro m hm
        exfalso
        have hm' := h0 m.1 (List.mem_map_of_mem hm)
        have := hmono l0 m.1 l hl (hle m (List.mem_cons_of_mem _ hm)) hm'.2 hc
        rw [hm'.1] at this
        exact Bool.false_ne_true this
      unfold nmatch at hz ⊢
      simp only [List.filter_cons, hc, if_true, List.length_cons, hz]
      omega
    · have := nmatch_le_one_sorted close hmono l hl t ht (fun m hm => hle m (List.mem_cons_of_mem _ hm))
      unfold nmatch at this ⊢
      simp only [List.filter_cons, hc, Bool.false_eq_true, if_false]
      exact this

/-- **merge_sum_sorted.**  What the code relies on: `eigh` returns eigenvalues in ascending order, so the rates
    `−λ` are met in descending order; with an interval-monotone closeness (such as `np.isclose`, `npIsclose_mono`)
    and non-negative rates every mode is added exactly once and the sum of the loss tensors is preserved. -/
theorem merge_sum_sorted (close : ℚ → ℚ → Bool)
    (hmono : ∀ a b c : ℚ, 0 ≤ c → c ≤ b → b ≤ a → close a c = true → close a b = true) (k n : Nat) :
    ∀ (modes acc : List (ℚ × List ℚ)),
      (∀ m ∈ acc, m.2.length = n) → (∀ m ∈ modes, m.2.length = n) →
      (acc.map Prod.fst).Pairwise (fun a b => close a b = false ∧ b ≤ a) →
      (modes.map Prod.fst).Pairwise (fun a b => b ≤ a) → (∀ m ∈ modes, 0 ≤ m.1) →
      (∀ m ∈ modes, ∀ a ∈ acc, m.1 ≤ a.1) →
      total k (mergeModes close acc modes) = total k acc + total k modes
  | [], acc, _, _, _, _, _, _ => by simp [mergeModes, total]
  | (l, L) :: t, acc, hacc, hmodes, hpw, hsort, hpos, hbelow => by
    have hL : L.length = n := hmodes (l, L) List.mem_cons_self
    have hacc' : ∀ m ∈ acc, m.2.length = L.length := fun m hm => (hacc m hm).trans hL.symm
    obtain ⟨h1, h2, h3, h4⟩ := addToClose_total close l L k acc hacc'
    have hl0 : 0 ≤ l := hpos (l, L) List.mem_cons_self
    have hm1 := nmatch_le_one_sorted close hmono l hl0 acc hpw (fun a ha => hbelow (l, L) List.mem_cons_self a ha)
    rw [List.map_cons, List.pairwise_cons] at hsort
    obtain ⟨hs0, hst⟩ := hsort
    have hfst : ∀ (A B : List (ℚ × List ℚ)), A.map Prod.fst = B.map Prod.fst →
        (∀ m ∈ t, ∀ a ∈ B, m.1 ≤ a.1) → (∀ m ∈ t, ∀ a ∈ A, m.1 ≤ a.1) := by
      intro A B hAB hB m hm a ha
      have : a.1 ∈ B.map Prod.fst := by rw [← hAB]; exact List.mem_map_of_mem ha
      obtain ⟨b, hb, hb1⟩ := List.mem_map.1 this
      rw [← hb1]; exact hB m hm b hb
    unfold mergeModes
    simp only
    by_cases hf : (addToClose close l L acc).2 = true
    · have hpos' := h2.1 hf
      have hone : nmatch close l acc = 1 := by omega
      simp only [hf, if_true]
      rw [merge_sum_sorted close hmono k n t (addToClose close l L acc).1
        (fun m hm => (h3 m hm).trans hL) (fun m hm => hmodes m (List.mem_cons_of_mem _ hm))
        (by rw [h4]; exact hpw) hst (fun m hm => hpos m (List.mem_cons_of_mem _ hm))
        (hfst _ acc h4 (fun m hm a ha => hbelow m (List.mem_cons_of_mem _ hm) a ha))]
      rw [h1, hone]
      simp only [total, List.map_cons, List.sum_cons]
      push_cast; ring
    · have hzero : nmatch close l acc = 0 := by
        by_contra hne
        exact hf (h2.2 (Nat.pos_of_ne_zero hne))
      simp only [hf, Bool.false_eq_true, if_false]
      rw [merge_sum_sorted close hmono k n t ((addToClose close l L acc).1 ++ [(l, L)])
        (by
          intro m hm
          rcases List.mem_append.1 hm with hm | hm
          · exact (h3 m hm).trans hL
          · simp at hm; subst hm; exact hL)
        (fun m hm => hmodes m (List.mem_cons_of_mem _ hm))
        (by
          rw [List.map_append, h4, List.pairwise_append]
          refine ⟨hpw, by simp, ?_⟩
          intro a ha b hb
          have hb' : b = l := by simpa using hb
          rw [hb']
          obtain ⟨m, hm, rfl⟩ := List.mem_map.1 ha
          exact ⟨(matches_eq_zero close l acc).1 hzero m hm, hbelow (l, L) List.mem_cons_self m hm⟩)
        hst (fun m hm => hpos m (List.mem_cons_of_mem _ hm))
        (by
          intro m hm a ha
          rcases List.mem_append.1 ha with ha | ha
          · exact hfst _ acc h4 (fun m hm a ha => hbelow m (List.mem_cons_of_mem _ hm) a ha) m hm a ha
          · simp at ha; subst ha
            exact hs0 m.1 (List.mem_map_of_mem hm))]
      have : total k ((addToClose close l L acc).1 ++ [(l, L)]) = total k (addToClose close l L acc).1 + L.getD k 0 := by
        simp [total]
      rw [this, h1, hzero]
      simp only [total, List.map_cons, List.sum_cons]
      push_cast; ring

/-- `np.isclose(a, b)` (tolerance relative to its *second* argument) is interval-monotone on non-negative rates -/
theorem npIsclose_mono (a b c : ℚ) (hc : 0 ≤ c) (hcb : c ≤ b) (hba : b ≤ a) (h : npIsclose a c = true) :
    npIsclose a b = true := by
  unfold npIsclose at *
  rw [decide_eq_true_iff] at *
  have hb : 0 ≤ b := le_trans hc hcb
  rw [abs_of_nonneg (by linarith : 0 ≤ a - c), abs_of_nonneg hc] at h
  rw [abs_of_nonneg (by linarith : 0 ≤ a - b), abs_of_nonneg hb]
  nlinarith

/-- the code's loop with the code's closeness preserves the sum (descending non-negative rates) -/
theorem merge_sum_isclose (k n : Nat) (modes : List (ℚ × List ℚ)) (hlen : ∀ m ∈ modes, m.2.length = n)
    (hsort : (modes.map Prod.fst).Pairwise (fun a b => b ≤ a)) (hpos : ∀ m ∈ modes, 0 ≤ m.1) :
    total k (mergeModes npIsclose [] modes) = total k modes := by
  have := merge_sum_sorted npIsclose npIsclose_mono k n modes [] (by simp) hlen (by simp) hsort hpos (by simp)
  simpa [total] using this

/-- why the order matters: `np.isclose` is not transitive and the loop has no `break`.  Met out of order
    (1, 1.00002, 1.00001) the third rate is close to *both* stored rates and is added to both (total 4 instead
    of 3); met in descending order (`merge_sum_isclose`) nothing is counted twice. -/
example : total 0 (mergeModes npIsclose [] [(1, [1]), (100002/100000, [1]), (100001/100000, [1])]) = 4 := by
  decide +kernel

example : total 0 (mergeModes npIsclose [] [(100002/100000, [1]), (100001/100000, [1]), (1, [1])]) = 3 := by
  decide +kernel

/-- non-vacuity of SPEC-sum: the rotation by `atan(4/3)` is orthonormal with first row `√ρ = (3/5, 4/5)` -/
example : (!![3/5, 4/5; -4/5, 3/5] : Matrix (Fin 2) (Fin 2) ℚ) * (!![3/5, 4/5; -4/5, 3/5] : Matrix (Fin 2) (Fin 2) ℚ).transpose = 1
    ∧ ∀ i, (!![3/5, 4/5; -4/5, 3/5] : Matrix (Fin 2) (Fin 2) ℚ) 0 i = ![3/5, 4/5] i := by
  refine ⟨?_, ?_⟩
  · ext i j; fin_cases i <;> fin_cases j <;> simp [Matrix.mul_apply, Fin.sum_univ_two] <;> norm_num
  · intro i; fin_cases i <;> simp

end Onsager.C12
