/-
  C17 — tie: the theorems of OnsagerProofs/C17.lean instantiated on the tables dumped from the live classes
  (hypotheses discharged by `tab3_sem` / `tab2_sem`, i.e. by the table obligations of C16Tie*), and
  non-vacuity examples.
-/
import OnsagerProofs.C17
import OnsagerProofs.C16Tie

namespace Onsager.C16
open Generated.C16

/-- rotation = substitution on the live 3-D tables -/
theorem rotate_tab3 {M : Type} [Ring M] [Algebra ℚ M] (N : Nat → Nat → List ℚ) (Q : List (List ℚ)) (x : List ℚ)
    (hN : RowsOK tab3 N Q x) (a : Coeffs M) (ha : ParityOK tab3 a) :
    evalH tab3 x (rotatecoeff tab3 N a) = evalH tab3 (applyQ Q x) a :=
  eval_rotate_of_rows tab3 tab3_sem.phi_mono N Q x hN a ha

/-- rotation = substitution on the live 2-D tables -/
theorem rotate_tab2 {M : Type} [Ring M] [Algebra ℚ M] (N : Nat → Nat → List ℚ) (Q : List (List ℚ)) (x : List ℚ)
    (hN : RowsOK tab2 N Q x) (a : Coeffs M) (ha : ParityOK tab2 a) :
    evalH tab2 x (rotatecoeff tab2 N a) = evalH tab2 (applyQ Q x) a :=
  eval_rotate_of_rows tab2 tab2_sem.phi_mono N Q x hN a ha

/-- a parity-consistent expansion: the term `|q|² · 1` stored as `(n,l) = (2,0)` (what `reduce` produces) -/
example : ParityOK tab3 ([(2, 0, [(1 : ℚ)])] : Coeffs ℚ) := by
  intro e he
  simp only [List.mem_singleton] at he
  subst he
  refine ⟨by decide, by decide +kernel, by decide, by decide +kernel, ?_⟩
  intro p hp hodd
  have hp0 : p = 0 := by
    have : tab3.phi 0 = 1 := by decide +kernel
    simp only [this] at hp; omega
  subst hp0
  have : tab3.deg 0 = 0 := by decide +kernel
  simp [this] at hodd

end Onsager.C16
