/-
  C17 — tie: the theorems of OnsagerProofs/C17.lean instantiated on the tables dumped from the live classes
  (hypotheses discharged by `tab3_sem` / `tab2_sem`, i.e. by the table obligations of C16Tie*), and
  non-vacuity examples.
-/
import OnsagerProofs.C17Sound
import OnsagerProofs.C16Tie
import Mathlib.Data.ZMod.Defs

namespace Onsager.C16
open Generated.C16

/-- rotation = substitution on the live 3-D tables -/
theorem rotate_tab3 {M : Type} [Ring M] [Algebra ℚ M] (N : Nat → Nat → List ℚ) (Q : List (List ℚ)) (x : List ℚ)
    (hN : RowsOK tab3 N Q x) (a : Coeffs M) (ha : ParityOK tab3 a) :
    evalH tab3 x (rotatecoeff tab3 N a) = evalH tab3 (applyQ Q x) a :=
  eval_rotate_of_rows tab3 tab3_sem.phi_mono N Q x hN a ha

/-- rotation = substitution on the live 2-D tables -/
theorem rotate_tab2 {M : Type} [Ring M] [Algebra ℚ M] (N : Nat → Nat → List ℚ) (Q : List (List ℚ)) (x : List ℚ)
    (hN : RowsOK tab2 N Q x) (a : Coeffs M) (ha : ParityOK tab2 a) :
    evalH tab2 x (rotatecoeff tab2 N a) = evalH tab2 (applyQ Q x) a :=
  eval_rotate_of_rows tab2 tab2_sem.phi_mono N Q x hN a ha

theorem tab3_sem17 : tab3.Sem17 :=
  sem17_of_checks tab3 tab3_sizes tab3_graded tab3_dmult tab3_pcoef_formula tab3_pcoef_powers

theorem tab2_sem17 : tab2.Sem17 :=
  sem17_of_checks tab2 tab2_sizes tab2_graded tab2_dmult tab2_pcoef_formula tab2_pcoef_powers

/-- the live index tables satisfy the product-rule facts over every commutative ring (used by `inverse_through_order`) -/
theorem tab3_semMul {S : Type} [CommRing S] (f : ℚ → S) : (tab3.mapK f).SemMul :=
  semMul_mapK_of_checks tab3 f tab3_sizes tab3_graded tab3_dmult tab3_pcoef_powers

theorem tab2_semMul {S : Type} [CommRing S] (f : ℚ → S) : (tab2.mapK f).SemMul :=
  semMul_mapK_of_checks tab2 f tab2_sizes tab2_graded tab2_dmult tab2_pcoef_powers

theorem tab3_dim : tab3.dim = 3 := by decide +kernel
theorem tab2_dim : tab2.dim = 2 := by decide +kernel

/-- **rotation = substitution on the live 3-D tables**, no side condition: any 3×3 matrix `Q`, any point `x`,
    any parity-consistent expansion with coefficients in any ℚ-algebra -/
theorem rotate_exact_tab3 {M : Type} [Ring M] [Algebra ℚ M] (q00 q01 q02 q10 q11 q12 q20 q21 q22 x0 x1 x2 : ℚ)
    (a : Coeffs M) (ha : ParityOK tab3 a) :
    evalH tab3 [x0, x1, x2] (rotatecoeff tab3 (npowRow tab3 [[q00, q01, q02], [q10, q11, q12], [q20, q21, q22]]) a)
      = evalH tab3 (applyQ [[q00, q01, q02], [q10, q11, q12], [q20, q21, q22]] [x0, x1, x2]) a :=
  eval_rotate tab3 tab3_sem17 _ (by simp [tab3_dim]) _ (by simp [tab3_dim])
    (by intro t ht; simp only [List.mem_cons, List.not_mem_nil, or_false] at ht
        rcases ht with rfl | rfl | rfl <;> simp [tab3_dim]) a ha

/-- the same on the live 2-D tables -/
theorem rotate_exact_tab2 {M : Type} [Ring M] [Algebra ℚ M] (q00 q01 q10 q11 x0 x1 : ℚ)
    (a : Coeffs M) (ha : ParityOK tab2 a) :
    evalH tab2 [x0, x1] (rotatecoeff tab2 (npowRow tab2 [[q00, q01], [q10, q11]]) a)
      = evalH tab2 (applyQ [[q00, q01], [q10, q11]] [x0, x1]) a :=
  eval_rotate tab2 tab2_sem17 _ (by simp [tab2_dim]) _ (by simp [tab2_dim])
    (by intro t ht; simp only [List.mem_cons, List.not_mem_nil, or_false] at ht
        rcases ht with rfl | rfl <;> simp [tab2_dim]) a ha

/-- a parity-consistent expansion: the term `|q|² · 1` stored as `(n,l) = (2,0)` (what `reduce` produces) -/
example : ParityOK tab3 ([(2, 0, [(1 : ℚ)])] : Coeffs ℚ) := by
  intro e he
  simp only [List.mem_singleton] at he
  subst he
  refine ⟨by decide, by decide +kernel, by decide, by decide +kernel, ?_⟩
  intro p hp hodd
  have hp0 : p = 0 := by
    have : tab3.phi 0 = 1 := by decide +kernel
    simp only [this] at hp; omega
  subst hp0
  have : tab3.deg 0 = 0 := by decide +kernel
  simp [this] at hodd

/-- **inverse through the requested order on the live 3-D index tables**, over every commutative ring `S` with a
    nilpotent `t` (`t^(B+1) = 0`, `B = Nmax + n_lead`): see `inverse_through_order`. -/
theorem inverse_tab3 {S M : Type} [CommRing S] [Ring M] [Algebra S M] (f : ℚ → S) (u : List S) (t : S)
    (minv : M → M) (a : Coeffs M) (Nmax : Int) (lead : Entry M) (rest : Coeffs M) (hsort : sortC a = lead :: rest)
    (hl0 : lead.2.1 = 0) (hlen : lead.2.2.length = 1) (hinv : minv (lead.2.2.getD 0 0) * lead.2.2.getD 0 0 = 1)
    (δ : Nat) (hδ : 1 ≤ δ) (L : Nat) (hrest : Good (tab3.mapK f) (lead.1 + δ) L rest)
    (hsecond : ∀ second ∈ rest.head?, second.1 = lead.1 + δ)
    (B : Nat) (hB : Nmax + lead.1 = (B : Int)) (ht : t ^ (B + 1) = 0) (hL : (B / δ + 1) * L ≤ (tab3.mapK f).lmax)
    (c : Coeffs M) (hc : inversecoeff (tab3.mapK f) minv a Nmax = .ok c) :
    eval (tab3.mapK f) u (fun n => rho t (n + lead.1)) c * eval (tab3.mapK f) u (fun n => rho t (n - lead.1)) a = 1 :=
  inverse_through_order (tab3.mapK f) (tab3_semMul f) u t minv a Nmax lead rest hsort hl0 hlen hinv δ hδ L hrest hsecond
    B hB ht hL c hc

/-- non-vacuity of the nilpotent radial variable: in `ℤ/4`, `t = 2` has `t² = 0` (order `B = 1`) but `t ≠ 0` -/
example : ((2 : ZMod 4) ^ (1 + 1) = 0) ∧ (2 : ZMod 4) ≠ 0 := by decide

end Onsager.C16
