/-
  C17 — tie: the theorems of OnsagerProofs/C17.lean instantiated on the tables dumped from the live classes
  (hypotheses discharged by `tab3_sem` / `tab2_sem`, i.e. by the table obligations of C16Tie*), and
  non-vacuity examples.
-/
import OnsagerProofs.C17Sound
import OnsagerProofs.C16Tie

namespace Onsager.C16
open Generated.C16

/-- rotation = substitution on the live 3-D tables -/
theorem rotate_tab3 {M : Type} [Ring M] [Algebra ℚ M] (N : Nat → Nat → List ℚ) (Q : List (List ℚ)) (x : List ℚ)
    (hN : RowsOK tab3 N Q x) (a : Coeffs M) (ha : ParityOK tab3 a) :
    evalH tab3 x (rotatecoeff tab3 N a) = evalH tab3 (applyQ Q x) a :=
  eval_rotate_of_rows tab3 tab3_sem.phi_mono N Q x hN a ha

/-- rotation = substitution on the live 2-D tables -/
theorem rotate_tab2 {M : Type} [Ring M] [Algebra ℚ M] (N : Nat → Nat → List ℚ) (Q : List (List ℚ)) (x : List ℚ)
    (hN : RowsOK tab2 N Q x) (a : Coeffs M) (ha : ParityOK tab2 a) :
    evalH tab2 x (rotatecoeff tab2 N a) = evalH tab2 (applyQ Q x) a :=
  eval_rotate_of_rows tab2 tab2_sem.phi_mono N Q x hN a ha

theorem tab3_sem17 : tab3.Sem17 :=
  sem17_of_checks tab3 tab3_sizes tab3_graded tab3_dmult tab3_pcoef_formula tab3_pcoef_powers

theorem tab2_sem17 : tab2.Sem17 :=
  sem17_of_checks tab2 tab2_sizes tab2_graded tab2_dmult tab2_pcoef_formula tab2_pcoef_powers

theorem tab3_dim : tab3.dim = 3 := by decide +kernel
theorem tab2_dim : tab2.dim = 2 := by decide +kernel

/-- **rotation = substitution on the live 3-D tables**, no side condition: any 3×3 matrix `Q`, any point `x`,
    any parity-consistent expansion with coefficients in any ℚ-algebra -/
theorem rotate_exact_tab3 {M : Type} [Ring M] [Algebra ℚ M] (q00 q01 q02 q10 q11 q12 q20 q21 q22 x0 x1 x2 : ℚ)
    (a : Coeffs M) (ha : ParityOK tab3 a) :
    evalH tab3 [x0, x1, x2] (rotatecoeff tab3 (npowRow tab3 [[q00, q01, q02], [q10, q11, q12], [q20, q21, q22]]) a)
      = evalH tab3 (applyQ [[q00, q01, q02], [q10, q11, q12], [q20, q21, q22]] [x0, x1, x2]) a :=
  eval_rotate tab3 tab3_sem17 _ (by simp [tab3_dim]) _ (by simp [tab3_dim])
    (by intro t ht; simp only [List.mem_cons, List.not_mem_nil, or_false] at ht
        rcases ht with rfl | rfl | rfl <;> simp [tab3_dim]) a ha

/-- the same on the live 2-D tables -/
theorem rotate_exact_tab2 {M : Type} [Ring M] [Algebra ℚ M] (q00 q01 q10 q11 x0 x1 : ℚ)
    (a : Coeffs M) (ha : ParityOK tab2 a) :
    evalH tab2 [x0, x1] (rotatecoeff tab2 (npowRow tab2 [[q00, q01], [q10, q11]]) a)
      = evalH tab2 (applyQ [[q00, q01], [q10, q11]] [x0, x1]) a :=
  eval_rotate tab2 tab2_sem17 _ (by simp [tab2_dim]) _ (by simp [tab2_dim])
    (by intro t ht; simp only [List.mem_cons, List.not_mem_nil, or_false] at ht
        rcases ht with rfl | rfl <;> simp [tab2_dim]) a ha

/-- a parity-consistent expansion: the term `|q|² · 1` stored as `(n,l) = (2,0)` (what `reduce` produces) -/
example : ParityOK tab3 ([(2, 0, [(1 : ℚ)])] : Coeffs ℚ) := by
  intro e he
  simp only [List.mem_singleton] at he
  subst he
  refine ⟨by decide, by decide +kernel, by decide, by decide +kernel, ?_⟩
  intro p hp hodd
  have hp0 : p = 0 := by
    have : tab3.phi 0 = 1 := by decide +kernel
    simp only [this] at hp; omega
  subst hp0
  have : tab3.deg 0 = 0 := by decide +kernel
  simp [this] at hodd

end Onsager.C16
