/-
  C14 — translator half of the tie.  Generated/C14Facts.lean is rewritten from
  onsager/OnsagerCalc.py (`VacancyMediated.Lij`) on every run: does the first element of the returned
  tuple go through a copy (`.copy()` / `np.array(..)` / `np.copy(..)`), and does the cache store?
  `srcMode` is the model variant the source implements; `src_verdict` instantiates the theorems of
  OnsagerProofs/C14.lean for that variant: either full history independence, or the concrete failing
  history.  (The harness additionally raises the obligation `srcMode = copy` as a disagreement, which
  is only tolerated while the corresponding finding is open in findings.d.)
-/
import Generated.C14Facts
import OnsagerProofs.C14

namespace Onsager.C14

def modeOf (returnCopies : Bool) : Mode := if returnCopies then .copy else .alias

def srcMode : Mode := modeOf Generated.C14.returnCopies

/-- the extractor located `Lij`, its return statements and the cache store in the current source -/
theorem src_located : Generated.C14.found = true := by decide

theorem verdict_of (b : Bool) :
    (modeOf b = .copy ∧ ∀ (h : List Op) (k x : Nat), lijAfter (modeOf b) h k x = pureOut k x) ∨
    (modeOf b = .alias ∧ (∀ (k x : Nat) (c : Int),
        lijAfter (modeOf b) [.lij k x, .mutate 0 0 c] k x = [.const c, .pure x 1, .pure x 2, .pure x 3]) ∧
      ∀ (h : List Op), noMutate h → ∀ k x, lijAfter (modeOf b) h k x = pureOut k x) := by
  cases b
  · right
    exact ⟨rfl, fun k x c => alias_not_history_independent k x c,
           fun h hn k x => alias_independent_without_mutation h hn k x⟩
  · left
    exact ⟨rfl, fun h k x => history_independent h k x⟩

/-- What the proofs say about the source as it is now. -/
theorem src_verdict :
    (srcMode = .copy ∧ ∀ (h : List Op) (k x : Nat), lijAfter srcMode h k x = pureOut k x) ∨
    (srcMode = .alias ∧ (∀ (k x : Nat) (c : Int),
        lijAfter srcMode [.lij k x, .mutate 0 0 c] k x = [.const c, .pure x 1, .pure x 2, .pure x 3]) ∧
      ∀ (h : List Op), noMutate h → ∀ k x, lijAfter srcMode h k x = pureOut k x) :=
  verdict_of Generated.C14.returnCopies

/-- Once the source returns a copy, history independence holds outright. -/
theorem src_history_independent_if_copy (hc : Generated.C14.returnCopies = true)
    (h : List Op) (k x : Nat) : lijAfter srcMode h k x = pureOut k x := by
  have : srcMode = .copy := by simp [srcMode, modeOf, hc]
  rw [this]; exact history_independent h k x

end Onsager.C14
