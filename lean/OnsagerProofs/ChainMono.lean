/-
  Rayleigh monotonicity for EVERY finite reversible chain of the chain model (C05, vacancy-mediated
  coefficients at finite size): if a second chain has the same states, transitions and displacement
  fields and weights that are nowhere smaller (`raisedcheck`, decided by the driver on the chains built
  from the implementation's tables before/after lowering a transition-state energy), every diagonal
  coefficient (Lss, Lvv in every direction α) of the second chain is at least that of the first.
-/
import OnsagerModel.ChainMono
import OnsagerProofs.Chain

namespace Onsager.Chain
open Onsager.C02 Onsager.Var

theorem mapM_forall₂' {α α' β γ : Type} (f : α → Option β) (g : α' → Option γ) (R : β → γ → Prop)
    (S : α → α' → Prop) (h : ∀ x x' y z, S x x' → f x = some y → g x' = some z → R y z) :
    ∀ (l : List α) (l' : List α'), List.Forall₂ S l l' → ∀ (lb : List β) (lc : List γ),
      l.mapM f = some lb → l'.mapM g = some lc → List.Forall₂ R lb lc
  | _, _, List.Forall₂.nil, lb, lc, h1, h2 => by
    simp at h1 h2; subst h1; subst h2; exact List.Forall₂.nil
  | _, _, List.Forall₂.cons (a := a) (b := a') (l₁ := t) (l₂ := t') hs ht, lb, lc, h1, h2 => by
    rw [List.mapM_cons] at h1 h2
    cases hfa : f a with
    | none => simp [hfa] at h1
    | some b =>
      cases hga : g a' with
      | none => simp [hga] at h2
      | some c =>
        cases hft : t.mapM f with
        | none => simp [hfa, hft] at h1
        | some bs =>
          cases hgt : t'.mapM g with
          | none => simp [hga, hgt] at h2
          | some cs =>
            simp [hfa, hft] at h1
            simp [hga, hgt] at h2
            subst h1; subst h2
            exact List.Forall₂.cons (h a a' b c hs hfa hga) (mapM_forall₂' f g R S h t t' ht bs cs hft hgt)

theorem forall₂_of_zip_all {α β : Type} (p : α → β → Bool) :
    ∀ (l : List α) (l' : List β), l.length = l'.length → (List.zip l l').all (fun q => p q.1 q.2) = true →
      List.Forall₂ (fun a b => p a b = true) l l'
  | [], [], _, _ => List.Forall₂.nil
  | [], _ :: _, h, _ => by simp at h
  | _ :: _, [], h, _ => by simp at h
  | a :: t, b :: t', h, hall => by
    simp only [List.zip_cons_cons, List.all_cons, Bool.and_eq_true] at hall
    simp only [List.length_cons, Nat.add_right_cancel_iff] at h
    exact List.Forall₂.cons hall.1 (forall₂_of_zip_all p t t' h hall.2)

/-- **C05 at the level of the solute–vacancy chain.** -/
theorem chain_monotone (inp inp' : Input) (c c' : Option (List (List ℚ))) (a α : Nat) (D D' : ℚ)
    (hc : raisedcheck inp inp' = true)
    (h : coeff inp c a a α α = some D) (h' : coeff inp' c' a a α α = some D') : D ≤ D' := by
  obtain ⟨n', dim', tr'⟩ := inp'
  unfold raisedcheck at hc
  simp only [Bool.and_eq_true, decide_eq_true_eq] at hc
  obtain ⟨⟨hn, hlen⟩, hall⟩ := hc
  subst hn
  obtain ⟨l, ξ, hl, hst, hD, _⟩ := coeff_diag_eq_Qmin inp c a α D h
  obtain ⟨l', ξ', hl', _, hD', _⟩ := coeff_diag_eq_Qmin _ c' a α D' h'
  obtain ⟨l0, c0, hl0, hf0⟩ := coeff_eq inp c a a α α D h
  rw [hl] at hl0; cases hl0
  obtain ⟨ξ0, hs0, _⟩ := formOf_eq l c0 D hf0
  obtain ⟨hp, hr, _⟩ := certify_sound l c0 ξ0 hs0
  have hS := forall₂_of_zip_all transLE inp.trans tr' hlen hall
  have hF : List.Forall₂ RateLE l l' := by
    refine mapM_forall₂' (mk inp a a α α) (mk ⟨inp.n, dim', tr'⟩ a a α α) RateLE
      (fun t t' => transLE t t' = true) ?_ inp.trans tr' hS l l' hl hl'
    intro t t' y z hle hy hz
    unfold transLE at hle
    simp only [Bool.and_eq_true, beq_iff_eq, decide_eq_true_eq] at hle
    obtain ⟨⟨⟨⟨hx, hyy⟩, hds⟩, hdv⟩, hrr⟩ := hle
    unfold mk at hy hz
    split at hy
    · split at hy
      · rename_i h1 h2
        have h1' : t'.x < inp.n := hx ▸ h1
        have h2' : t'.y < inp.n := hyy ▸ h2
        simp only [h1', h2', dite_true] at hz
        cases hy; cases hz
        refine ⟨?_, ?_, ?_, hrr⟩
        · exact Fin.ext hx
        · exact Fin.ext hyy
        · simp only [hds, hdv]
      · cases hy
    · cases hy
  rw [hD, hD']
  exact Q_mono l l' hp hr hF ξ ξ' hst

end Onsager.Chain
