/-
  C24 — headline theorems about the star-set model (OnsagerModel/C24.lean), assembled from
  C24Basic (pair-state arithmetic, group action, orbit relation), C24Group (soundness of the
  decidable group / crystal-symmetry tests), C24Gen (reachable set, closure algebra, diffgenerate)
  and C24Stars (shell split + representative matching, index lookups, checkers).

  Everything is for arbitrary op lists, jump lists, shell counts and crystal data; the only
  hypotheses are the *decidable* tests that the driver evaluates on the real crystal on every run
  (`groupClosedB`, `crysOpB`) and closure of the jump list under the ops.
-/
import OnsagerProofs.C24Basic
import OnsagerProofs.C24Group
import OnsagerProofs.C24Gen
import OnsagerProofs.C24Stars

namespace Onsager.C24

/-- hypotheses under which the star sets are studied: the op list passes the group test and the
    crystal-symmetry test, the threshold is non-negative, the jump list has no zero state, uses
    sites of the crystal and is closed under the ops -/
structure Setting (C : Crys) (G : List Op) (thr : Rat) (J : List PS) : Prop where
  grp : groupClosedB C.nsites G = true
  crys : G.all (crysOpB C) = true
  thr : 0 ≤ thr
  nz : ∀ j ∈ J, j.isZero = false
  valid : ∀ j ∈ J, Valid C.nsites j
  closed : ∀ g ∈ G, ∀ j ∈ J, act g j ∈ J

theorem Setting.key_invariant {C G thr J} (h : Setting C G thr J) {x y : PS} (hx : Valid C.nsites x)
    (hxy : Rel G x y) : x2 C x = x2 C y := by
  obtain ⟨g, hg, rfl⟩ := hxy
  exact (crysOpB_x2_invariant (List.all_eq_true.1 h.crys g hg) hx).symm

/-- the driver's decidable test (`net …` answers its value for the shipped crystal, ops and
    jumps) implies the hypotheses of all theorems below -/
theorem settingB_sound {C : Crys} {G : List Op} {thr : Rat} {J : List PS} (h : settingB C G thr J = true) :
    Setting C G thr J := by
  simp only [settingB, Bool.and_eq_true, decide_eq_true_eq, List.all_eq_true, Bool.not_eq_true',
    List.contains_iff_mem] at h
  obtain ⟨⟨⟨⟨⟨h1, h2⟩, h3⟩, h4⟩, h5⟩, h6⟩ := h
  exact ⟨h1, List.all_eq_true.2 h2, h3, h4, fun j hj => h5 j hj, h6⟩

/-- `a ^ b` of valid states is valid -/
theorem Valid.xor {n : Nat} {a b s : PS} (ha : Valid n a) (hb : Valid n b) (h : a.xor b = some s) :
    Valid n s := by
  unfold PS.xor at h
  split at h
  · cases h; exact ⟨hb.2, ha.2⟩
  · cases h

/-- generic: sorting valid states by `|dx|²` and building stars gives an orbit partition -/
theorem sorted_stars_partition {C G thr J} (h : Setting C G thr J) {L : List PS}
    (hV : ∀ y ∈ L, Valid C.nsites y) :
    OrbitPartition G (sortByKey (x2 C) L) (starsOf C G thr (sortByKey (x2 C) L)) := by
  have hG := groupClosedB_sound h.grp
  have hV' : ∀ y ∈ sortByKey (x2 C) L, Valid C.nsites y := fun y hy => hV y ((mem_sortByKey _ _ _).1 hy)
  exact starsOf_partition_orbits hG h.thr hV' (sortByKey_sorted _ _)
    (fun x hx y _ hxy => h.key_invariant (hV' x hx) hxy)

/-- **C24, stars**: in a valid setting the star set returned by `generate(N, originstates)` has
    duplicate-free states, its stars are an orbit partition of the states, and every star is a
    *complete* orbit of the group: `y` lies in the star of `x` iff some op maps `x` to `y`. -/
theorem generate_stars_complete_orbits {C G thr J} (h : Setting C G thr J) (N : Nat) (o : Bool) :
    (generate C G thr J N o).states.Nodup ∧
    ((generate C G thr J N o).states ≠ [] →
      OrbitPartition G (generate C G thr J N o).states (generate C G thr J N o).stars ∧
      ∀ star ∈ (generate C G thr J N o).stars, ∀ x ∈ star, ∀ y, (y ∈ star ↔ Rel G x y)) := by
  have hG := groupClosedB_sound h.grp
  have hnd : (generate C G thr J N o).states.Nodup :=
    (sortByKey_perm (x2 C) _).nodup_iff.2 (genStates_nodup J C.nsites N o)
  refine ⟨hnd, fun hne => ?_⟩
  have hV : ∀ y ∈ genStates J C.nsites N o, Valid C.nsites y := fun y hy => genStates_valid h.valid hy
  have hV' : ∀ y ∈ (generate C G thr J N o).states, Valid C.nsites y :=
    fun y hy => hV y (mem_generate_states.1 hy)
  have hstars : (generate C G thr J N o).stars = starsOf C G thr (generate C G thr J N o).states := by
    have : (generate C G thr J N o).states.isEmpty = false := by
      cases hh : (generate C G thr J N o).states with
      | nil => exact absurd hh hne
      | cons _ _ => rfl
    simp only [generate, mkStars] at this ⊢
    simp [this]
  have hpart : OrbitPartition G (generate C G thr J N o).states (generate C G thr J N o).stars := by
    rw [hstars]; exact sorted_stars_partition h hV
  refine ⟨hpart, fun star hstar x hx y => ?_⟩
  have hxs : x ∈ (generate C G thr J N o).states := (hpart.mem_iff x).2 ⟨star, hstar, hx⟩
  constructor
  · intro hy; exact hpart.rel star hstar x hx y hy
  · intro hxy
    obtain ⟨g, hg, rfl⟩ := hxy
    have hys : act g x ∈ (generate C G thr J N o).states :=
      mem_generate_states.2 (genStates_G_closed hG h.nz h.valid h.closed g hg x (mem_generate_states.1 hxs))
    exact hpart.complete hG hV' hstar hx hys ⟨g, hg, rfl⟩

/-- **C24, addition (partitions)**: for `N₁,N₂ ≥ 1` the stars of `S(N₁) += S(N₂)` are an orbit
    partition of its states — the old stars plus the stars of the new states; old and new states
    are never related because `S(N₁)` is closed under the group. -/
theorem iadd_stars_partition {C G thr J} (h : Setting C G thr J) {N1 N2 : Nat} {o1 o2 : Bool}
    (h1 : 1 ≤ N1) (h2 : 1 ≤ N2) {R : StarSet}
    (hR : iadd C G thr (generate C G thr J N1 o1) (generate C G thr J N2 o2) = .ok R)
    (hne : R.states ≠ []) : OrbitPartition G R.states R.stars := by
  have hG := groupClosedB_sound h.grp
  have hA : ¬ (generate C G thr J N1 o1).nshells < 1 := by simp [generate]; omega
  have hB : ¬ (generate C G thr J N2 o2).nshells < 1 := by simp [generate]; omega
  unfold iadd at hR
  simp only [hA, hB, if_false] at hR
  split at hR
  · -- nothing new: the star set is the old one with the shell count updated
    cases hR
    exact ((generate_stars_complete_orbits h N1 o1).2 hne).1
  rename_i hnew
  cases hR
  set A := generate C G thr J N1 o1 with hAdef
  set B := generate C G thr J N2 o2 with hBdef
  have hVA : ∀ y ∈ A.states, Valid C.nsites y := fun y hy => genStates_valid h.valid (mem_generate_states.1 hy)
  have hVB : ∀ y ∈ B.states, Valid C.nsites y := fun y hy => genStates_valid h.valid (mem_generate_states.1 hy)
  have hVn : ∀ y ∈ iaddNew A.states B.states, Valid C.nsites y := by
    intro y hy
    obtain ⟨⟨s1, m1, s2, m2, hadd⟩, _⟩ := mem_iaddNew.1 hy
    exact (hVA s1 m1).add (hVB s2 m2) (addNZ_eq_some.1 hadd).1
  have pnew := sorted_stars_partition h hVn
  -- the old part is non-empty, otherwise nothing new could have been produced
  have hAne : A.states ≠ [] := by
    intro he
    apply hnew
    have : iaddNew A.states B.states = [] := by
      rw [he]; simp [iaddNew, dedup]
    rw [this]; simp [sortByKey]
  have pold := (generate_stars_complete_orbits h N1 o1).2 hAne
  refine ⟨?_, ?_, ?_, ?_⟩
  · rw [List.flatten_append]; exact pold.1.perm.append pnew.perm
  · intro S hS
    rcases List.mem_append.1 hS with hS | hS
    · exact pold.1.ne S hS
    · exact pnew.ne S hS
  · intro S hS
    rcases List.mem_append.1 hS with hS | hS
    · exact pold.1.rel S hS
    · exact pnew.rel S hS
  · rw [List.pairwise_append]
    refine ⟨pold.1.sep, pnew.sep, ?_⟩
    intro S hS S' hS' a ha b hb hab
    have hb' : b ∈ iaddNew A.states B.states :=
      (mem_sortByKey _ _ _).1 ((pnew.mem_iff b).2 ⟨S', hS', hb⟩)
    exact (mem_iaddNew.1 hb').2 ((pold.1.mem_iff b).2 ⟨S, hS, (pold.2 S hS a ha b).2 hab⟩)

/-- orbit partitions are unique as sets of sets: two orbit partitions of lists with the same
    members have, star for star, the same members -/
theorem OrbitPartition.unique {G V} (hG : GroupLike G V) {L L' : List PS} {st st' : List (List PS)}
    (hV : ∀ x ∈ L, V x) (hL : ∀ x, x ∈ L ↔ x ∈ L') (h : OrbitPartition G L st) (h' : OrbitPartition G L' st') :
    ∀ S ∈ st, ∃ S' ∈ st', ∀ x, x ∈ S ↔ x ∈ S' := by
  intro S hS
  obtain ⟨x, hx⟩ := List.exists_mem_of_ne_nil S (h.ne S hS)
  have hxL : x ∈ L := (h.mem_iff x).2 ⟨S, hS, hx⟩
  obtain ⟨S', hS', hx'⟩ := (h'.mem_iff x).1 ((hL x).1 hxL)
  have hV' : ∀ y ∈ L', V y := fun y hy => hV y ((hL y).2 hy)
  refine ⟨S', hS', fun y => ⟨fun hy => ?_, fun hy => ?_⟩⟩
  · have hyL : y ∈ L := (h.mem_iff y).2 ⟨S, hS, hy⟩
    exact h'.complete hG hV' hS' hx' ((hL y).1 hyL) (h.rel S hS x hx y hy)
  · have hyL' : y ∈ L' := (h'.mem_iff y).2 ⟨S', hS', hy⟩
    exact h.complete hG hV hS hx ((hL y).2 hyL') (h'.rel S' hS' x hx' y hy)

/-- **C24, addition = generation**: for `N₁,N₂ ≥ 1`, `S(N₁) + S(N₂)` has `N₁+N₂` shells, the
    states of `generate(N₁+N₂)`, and star for star the same members as `generate(N₁+N₂)`. -/
theorem iadd_eq_generate_sum {C G thr J} (h : Setting C G thr J) {N1 N2 : Nat} {o1 o2 : Bool}
    (h1 : 1 ≤ N1) (h2 : 1 ≤ N2) :
    ∃ R, iadd C G thr (generate C G thr J N1 o1) (generate C G thr J N2 o2) = .ok R ∧
      R.nshells = N1 + N2 ∧ (∀ s, s ∈ R.states ↔ s ∈ (generate C G thr J (N1 + N2) o1).states) ∧
      (R.states ≠ [] → ∀ S ∈ R.stars, ∃ S' ∈ (generate C G thr J (N1 + N2) o1).stars, ∀ x, x ∈ S ↔ x ∈ S') := by
  have hG := groupClosedB_sound h.grp
  obtain ⟨R, hR, hn, hs⟩ :=
    iadd_states_eq_generate_sum (C := C) (G := G) (thr := thr) h.nz (o1 := o1) (o2 := o2) h1 h2
  refine ⟨R, hR, hn, hs, fun hne => ?_⟩
  have pR := iadd_stars_partition h h1 h2 hR hne
  have hVR : ∀ x ∈ R.states, Valid C.nsites x := fun x hx =>
    genStates_valid h.valid (mem_generate_states.1 ((hs x).1 hx))
  have hne' : (generate C G thr J (N1 + N2) o1).states ≠ [] := by
    obtain ⟨x, hx⟩ := List.exists_mem_of_ne_nil _ hne
    exact List.ne_nil_of_mem ((hs x).1 hx)
  exact pR.unique hG hVR hs ((generate_stars_complete_orbits h (N1 + N2) o1).2 hne').1

/-- **C24, diffgenerate**: the difference star set (when defined and non-empty) is an orbit
    partition of exactly the endpoint differences `s₂ ^ s₁`. -/
theorem diffgenerate_partition {C G thr J} (h : Setting C G thr J) {N1 N2 : Nat} {o1 o2 : Bool} {R : StarSet}
    (hR : diffgenerate C G thr (generate C G thr J N1 o1) (generate C G thr J N2 o2) = .ok R) :
    (∀ s, s ∈ R.states ↔ ∃ s1 ∈ (generate C G thr J N1 o1).states, ∃ s2 ∈ (generate C G thr J N2 o2).states,
        s2.xor s1 = some s) ∧
    R.states.Nodup ∧ (R.states ≠ [] → OrbitPartition G R.states R.stars) := by
  unfold diffgenerate at hR
  split at hR
  · cases hR
  cases hR
  set A := generate C G thr J N1 o1
  set B := generate C G thr J N2 o2
  have hVA : ∀ y ∈ A.states, Valid C.nsites y := fun y hy => genStates_valid h.valid (mem_generate_states.1 hy)
  have hVB : ∀ y ∈ B.states, Valid C.nsites y := fun y hy => genStates_valid h.valid (mem_generate_states.1 hy)
  have hVd : ∀ y ∈ diffStates A.states B.states, Valid C.nsites y := by
    intro y hy
    obtain ⟨s1, m1, s2, m2, hx⟩ := mem_diffStates_iff.1 hy
    exact (hVB s2 m2).xor (hVA s1 m1) hx
  refine ⟨fun s => ?_, ?_, fun hne => ?_⟩
  · simp only [mem_sortByKey]; exact mem_diffStates_iff
  · exact (sortByKey_perm (x2 C) _).nodup_iff.2 (diffStates_nodup _ _)
  · have : (sortByKey (x2 C) (diffStates A.states B.states)).isEmpty = false := by
      cases hh : sortByKey (x2 C) (diffStates A.states B.states) with
      | nil => exact absurd hh hne
      | cons _ _ => rfl
    simp only [mkStars, this]
    exact sorted_stars_partition h hVd

/-! ### the hypotheses are satisfiable: simple-cubic-like cell with the inversion group -/

namespace Example
def idOp : Op := ⟨Mat.one, [0], [Vec.zero]⟩
def invOp : Op := ⟨⟨⟨-1, 0, 0⟩, ⟨0, -1, 0⟩, ⟨0, 0, -1⟩⟩, [0], [Vec.zero]⟩
def G : List Op := [idOp, invOp]
def C : Crys := ⟨[QVec.zero], ⟨1, 0, 0⟩, ⟨0, 1, 0⟩, ⟨0, 0, 1⟩⟩
def J : List PS := [⟨0, 0, ⟨1, 0, 0⟩⟩, ⟨0, 0, ⟨-1, 0, 0⟩⟩]

theorem setting : Setting C G 0 J where
  grp := by decide
  crys := by decide +kernel
  thr := le_refl _
  nz := by decide
  valid := by
    intro j hj
    simp only [J, List.mem_cons, List.not_mem_nil, or_false] at hj
    rcases hj with rfl | rfl <;> exact ⟨by decide, by decide⟩
  closed := by decide

/-- non-vacuity: the setting exists, the generated set is non-empty, so the conclusion of
    `generate_stars_complete_orbits` is a statement about an actual orbit partition -/
example : OrbitPartition G (generate C G 0 J 2 false).states (generate C G 0 J 2 false).stars := by
  have hmem : (⟨0, 0, ⟨1, 0, 0⟩⟩ : PS) ∈ (generate C G 0 J 2 false).states :=
    mem_generate_states.2 (mem_genStates_shell.2 (Or.inl ⟨0, by omega, by decide⟩))
  exact ((generate_stars_complete_orbits setting 2 false).2 (List.ne_nil_of_mem hmem)).1

example : GroupLike G (Valid 1) := groupClosedB_sound setting.grp
end Example

end Onsager.C24
