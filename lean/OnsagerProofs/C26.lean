/-
  C26 — headline theorems about the jump-network model (OnsagerModel/C26.lean).

  C26Class: `symmequivjumplist` = orbit of the generating pair under group × reversal, no pair
  twice, rotated displacement.   C26Net: `jumpnetwork_omega1/2` — cover, soundness, exactly once,
  class closure, displacement.   Here: the pruning of `VacancyMediated.generate`, and the
  instantiation on the star sets produced by `generate` (C24), so that the only hypotheses left are
  the decidable tests the driver runs on the real crystal plus symmetry of the jump list.

  * `mem_pairs_symmEquiv`, `symmEquiv_pairs_nodup`, `symmEquiv_reversal_closed`, `symmEquiv_G_closed`, `symmEquiv_dx`
  * `omega1_cover`, `omega1_sound`, `omega1_pairs_nodup`, `omega1_exactly_once`, `omega1_class_closed`,
    `omega1_dx_is_vacancy_displacement`;  the same for `omega2`
  * `prune_exact`, `vm_om1_exact`, `vm_om2_exact`
-/
import OnsagerProofs.C26Class
import OnsagerProofs.C26Net

namespace Onsager.C26
open Onsager.C24

/-! ### pruning -/

theorem mem_iff_of_closed {G V} (hG : GroupLike G V) {T : List PS} (hT : ∀ g ∈ G, ∀ s ∈ T, act g s ∈ T)
    {g : Op} (hg : g ∈ G) {s : PS} (hs : V s) : act g s ∈ T ↔ s ∈ T := by
  constructor
  · intro h
    obtain ⟨k, hk, hkg⟩ := hG.inv g hg
    have := hT k hk _ h
    rwa [hkg s hs] at this
  · exact hT g hg s

/-- for a state of the kinetic set, "its star is in `outerkin`" means "it is not a
    thermodynamic state" (the test looks at the first state of the star; the thermodynamic set is
    a union of orbits, so any member gives the same answer) -/
theorem isOuter_iff {G V} (hG : GroupLike G V) {K : List PS} {stars : List (List PS)}
    (hp : OrbitPartition G K stars) (hV : ∀ s ∈ K, V s) {T : List PS} (hT : ∀ g ∈ G, ∀ s ∈ T, act g s ∈ T)
    {s : PS} (hs : s ∈ K) : isOuter T stars s = true ↔ s ∉ T := by
  obtain ⟨star, hstar, hmem⟩ := (hp.mem_iff s).1 hs
  unfold isOuter
  cases hf : stars.find? (·.contains s) with
  | none =>
    have := List.find?_eq_none.1 hf star hstar
    simp [hmem] at this
  | some st =>
    have hst : st ∈ stars := List.mem_of_find?_eq_some hf
    have hsm : s ∈ st := by simpa using List.find?_some hf
    cases st with
    | nil => cases hsm
    | cons r rest =>
      have hr : r ∈ r :: rest := by simp
      have hrK : r ∈ K := (hp.mem_iff r).2 ⟨_, hst, hr⟩
      obtain ⟨g, hg, hgr⟩ := hp.rel _ hst r hr s hsm
      simp only [Bool.not_eq_eq_eq_not, Bool.not_true]
      rw [← hgr, mem_iff_of_closed hG hT hg (hV r hrK)]
      simp

theorem netPairs_filter_sublist (p : JClass → Bool) (net : List JClass) :
    (netPairs (net.filter p)).Sublist (netPairs net) := by
  induction net with
  | nil => simp [netPairs]
  | cons c net ih =>
    simp only [List.filter_cons]
    split
    · simp only [netPairs, List.flatMap_cons] at ih ⊢
      exact List.Sublist.append_left ih _
    · simp only [netPairs, List.flatMap_cons] at ih ⊢
      exact ih.trans (List.sublist_append_right _ _)

/-- **prune_exact**: after the pruning of `VacancyMediated.generate` the listed jumps are exactly
    the vacancy jumps between non-zero kinetic states with at least one end in the thermodynamic
    set — still each exactly once. -/
theorem prune_exact {C G} {K : List PS} {Jcls : List (List PS)} (h : NetSetting C G K Jcls.flatten)
    {stars : List (List PS)} (hp : OrbitPartition G K stars) {T : List PS}
    (hT : ∀ g ∈ G, ∀ s ∈ T, act g s ∈ T) :
    (netPairs (prune T stars (omega1 C G Jcls K))).Nodup ∧
    ∀ x y, (some x, some y) ∈ netPairs (prune T stars (omega1 C G Jcls K)) ↔
      IsTrans1 K Jcls.flatten x y ∧ (x ∈ T ∨ y ∈ T) := by
  have hG := h.group
  have inv := omega1_inv h
  refine ⟨(netPairs_filter_sublist _ _).nodup inv.nodup, ?_⟩
  -- within a class, "an end in T" does not depend on the member
  have cls_inv : ∀ c ∈ omega1 C G Jcls K, ∀ x y, (some x, some y) ∈ pairs c.entries →
      ((x ∈ T ∨ y ∈ T) ↔ (c.i ∈ T ∨ c.f ∈ T)) := by
    intro c hc x y hxy
    have ok := inv.ok c hc
    obtain ⟨hi, hf, _⟩ := ok.trans
    rw [ok.entries, mem_pairs_symmEquiv_closed hG h.closedS hi hf (h.validS _ hi) (h.validS _ hf)] at hxy
    obtain ⟨g, hg, hxy | hxy⟩ := hxy
    · simp only [Prod.mk.injEq, Option.some.injEq] at hxy
      rw [hxy.1, hxy.2, mem_iff_of_closed hG hT hg (h.validS _ hi), mem_iff_of_closed hG hT hg (h.validS _ hf)]
    · simp only [Prod.mk.injEq, Option.some.injEq] at hxy
      rw [hxy.1, hxy.2, mem_iff_of_closed hG hT hg (h.validS _ hi), mem_iff_of_closed hG hT hg (h.validS _ hf)]
      exact or_comm
  have keep_iff : ∀ c ∈ omega1 C G Jcls K,
      (!(isOuter T stars c.i && isOuter T stars c.f)) = true ↔ (c.i ∈ T ∨ c.f ∈ T) := by
    intro c hc
    have ok := inv.ok c hc
    obtain ⟨hi, hf, _⟩ := ok.trans
    have e1 := isOuter_iff hG hp h.validS hT hi
    have e2 := isOuter_iff hG hp h.validS hT hf
    by_cases a1 : c.i ∈ T <;> by_cases a2 : c.f ∈ T <;> simp_all
  intro x y
  simp only [prune, netPairs, List.mem_flatMap, List.mem_filter]
  constructor
  · rintro ⟨c, ⟨hc, hk⟩, hxy⟩
    obtain ⟨x', y', e, tr⟩ := class1_members h (inv.ok c hc) hxy
    simp only [Prod.mk.injEq, Option.some.injEq] at e
    obtain ⟨rfl, rfl⟩ := e
    exact ⟨tr, (cls_inv c hc x y hxy).2 ((keep_iff c hc).1 hk)⟩
  · rintro ⟨tr, hT'⟩
    have := omega1_cover C G tr
    simp only [netPairs, List.mem_flatMap] at this
    obtain ⟨c, hc, hxy⟩ := this
    exact ⟨c, ⟨hc, (keep_iff c hc).2 ((cls_inv c hc x y hxy).1 hT')⟩, hxy⟩

/-! ### instantiation on the star sets of `generate` -/

/-- the setting of C24 plus reversal symmetry of the jump list gives the network setting on any
    generated state set -/
theorem netSetting_of_setting {C G thr} {J : List PS} (h : Setting C G thr J) (hneg : ∀ j ∈ J, j.neg ∈ J)
    (N : Nat) (o : Bool) : NetSetting C G (generate C G thr J N o).states J where
  grp := h.grp
  crys := h.crys
  validS := fun _ hs => genStates_valid h.valid (mem_generate_states.1 hs)
  closedS := fun g hg s hs => mem_generate_states.2
    (genStates_G_closed (groupClosedB_sound h.grp) h.nz h.valid h.closed g hg s (mem_generate_states.1 hs))
  closedJ := h.closed
  negJ := hneg

theorem jumps_subset_states {C G thr} {J : List PS} {N : Nat} {o : Bool} (hN : 1 ≤ N) :
    ∀ j ∈ J, j ∈ (generate C G thr J N o).states := by
  intro j hj
  exact mem_generate_states.2 (mem_genStates_shell.2 (Or.inl ⟨0, by omega, mem_dedup.2 hj⟩))

/-- **C26 for VacancyMediated.generate(Nthermo)** (omega1): the pruned network lists, each exactly
    once, precisely the vacancy jumps between non-zero kinetic states that start or end in the
    thermodynamic range. -/
theorem vm_om1_exact {C G thr} {Jcls : List (List PS)} (h : Setting C G thr Jcls.flatten)
    (hneg : ∀ j ∈ Jcls.flatten, j.neg ∈ Jcls.flatten) (Nthermo : Nat) :
    (netPairs (vmGenerate C G thr Jcls Nthermo).om1).Nodup ∧
    ∀ x y, (some x, some y) ∈ netPairs (vmGenerate C G thr Jcls Nthermo).om1 ↔
      IsTrans1 (vmGenerate C G thr Jcls Nthermo).kinetic.states Jcls.flatten x y ∧
        (x ∈ (vmGenerate C G thr Jcls Nthermo).thermo.states ∨ y ∈ (vmGenerate C G thr Jcls Nthermo).thermo.states) := by
  have hG := groupClosedB_sound h.grp
  have hK := netSetting_of_setting h hneg (Nthermo + 1) true
  have hT : ∀ g ∈ G, ∀ s ∈ (generate C G thr Jcls.flatten Nthermo false).states,
      act g s ∈ (generate C G thr Jcls.flatten Nthermo false).states :=
    (netSetting_of_setting h hneg Nthermo false).closedS
  by_cases hne : (generate C G thr Jcls.flatten (Nthermo + 1) true).states = []
  · -- no kinetic state at all: nothing is listed and nothing is a transition
    have hom : omega1 C G Jcls (generate C G thr Jcls.flatten (Nthermo + 1) true).states = [] := by
      rw [hne]
      unfold omega1 loopNet
      refine foldl_inv (P := fun n => n = []) _ _ rfl ?_
      intro b a _ hb
      refine foldl_inv (P := fun n => n = []) _ _ hb ?_
      intro b' a' _ hb'
      simpa using hb'
    simp only [vmGenerate, hom, prune, List.filter_nil, netPairs, List.flatMap_nil, List.nodup_nil,
      List.not_mem_nil, false_iff, true_and]
    intro x y ⟨tr, _⟩
    rw [hne] at tr
    exact absurd tr.1 (by simp)
  · have hp := ((generate_stars_complete_orbits h (Nthermo + 1) true).2 hne).1
    exact prune_exact hK hp hT

/-- **C26 for VacancyMediated.generate(Nthermo)** (omega2): the exchange network lists, each
    exactly once, precisely the exchanges `x → −x` of non-zero kinetic states with `−x` a jump. -/
theorem vm_om2_exact {C G thr} {Jcls : List (List PS)} (h : Setting C G thr Jcls.flatten)
    (hneg : ∀ j ∈ Jcls.flatten, j.neg ∈ Jcls.flatten) (Nthermo : Nat) :
    (netPairs (vmGenerate C G thr Jcls Nthermo).om2).Nodup ∧
    ∀ p, p ∈ netPairs (vmGenerate C G thr Jcls Nthermo).om2 ↔
      ∃ x, p = (some x, some x.neg) ∧ IsTrans2 (vmGenerate C G thr Jcls Nthermo).kinetic.states Jcls.flatten x := by
  have hK := netSetting_of_setting h hneg (Nthermo + 1) true
  have hsub := jumps_subset_states (C := C) (G := G) (thr := thr) (J := Jcls.flatten) (N := Nthermo + 1) (o := true)
    (by omega)
  refine ⟨omega2_pairs_nodup hK hsub, fun p => ⟨omega2_sound hK hsub, ?_⟩⟩
  rintro ⟨x, rfl, t⟩
  exact omega2_cover C G hsub t

/-- **C26 from the driver's tests alone**: if the decidable tests `settingB` and `negClosedB`
    (whose values the driver reports for the shipped crystal, ops and jump classes) hold, both
    networks of `VacancyMediated.generate(Nthermo)` classify their transitions exactly once. -/
theorem vm_exact_of_tests {C G thr} {Jcls : List (List PS)} (hs : settingB C G thr Jcls.flatten = true)
    (hn : negClosedB Jcls.flatten = true) (Nthermo : Nat) :
    ((netPairs (vmGenerate C G thr Jcls Nthermo).om1).Nodup ∧
      ∀ x y, (some x, some y) ∈ netPairs (vmGenerate C G thr Jcls Nthermo).om1 ↔
        IsTrans1 (vmGenerate C G thr Jcls Nthermo).kinetic.states Jcls.flatten x y ∧
          (x ∈ (vmGenerate C G thr Jcls Nthermo).thermo.states ∨ y ∈ (vmGenerate C G thr Jcls Nthermo).thermo.states)) ∧
    ((netPairs (vmGenerate C G thr Jcls Nthermo).om2).Nodup ∧
      ∀ p, p ∈ netPairs (vmGenerate C G thr Jcls Nthermo).om2 ↔
        ∃ x, p = (some x, some x.neg) ∧ IsTrans2 (vmGenerate C G thr Jcls Nthermo).kinetic.states Jcls.flatten x) := by
  have hneg : ∀ j ∈ Jcls.flatten, j.neg ∈ Jcls.flatten := by
    intro j hj
    simp only [negClosedB, List.all_eq_true, List.contains_iff_mem] at hn
    exact hn j hj
  exact ⟨vm_om1_exact (settingB_sound hs) hneg Nthermo, vm_om2_exact (settingB_sound hs) hneg Nthermo⟩

/-! ### non-vacuity: the example setting of C24 is reversal-symmetric -/

example : NetSetting C24.Example.C C24.Example.G
    (generate C24.Example.C C24.Example.G 0 C24.Example.J 2 true).states C24.Example.J :=
  netSetting_of_setting C24.Example.setting (by decide) 2 true

example : IsTrans1 (generate C24.Example.C C24.Example.G 0 C24.Example.J 2 true).states C24.Example.J
    ⟨0, 0, ⟨1, 0, 0⟩⟩ ⟨0, 0, ⟨2, 0, 0⟩⟩ := by
  refine ⟨?_, ?_, by decide, by decide, ⟨0, 0, ⟨1, 0, 0⟩⟩, by decide, by decide⟩
  · exact mem_generate_states.2 (mem_genStates_shell.2 (Or.inl ⟨0, by omega, by decide⟩))
  · exact mem_generate_states.2 (mem_genStates_shell.2 (Or.inl ⟨1, by omega, by decide⟩))

end Onsager.C26
