/-
  Geometry lemmas shared by C21 / C22 / C31 (model: OnsagerModel/C21.lean, namespace Onsager.Geom):
  * `cauchy_schwarz`   Cauchy–Schwarz for a symmetric positive-semidefinite form over ℚ, any dimension
  * `coord_sq_le`      `x_j² ≤ (xᵀ g x)·(g⁻¹)_jj`   (box_dual_complete, real-valued core)
  * `boxOK_complete`   the executable criterion `boxOK` implies that every integer vector `n` with
                       `|n + du|² < R²` lies in the box
  * `boxB_complete`    the dual-basis box formula (any rounding mode) satisfies the criterion
  * `mem_boxVecs`      the enumeration `boxVecs` lists exactly the integer vectors of the box
-/
import OnsagerModel.C21
import Mathlib.Algebra.BigOperators.Fin
import Mathlib.Algebra.Order.BigOperators.Ring.Finset
import Mathlib.Algebra.Order.Field.Rat
import Mathlib.Tactic.Ring
import Mathlib.Tactic.Linarith
import Mathlib.Tactic.FieldSimp

namespace Onsager.Geom
open Finset

variable {d : Nat}

@[simp] theorem get_ofFn {α : Type} (f : Fin d → α) (i : Fin d) : (vof f).get i = f i := by
  simp [vof, Vector.get]; rfl

theorem vext {α} {a b : Vector α d} (h : ∀ i : Fin d, a.get i = b.get i) : a = b := by
  apply Vector.ext; intro i hi; simpa [Vector.get] using h ⟨i, hi⟩

theorem sumQ_eq (f : Fin d → Rat) : sumQ f = ∑ i, f i := by
  simp [sumQ, List.sum_ofFn]

theorem sumZ_eq (f : Fin d → Int) : sumZ f = ∑ i, f i := by
  simp [sumZ, List.sum_ofFn]

/-- bilinear form on functions -/
def B (g : Fin d → Fin d → ℚ) (x y : Fin d → ℚ) : ℚ := ∑ i, ∑ j, x i * g i j * y j

theorem qform_eq (g : QM d) (x y : QV d) : qform g x y = B (ent g) x.get y.get := by
  simp [qform, B, sumQ_eq]

theorem B_add_left (g : Fin d → Fin d → ℚ) (x y z : Fin d → ℚ) :
    B g (fun i => x i + y i) z = B g x z + B g y z := by
  simp only [B, ← sum_add_distrib]
  refine sum_congr rfl fun i _ => sum_congr rfl fun j _ => by ring

theorem B_smul_left (g : Fin d → Fin d → ℚ) (c : ℚ) (x z : Fin d → ℚ) :
    B g (fun i => c * x i) z = c * B g x z := by
  simp only [B, mul_sum]
  refine sum_congr rfl fun i _ => sum_congr rfl fun j _ => by ring

theorem B_symm (g : Fin d → Fin d → ℚ) (hs : ∀ i j, g i j = g j i) (x y : Fin d → ℚ) :
    B g x y = B g y x := by
  simp only [B]
  rw [sum_comm]
  refine sum_congr rfl fun i _ => sum_congr rfl fun j _ => by rw [hs j i]; ring

/-- `Q(a x + b y) = a² Q(x) + 2ab B(x,y) + b² Q(y)` -/
theorem B_quad (g : Fin d → Fin d → ℚ) (hs : ∀ i j, g i j = g j i) (a b : ℚ) (x y : Fin d → ℚ) :
    B g (fun i => a * x i + b * y i) (fun i => a * x i + b * y i)
      = a * a * B g x x + 2 * a * b * B g x y + b * b * B g y y := by
  have h1 : B g x y = B g y x := B_symm g hs x y
  have : B g (fun i => a * x i + b * y i) (fun i => a * x i + b * y i)
      = a * a * B g x x + a * b * B g x y + b * a * B g y x + b * b * B g y y := by
    simp only [B, mul_sum, ← sum_add_distrib]
    refine sum_congr rfl fun i _ => sum_congr rfl fun j _ => by ring
  rw [this, ← h1]; ring

/-- **Cauchy–Schwarz** for a symmetric positive-semidefinite form over ℚ, any dimension. -/
theorem cauchy_schwarz (g : Fin d → Fin d → ℚ) (hs : ∀ i j, g i j = g j i)
    (hp : ∀ x, 0 ≤ B g x x) (x y : Fin d → ℚ) : B g x y * B g x y ≤ B g x x * B g y y := by
  have hc := hp y
  rcases hc.lt_or_eq with hpos | h0
  · -- 0 ≤ Q(c x − b y) = c (c a − b²)
    have h := hp (fun i => B g y y * x i + (-(B g x y)) * y i)
    rw [B_quad g hs] at h
    have : 0 ≤ B g y y * (B g x x * B g y y - B g x y * B g x y) := by nlinarith
    have := nonneg_of_mul_nonneg_right this hpos
    linarith
  · -- Q(y) = 0: then B(x,y) = 0
    by_contra hcon
    have hb : B g x y ≠ 0 := by
      intro h; apply hcon; rw [h, ← h0]; simp
    -- take t with a + 2 t b = -1
    have h := hp (fun i => 1 * x i + (-(B g x x + 1) / (2 * B g x y)) * y i)
    rw [B_quad g hs, ← h0] at h
    have h2 : 2 * 1 * (-(B g x x + 1) / (2 * B g x y)) * B g x y = -(B g x x + 1) := by
      field_simp
    nlinarith

/-- If `g·h = 1` with `g` symmetric PSD then `x_j² ≤ Q(x)·h_jj`. -/
theorem coord_sq_le (g h : Fin d → Fin d → ℚ) (hs : ∀ i j, g i j = g j i)
    (hp : ∀ x, 0 ≤ B g x x) (hinv : ∀ i j, (∑ k, g i k * h k j) = if i = j then 1 else 0)
    (x : Fin d → ℚ) (j : Fin d) : x j * x j ≤ B g x x * h j j := by
  have hxe : B g x (fun k => h k j) = x j := by
    simp only [B]
    have : ∀ i, (∑ k, x i * g i k * h k j) = x i * (if i = j then 1 else 0) := by
      intro i; rw [← hinv i j, mul_sum]; exact sum_congr rfl fun k _ => by ring
    simp [this]
  have hee : B g (fun k => h k j) (fun k => h k j) = h j j := by
    simp only [B]
    have : ∀ i, (∑ k, h i j * g i k * h k j) = h i j * (if i = j then 1 else 0) := by
      intro i; rw [← hinv i j, mul_sum]; exact sum_congr rfl fun k _ => by ring
    simp [this]
  have := cauchy_schwarz g hs hp x (fun k => h k j)
  rwa [hxe, hee] at this

theorem inv_diag_pos (g h : Fin d → Fin d → ℚ) (hs : ∀ i j, g i j = g j i)
    (hp : ∀ x, 0 ≤ B g x x) (hinv : ∀ i j, (∑ k, g i k * h k j) = if i = j then 1 else 0)
    (j : Fin d) : 0 < h j j := by
  have h1 := coord_sq_le g h hs hp hinv (fun k => if k = j then 1 else 0) j
  simp only [if_true, mul_one] at h1
  have h2 := hp (fun k => if k = j then 1 else 0)
  by_contra hcon
  have : h j j ≤ 0 := not_lt.mp hcon
  nlinarith


/-! ### positive semidefinite metrics, the box criterion -/

/-- `g` is positive semidefinite -/
def PSD (g : QM d) : Prop := ∀ x : Fin d → ℚ, 0 ≤ B (ent g) x x

/-- the LDLᵀ certificate is sound -/
theorem psdCert_sound (g M : QM d) (D : QV d) (h : psdCert g M D = true) : PSD g := by
  simp only [psdCert, Bool.and_eq_true, decide_eq_true_eq, sumQ_eq] at h
  obtain ⟨hD, hg⟩ := h
  intro x
  have key : B (ent g) x x = ∑ k, D.get k * ((∑ i, ent M k i * x i) * (∑ i, ent M k i * x i)) := by
    simp only [B, hg, mul_sum, sum_mul]
    calc _ = ∑ i, ∑ k, ∑ j, x i * (D.get k * ent M k i * ent M k j) * x j :=
          sum_congr rfl fun i _ => sum_comm
      _ = ∑ k, ∑ i, ∑ j, x i * (D.get k * ent M k i * ent M k j) * x j := sum_comm
      _ = _ := sum_congr rfl fun k _ => sum_congr rfl fun i _ => sum_congr rfl fun j _ => by ring
  rw [key]
  exact sum_nonneg fun k _ => mul_nonneg (hD k) (mul_self_nonneg _)

theorem isSymm_iff (g : QM d) : isSymm g = true ↔ ∀ i j, ent g i j = ent g j i := by
  simp [isSymm]

theorem isInverse_iff (g h : QM d) :
    isInverse g h = true ↔ ∀ i j, (∑ k, ent g i k * ent h k j) = if i = j then 1 else 0 := by
  simp [isInverse, sumQ_eq]

theorem norm2_eq (g : QM d) (x : QV d) : norm2 g x = B (ent g) x.get x.get := qform_eq g x x

theorem abs_lt_of_sq_lt {a t : ℚ} (ht : 0 ≤ t) (h : a * a < t * t) : |a| < t := by
  rw [abs_lt]; constructor <;> nlinarith

/-- **box_dual_complete** (executable form).  If the metric is symmetric PSD with inverse `h`,
    the box passes `boxOK` for the squared radius `R2` and offset bound `dumax`, then every integer
    vector `n` whose offset copy `n + du` is shorter than `R` lies inside the box. -/
theorem boxOK_complete (g h : QM d) (hs : isSymm g = true) (hinv : isInverse g h = true) (hp : PSD g)
    (R2 : ℚ) (dumax : QV d) (box : Box d) (hok : boxOK h R2 dumax box = true)
    (n : ZV d) (du : QV d) (hdu : ∀ k, |du.get k| ≤ dumax.get k)
    (hlt : norm2 g (vof fun k => (n.get k : ℚ) + du.get k) < R2) :
    inBox box n = true := by
  rw [isSymm_iff] at hs
  rw [isInverse_iff] at hinv
  simp only [boxOK, decide_eq_true_eq] at hok
  simp only [inBox, decide_eq_true_eq]
  intro k
  obtain ⟨h1, h2⟩ := hok k
  rw [norm2_eq] at hlt
  set v : Fin d → ℚ := (vof fun k => (n.get k : ℚ) + du.get k).get with hv
  have hvk : v k = (n.get k : ℚ) + du.get k := by simp [hv]
  have hc := coord_sq_le (ent g) (ent h) hs hp hinv v k
  have hpos := inv_diag_pos (ent g) (ent h) hs hp hinv k
  set T : ℚ := (box.get k : ℚ) + 1 - dumax.get k with hT
  have hT0 : 0 ≤ T := by linarith
  have hlt2 : v k * v k < T * T := by
    calc v k * v k ≤ B (ent g) v v * ent h k k := hc
      _ < R2 * ent h k k := by exact mul_lt_mul_of_pos_right hlt hpos
      _ ≤ T * T := h2
  have habs := abs_lt_of_sq_lt hT0 hlt2
  have hn : |(n.get k : ℚ)| < (box.get k : ℚ) + 1 := by
    have : (n.get k : ℚ) = v k - du.get k := by rw [hvk]; ring
    rw [this]
    calc |v k - du.get k| ≤ |v k| + |du.get k| := abs_sub _ _
      _ < T + dumax.get k := by linarith [hdu k]
      _ = (box.get k : ℚ) + 1 := by rw [hT]; ring
  have : ((n.get k).natAbs : ℚ) < ((box.get k + 1 : ℕ) : ℚ) := by
    rw [Nat.cast_natAbs]; push_cast; exact hn
  have := Nat.cast_lt.mp this
  omega

/-! ### integer square roots -/

theorem isqrtGo_spec (n : ℕ) : ∀ fuel m, m * m ≤ n → n < (m + fuel + 1) * (m + fuel + 1) →
    isqrtGo n fuel m * isqrtGo n fuel m ≤ n ∧ n < (isqrtGo n fuel m + 1) * (isqrtGo n fuel m + 1) := by
  intro fuel
  induction fuel with
  | zero => intro m h1 h2; simpa [isqrtGo] using ⟨h1, h2⟩
  | succ f ih =>
    intro m h1 h2
    simp only [isqrtGo]
    split
    · exact ⟨h1, by assumption⟩
    · rename_i hlt
      apply ih (m + 1) (by omega)
      have : m + 1 + f + 1 = m + (f + 1) + 1 := by ring
      rw [this]; exact h2

theorem isqrt_spec (n : ℕ) : isqrt n * isqrt n ≤ n ∧ n < (isqrt n + 1) * (isqrt n + 1) := by
  apply isqrtGo_spec n n 0 (by omega)
  nlinarith

theorem le_isqrt {n m : ℕ} (h : m * m ≤ n) : m ≤ isqrt n := by
  by_contra hc
  have h1 : isqrt n + 1 ≤ m := by omega
  have := (isqrt_spec n).2
  have : (isqrt n + 1) * (isqrt n + 1) ≤ m * m := Nat.mul_le_mul h1 h1
  omega

theorem lt_floorSqrt_succ_sq {q : ℚ} (hq : 0 ≤ q) :
    q < ((floorSqrt q : ℚ) + 1) * ((floorSqrt q : ℚ) + 1) := by
  have h1 := Rat.lt_floor_add_one q
  have hf : 0 ≤ q.floor := Rat.le_floor_iff.mpr (by simpa using hq)
  have h2 := (isqrt_spec q.floor.toNat).2
  have h3 : (q.floor.toNat : ℤ) = q.floor := Int.toNat_of_nonneg hf
  have h4 : (q.floor + 1 : ℤ) ≤ ((isqrt q.floor.toNat + 1) * (isqrt q.floor.toNat + 1) : ℕ) := by
    rw [← h3]; exact_mod_cast h2
  have h5 : ((q.floor + 1 : ℤ) : ℚ) ≤ (((isqrt q.floor.toNat + 1) * (isqrt q.floor.toNat + 1) : ℕ) : ℚ) := by
    exact_mod_cast h4
  unfold floorSqrt
  push_cast at h1 h5 ⊢
  linarith

theorem floorSqrt_sq_le {q : ℚ} (hq : 0 ≤ q) : ((floorSqrt q : ℚ)) * (floorSqrt q : ℚ) ≤ q := by
  have hf : 0 ≤ q.floor := Rat.le_floor_iff.mpr (by simpa using hq)
  have h2 := (isqrt_spec q.floor.toNat).1
  have h3 : (q.floor.toNat : ℤ) = q.floor := Int.toNat_of_nonneg hf
  have h4 : ((isqrt q.floor.toNat * isqrt q.floor.toNat : ℕ) : ℤ) ≤ q.floor := by
    rw [← h3]; exact_mod_cast h2
  have h5 : (((isqrt q.floor.toNat * isqrt q.floor.toNat : ℕ) : ℤ) : ℚ) ≤ (q.floor : ℚ) := by exact_mod_cast h4
  have := Rat.floor_le q
  unfold floorSqrt
  push_cast at h5 ⊢
  linarith

theorem le_floorSqrt {q : ℚ} {m : ℕ} (h : ((m * m : ℕ) : ℚ) ≤ q) : m ≤ floorSqrt q := by
  unfold floorSqrt
  apply le_isqrt
  have h1 : ((m * m : ℕ) : ℤ) ≤ q.floor := Rat.le_floor_iff.mpr (by exact_mod_cast h)
  omega

theorem floorSqrt_le_ceilSqrt (q : ℚ) : floorSqrt q ≤ ceilSqrt q := by
  unfold ceilSqrt; simp only; split <;> omega

theorem floorSqrt_le_roundSqrt {q : ℚ} (hq : 0 ≤ q) : floorSqrt q ≤ roundSqrt q := by
  have h2 : 2 * floorSqrt q ≤ floorSqrt (4 * q) := by
    apply le_floorSqrt
    have := floorSqrt_sq_le hq
    push_cast; nlinarith
  unfold roundSqrt
  simp only
  split
  · rename_i hc
    split <;> omega
  · omega

/-- every rounding mode of the dual-basis box is at least `⌊√(r2·h_kk)⌋ + 1` -/
theorem boxB_ge (mode : ℕ) (h : QM d) (r2 : ℚ) (k : Fin d) (hq : 0 ≤ r2 * ent h k k) :
    floorSqrt (r2 * ent h k k) + 1 ≤ (boxB mode h r2).get k := by
  simp only [boxB, get_ofFn]
  match mode with
  | 0 => simp
  | 1 => simpa using floorSqrt_le_roundSqrt hq
  | (m + 2) => simpa using floorSqrt_le_ceilSqrt _

/-- **The dual-basis box formula is complete**: for a symmetric PSD metric with inverse `h`,
    `boxB mode h r2` passes the criterion whenever the offsets are bounded by 1 per axis. -/
theorem boxB_ok (mode : ℕ) (g h : QM d) (hs : isSymm g = true) (hinv : isInverse g h = true) (hp : PSD g)
    (r2 : ℚ) (hr : 0 ≤ r2) (dumax : QV d) (hd : ∀ k, dumax.get k ≤ 1) :
    boxOK h r2 dumax (boxB mode h r2) = true := by
  simp only [boxOK, decide_eq_true_eq]
  intro k
  have hpos := inv_diag_pos (ent g) (ent h) ((isSymm_iff g).mp hs) hp ((isInverse_iff g h).mp hinv) k
  have hq : 0 ≤ r2 * ent h k k := mul_nonneg hr hpos.le
  have hge := boxB_ge mode h r2 k hq
  have hge' : ((floorSqrt (r2 * ent h k k) : ℚ)) + 1 ≤ ((boxB mode h r2).get k : ℚ) := by exact_mod_cast hge
  have hlt := lt_floorSqrt_succ_sq hq
  have hF : (0 : ℚ) ≤ (floorSqrt (r2 * ent h k k) : ℚ) := Nat.cast_nonneg _
  constructor
  · linarith [hd k]
  · have h1 : (floorSqrt (r2 * ent h k k) : ℚ) + 1 ≤ ((boxB mode h r2).get k : ℚ) + 1 - dumax.get k := by
      linarith [hd k]
    nlinarith

/-- **boxB_complete**: enumeration in the dual-basis box misses no vector shorter than the cutoff. -/
theorem boxB_complete (mode : ℕ) (g h : QM d) (hs : isSymm g = true) (hinv : isInverse g h = true) (hp : PSD g)
    (r2 : ℚ) (hr : 0 ≤ r2) (n : ZV d) (du : QV d) (hdu : ∀ k, |du.get k| ≤ 1)
    (hlt : norm2 g (vof fun k => (n.get k : ℚ) + du.get k) < r2) :
    inBox (boxB mode h r2) n = true :=
  boxOK_complete g h hs hinv hp r2 (vof fun _ => 1) _
    (boxB_ok mode g h hs hinv hp r2 hr _ (by simp)) n du (by simpa using hdu) hlt

/-! ### enumeration of the box -/

theorem mem_symRange (b : ℕ) (k : ℤ) : k ∈ symRange b ↔ k.natAbs ≤ b := by
  simp only [symRange, List.mem_map, List.mem_range]
  constructor
  · rintro ⟨a, ha, rfl⟩; omega
  · intro h; exact ⟨(k + b).toNat, by omega, by omega⟩

theorem mem_boxLists : ∀ (box : List ℕ) (l : List ℤ),
    l ∈ boxLists box ↔ List.Forall₂ (fun b k => Int.natAbs k ≤ b) box l
  | [], l => by simp [boxLists]
  | b :: bs, l => by
    simp only [boxLists, List.mem_flatMap, List.mem_map, mem_symRange]
    constructor
    · rintro ⟨k, hk, t, ht, rfl⟩
      exact List.Forall₂.cons hk ((mem_boxLists bs t).mp ht)
    · intro h
      cases h with
      | cons hk ht => exact ⟨_, hk, _, (mem_boxLists bs _).mpr ht, rfl⟩

theorem ofListZ_toList (n : ZV d) : ofListZ n.toList = n := by
  apply vext; intro i
  simp only [ofListZ, get_ofFn]
  simp [Vector.get, List.getD_eq_getElem?_getD]

theorem forall₂_of_get (box : Box d) (n : ZV d) (h : ∀ k : Fin d, (n.get k).natAbs ≤ box.get k) :
    List.Forall₂ (fun b k => Int.natAbs k ≤ b) box.toList n.toList := by
  rw [List.forall₂_iff_get]
  refine ⟨by simp, ?_⟩
  intro i h1 h2
  have hi : i < d := by simpa using h1
  simpa [Vector.get] using h ⟨i, hi⟩

/-- the enumeration lists every integer vector of the box -/
theorem mem_boxVecs_of_inBox (box : Box d) (n : ZV d) (h : inBox box n = true) : n ∈ boxVecs box := by
  simp only [inBox, decide_eq_true_eq] at h
  simp only [boxVecs, List.mem_map]
  exact ⟨n.toList, (mem_boxLists _ _).mpr (forall₂_of_get box n h), ofListZ_toList n⟩

theorem inBox_of_mem_boxVecs (box : Box d) (n : ZV d) (h : n ∈ boxVecs box) : inBox box n = true := by
  simp only [boxVecs, List.mem_map] at h
  obtain ⟨l, hl, rfl⟩ := h
  rw [mem_boxLists, List.forall₂_iff_get] at hl
  simp only [inBox, decide_eq_true_eq]
  intro k
  have hlen : l.length = d := by have := hl.1; simpa using this.symm
  have hk : k.val < l.length := by omega
  have := hl.2 k.val (by simp) hk
  simp only [ofListZ, get_ofFn, List.getD_eq_getElem?_getD, List.getElem?_eq_getElem hk, Option.getD_some]
  simpa [Vector.get] using this

theorem mem_boxVecs (box : Box d) (n : ZV d) : n ∈ boxVecs box ↔ inBox box n = true :=
  ⟨inBox_of_mem_boxVecs box n, mem_boxVecs_of_inBox box n⟩

end Onsager.Geom
