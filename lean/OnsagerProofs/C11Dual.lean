/-
  C11 — dual numbers `K[ε]/(ε²)` as a commutative ring, and the algebraic core (DUAL) of every
  "derivative output" of the interstitial calculator.

  * `Dual K`           pairs `re + ε·eps` with `ε² = 0`; `CommRing` instance proved here
  * `Dual.scaleExp`    the only transcendental input: `expo (a + εb) = expo a · (1 + εb)` is taken as
                       the *definition* of the exponential on dual numbers (`Dual.scaleExp`)
  * `DUAL`             if `(ω+εω′)(γ+εγ′) = b+εb′` with `ω` symmetric then the ε-part of `b·γ` is
                       `2 b′·γ − γ·ω′γ`: the solution's derivative `γ′` is never needed.  This is the
                       shape of lines 429–433 (`Db`) and 519–527 (`Dp`) of OnsagerCalc.py.
-/
import Mathlib.Algebra.BigOperators.Group.Finset.Basic
import Mathlib.Algebra.BigOperators.Ring.Finset
import Mathlib.Algebra.Ring.Defs
import Mathlib.Algebra.Field.Defs
import Mathlib.Data.Fintype.BigOperators
import Mathlib.Tactic.Ring
import Mathlib.Tactic.LinearCombination

namespace Onsager

/-- dual numbers over `K` -/
@[ext] structure Dual (K : Type) where
  re : K
  eps : K
deriving DecidableEq

namespace Dual
variable {K : Type}

instance [Zero K] : Zero (Dual K) := ⟨⟨0, 0⟩⟩
instance [Zero K] [One K] : One (Dual K) := ⟨⟨1, 0⟩⟩
instance [Add K] : Add (Dual K) := ⟨fun a b => ⟨a.re + b.re, a.eps + b.eps⟩⟩
instance [Neg K] : Neg (Dual K) := ⟨fun a => ⟨-a.re, -a.eps⟩⟩
instance [Sub K] : Sub (Dual K) := ⟨fun a b => ⟨a.re - b.re, a.eps - b.eps⟩⟩
instance [Add K] [Mul K] : Mul (Dual K) := ⟨fun a b => ⟨a.re * b.re, a.re * b.eps + a.eps * b.re⟩⟩

@[simp] theorem zero_re [Zero K] : (0 : Dual K).re = 0 := rfl
@[simp] theorem zero_eps [Zero K] : (0 : Dual K).eps = 0 := rfl
@[simp] theorem one_re [Zero K] [One K] : (1 : Dual K).re = 1 := rfl
@[simp] theorem one_eps [Zero K] [One K] : (1 : Dual K).eps = 0 := rfl
@[simp] theorem add_re [Add K] (a b : Dual K) : (a + b).re = a.re + b.re := rfl
@[simp] theorem add_eps [Add K] (a b : Dual K) : (a + b).eps = a.eps + b.eps := rfl
@[simp] theorem neg_re [Neg K] (a : Dual K) : (-a).re = -a.re := rfl
@[simp] theorem neg_eps [Neg K] (a : Dual K) : (-a).eps = -a.eps := rfl
@[simp] theorem sub_re [Sub K] (a b : Dual K) : (a - b).re = a.re - b.re := rfl
@[simp] theorem sub_eps [Sub K] (a b : Dual K) : (a - b).eps = a.eps - b.eps := rfl
@[simp] theorem mul_re [Add K] [Mul K] (a b : Dual K) : (a * b).re = a.re * b.re := rfl
@[simp] theorem mul_eps [Add K] [Mul K] (a b : Dual K) :
    (a * b).eps = a.re * b.eps + a.eps * b.re := rfl

instance [CommRing K] : CommRing (Dual K) where
  add_assoc a b c := by ext <;> simp [add_assoc]
  zero_add a := by ext <;> simp
  add_zero a := by ext <;> simp
  add_comm a b := by ext <;> simp [add_comm]
  neg_add_cancel a := by ext <;> simp
  sub_eq_add_neg a b := by ext <;> simp [sub_eq_add_neg]
  nsmul := nsmulRec
  zsmul := zsmulRec
  mul_assoc a b c := by ext <;> simp <;> ring
  one_mul a := by ext <;> simp
  mul_one a := by ext <;> simp
  mul_comm a b := by ext <;> simp <;> ring
  left_distrib a b c := by ext <;> simp <;> ring
  right_distrib a b c := by ext <;> simp <;> ring
  zero_mul a := by ext <;> simp
  mul_zero a := by ext <;> simp

/-- the infinitesimal -/
def ε [Zero K] [One K] : Dual K := ⟨0, 1⟩

theorem eps_sq [CommRing K] : (ε : Dual K) * ε = 0 := by ext <;> simp [ε]

/-- embedding of constants -/
def const [Zero K] (x : K) : Dual K := ⟨x, 0⟩

section sums
variable [CommRing K]

theorem list_sum_re (l : List (Dual K)) : l.sum.re = (l.map Dual.re).sum := by
  induction l with
  | nil => simp
  | cons a t ih => simp [ih]

theorem list_sum_eps (l : List (Dual K)) : l.sum.eps = (l.map Dual.eps).sum := by
  induction l with
  | nil => simp
  | cons a t ih => simp [ih]

theorem finset_sum_re {ι : Type} (s : Finset ι) (f : ι → Dual K) :
    (∑ i ∈ s, f i).re = ∑ i ∈ s, (f i).re := by
  classical
  induction s using Finset.induction_on with
  | empty => simp
  | insert a s ha ih => simp [Finset.sum_insert ha, ih]

theorem finset_sum_eps {ι : Type} (s : Finset ι) (f : ι → Dual K) :
    (∑ i ∈ s, f i).eps = ∑ i ∈ s, (f i).eps := by
  classical
  induction s using Finset.induction_on with
  | empty => simp
  | insert a s ha ih => simp [Finset.sum_insert ha, ih]

end sums

/-- Exponential on dual numbers, *by definition* `exp(a + εb) = exp(a)(1 + εb)`:
    `scaleExp x b` is the dual number whose real part is the (given) value `x = exp a`. -/
def scaleExp [Mul K] (x b : K) : Dual K := ⟨x, x * b⟩

/-- the definition above is multiplicative, as an exponential must be -/
theorem scaleExp_mul [CommRing K] (x y a b : K) :
    scaleExp x a * scaleExp y b = scaleExp (x * y) (a + b) := by
  ext
  · simp [scaleExp]
  · simp [scaleExp]; ring

end Dual

/-! ### DUAL -/

section DUALsec
variable {ι K : Type} [Fintype ι] [CommRing K]

/-- **DUAL.**  `Ω Γ = Bv` over the dual numbers, `Ω.re` symmetric.  Then the ε-part of the
    correction `Bv·Γ` is `2 b′·γ − γ·ω′γ`, in which the derivative `γ′` of the solution does not
    occur.  (`Db`: lines 429–433; `Dp`: lines 519–527, component by component.) -/
theorem DUAL (Ω : ι → ι → Dual K) (Γ Bv : ι → Dual K)
    (hsym : ∀ i j, (Ω i j).re = (Ω j i).re)
    (heq : ∀ i, ∑ j, Ω i j * Γ j = Bv i) :
    (∑ i, Bv i * Γ i).eps
      = 2 * ∑ i, (Bv i).eps * (Γ i).re - ∑ i, ∑ j, (Γ i).re * (Ω i j).eps * (Γ j).re := by
  have hre : ∀ i, ∑ j, (Ω i j).re * (Γ j).re = (Bv i).re := by
    intro i
    have := congrArg Dual.re (heq i)
    rw [Dual.finset_sum_re] at this
    simpa using this
  have heps : ∀ i, ∑ j, ((Ω i j).re * (Γ j).eps + (Ω i j).eps * (Γ j).re) = (Bv i).eps := by
    intro i
    have := congrArg Dual.eps (heq i)
    rw [Dual.finset_sum_eps] at this
    simpa using this
  rw [Dual.finset_sum_eps]
  simp only [Dual.mul_eps]
  -- b·γ′ = (ωγ)·γ′ = γ·(ωγ′) = γ·(b′ − ω′γ)
  have h1 : ∑ i, (Bv i).re * (Γ i).eps = ∑ i, ∑ j, (Γ i).re * ((Ω i j).re * (Γ j).eps) := by
    calc ∑ i, (Bv i).re * (Γ i).eps
        = ∑ i, ∑ j, (Ω i j).re * (Γ j).re * (Γ i).eps := by
          refine Finset.sum_congr rfl fun i _ => ?_
          rw [← hre i, Finset.sum_mul]
      _ = ∑ j, ∑ i, (Ω i j).re * (Γ j).re * (Γ i).eps := Finset.sum_comm
      _ = ∑ i, ∑ j, (Γ i).re * ((Ω i j).re * (Γ j).eps) := by
          refine Finset.sum_congr rfl fun i _ => Finset.sum_congr rfl fun j _ => ?_
          rw [hsym j i]; ring
  have h2 : ∑ i, (Γ i).re * (Bv i).eps
      = ∑ i, ∑ j, (Γ i).re * ((Ω i j).re * (Γ j).eps)
        + ∑ i, ∑ j, (Γ i).re * (Ω i j).eps * (Γ j).re := by
    rw [← Finset.sum_add_distrib]
    refine Finset.sum_congr rfl fun i _ => ?_
    rw [← heps i, Finset.mul_sum, ← Finset.sum_add_distrib]
    refine Finset.sum_congr rfl fun j _ => ?_
    ring
  have h3 : ∑ i, (Bv i).eps * (Γ i).re = ∑ i, (Γ i).re * (Bv i).eps :=
    Finset.sum_congr rfl fun i _ => mul_comm _ _
  rw [Finset.sum_add_distrib, h1, h3]
  linear_combination (-1 : K) * h2

/-- non-vacuity of DUAL: `ω = -2 + ε`, `b = 4 + 2ε`, so `γ = -2`, `γ′ = -2`; ε-part of `bγ` is −12. -/
example : (∑ i : Fin 1, (fun _ => (⟨4, 2⟩ : Dual ℤ)) i * (fun _ => (⟨-2, -2⟩ : Dual ℤ)) i).eps
    = 2 * ∑ _i : Fin 1, (2 : ℤ) * (-2) - ∑ _i : Fin 1, ∑ _j : Fin 1, (-2 : ℤ) * 1 * (-2) := by
  decide

end DUALsec
end Onsager
