/-
  Tracer theorems for EVERY finite chain pair accepted by the decidable checks of
  OnsagerModel/ChainTracer.lean (C06):

  * `tracer_vv` : the vacancy–vacancy coefficient of the tagged-atom chain is m × that of the lone-vacancy
                  chain, in every tensor component  (the vacancy does not notice the tag: L1vv = 0)
  * `tracer_sv` : the tagged-atom / vacancy cross coefficient is minus the lone-vacancy coefficient
                  (Lsv = −L0vv), in every tensor component
-/
import OnsagerModel.ChainTracer
import OnsagerProofs.Chain
import OnsagerProofs.C05

namespace Onsager.Chain
open Onsager.C02 Onsager.Var

theorem forall₂_map_eq {β γ : Type} (f : β → γ) :
    ∀ (lb : List β) (lc : List γ), List.Forall₂ (fun y z => z = f y) lb lc → lc = lb.map f
  | _, _, List.Forall₂.nil => rfl
  | _, _, List.Forall₂.cons h t => by rw [h, forall₂_map_eq f _ _ t]; rfl

theorem mk_swap (inp : Input) (a b α β : Nat) (t : Trans) (j j' : Jump (Fin inp.n) ℚ)
    (h : mk inp a b α β t = some j) (h' : mk inp b a β α t = some j') : j' = Jump.swap j := by
  unfold mk at h h'
  split at h
  · split at h
    · rename_i hx hy
      simp only [hx, hy, dite_true] at h'
      cases h; cases h'; rfl
    · cases h
  · cases h

theorem network_swap (inp : Input) (a b α β : Nat) (l l' : List (Jump (Fin inp.n) ℚ))
    (h : network inp a b α β = some l) (h' : network inp b a β α = some l') : l' = l.map Jump.swap :=
  forall₂_map_eq Jump.swap l l'
    (C05.mapM_forall₂ (mk inp a b α β) (mk inp b a β α) (fun y z => z = Jump.swap y)
      (fun t y z hy hz => mk_swap inp a b α β t y z hy hz) inp.trans l l' h h')

theorem card_fibre {n' n : Nat} (π : Fin n' → Fin n) (k : Fin n) :
    (Finset.univ.filter (fun i => π i = k)).card = (List.finRange n').countP (fun i => π i = k) := by
  rw [List.countP_eq_length_filter]
  rfl

theorem fibre_sound (n' n : Nat) (hn : 0 < n) (proj : List Nat) (m : Nat)
    (h : fibrecheck n' n hn proj m = true) (k : Fin n) :
    (Finset.univ.filter (fun i => projFun n' n hn proj i = k)).card = m := by
  unfold fibrecheck at h
  simp only [List.all_eq_true, beq_iff_eq] at h
  rw [card_fibre]
  exact h k (List.mem_finRange k)

theorem covers_sound {n' n : Nat} (π : Fin n' → Fin n) (l : List (Jump (Fin n) ℚ)) (l' : List (Jump (Fin n') ℚ))
    (h : covers π l l' = true) (i : Fin n') : CoversAt π 1 l l' i := by
  unfold covers at h
  simp only [List.all_eq_true] at h
  exact List.isPerm_iff.1 (h i (List.mem_finRange i))

theorem classes_sound {n' n : Nat} (π : Fin n' → Fin n) (l : List (Jump (Fin n) ℚ)) (l' : List (Jump (Fin n') ℚ))
    (h : classes π l l' = true) (k : Fin n × Fin n × ℚ) :
    classSum (l'.map (Jump.relabel π)) k = -1 * classSum l k := by
  unfold classes at h
  simp only [List.all_eq_true, beq_iff_eq] at h
  by_cases hk : k ∈ (l'.map (Jump.relabel π)).map jkey ++ l.map jkey
  · exact h k hk
  · -- a class that occurs in neither list has empty sums
    rw [List.mem_append, not_or] at hk
    have e1 : (l'.map (Jump.relabel π)).filter (fun a => jkey a = k) = [] := by
      apply List.filter_eq_nil_iff.2
      intro a ha hka
      exact hk.1 (List.mem_map.2 ⟨a, ha, by simpa using hka⟩)
    have e2 : l.filter (fun a => jkey a = k) = [] := by
      apply List.filter_eq_nil_iff.2
      intro a ha hka
      exact hk.2 (List.mem_map.2 ⟨a, ha, by simpa using hka⟩)
    unfold classSum
    rw [e1, e2]; simp

/-- unpack a model value: network, certified stationary point, reversibility -/
theorem coeff_unpack (inp : Input) (cert : Option (List (List ℚ))) (a b α β : Nat) (D : ℚ)
    (h : coeff inp cert a b α β = some D) :
    ∃ (l : List (Jump (Fin inp.n) ℚ)) (ξ : Fin inp.n → ℚ), network inp a b α β = some l ∧
      (l.map Jump.rev).Perm l ∧ (∀ j ∈ l, 0 ≤ j.r) ∧ Stationary l ξ ∧
      D = (l.map fun j => j.r * j.d * j.e).sum / 2 - ∑ i, ξ i * B (l.map Jump.swap) i := by
  obtain ⟨l, c, hl, hf⟩ := coeff_eq inp cert a b α β D h
  obtain ⟨ξ, hs, hD⟩ := formOf_eq l c D hf
  obtain ⟨hp, hr, hst⟩ := certify_sound l c ξ hs
  exact ⟨l, ξ, hl, hp, hr, hst, hD⟩

/-- **L1vv = 0 for a tagged host atom**, every component, every accepted finite chain. -/
theorem tracer_vv (pair lone : Input) (proj : List Nat) (m α β : Nat)
    (c' c cz : Option (List (List ℚ))) (D' D Dz : ℚ)
    (hc : checkVV pair lone proj m α β = true)
    (h' : coeff pair c' 1 1 α β = some D') (h : coeff lone c 1 1 α β = some D)
    (hz : coeff lone cz 1 1 β α = some Dz) : D' = (m : ℚ) * D := by
  unfold checkVV at hc
  split at hc
  case isFalse => exact absurd hc (by simp)
  case isTrue hn =>
  obtain ⟨l', ξ', hl', hp', _, hs', hD'⟩ := coeff_unpack pair c' 1 1 α β D' h'
  obtain ⟨l, ξ, hl, hp, _, hs, hD⟩ := coeff_unpack lone c 1 1 α β D h
  obtain ⟨lz, ζ, hlz, _, _, hsz, _⟩ := coeff_unpack lone cz 1 1 β α Dz hz
  have hsw := network_swap lone 1 1 α β l lz hl hlz
  subst hsw
  simp only [hl, hl', Bool.and_eq_true] at hc
  have := mixed_cover (projFun pair.n lone.n hn proj) m 1 (fibre_sound _ _ hn proj m hc.1) l l'
    (covers_sound _ l l' hc.2) hp hp' ξ ζ ξ' hs hsz hs'
  rw [hD', hD, this]; ring

/-- **Lsv = −L0vv for a tagged host atom**, every component, every accepted finite chain. -/
theorem tracer_sv (pair lone : Input) (proj : List Nat) (α β : Nat)
    (c' c cz : Option (List (List ℚ))) (D' D Dz : ℚ)
    (hc : checkSV pair lone proj α β = true)
    (h' : coeff pair c' 0 1 α β = some D') (h : coeff lone c 1 1 α β = some D)
    (hz : coeff lone cz 1 1 β α = some Dz) : D' = -D := by
  unfold checkSV at hc
  split at hc
  case isFalse => exact absurd hc (by simp)
  case isTrue hn =>
  obtain ⟨l', ξ', hl', hp', _, hs', hD'⟩ := coeff_unpack pair c' 0 1 α β D' h'
  obtain ⟨l, ξ, hl, hp, _, hs, hD⟩ := coeff_unpack lone c 1 1 α β D h
  obtain ⟨lz, ζ, hlz, _, _, hsz, _⟩ := coeff_unpack lone cz 1 1 β α Dz hz
  have hsw := network_swap lone 1 1 α β l lz hl hlz
  subst hsw
  simp only [hl, hl', Bool.and_eq_true] at hc
  have := tracer_cross (projFun pair.n lone.n hn proj) 1 (-1) l l'
    (covers_sound _ _ _ hc.1) (classes_sound _ l l' hc.2) hp hp' ξ ζ ξ' hs hsz hs'
  rw [hD', hD, this]; ring

end Onsager.Chain
