/-
  C16 — translator half of the tie (part 3a: index tables of Taylor3D).  Generated/C16Facts.lean is rewritten on every run from the LIVE
  classes Taylor3D / Taylor2D of onsager/PowerExpansion.py; each theorem below is one table obligation,
  checked exhaustively for the dumped tables (Lmax = 4) by kernel evaluation.  A source change that alters
  a table breaks the corresponding obligation.
-/
import Generated.C16Facts

namespace Onsager.C16
open Generated.C16
set_option maxRecDepth 1000000

/-- sizes; `powlrange` starts at 1, increases strictly, ends at `Npower` -/
theorem tab3_sizes : tab3.checkSizes = true := by decide +kernel
/-- `powlrange` grades `ind2pow` -/
theorem tab3_graded : tab3.checkGraded = true := by decide +kernel
/-- `pow2ind` / `ind2pow` mutually inverse; `-1` exactly above `Lmax` -/
theorem tab3_inverse : tab3.checkInverse = true := by decide +kernel
/-- `directmult p p' = pow2ind (ind2pow p + ind2pow p')`, `-1` exactly when the degree exceeds `Lmax` -/
theorem tab3_dmult : tab3.checkDmult = true := by decide +kernel
/-- `powercoeff[n][p] = n!/Π k_i!` -/
theorem tab3_pcoef_formula : tab3.checkPcoefFormula = true := by decide +kernel
/-- `powercoeff[n] = (x+y+z)^n` through `directmult` -/
theorem tab3_pcoef_powers : tab3.checkPcoefPowers = true := by decide +kernel
/-- positions of `x², y², z²` -/
theorem tab3_r2 : tab3.checkR2 = true := by decide +kernel

end Onsager.C16
