/-
  C10 — soundness of the exact residual checker of OnsagerModel/C10.lean, its specification in
  terms of a total two-point function, and the 1/λ scaling at the level of the model.
-/
import OnsagerModel.C10
import Mathlib.Algebra.BigOperators.Group.List.Basic
import Mathlib.Algebra.Order.Field.Rat
import Mathlib.Algebra.Order.AbsoluteValue.Basic
import Mathlib.Tactic.Ring
import Mathlib.Tactic.Linarith
import Mathlib.Tactic.FieldSimp

namespace Onsager.C10

theorem rabs_eq_abs (x : ℚ) : rabs x = |x| := by
  unfold rabs
  split
  · next h => rw [abs_of_neg h]
  · next h => rw [abs_of_nonneg (not_lt.mp h)]

/-- residual for a *total* two-point function: the left lattice operator minus the delta -/
def residualT (net : Network) (G : Nat → Nat → List ℚ → ℚ) (i j : Nat) (z : List ℚ) : ℚ :=
  ((net.stencil i).map fun t => t.1 * G t.2.1 j (vsub z t.2.2)).sum + net.escape i * G i j z - delta i j z

theorem mapM_option_spec {α β : Type} (f : α → Option β) (g : α → β) :
    ∀ (l : List α) (ys : List β), l.mapM f = some ys → (∀ x ∈ l, f x = some (g x)) → ys = l.map g := by
  intro l
  induction l with
  | nil => intro ys h _; simp at h; simp [h]
  | cons a l ih =>
    intro ys h hg
    rw [List.mapM_cons] at h
    have ha := hg a (List.mem_cons_self)
    rw [ha] at h
    cases hl : l.mapM f with
    | none => rw [hl] at h; simp at h
    | some bs =>
      rw [hl] at h
      simp at h
      rw [← h, List.map_cons, ih bs hl (fun x hx => hg x (List.mem_cons_of_mem _ hx))]

theorem mapM_option_some {α β : Type} (f : α → Option β) :
    ∀ (l : List α) (ys : List β), l.mapM f = some ys → ∀ x ∈ l, ∃ y, f x = some y := by
  intro l
  induction l with
  | nil => intro ys _ x hx; cases hx
  | cons a l ih =>
    intro ys h x hx
    rw [List.mapM_cons] at h
    cases ha : f a with
    | none => rw [ha] at h; simp at h
    | some b =>
      rw [ha] at h
      cases hl : l.mapM f with
      | none => rw [hl] at h; simp at h
      | some bs =>
        rcases List.mem_cons.mp hx with rfl | hx
        · exact ⟨b, ha⟩
        · exact ih bs hl x hx

/-- `residual_spec`: when the checker produces a residual, every value of the stencil was supplied,
    and the residual is the lattice operator applied to ANY total extension of the patch. -/
theorem residual_spec (net : Network) (G : Nat → Nat → List ℚ → Option ℚ) (Gt : Nat → Nat → List ℚ → ℚ)
    (hext : ∀ i j z v, G i j z = some v → Gt i j z = v)
    (i j : Nat) (z : List ℚ) (r : ℚ) (h : residual net G i j z = some r) :
    r = residualT net Gt i j z := by
  unfold residual at h
  cases h0 : G i j z with
  | none => rw [h0] at h; simp at h
  | some g0 =>
    rw [h0] at h
    cases hm : (net.stencil i).mapM (fun t => (G t.2.1 j (vsub z t.2.2)).map (t.1 * ·)) with
    | none => simp [hm] at h
    | some terms =>
      simp [hm] at h
      have hsome := mapM_option_some _ _ _ hm
      have hterms : terms = (net.stencil i).map fun t => t.1 * Gt t.2.1 j (vsub z t.2.2) := by
        apply mapM_option_spec _ _ _ _ hm
        intro t ht
        obtain ⟨y, hy⟩ := hsome t ht
        cases hg : G t.2.1 j (vsub z t.2.2) with
        | none => rw [hg] at hy; simp at hy
        | some v => simp [hext _ _ _ _ hg]
      unfold residualT
      rw [← h, hterms, hext _ _ _ _ h0]

/-- `residualOK_sound`: the decision is sound — every requested point is interior to the patch and
    its exact residual is within the tolerance supplied for it. -/
theorem residualOK_sound (net : Network) (G : Nat → Nat → List ℚ → Option ℚ) (pts : List Pt)
    (h : residualOK net G pts = true) :
    ∀ p ∈ pts, ∃ r, residual net G p.i p.j p.z = some r ∧ |r| ≤ p.tol := by
  intro p hp
  have := (List.all_eq_true.mp h) p hp
  unfold ptOK at this
  cases hr : residual net G p.i p.j p.z with
  | none => rw [hr] at this; simp at this
  | some r =>
    rw [hr] at this
    refine ⟨r, rfl, ?_⟩
    rw [← rabs_eq_abs]
    simpa using this

/-- Full-strength statement, NOT proved: an implementation `impl` (network ↦ two-point function)
    satisfies the lattice equation within `tol` at every separation of every valid network. -/
def C10_full (impl : Network → Nat → Nat → List ℚ → ℚ) (tol : Network → ℚ) : Prop :=
  ∀ net : Network, net.valid = true → ∀ i j z, i < net.n → j < net.n →
    |residualT net (impl net) i j z| ≤ tol net

/-- `C10_partial`: what the verified checker establishes on each run — on the finite set of points
    it accepted, the implementation's values (any total function extending the supplied patch)
    satisfy the lattice equation within the tolerance of each point. -/
theorem C10_partial (net : Network) (patch : Patch) (Gt : Nat → Nat → List ℚ → ℚ)
    (hext : ∀ i j z v, patch.fn i j z = some v → Gt i j z = v) (pts : List Pt)
    (h : residualOK net patch.fn pts = true) :
    ∀ p ∈ pts, |residualT net Gt p.i p.j p.z| ≤ p.tol := by
  intro p hp
  obtain ⟨r, hr, hb⟩ := residualOK_sound net patch.fn pts h p hp
  rw [← residual_spec net patch.fn Gt hext p.i p.j p.z r hr]
  exact hb

/-! ### 1/λ scaling at the level of the model -/

def scaleNet (lam : ℚ) (net : Network) : Network := { net with preT := net.preT.map (lam * ·) }

theorem getD_scale (lam : ℚ) (l : List ℚ) (k : Nat) : (l.map (lam * ·)).getD k 0 = lam * l.getD k 0 := by
  rw [List.getD_eq_getElem?_getD, List.getD_eq_getElem?_getD, List.getElem?_map]
  cases l[k]? <;> simp

theorem symmrate_scale (lam : ℚ) (net : Network) (k : Nat) :
    (scaleNet lam net).symmrate k = lam * net.symmrate k := by
  unfold Network.symmrate
  show (match (net.jumps.getD k []).head? with
    | none => (0 : ℚ)
    | some (i, j, _) => (net.preT.map (lam * ·)).getD k 0 * _ / _) = _
  cases (net.jumps.getD k []).head? with
  | none => simp
  | some a =>
    obtain ⟨i, j, dx⟩ := a
    simp only [getD_scale]
    show lam * net.preT.getD k 0 * qpow net.qh (net.en i + net.en j - net.eneT.getD k 0) / (net.sp i * net.sp j) = _
    ring

theorem rateOut_scale (lam : ℚ) (net : Network) (k i : Nat) :
    (scaleNet lam net).rateOut k i = lam * net.rateOut k i := by
  unfold Network.rateOut
  show (net.preT.map (lam * ·)).getD k 0 * qpow net.qh (2 * net.en i - net.eneT.getD k 0) / (net.sp i * net.sp i) = _
  rw [getD_scale]; ring

theorem sum_map_mul_left' {α : Type} (l : List α) (f : α → ℚ) (c : ℚ) :
    (l.map fun x => c * f x).sum = c * (l.map f).sum := by
  induction l with
  | nil => simp
  | cons a l ih => simp [ih, mul_add]

theorem escape_scale (lam : ℚ) (net : Network) (i : Nat) :
    (scaleNet lam net).escape i = lam * net.escape i := by
  unfold Network.escape
  have hc : (scaleNet lam net).classes = net.classes := rfl
  rw [hc, mul_neg, ← sum_map_mul_left']
  congr 2
  refine List.map_congr_left fun x _ => ?_
  obtain ⟨k, cls⟩ := x
  simp only [rateOut_scale]; ring

theorem stencil_scale (lam : ℚ) (net : Network) (i : Nat) :
    (scaleNet lam net).stencil i = (net.stencil i).map fun t => (lam * t.1, t.2) := by
  unfold Network.stencil
  have hc : (scaleNet lam net).classes = net.classes := rfl
  rw [hc, List.map_flatMap]
  congr 1
  funext ⟨k, cls⟩
  simp only [symmrate_scale, List.map_map]
  rfl

/-- `residual_scale`: scaling every transition prefactor (hence every rate) by `λ ≠ 0` and the
    two-point function by `1/λ` leaves the residual unchanged — `G ↦ G/λ` is forced. -/
theorem residual_scale (lam : ℚ) (hl : lam ≠ 0) (net : Network) (G : Nat → Nat → List ℚ → ℚ)
    (i j : Nat) (z : List ℚ) :
    residualT (scaleNet lam net) (fun i j z => G i j z / lam) i j z = residualT net G i j z := by
  unfold residualT
  rw [stencil_scale, escape_scale, List.map_map]
  congr 2
  · congr 1
    refine List.map_congr_left fun t _ => ?_
    simp only [Function.comp]
    field_simp
  · field_simp

/-- non-vacuity: the exact solution `G(n) = |n|/2` of the unit-rate 1-D chain passes the checker
    with zero tolerance at the source and at an interior point; a wrong value is rejected. -/
def chainNet : Network :=
  { n := 1, dim := 1, qh := 3/2, invmap := [0], spre := [1], ene := [0], preT := [1], eneT := [0],
    jumps := [[(0, 0, [1]), (0, 0, [-1])]] }
def chainPatch : Patch :=
  [((0,0,[-2]), 1), ((0,0,[-1]), 1/2), ((0,0,[0]), 0), ((0,0,[1]), 1/2), ((0,0,[2]), 1)]
def chainPatchBad : Patch :=
  [((0,0,[-2]), 1), ((0,0,[-1]), 1/2), ((0,0,[0]), 1/100), ((0,0,[1]), 1/2), ((0,0,[2]), 1)]

example : chainNet.valid = true := by decide +kernel
example : residualOK chainNet chainPatch.fn [⟨0, 0, [0], 0⟩, ⟨0, 0, [1], 0⟩] = true := by decide +kernel
example : residualOK chainNet chainPatchBad.fn [⟨0, 0, [0], 1/100⟩] = false := by decide +kernel
example : residualOK chainNet chainPatch.fn [⟨0, 0, [2], 1⟩] = false := by decide +kernel

end Onsager.C10
