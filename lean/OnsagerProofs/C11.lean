/-
  C11 — the derivative outputs of the interstitial calculator are true (formal) derivatives.

  Setting: the site-space, ρ-weighted rate equation of OnsagerModel/C02.lean / Lemmas/Variational.lean.
  A network is a list of jumps `(src, dst, d, r, e)`, `r = ρ_src·w`, `d`/`e` the jump vector projected
  on two directions `u`/`v`;  `u·D·v = ½ Σ r (d+Δξ)(e+Δζ)` at stationary `ξ`, `ζ`.
  First-order data is attached to every jump (`PJump`): `t` (transition-state exponent: `βE_T` or
  `P_T:e`), `g`/`h` (first-order change of `d`/`e`), and the network is run over the dual numbers.

  * `r_eps`                       product rule on `ρ_i · w_a` with `exp` on dual numbers: if site exponents move by
                                  `ε b_i` and the transition-state exponent by `ε b_T` then `r′ = r (b_T − b̄)`
  * `envelope_dual`               ENVELOPE: the ε-part of `Σ R (D+ΔΞ)(E+ΔZ)` over `Dual K` at a point whose real part
                                  is stationary is `Σ r′(d+Δξ)(e+Δζ) + r d′(e+Δζ) + r (d+Δξ) e′` — whatever `ξ′`, `ζ′`
  * `code_layout_eq`              the formula the code evaluates (`Db`, lines 397–433; rate part of `Dp`, 497–527),
                                  written in site space, equals `½ Σ r (t − c)(d+Δξ)(e+Δζ)`
  * `DE_is_minus_dDdbeta`         hence `Db = −(ε-part of D at β(1+ε))`
  * `elasto_is_strain_derivative` and `Dp:e = ε-part of D` under `E ↦ E − εP:e`, `dx ↦ (1+εe)dx`, the geometric part
                                  being `D(eᵀu, v) + D(u, eᵀv)` (lines 529–537: the four `½ D0 δ` terms)
  Gap (not formalised): the formal dual-number derivative of a rational function of `exp`s is its analytic derivative.
-/
import OnsagerProofs.C11Dual
import OnsagerProofs.Lemmas.Variational
import OnsagerModel.C11
import OnsagerProofs.C02

namespace Onsager.C11
open Onsager Onsager.Var

variable {ι K : Type} [Fintype ι] [DecidableEq ι]
variable [Field K] [LinearOrder K] [IsStrictOrderedRing K]

/-! ### product rule on the ρ-weighted rate -/

omit [DecidableEq ι] [LinearOrder K] [IsStrictOrderedRing K] in
/-- **r_eps.**  Site weights `W_i = pre_i·exp(a_i + ε b_i)`, partition sum `Z = Σ W_i`, `ρ_i Z = W_i`,
    rate `w·W_i = preT·exp(a_T + ε b_T)` (all in `Dual K`, `exp` by `Dual.scaleExp`).  Then the
    ε-part of `ρ_i w` is `ρ_i w (b_T − b̄)` with `b̄ = Σ_j ρ_j b_j`.
    (`β ↦ β(1+ε)`: `b = −βE`, so `r′ = −r(βE_T − βĒ)`; strain: `b = P:e`.) -/
theorem r_eps (pre x b : ι → K) (preT xT bT : K) (ρd : ι → Dual K) (Zd wd : Dual K) (i : ι)
    (hZ : Zd = ∑ j, Dual.const (pre j) * Dual.scaleExp (x j) (b j))
    (hρ : ∀ j, ρd j * Zd = Dual.const (pre j) * Dual.scaleExp (x j) (b j))
    (hw : wd * (Dual.const (pre i) * Dual.scaleExp (x i) (b i)) = Dual.const preT * Dual.scaleExp xT bT)
    (hZ0 : Zd.re ≠ 0) (hi0 : pre i * x i ≠ 0) :
    (ρd i * wd).eps = (ρd i).re * wd.re * (bT - ∑ j, (ρd j).re * b j) := by
  have hZre : Zd.re = ∑ j, pre j * x j := by
    rw [hZ, Dual.finset_sum_re]; simp [Dual.const, Dual.scaleExp]
  have hZeps : Zd.eps = ∑ j, pre j * (x j * b j) := by
    rw [hZ, Dual.finset_sum_eps]; simp [Dual.const, Dual.scaleExp]
  have hρre : ∀ j, (ρd j).re * Zd.re = pre j * x j := by
    intro j; have := congrArg Dual.re (hρ j); simpa [Dual.const, Dual.scaleExp] using this
  have hρeps : ∀ j, (ρd j).re * Zd.eps + (ρd j).eps * Zd.re = pre j * (x j * b j) := by
    intro j; have := congrArg Dual.eps (hρ j); simpa [Dual.const, Dual.scaleExp] using this
  have hwre : wd.re * (pre i * x i) = preT * xT := by
    have := congrArg Dual.re hw; simpa [Dual.const, Dual.scaleExp] using this
  have hweps : wd.re * (pre i * (x i * b i)) + wd.eps * (pre i * x i) = preT * (xT * bT) := by
    have := congrArg Dual.eps hw; simpa [Dual.const, Dual.scaleExp] using this
  -- Z′ = Z b̄
  have hbar : Zd.eps = Zd.re * ∑ j, (ρd j).re * b j := by
    rw [hZeps, Finset.mul_sum]
    refine Finset.sum_congr rfl fun j _ => ?_
    linear_combination (-(b j)) * hρre j
  -- ρ′ = ρ (b_i − b̄)
  have h1 : (ρd i).eps = (ρd i).re * (b i - ∑ j, (ρd j).re * b j) := by
    apply mul_right_cancel₀ hZ0
    have := hρeps i
    rw [hbar] at this
    linear_combination this - b i * hρre i
  -- w′ = w (b_T − b_i)
  have h2 : wd.eps = wd.re * (bT - b i) := by
    apply mul_right_cancel₀ hi0
    linear_combination hweps - bT * hwre
  simp only [Dual.mul_eps]
  rw [h1, h2]; ring

/-! ### jumps with first-order data, networks over the dual numbers -/

omit [Fintype ι] [DecidableEq ι] [LinearOrder K] [IsStrictOrderedRing K] in
theorem base_rev_perm (L : List (PJump ι K)) (hp : (L.map PJump.rev).Perm L) :
    ((base L).map Jump.rev).Perm (base L) := by
  have : (base L).map Jump.rev = (L.map PJump.rev).map PJump.j := by
    simp [base, List.map_map, Function.comp_def, PJump.rev]
  rw [this]; exact hp.map _

/-- dual-number network: rate `r + ε r′`, projections `d + ε g`, `e + ε h` -/
structure DJump (ι K : Type) where
  j : Jump ι K
  r' : K
  d' : K
  e' : K

/-- twice the bilinear transport functional, evaluated in `Dual K` -/
def Q2D (L : List (DJump ι K)) (Ξ Z : ι → Dual K) : Dual K :=
  (L.map fun a => (⟨a.j.r, a.r'⟩ : Dual K) * (⟨a.j.d, a.d'⟩ + Ξ a.j.dst - Ξ a.j.src)
                    * (⟨a.j.e, a.e'⟩ + Z a.j.dst - Z a.j.src)).sum

/-- twice the bilinear transport functional over `K` -/
def Q2 (l : List (Jump ι K)) (ξ ζ : ι → K) : K :=
  (l.map fun a => a.r * (a.d + ξ a.dst - ξ a.src) * (a.e + ζ a.dst - ζ a.src)).sum

omit [Fintype ι] [DecidableEq ι] [LinearOrder K] [IsStrictOrderedRing K] in
theorem Q2D_re (L : List (DJump ι K)) (Ξ Z : ι → Dual K) :
    (Q2D L Ξ Z).re = Q2 (L.map DJump.j) (fun i => (Ξ i).re) (fun i => (Z i).re) := by
  unfold Q2D Q2
  rw [Dual.list_sum_re, List.map_map, List.map_map]
  rfl

omit [LinearOrder K] [IsStrictOrderedRing K] in
/-- stationarity weighted by any site function -/
theorem stat_weighted (l : List (Jump ι K)) (ξ : ι → K) (hs : Stationary l ξ) (f : ι → K) :
    (l.map fun a => flux ξ a * f a.src).sum = 0 := by
  rw [sum_by_src]
  apply Finset.sum_eq_zero
  intro i _
  rw [hs i, mul_zero]

omit [LinearOrder K] [IsStrictOrderedRing K] in
/-- **ENVELOPE** (dual-number form).  At a point whose real part solves the two rate equations, the
    ε-part of the transport functional does not involve the ε-parts `ξ′`, `ζ′` of the point:
    only the explicit dependence of rates and jump vectors contributes. -/
theorem envelope_dual (L : List (DJump ι K))
    (hp : ((L.map DJump.j).map Jump.rev).Perm (L.map DJump.j)) (Ξ Z : ι → Dual K)
    (hs : Stationary (L.map DJump.j) (fun i => (Ξ i).re))
    (hz : Stationary ((L.map DJump.j).map Jump.swap) (fun i => (Z i).re)) :
    (Q2D L Ξ Z).eps
      = (L.map fun a =>
          a.r' * (a.j.d + (Ξ a.j.dst).re - (Ξ a.j.src).re) * (a.j.e + (Z a.j.dst).re - (Z a.j.src).re)
          + a.j.r * a.d' * (a.j.e + (Z a.j.dst).re - (Z a.j.src).re)
          + a.j.r * (a.j.d + (Ξ a.j.dst).re - (Ξ a.j.src).re) * a.e').sum := by
  have c1 := cross_zero (L.map DJump.j) hp (fun i => (Ξ i).re) (fun i => (Z i).eps) hs
  have c2 := cross_zero ((L.map DJump.j).map Jump.swap) (rev_perm_swap _ hp)
    (fun i => (Z i).re) (fun i => (Ξ i).eps) hz
  rw [List.map_map, List.map_map] at c2
  rw [List.map_map] at c1
  unfold Q2D
  rw [Dual.list_sum_eps, List.map_map]
  refine Eq.trans (b := (L.map fun a =>
          a.r' * (a.j.d + (Ξ a.j.dst).re - (Ξ a.j.src).re) * (a.j.e + (Z a.j.dst).re - (Z a.j.src).re)
          + a.j.r * a.d' * (a.j.e + (Z a.j.dst).re - (Z a.j.src).re)
          + a.j.r * (a.j.d + (Ξ a.j.dst).re - (Ξ a.j.src).re) * a.e').sum
      + (L.map ((fun a => flux (fun i => (Ξ i).re) a * ((Z a.dst).eps - (Z a.src).eps)) ∘ DJump.j)).sum
      + (L.map (((fun a => flux (fun i => (Z i).re) a * ((Ξ a.dst).eps - (Ξ a.src).eps)) ∘ Jump.swap)
            ∘ DJump.j)).sum) ?_ ?_
  · rw [← List.sum_map_add, ← List.sum_map_add]
    congr 1
    apply List.map_congr_left
    intro a _
    simp only [Function.comp, Dual.mul_eps, Dual.mul_re, Dual.add_re, Dual.sub_re, Dual.add_eps,
      Dual.sub_eps, flux, Jump.swap]
    ring
  · rw [c1, c2]; ring

/-! ### the layout of the code's formula -/

/-- The per-jump terms the code accumulates for `Db` (lines 410–415, 429–433) and for the rate part
    of `Dp[:,:,c,d]` (lines 502–507, 519–527), written in site space with `ξ = −γ/√ρ`:
      `½ dx dx ρ w (t − c)`                                              (`Db +=`, `Dp +=`)
      `dbias·γ`, `γ·dbias` with `dbias_i = √ρ_i w dx (t − ½(σ_i + c))`
      `−γ·domega·γ` with `domega_ij = ω_ij (t − ½(σ_i+σ_j))`, `domega_ii = −w (t − σ_i)`.
    `t` = transition-state value, `σ` = site values, `c` = their thermal average. -/
def codeTerm (σ : ι → K) (c : K) (ξ ζ : ι → K) (a : PJump ι K) : K :=
  a.j.r * (a.t - c) * a.j.d * a.j.e / 2
  - a.j.r * a.j.d * (a.t - (σ a.j.src + c) / 2) * ζ a.j.src
  - a.j.r * a.j.e * (a.t - (σ a.j.src + c) / 2) * ξ a.j.src
  - a.j.r * ((a.t - (σ a.j.src + σ a.j.dst) / 2) * ξ a.j.src * ζ a.j.dst
              - (a.t - σ a.j.src) * ξ a.j.src * ζ a.j.src)

def codeDb (L : List (PJump ι K)) (σ : ι → K) (c : K) (ξ ζ : ι → K) : K :=
  (L.map (codeTerm σ c ξ ζ)).sum

omit [Fintype ι] [DecidableEq ι] [LinearOrder K] [IsStrictOrderedRing K] in
theorem psum_rev (L : List (PJump ι K)) (hp : (L.map PJump.rev).Perm L) (g : PJump ι K → K) :
    (L.map fun a => g a.rev).sum = (L.map g).sum := by
  have : (L.map fun a => g a.rev) = (L.map PJump.rev).map g := by
    simp [List.map_map, Function.comp_def]
  rw [this]
  exact (hp.map g).sum_eq

/-- **code_layout_eq.**  For any site values `σ`, constant `c` and reversal-invariant jump values `t`
    the code's formula equals `½ Σ r (t − c)(d+Δξ)(e+Δζ)`. -/
theorem code_layout_eq (L : List (PJump ι K)) (hp : (L.map PJump.rev).Perm L)
    (σ : ι → K) (c : K) (ξ ζ : ι → K)
    (hs : Stationary (base L) ξ) (hz : Stationary ((base L).map Jump.swap) ζ) :
    codeDb L σ c ξ ζ
      = (L.map fun a => a.j.r * (a.t - c) * (a.j.d + ξ a.j.dst - ξ a.j.src)
                          * (a.j.e + ζ a.j.dst - ζ a.j.src)).sum / 2 := by
  -- reversal identities, as sums of `g(rev a) − g(a)`
  have R := fun g => psum_rev L hp g
  have r1 := R fun a => a.j.r * (a.t - c) * a.j.d * ζ a.j.dst
  have r2 := R fun a => a.j.r * (a.t - c) * a.j.e * ξ a.j.dst
  have r3 := R fun a => a.j.r * (a.t - c) * ξ a.j.dst * ζ a.j.dst
  have r4 := R fun a => a.j.r * (a.t - c) * ξ a.j.dst * ζ a.j.src
  have r5 := R fun a => a.j.r * (c - σ a.j.dst) * ξ a.j.src * ζ a.j.dst
  -- stationarity, weighted by `(c − σ_i) ζ_i` resp. `(c − σ_i) ξ_i`
  have s1 := stat_weighted (base L) ξ hs (fun i => (c - σ i) * ζ i)
  have s2 := stat_weighted ((base L).map Jump.swap) ζ hz (fun i => (c - σ i) * ξ i)
  simp only [base, List.map_map] at s1 s2
  simp only [PJump.rev, Jump.rev] at r1 r2 r3 r4 r5
  unfold codeDb
  have h2 : (2 : K) ≠ 0 := two_ne_zero
  rw [eq_div_iff h2]
  -- combine everything into one sum and compare term by term
  have key : (L.map (codeTerm σ c ξ ζ)).sum * 2
      - (L.map fun a => a.j.r * (a.t - c) * (a.j.d + ξ a.j.dst - ξ a.j.src)
                          * (a.j.e + ζ a.j.dst - ζ a.j.src)).sum
      = ((L.map fun a => a.j.r * (a.t - c) * -a.j.d * ζ a.j.src).sum
          - (L.map fun a => a.j.r * (a.t - c) * a.j.d * ζ a.j.dst).sum)
        + ((L.map fun a => a.j.r * (a.t - c) * -a.j.e * ξ a.j.src).sum
          - (L.map fun a => a.j.r * (a.t - c) * a.j.e * ξ a.j.dst).sum)
        + ((L.map fun a => a.j.r * (a.t - c) * ξ a.j.src * ζ a.j.src).sum
          - (L.map fun a => a.j.r * (a.t - c) * ξ a.j.dst * ζ a.j.dst).sum)
        - ((L.map fun a => a.j.r * (a.t - c) * ξ a.j.src * ζ a.j.dst).sum
          - (L.map fun a => a.j.r * (a.t - c) * ξ a.j.dst * ζ a.j.src).sum)
        + ((L.map fun a => a.j.r * (c - σ a.j.src) * ξ a.j.dst * ζ a.j.src).sum
          - (L.map fun a => a.j.r * (c - σ a.j.dst) * ξ a.j.src * ζ a.j.dst).sum)
        - (L.map ((fun a => flux ξ a * ((c - σ a.src) * ζ a.src)) ∘ PJump.j)).sum
        - (L.map ((fun a => flux ζ a * ((c - σ a.src) * ξ a.src)) ∘ Jump.swap ∘ PJump.j)).sum := by
    rw [← List.sum_map_mul_right]
    simp only [← sum_map_sub', ← List.sum_map_add]
    congr 1
    apply List.map_congr_left
    intro a _
    simp only [codeTerm, Function.comp, flux, Jump.swap]
    field_simp
    ring
  rw [r1, r2, r3, r4, r5] at key
  have s2' : (L.map ((fun a => flux ζ a * ((c - σ a.src) * ξ a.src)) ∘ Jump.swap ∘ PJump.j)).sum = 0 := by
    rw [← s2]
  rw [s1, s2'] at key
  linear_combination key

/-! ### the two derivative theorems -/

/-- first-order data for `β ↦ β(1+ε)`: `r′ = −r (βE_T − βĒ)`, jump vectors fixed -/
def betaD (c : K) (a : PJump ι K) : DJump ι K := ⟨a.j, -(a.j.r * (a.t - c)), 0, 0⟩

/-- first-order data for a strain `e`: `r′ = r (P_T:e − P̄:e)`, `d′ = g`, `e′ = h` -/
def strainD (c : K) (a : PJump ι K) : DJump ι K := ⟨a.j, a.j.r * (a.t - c), a.g, a.h⟩

/-- **C11, activation-barrier tensor.**  `σ_i = βE_i`, `t = βE_T`, `c = βĒ`: the formula evaluated by
    `Interstitial.diffusivity(CalcDeriv=True)` is minus the ε-part of `u·D·v` when every rate is
    re-evaluated at `β(1+ε)` (`r_eps`), at any dual point whose real part solves the rate equations. -/
theorem DE_is_minus_dDdbeta (L : List (PJump ι K)) (hp : (L.map PJump.rev).Perm L)
    (σ : ι → K) (c : K) (Ξ Z : ι → Dual K)
    (hs : Stationary (base L) (fun i => (Ξ i).re))
    (hz : Stationary ((base L).map Jump.swap) (fun i => (Z i).re)) :
    codeDb L σ c (fun i => (Ξ i).re) (fun i => (Z i).re)
      = - (Q2D (L.map (betaD c)) Ξ Z).eps / 2 := by
  have hb : (L.map (betaD c)).map DJump.j = base L := by
    simp [base, List.map_map, Function.comp_def, betaD]
  have henv := envelope_dual (L.map (betaD c)) (by rw [hb]; exact base_rev_perm L hp) Ξ Z
    (by rw [hb]; exact hs) (by rw [hb]; exact hz)
  rw [henv, code_layout_eq L hp σ c _ _ hs hz, List.map_map, ← sum_map_neg']
  congr 2
  apply List.map_congr_left
  intro a _
  simp only [Function.comp, betaD]
  ring

omit [LinearOrder K] [IsStrictOrderedRing K] in
theorem lin_B (m : List (Jump ι K)) (hm : (m.map Jump.rev).Perm m) (η : ι → K) :
    (m.map fun a => a.r * a.d * (η a.dst - η a.src)).sum = - (2 * ∑ i, η i * B m i) := by
  have hB : ∑ i, η i * B m i = (m.map fun a => (a.r * a.d) * η a.src).sum := by
    rw [sum_by_src]; rfl
  have hdst : (m.map fun a => (a.r * a.d) * η a.dst).sum
      = - (m.map fun a => (a.r * a.d) * η a.src).sum := by
    rw [← sum_rev m hm (fun a => (a.r * a.d) * η a.dst), ← sum_map_neg']
    congr 1
    apply List.map_congr_left
    intro a _
    simp only [Jump.rev]
    ring
  have : (m.map fun a => a.r * a.d * (η a.dst - η a.src)).sum
      = (m.map fun a => (a.r * a.d) * η a.dst).sum - (m.map fun a => (a.r * a.d) * η a.src).sum := by
    rw [← sum_map_sub']
    congr 1
    apply List.map_congr_left
    intro a _
    ring
  rw [this, hdst, hB]; ring

/-- the model's bilinear form `½ Σ r d e − Σ_i ξ_i B^e_i` (OnsagerModel/C02.lean `form`) -/
def formVal (l : List (Jump ι K)) (ξ : ι → K) : K :=
  (l.map fun a => a.r * a.d * a.e).sum / 2 - ∑ i, ξ i * B (l.map Jump.swap) i

/-- the value of the bilinear functional at stationary points is the model's `form` -/
theorem Q2_stationary_eq (l : List (Jump ι K)) (hp : (l.map Jump.rev).Perm l) (ξ ζ : ι → K)
    (hs : Stationary l ξ) : Q2 l ξ ζ / 2 = formVal l ξ := by
  have c1 := cross_zero l hp ξ ζ hs
  have k := lin_B (l.map Jump.swap) (rev_perm_swap l hp) ξ
  rw [List.map_map] at k
  unfold Q2 formVal
  have e1 : (l.map fun a => a.r * (a.d + ξ a.dst - ξ a.src) * (a.e + ζ a.dst - ζ a.src)).sum
      = (l.map fun a => a.r * a.d * a.e).sum
        + (l.map ((fun a => a.r * a.d * (ξ a.dst - ξ a.src)) ∘ Jump.swap)).sum
        + (l.map fun a => flux ξ a * (ζ a.dst - ζ a.src)).sum := by
    rw [← List.sum_map_add, ← List.sum_map_add]
    congr 1
    apply List.map_congr_left
    intro a _
    simp only [Function.comp, flux, Jump.swap]
    ring
  rw [e1, c1, k]
  have h2 : (2 : K) ≠ 0 := two_ne_zero
  field_simp
  ring

/-- replace the first projection by its first-order change `g` (direction `eᵀu`) -/
def withG (a : PJump ι K) : Jump ι K := ⟨a.j.src, a.j.dst, a.g, a.j.r, a.j.e⟩
/-- replace the second projection by `h` (direction `eᵀv`) and exchange: `d := h`, `e := d` -/
def withH (a : PJump ι K) : Jump ι K := ⟨a.j.src, a.j.dst, a.h, a.j.r, a.j.d⟩

/-- **C11, elastodiffusion.**  `σ_i = P_i:e`, `t = P_T:e`, `c = P̄:e`, `g = (eᵀu)·dx`, `h = (eᵀv)·dx`:
    the ε-part of `u·D·v` under `E_i ↦ E_i − εP_i:e`, `E_T ↦ E_T − εP_T:e`, `dx ↦ (1+εe)dx` is the code's
    rate part (`codeDb`, lines 497–527) plus the geometric part `D(eᵀu, v) + D(u, eᵀv)`, each of the
    latter two being a value of the model's bilinear form (lines 529–537 after contraction with `e`). -/
theorem elasto_is_strain_derivative (L : List (PJump ι K)) (hp : (L.map PJump.rev).Perm L)
    (σ : ι → K) (c : K) (Ξ Z : ι → Dual K)
    (hs : Stationary (base L) (fun i => (Ξ i).re))
    (hz : Stationary ((base L).map Jump.swap) (fun i => (Z i).re)) :
    (Q2D (L.map (strainD c)) Ξ Z).eps / 2
      = codeDb L σ c (fun i => (Ξ i).re) (fun i => (Z i).re)
        + ((L.map fun a => a.j.r * a.g * a.j.e).sum / 2
            - ∑ i, (Z i).re * B (L.map withG) i)
        + ((L.map fun a => a.j.r * a.j.d * a.h).sum / 2
            - ∑ i, (Ξ i).re * B (L.map withH) i) := by
  have hb : (L.map (strainD c)).map DJump.j = base L := by
    simp [base, List.map_map, Function.comp_def, strainD]
  have henv := envelope_dual (L.map (strainD c)) (by rw [hb]; exact base_rev_perm L hp) Ξ Z
    (by rw [hb]; exact hs) (by rw [hb]; exact hz)
  have hG : ((L.map withG).map Jump.rev).Perm (L.map withG) := by
    have : (L.map withG).map Jump.rev = (L.map PJump.rev).map withG := by
      simp [List.map_map, Function.comp_def, withG, PJump.rev, Jump.rev]
    rw [this]; exact hp.map _
  have hH : ((L.map withH).map Jump.rev).Perm (L.map withH) := by
    have : (L.map withH).map Jump.rev = (L.map PJump.rev).map withH := by
      simp [List.map_map, Function.comp_def, withH, PJump.rev, Jump.rev]
    rw [this]; exact hp.map _
  have kG := lin_B (L.map withG) hG (fun i => (Z i).re)
  have kH := lin_B (L.map withH) hH (fun i => (Ξ i).re)
  rw [List.map_map] at kG kH
  rw [henv, code_layout_eq L hp σ c _ _ hs hz, List.map_map]
  have split : (L.map ((fun a : DJump ι K =>
          a.r' * (a.j.d + (Ξ a.j.dst).re - (Ξ a.j.src).re) * (a.j.e + (Z a.j.dst).re - (Z a.j.src).re)
          + a.j.r * a.d' * (a.j.e + (Z a.j.dst).re - (Z a.j.src).re)
          + a.j.r * (a.j.d + (Ξ a.j.dst).re - (Ξ a.j.src).re) * a.e') ∘ strainD c)).sum
      = (L.map fun a => a.j.r * (a.t - c) * (a.j.d + (Ξ a.j.dst).re - (Ξ a.j.src).re)
                          * (a.j.e + (Z a.j.dst).re - (Z a.j.src).re)).sum
        + ((L.map fun a => a.j.r * a.g * a.j.e).sum
            + (L.map ((fun a => a.r * a.d * ((Z a.dst).re - (Z a.src).re)) ∘ withG)).sum)
        + ((L.map fun a => a.j.r * a.j.d * a.h).sum
            + (L.map ((fun a => a.r * a.d * ((Ξ a.dst).re - (Ξ a.src).re)) ∘ withH)).sum) := by
    simp only [← List.sum_map_add]
    congr 1
    apply List.map_congr_left
    intro a _
    simp only [Function.comp, strainD, withG, withH]
    ring
  rw [split, kG, kH]
  ring

/-! ### the executable model returns these values -/

/-- first-order data with rates only: `r′ = r (t − c)` -/
def rateD (c : K) (a : PJump ι K) : DJump ι K := ⟨a.j, a.j.r * (a.t - c), 0, 0⟩

/-- **Model soundness.**  When `dvalue` answers, the jump values are reversal invariant, both points are
    stationary, and the answer is what the code's formula evaluates to — for *any* site values `σ`. -/
theorem dvalue_sound {n : Nat} (L : List (PJump (Fin n) ℚ)) (c : ℚ) (ξ ζ : Fin n → ℚ) (x : ℚ)
    (h : dvalue L c ξ ζ = some x) :
    (L.map PJump.rev).Perm L ∧ Stationary (base L) ξ ∧ Stationary ((base L).map Jump.swap) ζ
      ∧ ∀ σ : Fin n → ℚ, x = codeDb L σ c ξ ζ := by
  unfold dvalue at h
  split at h
  · rename_i hc
    obtain ⟨h1, h2, h3⟩ := hc
    cases h
    have hp := List.isPerm_iff.1 h1
    refine ⟨hp, h2, h3, fun σ => ?_⟩
    rw [code_layout_eq L hp σ c ξ ζ h2 h3]
    rfl
  · cases h

/-- … and it is the ε-part (halved) of the transport functional over the dual numbers with
    `r′ = r (t − c)` at any dual point above `(ξ, ζ)`: with `t = βE_T`, `c = βĒ` it is `−dD/dβ`·β
    (`DE_is_minus_dDdbeta`), with `t = P_T:e`, `c = P̄:e` the rate part of `dD/de`. -/
theorem dvalue_is_derivative {n : Nat} (L : List (PJump (Fin n) ℚ)) (c : ℚ) (Ξ Z : Fin n → Dual ℚ) (x : ℚ)
    (h : dvalue L c (fun i => (Ξ i).re) (fun i => (Z i).re) = some x) :
    x = (Q2D (L.map (rateD c)) Ξ Z).eps / 2 ∧ x = - (Q2D (L.map (betaD c)) Ξ Z).eps / 2 := by
  obtain ⟨hp, hs, hz, hx⟩ := dvalue_sound L c _ _ x h
  refine ⟨?_, ?_⟩
  · have hb : (L.map (rateD c)).map DJump.j = base L := by
      simp [base, List.map_map, Function.comp_def, rateD]
    have henv := envelope_dual (L.map (rateD c)) (by rw [hb]; exact base_rev_perm L hp) Ξ Z
      (by rw [hb]; exact hs) (by rw [hb]; exact hz)
    rw [henv, hx (fun _ => 0), code_layout_eq L hp _ c _ _ hs hz, List.map_map]
    congr 2
    apply List.map_congr_left
    intro a _
    simp only [Function.comp, rateD]
    ring
  · rw [hx (fun _ => 0)]
    exact DE_is_minus_dDdbeta L hp _ c Ξ Z hs hz

/-! ### the geometric part, lines 529–537 -/

omit [Fintype ι] [DecidableEq ι] in
/-- The four terms `½(δ_ac D_bd + δ_ad D_bc + δ_bc D_ad + δ_bd D_ac)` contracted with a symmetric
    strain `e` give `(eD + De)_ab`: the first-order change of `(1+e) D (1+e)ᵀ`. -/
theorem geometric_contraction {m : Type} [Fintype m] [DecidableEq m] (D e : m → m → K)
    (hD : ∀ a b, D a b = D b a) (he : ∀ a b, e a b = e b a) (a b : m) :
    ∑ c, ∑ d, ((if a = c then D b d / 2 else 0) + (if a = d then D b c / 2 else 0)
              + (if b = c then D a d / 2 else 0) + (if b = d then D a c / 2 else 0)) * e c d
      = ∑ d, e a d * D d b + ∑ d, D a d * e d b := by
  have h1 : ∑ c, ∑ d, (if a = c then D b d / 2 else 0) * e c d = ∑ d, D b d / 2 * e a d := by
    rw [Finset.sum_eq_single a]
    · simp
    · intro c _ hc; simp [Ne.symm hc]
    · simp
  have h2 : ∑ c, ∑ d, (if a = d then D b c / 2 else 0) * e c d = ∑ c, D b c / 2 * e c a := by
    refine Finset.sum_congr rfl fun c _ => ?_
    rw [Finset.sum_eq_single a]
    · simp
    · intro d _ hd; simp [Ne.symm hd]
    · simp
  have h3 : ∑ c, ∑ d, (if b = c then D a d / 2 else 0) * e c d = ∑ d, D a d / 2 * e b d := by
    rw [Finset.sum_eq_single b]
    · simp
    · intro c _ hc; simp [Ne.symm hc]
    · simp
  have h4 : ∑ c, ∑ d, (if b = d then D a c / 2 else 0) * e c d = ∑ c, D a c / 2 * e c b := by
    refine Finset.sum_congr rfl fun c _ => ?_
    rw [Finset.sum_eq_single b]
    · simp
    · intro d _ hd; simp [Ne.symm hd]
    · simp
  simp only [add_mul, Finset.sum_add_distrib]
  rw [h1, h2, h3, h4, ← Finset.sum_add_distrib, ← Finset.sum_add_distrib, ← Finset.sum_add_distrib,
    ← Finset.sum_add_distrib]
  refine Finset.sum_congr rfl fun d _ => ?_
  rw [hD b d, he d a, he b d]
  ring

/-! ### non-vacuity: the two-site chain of OnsagerProofs/C02.lean with first-order data -/

/-- chain network with `t` = transition-state energies 2 and 3 -/
def chainP : List (PJump (Fin 2) ℚ) :=
  [⟨⟨0, 1, 1/2, 1/6, 1/2⟩, 2, 0, 0⟩, ⟨⟨1, 0, -1/2, 1/6, -1/2⟩, 2, 0, 0⟩,
   ⟨⟨1, 0, 1/2, 1/4, 1/2⟩, 3, 0, 0⟩, ⟨⟨0, 1, -1/2, 1/4, -1/2⟩, 3, 0, 0⟩]

/-- the model answers on it (so all hypotheses of the theorems above hold there), with a non-zero value:
    `D = 1/10`, `Ē = 1/3`, and `−dD/dβ = 31/150 = D·(E_act)` with effective barrier `31/15`. -/
example : dvalue chainP (1/3) C02.chainXi C02.chainXi = some (31/150) := by
  decide +kernel

end Onsager.C11
