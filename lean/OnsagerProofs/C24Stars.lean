/-
  C24 — the star construction (sort by |dx|², split into shells, match against the images of a
  representative) returns a partition of the states into orbits; index lookups; soundness of the
  checkers run on the implementation's output.
-/
import OnsagerProofs.C24Gen
import Mathlib.Data.List.Perm.Subperm

namespace Onsager.C24

/-! ### shell splitting -/

theorem splitFrom_ne_nil {α} (thr : Rat) (key : α → Rat) (x0 : Rat) (l : List α) :
    splitFrom thr key x0 l ≠ [] := by
  cases l with
  | nil => simp [splitFrom]
  | cons a l =>
    simp only [splitFrom]
    split
    · simp
    · cases h : splitFrom thr key x0 l <;> simp [consHead]

theorem consHead_flatten {α} (a : α) (L : List (List α)) : (consHead a L).flatten = a :: L.flatten := by
  cases L <;> simp [consHead]

theorem splitFrom_flatten {α} (thr : Rat) (key : α → Rat) (x0 : Rat) (l : List α) :
    (splitFrom thr key x0 l).flatten = l := by
  induction l generalizing x0 with
  | nil => simp [splitFrom]
  | cons a l ih =>
    simp only [splitFrom]
    split
    · simp [consHead_flatten, ih]
    · simp [consHead_flatten, ih]

theorem splitShells_flatten {α} (thr : Rat) (key : α → Rat) (l : List α) :
    (splitShells thr key l).flatten = l := by
  cases l with
  | nil => simp [splitShells]
  | cons a l => simp only [splitShells]; exact splitFrom_flatten _ _ _ _

/-- every element of the first list has a strictly smaller key than every element of the second -/
def Sep {α} (key : α → Rat) (A B : List α) : Prop := ∀ a ∈ A, ∀ b ∈ B, key a < key b

theorem splitFrom_sep {α} {thr : Rat} (hthr : 0 ≤ thr) (key : α → Rat) :
    ∀ (l : List α) (x0 : Rat), l.Pairwise (fun a b => key a ≤ key b) →
      ∃ H T, splitFrom thr key x0 l = H :: T ∧ (∀ a ∈ H, key a ≤ x0 + thr) ∧
        (∀ S ∈ T, ∀ b ∈ S, x0 + thr < key b) ∧ T.Pairwise (Sep key) := by
  intro l
  induction l with
  | nil => intro x0 _; exact ⟨[], [], rfl, by simp, by simp, List.Pairwise.nil⟩
  | cons a l ih =>
    intro x0 hs
    obtain ⟨hal, hl⟩ := List.pairwise_cons.1 hs
    simp only [splitFrom]
    split
    · rename_i hgt
      obtain ⟨H', T', e, hH, hT, hP⟩ := ih (key a) hl
      have hflat := splitFrom_flatten thr key (key a) l
      rw [e] at hflat
      have memH : ∀ b ∈ H', b ∈ l := fun b hb => by
        rw [← hflat]; simp [hb]
      have memT : ∀ S ∈ T', ∀ b ∈ S, b ∈ l := fun S hS b hb => by
        rw [← hflat]; simp only [List.flatten_cons, List.mem_append, List.mem_flatten]
        exact Or.inr ⟨S, hS, hb⟩
      refine ⟨[], (a :: H') :: T', by rw [e]; rfl, by simp, ?_, ?_⟩
      · intro S hS b hb
        rcases List.mem_cons.1 hS with rfl | hS
        · rcases List.mem_cons.1 hb with rfl | hb
          · exact hgt
          · exact lt_of_lt_of_le hgt (hal b (memH b hb))
        · exact lt_of_lt_of_le hgt (hal b (memT S hS b hb))
      · refine List.pairwise_cons.2 ⟨?_, hP⟩
        intro S hS a' ha' b hb
        have h1 : key a' ≤ key a + thr := by
          rcases List.mem_cons.1 ha' with rfl | ha'
          · linarith
          · exact hH a' ha'
        exact lt_of_le_of_lt h1 (hT S hS b hb)
    · rename_i hle
      obtain ⟨H', T', e, hH, hT, hP⟩ := ih x0 hl
      refine ⟨a :: H', T', by rw [e]; rfl, ?_, hT, hP⟩
      intro a' ha'
      rcases List.mem_cons.1 ha' with rfl | ha'
      · exact not_lt.1 hle
      · exact hH a' ha'

/-- exact keys: whatever the threshold `≥ 0`, elements of different shells have different keys -/
theorem splitShells_sep {α} {thr : Rat} (hthr : 0 ≤ thr) (key : α → Rat) (l : List α)
    (hs : l.Pairwise (fun a b => key a ≤ key b)) : (splitShells thr key l).Pairwise (Sep key) := by
  cases l with
  | nil => simp [splitShells]
  | cons a l =>
    simp only [splitShells]
    obtain ⟨H, T, e, hH, hT, hP⟩ := splitFrom_sep hthr key (a :: l) (key a) hs
    rw [e]
    refine List.pairwise_cons.2 ⟨?_, hP⟩
    intro S hS a' ha' b hb
    exact lt_of_le_of_lt (hH a' ha') (hT S hS b hb)

/-! ### orbit partitions -/

/-- `stars` is a partition of the list `L` into orbits of `G`. -/
structure OrbitPartition (G : List Op) (L : List PS) (stars : List (List PS)) : Prop where
  perm : stars.flatten.Perm L
  ne : ∀ S ∈ stars, S ≠ []
  rel : ∀ S ∈ stars, ∀ x ∈ S, ∀ y ∈ S, Rel G x y
  sep : stars.Pairwise (fun A B => ∀ a ∈ A, ∀ b ∈ B, ¬ Rel G a b)

theorem starMatches_cons {G : List Op} {r : PS} {S : List PS} {x : PS} :
    starMatches G (r :: S) x = true ↔ Rel G r x := by
  simp [starMatches, Rel]

theorem pairwise_mem_cases {α} {R : α → α → Prop} {l : List α} (h : l.Pairwise R) {a b : α}
    (ha : a ∈ l) (hb : b ∈ l) : a = b ∨ R a b ∨ R b a := by
  induction l with
  | nil => cases ha
  | cons c l ih =>
    obtain ⟨hc, hl⟩ := List.pairwise_cons.1 h
    rcases List.mem_cons.1 ha with e1 | ha1
    · rcases List.mem_cons.1 hb with e2 | hb1
      · exact Or.inl (e1.trans e2.symm)
      · exact Or.inr (Or.inl (e1 ▸ hc b hb1))
    · rcases List.mem_cons.1 hb with e2 | hb1
      · exact Or.inr (Or.inr (e2 ▸ hc a ha1))
      · exact ih hl ha1 hb1

theorem OrbitPartition.mem_iff {G L stars} (h : OrbitPartition G L stars) (x : PS) :
    x ∈ L ↔ ∃ S ∈ stars, x ∈ S := by
  rw [← h.perm.mem_iff, List.mem_flatten]

/-- a star contains every state of `L` related to one of its members -/
theorem OrbitPartition.complete {G V L stars} (hG : GroupLike G V) (hV : ∀ x ∈ L, V x)
    (h : OrbitPartition G L stars) {S : List PS} (hS : S ∈ stars) {x y : PS} (hx : x ∈ S) (hy : y ∈ L)
    (hxy : Rel G x y) : y ∈ S := by
  obtain ⟨S', hS', hy'⟩ := (h.mem_iff y).1 hy
  have hxL : x ∈ L := (h.mem_iff x).2 ⟨S, hS, hx⟩
  rcases pairwise_mem_cases h.sep hS hS' with rfl | hsep | hsep
  · exact hy'
  · exact absurd hxy (hsep x hx y hy')
  · exact absurd (Rel.symm hG (hV x hxL) hxy) (hsep y hy' x hx)

theorem OrbitPartition.nodup {G L stars} (h : OrbitPartition G L stars) (hL : L.Nodup) :
    stars.flatten.Nodup := h.perm.nodup_iff.2 hL

/-! ### the representative-matching loop -/

theorem flatten_map_append_one {x : PS} (m : List PS → Bool) :
    ∀ (T : List (List PS)), T.Pairwise (fun A B => ¬ (m A = true ∧ m B = true)) → (∃ S ∈ T, m S = true) →
      ((T.map fun S => if m S then S ++ [x] else S).flatten).Perm (T.flatten ++ [x]) := by
  intro T
  induction T with
  | nil => intro _ h; obtain ⟨S, hS, _⟩ := h; cases hS
  | cons A T ih =>
    intro hpw hex
    obtain ⟨hA, hT⟩ := List.pairwise_cons.1 hpw
    by_cases hmA : m A = true
    · have hid : (T.map fun S => if m S then S ++ [x] else S) = T := by
        conv_rhs => rw [← List.map_id T]
        apply List.map_congr_left
        intro B hB
        have : ¬ m B = true := fun hmB => hA B hB ⟨hmA, hmB⟩
        simp [this]
      simp only [List.map_cons, hmA, if_true, List.flatten_cons, hid]
      rw [List.append_assoc, List.append_assoc]
      exact List.Perm.append_left _ List.perm_append_comm
    · have hex' : ∃ S ∈ T, m S = true := by
        obtain ⟨S, hS, hmS⟩ := hex
        rcases List.mem_cons.1 hS with rfl | hS
        · exact absurd hmS hmA
        · exact ⟨S, hS, hmS⟩
      simp only [List.map_cons, hmA, List.flatten_cons, List.append_assoc]
      exact List.Perm.append_left _ (ih hT hex')

/-- one iteration of the inner loop keeps "the stars built so far are an orbit partition of the
    states seen so far" -/
theorem groupStep_inv {G V} (hG : GroupLike G V) {T : List (List PS)} {P : List PS} {x : PS}
    (hV : ∀ y ∈ P, V y) (hx : V x) (h : OrbitPartition G P T) :
    OrbitPartition G (P ++ [x]) (groupStep G T x) := by
  have memP : ∀ S ∈ T, ∀ y ∈ S, y ∈ P := fun S hS y hy => (h.mem_iff y).2 ⟨S, hS, hy⟩
  have vmem : ∀ S ∈ T, ∀ y ∈ S, V y := fun S hS y hy => hV y (memP S hS y hy)
  -- a star matches iff any (equivalently every) member is related to x
  have match_iff : ∀ S ∈ T, ∀ y ∈ S, (starMatches G S x = true ↔ Rel G y x) := by
    intro S hS y hy
    cases hS' : S with
    | nil => rw [hS'] at hy; cases hy
    | cons r S' =>
      rw [starMatches_cons]
      have hr : r ∈ S := by rw [hS']; simp
      constructor
      · intro hrx
        exact Rel.trans hG (vmem S hS y hy) (h.rel S hS y hy r hr) hrx
      · intro hyx
        exact Rel.trans hG (vmem S hS r hr) (h.rel S hS r hr y hy) hyx
  unfold groupStep
  split
  · rename_i hany
    -- members of the updated stars
    have memf : ∀ S ∈ T, ∀ y ∈ (if starMatches G S x = true then S ++ [x] else S),
        y ∈ S ∨ (y = x ∧ starMatches G S x = true) := by
      intro S _ y hy
      split at hy
      · rename_i hm
        rcases List.mem_append.1 hy with hy | hy
        · exact Or.inl hy
        · exact Or.inr ⟨by simpa using hy, hm⟩
      · exact Or.inl hy
    refine ⟨?_, ?_, ?_, ?_⟩
    · -- perm
      have hpw : T.Pairwise (fun A B => ¬ (starMatches G A x = true ∧ starMatches G B x = true)) := by
        refine List.Pairwise.imp_of_mem ?_ h.sep
        intro A B hA hB hAB ⟨hmA, hmB⟩
        obtain ⟨a, ha⟩ := List.exists_mem_of_ne_nil A (h.ne A hA)
        obtain ⟨b, hb⟩ := List.exists_mem_of_ne_nil B (h.ne B hB)
        have h1 := (match_iff A hA a ha).1 hmA
        have h2 := (match_iff B hB b hb).1 hmB
        exact hAB a ha b hb (Rel.trans hG (vmem A hA a ha) h1 (Rel.symm hG (vmem B hB b hb) h2))
      have hex : ∃ S ∈ T, starMatches G S x = true := by
        simpa [List.any_eq_true] using hany
      exact (flatten_map_append_one (starMatches G · x) T hpw hex).trans (List.Perm.append_right _ h.perm)
    · intro S' hS'
      obtain ⟨S, hS, rfl⟩ := List.mem_map.1 hS'
      split
      · simp
      · exact h.ne S hS
    · intro S' hS' a ha b hb
      obtain ⟨S, hS, rfl⟩ := List.mem_map.1 hS'
      rcases memf S hS a ha with ha1 | ⟨ea, hm⟩
      · rcases memf S hS b hb with hb1 | ⟨eb, hm⟩
        · exact h.rel S hS a ha1 b hb1
        · rw [eb]; exact (match_iff S hS a ha1).1 hm
      · rcases memf S hS b hb with hb1 | ⟨eb, _⟩
        · rw [ea]; exact Rel.symm hG (vmem S hS b hb1) ((match_iff S hS b hb1).1 hm)
        · rw [ea, eb]; exact Rel.refl hG hx
    · rw [List.pairwise_map]
      refine List.Pairwise.imp_of_mem ?_ h.sep
      intro A B hA hB hAB a ha b hb
      rcases memf A hA a ha with ha1 | ⟨ea, hmA⟩
      · rcases memf B hB b hb with hb1 | ⟨eb, hmB⟩
        · exact hAB a ha1 b hb1
        · -- a ∈ A related to x, and B matches x
          rw [eb]
          intro hax
          obtain ⟨b', hb'⟩ := List.exists_mem_of_ne_nil B (h.ne B hB)
          have h2 := (match_iff B hB b' hb').1 hmB
          exact hAB a ha1 b' hb' (Rel.trans hG (vmem A hA a ha1) hax (Rel.symm hG (vmem B hB b' hb') h2))
      · obtain ⟨a', ha'⟩ := List.exists_mem_of_ne_nil A (h.ne A hA)
        have h1 := (match_iff A hA a' ha').1 hmA
        rw [ea]
        rcases memf B hB b hb with hb1 | ⟨eb, hmB⟩
        · intro hxb
          exact hAB a' ha' b hb1 (Rel.trans hG (vmem A hA a' ha') h1 hxb)
        · intro _
          obtain ⟨b', hb'⟩ := List.exists_mem_of_ne_nil B (h.ne B hB)
          have h2 := (match_iff B hB b' hb').1 hmB
          exact hAB a' ha' b' hb' (Rel.trans hG (vmem A hA a' ha') h1 (Rel.symm hG (vmem B hB b' hb') h2))
  · rename_i hany
    have hno : ∀ S ∈ T, ¬ starMatches G S x = true := by
      simpa [List.any_eq_true] using hany
    refine ⟨?_, ?_, ?_, ?_⟩
    · simp only [List.flatten_append, List.flatten_cons, List.flatten_nil, List.append_nil]
      exact List.Perm.append_right _ h.perm
    · intro S hS
      rcases List.mem_append.1 hS with hS | hS
      · exact h.ne S hS
      · simp at hS; subst hS; simp
    · intro S hS a ha b hb
      rcases List.mem_append.1 hS with hS | hS
      · exact h.rel S hS a ha b hb
      · simp at hS; subst hS
        simp at ha hb; subst ha; subst hb
        exact Rel.refl hG hx
    · rw [List.pairwise_append]
      refine ⟨h.sep, by simp, ?_⟩
      intro A hA B hB a ha b hb
      simp at hB; subst hB
      simp at hb; subst hb
      exact fun hab => hno A hA ((match_iff A hA a ha).2 hab)

theorem foldl_groupStep_inv {G V} (hG : GroupLike G V) :
    ∀ (l : List PS) (T : List (List PS)) (P : List PS), (∀ y ∈ P, V y) → (∀ y ∈ l, V y) →
      OrbitPartition G P T → OrbitPartition G (P ++ l) (l.foldl (groupStep G) T) := by
  intro l
  induction l with
  | nil => intro T P _ _ h; simpa using h
  | cons x l ih =>
    intro T P hP hl h
    simp only [List.foldl_cons]
    have hx : V x := hl x (by simp)
    have := ih (groupStep G T x) (P ++ [x])
      (by intro y hy; rcases List.mem_append.1 hy with hy | hy
          · exact hP y hy
          · simp at hy; subst hy; exact hx)
      (fun y hy => hl y (by simp [hy])) (groupStep_inv hG hP hx h)
    simpa using this

/-- the matching loop on one shell returns an orbit partition of that shell -/
theorem groupShell_partition {G V} (hG : GroupLike G V) {sh : List PS} (hV : ∀ y ∈ sh, V y) :
    OrbitPartition G sh (groupShell G sh) := by
  have h0 : OrbitPartition G [] [] := ⟨by simp, by simp, by simp, List.Pairwise.nil⟩
  have := foldl_groupStep_inv hG sh [] [] (by simp) hV h0
  simpa [groupShell] using this

theorem shells_partition {G V} (hG : GroupLike G V) (key : PS → Rat) :
    ∀ (shells : List (List PS)), shells.Pairwise (Sep key) → (∀ y ∈ shells.flatten, V y) →
      (∀ x ∈ shells.flatten, ∀ y ∈ shells.flatten, Rel G x y → key x = key y) →
      OrbitPartition G shells.flatten (shells.flatMap (groupShell G)) := by
  intro shells
  induction shells with
  | nil => intro _ _ _; exact ⟨by simp, by simp, by simp, by simp⟩
  | cons sh rest ih =>
    intro hsep hV hkey
    obtain ⟨hsh, hrest⟩ := List.pairwise_cons.1 hsep
    have hVsh : ∀ y ∈ sh, V y := fun y hy => hV y (by simp [hy])
    have hVr : ∀ y ∈ rest.flatten, V y := fun y hy => hV y (by simp only [List.flatten_cons, List.mem_append]; exact Or.inr hy)
    have p1 := groupShell_partition hG hVsh
    have p2 := ih hrest hVr (fun x hx y hy => hkey x (by simp only [List.flatten_cons, List.mem_append]; exact Or.inr hx)
      y (by simp only [List.flatten_cons, List.mem_append]; exact Or.inr hy))
    simp only [List.flatMap_cons, List.flatten_cons]
    refine ⟨?_, ?_, ?_, ?_⟩
    · rw [List.flatten_append]; exact p1.perm.append p2.perm
    · intro S hS
      rcases List.mem_append.1 hS with hS | hS
      · exact p1.ne S hS
      · exact p2.ne S hS
    · intro S hS
      rcases List.mem_append.1 hS with hS | hS
      · exact p1.rel S hS
      · exact p2.rel S hS
    · rw [List.pairwise_append]
      refine ⟨p1.sep, p2.sep, ?_⟩
      intro A hA B hB a ha b hb hab
      have ha' : a ∈ sh := (p1.mem_iff a).2 ⟨A, hA, ha⟩
      have hb' : b ∈ rest.flatten := (p2.mem_iff b).2 ⟨B, hB, hb⟩
      obtain ⟨sh', hsh', hb''⟩ := List.mem_flatten.1 hb'
      have hlt := hsh sh' hsh' a ha' b hb''
      have heq := hkey a (by simp [ha']) b (by simp only [List.flatten_cons, List.mem_append]; exact Or.inr hb') hab
      rw [heq] at hlt
      exact lt_irrefl _ hlt

/-- **stars_partition_orbits**: for states ordered by an orbit-invariant key, any threshold `≥ 0`
    and any op list acting as a group, the shell split followed by representative matching is a
    partition of the states into orbits: every state in exactly one star, members of a star
    mutually related, members of different stars unrelated. -/
theorem starsOf_partition_orbits {C : Crys} {G : List Op} {V : PS → Prop} {thr : Rat} {L : List PS}
    (hG : GroupLike G V) (hthr : 0 ≤ thr) (hV : ∀ y ∈ L, V y)
    (hsorted : L.Pairwise (fun a b => x2 C a ≤ x2 C b))
    (hkey : ∀ x ∈ L, ∀ y ∈ L, Rel G x y → x2 C x = x2 C y) :
    OrbitPartition G L (starsOf C G thr L) := by
  have hf := splitShells_flatten thr (x2 C) L
  have := shells_partition hG (x2 C) (splitShells thr (x2 C) L) (splitShells_sep hthr _ L hsorted)
    (by rw [hf]; exact hV) (by rw [hf]; exact hkey)
  rw [hf] at this
  exact this

theorem sortByKey_sorted {α} (key : α → Rat) (l : List α) :
    (sortByKey key l).Pairwise (fun a b => key a ≤ key b) := by
  have := List.pairwise_mergeSort (le := fun a b => decide (key a ≤ key b))
    (by intro a b c h1 h2; simp only [decide_eq_true_eq] at *; exact le_trans h1 h2)
    (by intro a b; simp only [Bool.or_eq_true, decide_eq_true_eq]; exact le_total _ _) l
  exact this.imp (by intro a b h; simpa using h)

/-! ### index lookups -/

/-- **index_consistent**: a successful lookup returns the position of the state in `states` and
    the position of a star that contains it. -/
theorem indexdict_consistent {S : StarSet} {s : PS} {xi si : Nat} (h : indexdict S s = some (xi, si)) :
    S.states[xi]? = some s ∧ ∃ star, S.stars[si]? = some star ∧ s ∈ star := by
  unfold indexdict at h
  split at h
  · rename_i a b h1 h2
    cases h
    constructor
    · have : S.states.findIdx? (· == s) = some xi := h1
      obtain ⟨hlt, hp, _⟩ := List.findIdx?_eq_some_iff_getElem.1 this
      rw [List.getElem?_eq_getElem hlt]
      simpa using hp
    · unfold findStar at h2
      obtain ⟨hlt, hp, _⟩ := List.findIdx?_eq_some_iff_getElem.1 h2
      exact ⟨S.stars[si], List.getElem?_eq_getElem hlt, by simpa using hp⟩
  · cases h

/-- lookups succeed exactly on the members, provided the stars cover the states -/
theorem indexdict_some_iff {S : StarSet} (hcover : ∀ s, s ∈ S.states → ∃ star ∈ S.stars, s ∈ star) (s : PS) :
    (indexdict S s).isSome = true ↔ s ∈ S.states := by
  constructor
  · intro h
    obtain ⟨⟨xi, si⟩, hp⟩ := Option.isSome_iff_exists.1 h
    have := (indexdict_consistent hp).1
    exact List.mem_of_getElem? this
  · intro hs
    obtain ⟨star, hstar, hmem⟩ := hcover s hs
    have h1 : (S.states.idxOf? s).isSome = true := by
      show (S.states.findIdx? (· == s)).isSome = true
      rw [List.findIdx?_isSome]
      simp [hs]
    have h2 : (findStar S.stars s).isSome = true := by
      unfold findStar
      rw [List.findIdx?_isSome]
      simp only [List.any_eq_true]
      exact ⟨star, hstar, by simpa using hmem⟩
    obtain ⟨xi, hxi⟩ := Option.isSome_iff_exists.1 h1
    obtain ⟨si, hsi⟩ := Option.isSome_iff_exists.1 h2
    simp [indexdict, hxi, hsi]

/-! ### soundness of the checkers run on the implementation's own output -/

/-- what `checkStars` certifies -/
structure StarsOK (G : List Op) (states : List PS) (stars : List (List PS)) : Prop where
  perm : stars.flatten.Perm states
  nodup : states.Nodup
  ne : ∀ S ∈ stars, S ≠ []
  rel : ∀ S ∈ stars, ∀ x ∈ S, ∀ y ∈ S, Rel G x y
  complete : ∀ S ∈ stars, ∀ x ∈ S, ∀ y ∈ states, Rel G x y → y ∈ S

theorem checkStars_sound {G V} (hG : GroupLike G V) {states : List PS} {stars : List (List PS)}
    (hV : ∀ x ∈ states, V x) (h : checkStars G states stars = true) : StarsOK G states stars := by
  simp only [checkStars, Bool.and_eq_true, decide_eq_true_eq, List.all_eq_true, List.contains_iff_mem] at h
  obtain ⟨⟨⟨⟨hlen, hnd⟩, hnds⟩, hsub⟩, hst⟩ := h
  have hnd' : stars.flatten.Nodup := (dedup_eq_self_iff _).1 hnd
  have hnds' : states.Nodup := (dedup_eq_self_iff _).1 hnds
  have hperm : stars.flatten.Perm states :=
    (List.subperm_of_subset hnd' (fun x hx => hsub x hx)).perm_of_length_le (by omega)
  have memV : ∀ S ∈ stars, ∀ x ∈ S, V x := fun S hS x hx =>
    hV x (hperm.mem_iff.1 (List.mem_flatten.2 ⟨S, hS, hx⟩))
  -- per-star facts
  have star : ∀ S ∈ stars, ∃ r S', S = r :: S' ∧ (∀ x ∈ S, Rel G r x) ∧
      (∀ y, Rel G r y → y ∈ states → y ∈ S) := by
    intro S hS
    have := hst S hS
    cases S with
    | nil => simp at this
    | cons r S' =>
      simp only [Bool.and_eq_true, List.all_eq_true, List.contains_iff_mem, List.mem_map,
        forall_exists_index, and_imp, forall_apply_eq_imp_iff₂, Bool.or_eq_true, Bool.not_eq_true'] at this
      obtain ⟨h1, h2⟩ := this
      refine ⟨r, S', rfl, ?_, ?_⟩
      · intro x hx
        obtain ⟨g, hg, e⟩ := h1 x hx
        exact ⟨g, hg, e⟩
      · intro y ⟨g, hg, e⟩ hy
        rcases h2 g hg with h | h
        · rw [e] at h; exact absurd hy (by simpa using h)
        · rw [e] at h; exact h
  refine ⟨hperm, hnds', ?_, ?_, ?_⟩
  · intro S hS
    obtain ⟨r, S', rfl, _, _⟩ := star S hS
    simp
  · intro S hS x hx y hy
    obtain ⟨r, S', e, h1, _⟩ := star S hS
    have hr : r ∈ S := by rw [e]; simp
    exact Rel.trans hG (memV S hS x hx) (Rel.symm hG (memV S hS r hr) (h1 x hx)) (h1 y hy)
  · intro S hS x hx y hy hxy
    obtain ⟨r, S', e, h1, h2⟩ := star S hS
    have hr : r ∈ S := by rw [e]; simp
    exact h2 y (Rel.trans hG (memV S hS r hr) (h1 x hx) hxy) hy

/-- what `checkIndex` certifies about the implementation's `index` array and `stars` index lists -/
theorem checkIndex_sound {n : Nat} {starsIdx : List (List Nat)} {index : List Nat}
    (h : checkIndex n starsIdx index = true) :
    index.length = n ∧ (∀ xi, xi < n → ∃ si, index[xi]? = some si ∧ xi ∈ starsIdx.getD si []) ∧
      (∀ si, si < starsIdx.length → ∀ xi ∈ starsIdx.getD si [], index[xi]? = some si) := by
  simp only [checkIndex, Bool.and_eq_true, beq_iff_eq, List.all_eq_true, List.mem_range] at h
  obtain ⟨⟨h1, h2⟩, h3⟩ := h
  refine ⟨h1, ?_, ?_⟩
  · intro xi hxi
    have := h2 xi hxi
    split at this
    · cases this
    · rename_i si hsi
      exact ⟨si, hsi, by simpa using this⟩
  · intro si hsi xi hxi
    simpa using h3 si hsi xi hxi

end Onsager.C24
