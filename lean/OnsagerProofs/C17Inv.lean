/-
  C17 — the inverse.  `inverse_through_order`:

  Let `a` have the isotropic leading term `(n0, 0, [A])` with a two-sided inverse `minv A`, all other orders
  `> n0` (the two `ValueError` guards), consistent shape, and let the products formed by the Neumann loop stay
  within `Lmax`.  Write `B = Nmax + n0 ≥ 0`.  Then  `inv(a) · a = 1`  **modulo radial order `> B`**, in the
  following precise sense: in EVERY commutative ring `S` with an element `t` with `t^(B+1) = 0`, evaluating
  `a` with the radial factor `t^(n - n0)` and `inversecoeff a Nmax` with `t^(n + n0)` gives two elements of
  the coefficient algebra whose product is exactly `1`.  (Take `S = K[t]/(t^(B+1))`: the product of the two
  truncated series equals 1 through order `B`; since `inv` has orders `≥ -n0`, it agrees with the exact
  inverse series through its requested order `Nmax`.)
-/
import OnsagerProofs.C17
import Mathlib.Tactic.Linarith
import Mathlib.Tactic.Abel

namespace Onsager.C16

open Finset

variable {S M : Type} [CommRing S] [Ring M] [Algebra S M]

/-- what the product rule needs from the tables -/
structure Tab.SemMul (T : Tab S) : Prop where
  phi_mono : ∀ l l', l ≤ l' → l' ≤ T.lmax → T.phi l ≤ T.phi l'
  dm_ok : T.DmOk
  mono_zero : ∀ u : List S, T.mono u 0 = 1
  phi_zero : T.phi 0 = 1

theorem Tab.Sem.toSemMul {T : Tab S} (h : T.Sem) : T.SemMul := ⟨h.phi_mono, h.dm_ok, h.mono_zero, h.phi_zero⟩

/-! ### the product rule with multiplicativity only on the orders that occur -/

theorem eval_mul_local (T : Tab S) (hT : T.SemMul) (u : List S) (pw : Int → S) (a b : Coeffs M)
    (hpw : ∀ ea ∈ a, ∀ eb ∈ b, pw (ea.1 + eb.1) = pw ea.1 * pw eb.1)
    (ha : WF T a) (hb : WF T b) (hg : ∀ ea ∈ a, ∀ eb ∈ b, ea.2.1 + eb.2.1 ≤ T.lmax) :
    eval T u pw (coeffproduct T a b) = eval T u pw a * eval T u pw b := by
  have hentry : ∀ ea ∈ a, ∀ eb ∈ b, evalE T u pw (prodEntry T ea eb) = evalE T u pw ea * evalE T u pw eb := by
    intro ea hea eb heb
    unfold prodEntry evalE
    simp only [Nat.min_eq_left (hg ea hea eb heb)]
    rw [(scatterMul_spec T hT.dm_ok u ea.2.1 eb.2.1 ea.2.2 eb.2.2 (hg ea hea eb heb) (le_of_eq (ha ea hea).1)
      (le_of_eq (hb eb heb).1)).2, hpw ea hea eb heb, smul_mul_smul_comm]
  have hrow : ∀ ea ∈ a, ∀ (b' : Coeffs M), (∀ e ∈ b', e ∈ b) →
      eval T u pw (b'.map fun eb => prodEntry T ea eb) = evalE T u pw ea * eval T u pw b' := by
    intro ea hea b'
    induction b' with
    | nil => intro _; simp
    | cons eb b' ih =>
      intro h
      rw [List.map_cons, eval_cons, eval_cons, ih (fun e he => h e (by simp [he])), hentry ea hea eb (h eb (by simp)), mul_add]
  unfold coeffproduct
  by_cases hae : a.isEmpty
  · have : a = [] := by simpa using hae
    subst this; simp
  · by_cases hbe : b.isEmpty
    · have : b = [] := by simpa using hbe
      subst this; simp [hae]
    · simp only [hae, hbe, if_false, Bool.false_eq_true]
      rw [eval_sortC, eval_foldl_mergeIn, eval_nil, zero_add]
      have : ∀ (a' : Coeffs M), (∀ e ∈ a', e ∈ a) →
          eval T u pw (a'.flatMap fun ea => b.map fun eb => prodEntry T ea eb) = eval T u pw a' * eval T u pw b := by
        intro a'
        induction a' with
        | nil => intro _; simp
        | cons ea a' ih =>
          intro h
          rw [List.flatMap_cons, eval_append, eval_cons, add_mul, ih (fun e he => h e (by simp [he])),
            hrow ea (h ea (by simp)) b (fun e he => he)]
      exact this a (fun e he => he)

/-! ### bookkeeping: orders ≥ 0, angular orders ≤ L, consistent shape -/

/-- every term has radial order `≥ lo`, angular order `≤ L`, and `powlrange[l]` rows -/
def Good (T : Tab S) (lo : Int) (L : Nat) (b : Coeffs M) : Prop :=
  ∀ e ∈ b, lo ≤ e.1 ∧ e.2.1 ≤ L ∧ e.2.2.length = T.phi e.2.1

theorem Good.wf {T : Tab S} {lo : Int} {L : Nat} {b : Coeffs M} (h : Good T lo L b) (hL : L ≤ T.lmax) : WF T b :=
  fun e he => ⟨(h e he).2.2, le_trans (h e he).2.1 hL⟩

theorem good_mergeIn (T : Tab S) (hT : T.SemMul) (lo : Int) (L : Nat) (hL : L ≤ T.lmax) (e : Entry M)
    (he : lo ≤ e.1 ∧ e.2.1 ≤ L ∧ e.2.2.length = T.phi e.2.1) :
    ∀ (c : Coeffs M), Good T lo L c → Good T lo L (mergeIn c e) := by
  intro c
  induction c with
  | nil =>
    intro _ x hx
    simp only [mergeIn, List.mem_singleton] at hx
    subst hx; exact he
  | cons m rest ih =>
    intro hc
    have hm := hc m (by simp)
    have hrest : Good T lo L rest := fun x hx => hc x (by simp [hx])
    unfold mergeIn
    by_cases h : m.1 = e.1
    · rw [if_pos h]
      intro x hx
      rcases List.mem_cons.mp hx with hx | hx
      · subst hx
        by_cases h2 : m.2.1 < e.2.1
        · rw [if_pos h2]
          refine ⟨he.1, he.2.1, ?_⟩
          simp only
          rw [length_addPad, he.2.2, hm.2.2]
          exact Nat.max_eq_left (hT.phi_mono _ _ (by omega) (by omega))
        · rw [if_neg h2]
          refine ⟨hm.1, hm.2.1, ?_⟩
          simp only
          rw [length_addPad, he.2.2, hm.2.2]
          exact Nat.max_eq_left (hT.phi_mono _ _ (by omega) (by omega))
      · exact hrest x hx
    · rw [if_neg h]
      intro x hx
      rcases List.mem_cons.mp hx with hx | hx
      · subst hx; exact hm
      · exact ih hrest x hx

theorem good_foldl_mergeIn (T : Tab S) (hT : T.SemMul) (lo : Int) (L : Nat) (hL : L ≤ T.lmax) :
    ∀ (es c : Coeffs M), Good T lo L es → Good T lo L c → Good T lo L (es.foldl mergeIn c) := by
  intro es
  induction es with
  | nil => intro c _ hc; simpa using hc
  | cons e es ih =>
    intro c hes hc
    rw [List.foldl_cons]
    exact ih _ (fun x hx => hes x (by simp [hx])) (good_mergeIn T hT lo L hL e (hes e (by simp)) c hc)

theorem good_sortC (T : Tab S) (lo : Int) (L : Nat) (b : Coeffs M) (h : Good T lo L b) : Good T lo L (sortC b) :=
  fun e he => h e ((List.mergeSort_perm b keyLE).mem_iff.mp he)

theorem good_filter (T : Tab S) (lo : Int) (L : Nat) (b : Coeffs M) (p : Entry M → Bool) (h : Good T lo L b) :
    Good T lo L (b.filter p) :=
  fun e he => h e (List.mem_filter.mp he).1

theorem length_scatRow (T : Tab S) (len pa : Nat) (x : M) : ∀ (ys : List M) (pb : Nat) (acc : List M),
    (scatRow T len pa x pb ys acc).length = acc.length := by
  intro ys
  induction ys with
  | nil => intro pb acc; rfl
  | cons y ys ih => intro pb acc; simp only [scatRow]; rw [ih, length_addAt]

theorem length_scat (T : Tab S) (len : Nat) (xb : List M) : ∀ (xs : List M) (pa : Nat) (acc : List M),
    (scat T len xb pa xs acc).length = acc.length := by
  intro xs
  induction xs with
  | nil => intro pa acc; rfl
  | cons x xs ih => intro pa acc; simp only [scat]; rw [ih, length_scatRow]

theorem length_scatterMul (T : Tab S) (len : Nat) (xa xb : List M) : (scatterMul T len xa xb).length = len := by
  unfold scatterMul; rw [length_scat]; simp

theorem good_coeffproduct (T : Tab S) (hT : T.SemMul) (la lb : Int) (La Lb : Nat) (hL : La + Lb ≤ T.lmax)
    (a b : Coeffs M) (ha : Good T la La a) (hb : Good T lb Lb b) :
    Good T (la + lb) (La + Lb) (coeffproduct T a b) := by
  unfold coeffproduct
  by_cases hae : a.isEmpty
  · have : a = [] := by simpa using hae
    subst this; intro e he; simp at he
  · by_cases hbe : b.isEmpty
    · have : b = [] := by simpa using hbe
      subst this; simp only [hae]; intro e he; simp at he
    · simp only [hae, hbe, if_false, Bool.false_eq_true]
      apply good_sortC
      apply good_foldl_mergeIn T hT _ _ hL
      · intro e he
        simp only [List.mem_flatMap, List.mem_map] at he
        obtain ⟨ea, hea, eb, heb, rfl⟩ := he
        have h1 := ha ea hea
        have h2 := hb eb heb
        have hmin : min (ea.2.1 + eb.2.1) T.lmax = ea.2.1 + eb.2.1 := Nat.min_eq_left (by omega)
        refine ⟨?_, ?_, ?_⟩
        · simp only [prodEntry]; omega
        · simp only [prodEntry, hmin]; omega
        · simp only [prodEntry]; rw [length_scatterMul]
      · intro e he; simp at he

/-! ### radial factors `t^m` with `t` nilpotent -/

/-- `t^m` for `m ≥ 0` (and `1` for negative `m`, never used) -/
def rho (t : S) (m : Int) : S := t ^ m.toNat

theorem rho_add (t : S) (m m' : Int) (h : 0 ≤ m) (h' : 0 ≤ m') : rho t (m + m') = rho t m * rho t m' := by
  unfold rho
  rw [← pow_add]
  congr 1
  omega

theorem rho_zero_of_gt (t : S) (B : Nat) (ht : t ^ (B + 1) = 0) (m : Int) (h : (B : Int) < m) : rho t m = 0 := by
  unfold rho
  have : m.toNat = (B + 1) + (m.toNat - (B + 1)) := by omega
  rw [this, pow_add, ht, zero_mul]

theorem eval_filter_of_zero (T : Tab S) (u : List S) (pw : Int → S) (p : Entry M → Bool) :
    ∀ (b : Coeffs M), (∀ e ∈ b, p e = false → pw e.1 = 0) → eval T u pw (b.filter p) = eval T u pw b := by
  intro b
  induction b with
  | nil => intro _; simp
  | cons e b ih =>
    intro h
    have hb := ih (fun x hx => h x (by simp [hx]))
    by_cases hp : p e = true
    · simp [List.filter_cons, hp, hb]
    · have hp' : p e = false := by simpa using hp
      simp [List.filter_cons, hp', hb, evalE, h e (by simp) hp']

theorem eval_shiftC (T : Tab S) (u : List S) (pw : Int → S) (k : Int) (b : Coeffs M) :
    eval T u pw (shiftC k b) = eval T u (fun n => pw (n + k)) b := by
  induction b with
  | nil => simp [shiftC]
  | cons e b ih =>
    simp only [shiftC, List.map_cons, eval_cons] at ih ⊢
    rw [ih]; simp [evalE]

theorem good_shiftC (T : Tab S) (lo k : Int) (L : Nat) (b : Coeffs M) (h : Good T lo L b) :
    Good T (lo + k) L (shiftC k b) := by
  intro e he
  simp only [shiftC, List.mem_map] at he
  obtain ⟨x, hx, rfl⟩ := he
  have := h x hx
  exact ⟨by simp only; omega, this.2.1, this.2.2⟩

theorem good_map_block (T : Tab S) (lo : Int) (L : Nat) (f : M → M) (b : Coeffs M) (h : Good T lo L b) :
    Good T lo L (b.map fun e => (e.1, e.2.1, e.2.2.map f)) := by
  intro e he
  simp only [List.mem_map] at he
  obtain ⟨x, hx, rfl⟩ := he
  have := h x hx
  exact ⟨this.1, this.2.1, by simp [this.2.2]⟩

/-! ### the Neumann loop -/

/-- the loop adds the terms `X^(j+1) A⁻¹, …, X^(j+s) A⁻¹` (in the truncated ring) -/
theorem eval_invLoop (T : Tab S) (hT : T.SemMul) (u : List S) (t : S) (B : Nat) (ht : t ^ (B + 1) = 0)
    (leadinv : M) (k0 Nmax : Int) (hB : Nmax - k0 = (B : Int)) (L : Nat) (tail : Coeffs M)
    (htail : Good T 0 L tail) :
    ∀ (s j : Nat) (tailn c : Coeffs M), (j + s) * L ≤ T.lmax → 1 ≤ j → Good T 0 (j * L) tailn →
      eval T u (rho t) tailn = eval T u (rho t) tail ^ j →
      eval T u (fun n => rho t (n - k0)) (invLoop T leadinv k0 Nmax tail s tailn c)
        = eval T u (fun n => rho t (n - k0)) c
          + ∑ i ∈ range s, eval T u (rho t) tail ^ (j + 1 + i) * leadinv := by
  intro s
  induction s with
  | zero => intro j tailn c _ _ _ _; simp [invLoop]
  | succ s ih =>
    intro j tailn c hL hj hgood hev
    have hjL : j * L + L ≤ T.lmax := by
      have : (j + (s + 1)) * L = j * L + L + s * L := by ring
      omega
    have hprodgood := good_coeffproduct T hT 0 0 (j * L) L hjL tailn tail hgood htail
    have hfiltgood : Good T 0 ((j + 1) * L)
        ((coeffproduct T tailn tail).filter fun e => decide (e.1 + k0 ≤ Nmax)) := by
      have e1 : (j + 1) * L = j * L + L := by ring
      rw [e1]
      have := good_filter T (0 + 0) (j * L + L) _ (fun e => decide (e.1 + k0 ≤ Nmax)) hprodgood
      simpa using this
    have hfiltev : eval T u (rho t) ((coeffproduct T tailn tail).filter fun e => decide (e.1 + k0 ≤ Nmax))
        = eval T u (rho t) tail ^ (j + 1) := by
      rw [eval_filter_of_zero T u (rho t) _ _ (by
        intro e _ hp
        apply rho_zero_of_gt t B ht
        simp only [decide_eq_false_iff_not, not_le] at hp
        omega)]
      rw [eval_mul_local T hT u (rho t) tailn tail
        (fun ea hea eb heb => rho_add t _ _ (hgood ea hea).1 (htail eb heb).1)
        (hgood.wf (by nlinarith)) (htail.wf (by nlinarith))
        (fun ea hea eb heb => by
          have := (hgood ea hea).2.1
          have := (htail eb heb).2.1
          omega),
        hev, pow_succ]
    have hL' : (j + 1 + s) * L ≤ T.lmax := by
      have : j + 1 + s = j + (s + 1) := by omega
      rw [this]; exact hL
    simp only [invLoop]
    rw [ih (j + 1) _ _ hL' (by omega) hfiltgood hfiltev]
    rw [eval_sum, one_mul, one_mul, eval_shiftC, eval_rmul]
    have hpw : (fun n : Int => rho t (n + k0 - k0)) = rho t := by
      funext n; congr 1; omega
    rw [hpw, hfiltev, Finset.sum_range_succ', add_assoc]
    congr 1
    rw [add_comm]
    congr 1
    apply Finset.sum_congr rfl
    intro i _
    congr 2
    omega

/-- `X = t^δ · Y` when all orders are `≥ δ`: so `X^(J+1) = 0` as soon as `δ (J+1) > B` -/
theorem eval_pow_zero (T : Tab S) (u : List S) (t : S) (B : Nat) (ht : t ^ (B + 1) = 0) (δ : Nat) (L : Nat)
    (tail : Coeffs M) (htail : Good T (δ : Int) L tail) (J : Nat) (hJ : B < δ * (J + 1)) :
    eval T u (rho t) tail ^ (J + 1) = 0 := by
  have hX : eval T u (rho t) tail = t ^ δ • eval T u (fun n => rho t (n - δ)) tail := by
    unfold eval
    rw [List.smul_sum, List.map_map]
    congr 1
    apply List.map_congr_left
    intro e he
    have h := (htail e he).1
    simp only [Function.comp, evalE, smul_smul]
    congr 1
    unfold rho
    rw [← pow_add]
    congr 1
    omega
  rw [hX, smul_pow, ← pow_mul]
  have : δ * (J + 1) = (B + 1) + (δ * (J + 1) - (B + 1)) := by omega
  rw [this, pow_add, ht, zero_mul, zero_smul]

/-- **inverse through the requested order** (see the header of this file). -/
theorem inverse_through_order (T : Tab S) (hT : T.SemMul) (u : List S) (t : S)
    (minv : M → M) (a : Coeffs M) (Nmax : Int)
    -- the sorted expansion: leading term, then the rest
    (lead : Entry M) (rest : Coeffs M) (hsort : sortC a = lead :: rest)
    -- guard 1: the leading term is isotropic, with an invertible coefficient
    (hl0 : lead.2.1 = 0) (hlen : lead.2.2.length = 1)
    (hinv : minv (lead.2.2.getD 0 0) * lead.2.2.getD 0 0 = 1)
    -- guard 2: every other power exceeds the leading one by at least δ ≥ 1; shapes consistent, angular orders ≤ L
    (δ : Nat) (hδ : 1 ≤ δ) (L : Nat) (hrest : Good T (lead.1 + δ) L rest)
    (hsecond : ∀ second ∈ rest.head?, second.1 = lead.1 + δ)
    -- requested order, and the angular-order guard of the Neumann loop ("caveat emptor" in the source)
    (B : Nat) (hB : Nmax + lead.1 = (B : Int)) (ht : t ^ (B + 1) = 0)
    (hL : (B / δ + 1) * L ≤ T.lmax)
    (c : Coeffs M) (hc : inversecoeff T minv a Nmax = .ok c) :
    eval T u (fun n => rho t (n + lead.1)) c * eval T u (fun n => rho t (n - lead.1)) a = 1 := by
  -- evaluation of a
  have hmono0 := hT.mono_zero u
  have hlead : lead.2.2 = [lead.2.2.getD 0 0] := by
    cases h : lead.2.2 with
    | nil => rw [h] at hlen; simp at hlen
    | cons x xs =>
      rw [h] at hlen
      have : xs = [] := List.eq_nil_of_length_eq_zero (by simpa using hlen)
      subst this; simp
  have hevA : eval T u (fun n => rho t (n - lead.1)) a
      = lead.2.2.getD 0 0 + eval T u (rho t) (shiftC (-lead.1) rest) := by
    rw [← eval_sortC, hsort, eval_cons, eval_shiftC]
    congr 1
    · unfold evalE
      rw [hlead]
      simp [rho, hmono0]
  unfold inversecoeff at hc
  rw [hsort] at hc
  simp only [hl0, ne_eq, not_true_eq_false, if_false] at hc
  set A := lead.2.2.getD 0 0 with hA
  set Ainv := minv A with hAinv
  set k0 : Int := -lead.1 with hk0
  have hpw1 : (fun n : Int => rho t (n + lead.1)) = fun n => rho t (n - k0) := by
    funext n; congr 1; omega
  have hc0 : eval T u (fun n => rho t (n - k0)) ([(k0, 0, [Ainv])] : Coeffs M) = Ainv := by
    simp [evalE, rho, hmono0]
  cases hr : rest with
  | nil =>
    rw [hr] at hc hevA
    simp only [Except.ok.injEq] at hc
    subst hc
    rw [hpw1, hc0, hevA]
    simp [shiftC, hinv]
  | cons second rest' =>
    have hsec : second.1 = lead.1 + δ := hsecond second (by rw [hr]; simp)
    rw [hr] at hc
    have hguard : ¬ (k0 + second.1 ≤ 0) := by omega
    simp only [hguard, if_false, Except.ok.injEq] at hc
    rw [← hr] at hc
    -- the tail X = -A⁻¹ B in relative orders
    set tail : Coeffs M := negC (shiftC k0 (lmulC Ainv rest)) with htaildef
    have htail_good : Good T (δ : Int) L tail := by
      have h1 : Good T (lead.1 + δ) L (lmulC Ainv rest) := good_map_block T _ L (Ainv * ·) rest hrest
      have h2 := good_shiftC T _ k0 L _ h1
      have h3 : Good T (lead.1 + δ + k0) L tail := good_map_block T _ L (- ·) _ h2
      have e : lead.1 + δ + k0 = (δ : Int) := by omega
      rwa [e] at h3
    have htail_good0 : Good T 0 L tail := fun e he => ⟨by have := (htail_good e he).1; omega, (htail_good e he).2⟩
    have hX : eval T u (rho t) tail = -(Ainv * eval T u (rho t) (shiftC k0 rest)) := by
      rw [htaildef, eval_neg, eval_shiftC, eval_lmul, eval_shiftC]
    have hNB : Nmax - k0 = (B : Int) := by omega
    have hdiv : (Nmax - k0) / (second.1 + k0) = ((B / δ : Nat) : Int) := by
      have : second.1 + k0 = (δ : Int) := by omega
      rw [this, hNB]; norm_cast
    rw [hdiv, Int.toNat_natCast] at hc
    -- first addition
    have hc1 : eval T u (fun n => rho t (n - k0))
        (sumcoeff [(k0, 0, [Ainv])] ((shiftC k0 (rmulC Ainv tail)).filter fun e => decide (e.1 ≤ Nmax)) 1 1)
        = Ainv + eval T u (rho t) tail * Ainv := by
      rw [eval_sum, one_mul, one_mul, hc0]
      congr 1
      rw [eval_filter_of_zero T u _ _ _ (by
        intro e he hp
        apply rho_zero_of_gt t B ht
        simp only [decide_eq_false_iff_not, not_le] at hp
        omega), eval_shiftC, eval_rmul]
      have : (fun n : Int => rho t (n + k0 - k0)) = rho t := by funext n; congr 1; omega
      rw [this]
    have hloop := eval_invLoop T hT u t B ht Ainv k0 Nmax hNB L tail htail_good0 (B / δ - 1) 1 tail
      (sumcoeff [(k0, 0, [Ainv])] ((shiftC k0 (rmulC Ainv tail)).filter fun e => decide (e.1 ≤ Nmax)) 1 1)
      (by
        have h0 : ∀ q : Nat, 1 + (q - 1) ≤ q + 1 := by intro q; omega
        exact le_trans (Nat.mul_le_mul_right L (h0 (B / δ))) hL)
      (le_refl 1) (by simpa using htail_good0) (by simp)
    subst hc
    rw [hpw1, hloop, hc1, hevA]
    -- assemble the geometric series
    set X := eval T u (rho t) tail with hXdef
    set J := B / δ - 1 with hJdef
    have hsum : Ainv + X * Ainv + ∑ i ∈ range J, X ^ (1 + 1 + i) * Ainv
        = ∑ k ∈ range (J + 1 + 1), (-(Ainv * eval T u (rho t) (shiftC k0 rest))) ^ k * Ainv := by
      rw [← hX, Finset.sum_range_succ', Finset.sum_range_succ']
      simp only [pow_zero, one_mul, pow_one, zero_add]
      have e : ∀ i : Nat, X ^ (1 + 1 + i) = X ^ (i + 1 + 1) := by intro i; congr 1; omega
      simp only [e]
      abel
    rw [hsum, neumann_identity A Ainv _ hinv (J + 1), ← hX]
    have hz : X ^ (J + 1 + 1) = 0 := by
      apply eval_pow_zero T u t B ht δ L tail htail_good (J + 1)
      have h1 := Nat.div_add_mod B δ
      have h2 := Nat.mod_lt B (by omega : 0 < δ)
      have h3 : ∀ q : Nat, q ≤ q - 1 + 1 := by intro q; omega
      have h4 : B / δ ≤ J + 1 := h3 _
      have h5 : δ * (B / δ) ≤ δ * (J + 1) := Nat.mul_le_mul_left δ h4
      have h6 : δ * (J + 1) + δ = δ * (J + 1 + 1) := by ring
      omega
    rw [hz, sub_zero]

end Onsager.C16
