/-
  C14 — theorems about the cache/heap state machine (OnsagerModel/C14.lean).

  * `history_independent`          (copy)  after ANY history, `Lij` returns the history-free result
  * `run_outputs_pure`             (copy)  every `Lij` output along any history is the history-free result
  * `alias_not_history_independent`(alias) the 3-op history `Lij k; result[0][:] = c; Lij k` returns `c`
  * `alias_independent_without_mutation`   under aliasing the ONLY source of history dependence is an
                                           in-place edit of a returned array (clear / regenerate /
                                           save-load / call order are harmless in both variants)
  * `lookup_hit_same_key`          a cache hit happens only for the identical key (`key_eq_is_bytes`)
-/
import OnsagerModel.C14
import Mathlib.Tactic.Linarith

namespace Onsager.C14

/-- cached objects hold the history-free tensor of their key and are allocated -/
def CachePure (s : State) : Prop :=
  ∀ k r, (k, r) ∈ s.cache → s.heap r = .pure k 0 ∧ r < s.next

/-- no cached object was ever handed to the caller -/
def CachePrivate (s : State) : Prop :=
  (∀ k r, (k, r) ∈ s.cache → ∀ t ∈ s.returned, r ∉ t) ∧ (∀ t ∈ s.returned, ∀ r ∈ t, r < s.next)

theorem lookup_some_mem {c : List (Nat × Nat)} {k : Nat} {r : Nat} (h : lookup c k = some r) : (k, r) ∈ c := by
  induction c with
  | nil => simp [lookup] at h
  | cons a t ih =>
    obtain ⟨k', r'⟩ := a
    simp only [lookup] at h
    split at h
    · rename_i hk; cases h; subst hk; exact List.mem_cons_self
    · exact List.mem_cons_of_mem _ (ih h)

/-- `key_eq_is_bytes`: a hit returns an entry stored under exactly the requested key. -/
theorem lookup_hit_same_key {c : List (Nat × Nat)} {k : Nat} {r : Nat} (h : lookup c k = some r) :
    ∃ e ∈ c, e.1 = k ∧ e.2 = r := ⟨(k, r), lookup_some_mem h, rfl, rfl⟩

theorem init_cachePure : CachePure init := by intro k r h; simp [init] at h
theorem init_cachePrivate : CachePrivate init := by
  constructor
  · intro k r h; simp [init] at h
  · intro t h; simp [init] at h

/-! ### `Lij` -/

@[simp] theorem alloc_next (s : State) (v : Val) : (alloc s v).1.next = s.next + 1 := rfl
@[simp] theorem alloc_ref (s : State) (v : Val) : (alloc s v).2 = s.next := rfl
@[simp] theorem alloc_cache (s : State) (v : Val) : (alloc s v).1.cache = s.cache := rfl
@[simp] theorem alloc_returned (s : State) (v : Val) : (alloc s v).1.returned = s.returned := rfl
@[simp] theorem alloc_heap (s : State) (v : Val) (r : Nat) :
    (alloc s v).1.heap r = if r = s.next then v else s.heap r := rfl

/-- everything the rest of `Lij` needs to know about the lookup/fill phase -/
theorem fetch_spec (s : State) (k : Nat) (hp : CachePure s) :
    (fetch s k).1.heap (fetch s k).2 = .pure k 0 ∧ (fetch s k).2 < (fetch s k).1.next ∧
    CachePure (fetch s k).1 ∧ (fetch s k).1.returned = s.returned ∧ s.next ≤ (fetch s k).1.next ∧
    (∀ k' r', (k', r') ∈ (fetch s k).1.cache → (k', r') ∈ s.cache ∨ (r' = s.next ∧ s.next < (fetch s k).1.next)) := by
  unfold fetch
  cases hl : lookup s.cache k with
  | some r =>
    have h1 := hp k r (lookup_some_mem hl)
    exact ⟨h1.1, h1.2, hp, rfl, Nat.le_refl _, fun k' r' h => Or.inl h⟩
  | none =>
    refine ⟨by simp, by simp, ?_, rfl, by simp, ?_⟩
    · intro k' r' hmem
      simp only [alloc_cache, alloc_ref, List.mem_cons, Prod.mk.injEq] at hmem
      rcases hmem with ⟨rfl, rfl⟩ | hmem
      · simp
      · have h1 := hp k' r' hmem
        have hne : r' ≠ s.next := by omega
        simp only [alloc_heap, alloc_next, if_neg hne]
        exact ⟨h1.1, by omega⟩
    · intro k' r' hmem
      simp only [alloc_cache, alloc_ref, List.mem_cons, Prod.mk.injEq] at hmem
      rcases hmem with ⟨rfl, rfl⟩ | hmem
      · right; simp
      · left; exact hmem

theorem lij_out (m : Mode) (s : State) (k x : Nat) (hp : CachePure s) :
    (lij m s k x).2 = pureOut k x := by
  obtain ⟨h1, h2, -, -, -, -⟩ := fetch_spec s k hp
  unfold lij pureOut
  generalize fetch s k = F at h1 h2
  obtain ⟨s1, rc⟩ := F
  simp only at h1 h2
  cases m
  · -- alias
    have e1 : rc ≠ s1.next := by omega
    have e2 : rc ≠ s1.next + 1 := by omega
    have e3 : rc ≠ s1.next + 1 + 1 := by omega
    have a1 : s1.next ≠ s1.next + 1 + 1 := by omega
    have a2 : s1.next ≠ s1.next + 1 := by omega
    simp [hand, h1, e1, e2, e3, a1]
  · -- copy
    have a1 : s1.next ≠ s1.next + 1 + 1 := by omega
    have a2 : s1.next ≠ s1.next + 1 := by omega
    have a3 : s1.next ≠ s1.next + 1 + 1 + 1 := by omega
    simp [hand, h1, a1, a3]

theorem lij_cachePure (m : Mode) (s : State) (k x : Nat) (hp : CachePure s) :
    CachePure (lij m s k x).1 := by
  obtain ⟨-, -, h3, -, -, -⟩ := fetch_spec s k hp
  unfold lij
  generalize fetch s k = F at h3
  obtain ⟨s1, rc⟩ := F
  simp only at h3
  intro k' r' hmem
  cases m
  · simp only [hand, alloc_cache] at hmem
    have h := h3 k' r' hmem
    have e1 : r' ≠ s1.next := by omega
    have e2 : r' ≠ s1.next + 1 := by omega
    have e3 : r' ≠ s1.next + 1 + 1 := by omega
    simp only [hand, alloc_heap, alloc_next, if_neg e1, if_neg e2, if_neg e3]
    exact ⟨h.1, by omega⟩
  · simp only [hand, alloc_cache] at hmem
    have h := h3 k' r' hmem
    have e1 : r' ≠ s1.next := by omega
    have e2 : r' ≠ s1.next + 1 := by omega
    have e3 : r' ≠ s1.next + 1 + 1 := by omega
    have e4 : r' ≠ s1.next + 1 + 1 + 1 := by omega
    simp only [hand, alloc_heap, alloc_next, if_neg e1, if_neg e2, if_neg e3, if_neg e4]
    exact ⟨h.1, by omega⟩

theorem lij_cachePrivate (s : State) (k x : Nat) (hp : CachePure s) (hq : CachePrivate s) :
    CachePrivate (lij .copy s k x).1 := by
  obtain ⟨-, -, h3, h4, h5, h6⟩ := fetch_spec s k hp
  unfold lij
  generalize fetch s k = F at h3 h4 h5 h6
  obtain ⟨s1, rc⟩ := F
  simp only at h3 h4 h5 h6
  simp only [hand, alloc_cache, alloc_returned, alloc_ref, alloc_next, h4]
  constructor
  · intro k' r' hmem t ht
    have hlt := (h3 k' r' hmem).2
    simp only [List.mem_append, List.mem_singleton] at ht
    rcases ht with ht | rfl
    · rcases h6 k' r' hmem with hold | ⟨rfl, _⟩
      · exact hq.1 k' r' hold t ht
      · intro hin; have := hq.2 t ht _ hin; omega
    · simp only [List.mem_cons, List.not_mem_nil, or_false]; omega
  · intro t ht r' hr'
    simp only [List.mem_append, List.mem_singleton] at ht
    rcases ht with ht | rfl
    · have := hq.2 t ht r' hr'; dsimp only; omega
    · simp only [List.mem_cons, List.not_mem_nil, or_false] at hr'; dsimp only; omega

/-! ### the other operations -/

theorem mutate_cachePure_of_private (s : State) (call slot : Nat) (c : Int)
    (hp : CachePure s) (hq : CachePrivate s) : CachePure (mutate s call slot c) := by
  unfold mutate
  split
  · exact hp
  · rename_i t ht
    split
    · exact hp
    · rename_i r hr
      intro k' r' hmem
      have h1 := hp k' r' hmem
      refine ⟨?_, h1.2⟩
      have htm : t ∈ s.returned := List.mem_of_getElem? ht
      have hrm : r ∈ t := List.mem_of_getElem? hr
      have hne : r' ≠ r := fun e => hq.1 k' r' hmem t htm (e ▸ hrm)
      simp only [setHeap, if_neg hne]
      exact h1.1

theorem mutate_cachePrivate (s : State) (call slot : Nat) (c : Int) (hq : CachePrivate s) :
    CachePrivate (mutate s call slot c) := by
  unfold mutate
  split
  · exact hq
  · split
    · exact hq
    · exact hq

theorem clear_cachePure (s : State) : CachePure { s with cache := [] } := by intro k r h; simp at h
theorem clear_cachePrivate (s : State) (hq : CachePrivate s) : CachePrivate { s with cache := [] } :=
  ⟨by intro k r h; simp at h, hq.2⟩

theorem saveload_mem {s : State} {k : Nat} {r : Nat} (h : (k, r) ∈ (saveload s).cache) :
    ∃ i r0, s.cache[i]? = some (k, r0) ∧ r = s.next + i := by
  simp only [saveload] at h
  obtain ⟨i, hi, he⟩ := List.getElem_of_mem h
  simp only [List.getElem_zipWith, List.getElem_range, Prod.mk.injEq] at he
  simp only [List.length_zipWith, List.length_range, Nat.min_self] at hi
  refine ⟨i, (s.cache[i]).2, ?_, he.2.symm⟩
  rw [List.getElem?_eq_getElem hi, ← he.1]

theorem saveload_cachePure (s : State) (hp : CachePure s) : CachePure (saveload s) := by
  intro k r hmem
  obtain ⟨i, r0, hi, rfl⟩ := saveload_mem hmem
  have hlen : i < s.cache.length := by
    by_contra hc
    rw [List.getElem?_eq_none (by omega)] at hi
    cases hi
  have h0 := hp k r0 (List.mem_of_getElem? hi)
  refine ⟨?_, by simp only [saveload]; omega⟩
  simp only [saveload]
  rw [if_pos ⟨by omega, by omega⟩]
  simp only [Nat.add_sub_cancel_left, hi]
  exact h0.1

theorem saveload_cachePrivate (s : State) (hq : CachePrivate s) : CachePrivate (saveload s) := by
  constructor
  · intro k r hmem t ht hin
    obtain ⟨i, r0, hi, rfl⟩ := saveload_mem hmem
    have : s.next + i < s.next := hq.2 t (by simpa [saveload] using ht) _ hin
    omega
  · intro t ht r hr
    have := hq.2 t (by simpa [saveload] using ht) r hr
    simp only [saveload]; omega

/-! ### copy variant: any history -/

theorem step_copy_inv (s : State) (op : Op) (hp : CachePure s) (hq : CachePrivate s) :
    CachePure (step .copy s op).1 ∧ CachePrivate (step .copy s op).1 := by
  cases op with
  | lij k x => exact ⟨lij_cachePure .copy s k x hp, lij_cachePrivate s k x hp hq⟩
  | mutate call slot c => exact ⟨mutate_cachePure_of_private s call slot c hp hq, mutate_cachePrivate s call slot c hq⟩
  | clear => exact ⟨clear_cachePure s, clear_cachePrivate s hq⟩
  | regen => exact ⟨clear_cachePure s, clear_cachePrivate s hq⟩
  | saveload => exact ⟨saveload_cachePure s hp, saveload_cachePrivate s hq⟩

theorem runState_copy_inv (h : List Op) : ∀ (s : State), CachePure s → CachePrivate s →
    CachePure (runState .copy s h) ∧ CachePrivate (runState .copy s h) := by
  induction h with
  | nil => intro s hp hq; exact ⟨hp, hq⟩
  | cons op t ih =>
    intro s hp hq
    have := step_copy_inv s op hp hq
    exact ih _ this.1 this.2

/-- **C14, copy variant**: after ANY history of calls, in-place edits of returned arrays, cache clears,
    regenerations and save/reloads, `Lij` on input `(k, x)` returns the history-free result. -/
theorem history_independent (h : List Op) (k x : Nat) : lijAfter .copy h k x = pureOut k x :=
  lij_out .copy _ k x (runState_copy_inv h init init_cachePure init_cachePrivate).1

/-- Every `Lij` output *along* any history is the history-free one (what the harness compares). -/
theorem run_outputs_pure (h : List Op) : ∀ (s : State), CachePure s → CachePrivate s →
    ∀ o ∈ runOut .copy s h, o = none ∨ ∃ k x, o = some (pureOut k x) := by
  induction h with
  | nil => intro s _ _ o ho; simp [runOut] at ho
  | cons op t ih =>
    intro s hp hq o ho
    have hinv := step_copy_inv s op hp hq
    simp only [runOut, List.mem_cons] at ho
    rcases ho with rfl | ho
    · cases op with
      | lij k x => right; exact ⟨k, x, by simp [step, lij_out .copy s k x hp]⟩
      | mutate _ _ _ => left; rfl
      | clear => left; rfl
      | regen => left; rfl
      | saveload => left; rfl
    · exact ih _ hinv.1 hinv.2 o ho

/-! ### alias variant -/

/-- **The defect, as a theorem about the alias variant**: `L = Lij(k,x); L[0][:] = c; Lij(k,x)` returns `c`
    in the first tensor — for every key, input and constant. -/
theorem alias_not_history_independent (k x : Nat) (c : Int) :
    lijAfter .alias [.lij k x, .mutate 0 0 c] k x = [.const c, .pure x 1, .pure x 2, .pure x 3] := by
  simp [lijAfter, runState, step, lij, fetch, hand, lookup, init, alloc, mutate, setHeap]

theorem alias_violates (k x : Nat) (c : Int) :
    lijAfter .alias [.lij k x, .mutate 0 0 c] k x ≠ pureOut k x := by
  rw [alias_not_history_independent]; simp [pureOut]

/-- … and the poisoned value survives a save/reload and reaches other inputs with the same vacancy key. -/
theorem alias_poison_survives_reload (k x y : Nat) (c : Int) :
    (lijAfter .alias [.lij k x, .mutate 0 0 c, .saveload] k y).head? = some (.const c) := by
  simp [lijAfter, runState, step, lij, fetch, hand, lookup, init, alloc, mutate, setHeap, saveload]

def noMutate : List Op → Prop
  | [] => True
  | .mutate _ _ _ :: _ => False
  | _ :: t => noMutate t

theorem runState_alias_pure (h : List Op) : ∀ (s : State), CachePure s → noMutate h →
    CachePure (runState .alias s h) := by
  induction h with
  | nil => intro s hp _; exact hp
  | cons op t ih =>
    intro s hp hn
    cases op with
    | lij k x => exact ih _ (lij_cachePure .alias s k x hp) hn
    | mutate _ _ _ => exact absurd hn (by simp [noMutate])
    | clear => exact ih _ (clear_cachePure s) hn
    | regen => exact ih _ (clear_cachePure s) hn
    | saveload => exact ih _ (saveload_cachePure s hp) hn

/-- Under aliasing, histories WITHOUT in-place edits are still harmless: the edit of a returned array is the
    only channel. (So call order, cache state, regeneration and reload alone never change a result.) -/
theorem alias_independent_without_mutation (h : List Op) (hn : noMutate h) (k x : Nat) :
    lijAfter .alias h k x = pureOut k x :=
  lij_out .alias _ k x (runState_alias_pure h init init_cachePure hn)

/-! ### non-vacuity -/
example : lijAfter .copy [.lij 1 1, .mutate 0 0 7, .lij 1 2, .saveload, .mutate 1 0 9, .clear] 1 1
    = [.pure 1 0, .pure 1 1, .pure 1 2, .pure 1 3] := history_independent _ 1 1
example : lijAfter .alias [.lij 1 1, .mutate 0 0 7] 1 1 = [.const 7, .pure 1 1, .pure 1 2, .pure 1 3] :=
  alias_not_history_independent 1 1 7

end Onsager.C14
