/-
  C24 — soundness of the decidable tests the driver runs on the real crystal's ops:
  `groupClosedB` ⇒ the ops act as a group on valid states; `crysOpB` ⇒ `|dx|²` is invariant.
-/
import OnsagerProofs.C24Basic
import Mathlib.Tactic.LinearCombination

namespace Onsager.C24

theorem Op.site_lt {g : Op} {i : Nat} (h : i < g.imap.length) : g.site i = g.imap[i] := by
  simp [Op.site, h]

theorem Op.site_ge {g : Op} {i : Nat} (h : ¬ i < g.imap.length) : g.site i = i := by
  simp [Op.site, h]

theorem wfB_iff {n : Nat} {g : Op} :
    Op.wfB n g = true ↔ g.imap.length = n ∧ g.shift.length = n ∧ ∀ x ∈ g.imap, x < n := by
  simp [Op.wfB, and_assoc]

theorem wf_site_lt {n : Nat} {g : Op} (h : Op.wfB n g = true) {i : Nat} (hi : i < n) : g.site i < n := by
  obtain ⟨h1, _, h3⟩ := wfB_iff.1 h
  have hi' : i < g.imap.length := by omega
  rw [Op.site_lt hi']
  exact h3 _ (List.getElem_mem hi')

theorem wf_valid {n : Nat} {g : Op} (h : Op.wfB n g = true) {s : PS} (hs : Valid n s) : Valid n (act g s) :=
  ⟨wf_site_lt h hs.1, wf_site_lt h hs.2⟩

theorem comp_site {g h : Op} {i : Nat} (hi : i < h.imap.length) : (g.comp h).site i = g.site (h.site i) := by
  have : i < (g.comp h).imap.length := by simp [Op.comp, hi]
  rw [Op.site_lt this]
  simp [Op.comp]

theorem comp_sh {g h : Op} {i : Nat} (hi : i < h.imap.length) :
    (g.comp h).sh i = g.rot.mulVec (h.sh i) + g.sh (h.site i) := by
  simp [Op.sh, Op.comp, List.getD_eq_getElem?_getD, hi]

/-- composition of op data is composition of actions (on valid states) -/
theorem act_comp {n : Nat} {g h : Op} (hh : h.imap.length = n) {s : PS} (hs : Valid n s) :
    act (g.comp h) s = act g (act h s) := by
  have hi : s.i < h.imap.length := by rw [hh]; exact hs.1
  have hj : s.j < h.imap.length := by rw [hh]; exact hs.2
  apply PS.ext'
  · simp [act, comp_site hi]
  · simp [act, comp_site hj]
  · have hrot : (g.comp h).rot = g.rot.mul h.rot := rfl
    simp only [act]
    rw [comp_sh hi, comp_sh hj, hrot, Mat.mul_mulVec, Mat.mulVec_sub, Mat.mulVec_add]
    ext <;> simp <;> ring

theorem norm_sh {g : Op} {i : Nat} (hi : i < g.shift.length) : g.norm.sh i = g.sh i - g.sh 0 := by
  simp [Op.sh, Op.norm, List.getD_eq_getElem?_getD, hi]

/-- only shift differences enter the action -/
theorem act_norm {n : Nat} {g : Op} (hg : g.shift.length = n) {s : PS} (hs : Valid n s) :
    act g.norm s = act g s := by
  have hi : s.i < g.shift.length := by rw [hg]; exact hs.1
  have hj : s.j < g.shift.length := by rw [hg]; exact hs.2
  apply PS.ext'
  · rfl
  · rfl
  · show g.norm.rot.mulVec s.R + g.norm.sh s.j - g.norm.sh s.i = g.rot.mulVec s.R + g.sh s.j - g.sh s.i
    rw [norm_sh hi, norm_sh hj]
    show g.rot.mulVec s.R + _ - _ = _
    ext <;> simp <;> ring

theorem act_eq_of_norm_eq {n : Nat} {k c : Op} (hk : k.shift.length = n) (hc : c.shift.length = n)
    (h : k.norm = c.norm) {s : PS} (hs : Valid n s) : act k s = act c s := by
  rw [← act_norm hk hs, ← act_norm hc hs, h]

theorem comp_shift_length (g h : Op) : (g.comp h).shift.length = h.imap.length := by
  simp [Op.comp]

theorem ident_sh (n i : Nat) : (Op.ident n).sh i = Vec.zero := by
  simp only [Op.sh, Op.ident, List.getD_eq_getElem?_getD, List.getElem?_replicate]
  split <;> rfl

theorem ident_site (n i : Nat) : (Op.ident n).site i = i := by
  unfold Op.site
  split
  · simp [Op.ident]
  · rfl

theorem act_ident (n : Nat) (s : PS) : act (Op.ident n) s = s := by
  apply PS.ext'
  · exact ident_site n s.i
  · exact ident_site n s.j
  · simp only [act, ident_sh]
    show Mat.one.mulVec s.R + Vec.zero - Vec.zero = s.R
    rw [Mat.one_mulVec]
    ext <;> simp

/-- **the decidable group test is sound**: if `groupClosedB n G` holds, the ops act as a group on
    the states whose site indices are `< n`. -/
theorem groupClosedB_sound {n : Nat} {G : List Op} (h : groupClosedB n G = true) :
    GroupLike G (Valid n) := by
  simp only [groupClosedB, Bool.and_eq_true, Bool.not_eq_true', List.all_eq_true, List.any_eq_true,
    beq_iff_eq, List.contains_iff_mem, List.mem_map] at h
  obtain ⟨⟨⟨hne, hwf⟩, hcomp⟩, hinv⟩ := h
  have hlen : ∀ g ∈ G, g.imap.length = n ∧ g.shift.length = n := fun g hg =>
    ⟨(wfB_iff.1 (hwf g hg)).1, (wfB_iff.1 (hwf g hg)).2.1⟩
  refine ⟨?_, ?_, ?_, ?_⟩
  · intro hnil; simp [hnil] at hne
  · intro g hg s hs; exact wf_valid (hwf g hg) hs
  · intro g hg k hk
    obtain ⟨c, hc, hcn⟩ := hcomp g hg k hk
    refine ⟨c, hc, fun s hs => ?_⟩
    have h1 : (g.comp k).shift.length = n := by rw [comp_shift_length]; exact (hlen k hk).1
    rw [act_eq_of_norm_eq (hlen c hc).2 h1 hcn hs, act_comp (hlen k hk).1 hs]
  · intro g hg
    obtain ⟨k, hk, hkn⟩ := hinv g hg
    refine ⟨k, hk, fun s hs => ?_⟩
    have h1 : (k.comp g).shift.length = n := by rw [comp_shift_length]; exact (hlen g hg).1
    rw [← act_comp (hlen g hg).1 hs, ← act_norm h1 hs, hkn, act_ident]

/-! ### `|dx|²` is invariant under a checked crystal symmetry -/

@[ext] theorem QVec.ext {a b : QVec} (hx : a.x = b.x) (hy : a.y = b.y) (hz : a.z = b.z) : a = b := by
  cases a; cases b; simp_all

@[simp] theorem QVec.add_x (a b : QVec) : (a + b).x = a.x + b.x := rfl
@[simp] theorem QVec.add_y (a b : QVec) : (a + b).y = a.y + b.y := rfl
@[simp] theorem QVec.add_z (a b : QVec) : (a + b).z = a.z + b.z := rfl
@[simp] theorem QVec.sub_x (a b : QVec) : (a - b).x = a.x - b.x := rfl
@[simp] theorem QVec.sub_y (a b : QVec) : (a - b).y = a.y - b.y := rfl
@[simp] theorem QVec.sub_z (a b : QVec) : (a - b).z = a.z - b.z := rfl
@[simp] theorem QVec.neg_x (a : QVec) : (-a).x = -a.x := rfl
@[simp] theorem QVec.neg_y (a : QVec) : (-a).y = -a.y := rfl
@[simp] theorem QVec.neg_z (a : QVec) : (-a).z = -a.z := rfl
@[simp] theorem QVec.ofVec_x (v : Vec) : (QVec.ofVec v).x = (v.x : Rat) := rfl
@[simp] theorem QVec.ofVec_y (v : Vec) : (QVec.ofVec v).y = (v.y : Rat) := rfl
@[simp] theorem QVec.ofVec_z (v : Vec) : (QVec.ofVec v).z = (v.z : Rat) := rfl
@[simp] theorem Mat.mulQ_x (M : Mat) (v : QVec) : (M.mulQ v).x = QVec.dot (QVec.ofVec M.r1) v := rfl
@[simp] theorem Mat.mulQ_y (M : Mat) (v : QVec) : (M.mulQ v).y = QVec.dot (QVec.ofVec M.r2) v := rfl
@[simp] theorem Mat.mulQ_z (M : Mat) (v : QVec) : (M.mulQ v).z = QVec.dot (QVec.ofVec M.r3) v := rfl

theorem Mat.mulQ_add (M : Mat) (v w : QVec) : M.mulQ (v + w) = M.mulQ v + M.mulQ w := by
  ext <;> simp [QVec.dot] <;> ring

theorem Mat.mulQ_ofVec (M : Mat) (v : Vec) : M.mulQ (QVec.ofVec v) = QVec.ofVec (M.mulVec v) := by
  ext <;> simp [QVec.dot, Vec.dot]

theorem norm2_eq_ip (C : Crys) (d : QVec) : C.norm2 d = C.ip d d := rfl

/-- `|rot·d|² = |d|²` when `rotᵀ M rot = M` -/
theorem norm2_mulQ {C : Crys} {g : Op} (h : metricOKB C g = true) (d : QVec) :
    C.norm2 (g.rot.mulQ d) = C.norm2 d := by
  simp only [metricOKB, Bool.and_eq_true, beq_iff_eq] at h
  obtain ⟨⟨⟨⟨⟨⟨⟨⟨h11, h12⟩, h13⟩, h21⟩, h22⟩, h23⟩, h31⟩, h32⟩, h33⟩ := h
  simp only [Crys.ip, Mat.col1, Mat.col2, Mat.col3, QVec.dot] at h11 h12 h13 h21 h22 h23 h31 h32 h33
  simp only [Crys.norm2, QVec.dot, Mat.mulQ_x, Mat.mulQ_y, Mat.mulQ_z, QVec.ofVec_x, QVec.ofVec_y, QVec.ofVec_z]
  linear_combination d.x * d.x * h11 + d.x * d.y * h12 + d.x * d.z * h13 + d.y * d.x * h21 + d.y * d.y * h22 +
    d.y * d.z * h23 + d.z * d.x * h31 + d.z * d.y * h32 + d.z * d.z * h33

theorem dxOf_act {C : Crys} {g : Op} (h : shiftOKB C g = true) {s : PS} (hs : Valid C.nsites s) :
    dxOf C (act g s) = g.rot.mulQ (dxOf C s) := by
  simp only [shiftOKB, List.all_eq_true, List.mem_range, beq_iff_eq] at h
  have hh := h s.i hs.1 s.j hs.2
  have e1 : dxOf C (act g s)
      = QVec.ofVec (g.rot.mulVec s.R) + QVec.ofVec (g.sh s.j - g.sh s.i) + (C.pos (g.site s.j) - C.pos (g.site s.i)) := by
    simp only [dxOf, act]
    ext <;> simp <;> ring
  rw [e1, hh, ← Mat.mulQ_ofVec]
  have e2 : dxOf C s = QVec.ofVec s.R + (C.pos s.j - C.pos s.i) := by
    simp only [dxOf]
    ext <;> simp <;> ring
  rw [e2, Mat.mulQ_add]
  ext <;> simp <;> ring

/-- **a checked crystal symmetry preserves the sort key** `|dx|²` of every valid state -/
theorem crysOpB_x2_invariant {C : Crys} {g : Op} (h : crysOpB C g = true) {s : PS}
    (hs : Valid C.nsites s) : x2 C (act g s) = x2 C s := by
  simp only [crysOpB, Bool.and_eq_true] at h
  simp only [x2, dxOf_act h.2 hs, norm2_mulQ h.1]

end Onsager.C24
