#!/venv/bin/python
"""
Entry point of the verification machinery:  ./check <ID> quick|thorough [--replay path]

Decision procedure (DESIGN.md section 3):
  1. regenerate lean/Generated/<ID>Facts.lean from /repo's current source (translator half of the tie)
  2. build the property's Lean modules; audit axioms of every property theorem; grep forbidden tokens
  3. run the correspondence between the Lean model (driver) and the implementation
  4. all obligations discharged and every comparison agrees       -> exit 0
     otherwise run the failing-input search on the implementation:
        concrete failing input  -> VIOLATION property=<ID> replay=<path>             (exit 1)
        none found              -> VIOLATION property=<ID> replay=<path> no-failing-input-found (exit 1)
     violations whose signature is listed open in known_findings.json print KNOWN-FINDING and do not fail
  5. internal error / time-out -> exit 2, never a VIOLATION line
"""
import sys, os, json, time, re, subprocess, importlib, random, traceback, hashlib, fcntl, argparse, warnings
warnings.simplefilter('ignore')

VERIF = os.path.dirname(os.path.dirname(os.path.abspath(__file__)))
REPO = os.environ.get('ONSAGER_REPO', '/repo')
LEAN = os.path.join(VERIF, 'lean')
sys.path.insert(0, REPO)
sys.path.insert(0, os.path.join(VERIF, 'harness'))
os.environ.setdefault('ONSAGER_VERIF', '1')

ALLOWED_AXIOMS = {'propext', 'Classical.choice', 'Quot.sound'}
FORBIDDEN = re.compile(r'\bsorry\b|\badmit\b|^\s*axiom\s|native_decide|bv_decide|implemented_by|\bunsafe\s|maxHeartbeats\s+0\b',
                       re.M)


class InternalError(Exception):
    pass


def strip_lean_comments(src):
    # remove /- ... -/ (nested) and -- ... comments
    out, i, depth, n = [], 0, 0, len(src)
    while i < n:
        if src.startswith('/-', i):
            depth += 1; i += 2; continue
        if depth > 0 and src.startswith('-/', i):
            depth -= 1; i += 2; continue
        if depth > 0:
            if src[i] == '\n': out.append('\n')
            i += 1; continue
        if src.startswith('--', i):
            while i < n and src[i] != '\n': i += 1
            continue
        out.append(src[i]); i += 1
    return ''.join(out)


class Ctx:
    """Everything a property module needs: seeded rng, tier, Lean driver access, recorders."""

    def __init__(self, pid, tier, seed, meta):
        self.pid, self.tier, self.seed, self.meta = pid, tier, seed, meta
        self.rng = random.Random(seed * 1000003 + int(hashlib.sha1(pid.encode()).hexdigest()[:6], 16))
        self.t0 = time.time()
        self.evaluations = 0
        self.nontrivial = set()
        self.samples = []
        self.disagreements = []   # model vs implementation differ (not yet a violation)
        self.violations = []      # concrete failing inputs on the implementation: dict(sig=, what=, replay=)
        self.dist = {}
        self.traces = 0
        self.notes = []
        self.quick = (tier == 'quick')

    # ---- bookkeeping
    def elapsed(self):
        return time.time() - self.t0

    def budget_left(self, total_quick=150.0, total_thorough=1500.0):
        return (total_quick if self.quick else total_thorough) - self.elapsed()

    def case(self, key, nontrivial=True, sample=None):
        """Count one evaluated case; `key` identifies it (hashable/str) for the distinct count."""
        self.evaluations += 1
        if nontrivial:
            self.nontrivial.add(hashlib.sha1(repr(key).encode()).hexdigest()[:16])
        if sample is not None and len(self.samples) < 6:
            self.samples.append(sample)

    def count(self, name, k=1):
        self.dist[name] = self.dist.get(name, 0) + k

    def disagree(self, what, replay, sig=None):
        """Model and implementation differ on a case.  `sig`: signature of the implementation-side
        violation that explains the difference, if the module already knows it."""
        self.disagreements.append(dict(what=what, replay=replay, sig=sig))

    def violation(self, sig, what, replay):
        """A concrete input/history on which the IMPLEMENTATION breaks the property statement."""
        self.violations.append(dict(sig=sig, what=what, replay=replay))

    def note(self, s):
        self.notes.append(s)

    # ---- Lean driver
    def lean(self, driver, lines, timeout=600):
        """Pipe request lines to `lake env lean --run <driver>`; returns the answer lines."""
        if not lines:
            return []
        inp = '\n'.join(lines) + '\n'
        p = subprocess.run(['lake', 'env', 'lean', '--run', driver], cwd=LEAN, input=inp,
                           capture_output=True, text=True, timeout=timeout)
        if p.returncode != 0:
            raise InternalError('lean driver %s failed: %s' % (driver, (p.stderr or p.stdout)[-2000:]))
        out = p.stdout.split('\n')
        if out and out[-1] == '': out.pop()
        if len(out) != len(lines):
            raise InternalError('lean driver %s: %d answers for %d requests' % (driver, len(out), len(lines)))
        self.traces += len(lines)
        return out


def lake_build(targets, timeout=3000):
    lock = open(os.path.join(LEAN, '.verif.lock'), 'w')
    fcntl.flock(lock, fcntl.LOCK_EX)
    try:
        p = subprocess.run(['lake', 'build'] + targets, cwd=LEAN, capture_output=True, text=True, timeout=timeout)
    finally:
        fcntl.flock(lock, fcntl.LOCK_UN); lock.close()
    return p.returncode, p.stdout + p.stderr


def write_if_changed(path, text):
    try:
        if open(path).read() == text: return False
    except FileNotFoundError:
        pass
    os.makedirs(os.path.dirname(path), exist_ok=True)
    tmp = path + '.tmp%d' % os.getpid()
    open(tmp, 'w').write(text)
    os.replace(tmp, path)
    return True


def module_file(mod):
    return os.path.join(LEAN, mod.replace('.', '/') + '.lean')


def audit(pid, meta, broken):
    """#print axioms for every property theorem; returns (obligations, discharged, details)."""
    thms = list(meta.get('theorems', [])) + list(meta.get('tie_theorems', []))
    imports = [m for m in meta['lean_modules'] if m not in broken]
    src = ''.join('import %s\n' % m for m in imports)
    for t in thms:
        src += '#print axioms %s\n' % t
    path = os.path.join(LEAN, 'Audit', pid + '.lean')
    write_if_changed(path, src)
    p = subprocess.run(['lake', 'env', 'lean', path], cwd=LEAN, capture_output=True, text=True, timeout=1200)
    txt = p.stdout + p.stderr
    details, ok = {}, 0
    # outputs: "'name' depends on axioms: [a, b]"  or  "'name' does not depend on any axioms"
    flat = re.sub(r'\s+', ' ', txt)
    for t in thms:
        m = re.search(r"'%s' depends on axioms: \[([^\]]*)\]" % re.escape(t), flat)
        if m:
            ax = {a.strip() for a in m.group(1).split(',') if a.strip()}
            bad = ax - ALLOWED_AXIOMS
            details[t] = sorted(ax)
            if not bad: ok += 1
            else: details[t] = ['FORBIDDEN'] + sorted(ax)
        elif re.search(r"'%s' does not depend on any axioms" % re.escape(t), flat):
            details[t] = []; ok += 1
        else:
            details[t] = ['MISSING']
    return len(thms), ok, details, txt


def load_findings():
    path = os.path.join(VERIF, 'known_findings.json')
    try:
        d = json.load(open(path))
    except FileNotFoundError:
        d = {'findings': []}
    return d


def main():
    ap = argparse.ArgumentParser()
    ap.add_argument('pid'); ap.add_argument('tier', nargs='?', default=os.environ.get('VERIF_TIER', 'quick'))
    ap.add_argument('--replay', default=None)
    a = ap.parse_args()
    pid, tier = a.pid.upper(), a.tier
    if tier not in ('quick', 'thorough'): tier = 'quick'
    seed = int(os.environ.get('VERIF_SEED', '0') or 0)
    t0 = time.time()
    try:
        mod = importlib.import_module('props.' + pid.lower())
    except Exception:
        traceback.print_exc(); print('INTERNAL-ERROR cannot load property module'); sys.exit(2)
    meta = mod.META
    ctx = Ctx(pid, tier, seed, meta)
    if a.replay:
        if hasattr(mod, 'replay'):
            rc = mod.replay(ctx, json.load(open(a.replay)))
            sys.exit(rc or 0)
        print(open(a.replay).read()); sys.exit(0)
    try:
        broken_reasons = []
        # 1. translator: regenerate facts from the current source
        facts_changed = False
        if hasattr(mod, 'extract'):
            try:
                for fname, text in mod.extract(REPO).items():
                    facts_changed |= write_if_changed(os.path.join(LEAN, 'Generated', fname), text)
            except Exception as e:
                broken_reasons.append('extractor failed on current source: %r' % (e,))
        # 2. build + audit + grep
        broken_mods = []
        rc, out = lake_build(meta['lean_modules'])
        if rc != 0:
            for m in meta['lean_modules']:
                rc1, out1 = lake_build([m])
                if rc1 != 0:
                    broken_mods.append(m)
                    errs = [l for l in out1.split('\n') if 'error' in l][:6]
                    broken_reasons.append('Lean module %s no longer checks: %s' % (m, ' / '.join(errs)))
        model_mods = [m for m in meta['lean_modules'] if m.startswith('OnsagerModel')]
        if any(m in broken_mods for m in model_mods):
            raise InternalError('model does not build: ' + '; '.join(broken_reasons))
        nobl, nok, details, audit_txt = audit(pid, meta, broken_mods)
        if tier == 'thorough':
            # independent re-check of the compiled proof modules by the toolchain's stand-alone kernel (leanchecker)
            lc = [m for m in meta['lean_modules'] if m not in broken_mods]
            try:
                pc = subprocess.run(['lake', 'env', 'leanchecker'] + lc, cwd=LEAN, capture_output=True, text=True, timeout=1500)
                ctx.note('leanchecker on %d modules: exit %d' % (len(lc), pc.returncode))
                if pc.returncode != 0:
                    broken_reasons.append('leanchecker rejects the compiled modules: %s' % (pc.stdout + pc.stderr)[-400:])
            except FileNotFoundError:
                ctx.note('leanchecker not available')
        for t, ax in details.items():
            if ax and ax[0] in ('MISSING', 'FORBIDDEN'):
                broken_reasons.append('theorem %s: %s' % (t, ' '.join(ax)))
        for m in meta['lean_modules']:
            if m.startswith('Generated'): continue
            hit = FORBIDDEN.search(strip_lean_comments(open(module_file(m)).read()))
            if hit:
                raise InternalError('forbidden token %r in %s' % (hit.group(0), m))
        # 3. correspondence + oracles.  An exception that escapes the property module (raised by the implementation, or by the
        # harness because the implementation returned something the correspondence cannot work with) means the correspondence
        # no longer checks: it is recorded as a disagreement (-> failing-input search, else `no-failing-input-found`), not as
        # an internal error.  Time-outs and failures of the Lean build / audit stay internal errors (exit 2).
        try:
            mod.run(ctx)
        except (subprocess.TimeoutExpired, KeyboardInterrupt, MemoryError, InternalError):
            raise
        except Exception as e:
            tb = traceback.format_exc()
            sys.stderr.write(tb)
            ctx.disagree('the correspondence run of %s could not be completed: %s: %s' % (pid, type(e).__name__, str(e)[:300]),
                         dict(exception=type(e).__name__, message=str(e)[:2000], traceback=tb[-4000:]), sig='correspondence-aborted:%s' % type(e).__name__)
        # 4. decision
        findings = [f for f in load_findings()['findings'] if f['property'] == pid]
        open_f = [f for f in findings if f.get('status') == 'open']
        need_search = bool(broken_reasons or ctx.disagreements)
        if need_search and not ctx.violations and hasattr(mod, 'search'):
            try:
                mod.search(ctx, broken_reasons + [d['what'] for d in ctx.disagreements])
            except (subprocess.TimeoutExpired, KeyboardInterrupt, MemoryError, InternalError):
                raise
            except Exception as e:
                sys.stderr.write(traceback.format_exc())
                ctx.note('failing-input search aborted: %s: %s' % (type(e).__name__, str(e)[:300]))
        new_viol, known_hit = [], {}
        for v in ctx.violations:
            f = next((f for f in open_f if re.fullmatch(f['signature'], v['sig'])), None)
            if f is not None: known_hit.setdefault(f['id'], v)
            else: new_viol.append(v)
        exit_code = 0
        os.makedirs(os.path.join(VERIF, 'replays'), exist_ok=True)
        for f in open_f:
            if f['id'] in known_hit:
                print('KNOWN-FINDING: property=%s %s' % (pid, f['what']))
            else:
                print('KNOWN-FINDING: property=%s %s (not re-demonstrated by this run)' % (pid, f['what']))
        unexplained = []
        if need_search:
            # a disagreement / broken obligation that is fully explained by known findings does not alarm
            unexplained = [d for d in ctx.disagreements
                           if not (d.get('sig') and any(re.fullmatch(f['signature'], d['sig']) for f in open_f))]
        if new_viol:
            v = new_viol[0]
            rp = os.path.join(VERIF, 'replays', '%s_%s_%d.json' % (pid, tier, seed))
            json.dump(dict(property=pid, kind='failing-input', signature=v['sig'], what=v['what'],
                           replay=v['replay'], all=[x['sig'] for x in new_viol][:50],
                           broken=broken_reasons), open(rp, 'w'), indent=1, default=str)
            print('VIOLATION property=%s replay=%s' % (pid, os.path.relpath(rp, VERIF)))
            exit_code = 1
        elif broken_reasons or unexplained:
            rp = os.path.join(VERIF, 'replays', '%s_%s_%d.json' % (pid, tier, seed))
            json.dump(dict(property=pid, kind='no-failing-input-found',
                           broken_obligations=broken_reasons,
                           disagreements=unexplained[:20]), open(rp, 'w'), indent=1, default=str)
            print('VIOLATION property=%s replay=%s no-failing-input-found' % (pid, os.path.relpath(rp, VERIF)))
            exit_code = 1
        # 5. evidence
        ev = dict(property_id=pid, tier=tier, seed=seed, level='proof', wall_s=round(time.time() - t0, 2),
                  violations=len(new_viol) + (1 if (exit_code == 1 and not new_viol) else 0),
                  coverage=dict(
                      obligations=nobl, discharged=nok if not broken_mods else min(nok, nobl - 1),
                      checker_cmd='cd lean && lake build %s && lake env lean Audit/%s.lean' % (' '.join(meta['lean_modules']), pid),
                      trusted_base=['Lean 4.33.0 kernel', 'axioms: ' + ', '.join(sorted(ALLOWED_AXIOMS)),
                                    'Mathlib v4.33.0 (modules imported by the proof files)',
                                    'harness/vcheck.py, harness/props/%s.py (correspondence, rationalisation, oracles)' % pid.lower()]
                                   + list(meta.get('trusted', [])),
                      theorems=details,
                      evaluations=ctx.evaluations, distinct_nontrivial=len(ctx.nontrivial),
                      rule=meta.get('rule', ''), samples=ctx.samples or ['(no dynamic cases)'],
                      traces_validated_against_impl=ctx.traces, distribution=ctx.dist,
                      disagreements=len(ctx.disagreements), known_findings_seen=sorted(known_hit),
                      facts_regenerated=facts_changed, notes=ctx.notes),
                  assumptions=list(meta.get('assumptions', [])))
        os.makedirs(os.path.join(VERIF, 'evidence'), exist_ok=True)
        json.dump(ev, open(os.path.join(VERIF, 'evidence', pid + '.json'), 'w'), indent=1, default=str)
        print('%s %s seed=%d: obligations %d/%d, cases %d (%d distinct non-trivial), disagreements %d, violations %d, %.1fs'
              % (pid, tier, seed, nok, nobl, ctx.evaluations, len(ctx.nontrivial), len(ctx.disagreements),
                 len(new_viol), time.time() - t0))
        sys.exit(exit_code)
    except SystemExit:
        raise
    except subprocess.TimeoutExpired as e:
        print('INTERNAL-ERROR timeout: %r' % (e,)); sys.exit(2)
    except Exception:
        traceback.print_exc(); print('INTERNAL-ERROR'); sys.exit(2)


if __name__ == '__main__':
    main()
