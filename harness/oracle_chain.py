"""
Independent oracle for the vacancy-mediated coefficients: the exact one-solute / one-vacancy Markov chain on a
periodic n x n (x n) supercell, solved densely/sparsely in floats, for several n, extrapolated to n -> infinity.

Nothing here uses vector stars, Green functions or the Dyson equation: states are (solute site in cell 0,
vacancy site, vacancy cell mod n); rates come from the same thermodynamic data through the calculator's own
classification of transitions (om1_jn / om2_jn classes), which C26 checks separately.

    L_ab = (1/N) [ 1/2 sum_{x,y} p_x w_xy d^a_xy d^b_xy  -  sum_x eta^a_x B^b_x ],   W eta^a = -B^a
with d^s (solute displacement) and d^v (vacancy displacement) per transition; L1vv = Lvv(pair) - (n^d N - 1) L0vv.
Use odd n so that the centred representative of a cell vector is unambiguous.
"""
import itertools
import numpy as np
import scipy.sparse as sp
import scipy.sparse.linalg as spla


def _centered(R, n):
    return ((np.asarray(R) + n // 2) % n) - n // 2


def chain_L(calc, betafree, n):
    """Returns (L0vv, Lss, Lsv, L1vv) of the periodic chain with n cells per direction."""
    from onsager import crystalStars as stars
    bFV, bFS, bFSV, bFT0, bFT1, bFT2 = [np.asarray(x, dtype=float) for x in betafree]
    crys, chem, dim, N = calc.crys, calc.chem, calc.crys.dim, calc.N
    inv = calc.invmap
    basis = crys.basis[chem]
    # probabilities as the calculator normalises them
    pV = np.array([np.exp(min(bFV) - bFV[inv[i]]) for i in range(N)]); pV *= N / pV.sum()
    pS = np.array([np.exp(min(bFS) - bFS[inv[i]]) for i in range(N)]); pS *= N / pS.sum()
    # vacancy jumps: (i, j, R, dx, jt)
    jumps = []
    for jt, cls in enumerate(calc.om0_jn):
        for (i, j), dx in cls:
            R = np.round(np.dot(crys.invlatt, dx) - basis[j] + basis[i]).astype(int)
            jumps.append((i, j, R, np.asarray(dx, dtype=float), jt))
    om1 = {}
    for c, cls in enumerate(calc.om1_jn):
        for (si, sf), dx in cls: om1[(si, sf)] = c
    om2 = {}
    for c, cls in enumerate(calc.om2_jn):
        for (si, sf), dx in cls: om2[(si, sf)] = c
    kin, thermo = calc.kinetic, calc.thermo
    # lone vacancy (reference) per unit cell
    L0 = np.zeros((dim, dim)); W0 = np.zeros((N, N)); B0 = np.zeros((N, dim))
    for (i, j, R, dx, jt) in jumps:
        r = pV[i] * np.exp(-bFT0[jt] + bFV[inv[i]])
        L0 += 0.5 * r * np.outer(dx, dx); W0[i, j] += r; W0[i, i] -= r; B0[i] += r * dx
    eta0 = -np.dot(np.linalg.pinv(W0), B0)
    L0vv = (L0 - np.dot(eta0.T, B0)) / N
    # pair chain
    cells = list(itertools.product(range(n), repeat=dim))
    cellidx = {c: k for k, c in enumerate(cells)}
    ncell = len(cells)

    def sid(s, v, c):
        return (s * N + v) * ncell + cellidx[c]

    nst = N * N * ncell
    alive = np.ones(nst, dtype=bool)
    for s in range(N): alive[sid(s, s, tuple([0] * dim))] = False
    P = np.zeros(nst)
    bF = np.zeros(nst)
    PSof = {}
    for s in range(N):
        for v in range(N):
            for c in cells:
                x = sid(s, v, c)
                if not alive[x]: continue
                R = _centered(c, n)
                PS = stars.PairState.fromcrys_latt(crys, chem, (s, v), R)
                PSof[x] = PS
                b = bFS[inv[s]] + bFV[inv[v]]
                p = pS[s] * pV[v]
                ti = thermo.stateindex(PS)
                if ti is not None:
                    st = thermo.index[ti]
                    b += bFSV[st]; p *= np.exp(-bFSV[st])
                P[x], bF[x] = p, b
    rows, cols, vals = [], [], []
    diag = np.zeros(nst)
    Bs = np.zeros((nst, dim)); Bv = np.zeros((nst, dim))
    Dss = np.zeros((dim, dim)); Dsv = np.zeros((dim, dim)); Dvv = np.zeros((dim, dim))
    for s in range(N):
        for v in range(N):
            for c in cells:
                x = sid(s, v, c)
                if not alive[x]: continue
                PS = PSof[x]
                kx = kin.stateindex(PS)
                for (i, j, Rj, dx, jt) in jumps:
                    if i != v: continue
                    cy = tuple((np.asarray(c) + Rj) % n)
                    if j == s and all(t == 0 for t in cy):
                        # exchange: vacancy lands on the solute; new relative state is -PS
                        ky = kin.stateindex(-PS)
                        cls = om2.get((kx, ky))
                        if cls is None:
                            raise ValueError('exchange %s not classified by om2_jn' % (PS,))
                        w = np.exp(-bFT2[cls] + bF[x])
                        cneg = tuple((-np.asarray(c)) % n)
                        y = sid(v, s, cneg)
                        ds, dv = PS.dx, -PS.dx
                    else:
                        y = sid(s, j, cy)
                        ky = kin.stateindex(PSof[y]) if kx is not None else None
                        cls = om1.get((kx, ky)) if (kx is not None and ky is not None) else None
                        if cls is not None:
                            w = np.exp(-bFT1[cls] + bF[x])
                        else:
                            w = np.exp(-bFT0[jt] + bFV[inv[v]])
                        ds, dv = np.zeros(dim), dx
                    r = P[x] * w
                    rows.append(x); cols.append(y); vals.append(r); diag[x] -= r
                    Bs[x] += r * ds; Bv[x] += r * dv
                    Dss += 0.5 * r * np.outer(ds, ds); Dsv += 0.5 * r * np.outer(ds, dv); Dvv += 0.5 * r * np.outer(dv, dv)
    W = sp.coo_matrix((vals, (rows, cols)), shape=(nst, nst)).tocsr()
    asym = abs(W - W.T).max()
    if asym > 1e-9 * abs(W).max():
        raise ValueError('chain violates detailed balance: %g' % asym)
    W = W + sp.diags(diag)
    keep = np.where(alive)[0][1:]      # pin one state (gauge); remove dead states
    Wk = W[keep, :][:, keep].tocsc()
    rhs = -np.hstack([Bs[keep], Bv[keep]])
    sol = spla.splu(Wk).solve(rhs)
    eS = np.zeros((nst, dim)); eV = np.zeros((nst, dim))
    eS[keep] = sol[:, :dim]; eV[keep] = sol[:, dim:]
    Lss = (Dss - eS.T @ Bs) / N
    Lsv = (Dsv - eS.T @ Bv) / N
    Lvv = (Dvv - eV.T @ Bv) / N
    # the calculator's convention: cv counts all vacancies, the solute blocks one of the ncell*N sites
    L1vv = Lvv - (ncell * N - 1) * L0vv
    return L0vv, Lss, Lsv, L1vv


def extrapolate(calc, betafree, sizes):
    """Richardson extrapolation in 1/n^d from three sizes; returns (L tuple, crude error estimate tuple)."""
    dim = calc.crys.dim
    vals = [chain_L(calc, betafree, n) for n in sizes]
    out, err = [], []
    for k in range(4):
        a, b, c = vals[0][k], vals[1][k], vals[2][k]
        x = [1.0 / n ** dim for n in sizes]
        # linear in 1/n^d through the last two points; error ~ difference to the fit through the first two
        e1 = c + (c - b) * x[2] / (x[1] - x[2])
        e0 = b + (b - a) * x[1] / (x[0] - x[1])
        out.append(e1); err.append(np.abs(e1 - e0).max())
    return tuple(out), tuple(err), vals
