"""
Independent oracle for the vacancy-mediated coefficients: the exact one-solute / one-vacancy Markov chain on a
periodic n x n (x n) supercell, for several n, extrapolated to n -> infinity.

Nothing here uses vector stars, Green functions or the Dyson equation: states are (solute site in cell 0,
vacancy site, vacancy cell mod n); rates come from the same thermodynamic data through the calculator's own
classification of transitions (om1_jn / om2_jn classes), which C26 checks separately.

    L_ab = (1/N) [ 1/2 sum_{x,y} p_x w_xy d^a_xy d^b_xy  -  sum_x eta^a_x B^b_x ],   W eta^a = -B^a
with d^s (solute displacement) and d^v (vacancy displacement) per transition; L1vv = Lvv(pair) - (n^d N - 1) L0vv
(the calculator's convention: cv counts all vacancies, the solute blocks one of the n^d N sites).
Use odd n so that the centred representative of a cell vector is unambiguous.

All thermodynamic input enters through "activities" a = exp(-beta F) (floats or exact Fractions): the same builder
produces the float chain (solved sparsely here) and the exact rational chain (solved by the Lean model Drive/Chain.lean,
whose results are theorems' subjects: OnsagerProofs/Chain.lean).
"""
import itertools
from fractions import Fraction
import numpy as np
import scipy.sparse as sp
import scipy.sparse.linalg as spla


def _centered(R, n):
    return ((np.asarray(R) + n // 2) % n) - n // 2


def activities_from_betafree(betafree):
    return tuple(np.exp(-np.asarray(x, dtype=float)) for x in betafree)


def activities_exact(q, d):
    """d: dict of preX (Fractions) and eneX (ints, in units of ln q); returns exact activities pre * q^-ene."""
    def act(pre, ene):
        return [Fraction(p) * (Fraction(q) ** (-int(e))) for p, e in zip(pre, ene)]
    return (act(d['preV'], d['eneV']), act(d['preS'], d['eneS']), act(d['preSV'], d['eneSV']),
            act(d['preT0'], d['eneT0']), act(d['preT1'], d['eneT1']), act(d['preT2'], d['eneT2']))


def chain_transitions(calc, act, n):
    """-> dict(nst, alive, trans=[(x, y, r, ds, dv)], lone=[(i, j, r, dx)], N, ncell); numeric type follows `act`."""
    from onsager import crystalStars as stars
    aV, aS, aSV, aT0, aT1, aT2 = act
    crys, chem, dim, N = calc.crys, calc.chem, calc.crys.dim, calc.N
    inv = [int(w) for w in calc.invmap]
    basis = crys.basis[chem]
    one = aV[0] / aV[0]
    sV = sum(aV[inv[i]] for i in range(N)); sS = sum(aS[inv[i]] for i in range(N))
    pV = [aV[inv[i]] * N / sV for i in range(N)]
    pS = [aS[inv[i]] * N / sS for i in range(N)]
    jumps = []
    for jt, cls in enumerate(calc.om0_jn):
        for (i, j), dx in cls:
            R = np.round(np.dot(crys.invlatt, dx) - basis[j] + basis[i]).astype(int)
            jumps.append((i, j, R, np.asarray(dx, dtype=float), jt))
    om1 = {}
    for c, cls in enumerate(calc.om1_jn):
        for (si, sf), dx in cls: om1[(si, sf)] = c
    om2 = {}
    for c, cls in enumerate(calc.om2_jn):
        for (si, sf), dx in cls: om2[(si, sf)] = c
    kin, thermo = calc.kinetic, calc.thermo
    lone = [(i, j, pV[i] * aT0[jt] / aV[inv[i]], dx) for (i, j, R, dx, jt) in jumps]
    cells = list(itertools.product(range(n), repeat=dim))
    cellidx = {c: k for k, c in enumerate(cells)}
    ncell = len(cells)

    def sid(s, v, c):
        return (s * N + v) * ncell + cellidx[c]

    nst = N * N * ncell
    zero = tuple([0] * dim)
    alive = np.ones(nst, dtype=bool)
    for s in range(N): alive[sid(s, s, zero)] = False
    P, A, PSof = {}, {}, {}
    for s in range(N):
        for v in range(N):
            for c in cells:
                x = sid(s, v, c)
                if not alive[x]: continue
                PS = stars.PairState.fromcrys_latt(crys, chem, (s, v), _centered(c, n))
                PSof[x] = PS
                a = aS[inv[s]] * aV[inv[v]]          # exp(-beta F) of the state
                p = pS[s] * pV[v]
                ti = thermo.stateindex(PS)
                if ti is not None:
                    st = thermo.index[ti]
                    a = a * aSV[st]; p = p * aSV[st]
                P[x], A[x] = p, a
    trans = []
    zvec = np.zeros(dim)
    for s in range(N):
        for v in range(N):
            for c in cells:
                x = sid(s, v, c)
                if not alive[x]: continue
                PS = PSof[x]
                kx = kin.stateindex(PS)
                for (i, j, Rj, dx, jt) in jumps:
                    if i != v: continue
                    cy = tuple(int(t) for t in (np.asarray(c) + Rj) % n)
                    if j == s and cy == zero:
                        ky = kin.stateindex(-PS)
                        cls = om2.get((kx, ky))
                        if cls is None:
                            raise ValueError('exchange %s not classified by om2_jn' % (PS,))
                        w = aT2[cls] / A[x]
                        y = sid(v, s, tuple(int(t) for t in (-np.asarray(c)) % n))
                        ds, dv = PS.dx, -PS.dx
                    else:
                        y = sid(s, j, cy)
                        ky = kin.stateindex(PSof[y]) if kx is not None else None
                        cls = om1.get((kx, ky)) if (kx is not None and ky is not None) else None
                        if cls is not None:
                            w = aT1[cls] / A[x]
                        else:
                            w = aT0[jt] / aV[inv[v]]
                        ds, dv = zvec, dx
                    trans.append((x, y, P[x] * w, ds, dv))
    return dict(nst=nst, alive=alive, trans=trans, lone=lone, N=N, ncell=ncell, dim=dim)


def lone_L0vv(ch):
    N, dim = ch['N'], ch['dim']
    L0 = np.zeros((dim, dim)); W0 = np.zeros((N, N)); B0 = np.zeros((N, dim))
    for (i, j, r, dx) in ch['lone']:
        r = float(r)
        L0 += 0.5 * r * np.outer(dx, dx); W0[i, j] += r; W0[i, i] -= r; B0[i] += r * dx
    eta0 = -np.dot(np.linalg.pinv(W0), B0)
    return (L0 - np.dot(eta0.T, B0)) / N


def solve_float(ch):
    """(L0vv, Lss, Lsv, L1vv) of the chain in floats (sparse LU with one state pinned)."""
    nst, alive, dim, N = ch['nst'], ch['alive'], ch['dim'], ch['N']
    rows, cols, vals = [], [], []
    diag = np.zeros(nst)
    Bs = np.zeros((nst, dim)); Bv = np.zeros((nst, dim))
    Dss = np.zeros((dim, dim)); Dsv = np.zeros((dim, dim)); Dvv = np.zeros((dim, dim))
    for (x, y, r, ds, dv) in ch['trans']:
        r = float(r)
        rows.append(x); cols.append(y); vals.append(r); diag[x] -= r
        Bs[x] += r * ds; Bv[x] += r * dv
        Dss += 0.5 * r * np.outer(ds, ds); Dsv += 0.5 * r * np.outer(ds, dv); Dvv += 0.5 * r * np.outer(dv, dv)
    W = sp.coo_matrix((vals, (rows, cols)), shape=(nst, nst)).tocsr()
    asym = abs(W - W.T).max()
    if asym > 1e-9 * abs(W).max():
        raise ValueError('chain violates detailed balance: %g' % asym)
    W = W + sp.diags(diag)
    keep = np.where(alive)[0][1:]
    Wk = W[keep, :][:, keep].tocsc()
    sol = spla.splu(Wk).solve(-np.hstack([Bs[keep], Bv[keep]]))
    eS = np.zeros((nst, dim)); eV = np.zeros((nst, dim))
    eS[keep] = sol[:, :dim]; eV[keep] = sol[:, dim:]
    L0vv = lone_L0vv(ch)
    Lss = (Dss - eS.T @ Bs) / N
    Lsv = (Dsv - eS.T @ Bv) / N
    Lvv = (Dvv - eV.T @ Bv) / N
    return L0vv, Lss, Lsv, Lvv - (ch['ncell'] * N - 1) * L0vv


def chain_L(calc, betafree, n):
    return solve_float(chain_transitions(calc, activities_from_betafree(betafree), n))


def _lattice_trans(ch, crys):
    """transitions with exact lattice-coordinate displacements, renumbered over alive states, ordered in
    adjacent (transition, reverse) pairs (the cheap reversibility test of the Lean model)."""
    from interstitial_common import snap
    alive = np.where(ch['alive'])[0]
    idx = {int(x): k for k, x in enumerate(alive)}
    inv = crys.invlatt
    ents = []
    for (x, y, r, ds, dv) in ch['trans']:
        dsl = tuple(snap(c) for c in np.dot(inv, ds)); dvl = tuple(snap(c) for c in np.dot(inv, dv))
        ents.append((idx[x], idx[y], Fraction(r), dsl, dvl))
    pool = {}
    for k, e in enumerate(ents):
        pool.setdefault((e[0], e[1], e[3], e[4]), []).append(k)
    used, order = set(), []
    for k, e in enumerate(ents):
        if k in used: continue
        used.add(k)
        rk = (e[1], e[0], tuple(-c for c in e[3]), tuple(-c for c in e[4]))
        cand = [m for m in pool.get(rk, []) if m not in used and ents[m][2] == e[2]]
        order.append(k)
        if cand:
            used.add(cand[0]); order.append(cand[0])
    return len(alive), [ents[k] for k in order]


def exact_certificates(nst, ents, dim):
    """Exact solutions of W xi = -B for the 2*dim displacement fields (state 0 of each component pinned),
    by fraction Gauss-Jordan; returned as certificates only (the Lean model re-checks them)."""
    W = [[Fraction(0)] * nst for _ in range(nst)]
    Bm = [[Fraction(0)] * (2 * dim) for _ in range(nst)]
    for (x, y, r, ds, dv) in ents:
        W[x][y] += r; W[x][x] -= r
        for a in range(dim):
            Bm[x][a] += r * ds[a]; Bm[x][dim + a] += r * dv[a]
    M = [W[i] + [-b for b in Bm[i]] for i in range(nst)]
    ncol = nst + 2 * dim
    piv_of_row, row = {}, 0
    for col in range(nst):
        p = next((r_ for r_ in range(row, nst) if M[r_][col] != 0), None)
        if p is None: continue
        M[row], M[p] = M[p], M[row]
        pv = M[row][col]
        M[row] = [v / pv for v in M[row]]
        prow = M[row]
        for r_ in range(nst):
            if r_ != row:
                f = M[r_][col]
                if f != 0:
                    M[r_] = [a - f * b for a, b in zip(M[r_], prow)]
        piv_of_row[row] = col
        row += 1
        if row == nst: break
    sols = [[Fraction(0)] * nst for _ in range(2 * dim)]
    for r_, c in piv_of_row.items():
        for t in range(2 * dim):
            sols[t][c] = M[r_][nst + t]
    return sols


def lean_request(ch, crys, with_cert=True):
    """Request line for Drive/Chain.lean (displacements in lattice coordinates, reverse pairs adjacent, optional
    exact certificates so that the Lean side only has to check them)."""
    from interstitial_common import fr
    nst, ents = _lattice_trans(ch, crys)
    body = ':'.join('%d,%d,%s,%s' % (x, y, fr(r), ','.join(fr(c) for c in ds + dv)) for (x, y, r, ds, dv) in ents)
    line = '%d %d | %s' % (nst, ch['dim'], body)
    if with_cert:
        sols = exact_certificates(nst, ents, ch['dim'])
        line += ' | ' + ';'.join(','.join(fr(v) for v in s_) for s_ in sols)
    return line


def lean_lone_request(ch, crys):
    from interstitial_common import snap, fr
    inv = crys.invlatt
    ents = []
    for (i, j, r, dx) in ch['lone']:
        dl = [snap(c) for c in np.dot(inv, dx)]
        ents.append('%d,%d,%s,%s' % (i, j, fr(r), ','.join(fr(c) for c in dl + dl)))
    return '%d %d | %s' % (ch['N'], ch['dim'], ':'.join(ents))


def parse_lean(ans, crys, dim):
    """-> (ss, sv, vv) Cartesian float tensors (unnormalised sums) or None."""
    if not ans.startswith('ok '): return None
    L = crys.lattice
    out = []
    for part in ans[3:].split('|'):
        T = np.array([float(Fraction(x)) for x in part.strip().split(',')]).reshape(dim, dim)
        out.append(L @ T @ L.T)
    return out


def _extrap3(vals, sizes, dim):
    A = np.array([[1.0, 1.0 / n ** dim, 1.0 / n ** (dim + 2)] for n in sizes])
    Ainv = np.linalg.inv(A)
    x = [1.0 / n ** dim for n in sizes]
    out = []
    for k in range(4):
        a, b, c = vals[0][k], vals[1][k], vals[2][k]
        e3 = Ainv[0, 0] * a + Ainv[0, 1] * b + Ainv[0, 2] * c
        e2 = c + (c - b) * x[2] / (x[1] - x[2])
        out.append((e3, e2, c))
    return out


def extrapolate(calc, betafree, sizes):
    """Extrapolate n -> infinity with L(n) = Linf + b/n^d + c/n^(d+2) fitted to the three largest sizes.  Error estimate: the largest
    of (i) the difference to the two-point (1/n^d only) extrapolation from the two largest sizes, (ii) 5% of the finite-size
    correction removed from the largest cell (the two extrapolations can cross by accident), and - when four sizes are given -
    (iii) the difference to the same three-point fit on the three smaller sizes (anisotropic rates converge with a different
    effective power, which only a second fit reveals).
    Returns (L tuple, error estimates, raw values)."""
    dim = calc.crys.dim
    vals = [chain_L(calc, betafree, n) for n in sizes]
    last = _extrap3(vals[-3:], sizes[-3:], dim)
    prev = _extrap3(vals[:3], sizes[:3], dim) if len(sizes) >= 4 else None
    out, err = [], []
    for k in range(4):
        e3, e2, c = last[k]
        e = max(np.abs(e3 - e2).max(), 0.05 * np.abs(c - e3).max())
        if prev is not None: e = max(e, np.abs(e3 - prev[k][0]).max())
        out.append(e3); err.append(e)
    return tuple(out), tuple(err), vals
