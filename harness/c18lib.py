"""
Shared machinery for C18 / C19 / C20 (crystal symmetry): exact crystal descriptions in lattice
coordinates over Q, generators (zoo + random crystals of every Bravais class), adapters to the real
onsager.crystal code, rationalisation with checked residuals, text protocol of the Lean drivers and a
native build of a driver (the models are heavy for the bytecode interpreter).

Nothing here hard-codes /repo: `onsager` is imported from sys.path (vcheck puts ONSAGER_REPO first).
"""
import os, sys, math, itertools, hashlib, subprocess, fcntl, time
from fractions import Fraction as Fr
import numpy as np

VERIF = os.path.dirname(os.path.dirname(os.path.abspath(__file__)))
LEAN = os.path.join(VERIF, 'lean')


# ----------------------------------------------------------------------------- exact linear algebra
def fmat(rows):
    return [[Fr(x) for x in r] for r in rows]


def mmul(A, B):
    n, m, k = len(A), len(B[0]), len(B)
    return [[sum(A[i][l] * B[l][j] for l in range(k)) for j in range(m)] for i in range(n)]


def mT(A):
    return [list(r) for r in zip(*A)]


def mvec(A, v):
    return [sum(a * x for a, x in zip(r, v)) for r in A]


def mdet(A):
    n = len(A)
    if n == 1: return A[0][0]
    if n == 2: return A[0][0] * A[1][1] - A[0][1] * A[1][0]
    return sum((-1) ** j * A[0][j] * mdet([r[:j] + r[j + 1:] for r in A[1:]]) for j in range(n))


def minv(A):
    n = len(A)
    M = [[Fr(x) for x in r] + [Fr(int(i == j)) for j in range(n)] for i, r in enumerate(A)]
    for c in range(n):
        p = next(r for r in range(c, n) if M[r][c] != 0)
        M[c], M[p] = M[p], M[c]
        pv = M[c][c]
        M[c] = [x / pv for x in M[c]]
        for r in range(n):
            if r != c and M[r][c] != 0:
                f = M[r][c]
                M[r] = [x - f * y for x, y in zip(M[r], M[c])]
    return [r[n:] for r in M]


def ldl(g):
    """g = Q^T diag(s) Q with Q unit upper triangular (exact); returns (Q, s); s_i > 0 iff g is PD."""
    n = len(g)
    A = [[Fr(x) for x in r] for r in g]
    Q = [[Fr(int(i == j)) for j in range(n)] for i in range(n)]
    s = []
    for k in range(n):
        sk = A[k][k]
        s.append(sk)
        if sk <= 0: return None, None
        for j in range(k + 1, n):
            Q[k][j] = A[k][j] / sk
        for i in range(k + 1, n):
            for j in range(k + 1, n):
                A[i][j] -= A[k][i] * A[k][j] / sk
    return Q, s


def lattice_from_metric(g, rot=None):
    """float lattice (columns = lattice vectors) with L^T L = g; optional extra orthogonal factor."""
    Q, s = ldl(g)
    if Q is None: raise ValueError('metric not positive definite')
    L = np.diag([math.sqrt(float(x)) for x in s]) @ np.array([[float(x) for x in r] for r in Q])
    if rot is not None: L = rot @ L
    return L


def frac1(x):
    x = Fr(x)
    return x - (x.numerator // x.denominator)


def is_int_vec(v):
    return all(Fr(x).denominator == 1 for x in v)


# ----------------------------------------------------------------------------- exact crystal
class XC:
    """Exact crystal: metric g (d x d Fractions), basis[list per species] of tuples of Fractions,
    spins (same layout, ints) or None, float lattice L (columns) with L^T L = g."""

    def __init__(self, g, basis, spins=None, L=None, name='', cls=''):
        self.d = len(g)
        self.g = [[Fr(x) for x in r] for r in g]
        self.basis = [[tuple(Fr(x) for x in u) for u in atoms] for atoms in basis]
        self.spins = None if spins is None else [list(sl) for sl in spins]
        self.L = lattice_from_metric(self.g) if L is None else np.array(L, dtype=float)
        self.name, self.cls = name, cls
        self.known_rots = None   # rotations (integer matrices, this lattice basis) that are symmetries by construction
        self.order = None        # textbook order of the space group modulo lattice translations, when known

    def den(self):
        D = 1
        for a in self.basis:
            for u in a:
                for x in u: D = lcm(D, x.denominator)
        return D

    @property
    def N(self):
        return sum(len(a) for a in self.basis)

    def shape(self):
        return [len(a) for a in self.basis]

    def key(self):
        return (self.d, tuple(map(tuple, self.g)), tuple(tuple(a) for a in self.basis),
                None if self.spins is None else tuple(map(tuple, self.spins)))

    def describe(self):
        return dict(name=self.name, cls=self.cls, d=self.d, metric=[[str(x) for x in r] for r in self.g],
                    basis=[[[str(x) for x in u] for u in a] for a in self.basis], spins=self.spins,
                    lattice_columns=self.L.T.tolist())

    def transformed(self, U):
        """same crystal described in the lattice A' = A U (U integer, det != 0 allowed = supercell)."""
        U = [[Fr(x) for x in r] for r in U]
        Ui = minv(U)
        g2 = mmul(mT(U), mmul(self.g, U))
        det = abs(mdet(U))
        if det == 1:
            basis = [[tuple(frac1(x) for x in mvec(Ui, u)) for u in atoms] for atoms in self.basis]
            spins = self.spins
        else:
            # supercell: all translates n of the old lattice that are distinct modulo the new one
            reps = supercell_translations(U)
            basis, spins = [], (None if self.spins is None else [])
            for si, atoms in enumerate(self.basis):
                lst, sl = [], []
                for ai, u in enumerate(atoms):
                    for n in reps:
                        lst.append(tuple(frac1(x) for x in mvec(Ui, [a + b for a, b in zip(u, n)])))
                        if self.spins is not None: sl.append(self.spins[si][ai])
                basis.append(lst)
                if self.spins is not None: spins.append(sl)
        Uf = np.array([[float(x) for x in r] for r in U])
        out = XC(g2, basis, spins, L=self.L @ Uf, name=self.name + '*U', cls=self.cls)
        if self.known_rots is not None and det == 1:
            out.known_rots = [conj_int(R, U, Ui) for R in self.known_rots]
        out.order = self.order
        return out

    # ---- text protocol
    def lean_fields(self):
        m = ','.join(fstr(x) for r in self.g for x in r)
        b = ':'.join(';'.join(','.join(fstr(x) for x in u) for u in atoms) for atoms in self.basis)
        sp = self.spins if self.spins is not None else [[0] * len(a) for a in self.basis]
        s = ':'.join(','.join(str(int(x)) for x in sl) for sl in sp)
        return m, b, s


def conj_int(R, U, Ui=None):
    """U^-1 R U as an integer matrix (None if not integer)"""
    U = [[Fr(x) for x in r] for r in U]
    if Ui is None: Ui = minv(U)
    M = mmul(Ui, mmul([[Fr(x) for x in r] for r in R], U))
    if any(x.denominator != 1 for r in M for x in r): return None
    return tuple(tuple(int(x) for x in r) for r in M)


def supercell_translations(U):
    """integer vectors n (old lattice coordinates) representing Z^d / U Z^d."""
    d = len(U)
    Ui = minv(U)
    det = int(abs(mdet(U)))
    reps, seen = [], set()
    rng = range(-det, det + 1)
    for n in itertools.product(rng, repeat=d):
        k = tuple(frac1(x) for x in mvec(Ui, n))
        if k not in seen:
            seen.add(k); reps.append(n)
            if len(reps) == det: break
    return reps


def fstr(x):
    x = Fr(x)
    return str(x.numerator) if x.denominator == 1 else '%d/%d' % (x.numerator, x.denominator)


def op_str(rot, trans, indexmap):
    r = ','.join(str(int(x)) for row in rot for x in row)
    t = ','.join(fstr(x) for x in trans)
    im = ':'.join((','.join(str(int(i)) for i in l) if len(l) else '_') for l in indexmap)
    return '%s @ %s @ %s' % (r, t, im)


def parse_op(s):
    r, t, im = [x.strip() for x in s.split('@')]
    r = [int(x) for x in r.split(',')]
    d = int(round(math.sqrt(len(r))))
    rot = tuple(tuple(r[i * d + j] for j in range(d)) for i in range(d))
    trans = tuple(Fr(x) for x in t.split(','))
    imap = tuple(tuple(int(x) for x in l.split(',')) if l not in ('_', '') else () for l in im.split(':'))
    return rot, trans, imap


def canon_op(rot, trans, indexmap):
    """canonical form modulo lattice translations"""
    return (tuple(tuple(int(x) for x in r) for r in rot), tuple(frac1(x) for x in trans),
            tuple(tuple(int(i) for i in l) for l in indexmap))


# ----------------------------------------------------------------------------- holohedry + decoration
_HOLO = {}


def holohedry(g):
    """all integer matrices with entries in {-1,0,1} and R^T g R = g (exact); generator use only."""
    key = tuple(map(tuple, g))
    if key in _HOLO: return _HOLO[key]
    d = len(g)
    den = 1
    for r in g:
        for x in r: den = den * x.denominator // math.gcd(den, x.denominator)
    gi = np.array([[int(x * den) for x in r] for r in g], dtype=np.int64)
    ent = np.array(list(itertools.product((-1, 0, 1), repeat=d * d)), dtype=np.int64).reshape(-1, d, d)
    prod = np.einsum('nji,jk,nkl->nil', ent, gi, ent)
    ok = np.all(prod == gi[None], axis=(1, 2))
    H = [tuple(map(tuple, R.tolist())) for R in ent[ok]]
    _HOLO[key] = H
    return H


def imul(A, B):
    d = len(A)
    return tuple(tuple(sum(A[i][k] * B[k][j] for k in range(d)) for j in range(d)) for i in range(d))


def closure(gens, d):
    I = tuple(tuple(int(i == j) for j in range(d)) for i in range(d))
    G = {I}
    frontier = [I]
    gens = list(gens)
    while frontier:
        new = []
        for a in frontier:
            for b in gens:
                c = imul(a, b)
                if c not in G:
                    G.add(c); new.append(c)
        frontier = new
        if len(G) > 200: break
    return sorted(G)


def orbit(K, x, tau):
    """{R (x - tau) + tau mod 1 : R in K}"""
    out = []
    for R in K:
        y = tuple(frac1(sum(Fr(R[i][j]) * (x[j] - tau[j]) for j in range(len(x))) + tau[i]) for i in range(len(x)))
        if y not in out: out.append(y)
    return out


POOL_DEN = (2, 3, 4, 6, 8)


def rand_site(rng, d, special):
    if special:
        den = rng.choice(POOL_DEN)
        return tuple(Fr(rng.randrange(den), den) for _ in range(d))
    return tuple(Fr(rng.randrange(1, 13), rng.choice((7, 11, 13))) for _ in range(d))


def far_enough(basis, d):
    pts = [u for a in basis for u in a]
    for i in range(len(pts)):
        for j in range(i + 1, len(pts)):
            diff = [frac1(a - b + Fr(1, 2)) - Fr(1, 2) for a, b in zip(pts[i], pts[j])]
            if all(abs(x) < Fr(1, 500) for x in diff): return False
    return True


def decorate(rng, g, maxatoms=10, spins_prob=0.35):
    """random decoration by orbits of random subgroups of the lattice holohedry."""
    d = len(g)
    H = holohedry(g)
    for _ in range(50):
        nsp = rng.choice((1, 1, 2, 2, 3))
        basis = []
        common = set(H)
        tau = rand_site(rng, d, True) if rng.random() < 0.3 else tuple(Fr(0) for _ in range(d))
        for s in range(nsp):
            for _try in range(20):
                ngen = rng.choice((0, 1, 1, 2, 2, 3))
                K = closure([rng.choice(H) for _ in range(ngen)], d) if rng.random() < 0.8 else H
                x = rand_site(rng, d, rng.random() < 0.7)
                orb = orbit(K, x, tau)
                if len(orb) <= max(1, maxatoms // nsp): break
            else:
                orb, K = [x], [tuple(tuple(int(i == j) for j in range(d)) for i in range(d))]
            common &= set(K)
            basis.append(orb)
        if sum(len(a) for a in basis) <= maxatoms and far_enough(basis, d):
            break
    else:
        basis = [[tuple(Fr(0) for _ in range(d))]]
        common = set(H)
    spins = None
    if rng.random() < spins_prob:
        mode = rng.choice(('afm', 'random', 'fm', 'partial'))
        spins = []
        for a in basis:
            if mode == 'fm': spins.append([1] * len(a))
            elif mode == 'random': spins.append([rng.choice((1, -1)) for _ in a])
            elif mode == 'partial': spins.append([rng.choice((1, -1, 0)) for _ in a])
            else: spins.append([1 if i % 2 == 0 else -1 for i in range(len(a))])
    return basis, spins, (sorted(common) if spins is None else None)


# ----------------------------------------------------------------------------- Bravais classes
def _pick(rng, vals):
    return Fr(rng.choice(vals))


SCALES = [Fr(1), Fr(4, 3), Fr(9, 4), Fr(25, 16), Fr(2), Fr(3), Fr(49, 25), Fr(8, 3), Fr(5, 2), Fr(36, 25)]


def centering(g, T):
    T = fmat(T)
    return mmul(mT(T), mmul(g, T))


T_F = [[0, Fr(1, 2), Fr(1, 2)], [Fr(1, 2), 0, Fr(1, 2)], [Fr(1, 2), Fr(1, 2), 0]]
T_I = [[-Fr(1, 2), Fr(1, 2), Fr(1, 2)], [Fr(1, 2), -Fr(1, 2), Fr(1, 2)], [Fr(1, 2), Fr(1, 2), -Fr(1, 2)]]
T_C = [[Fr(1, 2), Fr(1, 2), 0], [-Fr(1, 2), Fr(1, 2), 0], [0, 0, 1]]
T_C2 = [[Fr(1, 2), Fr(1, 2)], [-Fr(1, 2), Fr(1, 2)]]


def diag(*v):
    n = len(v)
    return [[Fr(v[i]) if i == j else Fr(0) for j in range(n)] for i in range(n)]


def bravais(rng, cls):
    """exact metric of a lattice of the named class with random (rational) parameters."""
    three = rng.sample(SCALES, 3)
    a, b, c = three
    if cls == 'cubicP': return diag(a, a, a)
    if cls == 'cubicF': return centering(diag(a, a, a), T_F)
    if cls == 'cubicI': return centering(diag(a, a, a), T_I)
    if cls == 'tetP': return diag(a, a, c)
    if cls == 'tetI': return centering(diag(a, a, c), T_I)
    if cls == 'orthoP': return diag(a, b, c)
    if cls == 'orthoC': return centering(diag(a, b, c), T_C)
    if cls == 'orthoI': return centering(diag(a, b, c), T_I)
    if cls == 'orthoF': return centering(diag(a, b, c), T_F)
    if cls == 'hexP': return [[a, -a / 2, 0], [-a / 2, a, 0], [0, 0, c]]
    if cls in ('rhomb-acute', 'rhomb-obtuse', 'rhomb'):
        if cls == 'rhomb-acute': cs = rng.choice([Fr(9, 10), Fr(19, 20), Fr(4, 5), Fr(3, 5), Fr(24, 25)])
        elif cls == 'rhomb-obtuse': cs = rng.choice([Fr(-49, 100), Fr(-2, 5), Fr(-12, 25), Fr(-9, 20), Fr(-1, 3) + Fr(1, 50)])
        else: cs = rng.choice([Fr(1, 5), Fr(1, 4), Fr(-1, 5), Fr(2, 5), Fr(-1, 10), Fr(1, 3)])
        x = a * cs
        return [[a, x, x], [x, a, x], [x, x, a]]
    if cls in ('monoP', 'monoC', 'mono-sheared'):
        lim = math.sqrt(float(a * c))
        if cls == 'mono-sheared': p = Fr(int(lim * rng.choice((0.8, 0.9, -0.85, 0.95)) * 20), 20)
        else: p = Fr(int(lim * rng.choice((0.2, 0.35, -0.3, 0.45, -0.15)) * 20), 20)
        if p == 0: p = Fr(1, 20)
        g = [[a, 0, p], [0, b, 0], [p, 0, c]]
        return centering(g, T_C) if cls == 'monoC' else g
    if cls == 'triclinic':
        while True:
            A = [[Fr(rng.randrange(-6, 7), 5) + (Fr(rng.randrange(6, 12), 5) if i == j else 0) for j in range(3)] for i in range(3)]
            if mdet(A) != 0: break
        return mmul(mT(A), A)
    # 2-D
    if cls == 'square': return diag(a, a)
    if cls == 'rect': return diag(a, b)
    if cls == 'crect': return centering(diag(a, b), T_C2)
    if cls == 'hex2': return [[a, -a / 2], [-a / 2, a]]
    if cls == 'oblique':
        lim = math.sqrt(float(a * b))
        p = Fr(int(lim * rng.choice((0.2, 0.4, -0.3, 0.7, -0.6)) * 20), 20)
        if p == 0: p = Fr(1, 20)
        return [[a, p], [p, b]]
    raise ValueError(cls)


CLASSES3 = ['cubicP', 'cubicF', 'cubicI', 'tetP', 'tetI', 'orthoP', 'orthoC', 'orthoI', 'orthoF', 'hexP',
            'rhomb', 'rhomb-acute', 'rhomb-obtuse', 'monoP', 'monoC', 'mono-sheared', 'triclinic']
CLASSES2 = ['square', 'rect', 'crect', 'hex2', 'oblique']


def rand_unimodular(rng, d, steps=3, big=2):
    U = [[int(i == j) for j in range(d)] for i in range(d)]
    for _ in range(steps):
        r = rng.random()
        if r < 0.6:
            i, j = rng.sample(range(d), 2)
            k = rng.choice([x for x in range(-big, big + 1) if x != 0])
            E = [[int(p == q) for q in range(d)] for p in range(d)]
            E[i][j] = k
        elif r < 0.8:
            perm = list(range(d)); rng.shuffle(perm)
            E = [[int(perm[p] == q) for q in range(d)] for p in range(d)]
        else:
            E = [[(rng.choice((1, -1)) if p == q else 0) for q in range(d)] for p in range(d)]
        U = [[sum(U[i][k] * E[k][j] for k in range(d)) for j in range(d)] for i in range(d)]
    return U


def rand_rotation(nprng, d):
    q, r = np.linalg.qr(nprng.normal(size=(d, d)))
    q = q @ np.diag(np.sign(np.diag(r)))
    if np.linalg.det(q) < 0: q[:, 0] = -q[:, 0]
    return q


def random_xc(rng, nprng, cls=None, d=None, maxatoms=10, redescribe=0.5, rotate=0.5, spins_prob=0.35):
    if cls is None:
        if d is None: d = 3 if rng.random() < 0.75 else 2
        cls = rng.choice(CLASSES3 if d == 3 else CLASSES2)
    g = bravais(rng, cls)
    d = len(g)
    basis, spins, known = decorate(rng, g, maxatoms=maxatoms, spins_prob=spins_prob)
    x = XC(g, basis, spins, name='rand-' + cls, cls=cls)
    x.known_rots = known
    if rng.random() < rotate:
        x.L = rand_rotation(nprng, d) @ x.L
    if rng.random() < redescribe:
        x = x.transformed(rand_unimodular(rng, d))
        x.name = 'rand-' + cls + '*U'
    return x


# ----------------------------------------------------------------------------- vector spins
def vector_spin_crystal(rng, nprng, d=None):
    """crystal whose atoms carry VECTOR spins: one or two species, each an orbit K.x of a random subgroup K of the
    holohedry with x generic (trivial stabiliser), spin of the atom R.x one of
      'covariant'  C_R s0        (every R in K is then a symmetry, with phase +1)
      'contra'     C_R^-1 s0     (winds against the positions: n-fold rotations of K are in general NOT symmetries)
      'collinear'  +-s0,  'random'
    Returns (lattice, basis(list of list of float arrays), spins, known_rots or None, description)"""
    if d is None: d = 3 if rng.random() < 0.7 else 2
    cls = rng.choice(['cubicP', 'tetP', 'hexP', 'orthoP', 'rhomb', 'cubicF'] if d == 3 else ['square', 'hex2', 'rect'])
    g = bravais(rng, cls)
    H = holohedry(g)
    L = lattice_from_metric(g)
    if rng.random() < 0.5: L = rand_rotation(nprng, d) @ L
    Li = np.linalg.inv(L)
    for _ in range(30):
        K = closure([rng.choice(H) for _ in range(rng.choice((1, 1, 2)))], d)
        if 2 <= len(K) <= 8: break
    else:
        K = closure([], d)
    mode = rng.choice(('covariant', 'contra', 'collinear', 'random', 'covariant', 'contra'))
    nsp = rng.choice((1, 1, 2))
    basis, spins, pts = [], [], []
    for sp in range(nsp):
        x = rand_site(rng, d, False)
        s0 = nprng.normal(size=d); s0 /= np.linalg.norm(s0)
        atoms, sl = [], []
        for R in K:
            y = tuple(frac1(sum(Fr(R[i][j]) * x[j] for j in range(d))) for i in range(d))
            if y in pts: continue
            pts.append(y)
            C = L @ np.array(R, dtype=float) @ Li
            atoms.append(np.array([float(t) for t in y]))
            if mode == 'covariant': sl.append(C @ s0)
            elif mode == 'contra': sl.append(C.T @ s0)
            elif mode == 'collinear': sl.append(s0 * rng.choice((1, -1)))
            else:
                v = nprng.normal(size=d); sl.append(v / np.linalg.norm(v))
        basis.append(atoms); spins.append(sl)
    if not far_enough([[tuple(Fr(float(t)).limit_denominator(10 ** 6) for t in u) for u in a] for a in basis], d):
        return vector_spin_crystal(rng, nprng, d)
    known = sorted(K) if (mode == 'covariant' and all(len(a) == len(K) for a in basis)) else None
    desc = dict(cls=cls, d=d, mode=mode, order_K=len(K), lattice_columns=L.T.tolist(),
                basis=[[u.tolist() for u in a] for a in basis], spins=[[v.tolist() for v in sl] for sl in spins],
                how='crystal.Crystal(np.array(lattice_columns).T, [[np.array(u) ...]], spins=[[np.array(s) ...]])')
    return L, basis, spins, known, desc


# ----------------------------------------------------------------------------- zoo
def zoo():
    F = Fr
    z = []
    I3 = diag(1, 1, 1)
    o3 = (F(0), F(0), F(0))
    h = F(1, 2)
    z.append(XC(I3, [[o3]], name='SC', cls='cubicP'))
    z.append(XC(centering(I3, T_F), [[o3]], name='FCC', cls='cubicF'))
    z.append(XC(centering(I3, T_I), [[o3]], name='BCC', cls='cubicI'))
    z.append(XC(I3, [[o3], [(h, h, h)]], name='B2', cls='cubicP'))
    q = F(1, 4)
    z.append(XC(centering(I3, T_F), [[(F(0), F(0), F(0)), (q, q, q)]], name='diamond', cls='cubicF'))
    z.append(XC(centering(I3, T_F), [[o3], [(h, h, h)]], name='rocksalt', cls='cubicF'))
    z.append(XC(I3, [[o3], [(h, h, F(0)), (h, F(0), h), (F(0), h, h)]], name='L12', cls='cubicP'))
    z.append(XC(I3, [[(h, F(0), F(0)), (F(0), h, F(0)), (F(0), F(0), h)], [(h, h, F(0)), (h, F(0), h), (F(0), h, h)]],
                name='NbO', cls='cubicP'))
    for c2, nm in ((F(8, 3), 'HCP-ideal'), (F(5, 2), 'HCP-2.5'), (F(64, 25), 'HCP-1.6')):
        ghex = [[F(1), -h, F(0)], [-h, F(1), F(0)], [F(0), F(0), c2]]
        z.append(XC(ghex, [[(F(1, 3), F(2, 3), F(1, 4)), (F(2, 3), F(1, 3), F(3, 4))]], name=nm, cls='hexP'))
    ghex = [[F(1), -h, F(0)], [-h, F(1), F(0)], [F(0), F(0), F(3, 8)]]
    z.append(XC(ghex, [[o3, (F(1, 3), F(2, 3), h), (F(2, 3), F(1, 3), h)]], name='omega', cls='hexP'))
    z.append(XC(ghex, [[o3, (F(1, 3), F(2, 3), F(9, 20)), (F(2, 3), F(1, 3), F(11, 20))]], name='rumpled-omega', cls='hexP'))
    # FCC with octahedral + tetrahedral interstitials
    z.append(XC(centering(I3, T_F), [[o3], [(h, h, h)], [(q, q, q), (3 * q, 3 * q, 3 * q)]], name='FCC+O+T', cls='cubicF'))
    # tetragonal, orthorhombic, monoclinic, triclinic low-symmetry cells
    z.append(XC(diag(1, 1, F(9, 4)), [[o3, (h, h, h)], [(h, F(0), q)]], name='tet-lowsym', cls='tetP'))
    z.append(XC(diag(1, F(4, 3), F(9, 4)), [[o3], [(F(1, 3), q, F(1, 5))]], name='ortho-lowsym', cls='orthoP'))
    z.append(XC([[F(1), F(0), F(3, 10)], [F(0), F(4, 3), F(0)], [F(3, 10), F(0), F(2)]], [[o3, (q, h, F(1, 3))]],
                name='mono-lowsym', cls='monoP'))
    z.append(XC([[F(1), F(1, 5), F(3, 10)], [F(1, 5), F(4, 3), F(-1, 4)], [F(3, 10), F(-1, 4), F(2)]],
                [[o3], [(F(1, 7), F(2, 7), F(3, 11))]], name='triclinic-P1', cls='triclinic'))
    z.append(XC([[F(1), F(1, 5), F(3, 10)], [F(1, 5), F(4, 3), F(-1, 4)], [F(3, 10), F(-1, 4), F(2)]],
                [[(F(1, 7), F(2, 7), F(3, 11)), (F(6, 7), F(5, 7), F(8, 11))]], name='triclinic-P-1', cls='triclinic'))
    # the F6 regime: rhombohedral close to cos = -1/2
    x = F(-49, 100)
    z.append(XC([[F(1), x, x], [x, F(1), x], [x, x, F(1)]], [[o3]], name='rhomb-obtuse-49', cls='rhomb-obtuse'))
    x = F(19, 20)
    z.append(XC([[F(1), x, x], [x, F(1), x], [x, x, F(1)]], [[o3]], name='rhomb-acute-95', cls='rhomb-acute'))
    # antiferromagnets
    z.append(XC(diag(1, 1, 4), [[o3, (F(0), F(0), h)]], spins=[[1, -1]], name='SC-AFM-z', cls='tetP'))
    z.append(XC(I3, [[o3], [(h, h, h)]], spins=[[1], [-1]], name='B2-spin', cls='cubicP'))
    z.append(XC(I3, [[o3, (h, h, h)]], spins=[[1, -1]], name='BCC-AFM', cls='cubicP'))
    z.append(XC(centering(I3, T_F), [[o3, (q, q, q)]], spins=[[1, -1]], name='diamond-AFM', cls='cubicF'))
    # 2-D
    I2 = diag(1, 1)
    o2 = (F(0), F(0))
    z.append(XC(I2, [[o2]], name='square', cls='square'))
    z.append(XC(I2, [[o2], [(h, h)]], name='square-2sp', cls='square'))
    gh2 = [[F(1), -h], [-h, F(1)]]
    z.append(XC(gh2, [[o2]], name='triangular', cls='hex2'))
    z.append(XC(gh2, [[(F(1, 3), F(2, 3)), (F(2, 3), F(1, 3))]], name='honeycomb', cls='hex2'))
    z.append(XC(gh2, [[(F(1, 3), F(2, 3))], [(F(2, 3), F(1, 3))]], name='hBN', cls='hex2'))
    z.append(XC(gh2, [[o2], [(F(1, 3), F(2, 3)), (F(2, 3), F(1, 3))]], name='tri+honey', cls='hex2'))
    z.append(XC(diag(1, F(9, 4)), [[o2, (h, F(1, 5))]], name='rect-lowsym', cls='rect'))
    z.append(XC([[F(1), F(3, 10)], [F(3, 10), F(2)]], [[o2], [(F(1, 7), F(3, 11))]], name='oblique-p1', cls='oblique'))
    z.append(XC(gh2, [[(F(1, 3), F(2, 3)), (F(2, 3), F(1, 3))]], spins=[[1, -1]], name='honeycomb-AFM', cls='hex2'))
    z.append(XC(I2, [[o2, (h, h)]], spins=[[1, -1]], name='square-AFM', cls='square'))
    orders = {'SC': 48, 'FCC': 48, 'BCC': 48, 'B2': 48, 'diamond': 48, 'rocksalt': 48, 'L12': 48, 'NbO': 48,
              'HCP-ideal': 24, 'HCP-2.5': 24, 'HCP-1.6': 24, 'omega': 24, 'rumpled-omega': 12, 'FCC+O+T': 48,
              'triclinic-P1': 1, 'triclinic-P-1': 2, 'rhomb-obtuse-49': 12, 'rhomb-acute-95': 12,
              'SC-AFM-z': 32, 'B2-spin': 48, 'BCC-AFM': 96, 'diamond-AFM': 48,
              'square': 8, 'square-2sp': 8, 'triangular': 12, 'honeycomb': 12, 'hBN': 6, 'tri+honey': 12,
              'oblique-p1': 1, 'honeycomb-AFM': 12, 'square-AFM': 16}
    for x in z: x.order = orders.get(x.name)
    return z


# ----------------------------------------------------------------------------- adapters to the real code
_STUBBED = [False]


def crystal_module():
    """onsager.crystal with Crystal.genBZG stubbed: the Brillouin-zone construction (property C22) takes 75% of the
    constructor's time and its result is never read by the symmetry code exercised here."""
    from onsager import crystal
    if not _STUBBED[0]:
        crystal.Crystal.genBZG = lambda self: np.zeros((0, self.dim))
        _STUBBED[0] = True
    return crystal


def build(xc, NOSYM=False, noreduce=False, noise=None, nprng=None, threshold=None):
    """construct onsager.crystal.Crystal from an exact description"""
    crystal = crystal_module()
    L = np.array(xc.L, dtype=float)
    basis = [[np.array([float(x) for x in u]) for u in atoms] for atoms in xc.basis]
    if noise:
        L = L + noise * nprng.uniform(-1, 1, size=L.shape)
        basis = [[u + noise * nprng.uniform(-1, 1, size=u.shape) for u in atoms] for atoms in basis]
    spins = None if xc.spins is None else [[s for s in sl] for sl in xc.spins]
    kw = {}
    if threshold is not None: kw['threshold'] = threshold
    return crystal.Crystal(L, basis, spins=spins, NOSYM=NOSYM, noreduce=noreduce, **kw)


class SnapError(Exception):
    pass


def snap(x, maxden=2520, tol=1e-9):
    f = Fr(float(x)).limit_denominator(maxden)
    if abs(float(f) - float(x)) > tol:
        raise SnapError('cannot rationalise %r (nearest %s)' % (float(x), f))
    return f


def snapD(x, D, tol=1e-9):
    """snap to the known denominator D (positions are sums of the generator's fractions)"""
    f = Fr(int(round(float(x) * D)), D)
    if abs(float(f) - float(x)) > tol:
        raise SnapError('cannot rationalise %r with denominator %d (nearest %s)' % (float(x), D, f))
    return f


def lcm(a, b):
    return a * b // math.gcd(a, b)


def exact_out(xc, crys):
    """exact description of the crystal that Crystal() ended up with (after reduce/minlattice/center):
    lattice = L_in T with T rational (unimodular when nothing was reduced); positions snapped."""
    d = xc.d
    T = np.linalg.solve(xc.L, crys.lattice)
    Tq = [[snap(T[i, j], 720, 1e-8) for j in range(d)] for i in range(d)]
    g2 = mmul(mT(Tq), mmul(xc.g, Tq))
    D = xc.den() * 240      # centre() halves, reduce() divides by factors of M <= 6
    basis = [[tuple(snapD(x, D) for x in u) for u in atoms] for atoms in crys.basis]
    spins = None
    if crys.spins is not None:
        spins = []
        for sl in crys.spins:
            row = []
            for s in sl:
                si = int(round(float(np.real(s))))
                if abs(si - s) > 1e-9: raise SnapError('non-integer spin %r' % (s,))
                row.append(si)
            spins.append(row)
    out = XC(g2, basis, spins, L=crys.lattice, name=xc.name + '/out', cls=xc.cls)
    out.T = Tq
    out.D = D
    return out


def ops_of(crys, D, G=None):
    """crys.G as exact triples (rot ints, trans Fractions, indexmap)"""
    ops = []
    for g in (crys.G if G is None else G):
        rot = tuple(tuple(int(x) for x in r) for r in g.rot)
        trans = tuple(snapD(x, D) for x in g.trans)
        ops.append((rot, trans, tuple(tuple(int(i) for i in l) for l in g.indexmap)))
    ops.sort(key=lambda o: (o[0], canon_op(*o)[1], o[2]))
    return ops


def gop(rot, trans, indexmap):
    """GroupOp object from a triple (cartrot = identity placeholder is NOT acceptable: compute none)"""
    from onsager import crystal
    d = len(rot)
    return crystal.GroupOp(np.array(rot, dtype=int), np.array([float(x) for x in trans]), np.eye(d),
                           tuple(tuple(l) for l in indexmap))


# ----------------------------------------------------------------------------- float oracles on crys.G
def oracle_ops(crys, tol=1e-7):
    """Direct statement of C18 on the implementation's own data (no model): returns list of (sig, what)."""
    bad = []
    d = crys.dim
    L, Li = crys.lattice, np.linalg.inv(crys.lattice)
    G = list(crys.G)
    spins = crys.spins
    for g in G:
        R = np.array(g.rot)
        if R.dtype.kind not in 'iu' or abs(abs(round(np.linalg.det(R))) - 1) > 0:
            bad.append(('op-not-unimodular', 'rot %s is not an integer unimodular matrix' % (R.tolist(),)))
            continue
        C = L @ R @ Li
        if not np.allclose(C.T @ C, np.eye(d), atol=tol):
            bad.append(('op-not-isometry', 'lattice rotation %s is not an isometry: |C^T C - 1| = %.2e'
                        % (R.tolist(), np.abs(C.T @ C - np.eye(d)).max())))
        if not np.allclose(C, g.cartrot, atol=tol):
            bad.append(('cartrot-mismatch', 'cartrot is not L rot L^-1 for rot %s' % (R.tolist(),)))
        if len(g.indexmap) != len(crys.basis):
            bad.append(('indexmap-shape', 'indexmap has %d species, crystal %d' % (len(g.indexmap), len(crys.basis))))
            continue
        phases = set()
        vector_spins = False
        for c, atoms in enumerate(crys.basis):
            im = g.indexmap[c]
            if sorted(im) != list(range(len(atoms))):
                bad.append(('indexmap-not-permutation', 'species %d indexmap %s' % (c, im)))
                continue
            for i, u in enumerate(atoms):
                v = R @ u + g.trans - atoms[im[i]]
                res = np.abs(v - np.round(v)).max()
                if res > tol:
                    bad.append(('atom-not-mapped', 'rot %s trans %s: atom (%d,%d) does not land on atom (%d,%d): residual %.2e'
                                % (R.tolist(), g.trans.tolist(), c, i, c, im[i], res)))
                if spins is not None and np.ndim(spins[c][i]) > 0:
                    vector_spins = True
                elif spins is not None:
                    s0, s1 = spins[c][i], spins[c][im[i]]
                    if abs(s0) > tol or abs(s1) > tol:
                        if abs(abs(s0) - abs(s1)) > tol:
                            bad.append(('spin-magnitude', 'atom (%d,%d) spin %r mapped onto spin %r' % (c, i, s0, s1)))
                        elif abs(s0) > tol:
                            phases.add(int(round(float(np.real(s1 / s0)))))
        if len(phases) > 1:
            bad.append(('spin-phase-inconsistent', 'rot %s maps some spins with +1 and some with -1' % (R.tolist(),)))
        if vector_spins and all(sorted(g.indexmap[c]) == list(range(len(a))) for c, a in enumerate(crys.basis)):
            # vector spins: the spin of every atom, rotated by the Cartesian rotation (as the source does), must be the
            # spin of its image, up to ONE global sign (the "phase" the source tries)
            ok = False
            for phase in (1, -1):
                if all(np.allclose(phase * (C @ np.asarray(spins[c][i], dtype=float)),
                                   np.asarray(spins[c][g.indexmap[c][i]], dtype=float), atol=tol)
                       for c, atoms in enumerate(crys.basis) for i in range(len(atoms))):
                    ok = True
            if not ok:
                bad.append(('vector-spin-not-preserved', 'rot %s (cartesian %s): no sign +-1 makes the rotated spin of every atom '
                            'equal to the spin of its image' % (R.tolist(), np.round(C, 4).tolist())))
    return bad


def oracle_known(xc, crys):
    """Completeness against what is known independently of the code: the textbook group order of the zoo
    entries, and the rotations that are symmetries by construction of the random decoration."""
    bad = []
    if xc.order is not None and len(crys.G) != xc.order:
        bad.append(('group-order:%s' % xc.name, '%s: %d operations reported, the space group has %d modulo lattice translations'
                    % (xc.name, len(crys.G), xc.order)))
    if xc.known_rots:
        try:
            T = np.linalg.solve(xc.L, crys.lattice)
            Tq = [[snap(T[i, j], 720, 1e-8) for j in range(xc.d)] for i in range(xc.d)]
        except Exception:
            return bad
        if abs(mdet(Tq)) != 1: return bad
        have = set(tuple(tuple(int(x) for x in r) for r in g.rot) for g in crys.G)
        for R in xc.known_rots:
            Ro = conj_int(R, Tq)
            if Ro is None or Ro not in have:
                bad.append(('missing-known-symmetry', 'rotation %s (input lattice basis) is a symmetry by construction of the '
                            'crystal but no reported operation has it' % (list(map(list, R)),)))
                break
    return bad


def same_mod_T(a, b, tol=1e-7):
    if not np.array_equal(a.rot, b.rot) or a.indexmap != b.indexmap: return False
    dt = a.trans - b.trans
    return np.abs(dt - np.round(dt)).max() < tol


def oracle_group(crys, tol=1e-7, G=None):
    """closure / inverse / identity / distinctness of crys.G modulo lattice translations, with the
    implementation's own GroupOp algebra."""
    from onsager import crystal
    bad = []
    G = list(crys.G if G is None else G)
    byrot = {}
    for g in G: byrot.setdefault(np.array(g.rot).tobytes(), []).append(g)
    def member(x):
        return any(same_mod_T(x, k, tol) for k in byrot.get(np.array(x.rot).tobytes(), []))
    ident = crystal.GroupOp.ident(crys.basis)
    if ident.rot.shape != (crys.dim, crys.dim):
        ident = None   # GroupOp.ident is 3-D only in the source; 2-D identity is built by hand
    if ident is None:
        ident = crystal.GroupOp(np.eye(crys.dim, dtype=int), np.zeros(crys.dim), np.eye(crys.dim),
                                tuple(tuple(range(len(a))) for a in crys.basis))
    if not member(ident): bad.append(('no-identity', 'identity is not in G'))
    for i, g in enumerate(G):
        for h in G[i + 1:]:
            if same_mod_T(g, h, tol):
                bad.append(('duplicate-op', 'two reported operations are equal modulo a lattice translation: rot %s' % (g.rot.tolist(),)))
    for g in G:
        try:
            gi = g.inv()
        except Exception as e:
            bad.append(('inv-raises', 'inv() raised %r' % (e,))); continue
        if not member(gi):
            bad.append(('inverse-missing', 'inverse of rot %s trans %s is not in G' % (g.rot.tolist(), g.trans.tolist())))
        for h in G:
            if not member(g * h):
                bad.append(('not-closed', 'product of rot %s and rot %s is not in G (mod lattice translations)'
                            % (g.rot.tolist(), h.rot.tolist())))
                break
    return bad


# ----------------------------------------------------------------------------- native driver
def native_driver(name, models):
    """Build (once per source state) a native executable of lean/Drive/<name>.lean from the C files that
    `lake build` already produced for the imported model modules.  Returns the path or None."""
    try:
        irdir = os.path.join(LEAN, '.lake', 'build', 'ir')
        cs = [os.path.join(irdir, m.replace('.', '/') + '.c') for m in models]
        drv = os.path.join(LEAN, 'Drive', name + '.lean')
        h = hashlib.sha1()
        for f in cs + [drv]:
            h.update(open(f, 'rb').read())
        bindir = os.path.join(LEAN, '.lake', 'build', 'bin')
        os.makedirs(bindir, exist_ok=True)
        exe = os.path.join(bindir, 'drv_%s_%s' % (name, h.hexdigest()[:12]))
        if os.path.exists(exe): return exe
        lock = open(os.path.join(bindir, '.drv_%s.lock' % name), 'w')
        fcntl.flock(lock, fcntl.LOCK_EX)
        try:
            if os.path.exists(exe): return exe
            dc = os.path.join(bindir, 'drv_%s_%d.c' % (name, os.getpid()))
            p = subprocess.run(['lake', 'env', 'lean', '-c', dc, drv], cwd=LEAN, capture_output=True, text=True, timeout=600)
            if p.returncode != 0: return None
            tmp = exe + '.tmp%d' % os.getpid()
            p = subprocess.run(['leanc', '-O1', '-o', tmp] + cs + [dc], cwd=LEAN, capture_output=True, text=True, timeout=900)
            try: os.remove(dc)
            except OSError: pass
            if p.returncode != 0: return None
            os.replace(tmp, exe)
            for f in os.listdir(bindir):   # drop stale builds of the same driver
                fp = os.path.join(bindir, f)
                if f.startswith('drv_%s_' % name) and fp != exe and not f.endswith('.lock'):
                    try: os.remove(fp)
                    except OSError: pass
            return exe
        finally:
            fcntl.flock(lock, fcntl.LOCK_UN); lock.close()
    except Exception:
        return None


def run_driver(ctx, name, models, lines, timeout=1200, shards=8):
    """answers of the Lean driver, one per request line: native executable when it can be built (same
    compiled IR as the checked .olean), otherwise the framework's interpreter path."""
    if not lines: return []
    exe = native_driver(name, models)
    if exe is None:
        ctx.count('driver:interpreted')
        return ctx.lean('Drive/%s.lean' % name, lines, timeout=timeout)
    ctx.count('driver:native')
    shards = max(1, min(shards, len(lines) // 4))
    chunks = [lines[i::shards] for i in range(shards)]
    procs = [subprocess.Popen([exe], stdin=subprocess.PIPE, stdout=subprocess.PIPE, stderr=subprocess.PIPE, text=True)
             for _ in chunks]
    import threading
    outs = [None] * shards
    def work(k):
        outs[k] = procs[k].communicate('\n'.join(chunks[k]) + '\n', timeout=timeout)
    th = [threading.Thread(target=work, args=(k,)) for k in range(shards)]
    for t in th: t.start()
    for t in th: t.join()
    res = [None] * len(lines)
    for k in range(shards):
        if outs[k] is None or procs[k].returncode != 0:
            raise RuntimeError('native driver %s failed: %s' % (name, (outs[k] or ('', ''))[1][-500:]))
        o = outs[k][0].split('\n')
        if o and o[-1] == '': o.pop()
        if len(o) != len(chunks[k]):
            raise RuntimeError('native driver %s: %d answers for %d requests' % (name, len(o), len(chunks[k])))
        for j, a in enumerate(o): res[k + j * shards] = a
    ctx.traces += len(lines)
    return res
