#!/venv/bin/python
"""Regenerate /verif/MANIFEST.json from the META of every harness/props/cNN.py (run after adding a property)."""
import os, sys, json, importlib, glob
HERE = os.path.dirname(os.path.abspath(__file__)); VERIF = os.path.dirname(HERE)
sys.path.insert(0, HERE)
props = [json.loads(l) for l in open(os.path.join(VERIF, 'properties.jsonl'))]
na = json.load(open(os.path.join(VERIF, 'not_applicable.json'))) if os.path.exists(os.path.join(VERIF, 'not_applicable.json')) else {}
ready = set(open(os.path.join(HERE, 'ready.txt')).read().split())
checks, not_app = [], []
for p in props:
    pid = p['id']
    path = os.path.join(HERE, 'props', pid.lower() + '.py')
    if pid not in ready or not os.path.exists(path):
        not_app.append(dict(property_id=pid, reason=na.get(pid, 'check not built yet in this round (planned in DESIGN.md section 6); nothing is claimed for it')))
        continue
    m = importlib.import_module('props.' + pid.lower()).META
    checks.append(dict(
        property_id=pid,
        quick_cmd='./check %s quick' % pid,
        thorough_cmd='./check %s thorough' % pid,
        evidence_file='evidence/%s.json' % pid,
        replay_cmd_template='./check %s quick --replay {path}' % pid,
        engine='lean4-proof+correspondence',
        level_claimed=dict(category='proof', text=m['level_text'], design_ref=m.get('design_ref', 'DESIGN.md section 6, ' + pid)),
        level_note=m['level_note'],
        technique=m.get('technique', 'Lean 4 theorems about an executable model, tied to the code by a differential correspondence check')))
man = dict(
    version=1,
    setup_cmd='cd lean && lake build',
    hooks=dict(guard='ONSAGER_VERIF', enable='no source hooks are needed (Python objects are inspected in-process); checks export ONSAGER_VERIF=1',
               baseline_off_cmd='cd /repo && /venv/bin/python -m pytest -ra -q -p no:cacheprovider --timeout=900 --continue-on-collection-errors',
               source_commits=[], add_only=True),
    engines=[dict(name='lean4-proof+correspondence', path='check', serves_properties=[c['property_id'] for c in checks],
                  kind_free_text='Lean 4 kernel-checked theorems about executable models (lean/), regenerated source facts '
                                 '(lean/Generated), and a Python differential harness driving model and implementation (harness/)')],
    checks=checks,
    not_applicable=not_app,
    notes='See DESIGN.md. ./check <ID> quick|thorough ; exit 0 ok, 1 violation (VIOLATION line), 2 internal error/timeout.')
json.dump(man, open(os.path.join(VERIF, 'MANIFEST.json'), 'w'), indent=1)
print('MANIFEST: %d checks, %d not_applicable' % (len(checks), len(not_app)))
