"""
Shared generators/adapters for the interstitial-calculator properties (C02, C03, C04, C05, C11, C12).
Crystals have rational unit-cell coordinates, so jump vectors are exact in lattice coordinates;
energies are integer multiples of ln q so that exp(-beta E) is an exact rational in the Lean model.
"""
import math
from fractions import Fraction
import numpy as np


def zoo():
    """[(name, crystal, chem)] : host crystals decorated with interstitial sites (or self-diffusing sublattices)."""
    from onsager import crystal
    out = []
    a = 1.0
    fcc = crystal.Crystal.FCC(a, chemistry='Ni')
    o = fcc.Wyckoffpos(np.array([.5, .5, .5])); t = fcc.Wyckoffpos(np.array([.25, .25, .25]))
    out.append(('fcc-oct+tet', fcc.addbasis(o + t, chemistry=['O']), 1, 0.48 * a))
    out.append(('fcc-oct', fcc.addbasis(o, chemistry=['O']), 1, 0.75 * a))
    bcc = crystal.Crystal.BCC(a, chemistry='Fe')
    # BCC.addbasis wants unit-cell coords of the primitive cell: tetrahedral site (1/2,1/4,0) conventional
    tpos = np.dot(np.linalg.inv(bcc.lattice), a * np.array([.5, .25, 0.]))
    opos = np.dot(np.linalg.inv(bcc.lattice), a * np.array([.5, .5, 0.]))
    out.append(('bcc-tet', bcc.addbasis(bcc.Wyckoffpos(tpos), chemistry=['C']), 1, 0.4 * a))
    out.append(('bcc-oct+tet', bcc.addbasis(bcc.Wyckoffpos(opos) + bcc.Wyckoffpos(tpos), chemistry=['C']), 1, 0.4 * a))
    hcp = crystal.Crystal.HCP(a, chemistry='Ti')
    ho = hcp.Wyckoffpos(np.array([0., 0., 0.5])); ht = hcp.Wyckoffpos(np.array([1. / 3., 2. / 3., 0.625]))
    out.append(('hcp-oct+tet', hcp.addbasis(ho + ht, chemistry=['O']), 1, 1.01 * a))
    out.append(('hcp-self', hcp, 0, 1.01 * a))
    sc = crystal.Crystal(a * np.eye(3), [np.zeros(3)], chemistry=['A'])
    low = sc.Wyckoffpos(np.array([.2, .2, .2]))
    out.append(('sc-xxx', sc.addbasis(low, chemistry=['I']), 1, 0.75 * a))
    # no inversion: zincblende-like host with an interstitial orbit -> pseudo-inverse branch
    zb = crystal.Crystal(fcc.lattice, [[np.zeros(3)], [np.array([.25, .25, .25])]], chemistry=['Ga', 'As'])
    zi = zb.Wyckoffpos(np.array([.5, .5, .5])) + zb.Wyckoffpos(np.array([.75, .75, .75])) + zb.Wyckoffpos(np.array([.4, .4, .4]))
    out.append(('zincblende-int', zb.addbasis(zi, chemistry=['H']), 2, 0.45 * a))
    # polar, low symmetry (monoclinic-ish, rational coordinates), no inversion
    lat = np.array([[1.0, 0.2, 0.0], [0.0, 1.1, 0.0], [0.3, 0.0, 1.3]]).T
    lowc = crystal.Crystal(lat, [[np.zeros(3)], [np.array([.5, .25, .125]), np.array([.25, .75, .5]), np.array([.125, .5, .75])]],
                           chemistry=['M', 'X'])
    out.append(('triclinic-3site', lowc, 1, 0.95))
    # 2-D
    sq = crystal.Crystal(a * np.eye(2), [[np.zeros(2)], [np.array([.5, .5]), np.array([.5, 0.]), np.array([0., .5])]],
                         chemistry=['A', 'i'])
    out.append(('square2d-int', sq, 1, 0.55 * a))
    hon = crystal.Crystal(a * np.array([[1., .5], [0., math.sqrt(3) / 2]]),
                          [np.array([1. / 3., 1. / 3.]), np.array([2. / 3., 2. / 3.])], chemistry=['C'])
    out.append(('honeycomb2d-self', hon, 0, 0.6 * a))
    rect = crystal.Crystal(np.array([[1., 0.3], [0., 1.4]]), [[np.zeros(2)], [np.array([.25, .5]), np.array([.75, .125])]],
                           chemistry=['A', 'i'])
    out.append(('oblique2d-2site', rect, 1, 1.05))
    # monoclinic (unique axis c) with interstitial sites on the mirror plane z = 0 (site symmetry m: in-plane vector basis),
    # as given and rigidly rotated so that the mirror normal is tilted away from every Cartesian axis
    ml = np.array([[1.0, 0.3, 0.0], [0.0, 1.1, 0.0], [0.0, 0.0, 1.2]])
    mb = [[np.zeros(3)], [np.array([.375, .25, 0.]), np.array([.625, .75, 0.]), np.array([.125, .5, .5]), np.array([.875, .5, .5])]]
    mono = crystal.Crystal(ml, mb, chemistry=['M', 'i'])
    out.append(('mono-mirror-sites', mono, 1, 0.8))
    th, ph = math.radians(30.0), math.radians(20.0)
    Ry = np.array([[math.cos(th), 0., math.sin(th)], [0., 1., 0.], [-math.sin(th), 0., math.cos(th)]])
    Rz = np.array([[math.cos(ph), -math.sin(ph), 0.], [math.sin(ph), math.cos(ph), 0.], [0., 0., 1.]])
    out.append(('mono-mirror-sites-tilted', crystal.Crystal(Rz @ Ry @ ml, mb, chemistry=['M', 'i'], noreduce=True), 1, 0.8))
    return out


_CACHE = {}


def networks():
    """[(name, crys, chem, sitelist, jumpnetwork)], cached per process."""
    if 'nets' not in _CACHE:
        res = []
        for name, crys, chem, cutoff in zoo():
            sitelist = crys.sitelist(chem)
            jn = crys.jumpnetwork(chem, cutoff)
            if len(jn) == 0: continue
            res.append((name, crys, chem, sitelist, jn))
        _CACHE['nets'] = res
    return _CACHE['nets']


def snap(x, maxden=4000, tol=1e-9):
    f = Fraction(float(x)).limit_denominator(maxden)
    if abs(float(f) - float(x)) > tol:
        raise ValueError('coordinate %r is not a small rational' % (x,))
    return f


def fr(f):
    f = Fraction(f)
    return str(f.numerator) if f.denominator == 1 else '%d/%d' % (f.numerator, f.denominator)


def lattice_jumps(crys, jumpnetwork):
    """jumpnetwork with dx in exact lattice coordinates."""
    inv = crys.invlatt
    return [[(i, j, [snap(c) for c in np.dot(inv, dx)]) for (i, j), dx in cls] for cls in jumpnetwork]


def rand_data(rng, nsites, njumps, emax=4, q=Fraction(3, 2)):
    """Random rational prefactors and integer energies (in units of ln q)."""
    pre = [Fraction(rng.randint(1, 24), 8) for _ in range(nsites)]
    ene = [rng.randint(-emax, emax) for _ in range(nsites)]
    preT = [Fraction(rng.randint(1, 24), 8) for _ in range(njumps)]
    eneT = [max(ene) + rng.randint(0, emax) for _ in range(njumps)] if rng.random() < 0.7 else \
           [rng.randint(-emax, 2 * emax) for _ in range(njumps)]
    return dict(q=q, pre=pre, ene=ene, preT=preT, eneT=eneT)


def py_args(data):
    lnq = math.log(float(data['q']))
    return ([float(p) for p in data['pre']], [e * lnq for e in data['ene']],
            [float(p) for p in data['preT']], [e * lnq for e in data['eneT']])


def request_line(nsites_total, dim, invmap, ljumps, data):
    cls = []
    for c in ljumps:
        cls.append(':'.join('%d,%d,%s' % (i, j, ','.join(fr(x) for x in dx)) for i, j, dx in c) if c else '_')
    return '%d %d %s | %s | %s | %s | %s | %s | %s' % (
        nsites_total, dim, fr(data['q']), ','.join(map(str, invmap)),
        ','.join(fr(p) for p in data['pre']), ','.join(str(e) for e in data['ene']),
        ','.join(fr(p) for p in data['preT']), ','.join(str(e) for e in data['eneT']), ';'.join(cls))


def parse_answer(ans, dim):
    """-> (D_latt as float ndarray, rho list[Fraction], D0_latt) or None when the model says invalid."""
    if not ans.startswith('ok '): return None
    parts = [p.strip() for p in ans[3:].split('|')]
    D = np.array([float(Fraction(x)) for x in parts[0].split(',')]).reshape(dim, dim)
    rho = [Fraction(x) for x in parts[1].split(',')]
    D0 = np.array([float(Fraction(x)) for x in parts[2].split(',')]).reshape(dim, dim)
    return D, rho, D0


def rate_spread(data):
    q = float(data['q'])
    es = [e for e in data['ene']]
    lo = min(data['eneT']) - max(es); hi = max(data['eneT']) - min(es)
    return q ** (hi - lo) * (max(map(float, data['preT'])) / min(map(float, data['preT']))) * \
        (max(map(float, data['pre'])) / min(map(float, data['pre'])))


def numpy_oracle(diffuser, crys, jumpnetwork, pre, betaene, preT, betaeneT):
    """Independent dense site-space evaluation of min_xi Q in floats (used for failing-input search)."""
    N, dim = diffuser.N, crys.dim
    inv = diffuser.invmap
    be = np.array([betaene[w] for w in inv]); pr = np.array([pre[w] for w in inv])
    w = pr * np.exp(min(betaene) - be); rho = w / w.sum()
    W = np.zeros((N, N)); Bv = np.zeros((N, dim)); D0 = np.zeros((dim, dim))
    for cls, pT, bT in zip(jumpnetwork, preT, betaeneT):
        for (i, j), dx in cls:
            r = rho[i] * pT * np.exp(be[i] - bT) / pr[i]
            W[i, j] += r; W[i, i] -= r; Bv[i] += r * dx; D0 += 0.5 * r * np.outer(dx, dx)
    xi = -np.dot(np.linalg.pinv(W), Bv)
    return D0 - np.dot(xi.T, Bv)
