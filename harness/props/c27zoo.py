"""
Shared generators for C27 / C29 / C30: a zoo of 3-D crystals (Supercell is 3-D only, so the 2-D
lattices appear as their layered 3-D analogues), supercell matrices, rational snapping.
"""
import warnings
from fractions import Fraction
import numpy as np


def rat(x, maxden=5040, tol=1e-9):
    f = Fraction(float(x)).limit_denominator(maxden)
    if abs(float(f) - float(x)) > tol:
        raise ValueError('not a small rational: %r' % (x,))
    return f


def showrat(f):
    return str(f.numerator) if f.denominator == 1 else '%d/%d' % (f.numerator, f.denominator)


def zoo(rng, n_random=2):
    """list of (name, crystal, tuple of chemistry indices that may be declared interstitial)"""
    from onsager import crystal
    C = crystal.Crystal
    a = 1.0
    out = []
    eye = np.eye(3)
    z = np.zeros(3)
    out.append(('SC', C(a * eye, [z], chemistry=['A']), ()))
    out.append(('FCC', C.FCC(a, chemistry='Ni'), ()))
    out.append(('BCC', C.BCC(a, chemistry='Fe'), ()))
    hcp = C.HCP(a, chemistry='Ti')
    out.append(('HCP', hcp, ()))
    out.append(('B2', C(a * eye, [[z], [np.array([.5, .5, .5])]], chemistry=['A', 'B']), ()))
    fccl = np.array([[0., 0.5, 0.5], [0.5, 0., 0.5], [0.5, 0.5, 0.]]) * a
    out.append(('diamond', C(fccl, [np.zeros(3), np.array([.25, .25, .25])], chemistry=['C']), ()))
    out.append(('zincblende', C(fccl, [[np.zeros(3)], [np.array([.25, .25, .25])]], chemistry=['Zn', 'S']), ()))
    fcc = C.FCC(a, chemistry='Ni')
    out.append(('FCC+O', fcc.addbasis(fcc.Wyckoffpos(np.array([.5, .5, .5])), chemistry=['O']), (1,)))
    out.append(('FCC+T', fcc.addbasis(fcc.Wyckoffpos(np.array([.25, .25, .25])), chemistry=['H']), (1,)))
    bcc = C.BCC(a, chemistry='Fe')
    out.append(('BCC+O', bcc.addbasis(bcc.Wyckoffpos(np.array([.5, .5, 0.])), chemistry=['C']), (1,)))
    out.append(('HCP+O', hcp.addbasis(hcp.Wyckoffpos(np.array([0., 0., 0.])), chemistry=['O']), (1,)))
    hexl = np.array([[0.5, 0.5, 0.], [-np.sqrt(0.75), np.sqrt(0.75), 0.], [0., 0., 1.3]]) * a
    out.append(('hex-layer', C(hexl, [z], chemistry=['A']), ()))                        # stacked triangular
    out.append(('honeycomb-layer', C(hexl, [np.array([1 / 3, 2 / 3, 0.]), np.array([2 / 3, 1 / 3, 0.])],
                                     chemistry=['C']), ()))                             # stacked honeycomb
    out.append(('tetragonal', C(np.diag([1., 1., 1.4]) * a, [z], chemistry=['A']), ()))  # stacked square
    out.append(('ortho-2', C(np.diag([1., 1.2, 1.5]), [[z], [np.array([.5, .5, .25])]], chemistry=['A', 'B']), ()))
    for k in range(n_random):
        # low-symmetry cells: sheared lattice, rational basis
        while True:
            L = np.eye(3) + np.array([[rng.uniform(-.3, .3) if i != j else rng.uniform(0., .5) for j in range(3)]
                                      for i in range(3)])
            if abs(np.linalg.det(L)) > 0.5: break
        nb = rng.randint(1, 3)
        pts = set()
        while len(pts) < nb:
            pts.add(tuple(rng.randrange(6) / 6 for _ in range(3)))
        pts = [np.array(p) for p in sorted(pts)]
        if nb >= 2 and rng.random() < 0.5:
            out.append(('tric%d' % k, C(L, [[pts[0]], pts[1:]], chemistry=['A', 'B'], noreduce=True),
                        (1,) if rng.random() < 0.5 else ()))
        else:
            out.append(('tric%d' % k, C(L, pts, chemistry=['A'], noreduce=True), ()))
    mono = np.array([[1., 0., 0.3], [0., 1.1, 0.], [0., 0., 1.2]])
    out.append(('mono', C(mono, [np.array([0., 0., 0.]), np.array([.5, .25, .5]), np.array([.5, .75, .5])],
                          chemistry=['A']), ()))
    return out


_FIXED_MATS = [
    np.diag([2, 1, 1]), np.diag([1, 2, 1]), np.diag([2, 2, 1]), np.diag([2, 2, 2]), np.diag([3, 1, 1]),
    np.diag([3, 2, 1]),
    np.array([[1, 1, 0], [-1, 1, 0], [0, 0, 1]]), np.array([[-1, 1, 1], [1, -1, 1], [1, 1, -1]]),
    np.array([[0, 1, 1], [1, 0, 1], [1, 1, 0]]), np.array([[2, 1, 0], [0, 2, 0], [0, 0, 1]]),
    np.array([[1, 1, 0], [0, 1, 1], [1, 0, 1]]), np.array([[2, 0, 0], [0, 1, 1], [0, -1, 1]]),
    np.array([[1, 0, 0], [0, 1, 0], [0, 0, 3]]), np.array([[1, -1, 0], [1, 2, 0], [0, 0, 1]]),
]


def supermat(rng, maxsize=8, random_frac=0.4):
    """a non-singular 3x3 integer matrix with |det| <= maxsize (fixed list + random, incl. non-diagonal)"""
    while True:
        if rng.random() > random_frac:
            S = _FIXED_MATS[rng.randrange(len(_FIXED_MATS))].copy()
        else:
            S = np.array([[rng.randint(-2, 2) for _ in range(3)] for _ in range(3)])
        d = int(round(np.linalg.det(S)))
        if d != 0 and abs(d) <= maxsize:
            return S


def make_supercell(crys, S, interstitial=(), Nsolute=0):
    """(supercell, number of 'Broken symmetry' warnings)"""
    from onsager import supercell
    with warnings.catch_warnings(record=True) as w:
        warnings.simplefilter('always')
        sup = supercell.Supercell(crys, S, interstitial=interstitial, Nsolute=Nsolute)
    return sup, sum(1 for x in w if 'Broken symmetry' in str(x.message))


# ---------------------------------------------------------------- calculators (C29 / C30)
def nndist(crys, chem):
    """nearest-neighbour distance on the sublattice of chemistry `chem`"""
    best = 1e99
    for u in crys.basis[chem]:
        for v in crys.basis[chem]:
            for R in np.ndindex(3, 3, 3):
                d = crys.lattice.dot(v - u + np.array(R) - 1)
                x = float(np.sqrt(d.dot(d)))
                if x > 1e-6: best = min(best, x)
    return best


def interstitial_zoo(rng, n_random=1):
    """(name, crystal, chem of the interstitial sublattice)"""
    from onsager import crystal
    C = crystal.Crystal
    out = []
    fcc = C.FCC(1., chemistry='Ni')
    out.append(('FCC+O', fcc.addbasis(fcc.Wyckoffpos(np.array([.5, .5, .5])), chemistry=['O']), 1))
    out.append(('FCC+OT', fcc.addbasis(fcc.Wyckoffpos(np.array([.5, .5, .5])) + fcc.Wyckoffpos(np.array([.25, .25, .25])),
                                       chemistry=['O']), 1))
    bcc = C.BCC(1., chemistry='Fe')
    out.append(('BCC+O', bcc.addbasis(bcc.Wyckoffpos(np.array([.5, .5, 0.])), chemistry=['C']), 1))
    out.append(('BCC+OT', bcc.addbasis(bcc.Wyckoffpos(np.array([.5, .5, 0.])) + bcc.Wyckoffpos(np.array([.5, .25, .75])),
                                       chemistry=['C']), 1))
    hcp = C.HCP(1., chemistry='Ti')
    out.append(('HCP+O', hcp.addbasis(hcp.Wyckoffpos(np.array([0., 0., 0.])), chemistry=['O']), 1))
    out.append(('HCP+OT', hcp.addbasis(hcp.Wyckoffpos(np.array([0., 0., 0.])) + hcp.Wyckoffpos(np.array([1 / 3, 2 / 3, 5 / 8])),
                                       chemistry=['O']), 1))
    sc = C(np.eye(3), [np.zeros(3)], chemistry=['A'])
    out.append(('SC+body', sc.addbasis(sc.Wyckoffpos(np.array([.5, .5, .5])), chemistry=['X']), 1))
    out.append(('SC+face', sc.addbasis(sc.Wyckoffpos(np.array([.5, .5, 0.])), chemistry=['X']), 1))
    b2 = C(np.eye(3), [[np.zeros(3)], [np.array([.5, .5, .5])]], chemistry=['A', 'B'])
    out.append(('B2+face', b2.addbasis(b2.Wyckoffpos(np.array([.5, .5, 0.])), chemistry=['X']), 2))
    tet = C(np.diag([1., 1., 1.4]), [np.zeros(3)], chemistry=['A'])
    out.append(('tetragonal+edge', tet.addbasis(tet.Wyckoffpos(np.array([.5, 0., 0.])), chemistry=['X']), 1))
    for k in range(n_random):
        while True:
            L = np.eye(3) + np.array([[rng.uniform(-.25, .25) if i != j else rng.uniform(0., .4) for j in range(3)]
                                      for i in range(3)])
            if abs(np.linalg.det(L)) > 0.5: break
        pts = set()
        while len(pts) < 3:
            pts.add(tuple(rng.randrange(6) / 6 for _ in range(3)))
        pts = [np.array(p) for p in sorted(pts)]
        out.append(('tric+i%d' % k, C(L, [[pts[0]], pts[1:]], chemistry=['A', 'X'], noreduce=True), 1))
    out.extend(multiwyckoff_interstitial_zoo(rng))
    return out


MULTI_WYCKOFF = ('omega+i', 'mono3+i', 'tric3+i', 'B2x+i')


def multiwyckoff_interstitial_zoo(rng):
    """hosts in which one host species sits on several inequivalent Wyckoff positions"""
    from onsager import crystal
    C = crystal.Crystal
    out = []
    hexl = np.array([[0.5, 0.5, 0.], [-np.sqrt(0.75), np.sqrt(0.75), 0.], [0., 0., 0.613]])
    omega = C(hexl, [np.array([0., 0., 0.]), np.array([1 / 3, 2 / 3, .5]), np.array([2 / 3, 1 / 3, .5])], chemistry=['Ti'])
    out.append(('omega+i', omega.addbasis(omega.Wyckoffpos(np.array([.5, 0., .5])), chemistry=['O']), 1))    # 1a + 2d host
    mono = np.array([[1., 0., 0.3], [0., 1.1, 0.], [0., 0., 1.2]])
    m3 = C(mono, [np.array([0., 0., 0.]), np.array([.5, .25, .5]), np.array([.5, .75, .5])], chemistry=['A'])
    out.append(('mono3+i', m3.addbasis(m3.Wyckoffpos(np.array([0., .5, .5])), chemistry=['X']), 1))
    while True:
        L = np.eye(3) + np.array([[rng.uniform(-.25, .25) if i != j else rng.uniform(0., .4) for j in range(3)]
                                  for i in range(3)])
        if abs(np.linalg.det(L)) > 0.5: break
    pts = set()
    while len(pts) < 5:
        pts.add(tuple(rng.randrange(6) / 6 for _ in range(3)))
    pts = [np.array(p) for p in sorted(pts)]
    out.append(('tric3+i', C(L, [pts[:3], pts[3:]], chemistry=['A', 'X'], noreduce=True), 1))           # 3 host atoms, no symmetry
    # two host species, the second on two inequivalent positions
    tet = np.diag([1., 1., 1.3])
    out.append(('B2x+i', C(tet, [[np.zeros(3)], [np.array([.5, .5, .5]), np.array([.5, .5, 0.])], [np.array([.5, 0., .25])]],
                           chemistry=['A', 'B', 'X'], noreduce=True), 2))
    return out


def vacancy_zoo(rng):
    """(name, crystal, chem of the sublattice on which the vacancy moves)"""
    Z = dict((n, c) for n, c, i in zoo(rng, n_random=0))
    names = ['FCC', 'BCC', 'HCP', 'SC', 'B2', 'diamond', 'zincblende', 'hex-layer', 'honeycomb-layer', 'tetragonal',
             'mono', 'ortho-2']
    from onsager import crystal
    hexl = np.array([[0.5, 0.5, 0.], [-np.sqrt(0.75), np.sqrt(0.75), 0.], [0., 0., 0.613]])
    omega = crystal.Crystal(hexl, [np.array([0., 0., 0.]), np.array([1 / 3, 2 / 3, .5]), np.array([2 / 3, 1 / 3, .5])],
                            chemistry=['Ti'])
    return [(n, Z[n], 0) for n in names] + [('omega', omega, 0)]


_CALCS = {}


def interstitial_calc(name, crys, chem, cutfac=1.01):
    from onsager import OnsagerCalc
    key = ('I', name, cutfac)
    if key not in _CALCS:
        sl = crys.sitelist(chem)
        jn = crys.jumpnetwork(chem, nndist(crys, chem) * cutfac)
        _CALCS[key] = OnsagerCalc.Interstitial(crys, chem, sl, jn)
    return _CALCS[key]


def vacancy_calc(name, crys, chem, Nthermo=1, cutfac=1.01):
    from onsager import OnsagerCalc
    key = ('V', name, Nthermo, cutfac)
    if key not in _CALCS:
        sl = crys.sitelist(chem)
        jn = crys.jumpnetwork(chem, nndist(crys, chem) * cutfac)
        _CALCS[key] = OnsagerCalc.VacancyMediated(crys, chem, sl, jn, Nthermo)
    return _CALCS[key]


def makesupercells(calc, S):
    """(superdict, list of warning texts) - every warning issued by the call is captured"""
    with warnings.catch_warnings(record=True) as w:
        warnings.simplefilter('always')
        sd = calc.makesupercells(S)
    return sd, [str(x.message) for x in w if issubclass(x.category, RuntimeWarning)]
