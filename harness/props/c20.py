"""
C20 — site symmetry: point groups fix sites, Wyckoff sets are orbits, Wyckoffpos gives complete orbits
without duplicates, VectorBasis / SymmTensorBasis are orthonormal bases of exactly the invariant vectors /
symmetric tensors, addbasis of a full orbit keeps the symmetry.

Tie: (a) the implementation's crys.G (exact, as in C18) is fed to the Lean model of genpoint /
genWyckoffsets / Wyckoffpos; point groups per site, Wyckoff sets and orbits are compared exactly;
(b) invariant dimensions: the model evaluates the character formula (theorem `fixedDim_eq_avgTrace`, for
lists accepted by the verified test `isMatGroup`) and an exact nullspace; the implementation's float bases
go through the checker whose soundness is `isInvariantOrthonormalBasis_sound` (orthonormal + invariant +
count = dimension), and must lie in the exact nullspace;
(c) EXHAUSTIVE: every subgroup of O_h and D_6h (3-D) and of D_4, D_6 (2-D) is generated here as a set of
integer matrices and passed directly to reduce(CombineVectorBasis, ...) / reduce(CombineTensorBasis, ...),
in several orientations and operation orders.
Direct oracles (no model): geometric recomputation of point groups, orbits, stabilisers, invariance.
"""
import itertools, math, time
from functools import reduce
from fractions import Fraction as Fr
import numpy as np
import c18lib as X

META = dict(
    id='C20',
    level_text='Kernel-checked for all inputs: the character formula for the dimension of the invariants of a finite matrix '
               'group (finrank_fixedSpace; fixedDim_eq_avgTrace for every list accepted by the Boolean test isMatGroup); '
               'soundness of the basis check (orthonormal + each member invariant + count = that dimension => spans EXACTLY '
               'the invariant space); genpoint\'s shifted operation is a symmetry fixing the site exactly; Wyckoff sets are '
               'the orbits of the index-map action and partition the atoms (given the group property checked in C18); '
               'Wyckoffpos returns the complete orbit, each point once, also modulo lattice vectors; adding a full orbit as a '
               'new species, every symmetry of the old crystal extends to the new crystal. EXHAUSTIVE (sub-claim): every '
               'subgroup of O_h, D_6h, D_4, D_6 through the code\'s basis combiners. PARTIAL otherwise: the float eigen-analysis '
               '(GroupOp.eigen), SVD (CombineTensorBasis) and the tolerance tests are tied by correspondence on sampled crystals.',
    level_note='Trusted: Lean kernel + standard axioms; rationalisation of floats; float linear algebra in the harness (lstsq, '
               'tolerances 1e-8). The identification of the fixed space of symRep with the symmetric invariant tensors '
               '(T -> R T R^T, plus transposition) is by construction of the model matrices, not a theorem.',
    technique='Lean 4: character formula via the averaging projector (rank = trace), orbit/partition proofs, verified checkers; '
              'exhaustive subgroup enumeration against the real basis combiners',
    lean_modules=['OnsagerModel.C21', 'OnsagerModel.C18', 'OnsagerModel.C20', 'OnsagerProofs.C21Geom', 'OnsagerProofs.C18', 'OnsagerProofs.C20'],
    theorems=['Onsager.C20.finrank_fixedSpace', 'Onsager.C20.isMatGroup_sound', 'Onsager.C20.fixedDim_eq_avgTrace',
              'Onsager.C20.isInvariantOrthonormalBasis_sound', "Onsager.C20.isInvariantOrthonormalBasis_sound'",
              'Onsager.C20.pointOp_isSymmetry', 'Onsager.C20.pointOp_fixes', 'Onsager.C20.pointGroup_fixes',
              'Onsager.C20.related_refl', 'Onsager.C20.related_symm', 'Onsager.C20.related_trans',
              'Onsager.C20.mem_orbitOf', 'Onsager.C20.orbit_eq_of_mem', 'Onsager.C20.self_mem_orbitOf',
              'Onsager.C20.mem_wyckoffPos', 'Onsager.C20.nodup_wyckoffPos', 'Onsager.C20.wyckoffPos_distinct_mod_lattice',
              'Onsager.C20.wyckoffPos_complete', 'Onsager.C20.addbasis_keeps_symmetry'],
    tie_theorems=[],
    rule='crystal cases: zoo + random crystals (as C18), each with all its sites, 4 Wyckoffpos queries (generic, special, on an '
         'atom) and one addbasis; non-trivial = some site with a point group of order > 1; exhaustive cases: one per '
         '(subgroup, orientation, operation order); distinct by exact crystal / subgroup key',
    trusted=['harness/c18lib.py (generators, snapping, native driver build; Crystal.genBZG is stubbed out for speed — C22\'s subject, not read by the symmetry code)'],
    assumptions=['exact model: exactly symmetric rational structures, scalar spins, rational query points; a loose-threshold stream '
                 '(noise 1e-6, threshold 1e-4) is judged by float oracles against the noise-free crystal'],
)

DRV = 'C20'
MODELS = ['OnsagerModel.Basic', 'OnsagerModel.C21', 'OnsagerModel.C18', 'OnsagerModel.C20']
TOL = 1e-8


def _replay(xc, extra=None):
    r = dict(crystal=xc.describe(), how='c18lib.build(XC(metric, basis, spins, L=lattice_columns^T))')
    if extra: r.update(extra)
    return r


# --------------------------------------------------------------------------------- character dimensions
def char_dims(rots):
    """exact invariant dimensions of a point group given by integer (lattice) rotation matrices"""
    n = len(rots)
    tv = sum(int(np.trace(R)) for R in rots)
    ts = sum(int(np.trace(R)) ** 2 + int(np.trace(np.array(R) @ np.array(R))) for R in rots)
    dv, ds = Fr(tv, n), Fr(ts, 2 * n)
    return dv, ds


def cause_of(rots):
    """which kinds of operations (the ones the code's VectorBasis/SymmTensorBasis treat specially) the group has"""
    d = len(rots[0])
    flags = []
    for R in rots:
        R = np.array(R); tr = int(np.trace(R)); det = int(round(np.linalg.det(R)))
        if d == 2:
            if det > 0 and tr == -2: flags.append('twofold')
            if det < 0: flags.append('mirror')
        else:
            if det < 0 and tr in (-2, -1, 0): flags.append('rotoreflection')
    return '%dd-%s' % (d, '+'.join(sorted(set(flags))) if flags else 'plain')


def basis_checks(vecs, cartrots, kind):
    """orthonormality and invariance of a list of Cartesian vectors (kind='v') or tensors (kind='t')"""
    bad = []
    k = len(vecs)
    if k:
        M = np.array([np.asarray(v, dtype=float).ravel() for v in vecs])
        gram = M @ M.T
        if not np.allclose(gram, np.eye(k), atol=TOL):
            bad.append(('not-orthonormal', 'Gram matrix deviates from 1 by %.2e' % np.abs(gram - np.eye(k)).max()))
        for C in cartrots:
            for v in vecs:
                w = C @ v if kind == 'v' else C @ v @ C.T
                if not np.allclose(w, v, atol=TOL):
                    bad.append(('not-invariant', 'basis element changes by %.2e under a site operation' % np.abs(w - v).max()))
                    break
            else:
                continue
            break
        if kind == 't' and any(not np.allclose(v, v.T, atol=TOL) for v in vecs):
            bad.append(('not-symmetric', 'tensor basis element is not symmetric'))
    return bad


def in_span(vecs, exact_basis_cart, what):
    """every element of vecs lies in the span of exact_basis_cart (rows)"""
    if not len(vecs): return None
    V = np.array([np.asarray(v, dtype=float).ravel() for v in vecs]).T
    if not len(exact_basis_cart):
        return '%s: code returns %d elements, the invariant space is {0}' % (what, len(vecs))
    B = np.array([np.asarray(b, dtype=float).ravel() for b in exact_basis_cart]).T
    coef, res, rk, sv = np.linalg.lstsq(B, V, rcond=None)
    r = np.abs(B @ coef - V).max()
    if r > 1e-7: return '%s: element outside the exact invariant space (residual %.2e)' % (what, r)
    return None


# --------------------------------------------------------------------------------- geometric oracles
def geom_tables(crys):
    """for every g in G and atom (c,i): the atom it lands on, computed from positions only"""
    G = list(crys.G)
    land = []
    for g in G:
        row = {}
        for c, atoms in enumerate(crys.basis):
            for i, u in enumerate(atoms):
                v = np.dot(g.rot, u) + g.trans
                hit = [j for j, w in enumerate(atoms) if np.abs((v - w) - np.round(v - w)).max() < 1e-7]
                row[(c, i)] = hit[0] if len(hit) == 1 else None
        land.append(row)
    return G, land


def oracle_sites(ctx, xc, crys):
    G, land = geom_tables(crys)
    d = crys.dim
    nontriv = False
    # ---- point groups
    for c, atoms in enumerate(crys.basis):
        for i, u in enumerate(atoms):
            P = list(crys.pointG[c][i])
            if len(P) > 1: nontriv = True
            for p in P:
                r = np.abs(np.dot(p.rot, u) + p.trans - u).max()
                if r > 1e-8:
                    ctx.violation('pointG-does-not-fix-site', 'operation rot %s trans %s of pointG[%d][%d] moves the site by %.2e'
                                  % (p.rot.tolist(), p.trans.tolist(), c, i, r), _replay(xc, dict(site=[c, i])))
                    break
            want = sorted(g.rot.tolist() for g, row in zip(G, land) if row[(c, i)] == i)
            got = sorted(p.rot.tolist() for p in P)
            if want != got:
                ctx.violation('pointG-not-stabiliser', 'pointG[%d][%d] has %d operations, the geometric stabiliser of the site has %d'
                              % (c, i, len(got), len(want)), _replay(xc, dict(site=[c, i])))
    # ---- Wyckoff sets = orbits (union-find on geometric images)
    par = {k: k for k in land[0]}
    def find(a):
        while par[a] != a:
            par[a] = par[par[a]]; a = par[a]
        return a
    for row in land:
        for (c, i), j in row.items():
            if j is not None:
                a, b = find((c, i)), find((c, j))
                if a != b: par[a] = b
    orbits = {}
    for k in par: orbits.setdefault(find(k), set()).add(k)
    want = set(frozenset(o) for o in orbits.values())
    got = set(frozenset(w) for w in crys.Wyckoff)
    if want != got:
        ctx.violation('wyckoff-not-orbits', 'Wyckoff sets %s differ from the geometric orbits %s'
                      % (sorted(map(sorted, got)), sorted(map(sorted, want))), _replay(xc))
    flat = [k for w in crys.Wyckoff for k in w]
    if sorted(flat) != sorted(par):
        ctx.violation('wyckoff-not-partition', 'Wyckoff sets do not partition the atoms', _replay(xc))
    return nontriv


def oracle_bases(ctx, xc, crys, dims_lean=None):
    from onsager import crystal
    d = crys.dim
    for c, atoms in enumerate(crys.basis):
        for i in range(len(atoms)):
            P = list(crys.pointG[c][i])
            rots = [np.array(p.rot) for p in P]
            carts = [p.cartrot for p in P]
            dv, ds = char_dims(rots)
            cause = cause_of(rots)
            try:
                vb = crys.VectorBasis((c, i))
                vl = crystal.Crystal.vectlist(vb)
                tb = crys.SymmTensorBasis((c, i))
            except Exception as e:
                ctx.violation('basis-raises:%s' % type(e).__name__, 'VectorBasis/SymmTensorBasis raises %r at site (%d,%d)' % (e, c, i),
                              _replay(xc, dict(site=[c, i])))
                continue
            for kind, lst, dim, nm in (('v', vl, dv, 'VectorBasis'), ('t', tb, ds, 'SymmTensorBasis')):
                if dim.denominator != 1:
                    ctx.violation('character-not-integer', 'character average %s is not an integer: pointG is not a group' % dim,
                                  _replay(xc, dict(site=[c, i])))
                    continue
                if len(lst) != dim:
                    ctx.violation('%s:wrong-dimension:%s' % (nm, cause), '%s at site (%d,%d) has %d elements, the invariant space has dimension %d (|pointG| = %d)'
                                  % (nm, c, i, len(lst), dim, len(P)), _replay(xc, dict(site=[c, i], pointG_rots=[R.tolist() for R in rots])))
                for sig, what in basis_checks(lst, carts, kind)[:1]:
                    ctx.violation('%s:%s:%s' % (nm, sig, cause), '%s at site (%d,%d): %s' % (nm, c, i, what),
                                  _replay(xc, dict(site=[c, i], pointG_rots=[R.tolist() for R in rots])))
            ctx.count('site:dimV=%d,dimT=%d' % (dv, ds))


def stabiliser_size(crys, u):
    n = 0
    for g in crys.G:
        v = np.dot(g.rot, u) + g.trans - u
        if np.abs(v - np.round(v)).max() < 1e-7: n += 1
    return n


def oracle_wyckoffpos(ctx, xc, crys, u):
    uf = np.array([float(x) for x in u])
    try:
        W = crys.Wyckoffpos(uf)
    except Exception as e:
        ctx.violation('wyckoffpos-raises', 'Wyckoffpos raises %r' % (e,), _replay(xc, dict(u=[str(x) for x in u])))
        return None
    def close(a, b):
        dv = a - b
        return np.abs(dv - np.round(dv)).max() < 1e-7
    for a, b in itertools.combinations(range(len(W)), 2):
        if close(W[a], W[b]):
            ctx.violation('wyckoffpos-duplicate', 'Wyckoffpos(%s) returns two points equal modulo the lattice: %s and %s'
                          % ([str(x) for x in u], W[a].tolist(), W[b].tolist()), _replay(xc, dict(u=[str(x) for x in u])))
            break
    for g in crys.G:
        v = np.dot(g.rot, uf) + g.trans
        if not any(close(v, w) for w in W):
            ctx.violation('wyckoffpos-incomplete', 'image of %s under rot %s is missing from Wyckoffpos' % ([str(x) for x in u], g.rot.tolist()),
                          _replay(xc, dict(u=[str(x) for x in u])))
            break
    for w in W:
        if not any(close(np.dot(g.rot, uf) + g.trans, w) for g in crys.G):
            ctx.violation('wyckoffpos-spurious', 'Wyckoffpos returns %s which is not an image of u' % (w.tolist(),),
                          _replay(xc, dict(u=[str(x) for x in u])))
            break
    st = stabiliser_size(crys, uf)
    if len(W) * st != len(crys.G):
        ctx.violation('wyckoffpos-orbit-size', '|Wyckoffpos| = %d but |G|/|stabiliser| = %d/%d' % (len(W), len(crys.G), st),
                      _replay(xc, dict(u=[str(x) for x in u])))
    return W


def oracle_addbasis(ctx, xc, crys, u, W):
    """adding the full orbit keeps the group (rotation + translation parts, modulo the re-centring shift)"""
    if W is None or not len(W) or len(W) > 12 or crys.N + len(W) > 16: return False
    # skip orbits that coincide with existing atoms
    for w in W:
        for atoms in crys.basis:
            for a in atoms:
                dv = w - a
                if np.abs(dv - np.round(dv)).max() < 1e-3: return False
    try:
        c2 = crys.addbasis(W)
    except (ArithmeticError, RecursionError):
        ctx.count('addbasis:reduce/minlattice-error(C19)'); return
    except Exception as e:
        ctx.violation('addbasis-raises:%s' % type(e).__name__, 'addbasis(Wyckoffpos(u)) raises %r' % (e,), _replay(xc, dict(u=[str(x) for x in u])))
        return
    ctx.count('addbasis')
    if not np.allclose(c2.lattice, crys.lattice, atol=1e-9) or c2.N != crys.N + len(W):
        ctx.count('addbasis:cell-changed(skipped)'); return
    s = c2.basis[0][0] - crys.basis[0][0]
    old = sorted(((g.rot.tolist(), g) for g in crys.G), key=lambda t: (t[0], t[1].trans.tolist()))
    new = {}
    for g in c2.G: new.setdefault(str(g.rot.tolist()), []).append(g)
    if len(c2.G) != len(crys.G):
        ctx.violation('addbasis-changes-group-order', 'adding the full orbit of %s changes |G| from %d to %d' % ([str(x) for x in u], len(crys.G), len(c2.G)),
                      _replay(xc, dict(u=[str(x) for x in u])))
        return
    for key, g in old:
        t = g.trans + s - np.dot(g.rot, s)
        ok = False
        for h in new.get(str(key), []):
            dv = h.trans - t
            if np.abs(dv - np.round(dv)).max() < 1e-7 and tuple(h.indexmap[:len(g.indexmap)]) == tuple(g.indexmap):
                ok = True; break
        if not ok:
            ctx.violation('addbasis-loses-operation', 'operation rot %s of the original crystal has no counterpart after addbasis of a full orbit' % (key,),
                          _replay(xc, dict(u=[str(x) for x in u])))
            return


# --------------------------------------------------------------------------------- crystal cases
def _query_points(rng, xo):
    d = xo.d
    pts = [tuple(Fr(rng.randrange(1, 12), rng.choice((5, 7, 9))) for _ in range(d))]
    pts.append(tuple(Fr(rng.randrange(0, 4), 4) for _ in range(d)))
    pts.append(tuple(Fr(rng.randrange(0, 6), 6) for _ in range(d)))
    sp = rng.choice([u for a in xo.basis for u in a])
    pts.append(tuple(sp))
    pts.append(tuple((Fr(1, 2) if k == 0 else Fr(0)) for k in range(d)))
    return pts


def _crystal_cases(ctx, n_random, nprng):
    rng = ctx.rng
    cases = [xc for xc in X.zoo()]
    for k in range(n_random):
        cases.append(X.random_xc(rng, nprng, rotate=0.6, maxatoms=8))
    return cases


def _parse_site_answer(ans):
    head, *sites = ans.split(' # ')
    W = set()
    for tok in head[2:].split():
        s, l = tok.split('.')
        W.add(frozenset((int(s), int(i)) for i in l.split(',')))
    per = {}
    for st in sites:
        pre, ops = st.split(' ops=')
        f = pre.split()
        s, i = f[0].split('.')
        kv = dict(x.split('=') for x in f[1:])
        P = set(X.parse_op(o) for o in ops.split(' & ') if o.strip())
        per[(int(s), int(i))] = (kv, P)
    return W, per


def run_crystals(ctx, n_random, nprng, t_run, budget):
    rng = ctx.rng
    lines, pending = [], []
    for xc in _crystal_cases(ctx, n_random, nprng):
        if time.time() - t_run > budget * 0.6:
            ctx.note('budget: crystal list truncated after %d cases' % ctx.evaluations); break
        try:
            crys = X.build(xc)
        except (ArithmeticError, RecursionError) as e:
            ctx.count('ctor:%s(reduce/minlattice; C19)' % type(e).__name__); continue
        nontriv = oracle_sites(ctx, xc, crys)
        oracle_bases(ctx, xc, crys)
        try:
            xo = X.exact_out(xc, crys)
            ops = X.ops_of(crys, xo.D)
        except X.SnapError as e:
            ctx.disagree('cannot rationalise the implementation\'s output: %s' % e, _replay(xc)); continue
        ctx.case((xo.key(),), nontrivial=nontriv, sample=dict(name=xc.name, natoms=xo.N, nops=len(ops),
                                                               wyckoff=sorted(sorted(w) for w in crys.Wyckoff)))
        ctx.count('class:%dD:%s' % (xo.d, xc.cls))
        m, b, sp = xo.lean_fields()
        opstr = ' | '.join(X.op_str(*o) for o in ops)
        lines.append('%d | site | %s | %s | %s | %s' % (xo.d, m, b, sp, opstr))
        pending.append(('site', xc, crys, xo))
        first = True
        for u in _query_points(rng, xo):
            W = oracle_wyckoffpos(ctx, xc, crys, u)
            if W is None: continue
            ctx.count('wyckoffpos')
            lines.append('%d | wyck | %s | %s' % (xo.d, ','.join(X.fstr(x) for x in u), opstr))
            pending.append(('wyck', xc, xo, u, W))
            if first:
                if oracle_addbasis(ctx, xc, crys, u, W) is not False: first = False
    return lines, pending


def eval_crystals(ctx, lines, pending, answers):
    for line, pend, ans in zip(lines, pending, answers):
        if pend[0] == 'site':
            _, xc, crys, xo = pend
            if ans == 'bad-op':
                ctx.disagree('model rejects the request for %s' % xc.name, _replay(xc)); continue
            W, per = _parse_site_answer(ans)
            if W != set(frozenset(w) for w in crys.Wyckoff):
                ctx.disagree('Wyckoff sets: model %s, implementation %s for %s'
                             % (sorted(map(sorted, W)), sorted(sorted(w) for w in crys.Wyckoff), xc.name), _replay(xc))
            for (s, i), (kv, P) in per.items():
                try:
                    impl = set((tuple(tuple(int(x) for x in r) for r in p.rot), tuple(X.snapD(t, xo.D) for t in p.trans),
                                tuple(tuple(l) for l in p.indexmap)) for p in crys.pointG[s][i])
                except X.SnapError as e:
                    ctx.disagree('pointG translation not rational: %s' % e, _replay(xc, dict(site=[s, i]))); continue
                if impl != P:
                    ctx.disagree('pointG[%d][%d]: model has %d operations, implementation %d (or different translations) for %s'
                                 % (s, i, len(P), len(impl), xc.name),
                                 _replay(xc, dict(site=[s, i], only_model=[X.op_str(*o) for o in sorted(P - impl)[:2]],
                                                  only_impl=[X.op_str(*o) for o in sorted(impl - P)[:2]])))
                if kv.get('fix') != '1' or kv.get('grp') != '1' or kv.get('cf') != '1':
                    ctx.disagree('model self-checks fail at site (%d,%d) of %s: %s' % (s, i, xc.name, kv), _replay(xc, dict(site=[s, i])))
                rots = [np.array(p.rot) for p in crys.pointG[s][i]]
                dv, ds = char_dims(rots)
                if Fr(kv['vec']) != dv or Fr(kv['sym']) != ds:
                    ctx.disagree('invariant dimensions at site (%d,%d) of %s: model vec=%s sym=%s, character formula on the implementation\'s pointG %s %s'
                                 % (s, i, xc.name, kv['vec'], kv['sym'], dv, ds), _replay(xc, dict(site=[s, i])))
        else:
            _, xc, xo, u, W = pend
            try:
                impl = set(tuple(X.snapD(t, xo.D * u[0].denominator * 630) for t in w) for w in W)
            except X.SnapError as e:
                ctx.disagree('Wyckoffpos output not rational: %s' % e, _replay(xc, dict(u=[str(x) for x in u]))); continue
            impl = set(tuple(X.frac1(t) for t in w) for w in impl)
            model = set(tuple(Fr(t) for t in p.split(',')) for p in ans.split(';') if p.strip())
            if impl != model:
                ctx.disagree('Wyckoffpos(%s): model %d points, implementation %d for %s' % ([str(x) for x in u], len(model), len(impl), xc.name),
                             _replay(xc, dict(u=[str(x) for x in u], only_model=[[str(t) for t in p] for p in sorted(model - impl)[:3]],
                                              only_impl=[[str(t) for t in p] for p in sorted(impl - model)[:3]])))


# --------------------------------------------------------------------------------- exhaustive subgroups
def all_subgroups(H):
    """all subgroups of the finite matrix group H (list of tuple-matrices), as sorted tuples of indices"""
    n = len(H)
    idx = {h: k for k, h in enumerate(H)}
    tab = [[idx[X.imul(a, b)] for b in H] for a in H]
    e = idx[tuple(tuple(int(i == j) for j in range(len(H[0]))) for i in range(len(H[0])))]
    def close(gens):
        S = {e} | set(gens)
        frontier = list(S)
        while frontier:
            new = []
            for a in frontier:
                for b in list(S):
                    for c in (tab[a][b], tab[b][a]):
                        if c not in S:
                            S.add(c); new.append(c)
            frontier = new
        return frozenset(S)
    subs = {frozenset([e])}
    cyc = {}
    for a in range(n):
        cyc[a] = close([a]); subs.add(cyc[a])
    two = set()
    for a in range(n):
        for b in range(a + 1, n):
            s = close([a, b]); two.add(s)
    subs |= two
    for s in list(two):
        if len(s) == n: continue
        for c in range(n):
            if c not in s:
                subs.add(close(list(s)[:0] + [c] + _gens_of(s, tab, e)))
    return sorted((tuple(sorted(s)) for s in subs), key=lambda t: (len(t), t))


def _gens_of(s, tab, e):
    """a small generating set of subgroup s"""
    gens, S = [], {e}
    for a in sorted(s):
        if a in S: continue
        gens.append(a)
        S = set(S) | {a}
        frontier = list(S)
        while frontier:
            new = []
            for x in frontier:
                for y in list(S):
                    for c in (tab[x][y], tab[y][x]):
                        if c not in S:
                            S.add(c); new.append(c)
            frontier = new
        if len(S) == len(s): break
    return gens


def holohedries():
    F = Fr
    out = []
    out.append(('O_h', X.diag(1, 1, 1)))
    out.append(('D_6h', [[F(1), -F(1, 2), F(0)], [-F(1, 2), F(1), F(0)], [F(0), F(0), F(8, 3)]]))
    out.append(('D_4(2D)', X.diag(1, 1)))
    out.append(('D_6(2D)', [[F(1), -F(1, 2)], [-F(1, 2), F(1)]]))
    return out


def run_exhaustive(ctx, nprng, t_run, budget):
    from onsager import crystal
    rng = ctx.rng
    lines, pending = [], []
    norient = 2 if ctx.quick else 5
    for name, g in holohedries():
        d = len(g)
        H = X.holohedry(g)
        subs = all_subgroups(H)
        ctx.count('subgroups:%s' % name, len(subs))
        L0 = X.lattice_from_metric(g)
        for sub in subs:
            rots = [np.array(H[k]) for k in sub]
            dv, ds = char_dims(rots)
            cause = cause_of(rots)
            lines.append('%d | dims | %s' % (d, ' | '.join(','.join(str(int(x)) for x in R.ravel()) for R in rots)))
            pending.append((name, sub, rots, dv, ds, L0))
            for o in range(norient):
                Q = np.eye(d) if o == 0 else X.rand_rotation(nprng, d)
                L = Q @ L0
                Li = np.linalg.inv(L)
                order = list(range(len(rots)))
                if o > 0: rng.shuffle(order)
                ops = [crystal.GroupOp(rots[k], np.zeros(d), L @ rots[k] @ Li, ((0,),)) for k in order]
                carts = [p.cartrot for p in ops]
                rep = dict(holohedry=name, subgroup_rots=[R.tolist() for R in rots], order=order, lattice_columns=L.T.tolist(),
                           how='ops=[GroupOp(R, 0, L R L^-1, ((0,),))]; reduce(CombineVectorBasis,[VectorBasis(*g.eigen()) for g in ops]); same for SymmTensorBasis')
                ctx.case((name, sub, o), nontrivial=len(sub) > 1)
                try:
                    vb = reduce(crystal.CombineVectorBasis, [crystal.VectorBasis(*p.eigen()) for p in ops])
                    vl = crystal.Crystal.vectlist(vb)
                    tb = reduce(crystal.CombineTensorBasis, [crystal.SymmTensorBasis(*p.eigen()) for p in ops])
                except Exception as e:
                    ctx.violation('combine-raises:%s' % type(e).__name__, '%s subgroup of order %d: %r' % (name, len(sub), e), rep)
                    continue
                for kind, lst, dim, nm in (('v', vl, dv, 'VectorBasis'), ('t', tb, ds, 'SymmTensorBasis')):
                    if len(lst) != dim:
                        ctx.violation('%s:wrong-dimension:%s' % (nm, cause), '%s subgroup of order %d: %s has %d elements, invariant dimension %d'
                                      % (name, len(sub), nm, len(lst), dim), rep)
                    for sig, what in basis_checks(lst, carts, kind)[:1]:
                        ctx.violation('%s:%s:%s' % (nm, sig, cause), '%s subgroup of order %d: %s' % (name, len(sub), what), rep)
                pending[-1] = pending[-1] + ((Q, vl, tb),) if o == norient - 1 else pending[-1]
    return lines, pending


def eval_exhaustive(ctx, lines, pending, answers):
    for line, pend, ans in zip(lines, pending, answers):
        name, sub, rots, dv, ds, L0 = pend[:6]
        kv = dict(x.split('=', 1) for x in ans.split())
        rep = dict(holohedry=name, subgroup_rots=[R.tolist() for R in rots], lean_answer=ans[:600])
        if kv.get('grp') != '1' or kv.get('cf') != '1':
            ctx.disagree('model: subgroup of %s (order %d) fails isMatGroup / closed-form character' % (name, len(sub)), rep); continue
        if Fr(kv['vec']) != dv or Fr(kv['sym']) != ds:
            ctx.disagree('character dimensions: model %s/%s, harness %s/%s' % (kv['vec'], kv['sym'], dv, ds), rep); continue
        d = len(rots[0])
        def parse(s):
            return [] if s == '-' else [[Fr(x) for x in v.split(',')] for v in s.split(';')]
        V, T = parse(kv['V']), parse(kv['T'])
        # exact verification of the nullspace bases: fixed by every operation, independent, right count
        okV = all(X.mvec([[Fr(int(x)) for x in r] for r in R], v) == v for R in rots for v in V) and _rank(V) == len(V) == dv
        def act_t(R, t):
            Tm = [[t[i * d + j] for j in range(d)] for i in range(d)]
            Rf = [[Fr(int(x)) for x in r] for r in R]
            M = X.mmul(Rf, X.mmul(Tm, X.mT(Rf)))
            return [M[i][j] for i in range(d) for j in range(d)]
        okT = all(act_t(R, t) == t for R in rots for t in T) and all(t[i * d + j] == t[j * d + i] for t in T for i in range(d) for j in range(d)) \
            and _rank(T) == len(T) == ds
        if not (okV and okT):
            ctx.disagree('model nullspace is not an exact basis of the invariant space for a subgroup of %s' % name, rep); continue
        if len(pend) > 6:
            Q, vl, tb = pend[6]
            L = Q @ L0
            Vc = [L @ np.array([float(x) for x in v]) for v in V]
            Tc = [L @ np.array([[float(t[i * d + j]) for j in range(d)] for i in range(d)]) @ L.T for t in T]
            for nm, why in (('VectorBasis', in_span(vl, Vc, 'VectorBasis')), ('SymmTensorBasis', in_span(tb, Tc, 'SymmTensorBasis'))):
                if why:
                    ctx.violation('%s:exact-span:%s' % (nm, cause_of(rots)), '%s subgroup of order %d: %s' % (name, len(sub), why), rep)


def _rank(rows):
    rows = [list(r) for r in rows]
    rk = 0
    ncol = len(rows[0]) if rows else 0
    for c in range(ncol):
        p = next((r for r in range(rk, len(rows)) if rows[r][c] != 0), None)
        if p is None: continue
        rows[rk], rows[p] = rows[p], rows[rk]
        for r in range(len(rows)):
            if r != rk and rows[r][c] != 0:
                f = rows[r][c] / rows[rk][c]
                rows[r] = [a - f * b for a, b in zip(rows[r], rows[rk])]
        rk += 1
    return rk


def loose_stream(ctx, nprng, n):
    """coordinates symmetric only to within a deliberately loose threshold (noise 1e-6, threshold 1e-4): group order,
    point-group orders, Wyckoff sets and "adding a full orbit keeps the symmetry" must be those of the noise-free crystal"""
    rng = ctx.rng
    names = ('HCP-ideal', 'HCP-1.6', 'FCC', 'B2', 'diamond', 'omega', 'L12', 'tet-lowsym', 'honeycomb', 'square-2sp', 'hBN', 'rocksalt')
    pool = [x for x in X.zoo() if x.name in names]
    for k in range(n):
        xc = pool[k % len(pool)] if k < 2 * len(pool) else X.random_xc(rng, nprng, maxatoms=5, redescribe=0.0, spins_prob=0.0)
        try:
            c0 = X.build(xc)
            c1 = X.build(xc, noise=1e-6, nprng=nprng, threshold=1e-4)
        except (ArithmeticError, RecursionError) as e:
            ctx.count('ctor:%s(reduce/minlattice; C19)' % type(e).__name__); continue
        ctx.count('loose-threshold-stream')
        ctx.case(('loose', xc.key(), k), nontrivial=len(c0.G) > 1)
        rp = _replay(xc, dict(noise=1e-6, threshold=1e-4, how='c18lib.build(xc, noise=1e-6, threshold=1e-4); W = crys.Wyckoffpos(u); crys.addbasis(W)'))
        if c0.N != c1.N: continue      # reduced differently: not the situation under test
        rp.update(built_lattice_columns=c1.lattice.T.tolist(), built_basis=[[u.tolist() for u in a] for a in c1.basis],
                  replay='crystal.Crystal(np.array(built_lattice_columns).T, built_basis, threshold=1e-4, noreduce=True)')
        if len(c1.G) != len(c0.G):
            ctx.violation('loose:group-order', '%s with 1e-6 noise and threshold 1e-4: |G| = %d, noise-free crystal %d' % (xc.name, len(c1.G), len(c0.G)), rp); continue
        if [[len(p) for p in row] for row in c1.pointG] != [[len(p) for p in row] for row in c0.pointG]:
            ctx.violation('loose:point-group-orders', '%s: point-group orders differ from the noise-free crystal' % xc.name, rp)
        if set(c1.Wyckoff) != set(c0.Wyckoff):
            ctx.violation('loose:wyckoff-sets', '%s: Wyckoff sets differ from the noise-free crystal' % xc.name, rp)
        d = xc.d
        for q in range(2):
            u = np.array([rng.randrange(1, 12) / rng.choice((5, 7, 9)) for _ in range(d)]) if q == 0 else \
                np.array([rng.randrange(0, 8) / 8 for _ in range(d)])
            W1 = c1.Wyckoffpos(u)     # (c0 and c1 may be centred differently: the same u is not the same point in both)
            rq = dict(rp, u=u.tolist())
            if len(W1) > 24 or c1.N + len(W1) > 30: continue
            if any(np.abs((w - a) - np.round(w - a)).max() < 1e-2 for w in W1 for atoms in c1.basis for a in atoms): continue
            if any(np.abs((W1[a] - W1[b]) - np.round(W1[a] - W1[b])).max() < 1e-2 for a in range(len(W1)) for b in range(a)): continue
            if len(c1.G) % len(W1) != 0:
                ctx.violation('loose:wyckoffpos-size', '%s: Wyckoffpos(%s) has %d points, which does not divide |G| = %d' % (xc.name, u.tolist(), len(W1), len(c1.G)), rq)
                continue
            try:
                c2 = c1.addbasis(W1)
            except (ArithmeticError, RecursionError):
                continue
            except Exception as e:
                ctx.violation('loose:addbasis-raises:%s' % type(e).__name__, 'addbasis raises %r' % (e,), rq); continue
            ctx.count('loose:addbasis')
            if c2.N != c1.N + len(W1): continue
            if len(c2.G) != len(c1.G):
                ctx.violation('loose:addbasis-changes-group-order', '%s (threshold 1e-4, noise 1e-6): adding the full orbit of %s (%d sites) changes |G| from %d to %d '
                              '(threshold of the new crystal %g)' % (xc.name, u.tolist(), len(W1), len(c1.G), len(c2.G), c2.threshold), rq)
                continue
            if [[len(p) for p in row] for row in c2.pointG[:len(c1.pointG)]] != [[len(p) for p in row] for row in c1.pointG]:
                ctx.violation('loose:addbasis-changes-point-groups', '%s: point-group orders of the original sites change after addbasis of a full orbit' % xc.name, rq)
            nsets = len([w for w in c2.Wyckoff if next(iter(w))[0] == len(c1.basis)])
            if nsets != 1:
                ctx.violation('loose:addbasis-orbit-splits', '%s: the added full orbit splits into %d Wyckoff sets' % (xc.name, nsets), rq)


def run(ctx):
    nprng = np.random.default_rng(ctx.rng.getrandbits(32))
    nat = X.native_driver(DRV, MODELS) is not None
    t_run = time.time()
    budget = 115.0 if ctx.quick else 1250.0
    if not nat: ctx.note('native driver could not be built: interpreter fallback')
    l1, p1 = run_exhaustive(ctx, nprng, t_run, budget)
    n_random = (25 if ctx.quick else 1500) if nat else 4
    l2, p2 = run_crystals(ctx, n_random, nprng, t_run, budget)
    if len(p2) < 30:
        import vcheck
        raise vcheck.InternalError('C20: only %d crystal requests before the time budget ran out' % len(p2))
    answers = X.run_driver(ctx, DRV, MODELS, l1 + l2)
    eval_exhaustive(ctx, l1, p1, answers[:len(l1)])
    eval_crystals(ctx, l2, p2, answers[len(l1):])
    loose_stream(ctx, nprng, 30 if ctx.quick else 400)


def search(ctx, reasons):
    nprng = np.random.default_rng(ctx.rng.getrandbits(32))
    n = 0
    while ctx.budget_left() > 20 and n < 300:
        n += 1
        xc = X.random_xc(ctx.rng, nprng, rotate=0.8)
        try:
            crys = X.build(xc)
        except (ArithmeticError, RecursionError):
            continue
        oracle_sites(ctx, xc, crys)
        oracle_bases(ctx, xc, crys)
        xo = X.exact_out(xc, crys)
        for u in _query_points(ctx.rng, xo):
            W = oracle_wyckoffpos(ctx, xc, crys, u)
            oracle_addbasis(ctx, xc, crys, u, W)
