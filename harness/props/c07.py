"""
C07 — Results do not depend on the thermodynamic range beyond the interactions.

Lean: OnsagerProofs/C07.lean — `coeff_diag_perm` (exact chain coefficients depend only on the multiset of transitions)
and `limb_backfill_is_omega0` (the default back-fill of a swing jump without interaction is the bare vacancy rate).
Tie: calculators with range N and N+1 receive the same tag dictionary (tags of the smaller one only);
(a) with exact rational data the periodic chains described by the two calculators are compared transition by transition
(the hypothesis of coeff_diag_perm) and evaluated by the exact chain model; (b) all four tensors of Lij are compared.
"""
import math
from fractions import Fraction
import numpy as np
import vacancy_common as vc
import oracle_chain as oc

META = dict(
    id='C07',
    lean_modules=['OnsagerModel.Chain', 'OnsagerProofs.Chain', 'OnsagerProofs.C07'],
    theorems=['Onsager.C07.mapM_perm', 'Onsager.C07.coeff_diag_perm', 'Onsager.C07.limb_backfill_is_omega0',
              'Onsager.Chain.coeff_diag_eq_Qmin'],
    tie_theorems=[],
    level_text='Partial. Kernel-checked: exact chain coefficients depend only on the multiset of transitions, and the LIMB back-fill of a '
               'swing jump with no interaction at either end is the bare vacancy rate. The harness verifies with exact rational data '
               'that the calculators with range N and N+1 (fed the tags of the smaller one) describe the same periodic chain '
               'transition by transition, and compares all four Lij tensors. The Dyson algorithm of Lij is not modelled.',
    level_note='Trusted: Lean kernel + standard axioms; harness/oracle_chain.py; tag strings are compared as produced by the package '
               '(tag formatting is C15).',
    technique='Lean 4 permutation-invariance + LIMB algebra + exact chain equality between ranges + differential Lij runs',
    rule='crystals with 1- and 2-site bases, with and without origin states; range pairs (1,2) quick, (2,3) thorough; random data for '
         'every tag class of the smaller calculator supplied under a random member tag; non-trivial = at least one omega1 class of '
         'the larger calculator is back-filled; distinct by (crystal, ranges, data)',
    trusted=[], assumptions=['no interaction beyond the smaller range (that is the premise of the property)'],
)

TAGTYPES = (('vacancy', 'V'), ('solute', 'S'), ('solute-vacancy', 'SV'), ('omega0', 'T0'), ('omega1', 'T1'), ('omega2', 'T2'))


def user_tags(rng, calc, exact=False):
    """Random data for every class of `calc`, keyed by a random member tag.  exact: unit prefactors for S/SV (so that the
    square roots in the LIMB back-fill are exact) and even integer multiples of ln q for their energies."""
    lnq = math.log(1.5)
    ut = {}
    for tt, short in TAGTYPES:
        for tags in calc.tags[tt]:
            tag = rng.choice(tags)
            if exact:
                pre = 1.0 if short in ('S', 'SV') else rng.randint(4, 16) / 8.0
                ene = (2 * rng.randint(-1, 1) if short in ('S', 'SV') else rng.randint(-1, 1) if short == 'V' else rng.randint(2, 6)) * lnq
            else:
                pre = math.exp(rng.uniform(-0.7, 0.7))
                ene = rng.uniform(-1, 1) + (1.5 if short.startswith('T') else 0.0)
            ut[tag] = (pre, ene)
    return ut


def to_exact(d):
    lnq = math.log(1.5)
    out = {}
    for k, v in d.items():
        if k.startswith('pre'):
            out[k] = [Fraction(float(x)).limit_denominator(64) for x in v]
            if any(abs(float(a) - float(b)) > 1e-12 for a, b in zip(out[k], v)): return None
        else:
            n = [int(round(float(x) / lnq)) for x in v]
            if any(abs(a * lnq - float(b)) > 1e-9 for a, b in zip(n, v)): return None
            out[k] = n
    return out


def canon(ch, crys):
    nst, ents = oc._lattice_trans(ch, crys)
    return nst, sorted((x, y, r, ds, dv) for (x, y, r, ds, dv) in ents)


def run(ctx):
    # (sc, 2) and (bcc, 2): thermodynamic stars that are not contiguous in the kinetic star list (thermo2kin = [1,2,4], [1,2,3,5])
    pairs = [('sq2d', 1), ('fcc', 1), ('honey2d', 1), ('rect2d-2site', 1), ('sc', 2), ('bcc', 2)] if ctx.quick else \
            [('sq2d', 1), ('sq2d', 2), ('tri2d', 1), ('tri2d', 2), ('fcc', 1), ('fcc', 2), ('bcc', 1), ('honey2d', 1), ('honey2d', 2),
             ('hcp', 1), ('rect2d-2site', 1), ('rect2d-2site', 2), ('rumpled', 1), ('twoW', 1), ('sc', 2), ('bcc', 2), ('sc', 1), ('omegaR', 1)]
    for name, N in pairs:
        small, big = vc.calculator(name, N), vc.calculator(name, N + 1)
        for t in range(2 if ctx.quick else 3):
            exact = (t == 0)
            ut = user_tags(ctx.rng, small, exact=exact)
            ds, db = small.tags2preene(ut), big.tags2preene(ut)
            Ls = small.Lij(*small.preene2betafree(1.0, **ds)); Lb = big.Lij(*big.preene2betafree(1.0, **db))
            sc = max(np.abs(x).max() for x in Ls)
            rep = dict(crystal=name, ranges=[N, N + 1], usertags={k: list(v) for k, v in ut.items()})
            nback = len(big.om1_jn) - sum(1 for tags in big.tags['omega1'] if any(tg in ut for tg in tags))
            ctx.case((name, N, t, str(sorted(ut.items()))), nontrivial=nback > 0,
                     sample=dict(crystal=name, ranges=[N, N + 1], classes_small=len(small.om1_jn), classes_big=len(big.om1_jn), backfilled=nback))
            ctx.count('pair:%s:%d-%d' % (name, N, N + 1))
            for a, b, lab in zip(Ls, Lb, ('L0vv', 'Lss', 'Lsv', 'L1vv')):
                dev = np.abs(np.asarray(a) - np.asarray(b)).max()
                if not np.all(np.isfinite(b)) or dev > 1e-7 * sc:
                    nonuni = len(small.sitelist) > 1 and (np.ptp(ds['eneS']) > 1e-12 or np.ptp(ds['preS']) > 1e-12)
                    ctx.violation('range-dependent:%s:%s%s' % (lab, name, ':nonuniform-solute-sites' if nonuni else ''),
                                  '%s changes by %.3g (scale %.3g) between thermodynamic range %d and %d on %s with the same tag data'
                                  % (lab, dev, sc, N, N + 1, name), dict(rep, small=np.asarray(a).tolist(), big=np.asarray(b).tolist()))
            if exact:
                es, eb = to_exact(ds), to_exact(db)
                if es is None or eb is None:
                    ctx.note('exact data not recoverable for %s (LIMB produced irrational values)' % name); continue
                n = 7 if (small.crys.dim == 2 and N == 1) else (9 if small.crys.dim == 2 else 5)
                if small.crys.dim == 3 and N > 1: continue
                try:
                    cs = oc.chain_transitions(small, oc.activities_exact(Fraction(3, 2), es), n)
                    cb = oc.chain_transitions(big, oc.activities_exact(Fraction(3, 2), eb), n)
                except ValueError as e:
                    ctx.note('chain %s skipped: %s' % (name, e)); continue
                ctx.count('exact-chain-compared:' + name)
                if canon(cs, small.crys) != canon(cb, big.crys):
                    a, b = canon(cs, small.crys)[1], canon(cb, big.crys)[1]
                    diff = [(x, y) for x, y in zip(a, b) if x != y][:3]
                    ctx.violation('chain-differs:%s' % name,
                                  'with the same tag data the calculators with range %d and %d describe different one-solute/one-vacancy chains '
                                  '(n=%d supercell): first differing transitions %s' % (N, N + 1, n, diff), rep)


def search(ctx, reasons):
    pass
