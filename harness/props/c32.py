"""
C32 — all cluster-expansion evaluators agree on every configuration.

Tie: for every generated configuration (crystal, supercell, spectator occupation, optional fixed
vacancy, cluster classes, integer values) the configuration is exported to the Lean model
(Drive/C32.lean), which re-derives the periodic indexing (`maketrans`, `incell`, `index`,
`Rveclist`), rebuilds the interaction table of `clusterevaluator` and the index matrices, and
evaluates energies; translist / Rveclist / site indices / siteinteract / interact / matrices must be
IDENTICAL to the implementation's, and the energies equal on the sampled occupations.  About that
model the kernel proves `interact_energy_eq_bruteforce` for every table and every occupation.
Direct oracle: on every occupation (all 2^n for small supercells) evalcluster, the index matrices,
the interaction list, MonteCarloSampler.E and the harness's own position-based brute force agree
exactly (integer values).
"""
import itertools, os, sys, time, multiprocessing as mp
import numpy as np
from props import _clusterzoo as Z

META = dict(
    id='C32',
    level_text='Kernel-checked proof that the interaction-list evaluator (tuple merging through interdict, '
               'spectator-only constants, vacancy skip, repeated indices from wrap-around), read out as the Monte Carlo '
               'sampler does, equals the brute-force sum over placed clusters for EVERY term table, spectator and '
               'mobile occupation; plus index-matrix row counts, values·evalcluster = brute sum, and for the periodic site '
               'indexing built by maketrans: inverse relations, duplicate-free translation list, invariance of index under '
               'supercell translations and index(ciR(n)) = n (vacancy clusters are anchored on the vacancy site).  The model is tied to the code on every run by exact equality of translist, Rveclist, '
               'site indices, siteinteract/interact tables and index matrices for every generated configuration, and '
               'all four implementation evaluators are compared with an independent position-based brute force on '
               'every occupation of the small supercells (exhaustive 2^n, n ≤ 12) and random occupations of larger ones.',
    level_note='Trusted: Lean kernel + standard axioms; the harness (export of clusters in the implementation\'s iteration '
               'order, position-based brute force). Modelled functionally, not as the imperative loop: '
               'MonteCarloSampler.start\'s clustercount (that refinement is C33\'s subject). Geometry (cluster generation) is '
               'C31; here clusters are data.  2-d crystals: ClusterSupercell.maketrans is 3-d only (ValueError for dim 2), '
               'so layered 3-d cells with a long c axis stand in for them.',
    technique='Lean 4 proof by induction over the evaluator loop (simulation by a merged tuple list) + exact table '
              'correspondence + exhaustive differential oracle over occupations',
    lean_modules=['OnsagerModel.C32', 'OnsagerProofs.C32'],
    theorems=['Onsager.C32.interact_energy_eq_bruteforce', 'Onsager.C32.clustercount_eq_zero_iff',
              'Onsager.C32.occOK_iff', 'Onsager.C32.repeated_index_ok', 'Onsager.C32.matrices_rows_count_eq',
              'Onsager.C32.dot_counts_eq_bruteSum', 'Onsager.C32.evaluators_agree',
              'Onsager.C32.incell_periodic', 'Onsager.C32.index_periodic',
              'Onsager.C32.maketrans_inverseOK', 'Onsager.C32.maketrans_translist',
              'Onsager.C32.transIdx_rvec', 'Onsager.C32.index_ciR'],
    tie_theorems=[],
    rule='configuration = zoo crystal (SC, FCC, BCC, HCP, B2, displaced B2, diamond, rocksalt, layered square / '
         'triangular / honeycomb, chains, triclinic; spectator and/or several mobile sublattices) x supercell matrix '
         '(diagonal, sheared, negative determinant; 1..64 cells) x optional vacancy x cluster classes (makeclusters + '
         'makeVacancyClusters, or random hand-made clusters reaching across the cell, classes given as lists with '
         'repeats, empty classes, values with/without constant) x random integer values x spectator occupation; plus object-reuse histories (one '
         'ClusterSupercell driven through addvacancy(None / a / b / ...), every evaluator incl. the jump-network evaluators '
         'after each move, against brute force, the model and a freshly built supercell); every '
         'occupation of a configuration is one evaluation; a configuration is non-trivial when some interaction tuple '
         'was merged or has a repeated index or a spectator-only constant; distinct by exported text',
    trusted=['export of the clusters in the order the implementation iterates them (lists, not sets)',
             'position-based site lookup against ClusterSupercell.mobilepos/specpos (harness brute force)'],
    assumptions=['occupations are 0/1 with -1 exactly on the vacancy site (what MonteCarloSampler.start accepts); '
                 'a few rejected occupations are checked for the same error on model and implementation',
                 'cluster values are integers so that all float sums are exact'],
)

DRIVER = 'Drive/C32.lean'


# ------------------------------------------------------------------ configuration
def _random_clusters(crys, sup, nrng, ncl, vac_chem):
    """Hand-made clusters reaching across (and around) the cell, closed under nothing."""
    from onsager import cluster
    out = []
    for _ in range(ncl):
        order = int(nrng.integers(1, 5))
        sites = []
        for _k in range(order):
            ci = crys.atomindices[int(nrng.integers(len(crys.atomindices)))]
            R = nrng.integers(-2, 3, size=3)
            s = cluster.ClusterSite(ci, R)
            if s not in sites: sites.append(s)
        isvac = vac_chem is not None and nrng.random() < 0.4
        if isvac:
            ci = [c for c in crys.atomindices if c[0] == vac_chem or nrng.random() < 0.15]
            ci = ci[int(nrng.integers(len(ci)))]
            v = cluster.ClusterSite(ci, nrng.integers(-1, 2, size=3))
            sites = [v] + [s for s in sites if s != v]
            cl = cluster.Cluster(sites, vacancy=True)
        else:
            cl = cluster.Cluster(sites)
        k = int(nrng.integers(1, 4))
        cls = [cl]
        G = list(crys.G)
        for _g in range(k - 1):
            cls.append(cl.g(crys, G[int(nrng.integers(len(G)))]))
        if nrng.random() < 0.3: cls.append(cls[0])      # repeated cluster inside a class → merging
        out.append(cls)
    if nrng.random() < 0.3: out.insert(int(nrng.integers(len(out) + 1)), [])   # empty class
    return out


def build(spec):
    """spec = dict(zoo=name, S=3x3 list, vac=None|'rand'|int, seed=int, mode='make'|'random', order=int, const=bool)"""
    from onsager import cluster, supercell
    nrng = np.random.default_rng(spec['seed'])
    name, crys, spectator, chem, cut, jcut = next(z for z in Z.zoo() if z[0] == spec['zoo'])
    S = np.array(spec['S'], dtype=int)
    sup = supercell.ClusterSupercell(crys, S, spectator=spectator)
    n = sup.Nmobile * sup.size
    vac = spec.get('vac')
    if vac == 'rand':
        cands = [k for k in range(n) if sup.mobileindices[k % sup.Nmobile][0] == chem]
        vac = int(cands[int(nrng.integers(len(cands)))])
    sup.addvacancy(vac)
    if spec['mode'] == 'make':
        base = cluster.makeclusters(crys, cut * spec.get('cutscale', 1.0), spec['order'])
        classes = Z.freeze(base)
        if vac is not None or spec.get('vacclusters'):
            classes += Z.freeze(cluster.makeVacancyClusters(crys, chem, base))
    else:
        classes = _random_clusters(crys, sup, nrng, int(nrng.integers(2, 7)),
                                   chem if (vac is not None or nrng.random() < 0.3) else None)
    nval = len(classes) + (1 if spec.get('const', True) else 0)
    values = nrng.integers(-9, 10, size=nval).astype(float)
    if nrng.random() < 0.2: values[nrng.integers(nval)] = 0.
    socc = nrng.integers(0, 2, size=sup.Nspec * sup.size)
    if sup.Nspec and nrng.random() < 0.2: socc[:] = 1
    return dict(sup=sup, crys=crys, classes=classes, values=values, socc=socc, vac=vac, n=n, chem=chem, nrng=nrng, jcut=jcut)


def _mat_txt(mats):
    def rows(m):
        if m.ndim == 1: return '0'
        return Z.show_ll([list(r) for r in m]) if m.shape[0] else '0'
    return '/'.join('+'.join(rows(m) for m in cls) for cls in mats)


def _matcount(mats, occ, ncls, size):
    cc = np.zeros(ncls + 1, dtype=int)
    cc[-1] = size
    for mc, cls in enumerate(mats):
        for m in cls:
            if m.ndim == 1: continue
            for row in m:
                if all(occ[k] == 1 for k in row): cc[mc] += 1
    return cc


def _dot(values, counts, ncls):
    return float(np.dot(values, counts)) if len(values) == ncls + 1 else float(np.dot(values, counts[:ncls]))


def eval_config(spec):
    """Runs in a worker: everything about one configuration.  Returns plain data."""
    from onsager import cluster
    t0 = time.time()
    res = dict(spec=spec, lines=[], expect=[], viol=[], nocc=0, flags=set(), err=None)
    try:
        c = build(dict(spec, vac=None, vacclusters=True) if spec.get('vacseq') is not None else spec)
    except Exception as e:
        res['err'] = 'build: %r' % (e,)
        return res
    if spec.get('vacseq') is None:
        return _eval_step(c, spec, res, t0)
    # ---- object-reuse history: ONE ClusterSupercell driven through addvacancy(None / a / b / ...), every evaluator
    #      after every move, against brute force, the Lean model and a freshly constructed supercell
    from onsager import supercell
    sup, n = c['sup'], c['n']
    cands = [k for k in range(n) if sup.mobileindices[k % sup.Nmobile][0] == c['chem']]
    hist = []
    for step, v in enumerate(spec['vacseq']):
        v = None if v is None else int(cands[v % len(cands)])
        hist.append(v)
        sup.addvacancy(v); c['vac'] = v
        nv = len(res['viol'])
        _eval_step(c, dict(spec, vac=v), res, t0)
        fresh = supercell.ClusterSupercell(c['crys'], np.array(spec['S'], dtype=int), spectator=list(sup.spectator))
        fresh.addvacancy(v)
        _compare_fresh(c, fresh, res, spec)
        for x in res['viol'][nv:]:
            if step > 0: x['sig'] = 'reuse-history:' + x['sig']
            x['replay']['vacancy_history'] = list(hist)
            x['what'] = 'one ClusterSupercell after addvacancy %r: %s' % (hist, x['what'])
        if res['err']: return res
        res['flags'] = set(res['flags'])
    res['flags'].add('reuse-history')
    res['flags'] = sorted(res['flags'])
    return res


def _same_jumpeval(a, b):
    (si1, ia1, j1, r1), (si2, ia2, j2, r2) = a, b
    return ([list(map(int, x)) for x in si1] == [list(map(int, x)) for x in si2] and
            [float(x) for x in ia1] == [float(x) for x in ia2] and list(map(int, r1)) == list(map(int, r2)) and
            len(j1) == len(j2) and all(tuple(x[0]) == tuple(y[0]) and np.allclose(x[1], y[1]) for x, y in zip(j1, j2)))


def _compare_fresh(c, fresh, res, spec):
    """every table-building evaluator on the reused object vs. a freshly constructed supercell with the same vacancy"""
    sup, classes, values, socc, vac, nrng = c['sup'], c['classes'], c['values'], c['socc'], c['vac'], c['nrng']

    def bad(which, what):
        res['viol'].append(dict(sig='differs-from-fresh:' + which, what=what,
                                replay=dict(spec=spec, vac=vac, socc=[int(x) for x in socc], values=[float(x) for x in values])))
    try:
        a, b = sup.clusterevaluator(socc, classes, values), fresh.clusterevaluator(socc, classes, values)
        if [list(x) for x in a[0]] != [list(x) for x in b[0]] or list(a[1]) != list(b[1]):
            bad('clusterevaluator', 'clusterevaluator tables differ from those of a fresh supercell')
        a, b = sup.expandcluster_matrices(socc, classes), fresh.expandcluster_matrices(socc, classes)
        if _mat_txt(a) != _mat_txt(b): bad('expandcluster_matrices', 'index matrices differ from those of a fresh supercell')
        for _ in range(4):
            occ = nrng.integers(0, 2, size=c['n'])
            if vac is not None: occ[vac] = -1
            if list(sup.evalcluster(occ, socc, classes)) != list(fresh.evalcluster(occ, socc, classes)):
                bad('evalcluster', 'evalcluster counts differ from those of a fresh supercell on occ %r' % (occ.tolist(),))
                break
        jn = c['crys'].jumpnetwork(c['chem'], c['jcut'])
        KRA = np.arange(1., len(jn) + 1)
        # (the moving-atom evaluator does not accept vacancy clusters: Cluster.__sub__ is undefined for them)
        keep = [k for k, cls in enumerate(classes) if vac is not None or not any(cl.__vacancy__ for cl in cls)]
        cl_j = [classes[k] for k in keep]
        val_j = np.array([values[k] for k in keep] + ([values[-1]] if len(values) > len(classes) else []))

        def jeval(obj):
            si, ia = obj.clusterevaluator(socc, cl_j, val_j)
            f = obj.jumpnetworkevaluator if vac is None else obj.jumpnetworkevaluator_vacancy
            return f(socc, cl_j, val_j, c['chem'], jn, KRA, (), (), [list(x) for x in si], list(ia))
        a, b = jeval(sup), jeval(fresh)
        which = 'jumpnetworkevaluator' if vac is None else 'jumpnetworkevaluator_vacancy'
        if not _same_jumpeval(a, b): bad(which, which + ' tables differ from those of a fresh supercell')
    except Exception as e:
        bad('raises:' + type(e).__name__, 'evaluator raised %r on the reused supercell / fresh supercell' % (e,))


def _eval_step(c, spec, res, t0):
    from onsager import cluster
    sup, classes, values, socc, vac, n, nrng = c['sup'], c['classes'], c['values'], c['socc'], c['vac'], c['n'], c['nrng']
    ncls = len(classes)
    def crash(where, e, **kw):
        res['viol'].append(dict(sig='evaluator-raises:%s:%s' % (where, type(e).__name__),
                                what='%s raised %r on a valid configuration' % (where, e),
                                replay=dict(spec=spec, socc=[int(x) for x in socc], values=[float(x) for x in values], **kw)))
        res['err'] = 'raised'
        return res
    try:
        si, ia = sup.clusterevaluator(socc, classes, values)
    except Exception as e:
        return crash('clusterevaluator', e)
    try:
        mats = sup.expandcluster_matrices(socc, classes)
    except Exception as e:
        return crash('expandcluster_matrices', e)
    try:
        MC = cluster.MonteCarloSampler(sup, socc, classes, values)
    except Exception as e:
        return crash('MonteCarloSampler', e)
    # ---- the cfg line and what the implementation says
    line = 'cfg %s %d %d %d %s %s %s' % (Z.show_l(np.array(sup.superlatt).reshape(-1)), sup.Nmobile, sup.Nspec,
                                        -1 if vac is None else vac, Z.show_l(socc), Z.show_fl(values),
                                        Z.classes_txt(sup, classes) if ncls else '')
    invok = (np.array_equal(sup.invsuper @ sup.superlatt, sup.size * np.eye(3, dtype=int)) and
             np.array_equal(sup.superlatt @ sup.invsuper, sup.size * np.eye(3, dtype=int)))
    exp = 'ok %d %d T=%s R=%s SI=%s IA=%s M=%s' % (
        sup.size, 1 if invok else 0, ';'.join(Z.show_l(t) for t in sup.translist),
        ';'.join(Z.show_l(r) for r in sup.Rveclist), Z.show_ll(si), Z.show_fl(ia), _mat_txt(mats))
    res['lines'].append(line.rstrip()); res['expect'].append(exp)
    # ---- site indices far outside the cell (periodicity of index)
    for _ in range(6):
        ci = sup.crys.atomindices[int(nrng.integers(len(sup.crys.atomindices)))]
        R = nrng.integers(-7, 8, size=3)
        ind, mob = sup.index(R, ci)
        k = sup.indexmobile[ci] if mob else sup.indexspectator[ci]
        res['lines'].append('idx %s,%d,%d,%d,%d' % ('m' if mob else 's', k, R[0], R[1], R[2]))
        res['expect'].append(str(int(ind)))
    # ---- harness readers
    tup = Z.table_tuples(si, len(ia))
    tab = Z.MaskEval([(Z.mask(t), v) for t, v in zip(tup, ia)])
    merged = len(ia) - 1 < sum(1 for cls in classes for cl in cls) and len(ia) > 1
    if any(len(set(t)) < len(t) for t in tup): res['flags'].add('repeated-index')
    geo = Z.Geo(sup)
    try:
        placed = geo.placed(classes, vac)
    except ArithmeticError as e:
        res['err'] = 'geometry: %r' % (e,)
        return res
    sbits = Z.occ_bits(socc)
    bf_terms = []
    nplaced_mobile = 0
    for mc, pl in enumerate(placed):
        v = values[mc]
        for mob, spec_ in pl:
            if (Z.mask(spec_) & sbits) != Z.mask(spec_): continue
            if len(mob) == 0: res['flags'].add('spectator-only')
            else: nplaced_mobile += 1
            bf_terms.append((Z.mask(mob), v))
    if len(values) == ncls + 1: bf_terms.append((0, values[-1] * sup.size))
    bf = Z.MaskEval(bf_terms)
    if nplaced_mobile > len(ia) - 1: res['flags'].add('merged')
    if vac is not None: res['flags'].add('vacancy')
    # ---- occupations
    free = [k for k in range(n) if k != vac]
    nfree = len(free)
    if nfree <= spec['exhaust']:
        occs = itertools.product((0, 1), repeat=nfree)
        res['flags'].add('exhaustive')
        nlean = 256 if nfree <= 8 else 48
    else:
        occs = (tuple(nrng.integers(0, 2, size=nfree)) for _ in range(spec['nrandom']))
        nlean = 24
    total = (1 << nfree) if nfree <= spec['exhaust'] else spec['nrandom']
    pick = set(range(total)) if total <= nlean else set(int(x) for x in nrng.choice(total, size=nlean, replace=False))
    for num, bits in enumerate(occs):
        occ = np.zeros(n, dtype=int)
        occ[free] = bits
        if vac is not None: occ[vac] = -1
        ob = Z.occ_bits(occ)
        try:
            counts = sup.evalcluster(occ, socc, classes)
        except Exception as e:
            return crash('evalcluster', e, occ=[int(x) for x in occ])
        E = dict(evalcluster=_dot(values, counts, ncls),
                 matrices=_dot(values, _matcount(mats, occ, ncls, sup.size), ncls),
                 clusterevaluator=float(tab(ob)),
                 brute=float(bf(ob)))
        try:
            MC.start(occ.copy())
            E['sampler'] = float(MC.E())
        except Exception as e:
            return crash('MonteCarloSampler.start/E', e, occ=[int(x) for x in occ])
        res['nocc'] += 1
        bad = sorted(k for k in E if E[k] != E['brute'])
        if bad and len(res['viol']) < 3:
            res['viol'].append(dict(sig='energy-mismatch:' + '+'.join(bad),
                                    what='evaluators disagree on one occupation: %r' % (E,),
                                    replay=dict(spec=spec, occ=[int(x) for x in occ], socc=[int(x) for x in socc],
                                                values=[float(x) for x in values], energies=E)))
        if num in pick:
            res['lines'].append('E ' + Z.show_l(occ))
            res['expect'].append('%s %s %s | %s' % (Z.frac(E['evalcluster']), Z.frac(E['sampler']), Z.frac(E['matrices']),
                                                    Z.show_l(counts)))
    # ---- occupations start() / evalcluster reject (malformed stream)
    if spec.get('malformed') and MC.siteinteract.ndim == 2:   # (no interactions at all: start() has nothing to loop over)
        for _ in range(4):
            occ = nrng.integers(0, 2, size=n)
            if vac is not None:
                occ[vac] = [1, 0, -1][int(nrng.integers(3))]
            k = int(nrng.integers(n))
            if nrng.random() < 0.6 and k != vac: occ[k] = -1
            try:
                e1 = Z.frac(_dot(values, sup.evalcluster(occ, socc, classes), ncls))
                cnt = Z.show_l(sup.evalcluster(occ, socc, classes))
            except RuntimeWarning:
                e1 = None
            try:
                MC.start(occ.copy()); e2 = Z.frac(MC.E())
            except (RuntimeWarning, RuntimeError):
                e2 = 'start-error'
            res['lines'].append('E ' + Z.show_l(occ))
            if e1 is None: res['expect'].append('error RuntimeWarning')
            else:
                e3 = Z.frac(_dot(values, _matcount(mats, occ, ncls, sup.size), ncls))
                res['expect'].append('%s %s %s | %s' % (e1, e2, e3, cnt))
            res['flags'].add('malformed-occ')
    res['n'] = n
    res['ninter'] = len(ia)
    res['flags'] = set(res['flags'])
    res['secs'] = time.time() - t0
    res['flags'] = sorted(res['flags'])
    return res


# ------------------------------------------------------------------ plan
def _plan(ctx, thorough):
    rng = ctx.rng
    zoo = Z.zoo()
    specs = []
    exhaust = 12 if thorough else 10

    def add(zname, S, **kw):
        d = dict(zoo=zname, S=np.array(S).tolist(), vac=None, seed=rng.getrandbits(32), mode='make', order=3,
                 const=True, exhaust=exhaust, nrandom=200 if thorough else 60, malformed=(len(specs) % 5 == 4))
        d.update(kw)
        specs.append(d)

    sizes = {}
    for name, crys, spectator, chem, cut, jcut in zoo:
        nm = sum(len(crys.basis[c]) for c in range(crys.Nchem) if c not in spectator)
        sizes[name] = nm
    sup_small = Z.supers()
    # (1) every zoo crystal on several small supercells, with and without vacancy: exhaustive occupations
    per = 8 if thorough else 3
    for name in sizes:
        cands = [S for S in sup_small if 1 <= sizes[name] * abs(int(round(np.linalg.det(S)))) <= exhaust]
        rng.shuffle(cands)
        for S in cands[:per]:
            add(name, S, order=rng.choice([2, 3, 3, 4]))
            add(name, S, vac='rand', order=rng.choice([2, 3]))
    # (2) the n = 12 (thorough) / n = 10 (quick) flagship cells with spectator + mobile sublattices
    flag = [('B2', np.diag([3, 2, 2])), ('RS', np.diag([3, 2, 2])), ('HONs2d', np.diag([3, 2, 1])),
            ('CHAIN', np.diag([12, 1, 1])), ('TRICL', np.diag([3, 2, 1])), ('FCC', np.diag([3, 2, 2])),
            ('HCP', np.diag([3, 2, 1])), ('CHAIN2', np.diag([6, 1, 1])), ('B2d', np.diag([4, 3, 1]))] if thorough else \
           [('B2', np.diag([3, 2, 2])), ('HONs2d', np.diag([3, 2, 1])), ('CHAIN', np.diag([12, 1, 1])),
            ('TRICL', np.diag([3, 2, 1]))]
    for name, S in flag:
        add(name, S, order=3, exhaust=12)
        add(name, S, vac='rand', order=2, exhaust=12)
    # (3) random hand-made clusters (wrap-around, repeats, empty classes, values without constant)
    nr = 200 if thorough else 16
    names = list(sizes)
    for t in range(nr):
        name = names[t % len(names)]
        cands = [S for S in sup_small if 1 <= sizes[name] * abs(int(round(np.linalg.det(S)))) <= exhaust]
        S = cands[rng.randrange(len(cands))]
        add(name, S, mode='random', vac=('rand' if t % 2 else None), const=(t % 3 != 0))
    # (5) object-reuse histories: one ClusterSupercell, vacancy moved around (None / a / b / ...), all evaluators each time
    nh = 40 if thorough else 10
    hnames = ['FCC', 'HCP', 'HON2d', 'CHAIN2', 'B2', 'SQ2d', 'RSm', 'TRICL', 'DIA', 'TRI2d', 'HONs2d', 'CHAINm']
    for t in range(nh):
        name = hnames[t % len(hnames)]
        cands = [S for S in sup_small if 3 <= sizes[name] * abs(int(round(np.linalg.det(S)))) <= 10]
        S = cands[rng.randrange(len(cands))]
        seq = [None] + [rng.randrange(12) for _ in range(4)] + [None, rng.randrange(12)]
        if t % 3 == 0: seq = [0, 3, 5, 2, None, 3]
        add(name, S, vacseq=seq, order=rng.choice([2, 3]), exhaust=5, nrandom=10, malformed=False)
    # (4) larger supercells, random occupations
    big = Z.big_supers()
    nb = 60 if thorough else 5
    for t in range(nb):
        name = names[rng.randrange(len(names))]
        S = big[rng.randrange(len(big))]
        if sizes[name] * abs(int(round(np.linalg.det(S)))) > (200 if thorough else 90): S = big[0]
        add(name, S, vac=('rand' if t % 2 else None), order=rng.choice([2, 3]), mode=('random' if t % 4 == 3 else 'make'))
    return specs


def _run_specs(ctx, specs):
    os.environ.setdefault('OMP_NUM_THREADS', '1')
    nproc = min(8, max(1, (os.cpu_count() or 2) // 2))
    with mp.get_context('fork').Pool(nproc) as pool:
        results = pool.map(eval_config, specs, chunksize=1)
    sessions, expects, owners = [], [], []
    for r in results:
        if r['err']:
            for v in r['viol']: ctx.violation(v['sig'], v['what'], v['replay'])
            if not r['viol']:
                # the harness itself could not set the configuration up: never silently dropped
                ctx.disagree('configuration could not be evaluated (%s): %r' % (r['err'], r['spec']), dict(spec=r['spec']))
            ctx.count('raised')
            continue
        for f in r['flags']: ctx.count('flag:' + f)
        ctx.count('zoo:' + r['spec']['zoo']); ctx.count('mode:' + r['spec']['mode'])
        ctx.count('occupations', r['nocc'])
        nontriv = any(f in r['flags'] for f in ('merged', 'repeated-index', 'spectator-only'))
        ctx.case(r['lines'][0], nontrivial=nontriv,
                 sample=dict(zoo=r['spec']['zoo'], S=r['spec']['S'], vac=r['spec']['vac'], sites=r['n'],
                             interactions=r['ninter'], occupations=r['nocc'], flags=r['flags']))
        ctx.evaluations += r['nocc'] - 1
        for v in r['viol']:
            ctx.violation(v['sig'], v['what'], v['replay'])
        sessions.append(r['lines']); expects.append(r['expect']); owners.append(r['spec'])
    answers = Z.run_sessions(ctx, 'C32', ['OnsagerModel.Basic', 'OnsagerModel.C32'], sessions)
    nd = 0
    for got, expect, lines, o in zip(answers, expects, sessions, owners):
        for g, e, l in zip(got, expect, lines):
            if g != e:
                nd += 1
                if nd <= 10:
                    k = next((i for i in range(min(len(g), len(e))) if g[i] != e[i]), min(len(g), len(e)))
                    ctx.disagree('model/implementation differ on `%s…` (%s %s): model `…%s…` impl `…%s…`'
                                 % (l[:60], o['zoo'], o['S'], g[max(0, k - 30):k + 50], e[max(0, k - 30):k + 50]),
                                 dict(spec=o, line=l, model=g, impl=e))
    return nd


def run(ctx):
    specs = _plan(ctx, not ctx.quick)
    _run_specs(ctx, specs)


def search(ctx, reasons):
    """Failing-input search: many more random-cluster configurations with the direct oracle."""
    rng = ctx.rng
    names = [z[0] for z in Z.zoo()]
    specs = []
    for t in range(120):
        S = Z.supers()[rng.randrange(len(Z.supers()))]
        specs.append(dict(zoo=names[t % len(names)], S=np.array(S).tolist(), vac=('rand' if t % 2 else None),
                          seed=rng.getrandbits(32), mode=('random' if t % 3 else 'make'), order=3,
                          const=(t % 4 != 0), exhaust=9, nrandom=60, malformed=False))
    _run_specs(ctx, specs)


def replay(ctx, data):
    """./check C32 --replay replays/C32_….json : re-evaluate the recorded occupation on the current tree."""
    from onsager import cluster
    rp = data.get('replay') or {}
    if 'spec' not in rp:
        print(data); return 0
    print('configuration:', rp['spec'], 'vacancy history on one object:', rp.get('vacancy_history'))
    if 'occ' in rp and 'vacancy_history' not in rp:
        c = build(rp['spec'])
        sup, classes, values, socc = c['sup'], c['classes'], c['values'], c['socc']
    if 'occ' not in rp or 'vacancy_history' in rp:
        r = eval_config(rp['spec'])
        print('violations now:', [v['sig'] for v in r['viol']])
        return 1 if r['viol'] else 0
    occ = np.array(rp['occ'])
    ncls = len(classes)
    si, ia = sup.clusterevaluator(socc, classes, values)
    mats = sup.expandcluster_matrices(socc, classes)
    MC = cluster.MonteCarloSampler(sup, socc, classes, values)
    tab = Z.MaskEval([(Z.mask(t), v) for t, v in zip(Z.table_tuples(si, len(ia)), ia)])
    geo = Z.Geo(sup)
    sbits = Z.occ_bits(socc)
    terms = [(Z.mask(mob), values[mc]) for mc, pl in enumerate(geo.placed(classes, c['vac'])) for mob, sp in pl
             if (Z.mask(sp) & sbits) == Z.mask(sp)]
    if len(values) == ncls + 1: terms.append((0, values[-1] * sup.size))
    MC.start(occ.copy())
    E = dict(evalcluster=_dot(values, sup.evalcluster(occ, socc, classes), ncls),
             matrices=_dot(values, _matcount(mats, occ, ncls, sup.size), ncls),
             clusterevaluator=float(tab(Z.occ_bits(occ))), sampler=float(MC.E()),
             brute=float(Z.MaskEval(terms)(Z.occ_bits(occ))))
    print('occupation', occ.tolist(), 'spectators', list(map(int, socc)))
    print('energies now     :', E)
    print('energies recorded:', rp.get('energies'))
    return 1 if len(set(E.values())) > 1 else 0
