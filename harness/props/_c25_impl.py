"""
C25 helpers: implementation adapters, the crystal zoo, the direct oracles on VectorStarSet output and the
INDEPENDENT assembly of the pair-state-space matrices that the expansion arrays are compared with.

Nothing here calls VectorStarSet's expansion routines except through the calculator object under test; the
"direct" side only reads `kinetic.states`, `kinetic.index`, the jump networks and the basis `vecpos/vecvec`.
Everything returns plain records (picklable) so that the property module can run crystals in worker processes.
"""
import math, copy
import numpy as np
import scipy.sparse as sp


# ---------------------------------------------------------------- zoo
def zoo():
    """name -> (crys, chem, cutoff).  The named crystals of harness/vacancy_common.py plus two-site diamond, B2,
    and cells whose point group has a bare two-fold axis (monoclinic 2/m, rhombohedral -3m, tetragonal 4/m-like)."""
    import vacancy_common as vc
    from onsager import crystal
    out = dict(vc.crystals())
    a = 1.0
    out['diamond'] = (crystal.Crystal(a * np.array([[0., .5, .5], [.5, 0., .5], [.5, .5, 0.]]),
                                      [np.zeros(3), np.array([.25, .25, .25])], chemistry=['A']), 0, 0.45 * a)
    out['b2'] = (crystal.Crystal(a * np.eye(3), [[np.zeros(3)], [np.array([.5, .5, .5])]], chemistry=['A', 'B']), 0, 1.01 * a)
    out['mono'] = (crystal.Crystal(np.array([[1., 0., .3], [0., .9, 0.], [0., 0., 1.2]]), [np.zeros(3)], chemistry=['A']),
                   0, 1.05)
    ca = math.cos(math.radians(50.))
    L = np.linalg.cholesky(np.array([[1, ca, ca], [ca, 1, ca], [ca, ca, 1.]])).T
    out['rhomb'] = (crystal.Crystal(L, [np.zeros(3)], chemistry=['A']), 0, 0.9)
    out['ortho'] = (crystal.Crystal(np.diag([1., 1.1, 1.25]), [np.zeros(3)], chemistry=['A']), 0, 1.15)
    # two-site orthorhombic cell, sites on a two-fold axis only (point group 2 at the sites -> 1-d vector basis)
    out['mono-2site'] = (crystal.Crystal(np.array([[1., 0., .2], [0., .95, 0.], [0., 0., 1.3]]),
                                         [np.zeros(3), np.array([.5, .37, .5])], chemistry=['A']), 0, 0.99)   # not 1.0 = |a1|: borderline cutoff
    return out


QUICK = ['fcc', 'bcc', 'hcp', 'sc', 'diamond', 'sq2d', 'tri2d', 'honey2d', 'rumpled', 'rect2d-2site', 'triclinic',
         'oblique2d', 'mono', 'rhomb', 'b2', 'ortho', 'mono-2site']


def random_crystal(rng):
    """A random member of a lattice family with random parameters (floats, not snapped) and 1-2 sites."""
    from onsager import crystal
    fam = rng.choice(['tetra', 'ortho', 'hex', 'mono', 'rhomb', 'tric', 'rect2d', 'obl2d', 'tetra2', 'hex2', 'ortho2'])
    u = lambda lo, hi: rng.uniform(lo, hi)
    if fam == 'tetra':
        c = crystal.Crystal(np.diag([1., 1., u(1.1, 1.6)]), [np.zeros(3)], chemistry=['A']); cut = 1.02
    elif fam == 'tetra2':
        c = crystal.Crystal(np.diag([1., 1., u(1.2, 1.5)]), [np.zeros(3), np.array([.5, .5, u(.3, .48)])], chemistry=['A']); cut = 1.02
    elif fam == 'ortho':
        c = crystal.Crystal(np.diag([1., u(1.05, 1.2), u(1.25, 1.4)]), [np.zeros(3)], chemistry=['A']); cut = 1.22
    elif fam == 'ortho2':
        c = crystal.Crystal(np.diag([1., u(1.05, 1.2), u(1.25, 1.4)]), [np.zeros(3), np.array([.5, .5, u(.3, .45)])], chemistry=['A']); cut = 1.05
    elif fam == 'hex':
        c = crystal.Crystal(np.array([[.5, .5, 0.], [-math.sqrt(.75), math.sqrt(.75), 0.], [0., 0., u(1.1, 1.7)]]),
                            [np.zeros(3)], chemistry=['A']); cut = 1.02
    elif fam == 'hex2':
        c = crystal.Crystal.HCP(1., u(1.5, 1.75), chemistry='A'); cut = 1.02
    elif fam == 'mono':
        c = crystal.Crystal(np.array([[1., 0., u(.15, .4)], [0., u(.85, .97), 0.], [0., 0., u(1.1, 1.3)]]), [np.zeros(3)],
                            chemistry=['A']); cut = 1.05
    elif fam == 'rhomb':
        ca = math.cos(math.radians(u(45., 58.) if rng.random() < .5 else u(62., 85.)))
        L = np.linalg.cholesky(np.array([[1, ca, ca], [ca, 1, ca], [ca, ca, 1.]])).T
        c = crystal.Crystal(L, [np.zeros(3)], chemistry=['A']); cut = 1.01
    elif fam == 'tric':
        c = crystal.Crystal(np.array([[1., u(.1, .3), u(.05, .2)], [0., u(1.05, 1.15), u(.1, .25)], [0., 0., u(1.15, 1.3)]]),
                            [np.zeros(3)], chemistry=['A']); cut = 1.2
    elif fam == 'rect2d':
        c = crystal.Crystal(np.array([[1., 0.], [0., u(1.15, 1.4)]]), [np.zeros(2), np.array([.5, u(.3, .45)])], chemistry=['A']); cut = 1.05
    else:
        c = crystal.Crystal(np.array([[1., u(.15, .4)], [0., u(1.05, 1.25)]]), [np.zeros(2)], chemistry=['A']); cut = 1.25
    return fam, c, 0, cut


def light_calculator(crys, chem, cutoff, nthermo):
    """A VacancyMediated object built by the real `generate` / `generatematrices`, skipping only the Green
    function calculator (never used for C25): the attributes are those of vacancy_common.calculator(name, nthermo)."""
    from onsager import OnsagerCalc, crystalStars as stars
    sl, jn = crys.sitelist(chem), crys.jumpnetwork(chem, cutoff)
    c = OnsagerCalc.VacancyMediated(None, None, None, None)
    c.crys, c.threshold, c.dim, c.chem = crys, crys.threshold, crys.dim, chem
    c.sitelist, c.jumpnetwork, c.om0_jn = copy.deepcopy(sl), copy.deepcopy(jn), copy.deepcopy(jn)
    c.N = sum(len(w) for w in sl)
    c.invmap = np.zeros(c.N, dtype=int)
    for ind, w in enumerate(sl):
        for i in w: c.invmap[i] = ind
    c.thermo = stars.StarSet(jn, crys, chem)
    c.kinetic = stars.StarSet(jn, crys, chem)
    c.NNstar = stars.StarSet(jn, crys, chem, 1)
    c.vkinetic = stars.VectorStarSet()
    c.generate(nthermo)
    c.generatematrices()
    return c


# ---------------------------------------------------------------- the basis as a matrix
def basis_array(vk, nstates, dim):
    """U[s, a, i]: component a of vector star i at state s (0 off its star).  Duplicated positions add up, so
    a malformed vecpos shows as a Gram defect."""
    U = np.zeros((nstates, dim, vk.Nvstars))
    for i, (pos, vec) in enumerate(zip(vk.vecpos, vk.vecvec)):
        for p, v in zip(pos, vec):
            U[p, :, i] += v
    return U


def state_action(ss, crys, chem):
    """perm[g][s] = index of g*state s (None when it leaves the set), for every op of crys.G in list order."""
    G = list(crys.G)
    perm = []
    for g in G:
        perm.append([ss.stateindex(PS.g(crys, chem, g)) for PS in ss.states])
    return G, perm


# ---------------------------------------------------------------- (3) direct oracles
def vector_star_oracles(ss, vk, tol=1e-8):
    """Direct statement of the first half of C25 on the implementation's output.  Returns a list of
    (sig, what, detail) records."""
    out = []
    crys, chem, dim = ss.crys, ss.chem, ss.crys.dim
    ns = ss.Nstates
    if len(vk.vecpos) != vk.Nvstars or len(vk.vecvec) != vk.Nvstars:
        out.append(('shape', 'Nvstars differs from len(vecpos)/len(vecvec)', {}))
        return out
    starof = {}
    for si, star in enumerate(ss.stars):
        starof[tuple(sorted(star))] = si
    # support of each vector star is exactly one star, each state once
    vs_star = []
    for i, (pos, vec) in enumerate(zip(vk.vecpos, vk.vecvec)):
        key = tuple(sorted(int(p) for p in pos))
        if key not in starof or len(set(key)) != len(pos) or len(vec) != len(pos):
            out.append(('support', 'vector star %d is not supported on exactly one star (each state once)' % i,
                        dict(vstar=i, positions=[int(p) for p in pos])))
            return out
        vs_star.append(starof[key])
    U = basis_array(vk, ns, dim)
    # orthonormality
    gram = np.einsum('sai,saj->ij', U, U)
    err = np.abs(gram - np.eye(vk.Nvstars))
    if err.size and err.max() > tol:
        i, j = np.unravel_index(np.argmax(err), err.shape)
        out.append(('orthonormal:' + ('norm' if i == j else 'overlap'),
                    'Gram[%d,%d] = %.12g (vector stars on star %d / %d)' % (i, j, gram[i, j], vs_star[i], vs_star[j]),
                    dict(i=int(i), j=int(j), gram=float(gram[i, j]),
                         vi=[list(map(float, v)) for v in vk.vecvec[i]], vj=[list(map(float, v)) for v in vk.vecvec[j]])))
    # equivariance under every op of crys.G
    G, perm = state_action(ss, crys, chem)
    nbad, first, worst = 0, None, 0.
    for gi, g in enumerate(G):
        p = perm[gi]
        if any(x is None for x in p):
            out.append(('states-not-closed', 'group op %d maps a state outside the star set' % gi, dict(op=gi)))
            return out
        R = g.cartrot
        # (R v)(g s) for all vector stars at once
        gU = np.einsum('ab,sbi->sai', R, U)
        dev = np.abs(U[p, :, :] - gU)
        if dev.max() > tol:
            s, a, i = np.unravel_index(np.argmax(dev), dev.shape)
            nbad += 1
            worst = max(worst, float(dev.max()))
            if first is None:
                first = dict(op=gi, rot=np.asarray(g.rot).tolist(), cartrot=R.tolist(), vstar=int(i), state=int(s),
                             state_str=str(ss.states[s]), image_state=int(p[s]),
                             v_at_state=U[s, :, i].tolist(), R_v=gU[s, :, i].tolist(), v_at_image=U[p[s], :, i].tolist())
    def stab_kind(s0):
        """'C2axis' when the stabiliser of state s0 is {E, proper two-fold rotation}, else 'stab<order>'"""
        H = [gi for gi in range(len(G)) if perm[gi][s0] == s0]
        if len(H) == 2 and dim == 3:
            g = [G[gi] for gi in H if not np.allclose(G[gi].cartrot, np.eye(dim))]
            if len(g) == 1 and np.linalg.det(g[0].cartrot) > 0: return 'C2axis'
        return 'stab%d' % len(H)
    if nbad:
        s0 = ss.states[vk.vecpos[first['vstar']][0]]
        kind = 'origin' if s0.iszero() else 'pair'
        first['max_error'] = worst
        out.append(('equivariance:%s:%s' % (kind, stab_kind(vk.vecpos[first['vstar']][0])),
                    'v(g.s) != R_g v(s) for %d of %d group ops, max error %.3g (first: op %d, vector star %d at state %s)'
                    % (nbad, len(G), worst, first['op'], first['vstar'], first['state_str']), first))
    # completeness: number of vector stars on a star = dim of the invariant space of the stabiliser (character average)
    for si, star in enumerate(ss.stars):
        s0 = star[0]
        H = [gi for gi in range(len(G)) if perm[gi][s0] == s0]
        char = sum(np.trace(G[gi].cartrot) for gi in H) / len(H)
        dimfix = int(round(char))
        # independent second computation: rank of the averaged rotation
        P = sum(G[gi].cartrot for gi in H) / len(H)
        rank = int(np.linalg.matrix_rank(P, tol=1e-8))
        cnt = sum(1 for x in vs_star if x == si)
        if abs(char - dimfix) > 1e-8 or rank != dimfix:
            out.append(('oracle-internal', 'character average %.6g / rank %d disagree' % (char, rank), {}))
        if cnt != dimfix:
            kind = 'origin' if ss.states[s0].iszero() else 'pair'
            out.append(('count:%s:%s:%s' % (kind, stab_kind(s0), 'extra' if cnt > dimfix else 'missing'),
                        'star %d (representative %s, stabiliser order %d) carries %d vector stars, invariant space has dimension %d'
                        % (si, str(ss.states[s0]), len(H), cnt, dimfix),
                        dict(star=si, representative=str(ss.states[s0]), stabiliser_order=len(H),
                             stabiliser_rots=[np.asarray(G[gi].rot).tolist() for gi in H], count=cnt, dimension=dimfix)))
    # outer
    outer_direct = np.einsum('sai,sbj->abij', U, U)
    if not hasattr(vk, 'outer') or np.shape(vk.outer) != outer_direct.shape:
        out.append(('outer:shape', 'outer has the wrong shape', {}))
    else:
        dev = np.abs(vk.outer - outer_direct)
        if dev.size and dev.max() > tol:
            a, b, i, j = np.unravel_index(np.argmax(dev), dev.shape)
            out.append(('outer', 'outer[%d,%d,%d,%d] = %.12g, sum over states of v_i x v_j = %.12g'
                        % (a, b, i, j, vk.outer[a, b, i, j], outer_direct[a, b, i, j]),
                        dict(index=[int(a), int(b), int(i), int(j)], code=float(vk.outer[a, b, i, j]),
                             direct=float(outer_direct[a, b, i, j]))))
    return out


# ---------------------------------------------------------------- rigidly rotated copies
def rotation(dim, axis, deg):
    t = np.deg2rad(deg)
    if dim == 2:
        return np.array([[np.cos(t), -np.sin(t)], [np.sin(t), np.cos(t)]])
    a = np.array(axis, dtype=float); a /= np.linalg.norm(a)
    K = np.array([[0, -a[2], a[1]], [a[2], 0, -a[0]], [-a[1], a[0], 0]])
    return np.eye(3) + np.sin(t) * K + (1 - np.cos(t)) * np.dot(K, K)


def rotated_crystal(crys, Q):
    from onsager import crystal
    return crystal.Crystal(np.dot(Q, crys.lattice), crys.basis, chemistry=crys.chemistry)


def state_projectors(ss, vk):
    """[(i, j, dx, P)] with P = sum over the vector stars of v(s) x v(s): the projector onto the space spanned by the
    vector stars at state s - independent of the choice of basis inside an invariant space, rotation covariant."""
    dim = ss.crys.dim
    U = basis_array(vk, ss.Nstates, dim)
    return [(PS.i, PS.j, np.array(PS.dx), np.einsum('ai,bi->ab', U[s], U[s])) for s, PS in enumerate(ss.states)]


def covariance_oracle(base, rot, Q, tol=1e-8):
    """The vector stars of the rotated crystal must be the rotated images of those of the unrotated one:
    same number, and per state P_rot(Q dx) = Q P(dx) Q^T."""
    out = []
    (ss0, vk0), (ss1, vk1) = base, rot
    if vk0.Nvstars != vk1.Nvstars or ss0.Nstates != ss1.Nstates:
        out.append(('rotation:count', 'rotated crystal: %d states / %d vector stars, unrotated: %d / %d'
                    % (ss1.Nstates, vk1.Nvstars, ss0.Nstates, vk0.Nvstars), {}))
        return out
    P0, P1 = state_projectors(ss0, vk0), state_projectors(ss1, vk1)
    worst, where, unmatched = 0., None, 0
    for (i, j, dx, P) in P0:
        qdx = np.dot(Q, dx)
        m = [P_ for (i_, j_, dx_, P_) in P1 if i_ == i and j_ == j and np.abs(dx_ - qdx).max() < 1e-6]
        if len(m) != 1:
            unmatched += 1; continue
        dev = np.abs(m[0] - np.dot(Q, np.dot(P, Q.T))).max()
        if dev > worst: worst, where = dev, (i, j, dx.tolist())
    if unmatched:      # the reduced cells differ (site numbering): nothing to compare, not a failure of the property
        return out
    if worst > tol:
        out.append(('rotation:projector',
                    'span of the vector stars at state (%d,%d,dx=%s) is not the rotated image of the unrotated one: deviation %.3g'
                    % (where[0], where[1], where[2], worst), dict(state=list(where), deviation=worst)))
    return out


# ---------------------------------------------------------------- object-reuse histories
def expansion_bundle(vs, ss):
    """Everything a VectorStarSet computes for the star set `ss`, as a dict of arrays (networks taken from `ss`)."""
    d = {}
    d['Nvstars'] = np.array([vs.Nvstars])
    d['vecpos'] = np.array([x for p in vs.vecpos for x in p] + [-1] + [len(p) for p in vs.vecpos], dtype=float)
    d['vecvec'] = np.array([list(v) for vv in vs.vecvec for v in vv], dtype=float).reshape(-1, ss.crys.dim)
    d['outer'] = np.asarray(vs.outer)
    gf = vs.GFexpansion()
    if gf is not None:
        d['GFexpansion'] = np.asarray(gf[0])
        gss = gf[1]
        d['GFstarset'] = np.array([[PS.i, PS.j] + list(PS.R) + [gss.index[n]] for n, PS in enumerate(gss.states)], dtype=float)
    for label, (jn, jt, sp_), om2 in (('om1', ss.jumpnetwork_omega1(), False), ('om2', ss.jumpnetwork_omega2(), True)):
        if len(jn) == 0: continue      # (zeroclean cannot iterate zero-sized arrays; one-shell star sets only)
        r = vs.rateexpansions(jn, jt, omega2=om2)
        for k, a in zip(('rate0expansion', 'rate0escape', 'rate1expansion', 'rate1escape'), r): d[label + ':' + k] = np.asarray(a)
        b = vs.biasexpansions(jn, jt, omega2=om2)
        d[label + ':bias0expansion'], d[label + ':bias1expansion'] = np.asarray(b[0]), np.asarray(b[1])
        D = vs.bareexpansions(jn, jt)
        d[label + ':D0expansion'], d[label + ':D1expansion'] = np.asarray(D[0]), np.asarray(D[1])
    for et in ('solute', 'vacancy'):
        osi, fold, vb = vs.originstateVectorBasisfolddown(et)
        d['fold:%s:OSindices' % et] = np.array(list(osi), dtype=float)
        d['fold:%s:folddown' % et], d['fold:%s:OS_VB' % et] = np.asarray(fold), np.asarray(vb)
    return d


def compare_bundles(out, prefix, reused, fresh, context):
    """A reused object must give exactly what a freshly constructed one gives: same shapes, same values."""
    for k in sorted(set(reused) | set(fresh)):
        if k not in reused or k not in fresh:
            out.append(('%s:%s:missing' % (prefix, k), '%s: %s present only in the %s object' % (context, k, 'fresh' if k in fresh else 'reused'), {}))
            continue
        a, b = reused[k], fresh[k]
        if a.shape != b.shape:
            out.append(('%s:%s:shape' % (prefix, k), '%s: %s has shape %s on the reused object, %s on a fresh one' % (context, k, a.shape, b.shape),
                        dict(reused_shape=list(a.shape), fresh_shape=list(b.shape))))
        elif a.size and not np.allclose(a, b, rtol=0., atol=1e-12):
            dev = np.abs(a - b); idx = np.unravel_index(np.argmax(dev), dev.shape)
            out.append(('%s:%s:value' % (prefix, k), '%s: %s[%s] = %.12g on the reused object, %.12g on a fresh one (%d entries differ)'
                        % (context, k, list(map(int, idx)), a[idx], b[idx], int((dev > 1e-12).sum())),
                        dict(index=list(map(int, idx)), reused=float(a[idx]), fresh=float(b[idx]))))


def parameter_variant(crys, chem, eps):
    """The same structure with one crystal parameter changed by eps: an internal coordinate when the tracked species has
    several sites (topology unchanged), otherwise the length of the last lattice vector."""
    from onsager import crystal
    basis = [[np.array(u, dtype=float) for u in atoms] for atoms in crys.basis]
    latt = np.array(crys.lattice, dtype=float)
    if len(basis[chem]) > 1:
        basis[chem][-1][-1] += eps
    else:
        latt[:, -1] *= (1. + eps)
    return crystal.Crystal(latt, basis, chemistry=crys.chemistry)


def starset(crys, chem, cutoff, nshells):
    from onsager import crystalStars as stars
    return stars.StarSet(crys.jumpnetwork(chem, cutoff), crys, chem, nshells, originstates=True)


def reuse_oracles(crysA, crysB, chem, cutoff, nA, nB):
    """One VectorStarSet object used for star set A (all expansions computed), then for star set B: the results for B
    must equal those of a freshly constructed object.  A and B differ in the number of shells and/or in a crystal
    parameter.  Also the same history with ONE StarSet object regenerated in place (what VacancyMediated.generate does)."""
    from onsager import crystalStars as stars
    out = []
    ssA, ssB = starset(crysA, chem, cutoff, nA), starset(crysB, chem, cutoff, nB)
    fresh = expansion_bundle(stars.VectorStarSet(ssB), ssB)
    ctxt = 'generate(A: %d shells); expansions; generate(B: %d shells%s); expansions' % (nA, nB, '' if crysA is crysB else ', other crystal parameter')
    vs = stars.VectorStarSet()
    vs.generate(ssA)
    bA = expansion_bundle(vs, ssA)
    compare_bundles(out, 'reuse:first-use', bA, expansion_bundle(stars.VectorStarSet(ssA), ssA), 'empty object, generate(A)')
    vs.generate(ssB)
    compare_bundles(out, 'reuse:vectorstarset', expansion_bundle(vs, ssB), fresh, ctxt)
    # calling the expansions twice on the same object must not change them either
    compare_bundles(out, 'reuse:second-call', expansion_bundle(vs, ssB), fresh, ctxt + '; expansions again')
    if crysA is crysB and nA != nB:
        ss = starset(crysA, chem, cutoff, nA)
        vs2 = stars.VectorStarSet(ss)
        expansion_bundle(vs2, ss)
        ss.generate(nB, originstates=True)          # the same StarSet object, regenerated in place
        vs2.generate(ss)
        if vs2.Nvstars != int(fresh['Nvstars'][0]) or [list(p) for p in vs2.vecpos] != [list(p) for p in stars.VectorStarSet(ssB).vecpos]:
            out.append(('reuse:inplace-starset:stale-vectorstars',
                        'StarSet regenerated in place from %d to %d shells, then VectorStarSet.generate(same object): %d vector stars kept, a fresh object has %d'
                        % (nA, nB, vs2.Nvstars, int(fresh['Nvstars'][0])), dict(nA=nA, nB=nB, reused=vs2.Nvstars, fresh=int(fresh['Nvstars'][0]))))
        else:
            compare_bundles(out, 'reuse:inplace-starset', expansion_bundle(vs2, ss), fresh, 'StarSet regenerated in place, ' + ctxt)
    return out


CALC_ARRAYS = ('GFexpansion', 'om1expansion', 'om1escape', 'om1_om0', 'om1_om0escape', 'om1bias', 'om1_b0', 'Dom1', 'Dom1_om0',
               'om2expansion', 'om2escape', 'om2_om0', 'om2_om0escape', 'om2bias', 'om2_b0', 'Dom2', 'Dom2_om0',
               'OSfolddown', 'OSVfolddown', 'OS_VB')


def calculator_reuse_oracles(crys, chem, cutoff, nA, nB, nrng):
    """VacancyMediated.generate(nB); generatematrices() on a calculator built for nA, against a fresh calculator for nB,
    and the direct oracles on the reused calculator."""
    out = []
    c = light_calculator(crys, chem, cutoff, nA)
    raised = None
    try:
        c.generate(nB); c.generatematrices()
    except Exception as e:
        raised = repr(e)[:200]
    f = light_calculator(crys, chem, cutoff, nB)
    ctxt = 'calculator for Nthermo=%d, then generate(%d); generatematrices()' % (nA, nB) + (' [raised %s]' % raised if raised else '')
    if c.vkinetic.Nvstars != f.vkinetic.Nvstars or [list(p) for p in c.vkinetic.vecpos] != [list(p) for p in f.vkinetic.vecpos]:
        out.append(('reuse:calculator:stale-vectorstars',
                    '%s: vkinetic keeps %d vector stars (kinetic has %d states), a fresh calculator has %d'
                    % (ctxt, c.vkinetic.Nvstars, c.kinetic.Nstates, f.vkinetic.Nvstars),
                    dict(nA=nA, nB=nB, reused=c.vkinetic.Nvstars, fresh=f.vkinetic.Nvstars, states=c.kinetic.Nstates)))
        return out
    if raised:
        out.append(('reuse:calculator:raises', ctxt, dict(nA=nA, nB=nB, error=raised)))
        return out
    compare_bundles(out, 'reuse:calculator', {k: np.asarray(getattr(c, k)) for k in CALC_ARRAYS},
                    {k: np.asarray(getattr(f, k)) for k in CALC_ARRAYS}, ctxt)
    # defects of the vector stars / expansions themselves keep the signature of the main stream (the reuse signatures are
    # reserved for reused-vs-fresh differences); a signature that the fresh calculator does not show is a reuse failure
    fresh_sigs = {r[0] for r in vector_star_oracles(f.kinetic, f.vkinetic) + projection_oracles(f, nrng)}
    for sig, what, d in vector_star_oracles(c.kinetic, c.vkinetic) + projection_oracles(c, nrng):
        out.append((sig if sig in fresh_sigs else 'reuse:calculator:' + sig, ctxt + ': ' + what, d))
    return out


# ---------------------------------------------------------------- (2) direct assembly + projection
def _cmp(out, sig, what, code, direct, tol, extra=None, osrows=None, nterms=1, overcount=None):
    """osrows: indices of origin-state vector stars; when every differing entry lies on such a row (diagonal entry
    for a matrix) the signature gets the suffix ':OSvstar'.  overcount: the value the known overcount of the
    origin-state escape (once per vector star carried by the star of the initial state) predicts; the suffix is then
    ':OSvstar:overcount' when the code equals that prediction and ':OSvstar:mismatch' for anything else."""
    code, direct = np.asarray(code, dtype=float), np.asarray(direct, dtype=float)
    if code.shape != direct.shape:
        out.append((sig + ':shape', '%s: shapes %s vs %s' % (what, code.shape, direct.shape), {}))
        return
    if code.size == 0: return
    scale = max(1.0, np.abs(direct).max())
    dev = np.abs(code - direct)
    # every expansion array goes through zeroclean(threshold=1e-8): entries below 1e-8 are replaced by 0, so an entry may
    # be off by 1e-8 absolutely (seen on crystals tilted by ~1e-3 deg); a contraction with `nterms` rates <= 2 by nterms*2e-8
    tol = max(tol, 1.01e-8 * nterms * (2. if nterms > 1 else 1.) / scale)
    if dev.max() > tol * scale:
        idx = np.unravel_index(np.argmax(dev), dev.shape)
        d = dict(index=[int(x) for x in idx], code=float(code[idx]), direct=float(direct[idx]), maxdev=float(dev.max()),
                 nbad=int((dev > tol * scale).sum()))
        if extra: d.update(extra)
        if osrows is not None:
            bad = np.argwhere(dev > tol * scale)
            if len(bad) and all(int(b[0]) in osrows and (code.ndim < 2 or code.shape[0] != code.shape[1] or b[0] == b[1])
                                for b in bad):
                sig = sig + ':OSvstar'
                if overcount is not None:
                    pdev = np.abs(code - np.asarray(overcount, dtype=float)).max()
                    sig += ':overcount' if pdev <= tol * scale else ':mismatch'
                    d['overcount_prediction'] = float(np.asarray(overcount, dtype=float)[idx])
        out.append((sig, '%s: code %.12g vs directly assembled %.12g at %s (%d entries differ)'
                    % (what, code[idx], direct[idx], list(map(int, idx)), d['nbad']), d))


def projection_oracles(c, nrng, tol=1e-10):
    """Second half of C25: every expansion array of the calculator `c` against the projection, with the code's own
    basis, of the directly assembled state-space quantity.  `nrng` is a numpy Generator (class rates)."""
    from onsager.crystalStars import PairState
    out = []
    ss, vk, dim = c.kinetic, c.vkinetic, c.crys.dim
    ns, nv = ss.Nstates, vk.Nvstars
    states = ss.states
    U = basis_array(vk, ns, dim)
    Ua = [np.ascontiguousarray(U[:, a, :]) for a in range(dim)]

    def proj(W):
        """U^T (W x 1_dim) U for a dense or scipy-sparse state-space matrix W"""
        return sum(np.asarray(Ua[a].T @ (W @ Ua[a])) for a in range(dim))

    projv = lambda b: np.einsum('sai,sa->i', U, b)                 # U^T b
    vstar2kin = [int(ss.index[p[0]]) for p in vk.vecpos]
    wyck_vac = [int(c.invmap[states[s].j]) for s in range(ns)]      # Wyckoff class of the vacancy site of each state
    n0, nw = len(c.om0_jn), len(c.sitelist)
    originstate = {}
    for s, PS in enumerate(states):
        if PS.iszero(): originstate[PS.i] = s
    tag = 'originstates' if len(c.OSindices) > 0 else 'plain'
    osrows = {n for n in range(nv) if states[vk.vecpos[n][0]].iszero()}
    nvs_of_star = {}
    for p in vk.vecpos: nvs_of_star[int(ss.index[p[0]])] = nvs_of_star.get(int(ss.index[p[0]]), 0) + 1

    # ---- Green function: class values symmetric under exchange of the end points
    gss = c.GFstarset
    val = nrng.uniform(-1., 1., gss.Nstars)
    for k, star in enumerate(gss.stars):
        kr = gss.starindex(-gss.states[star[0]])
        if kr is None:
            out.append(('GF:starset-not-reversal-closed', 'GFstarset misses the reverse of star %d' % k, {}))
        elif kr > k:
            val[kr] = val[k]
    Gm = np.zeros((ns, ns))
    missing = 0
    for s in range(ns):
        for t in range(ns):
            if states[s].i != states[t].i: continue
            k = gss.starindex(states[t] ^ states[s])
            if k is None: missing += 1
            else: Gm[s, t] = val[k]
    if missing:
        out.append(('GF:starset-incomplete', '%d state pairs have no Green-function star' % missing, {}))
    _cmp(out, 'GF:' + tag, 'GFexpansion . GF', np.dot(c.GFexpansion, val), proj(Gm), tol, nterms=gss.Nstars)

    # ---- omega1 and omega2 networks
    om0 = nrng.uniform(.5, 2., n0)
    esc0 = nrng.uniform(.5, 2., (n0, nw))
    for label, jn, jt, SP, exp1, esc1, exp0, esc0arr, b1arr, b0arr, D1arr, D0arr, is2 in (
            ('om1', c.om1_jn, c.om1_jt, c.om1_SP, c.om1expansion, c.om1escape, c.om1_om0, c.om1_om0escape,
             c.om1bias, c.om1_b0, c.Dom1, c.Dom1_om0, False),
            ('om2', c.om2_jn, c.om2_jt, c.om2_SP, c.om2expansion, c.om2escape, c.om2_om0, c.om2_om0escape,
             c.om2bias, c.om2_b0, c.Dom2, c.Dom2_om0, True)):
        nk = len(jn)
        om = nrng.uniform(.5, 2., nk)
        escF, escB = nrng.uniform(.5, 2., nk), nrng.uniform(.5, 2., nk)
        esc = []            # esc[k][star] : escape rate of class k out of a state of that star
        for k, (st1, st2) in enumerate(SP):
            if st1 == st2: escB[k] = escF[k]
            esc.append({int(st1): escF[k], int(st2): escB[k]})
        # ---------- per class, geometric (rate free)
        A = [sp.lil_matrix((ns, ns)) for _ in range(nk)]; deg = np.zeros((nk, ns)); gb = np.zeros((nk, ns, dim)); dd = np.zeros((nk, dim, dim))
        A0 = [sp.lil_matrix((ns, ns)) for _ in range(n0)]; deg0 = np.zeros((n0, ns)); gb0 = np.zeros((n0, ns, dim)); dd0 = np.zeros((n0, dim, dim))
        badstar = 0
        over0 = np.zeros((n0, ns))    # known overcount: extra origin-state escapes, (vector stars on the star of IS) - 1 per jump
        for k, (jl, t) in enumerate(zip(jn, jt)):
            for (IS, FS), dx in jl:
                A[k][IS, FS] += 1.; deg[k, IS] += 1.; gb[k, IS] += dx; dd[k] += .5 * np.outer(dx, dx)
                deg0[t, IS] += 1.; gb0[t, IS] += dx; dd0[t] += .5 * np.outer(dx, dx)
                if int(ss.index[IS]) not in esc[k]: badstar += 1
                if not is2:
                    A0[t][IS, FS] += 1.
                else:
                    OS = originstate.get(states[IS].i)
                    if OS is not None:
                        over0[t, OS] += nvs_of_star[int(ss.index[IS])] - 1
                        # the omega0 jump of the vacancy onto the solute site lands on the origin state; its reverse
                        # leaves the origin state with the opposite displacement
                        A0[t][IS, OS] += 1.; A0[t][OS, IS] += 1.; deg0[t, OS] += 1.; gb0[t, OS] -= dx
                        gb[k, OS] -= dx        # docstring: origin states get the negative summed bias of the others
        if badstar:
            out.append((label + ':starpair', '%d jumps start in a star that is not in the class star pair' % badstar, {}))
        A = [m.tocsr() for m in A]; A0 = [m.tocsr() for m in A0]
        U2 = np.einsum('sai,sai->si', U, U)    # |v_i(s)|^2
        _cmp(out, '%s:rate1expansion:%s' % (label, tag), label + ' rate expansion per class',
             exp1, np.stack([proj(A[k]) for k in range(nk)], axis=2) if nk else np.zeros((nv, nv, 0)), tol)
        _cmp(out, '%s:rate1escape:%s' % (label, tag), label + ' escape expansion per class',
             esc1, -np.einsum('si,ks->ik', U2, deg), tol)
        _cmp(out, '%s:rate0expansion:%s' % (label, tag), label + ' omega0 reference rate expansion per jump type',
             exp0, np.stack([proj(A0[t]) for t in range(n0)], axis=2), tol)
        _cmp(out, '%s:rate0escape:%s' % (label, tag), label + ' omega0 reference escape expansion per jump type',
             esc0arr, -np.einsum('si,ks->ik', U2, deg0), tol, osrows=osrows,
             overcount=(-np.einsum('si,ks->ik', U2, deg0 + over0) if is2 else None))
        _cmp(out, '%s:bias1expansion:%s' % (label, tag), label + ' bias expansion per class',
             b1arr, np.stack([projv(gb[k]) for k in range(nk)], axis=1) if nk else np.zeros((nv, 0)), tol)
        _cmp(out, '%s:bias0expansion:%s' % (label, tag), label + ' omega0 reference bias expansion per jump type',
             b0arr, np.stack([projv(gb0[t]) for t in range(n0)], axis=1), tol)
        _cmp(out, '%s:D1expansion' % label, label + ' bare diffusivity expansion per class', D1arr, np.moveaxis(dd, 0, 2), tol)
        _cmp(out, '%s:D0expansion' % label, label + ' omega0 reference bare diffusivity expansion', D0arr, np.moveaxis(dd0, 0, 2), tol)
        # ---------- random class rates: full matrices (symmetric rate + star dependent escape on the diagonal)
        W = sum((om[k] * A[k] for k in range(nk)), sp.csr_matrix((ns, ns)))
        D = np.zeros(ns); b = np.zeros((ns, dim))
        for k, jl in enumerate(jn):
            for (IS, FS), dx in jl:
                e = esc[k].get(int(ss.index[IS]), 0.)
                D[IS] -= e; b[IS] += e * dx
        code = np.dot(exp1, om) + np.diag([sum(esc1[i, k] * esc[k].get(vstar2kin[i], 0.) for k in range(nk)) for i in range(nv)])
        _cmp(out, '%s:ratematrix:%s' % (label, tag), label + ' rate matrix for random class rates (off-diagonal + escape)',
             code, proj(W + sp.diags(D)), tol, nterms=2 * nk + 1)
        W0 = sum((om0[t] * A0[t] for t in range(n0)), sp.csr_matrix((ns, ns)))
        D0 = -np.einsum('ks,ks->s', deg0, esc0[:, wyck_vac])
        code = np.dot(exp0, om0) + np.diag([np.dot(esc0arr[i, :], esc0[:, c.kin2vacancy[vstar2kin[i]]]) for i in range(nv)])
        _cmp(out, '%s:rate0matrix:%s' % (label, tag), label + ' omega0 reference rate matrix for random rates',
             code, proj(W0 + sp.diags(D0)), tol, osrows=osrows, nterms=2 * n0 + 1,
             overcount=(proj(W0 + sp.diags(D0 - np.einsum('ks,ks->s', over0, esc0[:, wyck_vac]))) if is2 else None))
        bcode = np.array([sum(b1arr[i, k] * esc[k].get(vstar2kin[i], 0.) for k in range(nk)) for i in range(nv)])
        bdir = b.copy()
        _cmp(out, '%s:biasvector:%s' % (label, tag), label + ' bias vector for random escape rates', bcode, projv(bdir), tol, nterms=nk + 1)
        b0dir = np.einsum('ksa,ks->sa', gb0, esc0[:, wyck_vac])
        b0code = np.array([np.dot(b0arr[i, :], esc0[:, c.kin2vacancy[vstar2kin[i]]]) for i in range(nv)])
        _cmp(out, '%s:bias0vector:%s' % (label, tag), label + ' omega0 reference bias vector for random escape rates',
             b0code, projv(b0dir), tol, nterms=n0 + 1)
        _cmp(out, '%s:bare' % label, label + ' bare diffusivity for random rates', np.dot(D1arr, om), np.einsum('k,kab->ab', om, dd), tol, nterms=nk + 1)

    # ---- origin-state bookkeeping
    OSidx = [n for n in range(nv) if states[vk.vecpos[n][0]].iszero()]
    if list(map(int, c.OSindices)) != OSidx:
        out.append(('OSindices', 'OSindices %s, origin-state vector stars are %s' % (list(c.OSindices), OSidx), {}))
    else:
        nsites = len(c.crys.basis[c.chem])
        for attr, fold in (('i', c.OSfolddown), ('j', c.OSVfolddown)):
            Phi = np.zeros((nsites, ns))
            for s, PS in enumerate(states): Phi[getattr(PS, attr), s] = 1.
            # vector basis of origin vector star n at site index = its vector at the origin state of that site
            VB = np.zeros((len(OSidx), nsites, dim))
            for r, n in enumerate(OSidx):
                for p, v in zip(vk.vecpos[n], vk.vecvec[n]):
                    VB[r, getattr(states[p], attr), :] = v
            direct = np.einsum('rna,ns,saj->rj', VB, Phi, U)
            _cmp(out, 'folddown:%s' % ('solute' if attr == 'i' else 'vacancy'), 'origin-state fold-down (%s)' % attr, fold, direct, tol)
            if attr == 'i':
                _cmp(out, 'OS_VB', 'origin-state vector basis', c.OS_VB, VB, tol)
    return out


def om2_escape_overcount_prediction(c):
    """om2_om0escape as the known overcount predicts it: projection of the directly assembled escapes, the origin-state
    escape of every exchange jump counted once per vector star carried by the star of its initial state."""
    ss, vk, dim = c.kinetic, c.vkinetic, c.crys.dim
    states, ns, n0 = ss.states, ss.Nstates, len(c.om0_jn)
    U = basis_array(vk, ns, dim)
    U2 = np.einsum('sai,sai->si', U, U)
    origin = {PS.i: s for s, PS in enumerate(states) if PS.iszero()}
    nvs = {}
    for p in vk.vecpos: nvs[int(ss.index[p[0]])] = nvs.get(int(ss.index[p[0]]), 0) + 1
    deg = np.zeros((n0, ns))
    for jl, t in zip(c.om2_jn, c.om2_jt):
        for (IS, FS), dx in jl:
            deg[t, IS] += 1.
            OS = origin.get(states[IS].i)
            if OS is not None: deg[t, OS] += nvs[int(ss.index[IS])]
    return -np.einsum('si,ks->ik', U2, deg)
