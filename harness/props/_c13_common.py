"""
Shared helpers for C13 / C14 / C15 (not a property module): crystal zoo, small vacancy-mediated and
interstitial calculators, in-memory HDF5 save/reload, random thermodynamic inputs, bit-exact comparison.
Everything imports `onsager` through sys.path as set up by vcheck (honours ONSAGER_REPO).
"""
import os
for _v in ('OPENBLAS_NUM_THREADS', 'OMP_NUM_THREADS', 'MKL_NUM_THREADS'):
    os.environ.setdefault(_v, '1')      # bit-exact comparisons: no thread-scheduling effects in BLAS/LAPACK reductions
import numpy as np

_S3 = np.sqrt(3.0)


def zoo():
    """name -> (crystal, chem, cutoff).  3-D Bravais and multi-site, 2-D, low symmetry."""
    from onsager import crystal
    Z = {}
    Z['sc'] = (crystal.Crystal(np.eye(3), [np.zeros(3)]), 0, 1.01)
    Z['fcc'] = (crystal.Crystal.FCC(1.0), 0, 0.75)
    Z['bcc'] = (crystal.Crystal.BCC(1.0), 0, 0.9)
    Z['hcp'] = (crystal.Crystal.HCP(1.0), 0, 1.01)
    Z['b2'] = (crystal.Crystal(np.eye(3), [[np.zeros(3)], [np.array([.5, .5, .5])]]), 0, 1.01)
    Z['b2B'] = (crystal.Crystal(np.eye(3), [[np.zeros(3)], [np.array([.5, .5, .5])]]), 1, 1.01)
    Z['dia'] = (crystal.Crystal(np.array([[0, .5, .5], [.5, 0, .5], [.5, .5, 0]]),
                                [np.zeros(3), np.array([.25, .25, .25])]), 0, 0.45)
    Z['sq'] = (crystal.Crystal(np.eye(2), [np.zeros(2)]), 0, 1.01)
    Z['tri'] = (crystal.Crystal(np.array([[1, .5], [0, _S3 / 2]]), [np.zeros(2)]), 0, 1.01)
    Z['hon'] = (crystal.Crystal(np.array([[1, .5], [0, _S3 / 2]]),
                                [np.array([1 / 3, 1 / 3]), np.array([2 / 3, 2 / 3])]), 0, 0.6)
    Z['rect2'] = (crystal.Crystal(np.diag([1.0, 1.2]), [np.zeros(2), np.array([.5, .3])]), 0, 1.25)
    # two Wyckoff sets of the same chemistry (body-centred tetragonal + an off-centre site)
    Z['tet3'] = (crystal.Crystal(np.diag([1, 1, 1.3]),
                                 [np.zeros(3), np.array([.5, .5, .5]), np.array([.5, .5, .1])]), 0, 1.01)
    # low symmetry: triclinic one-site and monoclinic two-site
    Z['tric'] = (crystal.Crystal(np.array([[1, .1, .2], [0, 1.1, .15], [0, 0, .9]]), [np.zeros(3)]), 0, 1.15)
    Z['mono2'] = (crystal.Crystal(np.array([[1, 0, .2], [0, 1.1, 0], [0, 0, .9]]),
                                  [np.zeros(3), np.array([.5, .5, .5])]), 0, 0.95)
    Z['tet1'] = (crystal.Crystal(np.diag([1., 1., 1.2]), [np.zeros(3)]), 0, 1.25)       # simple tetragonal, 2 jump classes
    # polar site symmetry (non-empty vector basis => origin states, non-zero bare-vacancy bias correction)
    Z['pol3'] = (crystal.Crystal(np.eye(3), [np.zeros(3), np.array([.45, .45, .45])]), 0, 0.96)
    Z['pol2'] = (crystal.Crystal(np.array([[1, .5], [0, _S3 / 2]]), [np.zeros(2), np.array([.3, .3])]), 0, 1.01)
    return Z


QUICK_NAMES = ['sq', 'tri', 'hon', 'sc', 'fcc', 'bcc', 'hcp', 'b2', 'dia', 'rect2', 'tric']
ALL_NAMES = QUICK_NAMES + ['b2B', 'mono2', 'tet3', 'pol3', 'pol2']
ALL_NAMES = ALL_NAMES + ['tet1']
ANISOTROPIC_NAMES = ['hcp', 'rect2', 'tet1', 'pol2', 'tric']     # non-cubic with several omega0 classes
ORIGIN_STATE_NAMES = ['rect2', 'pol2', 'pol3']     # len(OSindices) > 0

_Z = None
_VM = {}


def get(name):
    global _Z
    if _Z is None: _Z = zoo()
    return _Z[name]


def make_vm(name, Nthermo=1, NGFmax=2, fresh=False):
    """A VacancyMediated calculator on zoo crystal `name` (cached unless fresh=True)."""
    from onsager import OnsagerCalc
    key = (name, Nthermo, NGFmax)
    if not fresh and key in _VM: return _VM[key]
    crys, chem, cut = get(name)
    sl, jn = crys.sitelist(chem), crys.jumpnetwork(chem, cut)
    d = OnsagerCalc.VacancyMediated(crys, chem, sl, jn, Nthermo, NGFmax=NGFmax)
    if not fresh: _VM[key] = d
    return d


def make_interstitial(name, fresh=False):
    from onsager import OnsagerCalc
    crys, chem, cut = get(name)
    sl, jn = crys.sitelist(chem), crys.jumpnetwork(chem, cut)
    return OnsagerCalc.Interstitial(crys, chem, sl, jn)


def memfile():
    import h5py
    memfile.n = getattr(memfile, 'n', 0) + 1
    return h5py.File('verif-mem-%d.h5' % memfile.n, mode='w', driver='core', backing_store=False)


def reload_vm(d):
    """save -> load through an in-memory HDF5 file; returns the new object."""
    from onsager import OnsagerCalc
    f = memfile()
    try:
        d.addhdf5(f.create_group('D'))
        return OnsagerCalc.VacancyMediated.loadhdf5(f['D'])
    finally:
        f.close()


def rand_thermo(d, nrng, kT=None, spread=1.0):
    """Random thermodynamic input for calculator d -> the 6 Lij arguments (fresh arrays)."""
    from onsager import OnsagerCalc
    N, Nst, Nom0 = len(d.sitelist), d.thermo.Nstars, len(d.om0_jn)
    td = {'preV': np.exp(0.3 * nrng.standard_normal(N)), 'eneV': spread * 0.2 * nrng.standard_normal(N),
          'preS': np.exp(0.3 * nrng.standard_normal(N)), 'eneS': spread * 0.2 * nrng.standard_normal(N),
          'preSV': np.exp(0.3 * nrng.standard_normal(Nst)), 'eneSV': spread * 0.3 * nrng.standard_normal(Nst),
          'preT0': np.exp(0.3 * nrng.standard_normal(Nom0)), 'eneT0': 1.0 + spread * 0.2 * nrng.random(Nom0)}
    td.update(d.makeLIMBpreene(**td))
    for k in ('eneT1', 'eneT2'):
        td[k] = td[k] + spread * 0.1 * nrng.standard_normal(len(td[k]))
    if kT is None: kT = 0.3 + nrng.random()
    return tuple(OnsagerCalc.VacancyMediated.preene2betafree(kT, **td))


def thermo_family(d, nrng, ndesignated=2, nvariants=3, kT=0.5):
    """Structured vacancy parts for calculator d: for each of up to `ndesignated` omega0 classes c, `nvariants` inputs in
    which class c is the fastest jump with the SAME rate and the other classes are slower by different factors
    (same largest rate, different omega0 ratios).  Site data, solute data and the omega1/omega2 noise are shared by the
    whole family, so members differ in the vacancy part (bFT0) only.  Returns a list of Lij argument tuples."""
    from onsager import OnsagerCalc
    N, Nst, Nom0 = len(d.sitelist), d.thermo.Nstars, len(d.om0_jn)
    if Nom0 < 2: return []
    base = {'preV': np.exp(0.2 * nrng.standard_normal(N)), 'eneV': 0.1 * nrng.standard_normal(N),
            'preS': np.exp(0.2 * nrng.standard_normal(N)), 'eneS': 0.1 * nrng.standard_normal(N),
            'preSV': np.exp(0.2 * nrng.standard_normal(Nst)), 'eneSV': 0.2 * nrng.standard_normal(Nst),
            'preT0': np.ones(Nom0)}
    noise = None
    fam = []
    for c in range(min(ndesignated, Nom0)):
        gap = 0.05 + 0.25 * nrng.random(Nom0)
        for v in range(nvariants):
            eneT0 = 1.0 + gap + v * (0.3 + 0.4 * nrng.random(Nom0))
            eneT0[c] = 1.0
            td = dict(base, eneT0=eneT0)
            td.update(d.makeLIMBpreene(**td))
            if noise is None:
                noise = {k: 0.1 * nrng.standard_normal(len(td[k])) for k in ('eneT1', 'eneT2')}
            for k in ('eneT1', 'eneT2'): td[k] = td[k] + noise[k]
            fam.append(tuple(OnsagerCalc.VacancyMediated.preene2betafree(kT, **td)))
    return fam


def bits(a):
    """canonical bit pattern of an array-like (shape + dtype kind + bytes)."""
    a = np.asarray(a)
    return (a.shape, a.dtype.str, np.ascontiguousarray(a).tobytes())


def same_bits(a, b):
    return bits(a) == bits(b)


def same_tuple(A, B):
    return len(A) == len(B) and all(same_bits(a, b) for a, b in zip(A, B))


def copy_args(args):
    return tuple(np.array(a, copy=True) for a in args)


def jarr(a):
    """json-able exact rendering of a float array (hex floats)."""
    a = np.asarray(a)
    if a.dtype.kind == 'f':
        return [float(x).hex() for x in a.ravel()]
    return a.ravel().tolist()
