"""
C08 — The two omega2 algorithms agree and stay finite for extreme rates.

Lean: OnsagerProofs/C08.lean — om2_identity ((1+gw)^-1 g - w^-1 = -(w + w g w)^-1), om2_large_limit, om2_update_symm
(any size, any field).  Tie: Lij with large_om2 = 0 (always the large-rate algorithm), = inf (never) and the default,
with the omega2 prefactors scaled over 1e-3 .. 1e16: agreement where the standard algorithm is numerically valid,
finite symmetric tensors from the default everywhere, and smooth approach to the large-rate limit.
"""
import numpy as np
import vacancy_common as vc

META = dict(
    id='C08',
    lean_modules=['OnsagerProofs.C08', 'OnsagerProofs.C08Woodbury'],
    theorems=['Onsager.C08.om2_identity', 'Onsager.C08.om2_large_limit', 'Onsager.C08.om2_update_symm',
              'Onsager.C08.woodbury_update', "Onsager.C08.woodbury_update'", 'Onsager.C08.X_U', 'Onsager.C08.Ut_X', 'Onsager.C08.R_closed',
              'Onsager.C08.X_W', 'Onsager.C08.dgd_core', 'Onsager.C08.one_sub_WX', 'Onsager.C08.Ut_Grepl'],
    tie_theorems=[],
    level_text='Partial. Kernel-checked: the matrix identity that makes the large-exchange-rate update equal to the standard Dyson '
               'update, its scaled form (no term growing with the exchange rate) and symmetry preservation, for any size and field. '
               'That the code implements these formulas, the null-space split by an eigen-decomposition and floating-point '
               'behaviour up to 1e16 are tied by differential runs of the two forced algorithm choices and the default.',
    level_note='Trusted: Lean kernel + standard axioms. Modelled not verified: numpy eigh/inv/pinv, the float threshold om2min, conditioning.',
    technique='Lean 4 matrix identities + differential runs of both algorithm choices over a 19-decade sweep',
    rule='vacancy calculators x random data x omega2 prefactor scale 1e-3..1e16 (one decade steps in thorough, 6 points quick); '
         'non-trivial = both algorithms evaluated on the same input; distinct by (calculator, data, scale)',
    trusted=[], assumptions=['the standard algorithm is taken as numerically valid while max|g w| < 1e6'],
)


def run(ctx):
    names = ['fcc', 'sq2d', 'hcp', 'twoW', 'oblique2d', 'rect2d-2site'] if ctx.quick else ['fcc', 'bcc', 'sc', 'hcp', 'sq2d', 'tri2d', 'honey2d', 'twoW', 'oblique2d', 'rumpled', 'rect2d-2site']
    scales = [1e-3, 1.0, 1e3, 1e6, 1e10, 1e16] if ctx.quick else [10.0 ** k for k in range(-3, 17)]
    for name in names:
        calc = vc.calculator(name, 1)
        for t in range(2 if ctx.quick else 4):
            d = vc.rand_data(ctx.rng, calc)
            limit = None
            # every exchange class scaled together, or one class only (exchange classes many decades apart)
            one = ctx.rng.randrange(len(d['preT2'])) if (len(d['preT2']) > 1 and t % 2 == 1) else None
            for s in scales:
                d2 = dict(d)
                if one is None: d2['preT2'] = d['preT2'] * s
                else:
                    f = np.ones(len(d['preT2'])); f[one] = s; d2['preT2'] = d['preT2'] * f
                bf = calc.preene2betafree(1.0, **d2)
                rep = dict(calculator=name, data=vc.jsonable(d), omega2_scale=s, scaled_class=one)
                try:
                    Ldef = calc.Lij(*bf)
                    Llarge = calc.Lij(*bf, large_om2=0)
                    Lstd = calc.Lij(*bf, large_om2=np.inf) if s <= 1e6 else None
                except Exception as e:
                    ctx.violation('om2-raises:%s' % type(e).__name__, 'Lij raised %r at omega2 scale %g on %s' % (e, s, name), rep); break
                sc = max(np.abs(Ldef[0]).max(), np.abs(Ldef[1]).max(), 1e-300)
                ctx.case((name, t, s, one, str(d['eneT2'])), nontrivial=True,
                         sample=dict(calculator=name, scale=s, Lss=np.asarray(Ldef[1]).tolist()))
                ctx.count('scale:1e%d' % int(round(np.log10(s))))
                for k, lab in enumerate(('L0vv', 'Lss', 'Lsv', 'L1vv')):
                    T = np.asarray(Ldef[k])
                    if not np.all(np.isfinite(T)):
                        ctx.violation('om2-nonfinite:%s' % lab, '%s not finite with the default algorithm at omega2 scale %g on %s' % (lab, s, name), rep)
                    elif lab != 'Lsv' and np.abs(T - T.T).max() > 1e-7 * max(np.abs(T).max(), sc):
                        ctx.violation('om2-asymmetric:%s' % lab, '%s not symmetric at omega2 scale %g on %s' % (lab, s, name), dict(rep, tensor=T.tolist()))
                    if Lstd is not None:
                        # both algorithms are exact reformulations of each other: agree where the standard one is well conditioned
                        tol = 1e-6 * max(np.abs(np.asarray(Lstd[k])).max(), sc) * max(1.0, s * 1e-3)
                        dev = np.abs(np.asarray(Llarge[k]) - np.asarray(Lstd[k])).max()
                        if dev > tol:
                            ctx.violation('om2-algorithms-differ:%s' % lab,
                                          'large-omega2 algorithm and standard algorithm differ for %s by %.3g (tol %.3g) at omega2 scale %g on %s'
                                          % (lab, dev, tol, s, name), dict(rep, large=np.asarray(Llarge[k]).tolist(), standard=np.asarray(Lstd[k]).tolist()))
                # smooth approach to the limit: beyond 1e8 the distance to the large-rate limit (the value at 1e11, where
                # both algorithms agree) is the physical O(1/scale) term plus floating-point cancellation, which the code
                # keeps two decades below eps*scale; anything larger is a jump, not a smooth approach
                if s >= 1e6:
                    if limit is None:
                        d3 = dict(d)
                        if one is None: d3['preT2'] = d['preT2'] * 1e11
                        else:
                            f = np.ones(len(d['preT2'])); f[one] = 1e11; d3['preT2'] = d['preT2'] * f
                        limit = calc.Lij(*calc.preene2betafree(1.0, **d3))
                    for k, lab in enumerate(('L0vv', 'Lss', 'Lsv', 'L1vv')):
                        lim = np.asarray(limit[k]); scl = max(np.abs(lim).max(), sc)
                        tolrel = 1e-4 + 1e-18 * s + 1e3 / s   # 0.01% plotting-precision floor; physical O(1/scale) approach
                        dev = np.abs(np.asarray(Ldef[k]) - lim).max()
                        if dev > tolrel * scl:
                            ctx.violation('om2-not-smooth:%s:%s' % (lab, 'ge1e13' if s >= 1e13 else 'lt1e13'), '%s is %.3g away from the large-rate limit at omega2 scale %g on %s '
                                          '(allowed %.3g)' % (lab, dev, s, name, tolrel * scl), dict(rep, value=np.asarray(Ldef[k]).tolist(), limit=lim.tolist()))


def search(ctx, reasons):
    pass
