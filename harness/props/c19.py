"""
C19 — cell reduction recovers the same crystal from any supercell.

Tie: a random crystal (primitive description P, built by the implementation) is re-described in a random
integer supercell (|det| 2..6), atoms reordered, optionally with sub-threshold noise; Crystal() is built
from the supercell and compared
 (a) by the direct oracle of the property: per-species atom counts, volume per atom, right-handed lattice,
     |G|, and "same crystal": the new lattice is a unimodular re-description of P's lattice and the atoms
     coincide modulo that lattice up to one global shift;
 (b) with the exact Lean model of reduce()/minlattice() (OnsagerModel/C19.lean) run on the exact supercell
     description: counts, det(metric) = volume², handedness, group order of the model's own gengroup, and
     unimodular equivalence of the two output metrics (witness searched and CHECKED in Lean).
Also: supercells that are NOT reducible (one copy made a different species / spin) must keep every atom.
"""
import math, time, itertools
from fractions import Fraction as Fr
import numpy as np
import c18lib as X

META = dict(
    id='C19',
    level_text='Kernel-checked for all inputs: one reduce step — with the divisibility condition T_m | M, T_m | T_k the old '
               'lattice is contained in the new cell [t,a_i,a_j] (remap_int; without it not: remap_not_int_example, the defect '
               'F25), the coordinate remap is the inverse of the new-cell matrix, det S = |T_m|/M > 0 (3-D; |det| in 2-D), '
               'det(S^T g S) = det(S)^2 det g; one minlattice step — round-half-even is within 1/2, a non-zero shear strictly '
               'shortens the sheared vector (termination measure), shears are unimodular, the sorting/handedness matrix makes '
               'the cell right-handed. PARTIAL: that the ITERATED construction returns the primitive crystal with the same group '
               'order is not a theorem (atom counting per new cell and C18\'s translation search are not formalised): it is '
               'checked per case by the exact model (differential) and by direct oracles on the implementation.',
    level_note='Trusted: Lean kernel + standard axioms; rationalisation of floats; the native driver build. Averaging of noisy '
               'positions and the rescaling of the threshold during reduction are float behaviour, exercised by the noise stream '
               'and judged by the direct oracles only.',
    technique='Lean 4 algebraic theorems for one reduce / minlattice step + exact executable model of the whole construction + '
              'differential run and direct invariants on random supercells',
    lean_modules=['OnsagerModel.C21', 'OnsagerModel.C18', 'OnsagerModel.C19', 'OnsagerProofs.C21Geom', 'OnsagerProofs.C18', 'OnsagerProofs.C19'],
    theorems=['Onsager.C19.roundHalfEven_spec', 'Onsager.C19.shear_decreases', 'Onsager.C19.shear_shortens',
              'Onsager.C19.remap_int', 'Onsager.C19.remap_not_int_example', 'Onsager.C19.remap_inverse3',
              'Onsager.C19.newCell_det3', 'Onsager.C19.detQ_changeMetric3', 'Onsager.C19.shear_det3',
              'Onsager.C19.det_negLast3', 'Onsager.C19.sort_handed3', 'Onsager.C19.remap_inverse2',
              'Onsager.C19.newCell_det2', 'Onsager.C19.detQ_changeMetric2', 'Onsager.C19.shear_det2',
              'Onsager.C19.c19Check_sound'],
    tie_theorems=[],
    rule='one case = (base crystal from the zoo or random, integer supercell matrix with |det| in 2..6 built as HNF x unimodular, '
         'random atom order, optional 2e-10 noise, optional symmetry-breaking relabelling); plus n x 1 x 1 supercells (n = 3..8) of multi-atom '
         'crystals with a coherent sublattice shift of 0.1-0.2 threshold; plus tie lattices in random orientation; non-trivial = the supercell has more '
         'atoms than the primitive cell; distinct by exact supercell description',
    trusted=['harness/c18lib.py (generators, snapping, native driver build; Crystal.genBZG is stubbed out for speed — C22\'s '
             'subject, not read by the reduction code)'],
    assumptions=['exactly periodic rational structures (or noise 2e-10, far below the 1e-8 threshold); scalar spins'],
)

DRV = 'C19'
MODELS = ['OnsagerModel.Basic', 'OnsagerModel.C21', 'OnsagerModel.C18', 'OnsagerModel.C19']


def rand_supercell(rng, d):
    """integer matrix with |det| in 2..6: Hermite normal form times a random unimodular matrix"""
    det = rng.choice((2, 2, 3, 3, 4, 4, 5, 6, 6))
    facs = []
    def split(n, k):
        if k == 1: return [[n]]
        out = []
        for a in range(1, n + 1):
            if n % a == 0:
                for rest in split(n // a, k - 1): out.append([a] + rest)
        return out
    diag = rng.choice(split(det, d))
    H = [[0] * d for _ in range(d)]
    for i in range(d):
        H[i][i] = diag[i]
        for j in range(i + 1, d):
            H[i][j] = rng.randrange(diag[i])
    U = X.rand_unimodular(rng, d, steps=rng.choice((0, 1, 2)), big=1)
    S = [[sum(H[i][k] * U[k][j] for k in range(d)) for j in range(d)] for i in range(d)]
    return S, det


def shuffled(rng, xs):
    basis, spins = [], (None if xs.spins is None else [])
    for si, atoms in enumerate(xs.basis):
        order = list(range(len(atoms))); rng.shuffle(order)
        basis.append([atoms[k] for k in order])
        if xs.spins is not None: spins.append([xs.spins[si][k] for k in order])
    out = X.XC(xs.g, basis, spins, L=xs.L, name=xs.name, cls=xs.cls)
    return out


def _replay(xs, extra=None):
    r = dict(supercell=xs.describe(), how='c18lib.build(XC(metric, basis, spins, L=lattice_columns^T)) (reduce + minlattice are on)')
    if extra: r.update(extra)
    return r


def same_crystal(c0, c1, tol=1e-6):
    """c1 describes the same crystal as c0: lattices related by a unimodular integer matrix and atoms
    coincide modulo the lattice up to one global translation.  Returns None or a reason."""
    d = c0.dim
    T = np.linalg.solve(c0.lattice, c1.lattice)
    if np.abs(T - np.round(T)).max() > tol: return 'lattice is not an integer combination of the primitive lattice (residual %.2e)' % np.abs(T - np.round(T)).max()
    if abs(abs(round(np.linalg.det(np.round(T)))) - 1) > 0: return 'lattice index is %d, not 1' % abs(round(np.linalg.det(np.round(T))))
    if [len(a) for a in c0.basis] != [len(a) for a in c1.basis]: return 'different atom counts'
    # positions of c1 in c0's unit coordinates
    P1 = [[T @ u for u in atoms] for atoms in c1.basis]
    # candidate shifts: map first atom of the smallest species of c1 onto each atom of that species in c0
    k = min(range(len(c0.basis)), key=lambda i: len(c0.basis[i]))
    for target in c0.basis[k]:
        s = target - P1[k][0]
        ok = True
        for a0, a1 in zip(c0.basis, P1):
            for u in a1:
                v = u + s
                if not any(np.abs((v - w) - np.round(v - w)).max() < tol for w in a0):
                    ok = False; break
            if not ok: break
        if ok: return None
    return 'atom positions do not coincide with the primitive crystal modulo the lattice'


def _bases(ctx, n_random, nprng):
    rng = ctx.rng
    names = ('SC', 'FCC', 'BCC', 'B2', 'diamond', 'HCP-ideal', 'omega', 'L12', 'tet-lowsym', 'mono-lowsym', 'triclinic-P-1',
             'rhomb-obtuse-49', 'SC-AFM-z', 'BCC-AFM', 'square', 'honeycomb', 'hBN', 'rect-lowsym', 'oblique-p1', 'square-AFM')
    out = [x for x in X.zoo() if x.name in names]
    for k in range(n_random):
        out.append(X.random_xc(rng, nprng, maxatoms=4, rotate=0.5, redescribe=0.3))
    return out


names_zoo = set(x.name for x in X.zoo())


TIE_L = [[0.3975170593445953, 0.7058355579898387, -0.35359065684375535],
         [0.6371540158665322, -0.10753572888364597, -0.6030927184758689],
         [-0.14973141703646584, 0.21484440914716474, -0.8441992552771281]]      # columns: a rotated FCC primitive cell


def tie_stream(ctx, nprng, n):
    """lattices on which a_i.a_j/|a_i|^2 is exactly +-1/2 (FCC primitive, hexagonal, 60-degree rhombohedral), in
    random orientations: minlattice's rounding sits on a tie and float noise decides"""
    F = Fr
    fcc = X.zoo()[1]
    hexg = [[F(1), -F(1, 2), F(0)], [-F(1, 2), F(1), F(0)], [F(0), F(0), F(64, 25)]]
    rh = [[F(1), F(1, 2), F(1, 2)], [F(1, 2), F(1), F(1, 2)], [F(1, 2), F(1, 2), F(1)]]
    hex2 = [[F(1), -F(1, 2)], [-F(1, 2), F(1)]]
    protos = [(fcc.g, 'FCC'), (hexg, 'hex'), (rh, 'rhomb60'), (hex2, 'hex2')]
    for k in range(n):
        if k == 0:
            xc = X.XC(X.mmul([[F(25, 16) * x for x in r] for r in [[1, 0, 0], [0, 1, 0], [0, 0, 1]]], fcc.g),
                      [[(F(12, 13), F(2, 11), F(8, 13))]], L=np.array(TIE_L).T, name='FCC-rotated(tie)', cls='cubicF')
        else:
            g, nm = protos[k % len(protos)]
            d = len(g)
            xc = X.XC(g, [[tuple(F(0) for _ in range(d))]], name=nm + '-rotated(tie)', cls=nm)
            xc.L = X.rand_rotation(nprng, d) @ xc.L
        ctx.count('tie-stream')
        ctx.case(('tie', xc.name, k), nontrivial=True)
        try:
            c = X.build(xc, NOSYM=(k != 0 and xc.d == 3))
        except Exception as e:
            ctx.violation('ctor-raises:%s:tie-lattice' % type(e).__name__,
                          'Crystal(%s in a general orientation) raises %r' % (xc.name.split('(')[0], e), _replay(xc))
            continue
        if np.linalg.det(c.lattice) <= 0 or abs(abs(np.linalg.det(c.lattice)) - abs(np.linalg.det(xc.L))) > 1e-9:
            ctx.violation('tie-lattice:volume-or-handedness', 'minlattice changed the cell volume or left it left-handed', _replay(xc))


def wyckoff_profile(c):
    """symmetry structure that must not depend on the description: per species, the sorted sizes of the Wyckoff sets and the
    sorted point-group orders of the sites"""
    prof = []
    for s in range(len(c.basis)):
        sizes = sorted(len(w) for w in c.Wyckoff if next(iter(w))[0] == s)
        pg = sorted(len(p) for p in c.pointG[s])
        prof.append((sizes, pg))
    return prof


def alt_constructors(ctx, L, basis, spins, thr, c1, rp, label):
    """the same supercell data through the other constructors — Crystal.fromdict(dict, noreduce=False) and a
    simpleYAML() -> yaml -> fromdict round trip — must give the crystal that the plain constructor gave: atoms per cell,
    |G|, Wyckoff profile, threshold, and the same lattice up to a unimodular change"""
    import yaml
    crystal = X.crystal_module()
    def compare(cx, how):
        kind = what = None
        if [len(a) for a in cx.basis] != [len(a) for a in c1.basis]:
            kind, what = 'atoms-per-cell', 'atoms per cell %s, plain constructor %s' % ([len(a) for a in cx.basis], [len(a) for a in c1.basis])
        elif len(cx.G) != len(c1.G):
            kind, what = 'group-order', '|G| = %d, plain constructor %d' % (len(cx.G), len(c1.G))
        elif wyckoff_profile(cx) != wyckoff_profile(c1):
            kind, what = 'wyckoff-structure', 'Wyckoff structure differs from the plain constructor'
        elif not np.isclose(cx.threshold, c1.threshold, rtol=1e-9, atol=0):
            kind, what = 'threshold', 'threshold %g, plain constructor %g' % (cx.threshold, c1.threshold)
        else:
            T = np.linalg.solve(c1.lattice, cx.lattice)
            if np.abs(T - np.round(T)).max() > 1e-6 or abs(abs(round(np.linalg.det(np.round(T)))) - 1) > 0:
                kind, what = 'lattice', 'lattice is not a unimodular re-description of the plain constructor\'s lattice'
        if kind:
            ctx.violation('alt-constructor:%s:%s' % (how, kind), '%s: %s(description with threshold %g) -> %s' % (label, how, thr, what),
                          dict(rp, constructor=how))
    d = dict(lattice=np.array(L).T.copy(), basis=[[u.copy() for u in a] for a in basis], threshold=thr)
    if spins is not None: d['spins'] = [list(sl) for sl in spins]
    ctx.count('alt-constructors')
    try:
        compare(crystal.Crystal.fromdict(d, noreduce=False), 'fromdict')
    except (ArithmeticError, RecursionError):
        pass
    except Exception as e:
        ctx.violation('alt-constructor:fromdict:raises:%s' % type(e).__name__, '%s: Crystal.fromdict raises %r' % (label, e), dict(rp, constructor='fromdict'))
    try:
        raw = crystal.Crystal(np.array(L), [[u.copy() for u in a] for a in basis], spins=None if spins is None else [list(sl) for sl in spins],
                              threshold=thr, noreduce=True, NOSYM=True)
        d2 = yaml.load(raw.simpleYAML(), Loader=yaml.Loader)
        compare(crystal.Crystal.fromdict(d2, noreduce=False), 'simpleYAML-roundtrip')
    except (ArithmeticError, RecursionError):
        pass
    except Exception as e:
        ctx.violation('alt-constructor:simpleYAML-roundtrip:raises:%s' % type(e).__name__, '%s: simpleYAML round trip raises %r' % (label, e),
                      dict(rp, constructor='simpleYAML-roundtrip'))


def elongated_stream(ctx, nprng, n):
    """n x 1 x 1 supercells (n = 3..8, optionally re-described by a unimodular matrix) of crystals with several atoms per
    primitive cell, coordinates perturbed by a sizeable fraction of the threshold: a coherent shift of one sublattice
    (0.1-0.2 threshold) plus independent noise (0.02 threshold).  The reduced crystal must have the group order, Wyckoff
    structure and point-group orders of the primitive crystal built directly, and what is derived from it with
    crys.threshold (strain(0), Wyckoffpos of an atom, cart2pos) must see the noisy atoms as equivalent."""
    rng = ctx.rng
    crystal = X.crystal_module()
    names = ('B2', 'diamond', 'rocksalt', 'HCP-ideal', 'L12', 'omega', 'FCC+O+T', 'tet-lowsym', 'honeycomb', 'hBN', 'square-2sp',
             'tri+honey', 'B2-spin', 'diamond-AFM')
    pool = [x for x in X.zoo() if x.name in names]
    for k in range(n):
        xc = pool[k % len(pool)] if k < 2 * len(pool) else X.random_xc(rng, nprng, maxatoms=4, rotate=0.5, redescribe=0.0)
        if xc.N < 2: continue
        try:
            c0 = X.build(xc)
        except Exception:
            continue
        d = xc.d
        nrep = rng.randrange(3, 9)
        ax = rng.randrange(d)
        S = [[(nrep if (i == j == ax) else int(i == j)) for j in range(d)] for i in range(d)]
        if rng.random() < 0.4:
            U = X.rand_unimodular(rng, d, steps=1, big=1)
            S = [[sum(S[i][l] * U[l][j] for l in range(d)) for j in range(d)] for i in range(d)]
        xs = shuffled(rng, xc.transformed(S))
        if xs.N > 48: continue
        thr = rng.choice((1e-8, 1e-8, 1e-6))
        frac = rng.choice((0.1, 0.15, 0.2))      # worst-case accumulated mismatch in gengroup ~ 4 x shift: stays below the threshold
        which = rng.randrange(len(xs.basis))            # the sublattice that is shifted coherently
        direction = nprng.normal(size=d); direction /= np.abs(direction).max()
        basis = []
        for si, atoms in enumerate(xs.basis):
            lst = []
            for u in atoms:
                v = np.array([float(t) for t in u]) + 0.02 * thr * nprng.uniform(-1, 1, size=d)
                if si == which: v = v + frac * thr * direction
                lst.append(v)
            basis.append(lst)
        spins = None if xs.spins is None else [list(sl) for sl in xs.spins]
        rp = dict(base=xc.name, supercell_matrix=S, threshold=thr, coherent_shift=dict(species=which, fraction_of_threshold=frac,
                  direction=direction.tolist()), lattice_columns=xs.L.T.tolist(), basis=[[u.tolist() for u in a] for a in basis], spins=spins,
                  how='crystal.Crystal(np.array(lattice_columns).T, [[np.array(u) ...]], spins=spins, threshold=threshold)')
        ctx.count('elongated-stream'); ctx.count('elongated:n=%d' % nrep)
        ctx.case(('elong', xs.key(), k), nontrivial=True)
        try:
            c1 = crystal.Crystal(xs.L, basis, spins=spins, threshold=thr)
        except Exception as e:
            ctx.violation('ctor-raises:%s:elongated' % type(e).__name__, 'Crystal(%d x 1 x 1 supercell of %s with sub-threshold noise) raises %r' % (nrep, xc.name, e), rp)
            continue
        rp.update(out_N=c1.N, out_nG=len(c1.G), out_threshold=c1.threshold, prim_N=c0.N, prim_nG=len(c0.G))
        if [len(a) for a in c1.basis] != [len(a) for a in c0.basis]:
            ctx.violation('elongated:atom-counts', '%d x 1 x 1 supercell of %s, noise %.1f threshold: %s atoms per species, primitive %s'
                          % (nrep, xc.name, frac, [len(a) for a in c1.basis], [len(a) for a in c0.basis]), rp); continue
        if len(c1.G) != len(c0.G):
            ctx.violation('elongated:group-order', '%d x 1 x 1 supercell of %s with a coherent sublattice shift of %.1f threshold: |G| = %d, the primitive crystal '
                          'built directly has %d (threshold carried by the reduced crystal: %g)' % (nrep, xc.name, frac, len(c1.G), len(c0.G), c1.threshold), rp)
            continue
        alt_constructors(ctx, xs.L, basis, spins, thr, c1, rp, '%d x 1 x 1 supercell of %s' % (nrep, xc.name))
        if wyckoff_profile(c1) != wyckoff_profile(c0):
            ctx.violation('elongated:wyckoff-structure', '%d x 1 x 1 supercell of %s: Wyckoff set sizes / point-group orders %s differ from the primitive crystal %s'
                          % (nrep, xc.name, wyckoff_profile(c1), wyckoff_profile(c0)), rp)
        # downstream users of crys.threshold
        try:
            c2 = c1.strain(np.zeros((d, d)))
            if len(c2.G) != len(c1.G) or c2.N != c1.N:
                ctx.violation('elongated:rebuild-loses-symmetry', 'rebuilding the reduced crystal with its own threshold (strain(0)) changes |G| from %d to %d (threshold %g)'
                              % (len(c1.G), len(c2.G), c1.threshold), rp)
        except (ArithmeticError, RecursionError):
            pass
        s0 = min(range(len(c1.basis)), key=lambda i: len(c1.basis[i]))
        W = c1.Wyckoffpos(c1.basis[s0][0])
        want = next(len(w) for w in c1.Wyckoff if (s0, 0) in w)
        if len(W) != want:
            ctx.violation('elongated:wyckoffpos-of-atom', 'Wyckoffpos of atom (%d,0) has %d points, its Wyckoff set %d (threshold %g)' % (s0, len(W), want, c1.threshold), rp)
        for sig, what in (X.oracle_ops(c1, tol=max(1e-6, 20 * nrep * thr)) + X.oracle_group(c1, tol=max(1e-6, 20 * nrep * thr)))[:1]:
            ctx.violation('elongated:' + sig, what, rp)


def position_errors(c0, c1, tol):
    """deviations of the atoms of c1 from the atoms of the (exact, primitive) crystal c0, in c0's unit coordinates, after
    the best common shift; None if the two do not describe the same crystal within tol"""
    T = np.linalg.solve(c0.lattice, c1.lattice)
    if np.abs(T - np.round(T)).max() > 1e-6 or abs(abs(round(np.linalg.det(np.round(T)))) - 1) > 0: return None
    if [len(a) for a in c0.basis] != [len(a) for a in c1.basis]: return None
    T = np.round(T)
    P1 = [[T @ u for u in atoms] for atoms in c1.basis]
    k = min(range(len(c0.basis)), key=lambda i: len(c0.basis[i]))
    for target in c0.basis[k]:
        s = target - P1[k][0]
        devs = []
        for a0, a1 in zip(c0.basis, P1):
            for u in a1:
                v = u + s
                best = min((np.abs((v - w) - np.round(v - w)).max(), j) for j, w in enumerate(a0))
                if best[0] > tol: devs = None; break
                w = a0[best[1]]
                devs.append((v - w) - np.round(v - w))
            if devs is None: break
        if devs is not None:
            devs = np.array(devs)
            return devs - devs.mean(axis=0)
    return None


def averaging_stream(ctx, nprng, n):
    """n x 1 x 1 supercells (n = 3, 5, 6, 7: one reduction step merges n copies) whose atoms carry INDEPENDENT noise of a
    sizeable fraction (0.2-0.4) of the threshold.  reduce() averages the merged copies, so the reduced positions must be
    CLOSER to the true primitive positions than the input noise (and certainly within it), and the reduced crystal must
    have the group order / Wyckoff structure of the primitive crystal built directly."""
    rng = ctx.rng
    crystal = X.crystal_module()
    names = ('SC', 'B2', 'HCP-ideal', 'HCP-1.6', 'diamond', 'rocksalt', 'L12', 'omega', 'tet-lowsym', 'honeycomb', 'hBN', 'square-2sp', 'square')
    pool = [x for x in X.zoo() if x.name in names]
    for k in range(n):
        xc = pool[k % len(pool)] if k < 3 * len(pool) else X.random_xc(rng, nprng, maxatoms=4, rotate=0.5, redescribe=0.0, spins_prob=0.0)
        try:
            c0 = X.build(xc)
        except Exception:
            continue
        if c0.N != xc.N: continue           # the base description must be primitive
        d = xc.d
        nrep = rng.choice((3, 5, 6, 7, 3, 5))
        ax = rng.randrange(d)
        S = [[(nrep if (i == j == ax) else int(i == j)) for j in range(d)] for i in range(d)]
        xs = shuffled(rng, xc.transformed(S))
        if xs.N > 42: continue
        thr = rng.choice((1e-8, 1e-6, 1e-5))
        frac = rng.choice((0.2, 0.3, 0.4))
        amp = frac * thr
        basis = [[np.array([float(t) for t in u]) + amp * nprng.uniform(-1, 1, size=d) for u in atoms] for atoms in xs.basis]
        rp = dict(base=xc.name, supercell_matrix=S, threshold=thr, independent_noise_amplitude=amp, lattice_columns=xs.L.T.tolist(),
                  basis=[[u.tolist() for u in a] for a in basis],
                  how='crystal.Crystal(np.array(lattice_columns).T, [[np.array(u) ...]], threshold=threshold); compare with the primitive %s' % xc.name)
        ctx.count('averaging-stream'); ctx.count('averaging:n=%d' % nrep)
        ctx.case(('avg', xs.key(), k), nontrivial=True)
        try:
            c1 = crystal.Crystal(xs.L, basis, threshold=thr)
        except Exception as e:
            ctx.violation('ctor-raises:%s:averaging' % type(e).__name__, 'Crystal(%d-fold supercell of %s with noise %.1f threshold) raises %r' % (nrep, xc.name, frac, e), rp)
            continue
        rp.update(out_N=c1.N, out_nG=len(c1.G), out_threshold=c1.threshold, prim_N=c0.N, prim_nG=len(c0.G))
        if [len(a) for a in c1.basis] != [len(a) for a in c0.basis]:
            ctx.violation('averaging:atom-counts', '%d-fold supercell of %s, independent noise %.1f threshold: %s atoms per species, primitive %s'
                          % (nrep, xc.name, frac, [len(a) for a in c1.basis], [len(a) for a in c0.basis]), rp); continue
        # positions: in supercell units every input coordinate is within amp of the truth, so is any average of copies
        devs = position_errors(c0, c1, tol=50 * nrep * amp + 1e-9)
        if devs is None:
            ctx.violation('averaging:not-same-crystal', '%d-fold supercell of %s: the reduced crystal is not the primitive crystal within 50 x the input noise' % (nrep, xc.name), rp)
            continue
        A = np.linalg.solve(xc.L, c0.lattice)          # c0's unit coordinates -> the base description's (Crystal() may have re-described it)
        devs_super = devs @ A.T; devs_super[:, ax] /= nrep
        worst = np.abs(devs_super).max()
        rms = float(np.sqrt((devs_super ** 2).mean()))
        rp.update(max_position_error_over_noise=worst / amp, rms_position_error_over_noise=rms / amp)
        if worst > 1.25 * amp:
            ctx.violation('averaging:position-error-exceeds-noise', '%d-fold supercell of %s: a reduced position is %.2f x the input noise amplitude away from the true '
                          'primitive position (averaging %d copies must not amplify the noise)' % (nrep, xc.name, worst / amp, nrep), rp)
            continue
        if len(devs) >= 3 and rms > 0.62 * amp:        # input rms is 0.577 amp; the average of n >= 3 copies has 0.33 amp or less
            ctx.violation('averaging:noise-not-reduced', '%d-fold supercell of %s: rms error of the reduced positions %.2f x amplitude, not smaller than the input noise'
                          % (nrep, xc.name, rms / amp), rp)
            continue
        alt_constructors(ctx, xs.L, basis, None, thr, c1, rp, '%d-fold supercell of %s' % (nrep, xc.name))
        if len(c1.G) != len(c0.G):
            ctx.violation('averaging:group-order', '%d-fold supercell of %s with independent noise %.1f threshold: |G| = %d, primitive crystal %d'
                          % (nrep, xc.name, frac, len(c1.G), len(c0.G)), rp)
        elif wyckoff_profile(c1) != wyckoff_profile(c0):
            ctx.violation('averaging:wyckoff-structure', '%d-fold supercell of %s: Wyckoff structure differs from the primitive crystal' % (nrep, xc.name), rp)


def run(ctx):
    rng = ctx.rng
    nprng = np.random.default_rng(rng.getrandbits(32))
    tie_stream(ctx, nprng, 160 if ctx.quick else 1500)
    averaging_stream(ctx, nprng, 50 if ctx.quick else 700)
    elongated_stream(ctx, nprng, 45 if ctx.quick else 600)
    nat = X.native_driver(DRV, MODELS) is not None
    if not nat: ctx.note('native driver could not be built: interpreter fallback (few cases)')
    t_run = time.time()
    budget = 110.0 if ctx.quick else 1200.0
    n_random = (20 if ctx.quick else 1200) if nat else 2
    lines, pending = [], []
    reps = 2 if ctx.quick else 3
    for xc in _bases(ctx, n_random, nprng):
        try:
            c0 = X.build(xc)
        except Exception as e:
            ctx.violation('ctor-raises:%s:base' % type(e).__name__, 'Crystal construction of the base crystal raises %r' % (e,), _replay(xc))
            continue
        # what the primitive description is, independently of the code under test, when the generator knows it
        zoo_known = xc.name in names_zoo
        exp_counts = [len(a) for a in xc.basis] if zoo_known else [len(a) for a in c0.basis]
        exp_vpa = math.sqrt(float(X.mdet(xc.g))) / xc.N if zoo_known else c0.volume / c0.N
        exp_nG = xc.order if (zoo_known and xc.order) else len(c0.G)
        for rep in range(reps):
            if time.time() - t_run > budget * 0.6:
                ctx.note('budget: case list truncated after %d cases' % ctx.evaluations); break
            S, det = rand_supercell(rng, xc.d)
            xs = shuffled(rng, xc.transformed(S))
            if xs.N > 40: continue
            mode = rng.choice(('plain', 'plain', 'noise', 'break'))
            if rep == 0 and xc.spins is not None: mode = 'plain'
            flags = {}
            if mode == 'break' and xs.N >= 2:
                # make one copy different: move the last atom of species 0 to a new species (or flip its spin)
                b = [list(a) for a in xs.basis]
                moved = b[0].pop()
                sp = None if xs.spins is None else [list(s) for s in xs.spins]
                if len(b[0]) == 0:
                    b[0].append(moved); mode = 'plain'
                else:
                    b.append([moved])
                    if sp is not None: sp.append([sp[0].pop()])
                    xs = X.XC(xs.g, b, sp, L=xs.L, name=xs.name + '+break', cls=xs.cls)
            noise = 2e-10 if mode == 'noise' else None
            ctx.count('mode:' + mode); ctx.count('det:%d' % det); ctx.count('%dD' % xc.d)
            try:
                c1 = X.build(xs, noise=noise, nprng=nprng)
            except Exception as e:
                ctx.violation('ctor-raises:%s' % type(e).__name__, 'Crystal(supercell of %s, |det| = %d) raises %r' % (xc.name, det, e),
                              _replay(xs, dict(base=xc.name, supercell_matrix=S, mode=mode)))
                ctx.case((xs.key(), mode), nontrivial=True)
                continue
            ctx.case((xs.key(), mode), nontrivial=xs.N > c0.N,
                     sample=dict(base=xc.name, supercell=S, natoms_super=xs.N, natoms_out=c1.N, nG=len(c1.G), mode=mode))
            rp = _replay(xs, dict(base=xc.name, supercell_matrix=S, mode=mode, out_N=c1.N, out_volume=c1.volume, out_nG=len(c1.G),
                                  prim_N=c0.N, prim_volume=c0.volume, prim_nG=len(c0.G)))
            # ---- direct oracles
            if np.linalg.det(c1.lattice) <= 0:
                ctx.violation('left-handed', 'the reduced lattice is left-handed (det = %.3g)' % np.linalg.det(c1.lattice), rp)
            if mode != 'break':
                if [len(a) for a in c1.basis] != exp_counts:
                    ctx.violation('atom-counts', 'supercell of %s: %s atoms per species after reduction, primitive cell has %s'
                                  % (xc.name, [len(a) for a in c1.basis], exp_counts), rp)
                elif abs(c1.volume / c1.N - exp_vpa) > 1e-8 * exp_vpa:
                    ctx.violation('volume-per-atom', 'volume per atom %.12g, primitive %.12g' % (c1.volume / c1.N, exp_vpa), rp)
                if len(c1.G) != exp_nG:
                    ctx.violation('group-order', 'supercell of %s: |G| = %d after reduction, primitive description has %d' % (xc.name, len(c1.G), exp_nG), rp)
                why = same_crystal(c0, c1)
                if why: ctx.violation('not-same-crystal', 'supercell of %s: %s' % (xc.name, why), rp)
            else:
                vol_in = abs(np.linalg.det(xs.L))
                if abs(c1.volume / c1.N - vol_in / xs.N) > 1e-8 * vol_in / xs.N:
                    ctx.violation('volume-per-atom:break', 'volume per atom changed from %.12g to %.12g' % (vol_in / xs.N, c1.volume / c1.N), rp)
                if sorted(len(a) for a in c1.basis) != sorted(len(a) * c1.N // xs.N for a in xs.basis):
                    ctx.violation('atom-counts:break', 'per-species counts %s are not the input counts %s scaled' % ([len(a) for a in c1.basis], [len(a) for a in xs.basis]), rp)
            for sig, what in (X.oracle_ops(c1, tol=1e-6) + X.oracle_group(c1, tol=1e-6))[:2]:
                ctx.violation('after-reduce:' + sig, what, rp)
            # ---- exact model
            if mode == 'noise': continue
            try:
                xo = X.exact_out(xs, c1)
            except X.SnapError as e:
                ctx.disagree('cannot rationalise the reduced crystal: %s' % e, rp); continue
            m, b, sp = xs.lean_fields()
            sgn = 1 if np.linalg.det(xs.L) > 0 else -1
            lines.append('%d | construct | 1 | %d | %s | %s | %s' % (xs.d, sgn, m, b, sp))
            pending.append((xs, c1, xo, rp))
    if len(pending) < 15 and nat:
        import vcheck
        raise vcheck.InternalError('C19: only %d cases before the time budget ran out' % len(pending))
    answers = X.run_driver(ctx, DRV, MODELS, lines)
    l2, p2 = [], []
    for line, (xs, c1, xo, rp), ans in zip(lines, pending, answers):
        if not ans.startswith('ok '):
            ctx.disagree('model: %s, implementation constructs a crystal with %d atoms' % (ans, c1.N), dict(rp, lean_request=line)); continue
        head, mm, bb, ss = [t.strip() for t in ans.split('|')]
        kv = dict(t.split('=') for t in head.split()[1:])
        counts = [int(t) for t in kv['counts'].split(',')]
        det = Fr(kv['det'])
        problems = []
        if counts != [len(a) for a in c1.basis]: problems.append('counts model %s impl %s' % (counts, [len(a) for a in c1.basis]))
        if abs(math.sqrt(float(det)) - c1.volume) > 1e-8 * c1.volume: problems.append('volume model %.12g impl %.12g' % (math.sqrt(float(det)), c1.volume))
        if kv['sgn'] != '1': problems.append('model cell left-handed')
        if int(kv['nG']) != len(c1.G): problems.append('|G| model %s impl %d' % (kv['nG'], len(c1.G)))
        if problems:
            ctx.disagree('reduce/minlattice: ' + '; '.join(problems), dict(rp, lean_request=line, lean_answer=ans[:400]))
            continue
        gm = ','.join(X.fstr(x) for r in xo.g for x in r)
        l2.append('%d | equiv | %s | %s' % (xs.d, mm, gm)); p2.append((xs, rp, mm, gm))
    for (xs, rp, mm, gm), ans in zip(p2, X.run_driver(ctx, DRV, MODELS, l2)):
        if ans != 'equiv=1':
            ctx.disagree('the implementation\'s reduced metric is not unimodularly equivalent to the model\'s', dict(rp, model_metric=mm, impl_metric=gm))


def search(ctx, reasons):
    rng = ctx.rng
    nprng = np.random.default_rng(rng.getrandbits(32))
    n = 0
    while ctx.budget_left() > 20 and n < 400:
        n += 1
        xc = X.random_xc(rng, nprng, maxatoms=3, redescribe=0.2)
        try:
            c0 = X.build(xc)
        except Exception:
            continue
        S, det = rand_supercell(rng, xc.d)
        xs = shuffled(rng, xc.transformed(S))
        if xs.N > 36: continue
        try:
            c1 = X.build(xs)
        except Exception as e:
            ctx.violation('ctor-raises:%s' % type(e).__name__, 'Crystal(supercell of %s, |det| = %d) raises %r' % (xc.name, det, e),
                          _replay(xs, dict(supercell_matrix=S)))
            continue
        rp = _replay(xs, dict(supercell_matrix=S))
        if [len(a) for a in c1.basis] != [len(a) for a in c0.basis]: ctx.violation('atom-counts', 'counts differ', rp)
        if len(c1.G) != len(c0.G): ctx.violation('group-order', '|G| %d vs %d' % (len(c1.G), len(c0.G)), rp)
        why = same_crystal(c0, c1)
        if why: ctx.violation('not-same-crystal', why, rp)
