"""
Shared by C33 / C35: a zoo of real MonteCarloSampler objects (crystals x supercells x {plain, jump network,
vacancy + jump network, spectator sublattice}) with INTEGER-valued interaction values (cluster values are even
integers because the jump-network evaluators halve them), and the export of their tables in the line protocol
of Drive/C33.lean / Drive/C35.lean.
"""
import numpy as np

_CACHE = {}


def crystals():
    from onsager import crystal
    if 'crystals' in _CACHE: return _CACHE['crystals']
    a, c2d = 1.0, 3.0
    s3 = np.sqrt(0.75)
    Z = {}
    # name -> (crystal, chem of the mobile/jumping species, cluster cutoff, jump cutoff, spectator chems)
    Z['sc'] = (crystal.Crystal(a * np.eye(3), [np.zeros(3)], chemistry=['A']), 0, 1.01, 1.01, ())
    Z['fcc'] = (crystal.Crystal.FCC(a, 'A'), 0, 0.8, 0.8, ())
    Z['bcc'] = (crystal.Crystal.BCC(a, 'A'), 0, 0.9, 0.9, ())
    Z['hcp'] = (crystal.Crystal.HCP(a, chemistry='A'), 0, 1.01, 1.01, ())
    b2 = crystal.Crystal(a * np.eye(3), [[np.zeros(3)], [np.array([.5, .5, .5])]], chemistry=['A', 'B'])
    Z['b2'] = (b2, 0, 1.01, 1.01, ())          # both sublattices mobile
    Z['b2spec'] = (b2, 0, 1.01, 1.01, (1,))    # B sublattice is a spectator
    Z['dia'] = (crystal.Crystal(a * np.array([[0, .5, .5], [.5, 0, .5], [.5, .5, 0]]),
                                [np.zeros(3), np.array([.25, .25, .25])], chemistry=['C']), 0, 0.45, 0.45, ())
    # 2-D nets as layered 3-D crystals (ClusterSupercell needs 3x3 superlattices): the c axis is longer than any cutoff
    Z['square'] = (crystal.Crystal(np.diag([a, a, c2d]), [np.zeros(3)], chemistry=['A']), 0, 1.01, 1.01, ())
    Z['triang'] = (crystal.Crystal(np.array([[a, .5 * a, 0], [0, s3 * a, 0], [0, 0, c2d]]), [np.zeros(3)],
                                   chemistry=['A']), 0, 1.01, 1.01, ())
    Z['honey'] = (crystal.Crystal(np.array([[a, .5 * a, 0], [0, s3 * a, 0], [0, 0, c2d]]),
                                  [np.array([1 / 3, 1 / 3, 0]), np.array([2 / 3, 2 / 3, 0])], chemistry=['A']),
                  0, 0.6, 0.6, ())
    Z['tric'] = (crystal.Crystal(np.array([[1, .2, .1], [0, 1.1, .3], [0, 0, 1.3]]),
                                 [np.zeros(3), np.array([.3, .4, .45])], chemistry=['A']), 0, 1.12, 1.12, ())
    _CACHE['crystals'] = Z
    return Z


SUPERLATTS = {
    'd211': np.diag([2, 1, 1]), 'd221': np.diag([2, 2, 1]), 'd222': np.diag([2, 2, 2]),
    'd111': np.diag([1, 1, 1]), 'd311': np.diag([3, 1, 1]), 'd321': np.diag([3, 2, 1]),
    'skew2': np.array([[1, 1, 0], [-1, 1, 0], [0, 0, 1]]), 'skew3': np.array([[1, 1, 0], [-1, 2, 0], [0, 0, 1]]),
    'd331': np.diag([3, 3, 1]), 'd322': np.diag([3, 2, 2]), 'd333': np.diag([3, 3, 3]), 'd441': np.diag([4, 4, 1]),
    'sk4': np.array([[2, 1, 0], [0, 2, 1], [1, 0, 2]]),
}


class Bundle:
    """One real sampler + its exported table."""
    pass


def _ints(rng, n, lo, hi, even=False):
    v = np.array([float(rng.randint(lo, hi)) for _ in range(n)])
    return 2 * v if even else v


def _wide(rng, n, lo, hi):
    """even integers of widely separated magnitude: ordinary terms (|v| <= 2*hi), medium ones (2^10..2^25) and
    'hard-core' ones (odd * 2^34 .. 2^62), i.e. ratios 1e8 .. 1e18 inside one table; all exactly representable"""
    out = []
    for _ in range(n):
        c = rng.random()
        if c < 0.45: v = 2 * rng.randint(lo, hi)
        elif c < 0.60: v = rng.choice([-1, 1]) * rng.choice([1, 3, 5]) * 2 ** rng.randint(10, 25)
        else: v = rng.choice([-1, 1]) * rng.choice([1, 3, 5]) * 2 ** rng.choice([34, 40, 47, 50, 54, 58, 62])
        out.append(float(v))
    if n >= 2:
        # at least one hard-core and one ordinary non-zero term (the first two clusters are usually site and pair)
        i, j = rng.sample(range(n), 2)
        out[i] = float(rng.choice([-1, 1]) * rng.choice([1, 3]) * 2 ** rng.choice([47, 54, 58, 62]))
        out[j] = float(2 * rng.choice([-5, -3, -1, 1, 2, 4, 6]))
    return np.array(out)


def build(cname, sname, kind, rng, order=3, given=None, regime='small'):
    """kind in {'plain', 'jumps', 'vac', 'vacplain'}; returns a Bundle.  `given` = the `build` dict of an earlier
    bundle: reconstruct exactly that sampler (used by replays).
    regime 'small': even integers |v| <= 12 (every float sum is exact);
    regime 'wide' : values n * 2^-q with even integers n spanning up to 62 binary orders of magnitude (float sums
                    round; the model works on the integers n, comparisons with it use a roundoff tolerance)."""
    from onsager import supercell, cluster
    crys, chem, ccut, jcut, spectator = crystals()[cname]
    superlatt = SUPERLATTS[sname]
    sup = supercell.ClusterSupercell(crys, superlatt, spectator=spectator)
    nsites = sup.size * sup.Nmobile
    key = ('ce', cname, order)
    if key not in _CACHE:
        ce = cluster.makeclusters(crys, ccut, order)
        jn = crys.jumpnetwork(chem, jcut)
        vce = cluster.makeVacancyClusters(crys, chem, ce)
        _CACHE[key] = (ce, jn, vce, cluster.makeTSclusters(crys, chem, jn, ce), cluster.makeTSclusters(crys, chem, jn, vce))
    ce, jn, vce, TS, TSv = _CACHE[key]
    g = given or {}
    socc = np.array(g['socc'] if given else [rng.randint(0, 1) for _ in range(sup.size * sup.Nspec)], dtype=int)
    vac = None
    if kind in ('vac', 'vacplain'):
        cand = [n for n in range(nsites) if sup.ciR(n)[0][0] == chem]
        vac = g['vacancy'] if given else rng.choice(cand)
        sup.addvacancy(vac)
        cexp = ce + vce
    else:
        cexp = ce
    if given:
        regime, q = g.get('regime', 'small'), g.get('qscale', 0)
    else:
        q = rng.choice([0, 0, 10, 24]) if regime == 'wide' else 0
    unit = 2.0 ** (-q)
    Ev = np.array(g['Evalues']) if given else \
        (_wide(rng, len(cexp) + 1, -6, 6) * unit if regime == 'wide' else _ints(rng, len(cexp) + 1, -6, 6, even=True))
    KRA = TSval = np.zeros(0)
    if kind in ('plain', 'vacplain'):
        MC = cluster.MonteCarloSampler(sup, socc, cexp, Ev)
    else:
        ts = TSv if kind == 'vac' else TS
        KRA = np.array(g['KRAvalues']) if given else _ints(rng, len(jn), 0, 6) * unit
        TSval = np.array(g['TSvalues']) if given else _ints(rng, len(ts), -4, 4) * unit
        MC = cluster.MonteCarloSampler(sup, socc, cexp, Ev, chem, jn, KRAvalues=KRA, TSclusters=ts, TSvalues=TSval)
    b = Bundle()
    b.name = '%s/%s/%s%s' % (cname, sname, kind, '/wide' if regime == 'wide' else '')
    b.regime, b.q = regime, q
    b.MC, b.nsites, b.vacancy = MC, nsites, (-1 if vac is None else int(vac))
    b.build = dict(crystal=cname, superlatt_name=sname, superlatt=superlatt.tolist(), kind=kind, order=order,
                   cluster_cutoff=ccut, jump_cutoff=jcut, spectator=list(spectator), socc=socc.tolist(), vacancy=b.vacancy,
                   regime=regime, qscale=q, Evalues=Ev.tolist(), KRAvalues=KRA.tolist(), TSvalues=TSval.tolist(),
                   how='onsager.cluster.makeclusters(crys, cluster_cutoff, order) [+ makeVacancyClusters], '
                       'crys.jumpnetwork(0, jump_cutoff), makeTSclusters; ClusterSupercell(crys, superlatt, spectator) '
                       '[.addvacancy(vacancy)]; MonteCarloSampler(sup, socc, clusters, Evalues, 0, jumpnetwork, KRAvalues, '
                       'TSclusters, TSvalues) — see harness/props/mc_common.py: build')
    export(b)
    b.pristine = clone(MC)
    return b


def rebuild(info):
    return build(info['crystal'], info['superlatt_name'], info['kind'], None, order=info['order'], given=info)


def clone(MC):
    """an unstarted sampler with its own copies of the tables (so that a sampler that corrupts its tables or
    keeps state across start() calls cannot contaminate the reference it is compared with)"""
    import copy
    c = copy.copy(MC)
    c.siteinteract, c.Ninteract, c.interactvalue = MC.siteinteract.copy(), MC.Ninteract.copy(), MC.interactvalue.copy()
    if MC.jumps is not None:
        c.jumps, c.interactrange = list(MC.jumps), list(MC.interactrange)
    c.occ = c.clustercount = c.occupied_set = c.unoccupied_set = None
    return c


def tables_changed(MC, b):
    """None, or the name of a table of MC that no longer equals the exported one"""
    rows = [[int(m) for m in MC.siteinteract[i][:MC.Ninteract[i]]] for i in range(len(MC.Ninteract))]
    if rows != b.rows: return 'siteinteract'
    if [float(v) * 2.0 ** getattr(b, 'q', 0) for v in MC.interactvalue] != [float(v) for v in b.values]: return 'interactvalue'
    if int(MC.Nenergy) != b.nenergy: return 'Nenergy'
    if b.jumps is not None and ([(int(i), int(j)) for (i, j), dx in MC.jumps] != b.jumps or
                                [int(x) for x in MC.interactrange] != b.irange): return 'jumps'
    return None


def export(b):
    """Table of the real sampler in the model's terms + the structural assumptions the model makes."""
    MC = b.MC
    b.rows = [[int(m) for m in MC.siteinteract[i][:MC.Ninteract[i]]] for i in range(len(MC.Ninteract))]
    from fractions import Fraction
    q = getattr(b, 'q', 0)
    vals = [Fraction(float(v)) * 2 ** q for v in MC.interactvalue]     # exact
    b.problems = []
    if not all(v.denominator == 1 for v in vals):
        b.problems.append('interaction values are not integer multiples of 2^-%d (harness construction)' % q)
    b.values = [int(v) for v in vals]
    b.absvalues = np.array([abs(float(v)) for v in b.values])
    b.nenergy = int(MC.Nenergy)
    nint = len(b.values)
    if len(b.rows) != b.nsites: b.problems.append('siteinteract has %d rows for %d sites' % (len(b.rows), b.nsites))
    if any(m < 0 or m >= nint for r in b.rows for m in r): b.problems.append('siteinteract entry out of range')
    if b.nenergy > nint: b.problems.append('Nenergy > number of interactions')
    b.rows_ascending = all(r[k] <= r[k + 1] for r in b.rows for k in range(len(r) - 1))
    if MC.jumps is not None:
        b.jumps = [(int(i), int(j)) for (i, j), dx in MC.jumps]
        b.dx = [np.array(dx, dtype=float) for (i, j), dx in MC.jumps]
        b.irange = [int(x) for x in MC.interactrange]
        if len(b.irange) != len(b.jumps) + 1: b.problems.append('interactrange length != Njumps + 1')
        elif b.irange[-1] != b.nenergy: b.problems.append('interactrange[-1] != Nenergy')
        elif any(lo > hi for lo, hi in zip([b.nenergy] + b.irange[:-2], b.irange[:-1])) or \
                (b.jumps and b.irange[-2] != nint):
            b.problems.append('interactrange is not a partition of the jump interactions')
        if any(not (0 <= i < b.nsites and 0 <= j < b.nsites) for i, j in b.jumps):
            b.problems.append('jump endpoint out of range')
        if b.vacancy >= 0 and any(i != b.vacancy for i, j in b.jumps):
            b.problems.append('vacancy sampler lists a jump that does not start at the vacancy')
    else:
        b.jumps, b.dx, b.irange = None, None, []
    b.table_line = 'table %s %s %d %d %s %s' % (
        show_ll(b.rows), show_l(b.values), b.nenergy, b.vacancy,
        'none' if b.jumps is None else ('-' if not b.jumps else ';'.join('%d:%d' % ij for ij in b.jumps)),
        show_l(b.irange))


def show_l(l):
    return '-' if len(l) == 0 else ','.join(str(int(x)) for x in l)


def show_ll(ll):
    return '-' if len(ll) == 0 else ';'.join((','.join(str(int(x)) for x in l) if len(l) else '_') for l in ll)


def err_name(e):
    for t, n in ((IndexError, 'index'), (KeyError, 'key'), (ValueError, 'value'), (RuntimeWarning, 'warning'),
                 (RuntimeError, 'runtime')):
        if isinstance(e, t): return n
    return 'other:' + type(e).__name__


def as_scaled_int(x, q):
    """exact integer n with x == n * 2^-q (x a float energy of a table whose values are multiples of 2^-q)"""
    from fractions import Fraction
    f = Fraction(float(x)) * 2 ** q
    return int(f) if f.denominator == 1 else None


def as_int(x):
    """exact integer value of an energy (python int, numpy int or integer-valued float); None if not integral"""
    f = float(x)
    return int(f) if f.is_integer() else None


def checksum(cc):
    """(sum c, sum (m+1) c mod 1000003) — the same digest Drive/C33.lean prints for clustercount"""
    c = np.asarray(cc, dtype=np.int64)
    return int(c.sum()), int((np.arange(1, len(c) + 1, dtype=np.int64) * c).sum()) % 1000003
