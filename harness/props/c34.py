"""
C34 — kinetic barriers obey detailed balance.

Model: a sampler is its exported tables (siteinteract, interactvalue, Nenergy, interactrange, jumps);
energy and barriers are sums over interaction ranges of the interactions with no unoccupied site.
Theorems (OnsagerProofs/C34.lean): `barrier_half_difference` (KRA + TS part symmetric under reversal,
cluster part = half the energy difference through the moving atom ⇒ Q_fwd − Q_rev = E_final − E_initial),
and soundness of the table tests `dbCheck` / `structCheck` (and the vacancy variants): a passing test
implies the identity for EVERY occupation of that table.

Tie: the tables of real samplers are exported on every run and the Lean driver (a) re-reads energies
and barriers (must equal MonteCarloSampler.E / transitions), (b) runs the exact detailed-balance test on
every jump / reverse-jump pair, (c) checks the structural hypotheses on three samplers of one geometry
(full, clusters only, KRA+TS only).  Direct oracle on the implementation: every occupation of small
supercells (random ones of larger cells), every reported transition: perform it, find the reverse
transition with opposite displacement, compare Q − Q_rev with E_final − E_initial exactly.
A failing table test yields a minimal site set; occupying exactly those sites is tried on the real
sampler as a concrete failing input.
"""
import copy, itertools, os, time, multiprocessing as mp
import numpy as np
from props import _clusterzoo as Z

META = dict(
    id='C34',
    level_text='Kernel-checked: (1) barrier_half_difference — the algebraic statement of the construction (explicit '
               'hypotheses: linear split into cluster and KRA+TS parts, KRA+TS part symmetric under reversal, cluster '
               'part = half the energy difference) ⇒ detailed balance; (2) soundness of the executable table tests: '
               'if dbCheck / dbCheckVac (exact) or structCheck / structCheckVac (the hypotheses of (1)) accept the '
               'exported tables of a sampler then Q_fwd(occ) − Q_rev(occ_final) = E(occ_final) − E(occ) for EVERY '
               'occupation (the moving atom on i and j empty; vacancy variant: sampler rebuilt with the vacancy on j and '
               'the contents of i and j exchanged); (3) the read-out of tables as polynomials equals the sampler\'s '
               'clustercount read-out.  Partial: the construction of the tables from clusters (jumpnetworkevaluator*) is '
               'not modelled; instead its output is checked table by table on every run (all jumps of every generated '
               'sampler), which gives all-occupation coverage per table but not a proof for all geometries.',
    level_note='Trusted: Lean kernel + standard axioms; harness (table export, pairing of each jump with its reverse by '
               '(j,i,−dx)). Not modelled: jumpnetworkevaluator / jumpnetworkevaluator_vacancy loops (their exported '
               'tables are the object of the checks); MonteCarloSampler.update (C33).',
    technique='Lean 4 proof of a polynomial-identity checker (merge by site set, substitution of the moving sites) + '
              'structural theorem; exported tables of real samplers checked by the verified checker; exhaustive '
              'differential oracle over occupations',
    lean_modules=['OnsagerModel.C32', 'OnsagerModel.C34', 'OnsagerProofs.C32', 'OnsagerProofs.C34'],
    theorems=['Onsager.C34.barrier_half_difference', 'Onsager.C34.energy_merge', 'Onsager.C34.isZero_sound',
              'Onsager.C34.mkSampler_WF', 'Onsager.C34.readout',
              'Onsager.C34.dbCheck_sound', 'Onsager.C34.structCheck_sound',
              'Onsager.C34.dbCheckVac_sound', 'Onsager.C34.structCheckVac_sound',
              'Onsager.C34.dbCheck_sound_mk', 'Onsager.C34.dbCheckVac_sound_mk'],
    tie_theorems=[],
    rule='configuration = zoo crystal x supercell x (no vacancy | vacancy on a random site of the jumping species) x '
         'cluster order x integer cluster / KRA / TS values x spectator occupation; plus sampler-reuse histories (start / transitions / '
         'E / deltaE_trial / update in random order on one sampler, each observation against a fresh sampler; transitions '
         'after start(occ) must be exactly the allowed jumps of occ in jump-list order); a case is one (configuration, '
         'occupation); non-trivial = at least one transition reported; supercells small enough that two sites of one '
         'cluster-plus-jump environment are periodic images (wrap) are kept but classified separately',
    trusted=['pairing of jump k with its reverse k\' by (j, i, −dx) in the sampler\'s own jump list',
             'export of MonteCarloSampler tables'],
    assumptions=['integer cluster/TS/KRA values (barriers are half-integers, exactly representable)',
                 'occupations 0/1, −1 exactly on the vacancy'],
)

DRIVER = 'Drive/C34.lean'


# ------------------------------------------------------------------ configuration
def build(spec):
    from onsager import cluster, supercell
    nrng = np.random.default_rng(spec['seed'])
    name, crys, spectator, chem, cut, jcut = next(z for z in Z.zoo() if z[0] == spec['zoo'])
    S = np.array(spec['S'], dtype=int)
    sup = supercell.ClusterSupercell(crys, S, spectator=spectator)
    n = sup.Nmobile * sup.size
    vac = spec.get('vac')
    if vac == 'rand':
        cands = [k for k in range(n) if sup.mobileindices[k % sup.Nmobile][0] == chem]
        vac = int(cands[int(nrng.integers(len(cands)))])
    sup.addvacancy(vac)
    base = cluster.makeclusters(crys, cut, spec['order'])
    jn = crys.jumpnetwork(chem, jcut)
    if vac is None:
        classes = Z.freeze(base)
        TS = Z.freeze(cluster.makeTSclusters(crys, chem, jn, base))
    else:
        vcl = cluster.makeVacancyClusters(crys, chem, base)
        classes = Z.freeze(base) + Z.freeze(vcl)
        TS = Z.freeze(cluster.makeTSclusters(crys, chem, jn, vcl))
    values = nrng.integers(-9, 10, size=len(classes) + 1).astype(float)
    KRA = nrng.integers(-9, 10, size=len(jn)).astype(float)
    TSv = nrng.integers(-9, 10, size=len(TS)).astype(float)
    if spec.get('nots'): TS, TSv = [], np.zeros(0)
    socc = nrng.integers(0, 2, size=sup.Nspec * sup.size)
    wrap = Z.wraps(sup, Z.jump_sitesets(sup, classes, TS, chem, jn))
    return dict(sup=sup, crys=crys, spectator=spectator, S=S, classes=classes, TS=TS, values=values, KRA=KRA, TSv=TSv,
                socc=socc, vac=vac, n=n, chem=chem, jn=jn, nrng=nrng, wrap=wrap)


def make_sampler(c, which='F', vac='same'):
    """which: F full, C clusters only, S KRA+TS only.  vac: 'same' or a site index (fresh supercell)."""
    from onsager import cluster, supercell
    sup = c['sup']
    if vac != 'same':
        sup = supercell.ClusterSupercell(c['crys'], c['S'], spectator=c['spectator'])
        sup.addvacancy(vac)
    values, KRA, TSv = c['values'], c['KRA'], c['TSv']
    if which == 'C': KRA, TSv = 0 * KRA, 0 * TSv
    if which == 'S': values = 0 * values
    return cluster.MonteCarloSampler(sup, c['socc'], c['classes'], values, c['chem'], c['jn'], KRAvalues=KRA,
                                     TSclusters=c['TS'], TSvalues=TSv)


def tab_line(name, MC):
    n = len(MC.Ninteract)
    si = [list(MC.siteinteract[i][:MC.Ninteract[i]]) for i in range(n)] if MC.siteinteract.ndim == 2 else [[] for _ in range(n)]
    js = ';'.join('%d:%d' % (i, j) for (i, j), dx in MC.jumps) if len(MC.jumps) else '-'
    return 'tab %s %d %s %s %d %s %s' % (name, n, Z.show_ll(si), Z.show_fl(MC.interactvalue), MC.Nenergy,
                                         Z.show_l(MC.interactrange), js)


def reverse_pairs(jumps1, jumps2):
    """for every jump k=(i,j,dx) of jumps1 the indices k' of jumps2 with (j,i,−dx)"""
    out = []
    for k, ((i, j), dx) in enumerate(jumps1):
        out.append([m for m, ((a, b), d) in enumerate(jumps2) if a == j and b == i and np.allclose(d, -dx)])
    return out


def eval_line(name, MC, occ, isvac):
    MC.start(occ.copy())
    E = MC.E()
    ijl, Ql, dxl = MC.transitions()
    # identify the reported transitions with jump indices: transitions() keeps the order of MC.jumps
    ks = [k for k, ((i, j), dx) in enumerate(MC.jumps) if isvac or not (occ[i] == 0 or occ[j] == 1)]
    if len(ks) != len(Ql): return None, None     # reported by the reuse-history / allowed-set oracles
    txt = ';'.join('%d:%s' % (k, Z.frac(q)) for k, q in zip(ks, Ql)) if len(ks) else '-'
    return 'eval %s %d %s' % (name, 1 if isvac else 0, Z.show_l(occ)), '%s | %s' % (Z.frac(E), txt)


def allowed_jumps(MC, occ, vac):
    """indices of the jumps transitions() must list for occ, in the documented order (that of MC.jumps)"""
    return [k for k, ((i, j), dx) in enumerate(MC.jumps) if vac is not None or not (occ[i] == 0 or occ[j] == 1)]


def transitions_ok(MC, occ, vac, tr):
    ijl, Ql, dxl = tr
    ks = allowed_jumps(MC, occ, vac)
    return (len(ks) == len(ijl) == len(Ql) == len(dxl) and
            all(tuple(ij) == tuple(MC.jumps[k][0]) and np.allclose(dx, MC.jumps[k][1]) for k, ij, dx in zip(ks, ijl, dxl)))


def all_states(MC, n, vac, occs, viol=None, cls='', pristine=None):
    """start/E/transitions for each occupation on ONE sampler: {bits: (E, {k: Q})}.  The transitions reported after
    start(occ) must be exactly the allowed jumps of occ; if not, that is a violation (replay: the previous and the
    current occupation) and the data for this occupation are taken from a fresh sampler."""
    import copy
    tbl = {}
    prev = None
    for occ in occs:
        MC.start(occ.copy())
        E = float(MC.E())
        tr = MC.transitions()
        if not transitions_ok(MC, occ, vac, tr):
            if viol is not None:
                viol('transitions-stale-after-start:' + cls if prev is not None else 'transitions-not-allowed-set:' + cls,
                     'after start(occ) transitions() lists %r, the allowed jumps of occ are %r'
                     % ([tuple(map(int, x)) for x in tr[0]][:12], [tuple(map(int, MC.jumps[k][0])) for k in allowed_jumps(MC, occ, vac)][:12]),
                     previous_occ=None if prev is None else [int(x) for x in prev], occ=[int(x) for x in occ],
                     history=['start(previous_occ)', 'E()', 'transitions()', 'start(occ)', 'E()', 'transitions()'])
            if pristine is None: raise ArithmeticError('transitions() does not list the allowed jumps')
            MC = copy.deepcopy(pristine)
            MC.start(occ.copy()); E = float(MC.E()); tr = MC.transitions()
            if not transitions_ok(MC, occ, vac, tr): raise ArithmeticError('fresh sampler: transitions() does not list the allowed jumps')
        ks = allowed_jumps(MC, occ, vac)
        tbl[Z.occ_bits(occ)] = (E, dict(zip(ks, (float(q) for q in tr[1]))))
        prev = occ
    return tbl


def reuse_history(MC, pristine, n, vac, nrng, viol, cls, nops=14):
    """One sampler driven through start / transitions / E / deltaE_trial / update in random order; every observation is
    compared with a fresh sampler (a copy of a never-started one) started on the current occupation."""
    import copy
    free = [k for k in range(n) if k != vac]

    def rocc():
        o = np.zeros(n, dtype=int); o[free] = nrng.integers(0, 2, size=len(free))
        if vac is not None: o[vac] = -1
        return o

    def swap(cur):
        on = [k for k in free if cur[k] == 1]; off = [k for k in free if cur[k] == 0]
        if not on or not off: return None
        return int(on[int(nrng.integers(len(on)))]), int(off[int(nrng.integers(len(off)))])
    cur = rocc(); MC.start(cur.copy())
    hist = ['start(%s)' % cur.tolist()]
    nobs = 0
    for _ in range(nops):
        op = ['start', 'transitions', 'transitions', 'E', 'deltaE', 'update'][int(nrng.integers(6))]
        prevop = hist[-1].split('(')[0]
        if op == 'start':
            cur = rocc(); MC.start(cur.copy()); hist.append('start(%s)' % cur.tolist()); continue
        sw = swap(cur)
        if op == 'update':
            if sw is None: continue
            MC.update((sw[1],), (sw[0],)); cur[sw[0]], cur[sw[1]] = 0, 1
            hist.append('update((%d,),(%d,))' % (sw[1], sw[0])); continue
        ref = copy.deepcopy(pristine); ref.start(cur.copy())
        nobs += 1
        if op == 'transitions':
            a, b = MC.transitions(), ref.transitions()
            same = (len(a[0]) == len(b[0]) and all(tuple(x) == tuple(y) for x, y in zip(a[0], b[0])) and
                    list(map(float, a[1])) == list(map(float, b[1])) and np.allclose(a[2], b[2]) if len(a[0]) == len(b[0]) else False)
            hist.append('transitions()')
            if not same or not transitions_ok(MC, cur, vac, a):
                viol(('transitions-stale-after-start:' if prevop in ('start', 'E', 'deltaE_trial') and any(h.startswith('start') for h in hist[-4:-1])
                      else 'reuse-history:transitions-after-%s:' % prevop) + cls,
                     'transitions() of a reused sampler differs from a fresh sampler on the same occupation: %r vs %r'
                     % ([tuple(map(int, x)) for x in a[0]][:10], [tuple(map(int, x)) for x in b[0]][:10]),
                     occ=cur.tolist(), history=list(hist))
                return nobs
        elif op == 'E':
            hist.append('E()')
            if float(MC.E()) != float(ref.E()):
                viol('reuse-history:E-after-%s:%s' % (prevop, cls), 'E() of a reused sampler %r, fresh sampler %r' % (float(MC.E()), float(ref.E())),
                     occ=cur.tolist(), history=list(hist))
                return nobs
        else:
            if sw is None: continue
            hist.append('deltaE_trial((%d,),(%d,))' % (sw[1], sw[0]))
            a, b = float(MC.deltaE_trial((sw[1],), (sw[0],))), float(ref.deltaE_trial((sw[1],), (sw[0],)))
            ref.update((sw[1],), (sw[0],))
            e1 = float(ref.E()); ref.update((sw[0],), (sw[1],)); e0 = float(ref.E())
            if a != b or a != e1 - e0:
                viol('reuse-history:deltaE_trial-after-%s:%s' % (prevop, cls),
                     'deltaE_trial of a reused sampler %r, fresh sampler %r, energy difference %r' % (a, b, e1 - e0),
                     occ=cur.tolist(), history=list(hist))
                return nobs
    return nobs


def _occs(n, vac, nrng, exhaust, nrandom):
    free = [k for k in range(n) if k != vac]
    if len(free) <= exhaust:
        it = itertools.product((0, 1), repeat=len(free)); ex = True
    else:
        it = (tuple(nrng.integers(0, 2, size=len(free))) for _ in range(nrandom)); ex = False
    out = []
    for bits in it:
        occ = np.zeros(n, dtype=int)
        occ[free] = bits
        if vac is not None: occ[vac] = -1
        out.append(occ)
    return out, ex


def eval_config(spec):
    t0 = time.time()
    res = dict(spec=spec, lines=[], expect=[], kind=[], viol=[], nocc=0, ntrans=0, flags=set(), err=None, failk=None)
    try:
        c = build(spec)
    except Exception as e:
        res['err'] = 'build: %r' % (e,)
        return res
    try:
        MCF = make_sampler(c, 'F')
    except Exception as e:
        if c['wrap']:
            # a supercell too small for the cluster expansion may legitimately be refused
            res['err'] = 'rejected-wrap: %r' % (e,)
        else:
            res['err'] = 'raised'
            res['viol'].append(dict(sig='sampler-raises:nowrap:%s' % type(e).__name__,
                                    what='MonteCarloSampler construction raised %r on a valid configuration' % (e,),
                                    replay=dict(spec=spec)))
        return res
    sup, vac, n, nrng, wrap = c['sup'], c['vac'], c['n'], c['nrng'], c['wrap']
    isvac = vac is not None
    res['flags'].add('wrap' if wrap else 'nowrap'); res['flags'].add('vac' if isvac else 'novac')
    cls = '%s:%s' % ('wrap' if wrap else 'nowrap', 'vac' if isvac else 'novac')
    tag = 'c%d' % spec['id']

    def viol(sig, what, **kw):
        if len(res['viol']) < 4:
            res['viol'].append(dict(sig=sig, what=what, replay=dict(spec=spec, socc=[int(x) for x in c['socc']],
                                                                    values=[float(x) for x in c['values']],
                                                                    KRA=[float(x) for x in c['KRA']],
                                                                    TSvalues=[float(x) for x in c['TSv']], **kw)))

    def add(line, expect, kind):
        res['lines'].append(line); res['expect'].append(expect); res['kind'].append(kind)

    if len(MCF.jumps) == 0 or MCF.siteinteract.ndim != 2:
        res['err'] = 'no jumps / no interactions'
        return res
    occs, exhaustive = _occs(n, vac, nrng, spec['exhaust'], spec['nrandom'])
    if exhaustive: res['flags'].add('exhaustive')
    struct = (not wrap) and spec.get('struct', True)
    add(tab_line(tag + 'F', MCF), 'ok %d 1' % len(MCF.jumps), 'tab')
    PF = copy.deepcopy(MCF)      # never started: the source of fresh samplers
    for _ in range(spec.get('nhist', 3)):
        res['nhist'] = res.get('nhist', 0) + reuse_history(copy.deepcopy(PF), PF, n, vac, nrng, viol, cls)
    if not isvac:
        # ---------------- moving atom
        pairs = reverse_pairs(MCF.jumps, MCF.jumps)
        for k, p in enumerate(pairs):
            if len(p) != 1:
                (i, j), dx = MCF.jumps[k]
                viol('reverse-missing:' + cls, 'jump %d (%d->%d, dx=%r) has %d reverse entries in the jump list'
                     % (k, i, j, list(dx), len(p)), jump=k)
        plist = [(k, p[0]) for k, p in enumerate(pairs) if len(p) == 1 and MCF.jumps[k][0][0] != MCF.jumps[k][0][1]]
        badk = set()
        if exhaustive:
            tbl = all_states(MCF, n, vac, occs, viol, cls, PF)
            res['nocc'] = len(occs)
            for occ in occs:
                b = Z.occ_bits(occ)
                E0, Qs = tbl[b]
                for k, Q in Qs.items():
                    (i, j), dx = MCF.jumps[k]
                    if len(pairs[k]) != 1: continue
                    k2 = pairs[k][0]
                    b2 = (b & ~(1 << i)) | (1 << j)
                    E1, Qs2 = tbl[b2]
                    res['ntrans'] += 1
                    if k2 not in Qs2:
                        viol('reverse-not-reported:' + cls, 'after %d->%d the reverse transition is not reported' % (i, j),
                             occ=[int(x) for x in occ], jump=k)
                        continue
                    if (Q - Qs2[k2]) != (E1 - E0):
                        badk.add(k)
                        viol('detailed-balance:' + cls,
                             'Q_fwd − Q_rev = %r but E_final − E_initial = %r for %d->%d' % (Q - Qs2[k2], E1 - E0, i, j),
                             occ=[int(x) for x in occ], jump=[int(i), int(j)], dx=[float(x) for x in dx],
                             Q=Q, Qrev=Qs2[k2], E0=E0, E1=E1)
        else:
            # perform the jumps through update(), as a kinetic Monte Carlo run would
            for occ in occs:
                MCF.start(occ.copy())
                E0 = float(MCF.E())
                ijl, Ql, dxl = MCF.transitions()
                res['nocc'] += 1
                if not transitions_ok(MCF, occ, vac, (ijl, Ql, dxl)):
                    viol('transitions-stale-after-start:' + cls, 'after start(occ) transitions() does not list the allowed jumps of occ',
                         occ=[int(x) for x in occ], history=['…', 'start(occ)', 'E()', 'transitions()'])
                    MCF = copy.deepcopy(PF)
                    continue
                order = list(range(len(ijl)))
                nrng.shuffle(order)
                for t in order[:spec.get('ntrans', 8)]:
                    (i, j), Q, dx = ijl[t], float(Ql[t]), dxl[t]
                    MCF.update((j,), (i,))
                    E1 = float(MCF.E())
                    ij2, Q2, dx2 = MCF.transitions()
                    m = [u for u, ((a, b), d) in enumerate(zip(ij2, dx2)) if a == j and b == i and np.allclose(d, -dx)]
                    res['ntrans'] += 1
                    if len(m) != 1:
                        viol('reverse-not-reported:' + cls, 'after %d->%d: %d reverse transitions reported' % (i, j, len(m)),
                             occ=[int(x) for x in occ], jump=[int(i), int(j)])
                    elif (Q - float(Q2[m[0]])) != (E1 - E0):
                        viol('detailed-balance:' + cls,
                             'Q_fwd − Q_rev = %r but E_final − E_initial = %r for %d->%d' % (Q - float(Q2[m[0]]), E1 - E0, i, j),
                             occ=[int(x) for x in occ], jump=[int(i), int(j)], dx=[float(x) for x in dx],
                             Q=Q, Qrev=float(Q2[m[0]]), E0=E0, E1=E1)
                    MCF.update((i,), (j,))
        # model read-out of the table on a few occupations
        for t in nrng.choice(len(occs), size=min(4, len(occs)), replace=False):
            l, e = eval_line(tag + 'F', copy.deepcopy(PF), occs[int(t)], False)
            if l is not None: add(l, e, 'eval')
        ptxt = ';'.join('%d:%d' % p for p in plist) if plist else '-'
        add('db %sF %s' % (tag, ptxt), sorted(badk) if exhaustive else None, 'db')
        if struct:
            add(tab_line(tag + 'C', make_sampler(c, 'C')), 'ok %d 1' % len(MCF.jumps), 'tab')
            add(tab_line(tag + 'S', make_sampler(c, 'S')), 'ok %d 1' % len(MCF.jumps), 'tab')
            add('dbs %sF %sC %sS %s' % (tag, tag, tag, ptxt), 'ok', 'dbs')
            add('drop %sC' % tag, 'ok', 'drop'); add('drop %sS' % tag, 'ok', 'drop')
        add('drop %sF' % tag, 'ok', 'drop')
    else:
        # ---------------- vacancy: final state lives in a sampler rebuilt with the vacancy on j
        res['nocc'] = len(occs)
        tbl1 = all_states(MCF, n, vac, occs, viol, cls, PF) if exhaustive else None
        byj = {}
        for k, ((i, j), dx) in enumerate(MCF.jumps):
            if i != vac: viol('vacancy-jump-origin:' + cls, 'jump %d starts on %d, vacancy on %d' % (k, i, vac), jump=k)
            byj.setdefault(j, []).append(k)
        for j, ks in byj.items():
            if j == vac: continue     # jump onto its own periodic image: no change of configuration
            MC2 = make_sampler(c, 'F', vac=j)
            pairs = reverse_pairs([MCF.jumps[k] for k in ks], MC2.jumps)
            plist = []
            for k, p in zip(ks, pairs):
                if len(p) != 1:
                    viol('reverse-missing:' + cls, 'jump %d (%d->%d) has %d reverse entries with the vacancy on %d'
                         % (k, vac, j, len(p), j), jump=k)
                else: plist.append((k, p[0]))
            occs2 = []
            for occ in occs:
                o2 = occ.copy(); o2[vac], o2[j] = occ[j], occ[vac]
                occs2.append(o2)
            badk = set()
            sel = range(len(occs)) if exhaustive else range(min(len(occs), spec.get('nvacocc', 12)))
            P2 = copy.deepcopy(MC2)
            tbl2 = all_states(MC2, n, j, [occs2[t] for t in sel], viol, cls, P2)
            if not exhaustive: tbl1s = all_states(MCF, n, vac, [occs[t] for t in sel], viol, cls, PF)
            for t in sel:
                E0, Qs = (tbl1 if exhaustive else tbl1s)[Z.occ_bits(occs[t])]
                E1, Qs2 = tbl2[Z.occ_bits(occs2[t])]
                for k, k2 in plist:
                    res['ntrans'] += 1
                    if k not in Qs or k2 not in Qs2:
                        viol('reverse-not-reported:' + cls, 'transition %d or its reverse not reported' % k,
                             occ=[int(x) for x in occs[t]], jump=k)
                    elif (Qs[k] - Qs2[k2]) != (E1 - E0):
                        badk.add(k)
                        viol('detailed-balance:' + cls,
                             'Q_fwd − Q_rev = %r but E_final − E_initial = %r for vacancy %d<->%d'
                             % (Qs[k] - Qs2[k2], E1 - E0, vac, j),
                             occ=[int(x) for x in occs[t]], jump=[int(vac), int(j)],
                             dx=[float(x) for x in MCF.jumps[k][1]], Q=Qs[k], Qrev=Qs2[k2], E0=E0, E1=E1)
            ptxt = ';'.join('%d:%d' % p for p in plist) if plist else '-'
            add(tab_line(tag + 'G', MC2), 'ok %d 1' % len(MC2.jumps), 'tab')
            l, e = eval_line(tag + 'G', copy.deepcopy(P2), occs2[0], True)
            if l is not None: add(l, e, 'eval')
            add('dbv %sF %sG %s' % (tag, tag, ptxt), sorted(badk) if exhaustive else None, 'dbv:%d' % j)
            if struct and spec.get('vstruct', True):
                if 'C' not in res['flags']:
                    add(tab_line(tag + 'C', make_sampler(c, 'C')), 'ok %d 1' % len(MCF.jumps), 'tab')
                    add(tab_line(tag + 'S', make_sampler(c, 'S')), 'ok %d 1' % len(MCF.jumps), 'tab')
                    res['flags'].add('C')
                add(tab_line(tag + 'D', make_sampler(c, 'C', vac=j)), 'ok %d 1' % len(MC2.jumps), 'tab')
                add(tab_line(tag + 'T', make_sampler(c, 'S', vac=j)), 'ok %d 1' % len(MC2.jumps), 'tab')
                add('dbvs %sF %sC %sS %sG %sD %sT %s' % (tag, tag, tag, tag, tag, tag, ptxt), 'ok', 'dbvs')
                add('drop %sD' % tag, 'ok', 'drop'); add('drop %sT' % tag, 'ok', 'drop')
            add('drop %sG' % tag, 'ok', 'drop')
        res['flags'].discard('C')
        for t in nrng.choice(len(occs), size=min(3, len(occs)), replace=False):
            l, e = eval_line(tag + 'F', copy.deepcopy(PF), occs[int(t)], True)
            if l is not None: add(l, e, 'eval')
        add('drop %sC' % tag, 'ok', 'drop'); add('drop %sS' % tag, 'ok', 'drop'); add('drop %sF' % tag, 'ok', 'drop')
    res['n'] = n
    res['njumps'] = len(MCF.jumps)
    res['ninter'] = len(MCF.interactvalue)
    res['secs'] = time.time() - t0
    res['flags'] = sorted(res['flags'])
    return res


# ------------------------------------------------------------------ witness evaluation (main process)
def _try_witness(ctx, spec, kind, k, wsites):
    """Lean says the table test fails for jump k and proposes to occupy exactly `wsites` (+ the moving atom).
    Evaluate that occupation on the real samplers.  Returns True if it is a concrete violation."""
    c = build(spec)
    MC = make_sampler(c, 'F')
    n, vac = c['n'], c['vac']
    cls = '%s:%s' % ('wrap' if c['wrap'] else 'nowrap', 'vac' if vac is not None else 'novac')
    (i, j), dx = MC.jumps[k]
    occ = np.zeros(n, dtype=int)
    occ[[w for w in wsites if w < n]] = 1
    rep = dict(spec=spec, jump=[int(i), int(j)], dx=[float(x) for x in dx], source='minimal non-zero monomial of the table test')
    if vac is None:
        occ[i], occ[j] = 1, 0
        MC.start(occ.copy()); E0 = float(MC.E())
        ijl, Ql, dxl = MC.transitions()
        m = [u for u, ((a, b), d) in enumerate(zip(ijl, dxl)) if a == i and b == j and np.allclose(d, dx)]
        if len(m) != 1: return False
        Q = float(Ql[m[0]])
        MC.update((j,), (i,)); E1 = float(MC.E())
        ij2, Q2, dx2 = MC.transitions()
        m2 = [u for u, ((a, b), d) in enumerate(zip(ij2, dx2)) if a == j and b == i and np.allclose(d, -dx)]
        if len(m2) != 1:
            ctx.violation('reverse-not-reported:' + cls, 'reverse of %d->%d not reported' % (i, j), dict(rep, occ=occ.tolist()))
            return True
        Qr = float(Q2[m2[0]])
    else:
        occ[vac] = -1
        MC.start(occ.copy()); E0 = float(MC.E())
        ijl, Ql, dxl = MC.transitions()
        Q = float(Ql[k])
        MC2 = make_sampler(c, 'F', vac=j)
        o2 = occ.copy(); o2[vac], o2[j] = occ[j], occ[vac]
        MC2.start(o2.copy()); E1 = float(MC2.E())
        ij2, Q2, dx2 = MC2.transitions()
        m2 = [u for u, ((a, b), d) in enumerate(zip(ij2, dx2)) if a == j and b == i and np.allclose(d, -dx)]
        if len(m2) != 1: return False
        Qr = float(Q2[m2[0]])
    if (Q - Qr) != (E1 - E0):
        ctx.violation('detailed-balance:' + cls,
                      'Q_fwd − Q_rev = %r but E_final − E_initial = %r for %d->%d' % (Q - Qr, E1 - E0, i, j),
                      dict(rep, occ=occ.tolist(), Q=Q, Qrev=Qr, E0=E0, E1=E1))
        return True
    return False


def _parse_fail(ans):
    """'fail k=3 w=1,2; k=5 w=-'  →  {3: [1,2], 5: []}   ;   'fail k=3 sym,half-fwd' → {3: 'sym,half-fwd'}"""
    out = {}
    if not ans.startswith('fail '): return out
    for part in ans[5:].split('; '):
        ws = part.split()
        if not ws or not ws[0].startswith('k='):
            out[-1] = part; continue
        k = int(ws[0][2:])
        if len(ws) > 1 and ws[1].startswith('w='):
            out[k] = [] if ws[1][2:] in ('-', '') else [int(x) for x in ws[1][2:].split(',')]
        else:
            out[k] = ' '.join(ws[1:])
    return out


# ------------------------------------------------------------------ plan
def _sizes():
    out = {}
    for name, crys, spectator, chem, cut, jcut in Z.zoo():
        out[name] = sum(len(crys.basis[c]) for c in range(crys.Nchem) if c not in spectator)
    return out


def _plan(ctx, thorough):
    rng = ctx.rng
    sizes = _sizes()
    specs = []

    def add(zname, S, **kw):
        d = dict(id=len(specs), zoo=zname, S=np.array(S).tolist(), vac=None, seed=rng.getrandbits(32), order=3,
                 exhaust=(10 if thorough else 9), nrandom=(40 if thorough else 10), ntrans=8)
        d.update(kw)
        if d['vac'] is not None and 'exhaust' not in kw: d['exhaust'] = (9 if thorough else 8)
        specs.append(d)

    # (1) cells where nothing wraps and every occupation can be enumerated: layered / chain crystals
    nowrap_small = [('CHAIN', np.diag([5, 1, 1])), ('CHAIN', np.diag([8, 1, 1])), ('CHAIN2', np.diag([4, 1, 1])),
                    ('SQ2d', np.diag([3, 3, 1])), ('TRI2d', np.diag([3, 3, 1])), ('HON2d', np.diag([2, 2, 1])),
                    ('HONs2d', np.diag([2, 2, 1])), ('HONs2d', np.array([[2, 1, 0], [-1, 2, 0], [0, 0, 1]])),
                    ('SQ2d', np.array([[3, 1, 0], [0, 3, 0], [0, 0, 1]])), ('CHAINm', np.diag([5, 1, 1])),
                    ('HONmm2d', np.diag([2, 2, 1])), ('HONm2d', np.diag([3, 3, 1]))]
    if thorough:
        nowrap_small += [('SQ2d', np.diag([4, 3, 1])), ('HON2d', np.diag([3, 2, 1])), ('HONs2d', np.diag([3, 2, 1])),
                         ('CHAIN', np.diag([12, 1, 1])), ('CHAIN2', np.diag([5, 1, 1])), ('CHAIN2', np.diag([6, 1, 1])),
                         ('TRI2d', np.array([[3, 1, 0], [0, 3, 0], [0, 0, 1]])), ('TRI2d', np.diag([4, 3, 1]))]
    for name, S in nowrap_small:
        add(name, S, order=rng.choice([2, 3]), exhaust=12)
        add(name, S, vac='rand', order=rng.choice([2, 3]), exhaust=(11 if thorough else 9))
    # (2) small 3-d cells (wrap regime): kept, classified apart; the first two re-demonstrate the open finding
    add('HCP', np.diag([2, 1, 1]), order=3)
    add('FCC', np.diag([2, 2, 1]), vac='rand', order=3)
    small = Z.supers()
    names = list(sizes)
    nw = 40 if thorough else 10
    for t in range(nw):
        name = names[rng.randrange(len(names))]
        cands = [S for S in small if 2 <= sizes[name] * abs(int(round(np.linalg.det(S)))) <= 9]
        S = cands[rng.randrange(len(cands))]
        add(name, S, vac=('rand' if t % 2 else None), order=rng.choice([2, 3]), nots=(t % 5 == 4))
    # (3a) multi-site crystals whose jumps connect different basis sites across cell boundaries while a lattice vector
    #      lies within the cluster cutoff, in cells large enough not to wrap: sampled occupations through update()
    for name, S in [('HCP', np.diag([3, 3, 2])), ('DIA2', np.diag([3, 3, 3])), ('HONx2d', np.diag([3, 3, 1])),
                    ('HONx2d', np.diag([4, 3, 1]))] + ([('HCP', np.diag([3, 3, 3])), ('DIA2', np.diag([4, 3, 3])),
                                                       ('TRICLm', np.diag([3, 3, 3]))] if thorough else []):
        add(name, S, order=3, exhaust=0, nrandom=(40 if thorough else 12), ntrans=10)
        add(name, S, vac='rand', order=3, exhaust=0, nrandom=(40 if thorough else 12), nvacocc=12, vstruct=False)
    # (3) larger cells: random occupations through update(), table tests cover all occupations
    big = Z.big_supers()
    nb = 40 if thorough else 7
    for t in range(nb):
        name = names[(t * 5 + rng.randrange(3)) % len(names)]
        S = big[rng.randrange(len(big))]
        if sizes[name] * abs(int(round(np.linalg.det(S)))) > (130 if thorough else 30): S = big[0]
        if sizes[name] * 27 > (130 if thorough else 56): S = big[2]
        add(name, S, vac=('rand' if t % 2 else None), order=(2 if name in ('TRICL', 'TRICLm', 'RS', 'B2d', 'HCP') else rng.choice([2, 3])),
            vstruct=(t % 4 == 1))
    return specs


def _run_specs(ctx, specs):
    os.environ.setdefault('OMP_NUM_THREADS', '1')
    nproc = min(8, max(1, (os.cpu_count() or 2) // 2))
    with mp.get_context('fork').Pool(nproc) as pool:
        results = pool.map(eval_config, specs, chunksize=1)
    sessions, owners = [], []
    for r in results:
        if r['err']:
            for v in r['viol']: ctx.violation(v['sig'], v['what'], v['replay'])
            if r['err'].startswith('rejected-wrap') or r['err'].startswith('no jumps'):
                ctx.count('not-applicable:' + r['err'].split(':')[0])
            elif not r['viol']:
                ctx.disagree('configuration could not be evaluated (%s): %r' % (r['err'], r['spec']), dict(spec=r['spec']))
            continue
        fl = r['flags']
        ctx.count('class:' + ('wrap' if 'wrap' in fl else 'nowrap') + ':' + ('vac' if 'vac' in fl else 'novac'))
        if 'exhaustive' in fl: ctx.count('exhaustive-configs')
        ctx.count('zoo:' + r['spec']['zoo']); ctx.count('occupations', r['nocc']); ctx.count('transitions', r['ntrans'])
        ctx.count('reuse-history-observations', r.get('nhist', 0))
        ctx.case((r['spec']['zoo'], r['spec']['S'], r['spec']['vac'], r['spec']['seed']), nontrivial=r['ntrans'] > 0,
                 sample=dict(zoo=r['spec']['zoo'], S=r['spec']['S'], vac=r['spec']['vac'], sites=r['n'], jumps=r['njumps'],
                             interactions=r['ninter'], occupations=r['nocc'], transitions=r['ntrans'], flags=fl))
        ctx.evaluations += max(0, r['ntrans'] - 1)
        for v in r['viol']: ctx.violation(v['sig'], v['what'], v['replay'])
        sessions.append(r['lines']); owners.append(r)
    answers = Z.run_sessions(ctx, 'C34', ['OnsagerModel.Basic', 'OnsagerModel.C32', 'OnsagerModel.C34'], sessions)
    got, expect, lines, kinds, owner = [], [], [], [], []
    for a, r in zip(answers, owners):
        got += a; expect += r['expect']; lines += r['lines']; kinds += r['kind']; owner += [r] * len(a)
    for g, e, l, k, r in zip(got, expect, lines, kinds, owner):
        spec = r['spec']
        wrapcls = 'detailed-balance:%s:%s' % ('wrap' if 'wrap' in r['flags'] else 'nowrap', 'vac' if 'vac' in r['flags'] else 'novac')
        where = '%s %s vac=%s' % (spec['zoo'], spec['S'], spec['vac'])
        if k in ('tab', 'eval', 'drop', 'dbs', 'dbvs'):
            if g != e:
                sig = wrapcls if k in ('dbs', 'dbvs') else None
                ctx.disagree('%s: `%s…`: model `%s` expected `%s` (%s)' % (k, l[:50], g[:200], e[:200], where),
                             dict(spec=spec, line=l[:2000], model=g[:2000], expected=e[:2000]), sig=sig)
            continue
        # db / dbv: exact table test per jump
        fails = _parse_fail(g)
        if g != 'ok' and not fails:
            ctx.disagree('%s: unexpected answer `%s` (%s)' % (k, g[:200], where), dict(spec=spec, line=l[:500], model=g[:500]))
            continue
        ctx.count('table-tests', l.count(':'))
        if e is not None:
            # exhaustive oracle: the verdicts per jump must coincide
            if sorted(fails) != list(e):
                ctx.disagree('%s: table test fails for jumps %r, exhaustive oracle for %r (%s)' % (k, sorted(fails), e, where),
                             dict(spec=spec, model=g[:2000], oracle=e), sig=None)
        else:
            # replay the proposed minimal occupations on the real sampler (a few per table are enough)
            ctx.count('table-test-failures', len(fails))
            for kk, w in list(fails.items())[:3]:
                ctx.count('witness-tried')
                if kk < 0 or not isinstance(w, list) or not _try_witness(ctx, spec, k, kk, w):
                    ctx.disagree('%s: table test fails for jump %d but the proposed occupation %r satisfies detailed balance (%s)'
                                 % (k, kk, w, where), dict(spec=spec, model=g[:2000]), sig=None)


def run(ctx):
    _run_specs(ctx, _plan(ctx, not ctx.quick))


def search(ctx, reasons):
    """Failing-input search: many small and medium cells with the direct oracle (no structural tests)."""
    rng = ctx.rng
    sizes = _sizes()
    names = list(sizes)
    specs = []
    for t in range(60):
        name = names[t % len(names)]
        pool = Z.supers() if t % 3 else Z.big_supers()[:3]
        S = pool[rng.randrange(len(pool))]
        if sizes[name] * abs(int(round(np.linalg.det(S)))) > 60: S = Z.supers()[3]
        specs.append(dict(id=1000 + t, zoo=name, S=np.array(S).tolist(), vac=('rand' if t % 2 else None),
                          seed=rng.getrandbits(32), order=rng.choice([2, 3]), exhaust=8, nrandom=10, ntrans=6, struct=False))
    for t, (name, S) in enumerate([('HCP', np.diag([3, 3, 2])), ('HCP', np.diag([3, 3, 3])), ('DIA2', np.diag([3, 3, 3])),
                                   ('HONx2d', np.diag([4, 3, 1])), ('TRICLm', np.diag([3, 3, 3])), ('RSm', np.diag([3, 3, 3])),
                                   ('HONmm2d', np.diag([3, 3, 1])), ('CHAIN2', np.diag([6, 1, 1]))]):
        for vac in (None, 'rand'):
            specs.append(dict(id=2000 + 2 * t + (vac is not None), zoo=name, S=np.array(S).tolist(), vac=vac,
                              seed=rng.getrandbits(32), order=3, exhaust=0, nrandom=30, ntrans=10, struct=False))
    _run_specs(ctx, specs)


def replay(ctx, data):
    """./check C34 --replay replays/C34_….json : redo the recorded transition on the current tree."""
    rp = data.get('replay') or {}
    if 'spec' in rp and 'history' in rp and 'occ' in rp:
        # reuse history: run it on one sampler, compare the last observation with a fresh sampler
        c = build(rp['spec'])
        MC = make_sampler(c, 'F'); ref = copy.deepcopy(MC)
        hist = list(rp['history'])
        if rp.get('previous_occ') is not None:
            hist = ['start(%s)' % rp['previous_occ'], 'E()', 'transitions()', 'start(%s)' % rp['occ'], 'E()', 'transitions()']
        elif hist and hist[0] == '…':
            hist = ['start(%s)' % rp['occ'], 'E()', 'transitions()']
        out = None
        for h in hist:
            name, arg = h.split('(', 1)
            args = eval('(' + arg[:-1] + ',)') if arg[:-1] else ()
            if name == 'start': out = MC.start(np.array(args[0]))
            else: out = getattr(MC, name)(*args)
            print(h, '->', out if name != 'transitions' else [tuple(map(int, x)) for x in out[0]])
        ref.start(np.array(rp['occ']))
        last = hist[-1].split('(')[0]
        if last == 'transitions':
            fr = ref.transitions()
            print('fresh sampler on', rp['occ'], '->', [tuple(map(int, x)) for x in fr[0]])
            same = len(fr[0]) == len(out[0]) and all(tuple(a) == tuple(b) for a, b in zip(fr[0], out[0])) and \
                list(map(float, fr[1])) == list(map(float, out[1]))
            return 0 if same else 1
        return 0
    if 'spec' not in rp or 'occ' not in rp or not isinstance(rp.get('jump'), list):
        print(data); return 0
    c = build(rp['spec'])
    MC = make_sampler(c, 'F')
    occ = np.array(rp['occ']); i, j = rp['jump']; dx = np.array(rp['dx'])
    print('configuration:', rp['spec'], 'wrap' if c['wrap'] else 'nowrap')
    MC.start(occ.copy()); E0 = float(MC.E())
    Q = [float(q) for (a, b), q, d in zip(*MC.transitions()) if (a, b) == (i, j) and np.allclose(d, dx)]
    if c['vac'] is None:
        MC.update((j,), (i,)); M2 = MC
    else:
        M2 = make_sampler(c, 'F', vac=j)
        o2 = occ.copy(); o2[i], o2[j] = occ[j], occ[i]; M2.start(o2)
    E1 = float(M2.E())
    Qr = [float(q) for (a, b), q, d in zip(*M2.transitions()) if (a, b) == (j, i) and np.allclose(d, -dx)]
    print('occupation', occ.tolist(), 'transition %d->%d dx=%s' % (i, j, dx.tolist()))
    print('now     : Q=%r Qrev=%r E_initial=%r E_final=%r' % (Q, Qr, E0, E1))
    print('recorded: Q=%r Qrev=%r E_initial=%r E_final=%r' % (rp.get('Q'), rp.get('Qrev'), rp.get('E0'), rp.get('E1')))
    if len(Q) != 1 or len(Qr) != 1: return 1
    return 1 if (Q[0] - Qr[0]) != (E1 - E0) else 0
