"""
C06 — Tracer limit: solute identical to host gives exact tracer identities.

Lean: OnsagerProofs/C06.lean `tracer_data_is_host` (model of maketracerpreene), OnsagerProofs/Chain.lean
(0 <= Lss, reciprocity).  Tie: (a) maketracerpreene vs the model; (b) the identities Lsv = -L0vv, L1vv = 0, Lss <= L0vv
verified EXACTLY (rationals) on finite periodic chains with tracer data by the exact chain model; (c) the same identities
on VacancyMediated.Lij at Green-function accuracy, with non-uniform vacancy energies per Wyckoff set and per-class barriers.
"""
import math
from fractions import Fraction
import numpy as np
import vacancy_common as vc
import oracle_chain as oc
from interstitial_common import fr

META = dict(
    id='C06',
    lean_modules=['OnsagerModel.C06', 'OnsagerProofs.C06', 'OnsagerModel.Chain', 'OnsagerProofs.Chain', 'OnsagerProofs.Lemmas.Cover',
                  'OnsagerProofs.Lemmas.Tracer', 'OnsagerModel.ChainTracer', 'OnsagerProofs.ChainTracer'],
    theorems=['Onsager.C06.tracer_data_is_host', 'Onsager.Chain.coeff_diag_nonneg', 'Onsager.Chain.formOf_symm',
              'Onsager.Chain.coeff_diag_eq_Qmin', 'Onsager.Var.mixed_cover', 'Onsager.Var.tracer_cross',
              'Onsager.Chain.tracer_vv', 'Onsager.Chain.tracer_sv'],
    tie_theorems=[],
    level_text='Partial. Kernel-checked: the tracer data generator copies the host jump data class by class (model tied to '
               'maketracerpreene by correspondence); for every finite chain Lss >= 0 and reciprocity holds; for EVERY finite tagged-atom '
               'chain that covers the lone-vacancy chain (decidable hypotheses checkVV/checkSV, decided by the driver on the chains built '
               'from the implementation tables) Lsv = -L0vv and L1vv = 0 hold exactly in every tensor component (tracer_sv, tracer_vv). '
               'Lss <= L0vv is not proved for all chains: verified exactly in rational arithmetic on the finite chains. All three '
               'identities are checked at Green-function accuracy on the implementation (thermodynamic limit not in the model).',
    level_note='Trusted: Lean kernel + standard axioms; harness/oracle_chain.py chain construction; Green-function numerics outside the model.',
    technique='Lean 4 covering/class-sum theorems for tagged-atom chains + model of the tracer generator + oracle on Lij',
    rule='vacancy calculators (single and two Wyckoff sets, 2-D/3-D, origin states) x Nthermo 1 (2 thorough) x random vacancy '
         'prefactors/energies per Wyckoff set and per omega0 class; non-trivial = non-uniform vacancy data; distinct by (calculator, data)',
    trusted=[], assumptions=[],
)


def _tie_generator(ctx, name, calc):
    rng = ctx.rng
    N0 = len(calc.om0_jn)
    pre = [Fraction(rng.randint(1, 40), 8) for _ in range(N0)]; ene = [Fraction(rng.randint(-20, 40), 8) for _ in range(N0)]
    d = calc.maketracerpreene(preT0=np.array([float(x) for x in pre]), eneT0=np.array([float(x) for x in ene]))
    line = '%d %d | %s | %s | %s | %s' % (len(calc.sitelist), calc.thermo.Nstars, ','.join(map(str, calc.om1_jt)) or '-',
                                          ','.join(map(str, calc.om2_jt)) or '-', ','.join(fr(x) for x in pre), ','.join(fr(x) for x in ene))
    ans = ctx.lean('Drive/C06.lean', [line])[0]
    impl = ' | '.join((','.join(fr(Fraction(float(x)).limit_denominator(10 ** 6)) for x in d[k]) or '-')
                      for k in ('preS', 'eneS', 'preSV', 'eneSV', 'preT1', 'eneT1', 'preT2', 'eneT2'))
    ctx.case(('gen', name, line), nontrivial=True, sample=dict(calculator=name, request=line[:160]))
    ctx.count('generator:' + name)
    if ans != impl:
        ctx.disagree('maketracerpreene differs from the model', dict(calculator=name, request=line, model=ans, impl=impl))
    # direct statement
    for j, jt in enumerate(calc.om1_jt):
        if d['preT1'][j] != float(pre[jt]) or d['eneT1'][j] != float(ene[jt]):
            ctx.violation('tracer-data:omega1', 'tracer omega1 data differ from the host jump data', dict(calculator=name, cls=j)); break
    for j, jt in enumerate(calc.om2_jt):
        if d['preT2'][j] != float(pre[jt]) or d['eneT2'][j] != float(ene[jt]):
            ctx.violation('tracer-data:omega2', 'tracer omega2 data differ from the host jump data', dict(calculator=name, cls=j)); break


def _exact_tracer(rng, calc, q=Fraction(3, 2)):
    NW, Nth, N0 = len(calc.sitelist), calc.thermo.Nstars, len(calc.om0_jn)
    d = dict(preV=[Fraction(rng.randint(4, 16), 8) for _ in range(NW)], eneV=[rng.randint(-2, 2) for _ in range(NW)],
             preT0=[Fraction(rng.randint(4, 16), 8) for _ in range(N0)], eneT0=[rng.randint(2, 5) for _ in range(N0)],
             preS=[Fraction(1)] * NW, eneS=[0] * NW, preSV=[Fraction(1)] * Nth, eneSV=[0] * Nth)
    d['preT1'] = [d['preT0'][jt] for jt in calc.om1_jt]; d['eneT1'] = [d['eneT0'][jt] for jt in calc.om1_jt]
    d['preT2'] = [d['preT0'][jt] for jt in calc.om2_jt]; d['eneT2'] = [d['eneT0'][jt] for jt in calc.om2_jt]
    return q, d


def _rat_tensor(part, dim):
    return [[Fraction(x) for x in part.strip().split(',')][a * dim:(a + 1) * dim] for a in range(dim)]


def exact_identities(ctx):
    cases = [('sq2d', 5), ('honey2d', 5), ('rect2d-2site', 5)] if ctx.quick else \
            [('sq2d', 5), ('tri2d', 5), ('honey2d', 5), ('rect2d-2site', 5), ('oblique2d', 5), ('fcc', 5), ('bcc', 5), ('twoW', 3)]
    lines, meta, tlines = [], [], []
    for name, n in cases:
        calc = vc.calculator(name, 1)
        q, d = _exact_tracer(ctx.rng, calc)
        try:
            ch = oc.chain_transitions(calc, oc.activities_exact(q, d), n)
        except ValueError as e:
            ctx.note('chain %s n=%d skipped: %s' % (name, n, e)); continue
        lines.append(oc.lean_request(ch, calc.crys)); lines.append(oc.lean_lone_request(ch, calc.crys))
        meta.append((name, n, calc, d, ch))
        # hypotheses of tracer_vv / tracer_sv: forget the tagged atom (state -> vacancy site), fibres of size M - 1
        alive = np.where(ch['alive'])[0]
        proj = [int((x // ch['ncell']) % ch['N']) for x in alive]
        tlines.append('%s ; %d # %s # %s' % (','.join(map(str, proj)), ch['ncell'] * ch['N'] - 1, oc.lean_request(ch, calc.crys, with_cert=False), lines[-1]))
    answers = ctx.lean('Drive/Chain.lean', lines, timeout=3000)
    tanswers = ctx.lean('Drive/ChainTracer.lean', tlines, timeout=3000)
    for k, (name, n, calc, d, ch) in enumerate(meta):
        dim, N = calc.crys.dim, calc.N
        a, b = answers[2 * k], answers[2 * k + 1]
        rep = dict(calculator=name, n=n, data={kk: [str(x) for x in v] for kk, v in d.items()})
        ctx.case(('exact-tracer', name, n, str(d)), nontrivial=True, sample=dict(rep, states=int(ch['alive'].sum())))
        ctx.count('exact-tracer:' + name)
        if not (a.startswith('ok ') and b.startswith('ok ')):
            ctx.disagree('exact chain model rejects the tracer chain: %s / %s' % (a[:30], b[:30]), rep); continue
        pss, psv, pvv = [_rat_tensor(p, dim) for p in a[3:].split('|')]
        lvv = _rat_tensor(b[3:].split('|')[2], dim)
        M1 = ch['ncell'] * N - 1
        ok_sv = all(psv[i][j] == -lvv[i][j] for i in range(dim) for j in range(dim))
        ok_vv = all(pvv[i][j] == M1 * lvv[i][j] for i in range(dim) for j in range(dim))
        L = calc.crys.lattice
        ss = L @ np.array([[float(x) for x in r] for r in pss]) @ L.T
        l0 = L @ np.array([[float(x) for x in r] for r in lvv]) @ L.T
        sc = np.abs(l0).max()
        ok_b = np.linalg.eigvalsh(ss).min() >= -1e-12 * sc and np.linalg.eigvalsh(l0 - ss).min() >= -1e-12 * sc
        ctx.count('tracercheck:' + tanswers[k])
        if tanswers[k] != 'vv=1 sv=1':
            ctx.disagree('the tagged-atom chain built from the implementation tables does not satisfy the hypotheses of tracer_vv / tracer_sv '
                         '(covering of the lone-vacancy chain, class sums): %s' % tanswers[k], rep)
        elif not (ok_sv and ok_vv):
            ctx.disagree('exact model contradicts tracer_vv / tracer_sv although their hypotheses were accepted', rep)
        if not (ok_sv and ok_vv and ok_b):
            ctx.disagree('exact finite chain with tracer data violates a tracer identity (Lsv=-L0vv: %s, L1vv=0: %s, 0<=Lss<=L0vv: %s): '
                         'chain construction or property suspect' % (ok_sv, ok_vv, ok_b), rep)


def code_identities(ctx):
    names = ['sq2d', 'fcc', 'honey2d', 'rect2d-2site', 'twoW', 'omegaR', 'omegaI'] if ctx.quick else \
            ['sq2d', 'tri2d', 'honey2d', 'oblique2d', 'rect2d-2site', 'fcc', 'bcc', 'sc', 'hcp', 'rumpled', 'twoW', 'omegaR', 'omegaI', 'triclinic']
    for name in names:
        for nth in ((1,) if ctx.quick else (1, 2)):
            if nth == 2 and name in ('hcp', 'rumpled', 'twoW', 'omegaR', 'omegaI', 'triclinic'): continue
            calc, calc6 = vc.calculator(name, nth, 4), vc.calculator(name, nth, 6)
            if nth == 1: _tie_generator(ctx, name, calc)
            dprev = None
            for t in range((3 if ctx.quick else 6) + (2 if len(calc.sitelist) > 1 else 0)):
                d = vc.rand_data(ctx.rng, calc, spread=(1.0 if t % 2 == 0 else 3.0), tracer=True)
                repeat = len(calc.sitelist) > 1 and dprev is not None and t % 2 == 1
                if repeat:
                    # same calculator, same omega0 data, only the energy of a non-minimum vacancy Wyckoff set changed
                    # (inputs that differ in one field only: nothing cached from the previous call may leak)
                    d = {k: np.array(v, copy=True) for k, v in dprev.items()}
                    bFV = d['eneV'] - np.log(d['preV'])
                    w = int(np.argmax(bFV))
                    d['eneV'][w] += ctx.rng.choice([0.3, 0.9, 1.7])
                    d.update(calc.maketracerpreene(preT0=d['preT0'], eneT0=d['eneT0']))
                dprev = d
                kT = (1.0, 0.4, 2.5)[t % 3]      # the tracer identities hold at every temperature
                if repeat: kT = kTprev
                kTprev = kT
                bf = calc.preene2betafree(kT, **d)
                L0vv, Lss, Lsv, L1vv = calc.Lij(*bf); M = calc6.Lij(*bf)
                sc = max(np.abs(L0vv).max(), 1e-300)
                tol = 1e-7 * sc + 5 * max(np.abs(np.asarray(x) - np.asarray(y)).max() for x, y in zip((L0vv, Lss, Lsv, L1vv), M))
                rep = dict(calculator=name, nthermo=nth, kT=kT, data=vc.jsonable(d), L0vv=np.asarray(L0vv).tolist(), Lss=np.asarray(Lss).tolist(),
                           Lsv=np.asarray(Lsv).tolist(), L1vv=np.asarray(L1vv).tolist(), tol=float(tol))
                ctx.case(('code', name, nth, t, str(d['eneT0'])), nontrivial=bool(len(set(np.round(d['eneT0'], 6))) > 1 or len(calc.sitelist) > 1),
                         sample=dict(calculator=name, nthermo=nth, max_Lsv_plus_L0vv=float(np.abs(Lsv + L0vv).max()), max_L1vv=float(np.abs(L1vv).max())))
                ctx.count('code:%s:N%d' % (name, nth))
                ostag = 'originstates' if len(calc.OSindices) > 0 else 'no-originstates'
                if np.abs(Lsv + L0vv).max() > tol:
                    ctx.violation('tracer:Lsv:%s:%s' % (ostag, name), 'tracer: Lsv + L0vv = %.3g (tol %.3g) on %s' % (np.abs(Lsv + L0vv).max(), tol, name), rep)
                if np.abs(L1vv).max() > tol:
                    ctx.violation('tracer:L1vv:%s:%s' % (ostag, name), 'tracer: vacancy correction L1vv = %.3g (tol %.3g) on %s' % (np.abs(L1vv).max(), tol, name), rep)
                if np.linalg.eigvalsh(0.5 * (Lss + Lss.T)).min() < -tol or np.linalg.eigvalsh(0.5 * ((L0vv - Lss) + (L0vv - Lss).T)).min() < -tol:
                    ctx.violation('tracer:Lss-bounds:%s:%s' % (ostag, name), 'tracer: Lss not between 0 and L0vv on %s' % name, rep)


def run(ctx):
    exact_identities(ctx)
    code_identities(ctx)


def search(ctx, reasons):
    pass
