"""
C02 — Interstitial diffusivity equals the exact long-time diffusivity; GFCrystalcalc reports the same D.

Lean: OnsagerProofs/Lemmas/Variational.lean (variational form, any ordered field) and OnsagerProofs/C02.lean
(the exact rational model returns Q at a global minimiser).  Tie: Interstitial.diffusivity (symmetrised rates,
vector-basis projection, solve / pinv) and GFCrystalcalc.D are compared with the exact model on the same network
(dx in lattice coordinates, energies n*ln q), at tol_lin scaled by the rate spread.
"""
import math
import numpy as np
import interstitial_common as ic

META = dict(
    id='C02',
    lean_modules=['OnsagerProofs.Lemmas.Variational', 'OnsagerModel.C02', 'OnsagerProofs.C02', 'OnsagerProofs.C02Alg'],
    theorems=['Onsager.Var.cross_zero', 'Onsager.Var.Q_split', 'Onsager.Var.Q_min', 'Onsager.Var.Q_stationary_eq',
              'Onsager.Var.Q_stationary_unique', 'Onsager.C02.solve_sound', 'Onsager.C02.component_eq_Qmin',
              'Onsager.C02.value_indep_of_solution', 'Onsager.C02.correction_nonpos', 'Onsager.C02.form_eq_Qmin',
              'Onsager.C02Alg.symm_to_stationary', 'Onsager.C02Alg.code_value_eq_Qmin'],
    tie_theorems=[],
    level_text='Kernel-checked: for every finite reversible network over any ordered field the stationary value D0 - sum xi_i B_i '
               'is the global minimum of the Green-Kubo/variational functional (the definition of the exact diffusivity), is '
               'independent of which solution of the (singular) rate equation is used, and the executable exact model returns '
               'exactly that value (its Gauss-Jordan result is certified by a decidable stationarity check). The code\'s own algorithm is '
               'covered by code_value_eq_Qmin: D0 + bias.gamma is the global minimum whenever gamma solves the symmetrised equation in '
               'full site space; that residual is measured on every case (certificate), so solve/pinv and the vector basis are not '
               'trusted. GFCrystalcalc.D and the floating-point evaluation are tied by correspondence on generated networks.',
    level_note='Trusted: Lean kernel + standard axioms; identification of "exact long-time diffusivity" with min Q (DESIGN.md 2); '
               'rationalisation of jump vectors in lattice coordinates; numpy/scipy solve and pinv are modelled as certificates.',
    technique='Lean 4 variational theorem + certified exact rational model + differential comparison with Interstitial.diffusivity and GFCrystalcalc.D',
    rule='zoo of 12 interstitial networks (FCC/BCC/HCP/SC/zincblende/triclinic/2-D; with and without vector basis and '
         'inversion) x random rational prefactors and integer energies in units of ln q; non-trivial = the correlation '
         'correction is non-zero or several Wyckoff sets/jump classes; distinct by (network, data)',
    trusted=['identification of the exact diffusivity with the minimum of the variational functional'],
    assumptions=['jump networks list every jump with its reverse in the same class (checked by the model on every input)'],
)

DRIVER = 'Drive/C02.lean'


def _tol(scale, data):
    return 1e-9 * scale + 1e-13 * scale * min(ic.rate_spread(data), 1e9)


def certificate(diffuser, args):
    """Site-space certificate for OnsagerProofs/C02Alg.lean: the gamma the code solves for (in the span of its vector
    basis), lifted to site space, must satisfy omega.gamma = bias component by component.  Returns (residual, D0+bias.gamma)."""
    pre, be, preT, beT = args
    N, dim = diffuser.N, diffuser.dim
    rho = diffuser.siteprob(pre, be); sq = np.sqrt(rho)
    omega = np.zeros((N, N)); bias = np.zeros((N, dim)); D0 = np.zeros((dim, dim))
    for cls, rates, srates in zip(diffuser.jumpnetwork, diffuser.ratelist(*args), diffuser.symmratelist(*args)):
        for ((i, j), dx), rate, sr in zip(cls, rates, srates):
            omega[i, j] += sr; omega[i, i] -= rate; bias[i] += sq[i] * rate * dx; D0 += 0.5 * np.outer(dx, dx) * rho[i] * rate
    gamma = np.zeros((N, dim))
    if diffuser.NV > 0:
        VB = diffuser.VectorBasis
        om_v = np.array([[np.tensordot(va, omega @ vb, ((0, 1), (0, 1))) for vb in VB] for va in VB])
        b_v = np.array([np.tensordot(bias, va, ((0, 1), (0, 1))) for va in VB])
        g_v = diffuser.bias_solver(om_v, b_v)
        gamma = sum(g * va for g, va in zip(g_v, VB))
    return np.abs(omega @ gamma - bias).max(), D0 + bias.T @ gamma, np.abs(bias).max()


def build_cases(ctx, ncases, emax):
    from onsager import OnsagerCalc
    cases = []
    nets = ic.networks()
    for t in range(ncases):
        name, crys, chem, sl, jn = nets[t % len(nets)]
        key = ('diff', name)
        if key not in ic._CACHE:
            ic._CACHE[key] = (OnsagerCalc.Interstitial(crys, chem, sl, jn), ic.lattice_jumps(crys, jn))
        diffuser, ljumps = ic._CACHE[key]
        data = ic.rand_data(ctx.rng, len(sl), len(jn), emax=emax)
        cases.append((name, crys, chem, sl, jn, diffuser, ljumps, data))
    return cases


def OnsagerCalc_Interstitial(*a):
    from onsager import OnsagerCalc
    return OnsagerCalc.Interstitial(*a)


def run(ctx):
    emax = 4 if ctx.quick else 12
    cases = build_cases(ctx, 60 if ctx.quick else 1500, emax)
    lines = [ic.request_line(c[5].N, c[1].dim, c[5].invmap, c[6], c[7]) for c in cases]
    answers = ctx.lean(DRIVER, lines, timeout=3000)
    gfdone = set()
    for (name, crys, chem, sl, jn, diffuser, ljumps, data), line, ans in zip(cases, lines, answers):
        args = ic.py_args(data)
        rep = dict(network=name, data={k: [str(x) for x in v] if isinstance(v, list) else str(v) for k, v in data.items()})
        try:
            Dpy = diffuser.diffusivity(*args)
        except Exception as e:
            ctx.violation('diffusivity-raises:%s' % type(e).__name__, 'Interstitial.diffusivity raised %r on a valid network' % (e,), rep)
            continue
        parsed = ic.parse_answer(ans, crys.dim)
        if parsed is None:
            ctx.disagree('exact model rejects the network/data (%s) that the implementation accepts' % ans, dict(rep, request=line))
            continue
        Dl, rho, D0l = parsed
        L = crys.lattice
        Dm = L @ Dl @ L.T
        D0m = L @ D0l @ L.T
        scale = max(np.abs(D0m).max(), 1e-300)
        tol = _tol(scale, data)
        nontriv = np.abs(Dm - D0m).max() > 1e-6 * scale or len(sl) > 1 or len(jn) > 1
        ctx.case((name, line), nontrivial=bool(nontriv),
                 sample=dict(network=name, request=line[:200], D_model=Dm.tolist(), D_impl=np.asarray(Dpy).tolist()))
        ctx.count('net:' + name); ctx.count('branch:' + ('solve' if diffuser.omega_invertible else 'pinv') + (':NV>0' if diffuser.NV else ':NV=0'))
        if np.abs(Dm - D0m).max() > 1e-6 * scale: ctx.count('correlated')
        res, Dcert, bscale = certificate(diffuser, args)
        ctx.count('certificate-checked')
        if res > 1e-9 * max(bscale, np.sqrt(scale)) + tol or np.abs(Dcert - np.asarray(Dpy)).max() > tol:
            ctx.disagree('site-space certificate fails: |omega.gamma - bias| = %.3g, |D0+bias.gamma - D| = %.3g (hypothesis of code_value_eq_Qmin)'
                         % (res, np.abs(Dcert - np.asarray(Dpy)).max()), dict(rep, residual=float(res)))
        err = np.abs(np.asarray(Dpy) - Dm).max()
        if not (err <= tol):
            # decide whose side the truth is on with the independent float oracle
            Dor = ic.numpy_oracle(diffuser, crys, jn, *args)
            rep2 = dict(rep, D_impl=np.asarray(Dpy).tolist(), D_model=Dm.tolist(), D_oracle=Dor.tolist(), err=float(err), tol=float(tol))
            if np.abs(Dor - Dm).max() <= tol:
                ctx.violation('diffusivity-mismatch:%s' % name, 'Interstitial.diffusivity differs from the exact long-time diffusivity by %.3g (tol %.3g)' % (err, tol), rep2)
            else:
                ctx.disagree('exact model and float oracle differ (%g): model or rationalisation suspect' % np.abs(Dor - Dm).max(), rep2)
        # site probabilities
        rpy = diffuser.siteprob(args[0], args[1])
        if np.abs(rpy - np.array([float(x) for x in rho])).max() > 1e-12:
            ctx.violation('siteprob-mismatch', 'siteprob differs from the exact Boltzmann probabilities', dict(rep, impl=rpy.tolist(), model=[str(x) for x in rho]))
        # Green-function calculator reports the same diffusivity (once per network in quick, more in thorough)
        if (name not in gfdone) or (not ctx.quick and ctx.rng.random() < 0.05):
            gfdone.add(name)
            from onsager import GFcalc
            key = ('gf', name)
            if key not in ic._CACHE:
                ic._CACHE[key] = GFcalc.GFCrystalcalc(crys, chem, sl, jn, Nmax=4)
            gf = ic._CACHE[key]
            try:
                gf.SetRates(*args)
                Dgf = np.array(gf.D)
            except Exception as e:
                ctx.violation('gf-raises:%s:%s' % (type(e).__name__, name), 'GFCrystalcalc.SetRates raised %r' % (e,), rep)
                continue
            ctx.count('gf-compared')
            if len(sl) > 1:
                # the site list is an argument: the same Wyckoff sets listed in another order (data reordered with them)
                perm = list(range(len(sl)))[::-1] if len(sl) == 2 else ctx.rng.sample(range(len(sl)), len(sl))
                slp = [sl[k] for k in perm]
                argsp = ([args[0][k] for k in perm], [args[1][k] for k in perm], args[2], args[3])
                keyp = ('gfperm', name, tuple(perm))
                try:
                    if keyp not in ic._CACHE:
                        ic._CACHE[keyp] = (GFcalc.GFCrystalcalc(crys, chem, slp, jn, Nmax=4), OnsagerCalc_Interstitial(crys, chem, slp, jn))
                    gfp, dip = ic._CACHE[keyp]
                    gfp.SetRates(*argsp)
                    Dgfp = np.array(gfp.D); Dip = np.asarray(dip.diffusivity(*argsp))
                except Exception as e:
                    ctx.violation('sitelist-order-raises:%s:%s' % (type(e).__name__, name), 'calculator raised %r with the Wyckoff sets listed in the order %s' % (e, perm), rep)
                else:
                    ctx.count('sitelist-order-compared')
                    for lab, Dx in (('GFCrystalcalc.D', Dgfp), ('Interstitial.diffusivity', Dip)):
                        if not (np.abs(Dx - Dm).max() <= tol):
                            ctx.violation('sitelist-order:%s:%s' % (lab.split('.')[0], name), '%s with the Wyckoff sets of the site list in the order %s (data reordered accordingly) differs from the '
                                          'exact diffusivity by %.3g (tol %.3g)' % (lab, perm, np.abs(Dx - Dm).max(), tol), dict(rep, order=perm, D=Dx.tolist(), D_model=Dm.tolist()))
            egf = np.abs(Dgf - Dm).max()
            if not (egf <= tol):
                ctx.violation('gf-D-mismatch:%s' % name, 'GFCrystalcalc.D differs from the exact diffusivity by %.3g (tol %.3g)' % (egf, tol),
                              dict(rep, D_gf=Dgf.tolist(), D_model=Dm.tolist(), D_impl=np.asarray(Dpy).tolist()))
    special_networks(ctx)
    stiff_stream(ctx)


def _stiff_nets():
    """extra low-symmetry multi-site networks without inversion (pinv branch with a site vector basis)"""
    from onsager import crystal
    if 'stiffnets' not in ic._CACHE:
        res = []
        p1 = crystal.Crystal(np.eye(2), [[np.array([0., 0.]), np.array([.4, 0.]), np.array([.15, .45])]], chemistry=['I'])
        res.append(('p1-3site-2d', p1, 0, 0.75))
        p1b = crystal.Crystal(np.array([[1., .25], [0., 1.2]]), [[np.array([0., 0.]), np.array([.375, .125]), np.array([.5, .625]), np.array([.125, .75])]], chemistry=['I'])
        res.append(('p1-4site-2d', p1b, 0, 0.7))
        pm = crystal.Crystal(np.diag([1., 1.25, .8]), [[np.array([0., 0., 0.]), np.array([.375, .25, 0.]), np.array([.125, .625, .5])]], chemistry=['I'])
        res.append(('low-3site-3d', pm, 0, 0.85))
        res.append(('ortho-1site', crystal.Crystal(np.diag([1., 1.125, .875]), [[np.zeros(3)]], chemistry=['I']), 0, 1.15))
        res.append(('rect-1site-2d', crystal.Crystal(np.diag([1., 1.25]), [[np.zeros(2)]], chemistry=['I']), 0, 1.3))
        out = []
        for name, crys, chem, cutoff in res:
            jn = crys.jumpnetwork(chem, cutoff)
            if len(jn) >= 2: out.append((name, crys, chem, crys.sitelist(chem), jn))
        ic._CACHE['stiffnets'] = out
    return ic._CACHE['stiffnets']


def _site_space(diffuser, args):
    pre, be, preT, beT = args
    N, dim = diffuser.N, diffuser.dim
    rho = diffuser.siteprob(pre, be); sq = np.sqrt(rho)
    omega = np.zeros((N, N)); bias = np.zeros((N, dim)); gross = np.zeros(N); bgross = []
    for cls, rates, srates in zip(diffuser.jumpnetwork, diffuser.ratelist(*args), diffuser.symmratelist(*args)):
        for ((i, j), dx), rate, sr in zip(cls, rates, srates):
            omega[i, j] += sr; omega[i, i] -= rate; bias[i] += sq[i] * rate * dx
            gross[i] += abs(sr) + abs(rate); bgross.append((i, sq[i] * rate * np.asarray(dx)))
    return omega, bias, gross.max(), bgross


def stiff_stream(ctx):
    """Widely separated rates (ratios 1e8 .. 1e12, i.e. barrier differences of 19 - 28 kT): some jump classes are made slow, preferably so
    that a direction is carried by slow, biased jumps only.  The comparison is resolved by eigen-direction u of the exact tensor, with an
    a-posteriori forward error bound of the float computation along u:
        |u.(D - D_exact).u| <= 1e-9 u.D0.u + 100 eps (kappa |b_u| |gamma_u| + R |gamma_u|^2 + B_u |gamma_u|)
    (kappa = condition number of the rate matrix on the complement of its null vector, b_u / gamma_u = bias and relaxation vectors along u,
    R / B_u = sums of the absolute values of the terms assembled into a row of the rate matrix / into the bias along u: cancellation error):
    where the fast jumps do not contribute along u the implementation must resolve the slow diffusivity."""
    from onsager import OnsagerCalc
    rng = ctx.rng
    allnets = [n for n in ic.networks() if len(n[4]) >= 2] + _stiff_nets()
    for name, crys, chem, sl, jn in allnets:
        key = ('diff', name)
        if key not in ic._CACHE:
            ic._CACHE[key] = (OnsagerCalc.Interstitial(crys, chem, sl, jn), ic.lattice_jumps(crys, jn))
    pinvnets = [n for n in allnets if not ic._CACHE[('diff', n[0])][0].omega_invertible]
    ncase = 70 if ctx.quick else 700
    plan, lines = [], []
    for t in range(ncase):
        pool = pinvnets if (t % 5 != 4 and pinvnets) else allnets
        name, crys, chem, sl, jn = pool[(t // 5 * 4 + t % 5) % len(pool)] if pool is pinvnets else pool[(t // 5) % len(pool)]
        diffuser, ljumps = ic._CACHE[('diff', name)]
        data = ic.rand_data(rng, len(sl), len(jn), emax=2)
        # slow subsets that leave some direction carried by slow jumps only (all of them, enumerated once per network)
        dkey = ('deficient', name)
        if dkey not in ic._CACHE:
            import itertools
            dl = []
            ncl = len(jn)
            subsets = itertools.chain.from_iterable(itertools.combinations(range(ncl), r) for r in range(1, ncl)) if ncl <= 10 else []
            for sub in subsets:
                G = sum((np.outer(dx, dx) for k, cls in enumerate(jn) if k not in sub for (ij, dx) in cls), np.zeros((crys.dim, crys.dim)))
                ev = np.linalg.eigvalsh(G)
                if ev.min() < 1e-9 * max(ev.max(), 1e-300): dl.append(list(sub))
            ic._CACHE[dkey] = dl
        dl = ic._CACHE[dkey]
        if dl and rng.random() < 0.8:
            slow, deficient = rng.choice(dl), True
        else:
            slow = sorted(rng.sample(range(len(jn)), rng.randint(1, len(jn) - 1)))
            deficient = slow in dl
        # (3/2)^46 = 1.3e8 ... (3/2)^68 = 9.5e11; one case in five far beyond (barrier differences of 40 - 80 kT)
        shift = rng.randint(100, 200) if (t % 5 == 3 or (t % 5 == 4 and (t // 5) % 2 == 0)) else rng.randint(46, 68)
        data['eneT'] = [e + (shift if k in slow else 0) for k, e in enumerate(data['eneT'])]
        plan.append((name, crys, sl, jn, diffuser, data, slow, shift, deficient))
        lines.append(ic.request_line(diffuser.N, crys.dim, diffuser.invmap, ljumps, data))
    answers = ctx.lean(DRIVER, lines, timeout=3000)
    eps = np.finfo(float).eps
    for (name, crys, sl, jn, diffuser, data, slow, shift, deficient), line, ans in zip(plan, lines, answers):
        args = ic.py_args(data)
        rep = dict(network=name, slow_classes=slow, shift=shift, data={k: [str(x) for x in v] if isinstance(v, list) else str(v) for k, v in data.items()})
        parsed = ic.parse_answer(ans, crys.dim)
        if parsed is None:
            ctx.disagree('exact model rejects the stiff network/data (%s)' % ans, dict(rep, request=line)); continue
        try:
            Dpy = np.asarray(diffuser.diffusivity(*args))
        except Exception as e:
            if shift > 80 and type(e).__name__ == 'LinAlgError':
                # rate ratios beyond 1e14: the projected rate matrix is singular in double precision; refusing is legitimate
                ctx.count('stiff:refused-singular-beyond-1e14'); continue
            ctx.violation('diffusivity-raises:%s' % type(e).__name__, 'Interstitial.diffusivity raised %r on widely separated rates' % (e,), rep); continue
        L = crys.lattice
        Dm = L @ parsed[0] @ L.T; D0m = L @ parsed[2] @ L.T
        lam, U = np.linalg.eigh(Dm)
        omega, bias, Rgross, bgross = _site_space(diffuser, args)
        w, V = np.linalg.eigh(0.5 * (omega + omega.T))
        order = np.argsort(np.abs(w)); w, V = w[order], V[:, order]
        single = len(w) < 2          # one site per cell: no relaxation modes, D = D0
        if not single and abs(w[1]) < 1e-14 * abs(w[-1]):
            if not (diffuser.NV == 0):
                ctx.count('stiff:skipped-unresolvable'); continue        # a relaxation mode slower than float resolution of the rate matrix
            single = True            # no site vector basis: the rate matrix is never inverted
        kappa = 1.0 if single else abs(w[-1]) / abs(w[1])
        ctx.case(('stiff', name, line), nontrivial=True, sample=dict(network=name, slow_classes=slow, shift=shift, eig_model=lam.tolist()))
        ctx.count('stiff:' + ('solve' if diffuser.omega_invertible else 'pinv') + (':NV>0' if diffuser.NV else ':NV=0'))
        if deficient: ctx.count('stiff:direction-carried-by-slow-jumps-only')
        for k in range(crys.dim):
            u = U[:, k]
            s_k = float(u @ D0m @ u)
            b_u = bias @ u
            g_u = np.zeros_like(b_u) if single else V[:, 1:] @ ((V[:, 1:].T @ b_u) / w[1:])
            Bg = np.zeros(diffuser.N)
            for i, v in bgross: Bg[i] += abs(float(v @ u))
            ng = float(np.linalg.norm(g_u))
            # solve error + assembly (cancellation) errors of the rate matrix and of the bias vector
            tol = 1e-9 * s_k + 100 * eps * (kappa * float(np.linalg.norm(b_u)) * ng + Rgross * ng * ng + float(np.linalg.norm(Bg)) * ng)
            # roundoff-lifted null modes of the assembled rate matrix that the pseudo-inverse keeps (fast self-image jumps added and
            # subtracted on the diagonal): measured <= 3e-7 relative over ~1000 stiff cases; allow 1e-5 of the value along u
            tol += 1e-5 * abs(float(u @ Dm @ u))
            err = abs(float(u @ Dpy @ u) - float(u @ Dm @ u))
            if tol < 1e-3 * abs(float(u @ Dm @ u)): ctx.count('stiff:direction-resolved-to-1e-3')
            if not (err <= tol):
                Dor = ic.numpy_oracle(diffuser, crys, jn, *args)
                rep2 = dict(rep, direction=u.tolist(), D_impl=Dpy.tolist(), D_model=Dm.tolist(), D_oracle=Dor.tolist(), err=float(err), tol=float(tol), kappa=float(kappa))
                ctx.violation('diffusivity-mismatch:stiff:%s' % name, 'along the eigen-direction %s of the exact tensor (value %.6g) Interstitial.diffusivity gives %.6g: '
                              'relative error %.3g (float error bound %.3g) with rate ratios %.1e' % (np.round(u, 4).tolist(), float(u @ Dm @ u), float(u @ Dpy @ u),
                                                                                               err / max(abs(float(u @ Dm @ u)), 1e-300), tol / max(abs(float(u @ Dm @ u)), 1e-300), 1.5 ** shift), rep2)
                break


def special_networks(ctx):
    """Hand-constructible inputs the API accepts: symmetry-closed sub-networks (the docstring says the lists
    'can also be editted or constructed by hand'), including disconnected ones."""
    from onsager import OnsagerCalc, crystal
    sc = crystal.Crystal(np.eye(3), [np.zeros(3)], chemistry=['A'])
    for pos, nm in ((np.array([.2, .2, .2]), 'sc-xxx'), (np.array([.3, 0., 0.]), 'sc-x00')):
        crys = sc.addbasis(sc.Wyckoffpos(pos), chemistry=['I'])
        sl = crys.sitelist(1)
        full = crys.jumpnetwork(1, 1.01)
        # keep only classes of i->i jumps: a symmetry-closed but disconnected network
        sub = [cls for cls in full if all(i == j for (i, j), dx in cls)]
        if not sub: continue
        name = nm + '-selfjumps'
        data = ic.rand_data(ctx.rng, len(sl), len(sub), emax=2)
        args = ic.py_args(data)
        try:
            diffuser = OnsagerCalc.Interstitial(crys, 1, sl, sub)
            ljumps = ic.lattice_jumps(crys, sub)
            line = ic.request_line(diffuser.N, 3, diffuser.invmap, ljumps, data)
            ans = ctx.lean(DRIVER, [line])[0]
            parsed = ic.parse_answer(ans, 3)
            Dm = crys.lattice @ parsed[0] @ crys.lattice.T
            ctx.case((name, line), nontrivial=True)
            ctx.count('special:disconnected')
            Dpy = diffuser.diffusivity(*args)
            if np.abs(Dpy - Dm).max() > 1e-9 * np.abs(Dm).max():
                ctx.violation('diffusivity-mismatch:disconnected', 'disconnected network: wrong diffusivity',
                              dict(network=name, D_impl=Dpy.tolist(), D_model=Dm.tolist()))
        except Exception as e:
            ctx.violation('diffusivity-raises:%s:disconnected' % type(e).__name__,
                          'Interstitial.diffusivity raised %r on a symmetry-closed disconnected network (%s: only the i->i jump classes); '
                          'the exact diffusivity exists (model: %s)' % (e, name, 'n/a' if 'Dm' not in dir() else np.round(Dm, 6).tolist()),
                          dict(network=name, data={k: str(v) for k, v in data.items()}))


def search(ctx, reasons):
    """Proof/obligation broke: look for a concrete failing input with the independent float oracle only."""
    from onsager import OnsagerCalc
    for (name, crys, chem, sl, jn, diffuser, ljumps, data) in build_cases(ctx, 400, 8):
        args = ic.py_args(data)
        Dpy = diffuser.diffusivity(*args)
        Dor = ic.numpy_oracle(diffuser, crys, jn, *args)
        scale = np.abs(Dor).max()
        if np.abs(Dpy - Dor).max() > _tol(scale, data) * 10:
            ctx.violation('diffusivity-mismatch:%s' % name, 'differs from dense site-space solution',
                          dict(network=name, data={k: str(v) for k, v in data.items()}, D_impl=Dpy.tolist(), D_oracle=Dor.tolist()))
