"""
C10 — The lattice Green function solves the diffusion equation (onsager/GFcalc.py: GFCrystalcalc).

Lean (OnsagerProofs/C10.lean, C10Alg.lean, C10Check.lean): for ANY linear averaging functional the k-space
construction G = Avg[w(q)^-1 e^{-iq.x}] has lattice-equation defect Avg[(w Ginv - 1)_ij e^{-iq.x}] (so an exact inverse
plus the character property gives the delta; the plain mesh sum solves the periodic problem up to the P/N projector; the
pole-split calculator's defect is exactly the quadrature defect of the smooth part); translation structure (solution for
the origin source => right inverse for every finitely supported source); scaling / symmetry / Hermiticity / group
covariance of the inverse; invariance of the symmetrised inverse transform; Schur block inverse; soundness of the exact
residual checker that the harness runs on the implementation's own G values.

Tie: (a) exact: the model's group-ring w (rational symmetrised rates, escape rates, jump vectors in lattice coordinates)
is evaluated at the calculator's own k-points and compared with GFCrystalcalc.symmrate / escape / omega_qij / maxrate;
(b) verified residual checker: Python's G(i,j,dx) on the stencil of every test point (exact rationals of the floats) is
fed to Lean, which computes the residual exactly and decides |r| <= tol_GF.  (c) direct numpy oracles on the
implementation: residual, endpoint swap, space-group invariance, 1/lambda scaling, 3-D far-field pole.
"""
import math, os, sys, time, traceback, copy
for _v in ('OMP_NUM_THREADS', 'OPENBLAS_NUM_THREADS', 'MKL_NUM_THREADS'):
    os.environ.setdefault(_v, '1')     # many single-threaded workers instead of oversubscribed BLAS pools
from fractions import Fraction
import numpy as np
import interstitial_common as ic
import vacancy_common as vc

META = dict(
    id='C10',
    lean_modules=['OnsagerModel.C10', 'OnsagerProofs.C10', 'OnsagerProofs.C10Alg', 'OnsagerProofs.C10Check', 'OnsagerProofs.C10Ex'],
    theorems=['Onsager.C10.avg_residual', 'Onsager.C10.avg_inverse_solves', 'Onsager.C10.avg_residual_right',
              'Onsager.C10.avg_inverse_solves_right', 'Onsager.C10.pole_split_residual', 'Onsager.C10.pole_split_identity',
              'Onsager.C10.mesh_avg_char', 'Onsager.C10.mesh_G_solves_mod_period',
              'Onsager.C10.op_translate', 'Onsager.C10.solves_everywhere', 'Onsager.C10.superposition',
              'Onsager.C10.G_scale', 'Onsager.C10.G_symm', 'Onsager.C10.G_herm', 'Onsager.C10.G_group_invariant',
              'Onsager.C10.G_group_covariant', 'Onsager.C10.symmetrised_invariant', 'Onsager.C10.symmetrised_solves',
              'Onsager.C10.block_inverse_taylor',
              'Onsager.C10.residual_spec', 'Onsager.C10.residualOK_sound', 'Onsager.C10.residual_scale',
              'Onsager.C10.C10_partial'],
    tie_theorems=[],
    level_text='PARTIAL. Kernel-checked for every finite network, field/ring and averaging functional: the Fourier-space '
               'construction of the Green function solves the lattice equation exactly when the inverse is exact and the '
               'average reproduces the Kronecker delta on lattice harmonics, and in general its defect IS the average of '
               '(w*Ginv - 1) e^{-iq.x} (mesh sums: periodic problem with the P/N projector at q=0; pole-split calculator: '
               'quadrature defect of the smooth part); a solution for the origin source is a right inverse for every finitely '
               'supported source; 1/lambda scaling, endpoint-swap symmetry, group covariance of the inverse and invariance of '
               'the symmetrised transform; Schur block inverse used by BlockInvertOmegaTaylor; soundness of the exact residual '
               'checker. NOT proved (named runtime behaviour, covered only by the residual checker and numpy oracles on generated '
               'inputs): the analytic inverse transforms Fnl_u (hyp1f1/expi/gamma), the 2-D logarithmic branch, the far-field '
               'pole, Brillouin-zone quadrature accuracy, the Taylor truncation and rotation (PowerExpansion), the choice of pmax.',
    level_note='Trusted: Lean kernel + standard axioms; rationalisation of floats (exact) and of jump vectors (snapped to lattice '
               'rationals with a checked residual); tol_GF = 5|G(Nmax=4) - G(Nmax=6)| summed over the stencil with the rate '
               'weights, floor 1e-7; identification of the symmetrised lattice equation with "the diffusion equation".',
    technique='Lean 4 algebraic theorems (group-ring / linear functional) + verified exact residual checker on the '
              "implementation's G values + exact group-ring tie of omega_qij + numpy oracles",
    rule='networks: 12 interstitial networks (FCC/BCC/HCP/SC/zincblende/triclinic/2-D), 11 vacancy crystals, symmetry-closed '
         'disconnected sub-networks, random low-symmetry 2-D/3-D crystals, re-descriptions of the zoo crystals by unimodular basis changes '
         '(det +1 and -1, noreduce=True) and rigidly rotated copies (generic Euler angles); every data set is re-evaluated with all rates scaled by 1e-9 ... 1e9 (prefactors or barrier shift); data: perfect-square prefactors and energies in units '
         'of ln(3/2) (exact rational symmetrised rates) and generic floats; points: all-zero separation, random separations '
         'within 2 cells, separations at a quarter of the k-mesh period; a case = (network, data, point, oracle); non-trivial = '
         'several sites or non-uniform rates or non-zero separation',
    trusted=['scipy.special hyp1f1/expi/gamma and numpy.linalg inv/eigh inside the calculator (exercised, not modelled)'],
    assumptions=['rates of different jump classes differ by at most ~1e5 (qh^(4 emax), emax <= 7): beyond an anisotropy of ~1e7 of D the calculator refuses with "Problem isotropizing D?"',
                 'every connected component of the jump network percolates in all dimensions (diffusivity positive definite)',
                 'jump classes list every jump with its reverse and join sites of one unordered Wyckoff pair (checked by the model)'],
)

DRIVER = 'Drive/C10.lean'
QH = Fraction(3, 2)
FLOOR = 1e-7
NETS = []          # filled in the parent before the worker pool forks
ROTS = {}          # network name -> rotation matrix of a rigidly rotated copy (x_here = Rot x_orig)
_GF = {}           # per-process calculator cache


# ------------------------------------------------------------------ networks
def _components(jn, N):
    comp = list(range(N))

    def find(a):
        while comp[a] != a: a = comp[a]
        return a
    for cls in jn:
        for (i, j), dx in cls:
            a, b = find(i), find(j)
            if a != b: comp[max(a, b)] = min(a, b)
    return [find(i) for i in range(N)]


def percolates(crys, chem, jn):
    """every connected component's cycle lattice has full rank (=> D positive definite for positive rates)"""
    N = len(crys.basis[chem]); comp = _components(jn, N)
    inv = crys.invlatt
    edges = [(i, j, np.round(inv @ dx - (crys.basis[chem][j] - crys.basis[chem][i])).astype(int))
             for cls in jn for (i, j), dx in cls]
    for root in set(comp):
        t = {root: np.zeros(crys.dim, dtype=int)}
        changed = True
        while changed:
            changed = False
            for i, j, R in edges:
                if i in t and j not in t: t[j] = t[i] + R; changed = True
        cyc = [t[i] + R - t[j] for i, j, R in edges if i in t]
        if not cyc or np.linalg.matrix_rank(np.array(cyc), tol=1e-6) < crys.dim: return False
    return True


def _rand_crystal(rng, dim):
    from onsager import crystal
    while True:
        L = np.eye(dim) + np.array([[rng.choice([0, 0, .1, .2, .3, -.2, .5]) if a != b else rng.choice([0, .1, .3, .5])
                                     for b in range(dim)] for a in range(dim)])
        if rng.random() < 0.3:
            L = np.diag([1, rng.choice([1, 1.2, 1.5])] + ([rng.choice([1, 0.8, 1.6])] if dim == 3 else []))
        if abs(np.linalg.det(L)) > 0.5: break
    ns = rng.choice([1, 2, 2, 3])
    pos = []
    while len(pos) < ns:
        p = np.array([rng.randrange(8) / 8 for _ in range(dim)])
        if all(np.linalg.norm(L @ ((p - q + .5) % 1 - .5)) > 0.3 for q in pos): pos.append(p)
    if ns > 1 and rng.random() < 0.4:
        k = rng.randrange(1, ns); basis = [pos[:k], pos[k:]]
    else:
        basis = [pos]
    return crystal.Crystal(L, basis)


def redescribe(crys, M):
    """the same crystal with primitive vectors L.M (M integer, det +-1), description kept as given"""
    from onsager import crystal
    Mi = np.round(np.linalg.inv(M)).astype(int)
    basis = [[(Mi @ u) % 1.0 for u in b] for b in crys.basis]
    return crystal.Crystal(crys.lattice @ M, basis, chemistry=crys.chemistry, noreduce=True)


def _rotation(rng, dim):
    """proper rotation with generic angles (no axis stays aligned)"""
    if dim == 2:
        a = rng.uniform(0.3, 1.2)
        return np.array([[math.cos(a), -math.sin(a)], [math.sin(a), math.cos(a)]])
    a, b, c = rng.uniform(0.3, 1.2), rng.uniform(0.4, 1.1), rng.uniform(0.3, 1.2)
    Rz = lambda t: np.array([[math.cos(t), -math.sin(t), 0.], [math.sin(t), math.cos(t), 0.], [0., 0., 1.]])
    Ry = np.array([[math.cos(b), 0., math.sin(b)], [0., 1., 0.], [-math.sin(b), 0., math.cos(b)]])
    return Rz(a) @ Ry @ Rz(c)


def _unimodular(rng, dim, n):
    """n integer matrices with determinant +-1: the first always has det -1 (left-handed set)"""
    res = []
    while len(res) < n:
        perm = list(range(dim)); rng.shuffle(perm)
        M = np.zeros((dim, dim), dtype=int)
        for a, b in enumerate(perm): M[b, a] = rng.choice([1, 1, -1])
        if rng.random() < 0.5:      # shear
            a, b = rng.sample(range(dim), 2)
            S = np.eye(dim, dtype=int); S[a, b] = rng.choice([1, -1]); M = M @ S
        det = int(round(np.linalg.det(M)))
        if not res and det != -1: continue
        if np.array_equal(M, np.eye(dim, dtype=int)): continue
        res.append(M)
    return res


def build_networks(ctx):
    """[(name, crys, chem, sitelist, jumpnetwork, tags)]"""
    from onsager import crystal
    out = []
    cutoffs = {'int:' + z[0]: z[3] for z in ic.zoo()}
    for name, crys, chem, sl, jn in ic.networks():
        out.append(('int:' + name, crys, chem, sl, jn, set()))
    for nm, (crys, chem, cut) in vc.crystals().items():
        cutoffs['vac:' + nm] = cut
        out.append(('vac:' + nm, crys, chem, crys.sitelist(chem), crys.jumpnetwork(chem, cut), set()))
    nbase = len(out)
    # symmetry-closed disconnected sub-networks (lists "can also be editted or constructed by hand")
    sc = crystal.Crystal(np.eye(3), [np.zeros(3)], chemistry=['A'])
    for pos, nm in ((np.array([.2, .2, .2]), 'sc-xxx'), (np.array([.3, 0., 0.]), 'sc-x00')):
        crys = sc.addbasis(sc.Wyckoffpos(pos), chemistry=['I'])
        sl = crys.sitelist(1)
        sub = [cls for cls in crys.jumpnetwork(1, 1.01) if all(i == j for (i, j), dx in cls)]
        out.append(('disc:' + nm + '-self', crys, 1, sl, sub, {'disconnected'}))
    fcc = crystal.Crystal.FCC(1.0, chemistry='Ni')
    c2 = fcc.addbasis(fcc.Wyckoffpos(np.array([.5, .5, .5])) + fcc.Wyckoffpos(np.array([.25, .25, .25])), chemistry=['O'])
    sl = c2.sitelist(1)
    sub = [cls for cls in c2.jumpnetwork(1, 0.75) if any(cls[0][0][0] in s and cls[0][0][1] in s for s in sl)]
    out.append(('disc:fcc-oo+tt', c2, 1, sl, sub, {'disconnected'}))
    sq = crystal.Crystal(np.eye(2), [[np.zeros(2)], [np.array([.5, .5]), np.array([.5, 0.]), np.array([0., .5])]], chemistry=['A', 'i'])
    sl = sq.sitelist(1)
    sub = [cls for cls in sq.jumpnetwork(1, 1.01) if any(cls[0][0][0] in s and cls[0][0][1] in s for s in sl)]
    out.append(('disc:sq2d-oo+ee', sq, 1, sl, sub, {'disconnected'}))
    # fixed crystal without any point symmetry (no inversion): the k-sum is not real by symmetry
    lat = np.array([[0.0, 1.0, 0.0], [0.0, 0.0, 1.0], [0.8, 0.0, 0.0]])
    c1 = crystal.Crystal(lat, [[np.array([0.375, 0.875, 0.75])], [np.array([0.5, 0.125, 0.0]), np.array([0.25, 0.5, 0.125])]])
    out.append(('lowsym:p1-2site', c1, 1, c1.sitelist(1), c1.jumpnetwork(1, 1.0), {'cutoff=1'}))
    # fast zig-zag channels weakly coupled to each other: strongly anisotropic D, axes not along reciprocal vectors
    lat = np.array([[1., -0.2], [0.1, 1.3]])
    c3 = crystal.Crystal(lat, [[np.array([.375, .375]), np.array([.625, .625])]])
    jn3 = c3.jumpnetwork(0, 1.2)
    slow = [k for k, cls in enumerate(jn3) if abs(np.linalg.norm(cls[0][1]) - 0.403) < 0.01 or cls[0][0][0] == cls[0][0][1]]
    out.append(('aniso:zigzag2d', c3, 0, c3.sitelist(0), jn3, {'cutoff=1.2', 'slow=' + ','.join(map(str, slow))}))
    # re-descriptions of the same crystals: other primitive vectors (unimodular change of basis, det +1 AND -1, i.e.
    # also left-handed sets), kept as given (noreduce=True).  Every oracle applies unchanged, and the Green function
    # must agree with the original description at the same physical separation.
    cheap = ['vac:fcc', 'vac:hcp', 'int:hcp-self', 'int:square2d-int', 'vac:tri2d', 'vac:rumpled', 'int:oblique2d-2site',
             'vac:bcc', 'int:fcc-oct+tet', 'vac:rect2d-2site', 'int:honeycomb2d-self', 'vac:triclinic']
    base = [o[0] for o in out[:nbase]]
    chosen = ctx.rng.sample(cheap, 3) if ctx.quick else base
    for nm in chosen:
        idx0 = base.index(nm)
        _, crys, chem, sl, jn, _t = out[idx0]
        for M in _unimodular(ctx.rng, crys.dim, 1 if ctx.quick else 2):
            try:
                c2 = redescribe(crys, M)
                jn2 = c2.jumpnetwork(chem, cutoffs[nm])
                sl2 = c2.sitelist(chem)
            except Exception as e:
                ctx.note('re-description of %s with M=%s not built: %r' % (nm, M.tolist(), e)); continue
            if sorted(len(c) for c in jn2) != sorted(len(c) for c in jn) or len(sl2) != len(sl):
                # jump-network completeness on skewed cells is C21's property, not this one
                ctx.note('re-description of %s with M=%s has a different jump network; skipped' % (nm, M.tolist())); continue
            det = int(round(np.linalg.det(M)))
            out.append(('redesc:%s:%s' % (nm, ''.join(str(int(x)) for x in M.flatten()).replace('-', 'm')), c2, chem, sl2, jn2,
                        {'orig=%d' % idx0, 'det=%+d' % det, 'M=' + str(M.tolist()), 'cutoff=%g' % cutoffs[nm], 'noreduce'}))
    # rigidly rotated copies (generic Euler angles): only the Cartesian frame changes
    rot_cheap = ['vac:fcc', 'vac:sc', 'vac:hcp', 'int:hcp-self', 'vac:rumpled', 'int:fcc-oct+tet', 'vac:bcc', 'int:square2d-int',
                 'vac:tri2d', 'int:oblique2d-2site', 'int:fcc-oct', 'int:sc-xxx']
    chosen = ctx.rng.sample([n for n in rot_cheap if out[base.index(n)][1].dim == 3], 2) + ctx.rng.sample(rot_cheap, 1) if ctx.quick else base
    for nm in dict.fromkeys(chosen):
        idx0 = base.index(nm)
        _, crys, chem, sl, jn, _t = out[idx0]
        Rot = _rotation(ctx.rng, crys.dim)
        try:
            c2 = crystal.Crystal(Rot @ crys.lattice, crys.basis, chemistry=crys.chemistry, noreduce=True)
            jn2 = c2.jumpnetwork(chem, cutoffs[nm]); sl2 = c2.sitelist(chem)
        except Exception as e:
            ctx.note('rotated copy of %s not built: %r' % (nm, e)); continue
        if sorted(len(c) for c in jn2) != sorted(len(c) for c in jn) or len(sl2) != len(sl) or len(c2.G) != len(crys.G):
            ctx.note('rotated copy of %s has a different group/jump network (%d vs %d operations); skipped' % (nm, len(c2.G), len(crys.G))); continue
        rname = 'rot:%s' % nm
        ROTS[rname] = Rot
        out.append((rname, c2, chem, sl2, jn2, {'orig=%d' % idx0, 'rotation=' + str(np.round(Rot, 6).tolist()), 'cutoff=%g' % cutoffs[nm], 'noreduce'}))
    # random low-symmetry crystals
    nrand = 2 if ctx.quick else 40
    tries = 0
    while sum(1 for o in out if o[0].startswith('rand:')) < nrand and tries < 20 * nrand:
        tries += 1
        dim = ctx.rng.choice([2, 3])
        crys = _rand_crystal(ctx.rng, dim)
        chem = ctx.rng.randrange(len(crys.basis))
        sl = crys.sitelist(chem)
        for c in (0.8, 1.0, 1.2, 1.5, 1.8):
            jn = crys.jumpnetwork(chem, c)
            if len(jn) > 0 and len(set(_components(jn, len(crys.basis[chem])))) == 1 and percolates(crys, chem, jn):
                if sum(len(cl) for cl in jn) <= 40:
                    out.append(('rand:%d' % tries, crys, chem, sl, jn, {'random', 'cutoff=%g' % c}))
                break
    return out


# ------------------------------------------------------------------ data
def rand_square_data(rng, nw, nj, emax):
    """prefactors are squares, site energies even multiples of ln qh: symmetrised rates are exact rationals"""
    spre = [Fraction(rng.randint(2, 12), 4) for _ in range(nw)]
    ene = [rng.randint(-emax, emax) for _ in range(nw)]
    preT = [Fraction(rng.randint(1, 24), 8) for _ in range(nj)]
    if rng.random() < 0.7:
        eneT = [2 * max(ene) + rng.randint(0, 2 * emax) for _ in range(nj)]
    else:
        eneT = [rng.randint(-emax, 3 * emax) for _ in range(nj)]
    return dict(spre=spre, ene=ene, preT=preT, eneT=eneT)


def square_args(d):
    lq = math.log(float(QH))
    return ([float(s * s) for s in d['spre']], [2 * e * lq for e in d['ene']],
            [float(p) for p in d['preT']], [e * lq for e in d['eneT']])


def rand_generic_args(rng, nw, nj, spread):
    pre = [math.exp(rng.uniform(-0.7, 0.7)) for _ in range(nw)]
    be = [rng.uniform(-spread, spread) for _ in range(nw)]
    preT = [math.exp(rng.uniform(-0.7, 0.7)) for _ in range(nj)]
    beT = [max(be) + rng.uniform(0, 1.5 * spread + 0.1) for _ in range(nj)]
    return (pre, be, preT, beT)


def fr(x):
    return ic.fr(x)


def net_line(N, dim, invmap, ljumps, d):
    cls = [':'.join('%d,%d,%s' % (i, j, ','.join(fr(x) for x in dx)) for i, j, dx in c) if c else '_' for c in ljumps]
    return '%d %d %s | %s | %s | %s | %s | %s | %s' % (
        N, dim, fr(QH), ','.join(map(str, invmap)), ','.join(fr(s) for s in d['spre']),
        ','.join(str(e) for e in d['ene']), ','.join(fr(p) for p in d['preT']), ','.join(str(e) for e in d['eneT']),
        ';'.join(cls))


# ------------------------------------------------------------------ the worker
def float_rates(invmap, jn, args):
    """independent float evaluation of symmetrised rates / escape (the numpy oracle's operator)"""
    pre, be, preT, beT = args
    sym = []
    for c, pT, bT in zip(jn, preT, beT):
        w0, w1 = invmap[c[0][0][0]], invmap[c[0][0][1]]
        sym.append(pT * math.exp(0.5 * be[w0] + 0.5 * be[w1] - bT) / math.sqrt(pre[w0] * pre[w1]))
    esc = np.zeros(len(invmap))
    for c, pT, bT in zip(jn, preT, beT):
        for (i, j), dx in c:
            esc[i] -= pT * math.exp(be[invmap[i]] - bT) / pre[invmap[i]]
    return sym, esc


def _calc(idx, nmax, tag=''):
    from onsager import GFcalc
    key = (idx, nmax, tag)
    if key not in _GF:
        name, crys, chem, sl, jn, tags = NETS[idx]
        if tag and (idx, nmax, '') in _GF:
            _GF[key] = copy.deepcopy(_GF[(idx, nmax, '')])      # same topology; rates are set independently
        else:
            _GF[key] = GFcalc.GFCrystalcalc(crys, chem, sl, jn, Nmax=nmax)
    return _GF[key]


def work(task):
    """One network, several data sets.  Returns plain records (the parent replays them into ctx)."""
    import random, warnings
    warnings.simplefilter('ignore')
    idx, seed, nsq, ngen, emax, npts, python_only = task
    rng = random.Random(seed)
    name, crys, chem, sl, jn, tags = NETS[idx]
    rec = dict(name=name, idx=idx, violations=[], cases=[], counts={}, lean=[], notes=[], disagree=[])

    def count(k, n=1): rec['counts'][k] = rec['counts'].get(k, 0) + n

    def viol(sig, what, replay): rec['violations'].append((sig, what, replay))
    dim = crys.dim
    N = len(crys.basis[chem])
    try:
        ljumps = ic.lattice_jumps(crys, jn)
        ubasis = [[ic.snap(c) for c in u] for u in crys.basis[chem]]
    except ValueError as e:
        rec['notes'].append('%s: coordinates not rational (%s); skipped' % (name, e)); return rec
    try:
        gf4, gf6, gfs = _calc(idx, 4), _calc(idx, 6), _calc(idx, 4, 's')
    except Exception as e:
        viol('init-raises:%s:%s' % (type(e).__name__, name), 'GFCrystalcalc(...) raised %r' % (e,), dict(network=name))
        return rec
    invmap = [int(x) for x in gf4.invmap]
    Ndiff = gf4.Ndiff
    desc = dict(network=name, lattice=crys.lattice.tolist(), basis=[[list(map(float, u)) for u in b] for b in crys.basis], chem=chem,
                jumpnetwork=[[[int(i), int(j), [str(x) for x in dx]] for i, j, dx in c] for c in ljumps] if sum(len(c) for c in ljumps) <= 60 else 'crys.jumpnetwork',
                Nmax=4, tags=sorted(tags))
    datasets = [('square', rand_square_data(rng, len(sl), len(jn), emax)) for _ in range(nsq)] + \
               [('generic', None) for _ in range(ngen)]
    slowcls = [int(x) for t in tags if t.startswith('slow=') for x in t[5:].split(',') if x != '']
    prev_args = None
    for kind, sq in datasets:
        if kind == 'square':
            for k in slowcls: sq['preT'][k] = sq['preT'][k] / 10
            if slowcls: sq['eneT'] = [sq['eneT'][0]] * len(sq['eneT'])     # controlled anisotropy: only the 1/10 coupling
            args = square_args(sq)
            datarep = dict(kind='square', qh=str(QH), spre=[str(x) for x in sq['spre']], ene=sq['ene'], preT=[str(x) for x in sq['preT']], eneT=sq['eneT'])
        elif kind == 'generic' and prev_args is not None and rng.random() < 0.35:
            # same calculator, consecutive call in which ONLY the site prefactors change (call-history sensitivity)
            args = ([p * rng.choice([0.25, 0.5, 2.0, 3.0]) for p in prev_args[0]], list(prev_args[1]), list(prev_args[2]), list(prev_args[3]))
            datarep = dict(kind='generic:pre-only-change', pre=args[0], betaene=args[1], preT=args[2], betaeneT=args[3])
            count('pre-only-change')
        else:
            args = rand_generic_args(rng, len(sl), len(jn), rng.choice([0.0, 0.5, 1.5, 3.0]))
            for k in slowcls: args[2][k] = args[2][k] / 10
            if slowcls: args = (args[0], args[1], args[2], [args[3][0]] * len(args[3]))
            datarep = dict(kind='generic', pre=args[0], betaene=args[1], preT=args[2], betaeneT=args[3])
        prev_args = args
        rep0 = dict(desc, data=datarep)
        try:
            gf4.SetRates(*args); gf6.SetRates(*args)
        except Exception as e:
            aniso = Ndiff > 1 and isinstance(e, ArithmeticError) and 'isotropizing' in str(e)
            sig = 'setrates-raises:ArithmeticError:disconnected-anisotropic' if aniso else \
                'setrates-raises:%s:%s' % (type(e).__name__, name)
            viol(sig, 'GFCrystalcalc.SetRates raised %r on network %s (Ndiff=%d) whose components all percolate' % (e, name, Ndiff), rep0)
            count('setrates-raised')
            continue
        sym, esc = float_rates(invmap, jn, args)
        # cutoff leak: exp(-(p/pmax)^2) at the point of the BZ boundary where q.D.q is smallest (independent evaluation);
        # SetRates aims at pmaxerror = 1e-8 there
        Dn = np.array(gf4.D) / gf4.maxrate
        try:
            Dni = np.linalg.inv(Dn)
            leak = math.exp(-min(np.dot(G, G) ** 2 / (G @ Dni @ G) for G in crys.BZG) / gf4.pmax ** 2)
        except Exception:
            leak = 0.0
        leaky = leak > 1e-5
        if leaky: count('pmax-leak>1e-5')
        rtag = 'pmax-leak' if leaky else name
        rep0 = dict(rep0, cutoff_at_nearest_BZ_boundary_point=leak)
        uniform = (max(sym) - min(sym) < 1e-12 * max(sym)) and len(sl) == 1
        # ---- tie of block_inverse_taylor: omega(q) times the code's Taylor inverse is 1 + O(q) at small q (dd, dr, rr blocks)
        try:
            from onsager import GFcalc as _G
            fnlp = {(n, l): _G.Fnl_p(n, gf4.pmax) for (n, l) in gf4.g_Taylor.nl()}
            worst = None
            for _ in range(3):
                qh = np.array([rng.gauss(0, 1) for _ in range(dim)]); qh /= np.linalg.norm(qh)
                errs = []
                for sc in (1e-2, 1e-3):
                    pvec = sc * gf4.pmax * qh
                    q = np.linalg.solve(gf4.pqtrans, pvec)
                    M = np.zeros((N, N), dtype=complex)
                    for c, cls in enumerate(jn):
                        for (i, j), dx in cls: M[i, j] += sym[c] * np.exp(1j * np.dot(q, dx))
                    M += np.diag(esc)
                    E = gf4.vr.T @ (M / gf4.maxrate @ gf4.g_Taylor(pvec, fnlp) - np.eye(N)) @ gf4.vr
                    # the relaxive/diffusive block is left out: the code inverts rr only to order 0 (rr.inv() default), so
                    # that block keeps an O(1) defect whenever rr has a linear term (sites off inversion centres); it only
                    # slows the convergence of the k-sum and is reported as an observation, not as a C10 violation
                    E[Ndiff:, :Ndiff] = 0
                    errs.append(np.abs(E).max())
                    gmax = np.abs(gf4.g_Taylor(pvec, fnlp)).max()
                count('tie:taylor-inverse')
                if not errs[1] <= 0.3 * errs[0] + 1e-5 + 1e-11 * gmax:     # last term: cancellation noise of the 1/p^2 pole
                    worst = (qh.tolist(), errs)
            if worst is not None:
                rec['disagree'].append(('the Taylor inverse g_Taylor(q) of BlockInvertOmegaTaylor is not the inverse of omega(q) through order 0 on %s: '
                                        '|omega g_T - 1| = %.3g at |p|=1e-2 pmax and %.3g at 1e-3 pmax (must vanish linearly)' % (name, worst[1][0], worst[1][1]),
                                        dict(rep0, direction=worst[0], errors=worst[1]), 'tie:taylor-inverse'))
        except Exception as e:
            rec['notes'].append('taylor-inverse tie not evaluated on %s: %r' % (name, e))
        # ---- test points: (i, j, R)
        pts = []
        for i in range(N):
            pts.append((i, i, [0] * dim))
        qgrid = [max(1, int(g) // 4) for g in gf4.kptgrid]
        while len(pts) < npts + N:
            i, j = rng.randrange(N), rng.randrange(N)
            r = rng.random()
            if r < 0.6: R = [rng.randint(-2, 2) for _ in range(dim)]
            elif r < 0.8: R = [rng.randint(-1, 1) for _ in range(dim)]
            else:
                R = [0] * dim; d = rng.randrange(dim); R[d] = rng.choice([-1, 1]) * qgrid[d]
            pts.append((i, j, R))
        if len(pts) > npts + 2: pts = pts[:2] + rng.sample(pts[2:], npts)
        G4, G6 = {}, {}

        def zcart(z): return crys.lattice @ np.array([float(x) for x in z])

        def call(g, k, j, x, which):
            """gf(i,j,dx); the calculator's own sanity check on the imaginary part is a known false alarm -> None"""
            try:
                return float(g(k, j, x))
            except ArithmeticError as e:
                if 'complex IFT' not in str(e): raise
                if 'nan' in str(e).lower():
                    count('call:nan')
                    if not nan_seen:
                        nan_seen.append(1)
                        viol('call-raises:ArithmeticError:nan:%s' % name, 'GFCrystalcalc.__call__(%d,%d,%s) produced NaN (%s) on %s (Nmax=%d calculator, rates as last set)'
                             % (k, j, x.tolist(), e, name, which), dict(rep0, i=k, j=j, dx=x.tolist()))
                    return None
                count('call:complex-ift')
                if not complex_seen:
                    complex_seen.append(1)
                    viol('call-raises:ArithmeticError:complex-ift',
                         'GFCrystalcalc.__call__(%d,%d,%s) raised %r on %s (point group order %d): the imaginary part is a '
                         'quadrature artefact far below the BZ accuracy' % (k, j, x.tolist(), e, name, len(crys.G)),
                         dict(rep0, i=k, j=j, dx=x.tolist(), Nmax=which))
                return None
        complex_seen = []
        nan_seen = []

        def ev(k, j, z):
            key = (k, j, tuple(z))
            if key not in G4:
                x = zcart(z)
                G4[key] = call(gf4, k, j, x, 4); G6[key] = call(gf6, k, j, x, 6)
            return G4[key], G6[key]
        stencil = {i: [(sym[c], b, dxl) for c, cls in enumerate(ljumps) for (a, b, dxl) in cls if a == i] for i in range(N)}
        lean_pts, np_res = [], []
        try:
            for (i, j, R) in pts:
                z = [ubasis[j][c] - ubasis[i][c] + R[c] for c in range(dim)]
                vals = [ev(i, j, z)] + [ev(b, j, [zc - dc for zc, dc in zip(z, dxl)]) for s, b, dxl in stencil[i]]
                if any(v is None for pair in vals for v in pair):
                    count('resid:skipped-call-raised'); continue
                g4, g6 = vals[0]
                r = esc[i] * g4; tol = abs(esc[i]) * abs(g4 - g6)
                for (s, b, dxl), (a4, a6) in zip(stencil[i], vals[1:]):
                    r += s * a4; tol += s * abs(a4 - a6)
                if i == j and not any(R): r -= 1.0
                tol = 5 * tol + FLOOR
                np_res.append((i, j, R, z, r, tol))
                nontriv = (N > 1) or (not uniform) or any(R)
                rec['cases'].append((('resid', name, kind, str(datarep)[:80], i, j, tuple(R)), nontriv))
                count('resid:' + ('informative' if tol < 1e-2 else 'loose-tol'))
                count('dim:%d' % dim); count('Ndiff:%d' % Ndiff)
                if any(abs(R[c]) >= qgrid[c] and qgrid[c] > 1 for c in range(dim)): count('resid:quarter-period')
                if not (abs(r) <= tol):
                    viol('residual:%s:%s' % (rtag, kind),
                         'lattice equation residual %.3g exceeds tol_GF %.3g at G(%d,%d,R=%s) on %s' % (r, tol, i, j, R, name),
                         dict(rep0, point=[i, j, R], residual=r, tol=tol, G=g4, G_Nmax6=g6))
                lean_pts.append((i, j, z, tol))
        except Exception as e:
            viol('call-raises:%s:%s' % (type(e).__name__, name), 'GFCrystalcalc.__call__ raised %r' % (e,), rep0)
            continue
        for key in [k for k in G4 if G4[k] is None or G6[k] is None]:
            del G4[key]; G6.pop(key, None)
        if not G4: continue
        gscale = max(abs(v) for v in G4.values())
        # ---- direct oracles: swap, group, scaling
        keys = sorted(G4.keys())
        for key in rng.sample(keys, min(len(keys), 8)):
            k, j, z = key
            x = zcart(z)
            g4, g6 = G4[key], G6[key]
            tol = 5 * abs(g4 - g6) + FLOOR * gscale
            gsw, gsw6 = call(gf4, j, k, -x, 4), call(gf6, j, k, -x, 6)
            if gsw is not None and gsw6 is not None:
                rec['cases'].append((('swap', name, kind, key), N > 1 or any(z)))
                if not abs(gsw - g4) <= tol + 5 * abs(gsw6 - gsw):
                    viol('swap:%s' % rtag, 'G(%d,%d,dx)=%.12g but G(%d,%d,-dx)=%.12g on %s' % (k, j, g4, j, k, gsw, name),
                         dict(rep0, i=k, j=j, dx=x.tolist(), G=g4, G_swapped=gsw, tol=tol))
            ops = list(crys.G)
            for g in rng.sample(ops, min(len(ops), 6)):
                gi, gj = g.indexmap[chem][k], g.indexmap[chem][j]
                gx = crys.g_direc(g, x)
                gg, gg6 = call(gf4, gi, gj, gx, 4), call(gf6, gi, gj, gx, 6)
                if gg is None or gg6 is None: continue
                rec['cases'].append((('group', name, kind, key, str(g.rot.tolist())), True))
                count('group-op')
                if not abs(gg - g4) <= tol + 5 * abs(gg6 - gg):
                    viol('group:%s' % rtag, 'G(%d,%d,dx)=%.12g but G(g i,g j,g dx)=%.12g on %s' % (k, j, g4, gg, name),
                         dict(rep0, i=k, j=j, dx=x.tolist(), rot=g.rot.tolist(), gi=gi, gj=gj, gdx=gx.tolist(), G=g4, G_image=gg, tol=tol))
        # ---- uniform rate scaling over many decades: G_s = G_1 / s, D_s = s D, equation residual unchanged.
        # Homogeneity is exact (theorems G_scale, residual_scale) and the calculator normalises by maxrate, so the clean
        # code reproduces it to rounding; a deviation above rounding is a model/implementation disagreement, a deviation
        # above the BZ accuracy a violation of the scaling clause.
        decades = [1e-9, 1e-6, 1e-3, 1e3, 1e6, 1e9]
        lams = [rng.choice([1e-9, 1e-6, 1e6, 1e9]), rng.choice([1e-3, 1e3, 0.037, 41.0] + decades)]
        for lam in lams:
            if rng.random() < 0.5:
                sargs = (args[0], args[1], [lam * p for p in args[2]], args[3]); how = 'transition prefactors x %g' % lam
            else:
                sargs = (args[0], args[1], args[2], [b - math.log(lam) for b in args[3]]); how = 'barriers shifted by %+.3f kT' % (-math.log(lam))
            count('scale:decade=%+d' % int(round(math.log10(lam))))
            try:
                gfs.SetRates(*sargs)
                Ds = np.array(gfs.D)
            except Exception as e:
                viol('scale-raises:%s:%s' % (type(e).__name__, rtag), 'SetRates raised %r after uniform scaling of all rates by %g (%s) on %s; it succeeds at scale 1'
                     % (e, lam, how, name), dict(rep0, lam=lam, how=how))
                continue
            D1 = np.array(gf4.D)
            rec['cases'].append((('scale-D', name, kind, str(datarep)[:80], lam), True))
            if not np.abs(Ds - lam * D1).max() <= 1e-9 * lam * np.abs(D1).max():
                viol('scale-D:%s' % rtag, 'rates scaled by %g (%s): D_s/s differs from D on %s' % (lam, how, name),
                     dict(rep0, lam=lam, how=how, D_scaled_over_s=(Ds / lam).tolist(), D=D1.tolist()))
            worst_round = 0.0
            for key in rng.sample(keys, min(len(keys), 8)):
                k, j, z = key
                x = zcart(z)
                gl = call(gfs, k, j, x, 4)
                if gl is None: continue
                gl *= lam
                g4, g6 = G4[key], G6[key]
                tol = 5 * abs(g4 - g6) + FLOOR * gscale
                rec['cases'].append((('scale', name, kind, key, lam), True))
                if dim == 2:
                    # logarithmic GF: only differences are meaningful
                    key0 = next(kk for kk in keys if kk[0] == k and kk[1] == j)
                    gl0 = call(gfs, k, j, zcart(key0[2]), 4)
                    if gl0 is None: continue
                    d_impl, d_ref = gl - gl0 * lam, g4 - G4[key0]
                    tol = 2 * tol + 5 * abs(G4[key0] - G6[key0])
                else:
                    d_impl, d_ref = gl, g4
                dev = abs(d_impl - d_ref)
                if not dev <= tol:
                    viol('scale:%s' % rtag, 'all rates scaled by s=%g (%s): s*G_s=%.12g but G_1=%.12g (%s) at (%d,%d,%s) on %s'
                         % (lam, how, d_impl, d_ref, 'differences' if dim == 2 else 'values', k, j, x.tolist(), name),
                         dict(rep0, i=k, j=j, dx=x.tolist(), lam=lam, how=how, scaled=d_impl, unscaled=d_ref, tol=tol))
                else:
                    worst_round = max(worst_round, dev)
            if worst_round > 1e-9 * gscale:
                rec['disagree'].append(('homogeneity is exact (G_scale) but s*G_s deviates from G_1 by %.3g (|G| up to %.3g) for s=%g (%s) on %s: '
                                        'far above rounding, below the BZ accuracy' % (worst_round, gscale, lam, how, name),
                                        dict(rep0, lam=lam, how=how, deviation=worst_round), 'tie:scale-rounding'))
            # the defining equation with the scaled rates, at two points (relative to the rate scale the residual is unchanged)
            for (i, j, R, z, r1, tol) in np_res[:2]:
                vals = [call(gfs, i, j, zcart(z), 4)] + [call(gfs, b, j, zcart([zc - dc for zc, dc in zip(z, dxl)]), 4) for sr, b, dxl in stencil[i]]
                if any(v is None for v in vals): continue
                rs = lam * (esc[i] * vals[0] + sum(sr * v for (sr, b, dxl), v in zip(stencil[i], vals[1:]))) - (1.0 if i == j and not any(R) else 0.0)
                rec['cases'].append((('resid-scaled', name, kind, str(datarep)[:80], i, j, tuple(R), lam), True))
                count('resid-scaled')
                if not abs(rs) <= tol:
                    viol('residual-scaled:%s' % rtag, 'all rates scaled by s=%g (%s): lattice equation residual %.3g exceeds tol_GF %.3g (residual %.3g at s=1) at G(%d,%d,R=%s) on %s'
                         % (lam, how, rs, tol, r1, i, j, R, name), dict(rep0, lam=lam, how=how, point=[i, j, R], residual=rs, residual_unscaled=r1, tol=tol))
        # ---- far-field pole (3-D, connected)
        if dim == 3 and Ndiff == 1:
            pre, be = args[0], args[1]
            w = np.array([pre[invmap[i]] * math.exp(-be[invmap[i]]) for i in range(N)]); rho = w / w.sum()
            D = np.array(gf4.D); Dinv = np.linalg.inv(D)
            pref = crys.volume / (4 * math.pi * math.sqrt(np.linalg.det(D)))
            # natural length in the metric of D: longest jump, or the diffusion length over the slowest relaxation time
            leff = max(math.sqrt(dx @ Dinv @ dx) for c in jn for (i, j), dx in c)
            if N > 1:
                leff = max(leff, 1 / math.sqrt(abs(gf4.r[1] * gf4.maxrate)))
            fn_nopole = dict(gf4.g_Taylor_fnlu)
            if (-2, 0) in fn_nopole: fn_nopole[(-2, 0)] = 0.0
            for d in range(3):
                for sgn in (1, -1):
                    R = np.zeros(3); R[d] = sgn * qgrid[d]
                    pairs = [(i, j) for i in range(N) for j in range(N)]
                    for (i, j) in (pairs if len(pairs) <= 9 else rng.sample(pairs, 9)):
                        x = crys.lattice @ (crys.basis[chem][j] - crys.basis[chem][i] + R)
                        xD = math.sqrt(x @ Dinv @ x)
                        pole = -math.sqrt(rho[i] * rho[j]) * pref / xD
                        g, g6 = call(gf4, i, j, x, 4), call(gf6, i, j, x, 6)
                        if g is None or g6 is None: continue
                        # size of the next terms of the asymptotic series (dipole ~1/x^2 and order-0 terms ~1/x^3),
                        # taken from the calculator's own Taylor part with the pole removed
                        nxt = abs(complex(gf4.gT_ij[i][j](np.dot(gf4.uxtrans, x), fn_nopole)).real) / gf4.maxrate
                        rel = 4.0 * leff / xD          # corrections to the pole are O(leff/|x|) relative; generous constant
                        if rel > 0.6:
                            count('pole:uninformative'); continue
                        bound = rel * abs(pole) + 3 * nxt + 5 * abs(g - g6) + FLOOR * gscale
                        count('pole:checked')
                        rec['cases'].append((('pole', name, kind, str(datarep)[:80], i, j, d, sgn), True))
                        if not abs(g - pole) <= bound:
                            viol('pole:%s' % rtag, 'far field: G(%d,%d,x)=%.6g vs continuum pole %.6g (|difference| %.3g > %.3g = 4 leff/|x| |pole| + 3 x next asymptotic terms) at %d cells along a%d on %s'
                                 % (i, j, g, pole, abs(g - pole), bound, qgrid[d], d, name),
                                 dict(rep0, i=i, j=j, dx=x.tolist(), G=g, pole=pole, D=D.tolist(), rho=rho.tolist(), bound=bound, next_terms=nxt))
        # ---- the same crystal in its original description: G must agree at the same physical separation
        orig = [int(t[5:]) for t in tags if t.startswith('orig=')]
        if orig:
            try:
                oname, ocrys, ochem, osl, ojn, _ot = NETS[orig[0]]
                gfo4, gfo6 = _calc(orig[0], 4), _calc(orig[0], 6)
                oinv = [int(w) for w in gfo4.invmap]
                Rot = ROTS.get(name)

                def back(v):
                    return v if Rot is None else Rot.T @ v

                def find_site(xc, ch):
                    for io in range(len(ocrys.basis[ch])):
                        d = np.linalg.solve(ocrys.lattice, xc) - ocrys.basis[ch][io]
                        if np.abs(d - np.round(d)).max() < 1e-6: return io
                    return None
                # the constructor may re-centre the basis: the two descriptions agree up to one global translation
                smap = None
                for io in range(N):
                    t = back(crys.lattice @ crys.basis[chem][0]) - ocrys.lattice @ ocrys.basis[ochem][io]
                    if all(find_site(back(crys.lattice @ u) - t, ch) is not None for ch in range(len(crys.basis)) for u in crys.basis[ch]):
                        smap = [find_site(back(crys.lattice @ crys.basis[chem][i]) - t, chem) for i in range(N)]
                        break
                if smap is None or sorted(smap) != list(range(N)): raise StopIteration
                wmap = {}
                for i in range(N): wmap[oinv[smap[i]]] = invmap[i]                    # orig Wyckoff -> this Wyckoff
                kmap = []
                for ocl in ojn:
                    (io, jo), odx = ocl[0]
                    kmap.append(next(k for k, cl in enumerate(jn) if any(smap[a] == io and smap[b] == jo and np.abs(back(dx) - odx).max() < 1e-6
                                                                         for (a, b), dx in cl)))
                oargs = ([args[0][wmap[w]] for w in range(len(osl))], [args[1][wmap[w]] for w in range(len(osl))],
                         [args[2][k] for k in kmap], [args[3][k] for k in kmap])
                gfo4.SetRates(*oargs); gfo6.SetRates(*oargs)
                worst_dev = 0.0
                # BZ accuracy of either description as a uniform bound over the sampled patch (a pointwise |G4-G6| can be
                # accidentally small where the error changes sign; the two descriptions use different k-meshes)
                acc_here = max(abs(G4[kk] - G6[kk]) for kk in keys)
                samples = []
                for key in rng.sample(keys, min(len(keys), 10)):
                    k, j, z = key
                    x = zcart(z)
                    a4, a6 = call(gfo4, smap[k], smap[j], back(x), 4), call(gfo6, smap[k], smap[j], back(x), 6)
                    if a4 is None or a6 is None: continue
                    if dim == 2:
                        key0 = next(kk for kk in keys if kk[0] == k and kk[1] == j)
                        b4, b6 = call(gfo4, smap[k], smap[j], back(zcart(key0[2])), 4), call(gfo6, smap[k], smap[j], back(zcart(key0[2])), 6)
                        if b4 is None or b6 is None: continue
                        samples.append((key, x, G4[key] - G4[key0], a4 - b4, max(abs(a4 - a6), abs(b4 - b6)), 2))
                    else:
                        samples.append((key, x, G4[key], a4, abs(a4 - a6), 1))
                acc_orig = max([sm[4] for sm in samples] + [0.0])
                for key, x, d_here, d_orig, _a, mult in samples:
                    k, j, z = key
                    tol = mult * 5 * (acc_here + acc_orig) + FLOOR * gscale
                    rec['cases'].append((('redescription', name, kind, key), True))
                    count('redescription-compared')
                    if not abs(d_here - d_orig) <= tol:
                        viol('redescription:%s' % rtag, 'G(%d,%d,dx)=%.10g on %s but %.10g for the same sites, separation and rates in the original description %s (%s)'
                             % (k, j, d_here, name, d_orig, oname, 'differences' if dim == 2 else 'values'),
                             dict(rep0, i=k, j=j, dx=x.tolist(), here=d_here, original=d_orig, tol=tol, original_network=oname))
                    else:
                        worst_dev = max(worst_dev, abs(d_here - d_orig))
                if Rot is not None:
                    # A rigid rotation changes nothing but the Cartesian frame.  (i) When both descriptions use the same
                    # (rotated) k-mesh the values agree to rounding in the clean code: anything above is a disagreement.
                    if gf4.Nkpt == gfo4.Nkpt and worst_dev > 1e-10 * gscale:
                        rec['disagree'].append(('G of the rigidly rotated copy %s deviates from the original orientation by %.3g (|G| up to %.3g) with the same k-mesh: '
                                                'the Green function depends on the orientation of the Cartesian axes' % (name, worst_dev, gscale),
                                                dict(rep0, deviation=worst_dev, rotation=Rot.tolist()), 'tie:rotation-rounding'))
                    # (ii) The accuracy with which the lattice equation is solved cannot depend on the orientation: the residuals
                    # of the rotated copy are compared with those of the original description at the same points.
                    osym, oesc = float_rates(oinv, ojn, oargs)
                    ref, mine = 0.0, []
                    for (i, j, R, z, r1, tol1) in np_res[:6]:
                        io, jo, xo = smap[i], smap[j], back(zcart(z))
                        vals = [call(gfo4, io, jo, xo, 4)] + [call(gfo4, b, jo, xo - odx, 4) for cl in ojn for (a, b), odx in cl if a == io]
                        if any(v is None for v in vals): continue
                        wts = [oesc[io]] + [osym[c] for c, cl in enumerate(ojn) for (a, b), odx in cl if a == io]
                        ro = sum(w_ * v for w_, v in zip(wts, vals)) - (1.0 if i == j and not any(R) else 0.0)
                        ref = max(ref, abs(ro)); mine.append((i, j, R, r1))
                    for (i, j, R, r1) in mine:
                        rec['cases'].append((('resid-orientation', name, kind, str(datarep)[:80], i, j, tuple(R)), True))
                        count('resid-orientation')
                        if not abs(r1) <= 10 * ref + FLOOR:
                            viol('residual-orientation:%s' % rtag, 'lattice equation residual %.3g at G(%d,%d,R=%s) on the rigidly rotated copy %s, but at most %.3g at the same points '
                                 'in the original orientation %s (same crystal, rates and mesh density)' % (r1, i, j, R, name, ref, oname),
                                 dict(rep0, point=[i, j, R], residual=r1, worst_residual_original=ref, rotation=Rot.tolist(), original_network=oname))
            except StopIteration:
                rec['notes'].append('%s: sites/jumps could not be matched to the original description; comparison skipped' % name)
            except Exception as e:
                viol('redescription-raises:%s:%s' % (type(e).__name__, name), 'original description of %s: %r' % (name, e), rep0)
        # ---- Lean requests (square data only)
        if kind == 'square' and not python_only and lean_pts:
            nl = net_line(N, dim, invmap, ljumps, sq)
            patch = ';'.join('%d,%d,%s,%s' % (k, j, ','.join(fr(c) for c in z), fr(Fraction(v))) for (k, j, z), v in sorted(G4.items()))
            ptl = ';'.join('%d,%d,%s,%s' % (i, j, ','.join(fr(c) for c in z), fr(Fraction(tol))) for (i, j, z, tol) in lean_pts)
            nk = gf4.Nkpt
            ks = sorted(rng.sample(range(nk), min(nk, 12)))
            rec['lean'].append(dict(
                rep=rep0, rtag=rtag, omega_line='omega # ' + nl, resid_line='resid # %s # %s # %s' % (nl, patch, ptl),
                np_res=[(i, j, R, float(r), float(tol)) for (i, j, R, z, r, tol) in np_res],
                symmrate=(np.array(gf4.symmrate) * gf4.maxrate).tolist(), escape=(np.diag(gf4.escape) * gf4.maxrate).tolist(),
                maxrate=float(gf4.maxrate), kpts=gf4.kpts[ks].tolist(),
                omega=[(gf4.omega_qij[q] * gf4.maxrate).tolist() for q in ks], lattice=crys.lattice.tolist()))
    return rec


# ------------------------------------------------------------------ driver side
def _complexify(m):
    return np.array(m, dtype=complex)


def compare_lean(ctx, L, oans, rans):
    rep = L['rep']
    name = rep['network']
    if not oans.startswith('ok '):
        ctx.disagree('exact model says %r for network %s accepted by GFCrystalcalc' % (oans, name), rep); return
    parts = [p.strip() for p in oans[3:].split('|')]
    symm = [float(Fraction(x)) for x in parts[0].split(',')]
    escm = [float(Fraction(x)) for x in parts[1].split(',')]
    maxm = float(Fraction(parts[2]))
    scale = max(abs(x) for x in escm + symm)
    if len(symm) != len(L['symmrate']) or max(abs(a - b) for a, b in zip(symm, L['symmrate'])) > 1e-11 * scale:
        ctx.disagree('symmrate*maxrate differs from the exact symmetrised rates on %s' % name, dict(rep, model=symm, impl=L['symmrate']), sig='tie:symmrate')
    if max(abs(a - b) for a, b in zip(escm, L['escape'])) > 1e-11 * scale:
        ctx.disagree('escape*maxrate differs from the exact escape rates on %s' % name, dict(rep, model=escm, impl=L['escape']), sig='tie:escape')
    if abs(maxm - L['maxrate']) > 1e-11 * scale:
        ctx.disagree('maxrate differs from the largest exact symmetrised rate on %s' % name, dict(rep, model=maxm, impl=L['maxrate']), sig='tie:maxrate')
    # group-ring omega evaluated at the calculator's own k-points
    N = len(escm)
    lat = np.array(L['lattice'])
    terms = []
    for t in parts[3].split(';'):
        f = t.split(',')
        terms.append((int(f[0]), int(f[1]), lat @ np.array([float(Fraction(x)) for x in f[2:-1]]), float(Fraction(f[-1]))))
    for q, om in zip(L['kpts'], L['omega']):
        q = np.array(q); M = np.zeros((N, N), dtype=complex)
        for i, k, dx, c in terms:
            M[i, k] += c * np.exp(1j * np.dot(q, dx))
        err = np.abs(M - _complexify(om)).max()
        ctx.case(('omega', name, str(rep['data'])[:80], tuple(q)), nontrivial=bool(np.abs(q).max() > 0))
        if err > 1e-10 * scale:
            ctx.disagree('omega_qij*maxrate differs from the exact group-ring omega evaluated at k=%s on %s (%.3g)' % (q.tolist(), name, err),
                         dict(rep, kpt=q.tolist(), model=str(M.tolist()), impl=str(om)), sig='tie:omega')
            break
    ctx.count('tie:omega-compared')
    # verified residual checker
    if not rans.startswith('ok '):
        ctx.disagree('residual checker answered %r on %s' % (rans, name), rep); return
    rs, flag = [p.strip() for p in rans[3:].split('|')]
    rs = rs.split(',')
    allok = True
    for r_l, (i, j, R, r_np, tol) in zip(rs, L['np_res']):
        if r_l == 'none':
            ctx.disagree('residual checker: point (%d,%d,%s) not interior to the supplied patch' % (i, j, R), rep); allok = False; continue
        rl = float(Fraction(r_l))
        ctx.case(('lean-resid', name, str(rep['data'])[:80], i, j, tuple(R)), nontrivial=True,
                 sample=dict(network=name, point=[i, j, R], residual_exact=rl, residual_numpy=r_np, tol=tol))
        if abs(rl - r_np) > 1e-9 * max(1.0, abs(r_np)):
            ctx.disagree('exact residual %.6g differs from the numpy residual %.6g at (%d,%d,%s) on %s' % (rl, r_np, i, j, R, name),
                         dict(rep, point=[i, j, R], exact=rl, numpy=r_np), sig='tie:residual')
        if abs(rl) > tol:
            allok = False
            ctx.violation('residual:%s:square' % L['rtag'], 'verified checker: lattice-equation residual %.3g exceeds tol_GF %.3g at G(%d,%d,R=%s) on %s'
                          % (rl, tol, i, j, R, name), dict(rep, point=[i, j, R], residual=rl, tol=tol))
    if (flag == '1') != allok:
        ctx.disagree('residualOK flag %s inconsistent with the per-point residuals on %s' % (flag, name), rep)
    ctx.count('lean:residualOK=' + flag)


def _run_tasks(ctx, tasks, nproc=14):
    import multiprocessing as mp
    if not tasks: return []
    mpctx = mp.get_context('fork')
    with mpctx.Pool(min(nproc, len(tasks))) as pool:
        return pool.map(work, tasks, chunksize=1)


def _absorb(ctx, recs):
    leans = []
    for rec in recs:
        for k, v in rec['counts'].items(): ctx.count(k, v)
        ctx.count('net:' + rec['name'].split(':')[0])
        for key, nontriv in rec['cases']: ctx.case(key, nontrivial=nontriv)
        for sig, what, replay in rec['violations']: ctx.violation(sig, what, replay)
        for n in rec['notes']: ctx.note(n)
        for what, replay, sig in rec['disagree']: ctx.disagree(what, replay, sig=sig)
        leans.extend(rec['lean'])
    return leans


def malformed(ctx):
    """Requests the model must reject; the implementation makes no promise there (counted only)."""
    bad = ['omega # 1 1 3/2 | 0 | 1 | 0 | 1 | 0 | 0,0,1',                       # one-way jump: reverse missing
           'omega # 1 1 3/2 | 0 | 1 | 0 | 1 | 0 | 0,1,1:1,0,-1',                # site index out of range
           'omega # 1 1 3/2 | 0 | 0 | 0 | 1 | 0 | 0,0,1:0,0,-1',                # zero prefactor
           'omega # 2 1 3/2 | 0,1 | 1,1 | 0,0 | 1 | 0 | 0,0,1:0,0,-1:0,1,1/2:1,0,-1/2',  # class mixes Wyckoff pairs
           'resid # 1 1 3/2 | 0 | 1 | 0 | 1 | 0 | 0,0,1:0,0,-1 # 0,0,0,1/2 # 0,0,0,1',     # point not interior
           'omega # garbage']
    want = ['invalid', 'invalid', 'invalid', 'invalid', 'ok none | 0', 'bad-request']
    ans = ctx.lean(DRIVER, bad)
    for b, a, w in zip(bad, ans, want):
        ctx.case(('malformed', b), nontrivial=True)
        ctx.count('malformed')
        if a != w:
            ctx.disagree('model answered %r (expected %r) on malformed request %r' % (a, w, b), dict(request=b))
    # hand-checkable exact case: 1-D chain with unit rate; G(n) = |n|/2 solves it exactly
    pat = ';'.join('0,0,%d,%s' % (n, fr(Fraction(abs(n), 2))) for n in range(-3, 4))
    line = 'resid # 1 1 3/2 | 0 | 1 | 0 | 1 | 0 | 0,0,1:0,0,-1 # %s # 0,0,0,0;0,0,2,0;0,0,-1,0' % pat
    a = ctx.lean(DRIVER, [line])[0]
    ctx.case(('chain-exact',), nontrivial=True)
    if a != 'ok 0,0,0 | 1':
        ctx.disagree('model residual of the exact 1-D chain solution is %r' % a, dict(request=line))


def run(ctx):
    global NETS
    NETS = build_networks(ctx)
    ctx.note('%d networks: %s' % (len(NETS), ', '.join(n[0] for n in NETS)))
    names = [n[0] for n in NETS]
    if ctx.quick:
        # fixed core + seed-dependent sample of the rest
        core = ['int:fcc-oct+tet', 'int:hcp-oct+tet', 'int:zincblende-int', 'int:square2d-int', 'int:oblique2d-2site',
                'vac:rumpled', 'disc:sc-x00-self', 'disc:fcc-oo+tt', 'disc:sq2d-oo+ee', 'lowsym:p1-2site', 'aniso:zigzag2d']
        rest = [n for n in names if n not in core and not n.startswith('rand:')]
        rest = [n for n in rest if not n.startswith('redesc:') and not n.startswith('rot:')]
        pick = core + ctx.rng.sample(rest, 3) + [n for n in names if n.startswith('rand:') or n.startswith('redesc:') or n.startswith('rot:')]
        tasks = [(names.index(n), ctx.rng.getrandbits(32), 1, 1, 3, 8, False) for n in pick]
    else:
        tasks = []
        for rep in range(6):
            tasks += [(i, ctx.rng.getrandbits(32), 3, 3, (3, 5, 7)[rep % 3], 16, False) for i in range(len(NETS))]
    # big jobs first
    tasks.sort(key=lambda t: -len(NETS[t[0]][1].G) * len(NETS[t[0]][1].basis[NETS[t[0]][2]]) - (1000 if NETS[t[0]][1].dim == 3 and len(NETS[t[0]][1].G) <= 2 else 0))
    recs = _run_tasks(ctx, tasks)
    leans = _absorb(ctx, recs)
    lines = []
    for L in leans:
        lines += [L['omega_line'], L['resid_line']]
    answers = ctx.lean(DRIVER, lines, timeout=1500)
    for n, L in enumerate(leans):
        compare_lean(ctx, L, answers[2 * n], answers[2 * n + 1])
    malformed(ctx)
    for d in ctx.disagreements[:8]:
        ctx.note('disagreement: ' + d['what'][:300])


def search(ctx, reasons):
    """A proof obligation or the correspondence broke: look for a concrete failing input with the numpy oracles only."""
    global NETS
    if not NETS: NETS = build_networks(ctx)
    tasks = [(i, ctx.rng.getrandbits(32), 1, 2, 4, 10, True) for i in range(len(NETS))
             if ctx.quick is False or not NETS[i][0].startswith('rand:') or True]
    if ctx.quick: tasks = tasks[:24]
    _absorb(ctx, _run_tasks(ctx, tasks))
