"""
C04 — Results are invariant under reference choices and scale with rates.

Lean (OnsagerProofs/C04.lean, exact interstitial model, all inputs): shift_invariant, prescale_invariant,
rate_homogeneous, displacement_invariant.  Tie: the transformed inputs go through the model (`shift`, `prescale`,
`rscale`, `displace` requests) and through Interstitial.diffusivity; the vacancy-mediated calculator is tested by
metamorphic oracles on preene2betafree + Lij (energy shifts per species, joint prefactor scaling, kT co-scaling, uniform
rate scaling) and displaced crystals with identical jump topology.
"""
import math
from fractions import Fraction
import numpy as np
import interstitial_common as ic

META = dict(
    id='C04',
    lean_modules=['OnsagerProofs.Lemmas.Variational', 'OnsagerModel.C02', 'OnsagerModel.C04', 'OnsagerModel.InterstitialDriver',
                  'OnsagerProofs.C02', 'OnsagerProofs.C04'],
    theorems=['Onsager.Var.Q_scale', 'Onsager.Var.Stationary_scale', 'Onsager.Var.Q_gauge', 'Onsager.Var.Qmin_gauge',
              'Onsager.C04.shift_invariant', 'Onsager.C04.prescale_invariant', 'Onsager.C04.rate_homogeneous',
              'Onsager.C04.displacement_invariant'],
    tie_theorems=[],
    level_text='Kernel-checked for the exact interstitial model, for all well-formed inputs and directions: a common energy shift and a '
               'joint prefactor scaling change nothing (the min-energy referencing is part of the model), multiplying every rate by s '
               'multiplies the result by s, and displacing sites inside the cell (same connectivity and rates) changes nothing. The '
               'vacancy-mediated calculator (preene2betafree referencing per species, kT co-scaling, homogeneity through the Green '
               'function) is tied by metamorphic oracles on the real code only (partial).',
    level_note='Trusted: Lean kernel + standard axioms; correspondence of Interstitial.diffusivity with the exact model (C02); '
               'floating-point exp overflow/underflow is outside the model.',
    technique='Lean 4 invariance/homogeneity theorems on the exact model + metamorphic differential runs',
    rule='networks x random data x random transformation (shift, prefactor scale, rate scale, displacement); vacancy calculators x '
         'random data x (species shifts, prefactor scalings, kT co-scaling, rate scaling); non-trivial = anisotropic or correlated; '
         'distinct by (network, data, transformation)',
    trusted=[], assumptions=['displacements keep the jump topology (checked exactly in lattice coordinates before a case is used)'],
)

DRIVER = 'Drive/Interstitial.lean'


def _tensor(ans, dim):
    if ans.startswith('1 ') or ans.startswith('0 '): ans = ans[2:]
    if not ans.startswith('ok '): return None
    return np.array([float(Fraction(x)) for x in ans[3:].split('|')[0].strip().split(',')]).reshape(dim, dim)


def run(ctx):
    from onsager import OnsagerCalc
    nets = ic.networks()
    ncase = 16 if ctx.quick else 400
    lines, plan = [], []
    for t in range(ncase):
        name, crys, chem, sl, jn = nets[t % len(nets)]
        key = ('diff', name)
        if key not in ic._CACHE:
            ic._CACHE[key] = (OnsagerCalc.Interstitial(crys, chem, sl, jn), ic.lattice_jumps(crys, jn))
        diffuser, ljumps = ic._CACHE[key]
        data = ic.rand_data(ctx.rng, len(sl), len(jn), emax=4)
        base = ic.request_line(diffuser.N, crys.dim, diffuser.invmap, ljumps, data)
        kind = ('shift', 'prescale', 'rscale', 'displace')[(t + t // len(nets)) % 4]
        lnq = math.log(float(data['q']))
        pre, be, preT, beT = ic.py_args(data)
        D0 = diffuser.diffusivity(pre, be, preT, beT)
        factor = 1.0
        if kind == 'shift':
            c = ctx.rng.choice([-700, -40, -3, 5, 60, 900]) if not ctx.quick else ctx.rng.choice([-40, -3, 5, 60])
            cmd = 'shift %d' % c
            D1 = diffuser.diffusivity(pre, [e + c * lnq for e in be], preT, [e + c * lnq for e in beT])
        elif kind == 'prescale':
            s = Fraction(ctx.rng.randint(1, 400), ctx.rng.randint(1, 40))
            cmd = 'prescale %s' % ic.fr(s)
            D1 = diffuser.diffusivity([float(s) * p for p in pre], be, [float(s) * p for p in preT], beT)
        elif kind == 'rscale':
            s = Fraction(ctx.rng.randint(1, 400), ctx.rng.randint(1, 40))
            cmd = 'rscale %s' % ic.fr(s); factor = float(s)
            D1 = diffuser.diffusivity(pre, be, [float(s) * p for p in preT], beT)
        else:
            # model-level displacement (exact); implementation-level displacement is tested in displaced_crystals()
            svec = [[Fraction(ctx.rng.randint(-6, 6), 48) for _ in range(crys.dim)] for _ in range(diffuser.N)]
            cmd = 'displace %s' % ';'.join(','.join(ic.fr(x) for x in v) for v in svec)
            D1 = D0
        lines.append('D # ' + base); lines.append(cmd + ' # ' + base)
        plan.append((name, crys, kind, cmd, factor, D0, D1, data))
    answers = ctx.lean(DRIVER, lines, timeout=3000)
    # the derivative output (diffusivity x activation barrier) obeys the same invariances
    for (name, crys, kind, cmd, factor, D0, D1, data) in plan:
        if kind == 'displace': continue
        diffuser = ic._CACHE[('diff', name)][0]
        lnq = math.log(float(data['q']))
        pre, be, preT, beT = ic.py_args(data)
        _, DE0 = diffuser.diffusivity(pre, be, preT, beT, CalcDeriv=True)
        if kind == 'shift':
            c = int(cmd.split()[1])
            _, DE1 = diffuser.diffusivity(pre, [e + c * lnq for e in be], preT, [e + c * lnq for e in beT], CalcDeriv=True)
        else:
            sfac = float(Fraction(cmd.split()[1]))
            _, DE1 = diffuser.diffusivity([sfac * p for p in pre] if kind == 'prescale' else pre, be, [sfac * p for p in preT], beT, CalcDeriv=True)
        scaleE = max(np.abs(DE0).max(), np.abs(D0).max(), 1e-300)
        tolE = (1e-9 + 1e-13 * min(ic.rate_spread(data), 1e9)) * scaleE * max(1.0, factor) * (1 + (abs(c) * lnq if kind == 'shift' else 0.0))
        ctx.count('deriv:' + kind)
        if not np.all(np.isfinite(DE1)) or np.abs(np.asarray(DE1) - factor * np.asarray(DE0)).max() > tolE:
            ctx.violation('interstitial-not-invariant:derivative:%s' % kind,
                          'the derivative output of Interstitial.diffusivity (D x activation barrier) changes under `%s`: max deviation %.3g (tol %.3g)'
                          % (cmd, np.abs(np.asarray(DE1) - factor * np.asarray(DE0)).max(), tolE),
                          dict(network=name, transformation=cmd, data={kk: str(v) for kk, v in data.items()}, DE_before=np.asarray(DE0).tolist(), DE_after=np.asarray(DE1).tolist()))
    for k, (name, crys, kind, cmd, factor, D0, D1, data) in enumerate(plan):
        dim = crys.dim
        T0, T1 = _tensor(answers[2 * k], dim), _tensor(answers[2 * k + 1], dim)
        rep = dict(network=name, transformation=cmd, data={kk: str(v) for kk, v in data.items()})
        scale = max(np.abs(D0).max(), 1e-300)
        tol = 1e-9 * scale * max(1.0, factor) + 1e-13 * scale * max(1.0, factor) * min(ic.rate_spread(data), 1e9)
        ctx.case((name, cmd, str(data)), nontrivial=True, sample=dict(rep, D_before=D0.tolist(), D_after=np.asarray(D1).tolist()))
        ctx.count('kind:' + kind)
        if T0 is None or T1 is None:
            ctx.disagree('model rejects input: %s / %s' % (answers[2 * k], answers[2 * k + 1]), rep); continue
        if np.abs(T1 - factor * T0).max() > 1e-12 * np.abs(T0).max() * max(1, factor):
            ctx.disagree('exact model is not invariant/homogeneous under `%s` (contradicts OnsagerProofs/C04.lean)' % cmd, dict(rep, T0=T0.tolist(), T1=T1.tolist()))
        L = crys.lattice
        if np.abs(L @ T0 @ L.T - D0).max() > tol:
            ctx.disagree('implementation differs from exact model (see C02)', rep)
        if not np.all(np.isfinite(D1)) or np.abs(np.asarray(D1) - factor * D0).max() > tol:
            ctx.violation('interstitial-not-invariant:%s' % kind,
                          'Interstitial.diffusivity changes under `%s`: max deviation %.3g (tol %.3g)' % (cmd, np.abs(np.asarray(D1) - factor * D0).max(), tol),
                          dict(rep, D_before=D0.tolist(), D_after=np.asarray(D1).tolist()))
    displaced_crystals(ctx)
    vacancy_part(ctx)


def _topology(crys, chem, jn):
    """jump network as a set of classes of (i, j, R) with integer cell vectors R."""
    basis = crys.basis[chem]
    out = []
    for cls in jn:
        out.append(frozenset((i, j, tuple(int(x) for x in np.round(np.dot(crys.invlatt, dx) - basis[j] + basis[i]))) for (i, j), dx in cls))
    return out


def displaced_crystals(ctx):
    """Sites displaced inside the cell along their free Wyckoff parameters: same topology, same class data -> same D."""
    from onsager import OnsagerCalc, crystal
    hcp = crystal.Crystal.HCP(1.0, chemistry='Ti')
    fam = []
    for z in (0.625, 0.61, 0.65):
        c = hcp.addbasis(hcp.Wyckoffpos(np.array([0., 0., 0.5])) + hcp.Wyckoffpos(np.array([1. / 3., 2. / 3., z])), chemistry=['O'])
        fam.append(('hcp-oct+tet(z=%g)' % z, c, 1, 1.01))
    sq = []
    for x in (0.3, 0.27, 0.34):
        c = crystal.Crystal(np.eye(2), [[np.zeros(2)], [np.array([x, 0.]), np.array([-x, 0.]), np.array([0., x]), np.array([0., -x])]], chemistry=['A', 'i'])
        sq.append(('square-x00(x=%g)' % x, c, 1, 0.62))
    # monoclinic, sites on the mirror plane (free in-plane parameters), as given and rigidly rotated (mirror normal tilted)
    ml = np.array([[1.0, 0.3, 0.0], [0.0, 1.1, 0.0], [0.0, 0.0, 1.2]])
    th, ph = math.radians(30.0), math.radians(20.0)
    Ry = np.array([[math.cos(th), 0., math.sin(th)], [0., 1., 0.], [-math.sin(th), 0., math.cos(th)]])
    Rz = np.array([[math.cos(ph), -math.sin(ph), 0.], [math.sin(ph), math.cos(ph), 0.], [0., 0., 1.]])
    monos = []
    for tilt in (False, True):
        famm = []
        for (x, y) in ((.375, .25), (.39, .265), (.36, .23)):
            basis = [[np.zeros(3)], [np.array([x, y, 0.]), np.array([1 - x, 1 - y, 0.]), np.array([.125, .5, .5]), np.array([.875, .5, .5])]]
            c = crystal.Crystal((Rz @ Ry @ ml) if tilt else ml, basis, chemistry=['M', 'i'], noreduce=True)
            famm.append(('mono-mirror-sites%s(x=%g,y=%g)' % ('-tilted' if tilt else '', x, y), c, 1, 0.8))
        monos.append(famm)
    for family in [fam, sq] + monos:
        ref = None
        for name, crys, chem, cutoff in family:
            sl = crys.sitelist(chem); jn = crys.jumpnetwork(chem, cutoff)
            topo = _topology(crys, chem, jn)
            if ref is None:
                ref = (name, crys, chem, sl, jn, topo)
                data = ic.rand_data(ctx.rng, len(sl), len(jn), emax=3)
                args = ic.py_args(data)
                Dref = OnsagerCalc.Interstitial(crys, chem, sl, jn).diffusivity(*args)
                continue
            if [sorted(w) for w in sl] != [sorted(w) for w in ref[3]] or set(topo) != set(ref[5]):
                ctx.count('displaced:topology-differs'); continue
            # assign class data by physical equivalence (same (i,j,R) classes)
            order = [ref[5].index(cl) for cl in topo]
            preT = [args[2][o] for o in order]; beT = [args[3][o] for o in order]
            D = OnsagerCalc.Interstitial(crys, chem, sl, jn).diffusivity(args[0], args[1], preT, beT)
            ctx.case(('displaced', name, str(data)), nontrivial=True)
            ctx.count('displaced:compared')
            # only jump geometry-independent parts must agree: with identical rates D differs through dx; the invariant
            # statement is about displacements that do not change the *periodic* jump vectors' sums, i.e. the transport
            # tensor of the network with the same connectivity and rates: compare through the exact model instead
            lj0 = ic.lattice_jumps(ref[1], ref[4]); lj1 = ic.lattice_jumps(crys, jn)
            d0 = OnsagerCalc.Interstitial(ref[1], ref[2], ref[3], ref[4])
            d1 = OnsagerCalc.Interstitial(crys, chem, sl, jn)
            data1 = dict(data); data1['preT'] = [data['preT'][o] for o in order]; data1['eneT'] = [data['eneT'][o] for o in order]
            a = ctx.lean(DRIVER, ['D # ' + ic.request_line(d0.N, ref[1].dim, d0.invmap, lj0, data),
                                  'D # ' + ic.request_line(d1.N, crys.dim, d1.invmap, lj1, data1)])
            T0 = ic.parse_answer(a[0], crys.dim)[0]; T1 = ic.parse_answer(a[1], crys.dim)[0]
            scale = np.abs(Dref).max()
            if np.abs(T0 - T1).max() > 1e-12 * np.abs(T0).max():
                ctx.disagree('exact model: displaced description gives a different tensor (contradicts displacement_invariant)',
                             dict(ref=ref[0], displaced=name, T0=T0.tolist(), T1=T1.tolist()))
            if np.abs(D - Dref).max() > 1e-9 * scale:
                ctx.violation('interstitial-not-invariant:displacement', 'diffusivity changes (%.3g) when sites are displaced without changing connectivity or rates: %s vs %s'
                              % (np.abs(D - Dref).max(), ref[0], name), dict(ref=ref[0], displaced=name, D_ref=Dref.tolist(), D=D.tolist(), data={k: str(v) for k, v in data.items()}))


def vacancy_part(ctx):
    """Metamorphic oracles on VacancyMediated: preene2betafree + Lij."""
    import vacancy_common as vc
    rng = ctx.rng
    for name, calc in vc.small_calculators(ctx):
        for t in range(2 if ctx.quick else 6):
            d = vc.rand_data(rng, calc)
            kT = 1.0
            L = vc.lij(calc, d, kT)
            sc = max(np.abs(x).max() for x in L)
            rep = dict(calculator=name, data=vc.jsonable(d))

            def compare(label, d2, kT2, factor, tolrel):
                L2 = vc.lij(calc, d2, kT2)
                ctx.case(('vac', name, label, t, str(d['eneT0'])), nontrivial=True); ctx.count('vacancy:' + label)
                for a, b, nm in zip(L, L2, ('L0vv', 'Lss', 'Lsv', 'L1vv')):
                    dev = np.abs(np.asarray(b) - factor * np.asarray(a)).max()
                    if not np.all(np.isfinite(b)) or dev > tolrel * sc * factor:
                        ctx.violation('vacancy-not-invariant:%s:%s' % (label, nm),
                                      '%s of %s changes by %.3g (scale %.3g) under %s' % (nm, name, dev, sc, label), dict(rep, transformed=vc.jsonable(d2), kT=kT2))
                        return
            cV = rng.choice([-30.0, -2.5, 3.0, 50.0]); cS = rng.choice([-30.0, -2.5, 3.0, 50.0])
            d2 = dict(d); d2['eneV'] = d['eneV'] + cV; d2['eneT0'] = d['eneT0'] + cV
            d2['eneT1'] = d['eneT1'] + cV; d2['eneT2'] = d['eneT2'] + cV
            compare('shift-vacancy', d2, kT, 1.0, 1e-8)
            d3 = dict(d); d3['eneS'] = d['eneS'] + cS; d3['eneT1'] = d['eneT1'] + cS; d3['eneT2'] = d['eneT2'] + cS
            compare('shift-solute', d3, kT, 1.0, 1e-8)
            s = math.exp(rng.uniform(-3, 3))
            d4 = dict(d); d4['preV'] = d['preV'] * s; d4['preT0'] = d['preT0'] * s; d4['preT1'] = d['preT1'] * s; d4['preT2'] = d['preT2'] * s
            compare('prescale-vacancy', d4, kT, 1.0, 1e-8)
            d5 = dict(d); d5['preS'] = d['preS'] * s; d5['preT1'] = d['preT1'] * s; d5['preT2'] = d['preT2'] * s
            compare('prescale-solute', d5, kT, 1.0, 1e-8)
            a = math.exp(rng.uniform(-2, 2))
            d6 = {k: (v * a if k.startswith('ene') else v) for k, v in d.items()}
            compare('kT-coscale', d6, kT * a, 1.0, 1e-8)
            f = math.exp(rng.uniform(-4, 4))
            d7 = dict(d); d7['preT0'] = d['preT0'] * f; d7['preT1'] = d['preT1'] * f; d7['preT2'] = d['preT2'] * f
            compare('rate-scale', d7, kT, f, 1e-7)
            # absolute rates many decades away from 1 (barriers of 15 - 30 kT are the normal case): still exactly homogeneous
            f = 10.0 ** rng.choice([-13, -11, -9, -7, 7, 10])
            d8 = dict(d); d8['preT0'] = d['preT0'] * f; d8['preT1'] = d['preT1'] * f; d8['preT2'] = d['preT2'] * f
            compare('rate-scale-decades', d8, kT, f, 1e-7)
            c = rng.choice([18.0, 25.0, 32.0])
            d9 = dict(d); d9['eneT0'] = d['eneT0'] + c; d9['eneT1'] = d['eneT1'] + c; d9['eneT2'] = d['eneT2'] + c
            compare('barrier-shift', d9, kT, math.exp(-c / kT), 1e-7)


def search(ctx, reasons):
    pass
