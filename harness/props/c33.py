"""
C33 — Monte Carlo sampler state is a function of the occupation (onsager/cluster.py: MonteCarloSampler).

Tie: the tables of REAL samplers (siteinteract / Ninteract / interactvalue / Nenergy / vacancy / jumps /
interactrange) are exported and the same histories are run on the implementation and on the Lean model
(Drive/C33.lean): exhaustive exploration of tiny supercells (every occupation x every single / double site
update incl. degenerate ones), long random histories on larger ones, with and without vacancy and jump network,
plus a malformed stream (vacancy / out-of-range sites, invalid or wrong-length occupations).
Direct oracles on the implementation (the property statement itself): state == freshly started sampler on the
current occupation; deltaE_trial == E(after) - E(before) for duplicate-free disjoint arguments; site sets
partition the non-vacancy sites by occupation.  Integer-valued interaction values make all energies exact.
"""
import copy
import numpy as np
from props import mc_common as mc

META = dict(
    id='C33',
    level_text='Kernel-checked theorems for the reference sampler over an ARBITRARY interaction table (any sites, '
               'interactions, multiplicities), any occupation and any history: start establishes, and every update '
               '(repeated / already-satisfied / overlapping sites, exceptions half-way) preserves, "state = start(current '
               'occupation)"; clustercount = number of unoccupied sites per interaction, E() = sum over the energy interactions '
               'with no unoccupied site; the vacancy is in neither set; '
               'deltaE_trial = E(after) - E(before) exactly under the documented precondition (shown necessary by two '
               'counterexamples). The model is tied to the real class by differential histories on exported tables of '
               'real samplers (exhaustive on tiny supercells, long random histories on larger ones).',
    level_note='Trusted: Lean kernel + standard axioms; table export and text protocol of the harness. Modelled not '
               'verified: numpy indexing/int64 arithmetic, Python set/dict semantics (sets as bit-vectors, the trial '
               'dict as a dense vector; float sums are exact for the small-integer tables, for the wide-magnitude tables the '
               'model (exact integers) and the implementation agree within 1e-9*sum|values involved|). '
               'The construction of the tables (clusterevaluator, jumpnetworkevaluator*) belongs to C32/C34.',
    technique='Lean 4 invariant proof (induction over histories, pointwise counting) + differential histories on exported tables + direct oracles',
    lean_modules=['OnsagerModel.C33', 'OnsagerProofs.C33'],
    theorems=['Onsager.C33.start_count', 'Onsager.C33.start_inv', 'Onsager.C33.moveOne_inv', 'Onsager.C33.update_inv',
              'Onsager.C33.update_no_keyerror', 'Onsager.C33.history_eq_fresh', 'Onsager.C33.observables_eq_fresh',
              'Onsager.C33.vacancy_guard', 'Onsager.C33.energy_spec', 'Onsager.C33.deltaE_exact', 'Onsager.C33.deltaE_dup_counterexample',
              'Onsager.C33.deltaE_overlap_counterexample'],
    tie_theorems=[],
    rule='a case = one history on one real sampler (crystal x supercell x {plain, jump network, vacancy, vacancy+jumps, '
         'spectator sublattice}; cluster values either small even integers (all float sums exact) or, for every second / '
         'third sampler, even integers x 2^-q of widely separated magnitude (|v| <= 12 next to odd*2^34..2^62, ratios 1e8..1e18: '
         'float sums round, energies are compared with tol_lin = 1e-9*sum|active values|)): exhaustive cases are (occupation, update) pairs '
         'with the update ranging over all single and double site arguments; random cases are histories of '
         'start/update/trial/E/transitions ops with 0-4 sites per argument, 20% malformed; non-trivial = the history '
         'changes the occupation at least once; distinct by (sampler, op text)',
    trusted=['export of the sampler tables (harness/props/mc_common.py)'],
    assumptions=['site arguments are non-negative (Python negative indices wrap and are outside the documented domain)',
                 'the occupation array passed to start() is not mutated by the caller afterwards (the sampler aliases it)',
                 'after an exception inside start() the sampler is started again before use'],
)

DRIVER = 'Drive/C33.lean'


# ------------------------------------------------------------------ implementation adapter
class Impl:
    def __init__(self, b):
        self.b = b
        self.MC = mc.clone(b.pristine)       # own tables, own state
        self.started = False

    def start(self, occ):
        try:
            self.MC.start(np.array(occ, dtype=int))
            self.started = True
            return 'ok'
        except Exception as e:
            self.started = False
            return 'err:' + mc.err_name(e)

    def upd(self, a, b):
        try:
            self.MC.update(list(a), list(b))
            return 'ok'
        except Exception as e:
            return 'err:' + mc.err_name(e)

    # Energies are reported as exact integers in units of 2^-q (q = 0 for the small-integer tables).  For the
    # wide-magnitude tables float sums round: `*_scale` is the sum of |values| entering a quantity, the roundoff
    # tolerance against exact arithmetic is tol_lin = 1e-9 * scale (0 when every partial sum is exact).
    def to_int(self, x):
        return mc.as_scaled_int(x, self.b.q)

    def active_scale(self):
        cc = np.asarray(self.MC.clustercount)[:self.b.nenergy]
        return float(self.b.absvalues[:self.b.nenergy][cc == 0].sum())

    def touched_scale(self, a, b):
        ne = self.b.nenergy
        return float(sum(self.b.absvalues[m] for i in set(list(a) + list(b)) if 0 <= i < self.b.nsites
                         for m in self.b.rows[i] if m < ne))

    def tol(self, scale):
        return 0 if self.b.regime == 'small' else 1e-9 * scale

    def de(self, a, b):
        try:
            v = self.to_int(self.MC.deltaE_trial(list(a), list(b)))
            return 'ok %s' % ('non-integer' if v is None else v), v
        except Exception as e:
            return 'err:' + mc.err_name(e), None

    def E(self):
        return self.to_int(self.MC.E())

    def obs(self):
        s, w = mc.checksum(self.MC.clustercount)
        return '%s %s %s %d %d' % (self.E(), mc.show_l(sorted(int(i) for i in self.MC.occupied_set)),
                                   mc.show_l(sorted(int(i) for i in self.MC.unoccupied_set)), s, w)

    def trans(self):
        """returns (text without jump numbers, dx list) or error text"""
        try:
            ij, Q, dx = self.MC.transitions()
            qs = [self.to_int(q) for q in Q]
            return 'ok ' + ('-' if not ij else ';'.join('%d:%d:%s' % (int(i), int(j), q) for (i, j), q in zip(ij, qs))), dx
        except Exception as e:
            return 'err:' + mc.err_name(e), None


def _strip_n(ans):
    """model answer 'ok n:i:j:Q;…' -> ('ok i:j:Q;…', [n…])"""
    if not ans.startswith('ok '): return ans, []
    body = ans[3:]
    if body == '-': return ans, []
    parts = [p.split(':') for p in body.split(';')]
    return 'ok ' + ';'.join(':'.join(p[1:]) for p in parts), [int(p[0]) for p in parts]


# ------------------------------------------------------------------ direct oracles (property statement)
def _valid_args(b, a, u):
    s = list(a) + list(u)
    return len(set(s)) == len(s) and all(0 <= i < b.nsites for i in s) and b.vacancy not in s


def oracle_fresh(ctx, im, hist, rng, ntrials=3):
    """state after the history == sampler freshly started on the current occupation"""
    MC, b = im.MC, im.b
    F = copy.copy(b.pristine)     # never-started sampler on pristine tables
    F.start(np.array(MC.occ, dtype=int).copy())

    def viol(sig, what, extra):
        ctx.violation('state-not-fresh:' + sig, what,
                      dict(sampler=b.name, build=b.build, history=list(hist), occ=[int(x) for x in MC.occ], **extra))
    if not np.array_equal(np.asarray(MC.clustercount), np.asarray(F.clustercount)):
        bad = [int(m) for m in np.flatnonzero(np.asarray(MC.clustercount) != np.asarray(F.clustercount))[:5]]
        viol('clustercount', 'clustercount differs from a fresh start on the same occupation',
             dict(interactions=bad, got=[int(MC.clustercount[m]) for m in bad], fresh=[int(F.clustercount[m]) for m in bad]))
        return False
    if set(MC.occupied_set) != set(F.occupied_set) or set(MC.unoccupied_set) != set(F.unoccupied_set):
        viol('sets', 'occupied/unoccupied sets differ from a fresh start',
             dict(occupied=sorted(map(int, MC.occupied_set)), fresh_occupied=sorted(map(int, F.occupied_set)),
                  unoccupied=sorted(map(int, MC.unoccupied_set)), fresh_unoccupied=sorted(map(int, F.unoccupied_set))))
        return False
    # energy: the clean code recomputes E from the counts, so it is history independent; the comparison allows
    # tol_lin = 1e-9 * (sum of |values| of the interactions that are on) and is exact for the small-integer tables
    Eh, Ef = float(MC.E()), float(F.E())
    cc = np.asarray(F.clustercount)[:b.nenergy]
    scale = float(b.absvalues[:b.nenergy][cc == 0].sum()) * 2.0 ** (-b.q)
    if not (abs(Eh - Ef) <= (0.0 if b.regime == 'small' else 1e-9 * scale)):
        viol('E', 'E() after the history differs from E() of a fresh sampler on the same occupation',
             dict(E=Eh, fresh_E=Ef, difference=Eh - Ef, tolerance=1e-9 * scale, sum_abs_active_values=scale))
        return False
    for _ in range(ntrials):
        a, u = _rand_args(rng, b, im, valid=True)
        d1, d2 = MC.deltaE_trial(a, u), F.deltaE_trial(a, u)
        if d1 != d2:
            viol('deltaE', 'deltaE_trial differs from a fresh start', dict(occsites=a, unoccsites=u, dE=float(d1), fresh_dE=float(d2)))
            return False
    if MC.jumps is not None:
        t1, t2 = MC.transitions(), F.transitions()
        if t1[0] != t2[0] or not np.array_equal(t1[1], t2[1]) or not np.array_equal(t1[2], t2[2]):
            viol('transitions', 'transitions() differs from a fresh start', dict(n=len(t1[0]), fresh_n=len(t2[0])))
            return False
    # the sets partition the non-vacancy sites by occupation; vacancy in neither
    occ = [int(x) for x in MC.occ]
    if set(MC.occupied_set) != {i for i, o in enumerate(occ) if o == 1} or \
            set(MC.unoccupied_set) != {i for i, o in enumerate(occ) if o == 0}:
        ctx.violation('set-mismatch', 'site sets are not {occ==1} / {occ==0}',
                      dict(sampler=b.name, build=b.build, history=list(hist), occ=occ,
                           occupied=sorted(map(int, MC.occupied_set)), unoccupied=sorted(map(int, MC.unoccupied_set))))
        return False
    return True


def _rand_args(rng, b, im, valid, maxn=3):
    """site arguments; valid => duplicate-free, disjoint, in range, no vacancy"""
    sites = [i for i in range(b.nsites) if i != b.vacancy]
    if valid:
        k = min(len(sites), rng.randint(0, 2 * maxn))
        pick = rng.sample(sites, k)
        cut = rng.randint(0, k)
        return pick[:cut], pick[cut:]
    a = [rng.choice(sites) for _ in range(rng.randint(0, maxn))]
    u = [rng.choice(sites) for _ in range(rng.randint(0, maxn))]
    return a, u


def _mc_move(rng, im):
    """a physically typical move: occupy one unoccupied site, unoccupy one occupied site"""
    MC = im.MC
    if not MC.occupied_set or not MC.unoccupied_set: return None
    return [int(rng.choice(sorted(MC.unoccupied_set)))], [int(rng.choice(sorted(MC.occupied_set)))]


def _rand_occ(rng, b, p=None):
    p = rng.random() if p is None else p
    occ = [1 if rng.random() < p else 0 for _ in range(b.nsites)]
    if b.vacancy >= 0: occ[b.vacancy] = -1
    return occ


def tol_of(extra, kind):
    if extra is None: return 0
    return extra[1] if kind == 'trans' else extra


def _close(g, e, kind, tol):
    """model answer g (exact arithmetic) vs implementation answer e (float sums, exact integer text): identical
    except that the energy fields may differ by at most tol"""
    try:
        if kind == 'obs':
            gt, et = g.split(' '), e.split(' ')
            return gt[1:] == et[1:] and abs(int(gt[0]) - int(et[0])) <= tol
        if kind == 'de':
            gt, et = g.split(' '), e.split(' ')
            return len(gt) == 2 and len(et) == 2 and gt[0] == et[0] == 'ok' and abs(int(gt[1]) - int(et[1])) <= tol
        if kind == 'trans':
            if not (g.startswith('ok ') and e.startswith('ok ')): return False
            gp, ep = g[3:].split(';'), e[3:].split(';')
            if len(gp) != len(ep): return False
            for x, y in zip(gp, ep):
                x, y = x.split(':'), y.split(':')
                if x[:-1] != y[:-1] or abs(int(x[-1]) - int(y[-1])) > tol: return False
            return True
    except (ValueError, IndexError):
        return False
    return False


# ------------------------------------------------------------------ session runner
class Recorder:
    """collects model request lines with the implementation's answers"""

    def __init__(self, ctx, driver=None):
        self.ctx, self.lines, self.expect, self.meta = ctx, [], [], []
        self.driver = driver or DRIVER

    def add(self, line, expect, b, hist, tail=None, kind='plain', extra=None):
        # hist is append-only: remember its current length instead of copying it
        self.lines.append(line); self.expect.append(expect); self.meta.append((b, hist, len(hist), tail, kind, extra))

    def compare(self):
        ctx = self.ctx
        got = ctx.lean(self.driver, self.lines)
        nd = 0
        for g, e, l, (b, hist, hlen, tail, kind, extra) in zip(got, self.expect, self.lines, self.meta):
            g0 = g
            if kind == 'trans':
                g, ns = _strip_n(g)
                if extra is not None and (g == e or (extra[1] > 0 and _close(g, e, kind, extra[1]))) and extra[0] is not None:
                    dx = extra[0]
                    if len(dx) != len(ns) or any(not np.array_equal(np.asarray(dx[k], dtype=float), b.dx[n]) for k, n in enumerate(ns)):
                        e = e + ' [dx of the listed jumps differ from the jump table]'
            if g != e and kind in ('obs', 'de', 'trans') and tol_of(extra, kind) > 0 and _close(g, e, kind, tol_of(extra, kind)):
                continue
            if g != e:
                nd += 1
                if nd <= 10:
                    ll = l if len(l) < 200 else l[:200] + '…'
                    ctx.disagree('model/implementation differ on `%s` (%s): model `%s` impl `%s`' % (ll, b.name, g0[:300], e[:300]),
                                 dict(sampler=b.name, build=b.build, history=hist[max(0, hlen - 40):hlen] + ([tail] if tail else []),
                                      history_length=hlen, line=ll, model=g0[:2000], impl=e[:2000]))
        return nd


def _apply(ctx, rec, im, op, hist, rng, oracle=True):
    """run one op on the implementation, record the model line, evaluate the oracles"""
    b = im.b
    k = op[0]
    if k == 'start':
        occ = op[1]
        st = im.start(occ)
        hist.append(['start', occ])
        rec.add('start ' + mc.show_l(occ), st, b, hist)
        ctx.count('op:start'); ctx.count('status:start:' + st)
        wf = len(occ) == b.nsites and all((o in (0, 1)) or (i == b.vacancy and o == -1) for i, o in enumerate(occ)) and \
            (b.vacancy < 0 or occ[b.vacancy] == -1)
        if wf and st != 'ok':
            ctx.violation('raises:start:' + st, 'start() rejects a valid occupation',
                          dict(sampler=b.name, build=b.build, history=list(hist)))
        im.domain = wf and st == 'ok'
        return st
    if k == 'upd':
        a, u = op[1], op[2]
        valid = _valid_args(b, a, u)
        E0 = dE = None
        if oracle and im.domain and valid:
            dtxt, dE = im.de(a, u)
            E0, S0 = im.E(), im.active_scale()
            rec.add('de %s %s' % (mc.show_l(a), mc.show_l(u)), dtxt, b, hist, tail=['de', a, u], kind='de',
                    extra=im.tol(im.touched_scale(a, u)))
        before = None if not (oracle and im.domain) else [int(x) for x in im.MC.occ]
        st = im.upd(a, u)
        hist.append(['upd', a, u])
        rec.add('upd %s %s' % (mc.show_l(a), mc.show_l(u)), st, b, hist)
        ctx.count('op:upd'); ctx.count('status:upd:' + st)
        if oracle and im.domain:
            if valid and st != 'ok':
                ctx.violation('raises:update:' + st, 'update() raises on duplicate-free in-range arguments',
                              dict(sampler=b.name, build=b.build, history=list(hist)))
            if valid and st == 'ok':
                E1, S1 = im.E(), im.active_scale()
                if dE is None or E0 is None or E1 is None or not (abs(dE - (E1 - E0)) <= im.tol(S0 + S1)):
                    ctx.violation('deltaE-inexact', 'deltaE_trial != E(after update) - E(before)',
                                  dict(sampler=b.name, build=b.build, history=hist[:-1], occ_before=before,
                                       occsites=a, unoccsites=u, deltaE_trial=dE, E_before=E0, E_after=E1,
                                       unit='2^-%d' % b.q, tolerance=im.tol(S0 + S1)))
            im.changed |= (before != [int(x) for x in im.MC.occ])
        return st
    if k == 'de':
        a, u = op[1], op[2]
        dtxt, _ = im.de(a, u)
        rec.add('de %s %s' % (mc.show_l(a), mc.show_l(u)), dtxt, b, hist, tail=['de', a, u], kind='de',
                extra=im.tol(im.touched_scale(a, u)))
        ctx.count('op:de')
        if oracle and im.domain and _valid_args(b, a, u) and not dtxt.startswith('ok'):
            ctx.violation('raises:deltaE_trial:' + dtxt, 'deltaE_trial() raises on valid arguments',
                          dict(sampler=b.name, build=b.build, history=list(hist), occsites=a, unoccsites=u))
        return dtxt
    if k == 'obs':
        rec.add('obs', im.obs(), b, hist, tail=['obs'], kind='obs', extra=im.tol(im.active_scale()))
        ctx.count('op:obs')
        return 'ok'
    if k == 'cc':
        rec.add('cc', mc.show_l(im.MC.clustercount), b, hist, tail=['cc'])
        return 'ok'
    if k == 'trans':
        t, dx = im.trans()
        rec.add('trans', t, b, hist, tail=['trans'], kind='trans', extra=(dx, im.tol(float(b.absvalues.sum()))))
        ctx.count('op:trans')
        return t
    if k == 'fresh':
        if im.domain: oracle_fresh(ctx, im, hist, rng)
        ctx.count('oracle:fresh')
        return 'ok'
    raise ValueError(op)


def _tables_ok(ctx, im, hist):
    t = mc.tables_changed(im.MC, im.b)
    if t:
        ctx.violation('tables-mutated:' + t, 'a history of start/update/trial calls changed the sampler table ' + t,
                      dict(sampler=im.b.name, build=im.b.build, history=list(hist)[-50:]))


def _new_session(ctx, rec, b, announce=True):
    im = Impl(b)
    im.domain, im.changed = False, False
    if not announce: return im
    rec.add(b.table_line, 'ok', b, [])
    for p in b.problems:
        ctx.disagree('table of %s violates a structural assumption of the model: %s' % (b.name, p),
                     dict(sampler=b.name, build=b.build, problem=p))
    return im


def exhaustive(ctx, rec, b, rng, frac_doubles=1.0):
    """every occupation x every single / double site update (incl. i == j and the vacancy)"""
    n = b.nsites
    free = [i for i in range(n) if i != b.vacancy]
    im = _new_session(ctx, rec, b)
    ups = [([i], []) for i in range(n)] + [([], [i]) for i in range(n)]
    dbl = [([i], [j]) for i in range(n) for j in range(n)] + [([i, j], []) for i in range(n) for j in range(n)] + \
          [([], [i, j]) for i in range(n) for j in range(n)]
    ncase = 0
    for bits in range(2 ** len(free)):
        occ = [0] * n
        for k, i in enumerate(free): occ[i] = (bits >> k) & 1
        if b.vacancy >= 0: occ[b.vacancy] = -1
        todo = ups + (dbl if frac_doubles >= 1.0 else [d for d in dbl if rng.random() < frac_doubles])
        # one sampler object per occupation, restarted before every update: its whole history is the replay
        if bits: _tables_ok(ctx, im, hist)
        im = _new_session(ctx, rec, b, announce=False)
        hist = []
        for a, u in todo:
            _apply(ctx, rec, im, ('start', occ), hist, rng)
            _apply(ctx, rec, im, ('upd', a, u), hist, rng)
            _apply(ctx, rec, im, ('obs',), hist, rng)
            _apply(ctx, rec, im, ('fresh',), hist, rng)
            ncase += 1
            ctx.case((b.name, tuple(occ), tuple(a), tuple(u)), nontrivial=[int(x) for x in im.MC.occ] != occ,
                     sample=dict(sampler=b.name, occ=occ, update=[a, u]) if ncase == 7 else None)
        if b.jumps is not None:
            _apply(ctx, rec, im, ('start', occ), hist, rng)
            _apply(ctx, rec, im, ('trans',), hist, rng)
    _tables_ok(ctx, im, hist)
    ctx.count('exhaustive-cases', ncase)


def _rand_op(rng, b, im, malformed):
    r = rng.random()
    if not im.started or r < 0.03:
        if malformed and rng.random() < 0.5:
            occ = _rand_occ(rng, b)
            c = rng.random()
            if c < 0.3 and b.nsites > 1: occ[rng.randrange(b.nsites)] = rng.choice([2, -1, 3, -2])
            elif c < 0.5 and b.vacancy >= 0: occ[b.vacancy] = rng.choice([0, 1])
            elif c < 0.75: occ = occ[:rng.randrange(b.nsites)] if b.nsites > 1 else occ
            else: occ = occ + [rng.choice([0, 1]) for _ in range(rng.randint(1, 3))]
            return ('start', occ)
        return ('start', _rand_occ(rng, b))
    if not im.domain:
        # after a wrong-length start only look, then restart
        return ('obs',) if r < 0.5 else ('start', _rand_occ(rng, b))
    if r < 0.45:
        c = rng.random()
        if malformed and c < 0.25:
            a, u = _rand_args(rng, b, im, valid=False)
            bad = rng.choice([b.vacancy if b.vacancy >= 0 else b.nsites, b.nsites, b.nsites + rng.randint(1, 5)])
            tgt = a if rng.random() < 0.5 else u
            tgt.insert(rng.randint(0, len(tgt)), bad)
            return ('upd', a, u)
        if c < 0.45:
            mv = _mc_move(rng, im)
            if mv: return ('upd', mv[0], mv[1])
        if c < 0.8: return ('upd',) + _rand_args(rng, b, im, valid=True)
        return ('upd',) + _rand_args(rng, b, im, valid=False, maxn=4)
    if r < 0.65:
        c = rng.random()
        if malformed and c < 0.2:
            a, u = _rand_args(rng, b, im, valid=False)
            (a if rng.random() < 0.5 else u).append(rng.choice([b.vacancy if b.vacancy >= 0 else b.nsites, b.nsites + 2]))
            return ('de', a, u)
        return ('de',) + _rand_args(rng, b, im, valid=(c < 0.7), maxn=4)
    if r < 0.85: return ('obs',)
    if r < 0.93: return ('trans',)
    return ('fresh',)


def random_history(ctx, rec, b, rng, length, malformed, fresh_every=25, full_cc_every=400):
    im = _new_session(ctx, rec, b)
    hist = []
    ops_txt = []
    for t in range(length):
        op = _rand_op(rng, b, im, malformed)
        _apply(ctx, rec, im, op, hist, rng)
        ops_txt.append(op)
        if im.started and im.domain and t % fresh_every == fresh_every - 1:
            _apply(ctx, rec, im, ('obs',), hist, rng)
            _apply(ctx, rec, im, ('fresh',), hist, rng)
        if im.started and im.domain and t % full_cc_every == full_cc_every - 1:
            _apply(ctx, rec, im, ('cc',), hist, rng)
    if im.started and im.domain:
        _apply(ctx, rec, im, ('obs',), hist, rng)
        _apply(ctx, rec, im, ('cc',), hist, rng)
        _apply(ctx, rec, im, ('fresh',), hist, rng)
    _tables_ok(ctx, im, hist)
    ctx.case((b.name, repr(ops_txt)), nontrivial=im.changed,
             sample=dict(sampler=b.name, malformed=malformed, first_ops=[list(o) for o in ops_txt[:6]]))
    ctx.count('random-histories'); ctx.count('random-ops', length)


# tiny supercells for the exhaustive part, larger ones for the long histories
TINY = [('sc', 'd211', 'jumps'), ('sc', 'd221', 'plain'), ('sc', 'd221', 'vac'), ('fcc', 'skew2', 'jumps'),
        ('bcc', 'd211', 'vac'), ('b2', 'd211', 'plain'), ('square', 'd221', 'jumps'), ('triang', 'skew3', 'plain'),
        ('honey', 'd211', 'vac'), ('hcp', 'd211', 'plain'), ('dia', 'd111', 'jumps'), ('tric', 'd211', 'vacplain'),
        ('b2spec', 'd221', 'plain'), ('sc', 'd311', 'vac'), ('fcc', 'd221', 'plain'), ('triang', 'd221', 'jumps'),
        ('sc', 'd222', 'plain'), ('bcc', 'd222', 'vacplain'), ('honey', 'd221', 'plain'), ('dia', 'd211', 'plain')]
LARGE = [('fcc', 'd222', 'jumps'), ('sc', 'd333', 'plain'), ('bcc', 'd322', 'vac'), ('hcp', 'd221', 'jumps'),
         ('b2', 'd222', 'jumps'), ('b2spec', 'd222', 'vac'), ('dia', 'd222', 'vac'), ('square', 'd441', 'jumps'),
         ('triang', 'd331', 'vac'), ('honey', 'd331', 'jumps'), ('tric', 'd221', 'jumps'), ('fcc', 'sk4', 'vac'),
         ('sc', 'sk4', 'jumps'), ('hcp', 'd222', 'plain'), ('bcc', 'd333', 'plain'), ('fcc', 'd333', 'vacplain')]


def _build(ctx, spec, rng, regime='small'):
    try:
        return mc.build(spec[0], spec[1], spec[2], rng, order=spec[3] if len(spec) > 3 else 3, regime=regime)
    except Exception as e:   # a combination the library cannot construct is not a property failure
        ctx.note('sampler %s not constructible: %r' % ('/'.join(map(str, spec)), e))
        ctx.count('skipped:build')
        return None


def run(ctx):
    rng = ctx.rng
    rec = Recorder(ctx)
    # (1) exhaustive on tiny supercells
    tiny = list(TINY)
    rng.shuffle(tiny)
    nexh = 5 if ctx.quick else len(tiny)
    done = 0
    for spec in tiny:
        # quick: at least 5 tiny samplers and (so that the workload does not depend on the seed's draw) at least
        # ~6000 evaluated cases, at most 12 samplers
        if ctx.quick and done >= 12: break
        if done >= nexh and (not ctx.quick or ctx.evaluations >= 6000): break
        # every second tiny sampler has interaction values of widely separated magnitude (ratios 1e8 .. 1e18)
        b = _build(ctx, spec, rng, regime=('wide' if done % 2 == 1 else 'small'))
        if b is None or b.nsites > 8: continue
        ctx.count('values:' + b.regime)
        nfree = b.nsites - (1 if b.vacancy >= 0 else 0)
        cost = (2 ** nfree) * (2 * b.nsites + 3 * b.nsites ** 2)
        lim = 3000 if ctx.quick else 60000
        frac = 1.0 if cost <= lim else lim / cost
        exhaustive(ctx, rec, b, rng, frac_doubles=frac)
        ctx.count('exhaustive-samplers'); ctx.count('exhaustive:' + ('full' if frac >= 1 else 'all-occupations-sampled-doubles'))
        done += 1
    # (2) long random histories
    large = list(LARGE) + list(TINY)
    rng.shuffle(large)
    nhist = 14 if ctx.quick else 80
    for t in range(nhist):
        spec = large[t % len(large)]
        # every third history runs on a table with a hard-core scale next to ordinary terms; there the fresh-sampler
        # comparison is made every few ops, so that configurations visited after leaving a high-energy one are seen
        wide = (t % 3 == 1)
        b = _build(ctx, spec, rng, regime=('wide' if wide else 'small'))
        if b is None: continue
        ctx.count('values:' + b.regime)
        nint = len(b.values)
        if ctx.quick: length = 250 if nint > 3000 else 600
        else: length = 2500 if nint > 3000 else 10000
        if t >= 4 and ctx.budget_left() < (40 if ctx.quick else 300):
            ctx.count('skipped:budget'); break
        random_history(ctx, rec, b, rng, length, malformed=(t % 5 == 4),
                       fresh_every=((4 if nint <= 3000 else 12) if wide else 25))
    rec.compare()


class _Null:
    def add(self, *a, **k): pass


def replay(ctx, data):
    """./check C33 quick --replay replays/C33_….json : rebuild the sampler, re-run the history, re-evaluate the oracles"""
    r = data['replay']
    b = mc.rebuild(r['build'])
    im = Impl(b); im.domain, im.changed = False, False
    hist = []
    for op in r.get('history', []):
        if op[0] in ('start', 'upd', 'de'):
            st = _apply(ctx, _Null(), im, tuple(op), hist, ctx.rng)
            print('%-60s -> %s' % (str(op)[:60], st))
            if im.started and im.domain: oracle_fresh(ctx, im, hist, ctx.rng)
    if 'occsites' in r and 'E_before' in r:
        _apply(ctx, _Null(), im, ('upd', r['occsites'], r['unoccsites']), hist, ctx.rng)
    for v in ctx.violations[:3]:
        print('VIOLATION reproduced: %s — %s\n  %s' % (v['sig'], v['what'], {k: w for k, w in v['replay'].items() if k not in ('build', 'history')}))
    if not ctx.violations: print('no violation on replay')
    return 1 if ctx.violations else 0


def search(ctx, reasons):
    """failing-input search with the direct oracles only (no model): malformed and valid long histories on every
    sampler of the zoo, oracle after every op"""
    rng = ctx.rng

    class Null:
        def add(self, *a, **k): pass
    rec = Null()
    for k, spec in enumerate(TINY + LARGE):
        if ctx.violations or ctx.budget_left() < 10: break
        b = _build(ctx, spec, rng, regime=('wide' if k % 2 else 'small'))
        if b is None: continue
        im = Impl(b); im.domain, im.changed = False, False
        hist = []
        for t in range(300):
            op = _rand_op(rng, b, im, malformed=(t % 3 == 0))
            _apply(ctx, rec, im, op, hist, rng)
            if im.started and im.domain and op[0] == 'upd':
                if not oracle_fresh(ctx, im, hist, rng): break
