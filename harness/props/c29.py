"""
C29 — Calculation-setup supercells contain the right defects and mappings.

Direct oracles on the real `makesupercells` output (Interstitial and VacancyMediated calculators over a zoo
of crystals and supercell matrices, including too-small ones):
  * each state cell = defect-free reference + exactly the defects named by its tag, at the named positions
    (tag text parsed independently; sites located by an independent periodic nearest-site search);
  * each transition pair: both endpoints contain the defects named by the tag; they differ by one moving
    atom listed at the same place of `chemorder` in both (NEB ordering); its minimum-image displacement is
    the jump (atom = -dx for vacancy jumps, +dx for interstitial jumps) whenever dx is its own minimum
    image; otherwise the call must have warned;
  * each recorded mapping (state tag, g, mapping): g*state reordered by mapping == transition endpoint
    (occ and chemorder exactly), entry k of `transmapping[tag]` belongs to endpoint k; an endpoint without
    mapping has no equivalent state cell (brute force over the states and G);
  * warnings <-> kinetic-shell states whose dx is not its own image in the supercell.
Correspondence: the same cells are rebuilt by the Lean model (OnsagerModel/C29.lean over the C28 cell) from
the site indices, and the mapping is applied by the model; occ, chemorder, sanity and the position of the
single ordering difference are compared.
"""
import re, time, warnings
import numpy as np
from props import c27zoo

META = dict(
    id='C29',
    level_text='partial: kernel-checked theorems over the C28 occupancy model for the constructions used by makesupercells: '
               'a state cell differs from the base exactly at the named sites; the remove-two/place-one construction '
               '(omega0, omega1) and the exchange construction (omega2) give endpoints whose chemorder lists coincide '
               'except for the single moving atom at the same list position; applying a mapping found by equivalencemap '
               '(C27) with __imul__ + reorder gives the transition endpoint exactly. Positions, tags, minimum-image '
               'displacements, warnings and the choice of representatives (C24/C26 territory) are NOT modelled: they are '
               'checked by direct oracles on the real output for every generated calculator/supercell.',
    level_note='Trusted: Lean kernel + standard axioms; harness (tag parser, periodic nearest-site search). Modelled not '
               'verified: Supercell.index position lookup, float geometry.',
    technique='Lean 4 proofs about the cell constructions + differential rebuild of every generated cell + direct oracles',
    lean_modules=['OnsagerModel.C29', 'OnsagerProofs.C29'],
    theorems=['Onsager.C29.stateCell_occ', 'Onsager.C29.vacPair_spec', 'Onsager.C29.vacPair_aligned',
              'Onsager.C29.exchPair_spec', 'Onsager.C29.exchPair_aligned', 'Onsager.C29.interPair_spec',
              'Onsager.C29.mapping_transforms_state'],
    tie_theorems=[],
    rule='(calculator: Interstitial or VacancyMediated on a zoo crystal, supercell matrix: diagonal 1..4, non-diagonal, '
         'too small); a case is one state cell, one transition pair or one recorded mapping; non-trivial = supercell '
         'size > 1; distinct by (crystal, matrix, tag)',
    trusted=['tag parser and periodic nearest-site search in harness/props/c29.py'],
    assumptions=['3-D crystals only (Supercell is 3-D)', 'tags carry positions to 3 decimals: sites closer than 2e-3 '
                 '(unit-cell coordinates) cannot be told apart by the tag oracle (not generated)'],
)

DRIVER = 'Drive/C29.lean'
_NUM = r'([+-]\d+\.\d{3})'
_SINGLE = re.compile(r'^([isv]):' + _NUM + ',' + _NUM + ',' + _NUM + '$')


def _j(x):
    if isinstance(x, np.ndarray): return x.tolist()
    if isinstance(x, (np.integer,)): return int(x)
    if isinstance(x, (np.floating,)): return float(x)
    if isinstance(x, (list, tuple)): return [_j(y) for y in x]
    return x


def _l(l):
    return '-' if len(l) == 0 else ','.join(str(int(x)) for x in l)


def _ll(ll):
    return '-' if len(ll) == 0 else ';'.join((','.join(str(int(x)) for x in l) if len(l) else '_') for l in ll)


def _cell(sup):
    return '%s %s %d' % (_l(sup.occ), _ll(sup.chemorder), 1 if sup.__sane__() else 0)


# ---------------------------------------------------------------- tag parsing (independent of the calculator)
def parse_single(s):
    m = _SINGLE.match(s)
    if not m: raise ValueError('unparsable defect tag %r' % s)
    return (m.group(1), np.array([float(m.group(k)) for k in (2, 3, 4)]))


def parse_state(tag):
    """list of (type, u) named by a state tag"""
    if '-v:' in tag:
        a, b = tag.split('-v:', 1)
        return [parse_single(a), parse_single('v:' + b)]
    return [parse_single(tag)]


def parse_transition(tag):
    """(kind, defects of endpoint 0, defects of endpoint 1 (or None when only known up to a translation))"""
    if tag.startswith('omega0:'):
        a, b = tag[7:].split('^')
        return 'omega0', [parse_single(a)], [parse_single(b)]
    if tag.startswith('omega1:'):
        a, b = tag[7:].split('^')
        d0 = parse_state(a)
        return 'omega1', d0, [d0[0], parse_single(b)]
    if tag.startswith('omega2:'):
        a, b = tag[7:].split('^')
        return 'omega2', parse_state(a), parse_state(b)
    a, b = tag.split('^')
    return 'interstitial', [parse_single(a)], [parse_single(b)]


def locate(sup, u, tol=1.1e-3):
    """site whose unit-cell coordinate equals u modulo the supercell (independent of Supercell.index);
    returns (index or None, number of sites within tol)"""
    x = np.dot(sup.invsuper, u) / sup.size
    d = sup.pos - x
    d -= np.round(d)
    du = np.abs(np.dot(d, sup.superlatt.T))      # back to unit-cell coordinates
    hit = np.nonzero(du.max(axis=1) < tol)[0]
    return (int(hit[0]) if len(hit) >= 1 else None), len(hit)


def reference_occ(sup, interchem=None):
    occ = np.array([sup.atomindices[ind % sup.N][0] for ind in range(sup.N * sup.size)], dtype=int)
    if interchem is not None:
        occ[occ == interchem] = -1
    return occ


def fits(sup, dx, eps=1e-6):
    """is dx (Cartesian) its own component-wise minimum image in the supercell?  'in' (strictly inside the half
    cell), 'out' (outside), 'edge' (on the boundary within eps: the float code may go either way)"""
    x = np.abs(np.linalg.solve(sup.lattice, dx))
    if np.all(x < 0.5 - eps): return 'in'
    if np.any(x > 0.5 + eps): return 'out'
    return 'edge'


def describe_cell(sup, occ_expected, ref):
    """the property stated on one generated cell: perfect host (every host site holds its own species, interstitial
    sublattice empty) + exactly the named defects; returns None when it holds, else a description for the replay"""
    bad = {}
    if not np.array_equal(sup.occ, occ_expected):
        diff = [int(i) for i in np.nonzero(sup.occ != occ_expected)[0]]
        bad['sites_differing'] = [dict(site=i, atom=[int(x) for x in sup.atomindices[i % sup.N]], found=int(sup.occ[i]),
                                       expected=int(occ_expected[i]), perfect_host=int(ref[i])) for i in diff[:12]]
        bad['number_of_sites_differing'] = len(diff)
    counts = [len(l) for l in sup.chemorder]
    want = [int(np.sum(occ_expected == c)) for c in range(len(sup.chemorder))]
    if counts != want:
        bad['atoms_per_chemistry'] = dict(found=counts, expected=want)
    # defect list through the implementation's own census, against an independent one
    exp = {}
    for i in np.nonzero(occ_expected != ref)[0]:
        c, host = int(occ_expected[i]), sup.atomindices[i % sup.N][0]
        if host in sup.interstitial: nm = sup.chemistry[c] + '_i'
        elif c == -1: nm = 'v_' + sup.chemistry[host]
        else: nm = sup.chemistry[c] + '_' + sup.chemistry[host]
        exp.setdefault(nm, set()).add(int(i))
    got = {k: set(int(x) for x in v) for k, v in sup.defectindices().items()}
    if got != exp:
        bad['defects'] = dict(found={k: sorted(v) for k, v in got.items()}, expected={k: sorted(v) for k, v in exp.items()})
    if not sup.__sane__(): bad['sane'] = False
    return bad or None


# ---------------------------------------------------------------- the oracles for one superdict
def check_superdict(ctx, kind, name, calc, S, sd, warns, lines, checks):
    crys, chem = calc.crys, calc.chem
    rep0 = dict(calculator=kind, crystal=name, chem=chem, superlatt=_j(S), lattice=_j(crys.lattice), basis=_j(crys.basis))
    size = abs(int(round(np.linalg.det(S))))

    def viol(sig, what, **kw):
        ctx.violation(sig, what, dict(rep0, **kw))

    states, trans, tmap = sd['states'], sd['transitions'], sd['transmapping']
    small_warns = [w for w in warns if 'too small' in w.lower()]
    anysup = next(iter(states.values()))
    n = anysup.N * anysup.size
    vchem, schem = -1, crys.Nchem
    if kind == 'I':
        ref = reference_occ(anysup, interchem=chem)
        val = {'i': chem}
    else:
        ref = reference_occ(anysup)
        val = {'v': vchem, 's': schem}
        r = sd.get('reference')
        if r is None or not np.array_equal(r.occ, ref) or not r.__sane__() or r.defectindices():
            viol('reference-not-defect-free', 'superdict[reference] is not the defect-free cell')
    # ---- model: base cell
    fills = []
    for (c, i) in crys.atomindices:
        if kind == 'I' and c == chem: continue
        a = anysup.indexatom[(c, i)]
        fills.append('%d:%s' % (c, _l([k * anysup.N + a for k in range(anysup.size)])))
    nchem = anysup.Nchem
    lines.append('base %d %d %s' % (n, nchem, '|'.join(fills) if fills else '-'))
    basecell = anysup.copy()
    for k in range(n): basecell.setocc(k, -1)
    for (c, i) in crys.atomindices:
        if kind == 'I' and c == chem: continue
        basecell.fillperiodic((c, i), Wyckoff=False)
    checks.append((rep0, _cell(basecell), 'base'))

    def expected(defects, what, tag):
        """(expected occ, [sites]) for a list of named defects, or None after reporting"""
        occ = ref.copy()
        sites = []
        for typ, u in defects:
            ind, cnt = locate(anysup, u)
            if ind is None or cnt != 1:
                viol('tag-position-not-a-site', '%s: position named by the tag is not (exactly one) site of the supercell' % what,
                     tag=tag, position=_j(u), matches=cnt)
                return None, None
            if typ not in val:
                viol('tag-type', '%s: unexpected defect type %r' % (what, typ), tag=tag)
                return None, None
            if anysup.atomindices[ind % anysup.N][0] != chem:
                viol('tag-wrong-sublattice', '%s: named position is not on the sublattice of the moving species' % what, tag=tag)
                return None, None
            occ[ind] = val[typ]
            sites.append(ind)
        return occ, sites

    # ---- states
    for tag, sup in states.items():
        try:
            defects = parse_state(tag)
        except ValueError as e:
            viol('tag-unparsable', str(e), tag=tag); continue
        occ, sites = expected(defects, 'state', tag)
        ctx.case((name, S.tobytes(), tag), nontrivial=size > 1,
                 sample=dict(calculator=kind, crystal=name, superlatt=_j(S), state=tag))
        ctx.count('state-cells')
        if occ is None: continue
        if len(set(sites)) != len(sites):
            # too-small cell: two named defects fall on the same site
            if not small_warns:
                viol('state-defects-coincide-silent', 'two defects of a state tag fall on one site and no warning was issued', tag=tag)
            ctx.count('too-small:state-defects-coincide')
            continue
        bad = describe_cell(sup, occ, ref)
        if bad is not None:
            viol('state-cell-wrong-defects', 'state cell is not the perfect host supercell plus exactly the defects named by its tag',
                 tag=tag, **bad)
            continue
        lines.append('state ' + ','.join('%d:%d' % (i, val[t]) for (t, u), i in zip(defects, sites)))
        checks.append((dict(rep0, tag=tag), _cell(sup), 'state'))
        idx = sd['indices'].get(tag)
        ok = (calc.tags['states'][idx][0] == tag) if kind == 'I' else \
            (isinstance(idx, tuple) and calc.tags[idx[0]][idx[1]][0] == tag)
        if not ok:
            viol('indices-wrong', 'superdict[indices][tag] does not point back to the tag', tag=tag, index=_j(idx))

    # ---- warnings <-> too small (vacancy-mediated only: the interstitial code has no such check)
    if kind == 'V':
        cls = [fits(anysup, PS.dx) for PS in calc.kinetic.states]
        nout, nedge = cls.count('out'), cls.count('edge')
        nw = sum(1 for w in warns if 'too small' in w)
        if not (nout <= nw <= nout + nedge):
            viol('warning-count', 'number of too-small warnings does not match the kinetic states whose dx is not its own image',
                 warnings=nw, states_not_fitting=nout, states_on_the_boundary=nedge)
        # classification of each warning: thermodynamic range / escape endpoint
        nthermo_out = sum(1 for PS, c in zip(calc.kinetic.states, cls) if c == 'out' and PS in calc.thermo)
        nthermo_edge = sum(1 for PS, c in zip(calc.kinetic.states, cls) if c == 'edge' and PS in calc.thermo)
        nwt = sum(1 for w in warns if 'too small' in w and 'thermodynamic range' in w)
        if not (nthermo_out <= nwt <= nthermo_out + nthermo_edge):
            viol('warning-class', 'too-small warnings naming the thermodynamic range do not match the thermodynamic states that do not fit',
                 warnings=nwt, thermo_states_not_fitting=nthermo_out, on_the_boundary=nthermo_edge)
        if nout: ctx.count('too-small:vacancy-supercells')
    else:
        # interstitial: one warning per representative jump that is not its own image, none otherwise
        cls = [fits(anysup, jl[0][1]) for jl in calc.jumpnetwork]
        nout, nedge = cls.count('out'), cls.count('edge')
        nw = len(small_warns)
        if nw > nout + nedge:
            viol('warning-count', 'too-small warnings were issued although every representative jump is its own minimum image',
                 warnings=nw, jumps_not_fitting=nout, jumps_on_the_boundary=nedge)
        if nout: ctx.count('too-small:interstitial-supercells')

    # ---- transitions
    if kind == 'I':
        jumps = {tags[0]: jl[0] for jl, tags in zip(calc.jumpnetwork, calc.tags['transitions'])}
    else:
        jumps = {}
        for typ, jn in (('omega0', calc.om0_jn), ('omega1', calc.om1_jn), ('omega2', calc.om2_jn)):
            for jl, tags in zip(jn, calc.tags[typ]):
                jumps[tags[0]] = jl[0]
    Gs = None
    for tag, (s0, s1) in trans.items():
        ctx.case((name, S.tobytes(), tag), nontrivial=size > 1,
                 sample=dict(calculator=kind, crystal=name, superlatt=_j(S), transition=tag))
        ctx.count('transition-pairs')
        try:
            tk, d0, d1 = parse_transition(tag)
        except ValueError as e:
            viol('tag-unparsable', str(e), tag=tag); continue
        (ij, dx) = jumps.get(tag, (None, None))
        if dx is None:
            viol('transition-tag-unknown', 'transition tag is not the representative of a jump class', tag=tag); continue
        big = fits(anysup, dx)
        if big == 'edge':
            ctx.count('too-small:jump-on-half-cell-boundary')
            continue
        big = (big == 'in')
        occ0, sites0 = expected(d0, 'transition initial', tag)
        if occ0 is None: continue
        if tk == 'omega2':
            # the final complex is named in the frame of the exchanged solute: defined up to a lattice translation;
            # the exchange itself fixes it: solute <-> vacancy
            occ1 = ref.copy(); occ1[sites0[0]] = vchem; occ1[sites0[1]] = schem
            us, uv = d0[0][1], d0[1][1]
            us2, uv2 = d1[0][1], d1[1][1]
            T = uv - us2
            if np.abs(T - np.round(T)).max() > 2.1e-3 or np.abs((us - uv2) - T).max() > 2.1e-3:
                viol('omega2-tag-not-exchange', 'omega2 tag: final complex is not the exchanged initial complex (mod a lattice translation)', tag=tag)
            sites1 = [sites0[1], sites0[0]]
        else:
            occ1, sites1 = expected(d1, 'transition final', tag)
            if occ1 is None: continue
        degenerate = len(set(sites0)) != len(sites0) or len(set(sites1)) != len(sites1) or \
            np.array_equal(occ0, occ1)
        if degenerate or not big:
            ctx.count('too-small:transition')
            if not small_warns:
                viol('too-small-silent:' + ('interstitial' if kind == 'I' else 'vacancy'),
                     '%s.makesupercells: jump does not fit the supercell (%s) and no "too small" warning is issued'
                     % ('Interstitial' if kind == 'I' else 'VacancyMediated',
                        'both endpoints are the same cell' if np.array_equal(s0.occ, s1.occ) else 'dx is not its own minimum image'),
                     tag=tag, dx=_j(dx), endpoints_identical=bool(np.array_equal(s0.occ, s1.occ)))
            continue
        bad0, bad1 = describe_cell(s0, occ0, ref), describe_cell(s1, occ1, ref)
        if bad0 is not None or bad1 is not None:
            viol('transition-endpoint-wrong-defects', 'transition endpoints are not the perfect host supercell plus exactly the defects named by the tag',
                 tag=tag, initial=bad0, final=bad1)
            continue
        # single moving atom, NEB ordering
        diffsites = [int(i) for i in np.nonzero(s0.occ != s1.occ)[0]]
        shape_ok = len(s0.chemorder) == len(s1.chemorder) and all(len(a) == len(b) for a, b in zip(s0.chemorder, s1.chemorder))
        odiff = [(c, k, a[k], b[k]) for c, (a, b) in enumerate(zip(s0.chemorder, s1.chemorder))
                 for k in range(min(len(a), len(b))) if a[k] != b[k]]
        if not shape_ok or len(diffsites) != 2 or len(odiff) != 1:
            viol('not-single-mover', 'transition endpoints do not differ by a single moving atom at one chemorder position',
                 tag=tag, occ_differs_at=diffsites, chemorder_differs=_j(odiff), chemorder0=_j(s0.chemorder), chemorder1=_j(s1.chemorder))
            continue
        c, k, p, q = odiff[0]
        if not (s0.occ[p] == c and s1.occ[q] == c and s0.occ[q] == -1 and s1.occ[p] == -1 and {p, q} == set(diffsites)):
            viol('not-single-mover', 'the chemorder difference is not one atom moving into an empty site',
                 tag=tag, species=c, position=k, sites=[p, q])
            continue
        d = s0.pos[q] - s0.pos[p]
        d -= np.floor(d + 0.5)
        disp = np.dot(s0.lattice, d)
        want = dx if kind == 'I' else -dx
        if not np.allclose(disp, want, atol=1e-8 * max(1., np.abs(crys.lattice).max())):
            viol('mover-displacement', 'minimum-image displacement of the moving atom != the jump vector',
                 tag=tag, displacement=_j(disp), expected=_j(want), mover=[c, k, p, q])
            continue
        want_c = chem if tk in ('interstitial', 'omega0', 'omega1') else schem
        if c != want_c:
            viol('mover-species', 'the moving atom has the wrong species', tag=tag, species=c, expected=want_c)
        # model rebuild of the pair
        if tk == 'interstitial':
            lines.append('inter %d %d %d' % (sites0[0], sites1[0], chem))
        elif tk == 'omega0':
            lines.append('vac - %d %d %d' % (sites0[0], sites1[0], chem))
        elif tk == 'omega1':
            lines.append('vac %d:%d %d %d %d' % (sites0[0], schem, sites0[1], sites1[1], chem))
        else:
            lines.append('exch %d %d %d' % (sites0[0], sites0[1], schem))
        checks.append((dict(rep0, tag=tag), '%s | %s | %d.%d.%d.%d' % (_cell(s0), _cell(s1), c, k, p, q), 'pair'))

    # ---- mappings
    statelist = list(states.items())
    for tag, (s0, s1) in trans.items():
        tm = tmap.get(tag)
        if tm is None or len(tm) != 2:
            to = []
            for e in (tm or ()):
                if e is None: to.append(None); continue
                try:
                    T = e[1] * states[e[0]]; T.reorder(e[2])
                    to.append([nm for nm, end in (('initial', s0), ('final', s1)) if np.array_equal(T.occ, end.occ)])
                except Exception as ex:
                    to.append('error %r' % (ex,))
            viol('transmapping-misaligned', 'transmapping[tag] does not have one entry per endpoint: an endpoint without an '
                 'equivalent state cell is skipped instead of recorded as None, so entry 0 need not belong to the initial endpoint',
                 tag=tag, entries=[(e[0] if e else None) for e in (tm or ())], entries_transform_state_into=to)
            continue
        for e, end in zip(tm, (s0, s1)):
            ctx.count('mappings' if e is not None else 'mappings:none')
            if e is None:
                hit = _equivalent_state(statelist, end)
                if hit is not None:
                    viol('mapping-missing', 'an endpoint has no recorded mapping although a state cell is equivalent to it',
                         tag=tag, state=hit)
                continue
            k, g, mp = e
            ctx.case((name, S.tobytes(), tag, k, 'map'), nontrivial=size > 1)
            if k not in states:
                viol('mapping-unknown-state', 'mapping names a state tag that is not in superdict[states]', tag=tag, state=k); continue
            st = states[k]
            if not any(h is g or h == g for h in st.G):
                viol('mapping-foreign-op', 'mapping op is not an op of the state supercell', tag=tag, state=k); continue
            T = g * st
            try:
                T.reorder(mp)
                ok = np.array_equal(T.occ, end.occ) and T.chemorder == end.chemorder
            except Exception as ex:
                ok = False
            if not ok:
                viol('mapping-does-not-transform', 'g*state reordered by mapping is not the transition endpoint (occ and chemorder)',
                     tag=tag, state=k, indexmap=_j(g.indexmap[0]), mapping=_j(mp), state_cell=_cell(st), endpoint=_cell(end))
                continue
            lines.append('apply %s %s %s %s' % (_l(st.occ), _ll(st.chemorder), _l(g.indexmap[0]), _ll(mp)))
            checks.append((dict(rep0, tag=tag, state=k), _cell(end), 'apply'))


def _inhalf(v):
    return v - np.floor(v + 0.5)


def _equivalent_state(statelist, end):
    n = len(end.occ)
    for k, st in statelist:
        Gl = list(st.G)
        IM = np.array([g.indexmap[0] for g in Gl])
        gocc = np.empty((len(Gl), n), dtype=int)
        gocc[np.arange(len(Gl))[:, None], IM] = st.occ[None, :]
        if (gocc == end.occ[None, :]).all(axis=1).any():
            return k
    return None


# ---------------------------------------------------------------- generation
_DIAG = [np.diag([1, 1, 1]), np.diag([2, 1, 1]), np.diag([2, 2, 1]), np.diag([2, 2, 2]), np.diag([3, 2, 2]), np.diag([3, 3, 3]),
         np.diag([4, 3, 3]), np.diag([4, 4, 4])]
_SKEW = [np.array([[-1, 1, 1], [1, -1, 1], [1, 1, -1]]), np.array([[0, 1, 1], [1, 0, 1], [1, 1, 0]]),
         np.array([[2, 1, 0], [0, 2, 0], [0, 0, 2]]), np.array([[1, 1, 0], [-1, 1, 0], [0, 0, 2]]),
         np.array([[2, 0, 0], [0, 1, 1], [0, -1, 1]]), 2 * np.array([[-1, 1, 1], [1, -1, 1], [1, 1, -1]]),
         np.array([[2, -1, 0], [1, 2, 0], [0, 0, 2]]), np.array([[3, 1, 0], [0, 3, 1], [1, 0, 3]])]


def _mats(rng, k, maxsites, natoms):
    out, tries = [], 0
    while len(out) < k and tries < 50:
        tries += 1
        r = rng.random()
        if r < 0.55: S = _DIAG[rng.randrange(len(_DIAG))]
        elif r < 0.85: S = _SKEW[rng.randrange(len(_SKEW))]
        else: S = c27zoo.supermat(rng, maxsize=27)
        size = abs(int(round(np.linalg.det(S))))
        if size * natoms > maxsites: continue
        if any(np.array_equal(S, T) for T in out): continue
        out.append(S.copy())
    return out


def _run(ctx, nmat, maxsites, Nthermo_list=(1,)):
    rng = ctx.rng
    t_start = time.time()
    lines, checks = [], []
    todo = [('I',) + z for z in c27zoo.interstitial_zoo(rng)] + [('V',) + z for z in c27zoo.vacancy_zoo(rng)]
    rng.shuffle(todo)
    # hosts with several inequivalent Wyckoff positions per species are always exercised (first)
    todo.sort(key=lambda z: 0 if (z[1] in c27zoo.MULTI_WYCKOFF or z[1] in ('omega', 'mono')) else 1)
    for kind, name, crys, chem in todo:
        if time.time() - t_start > (45 if ctx.quick else 1000): break
        Nth = rng.choice(Nthermo_list)
        with warnings.catch_warnings():
            warnings.simplefilter('ignore')
            calc = c27zoo.interstitial_calc(name, crys, chem) if kind == 'I' else c27zoo.vacancy_calc(name, crys, chem, Nth)
        for S in _mats(rng, nmat, maxsites, crys.N):
            sd, warns = c27zoo.makesupercells(calc, S)
            ctx.count('calc:' + kind); ctx.count('crystal:' + name)
            ctx.count('supercell:nondiagonal' if np.any(S != np.diag(np.diag(S))) else 'supercell:diagonal')
            if warns: ctx.count('supercell:warned')
            check_superdict(ctx, kind, name, calc, S, sd, warns, lines, checks)
    if ctx.evaluations == 0:
        raise RuntimeError('C29: no case was evaluated (generation produced nothing)')
    got = ctx.lean(DRIVER, lines, timeout=1200)
    for line, ans, (rep, exp, what) in zip(lines, got, checks):
        if ans != exp:
            ctx.disagree('%s: model `%s` impl `%s`' % (what, ans[:200], exp[:200]), dict(rep, line=line, model=ans, impl=exp))


def run(ctx):
    if ctx.quick:
        _run(ctx, nmat=3, maxsites=130)
    else:
        _run(ctx, nmat=10, maxsites=260, Nthermo_list=(1, 1, 2))


def search(ctx, reasons):
    _run(ctx, nmat=4, maxsites=100)
